(* Generic driver: velaverif <cmd-number>; each stdin line is a list of decimal integers,
   each stdout line the model's result list. Integers are converted to/from the extracted Z
   (binary positive), so there is no bound on magnitudes. *)
open Velamodel

let rec pos_of_z (n : Stdlib.Int.t) : positive =
  if n = 1 then XH else if n land 1 = 0 then XO (pos_of_z (n lsr 1)) else XI (pos_of_z (n lsr 1))

let z_of_int (n : int) : z = if n = 0 then Z0 else if n > 0 then Zpos (pos_of_z n) else Zneg (pos_of_z (-n))

let ten = z_of_int 10

let z_of_string (s : string) : z =
  let len = String.length s in
  if len <= 17 then z_of_int (int_of_string s)
  else begin
    let neg = s.[0] = '-' in
    let acc = ref Z0 in
    for i = (if neg then 1 else 0) to len - 1 do
      acc := Z.add (Z.mul !acc ten) (z_of_int (Char.code s.[i] - 48))
    done;
    if neg then Z.opp !acc else !acc
  end

let rec int_of_pos (p : positive) : int = match p with XH -> 1 | XO q -> 2 * int_of_pos q | XI q -> 2 * int_of_pos q + 1

let rec pos_bits (p : positive) : int = match p with XH -> 1 | XO q -> 1 + pos_bits q | XI q -> 1 + pos_bits q

let rec string_of_z (x : z) : string =
  match x with
  | Z0 -> "0"
  | Zneg p -> "-" ^ string_of_z (Zpos p)
  | Zpos p ->
    if pos_bits p <= 61 then string_of_int (int_of_pos p)
    else begin
      (* split by 10^15 *)
      let big = z_of_int 1000000000000000 in
      let (q, r) = Z.div_eucl x big in
      let rs = string_of_z r in
      string_of_z q ^ String.make (15 - String.length rs) '0' ^ rs
    end

let rec to_coq_list (l : z list) = l

let () =
  let cmd = z_of_string Sys.argv.(1) in
  let buf = Buffer.create 65536 in
  (try
    while true do
      let line = input_line stdin in
      let toks = List.filter (fun s -> s <> "") (String.split_on_char ' ' line) in
      let args = List.map z_of_string toks in
      let res = run cmd args in
      Buffer.clear buf;
      List.iteri (fun i x -> if i > 0 then Buffer.add_char buf ' '; Buffer.add_string buf (string_of_z x)) res;
      Buffer.add_char buf '\n';
      print_string (Buffer.contents buf)
    done
  with End_of_file -> ())
