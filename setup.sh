#!/bin/bash
# Builds the whole Coq development and the extracted model binary from files on disk (offline).
cd "$(dirname "$0")"
mkdir -p build evidence replay
/venv/bin/python - <<'PY'
import sys
sys.path.insert(0, "tools")
import vlib, glob, os
with vlib.Lock():
    vlib.regenerate()
    targets = [os.path.relpath(f, vlib.COQ) + "o" for d in vlib.COQ_DIRS for f in sorted(glob.glob(os.path.join(vlib.COQ, d, "*.v")))]
    ok, log, wall, cmd = vlib.coq_make(targets, timeout=3000)
    print("coq build:", "ok" if ok else "FAILED", "%.0fs" % wall)
    if not ok:
        print(log[-3000:])
ok2, log2 = vlib.build_extraction()
print("extraction build:", "ok" if ok2 else "FAILED")
if not ok2:
    print(log2[-2000:])
# setup never fails the harness because of one broken file: the checks report it per property
PY
exit 0
