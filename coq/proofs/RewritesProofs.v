From Coq Require Import ZArith List Bool Lia.
From VV Require Import model.Rewrites.
Import ListNotations.
Open Scope Z_scope.
Ltac Zify.zify_post_hook ::= Z.to_euclidean_division_equations.

Lemma taps_ext k w f g q s q' s' :
  (forall j, (j < k)%nat -> f (q + Z.of_nat j * s) = g (q' + Z.of_nat j * s')) ->
  taps k w f q s = taps k w g q' s'.
Proof.
  intros H. unfold taps. f_equal. apply map_ext_in. intros j Hj. apply in_seq in Hj.
  rewrite H by lia. reflexivity.
Qed.

Lemma phase_position d i j : 0 < d -> (i / d + Z.of_nat j * 1) * d + i mod d = i + Z.of_nat j * d.
Proof.
  intros Hd. pose proof (Z.div_mod i d ltac:(lia)) as H.
  set (qq := i / d) in *. set (rr := i mod d) in *. clearbody qq rr. rewrite H at 1. ring.
Qed.

(* space-to-batch, a VALID convolution of every phase, batch-to-space: a correlation with dilation d *)
Theorem s2b_conv_b2s_lemma d k w (x : Z -> Z) i :
  0 < d ->
  batch_to_space d (fun p => conv_valid k w (space_to_batch d x p)) i = taps k w x i d.
Proof.
  intros Hd. unfold batch_to_space, conv_valid. apply taps_ext. intros j _.
  unfold space_to_batch. rewrite (phase_position d i j Hd). reflexivity.
Qed.

(* the chain with paddings pt and crop ct equals the dilated convolution with pt - ct zeros in front *)
Theorem chain_is_dilated_lemma d k w n pt ct x y :
  0 < d -> chain d k w n pt ct x y = dilated_conv d k w n (pt - ct) x y.
Proof.
  intros Hd. unfold chain. rewrite (s2b_conv_b2s_lemma d k w (pad_signal n pt x) (y + ct) Hd).
  unfold dilated_conv. apply taps_ext. intros j _. unfold pad_signal.
  replace (y + ct + Z.of_nat j * d - pt) with (y + Z.of_nat j * d - (pt - ct)) by ring. reflexivity.
Qed.

Lemma axis_decision_spec i o k d pt ct :
  match axis_decision i o k d pt ct with
  | AReject => True
  | AFree => (k - 1) * d = 0 /\ o = i /\ pt - ct = 0
  | ASame => (k - 1) * d <> 0 /\ o = i /\ pt - ct = ((k - 1) * d) / 2
  | AValid => (k - 1) * d <> 0 /\ o = i - (k - 1) * d /\ pt - ct = 0
  end.
Proof.
  unfold axis_decision. remember ((k - 1) * d) as span eqn:Es. remember (pt - ct) as lead eqn:El. clear Es El.
  destruct (Z.eqb_spec o i) as [Hoi|Hoi]; destruct (Z.eqb_spec lead (span / 2)) as [Hl|Hl];
  destruct (Z.eqb_spec o (i - span)) as [Hov|Hov]; destruct (Z.eqb_spec lead 0) as [Hl0|Hl0]; cbn [andb orb negb];
  try exact I; destruct (Z.eqb_spec span 0) as [Hs|Hs];
  repeat split; try assumption; try lia;
  try (subst span; cbn in *; lia).
Qed.

Theorem dilated_decision_sound_lemma ih iw oh ow kh kw bh bw pt pl ct cl m :
  dilated_decision ih iw oh ow kh kw bh bw pt pl ct cl = m -> m <> 0 ->
  (m = 1 \/ m = 2) /\
  pt - ct = vela_lead_pad m ((kh - 1) * bh) /\ pl - cl = vela_lead_pad m ((kw - 1) * bw) /\
  oh = (if m =? 1 then ih else ih - (kh - 1) * bh) /\ ow = (if m =? 1 then iw else iw - (kw - 1) * bw).
Proof.
  unfold dilated_decision. intros H Hm.
  pose proof (axis_decision_spec ih oh kh bh pt ct) as Hh.
  pose proof (axis_decision_spec iw ow kw bw pl cl) as Hw.
  unfold vela_lead_pad.
  destruct (axis_decision ih oh kh bh pt ct); destruct (axis_decision iw ow kw bw pl cl); subst m;
    try (exfalso; apply Hm; reflexivity);
    cbn [Z.eqb Pos.eqb];
    repeat match goal with Hx : _ /\ _ |- _ => destruct Hx end;
    repeat split; try (left; reflexivity); try (right; reflexivity); try assumption;
    try match goal with Hx : ?s = 0 |- _ => rewrite Hx in *; cbn in * end; lia.
Qed.

(* non-vacuity and the old behaviour *)
Example decision_same : dilated_decision 6 8 6 8 3 3 2 2 2 2 0 0 = 1.
Proof. vm_compute. reflexivity. Qed.
Example decision_valid : dilated_decision 12 14 6 8 3 3 3 3 0 0 0 0 = 2.
Proof. vm_compute. reflexivity. Qed.
Example decision_mixed_rejected : dilated_decision 12 8 6 8 3 3 3 2 0 2 0 0 = 0.
Proof. vm_compute. reflexivity. Qed.

(* what the code did before 11d016e - SAME whatever the paddings - is not the chain for a VALID one:
   d = 2, three taps of weight 1, eight samples 1..8, no padding, no crop, first output *)
Theorem always_same_refuted_lemma :
  exists d k w n x y, 0 < d /\
    chain d k w n 0 0 x y <> dilated_conv d k w n (((Z.of_nat k - 1) * d) / 2) x y.
Proof.
  exists 2, 3%nat, (fun _ => 1), 8, (fun u => u + 1), 0. split; [lia|]. vm_compute. discriminate.
Qed.
