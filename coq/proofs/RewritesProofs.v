From Coq Require Import ZArith List Bool Lia.
From VV Require Import model.Rewrites.
Import ListNotations.
Open Scope Z_scope.
Ltac Zify.zify_post_hook ::= Z.to_euclidean_division_equations.

Lemma taps_ext k w f g q s q' s' :
  (forall j, (j < k)%nat -> f (q + Z.of_nat j * s) = g (q' + Z.of_nat j * s')) ->
  taps k w f q s = taps k w g q' s'.
Proof.
  intros H. unfold taps. f_equal. apply map_ext_in. intros j Hj. apply in_seq in Hj.
  rewrite H by lia. reflexivity.
Qed.

Lemma phase_position d i j : 0 < d -> (i / d + Z.of_nat j * 1) * d + i mod d = i + Z.of_nat j * d.
Proof.
  intros Hd. pose proof (Z.div_mod i d ltac:(lia)) as H.
  set (qq := i / d) in *. set (rr := i mod d) in *. clearbody qq rr. rewrite H at 1. ring.
Qed.

(* space-to-batch, a VALID convolution of every phase, batch-to-space: a correlation with dilation d *)
Theorem s2b_conv_b2s_lemma d k w (x : Z -> Z) i :
  0 < d ->
  batch_to_space d (fun p => conv_valid k w (space_to_batch d x p)) i = taps k w x i d.
Proof.
  intros Hd. unfold batch_to_space, conv_valid. apply taps_ext. intros j _.
  unfold space_to_batch. rewrite (phase_position d i j Hd). reflexivity.
Qed.

(* the chain with paddings pt and crop ct equals the dilated convolution with pt - ct zeros in front *)
Theorem chain_is_dilated_lemma d k w n pt ct x y :
  0 < d -> chain d k w n pt ct x y = dilated_conv d k w n (pt - ct) x y.
Proof.
  intros Hd. unfold chain. rewrite (s2b_conv_b2s_lemma d k w (pad_signal n pt x) (y + ct) Hd).
  unfold dilated_conv. apply taps_ext. intros j _. unfold pad_signal.
  replace (y + ct + Z.of_nat j * d - pt) with (y + Z.of_nat j * d - (pt - ct)) by ring. reflexivity.
Qed.

Lemma axis_decision_spec i o k d pt ct :
  match axis_decision i o k d pt ct with
  | AReject => True
  | AFree => (k - 1) * d = 0 /\ o = i /\ pt - ct = 0
  | ASame => (k - 1) * d <> 0 /\ o = i /\ pt - ct = ((k - 1) * d) / 2
  | AValid => (k - 1) * d <> 0 /\ o = i - (k - 1) * d /\ pt - ct = 0
  end.
Proof.
  unfold axis_decision. remember ((k - 1) * d) as span eqn:Es. remember (pt - ct) as lead eqn:El. clear Es El.
  destruct (Z.eqb_spec o i) as [Hoi|Hoi]; destruct (Z.eqb_spec lead (span / 2)) as [Hl|Hl];
  destruct (Z.eqb_spec o (i - span)) as [Hov|Hov]; destruct (Z.eqb_spec lead 0) as [Hl0|Hl0]; cbn [andb orb negb];
  try exact I; destruct (Z.eqb_spec span 0) as [Hs|Hs];
  repeat split; try assumption; try lia;
  try (subst span; cbn in *; lia).
Qed.

Theorem dilated_decision_sound_lemma ih iw oh ow kh kw bh bw pt pl ct cl m :
  dilated_decision ih iw oh ow kh kw bh bw pt pl ct cl = m -> m <> 0 ->
  (m = 1 \/ m = 2) /\
  pt - ct = vela_lead_pad m ((kh - 1) * bh) /\ pl - cl = vela_lead_pad m ((kw - 1) * bw) /\
  oh = (if m =? 1 then ih else ih - (kh - 1) * bh) /\ ow = (if m =? 1 then iw else iw - (kw - 1) * bw).
Proof.
  unfold dilated_decision. intros H Hm.
  pose proof (axis_decision_spec ih oh kh bh pt ct) as Hh.
  pose proof (axis_decision_spec iw ow kw bw pl cl) as Hw.
  unfold vela_lead_pad.
  destruct (axis_decision ih oh kh bh pt ct); destruct (axis_decision iw ow kw bw pl cl); subst m;
    try (exfalso; apply Hm; reflexivity);
    cbn [Z.eqb Pos.eqb];
    repeat match goal with Hx : _ /\ _ |- _ => destruct Hx end;
    repeat split; try (left; reflexivity); try (right; reflexivity); try assumption;
    try match goal with Hx : ?s = 0 |- _ => rewrite Hx in *; cbn in * end; lia.
Qed.

(* non-vacuity and the old behaviour *)
Example decision_same : dilated_decision 6 8 6 8 3 3 2 2 2 2 0 0 = 1.
Proof. vm_compute. reflexivity. Qed.
Example decision_valid : dilated_decision 12 14 6 8 3 3 3 3 0 0 0 0 = 2.
Proof. vm_compute. reflexivity. Qed.
Example decision_mixed_rejected : dilated_decision 12 8 6 8 3 3 3 2 0 2 0 0 = 0.
Proof. vm_compute. reflexivity. Qed.

(* what the code did before 11d016e - SAME whatever the paddings - is not the chain for a VALID one:
   d = 2, three taps of weight 1, eight samples 1..8, no padding, no crop, first output *)
Theorem always_same_refuted_lemma :
  exists d k w n x y, 0 < d /\
    chain d k w n 0 0 x y <> dilated_conv d k w n (((Z.of_nat k - 1) * d) / 2) x y.
Proof.
  exists 2, 3%nat, (fun _ => 1), 8, (fun u => u + 1), 0. split; [lia|]. vm_compute. discriminate.
Qed.

(* ---------- a wider kernel with neutral filling is a dilation ---------- *)
Lemma zsum_app l1 l2 : zsum (l1 ++ l2) = zsum l1 + zsum l2.
Proof. induction l1 as [|a l IH]; cbn [zsum fold_right app]; [reflexivity|]. fold (zsum (l ++ l2)). fold (zsum l). lia. Qed.

Lemma zsum_map_zero (g : nat -> Z) l : (forall j, In j l -> g j = 0) -> zsum (map g l) = 0.
Proof.
  induction l as [|a l IH]; intros H; cbn [zsum fold_right map]; [reflexivity|].
  fold (zsum (map g l)). rewrite IH by (intros j Hj; apply H; now right). rewrite (H a) by now left. reflexivity.
Qed.

Lemma taps_split n m w f q s :
  taps (n + m) w f q s = taps n w f q s + zsum (map (fun j => w j * f (q + Z.of_nat j * s)) (seq n m)).
Proof. unfold taps. rewrite seq_app, map_app, zsum_app. reflexivity. Qed.

Lemma seq_last n r : (1 <= r)%nat -> seq n r = seq n (r - 1) ++ [(n + (r - 1))%nat].
Proof.
  intros Hr. assert (H : seq n ((r - 1) + 1) = seq n (r - 1) ++ [(n + (r - 1))%nat]) by (rewrite seq_app; reflexivity).
  replace ((r - 1) + 1)%nat with r in H by lia. exact H.
Qed.

Theorem widened_taps_lemma (r k : nat) w zp f q s :
  (1 <= r)%nat -> (1 <= k)%nat ->
  taps (widened_len k r) (fun j => widened r w zp j - zp) f q s =
  taps k (fun j => w j - zp) f q (Z.of_nat r * s).
Proof.
  intros Hr Hk. destruct k as [|k']; [lia|]. clear Hk.
  induction k' as [|k' IH].
  - unfold widened_len, taps. cbn [Nat.sub Nat.mul Nat.add seq map zsum fold_right].
    unfold widened. rewrite Nat.mod_0_l by lia. cbn [Nat.eqb]. rewrite Nat.div_0_l by lia.
    replace (q + Z.of_nat 0 * s) with (q + Z.of_nat 0 * (Z.of_nat r * s)) by (cbn; lia). reflexivity.
  - replace (widened_len (S (S k')) r) with (widened_len (S k') r + r)%nat by (unfold widened_len; cbn [Nat.sub]; lia).
    rewrite taps_split, IH.
    assert (HR : forall W S', taps (S (S k')) W f q S' =
                 taps (S k') W f q S' + zsum (map (fun j => W j * f (q + Z.of_nat j * S')) (seq (S k') 1))).
    { intros W S'. replace (S (S k')) with (S k' + 1)%nat by lia. apply taps_split. }
    rewrite HR. clear HR.
    f_equal.
    (* the r new positions: only the last one is a multiple of r *)
    set (n := widened_len (S k') r).
    assert (Hn : n = (k' * r + 1)%nat) by (unfold n, widened_len; cbn [Nat.sub]; lia).
    rewrite (seq_last n r Hr), map_app, zsum_app.
    rewrite zsum_map_zero.
    + cbn [seq map zsum fold_right]. rewrite !Z.add_0_r, Z.add_0_l.
      assert (Hlast : (n + (r - 1))%nat = ((S k') * r)%nat) by (rewrite Hn; cbn [Nat.mul]; lia).
      rewrite Hlast. unfold widened.
      rewrite Nat.mod_mul by lia. cbn [Nat.eqb]. rewrite Nat.div_mul by lia.
      f_equal. f_equal. rewrite Nat2Z.inj_mul. ring.
    + intros j Hj. apply in_seq in Hj. unfold widened.
      assert (Hm : (j mod r)%nat = (j - k' * r)%nat).
      { replace j with ((j - k' * r) + k' * r)%nat at 1 by lia. rewrite Nat.mod_add by lia. apply Nat.mod_small. lia. }
      rewrite Hm. destruct (Nat.eqb_spec (j - k' * r) 0) as [He|_]; [lia|]. ring.
Qed.

(* the split of a dilation into the hardware's part and the kernel's part is exact *)
Lemma dilation_split d : 0 < d -> hw_dilation d * kernel_spread d = d /\ (hw_dilation d = 1 \/ hw_dilation d = 2).
Proof.
  intros Hd. unfold kernel_spread, hw_dilation. destruct (Z.odd d) eqn:Ho.
  - split; [rewrite Z.div_1_r; lia | now left].
  - split; [|now right]. rewrite <- Z.negb_even in Ho. apply negb_false_iff in Ho. apply Z.even_spec in Ho.
    destruct Ho as [m ->]. rewrite (Z.mul_comm 2 m), Z.div_mul by lia. lia.
Qed.

Example widened_list_example : widened_list 3 2 [5; 7; 9] 128 = [5; 128; 7; 128; 9].
Proof. vm_compute. reflexivity. Qed.

(* a row of the two-dimensional kernel: the widened row of the original kernel, or filling only *)
Lemma widened2_rows kh kw rh rw w fill h' :
  (h' < widened_len kh rh)%nat ->
  nth h' (widened2 kh kw rh rw w fill) [] =
  if (h' mod rh =? 0)%nat then widened_list kw rw (nth (h' / rh)%nat w []) fill
  else map (fun _ => fill) (seq 0 (widened_len kw rw)).
Proof.
  intros Hh. unfold widened2.
  rewrite (nth_indep _ [] (map (fun _ : nat => 0) [] ++ [])) by (rewrite map_length, seq_length; exact Hh).
  cbn [map app].
  set (F := fun h'0 : nat => map (fun w' : nat => if ((h'0 mod rh =? 0) && (w' mod rw =? 0))%nat
                                   then nth (w' / rw)%nat (nth (h'0 / rh)%nat w []) 0 else fill) (seq 0 (widened_len kw rw))).
  change [] with (F 0%nat) at 1 || idtac.
  rewrite (nth_indep _ [] (F 0%nat)) by (rewrite map_length, seq_length; exact Hh).
  rewrite (map_nth F (seq 0 (widened_len kh rh)) 0%nat h'), seq_nth by exact Hh. cbn [Nat.add]. unfold F.
  destruct (h' mod rh =? 0)%nat; cbn [andb].
  - unfold widened_list, widened. apply map_ext. intros a. reflexivity.
  - apply map_ext. intros a. reflexivity.
Qed.

(* ---------- one PAD as two ---------- *)
Lemma in_box_compose : forall lo1 lo2 hi2 n i,
  Forall (fun v => 0 <= v) lo2 -> Forall (fun v => 0 <= v) hi2 ->
  length lo1 = length n -> length lo2 = length n -> length hi2 = length n -> length i = length n ->
  in_box lo1 (zadd (zadd n lo2) hi2) i && in_box lo2 n (zsub i lo1) = in_box (zadd lo1 lo2) n i.
Proof.
  induction lo1 as [|a lo1 IH]; intros lo2 hi2 n i H2 Hh L1 L2 Lh Li.
  - destruct n; [|discriminate]. destruct lo2; [|discriminate]. destruct hi2; [|discriminate]. destruct i; [|discriminate].
    reflexivity.
  - destruct n as [|m n]; [discriminate|]. destruct lo2 as [|b lo2]; [discriminate|]. destruct hi2 as [|c hi2]; [discriminate|].
    destruct i as [|j i]; [discriminate|].
    inversion H2 as [|? ? Hb H2']; subst. inversion Hh as [|? ? Hc Hh']; subst.
    cbn [in_box zadd zsub]. cbn [length] in *.
    rewrite <- (IH lo2 hi2 n i H2' Hh') by lia.
    destruct (in_box lo1 (zadd (zadd n lo2) hi2) i); destruct (in_box lo2 n (zsub i lo1));
      cbn [andb]; rewrite ?andb_true_r, ?andb_false_r; try reflexivity; lia.
Qed.

Lemma zsub_zsub : forall i a b, length a = length i -> length b = length i -> zsub (zsub i a) b = zsub i (zadd a b).
Proof.
  induction i as [|j i IH]; intros a b La Lb.
  - destruct a; [|discriminate]. destruct b; [|discriminate]. reflexivity.
  - destruct a as [|x a]; [discriminate|]. destruct b as [|y b]; [discriminate|]. cbn [zsub zadd]. cbn [length] in *.
    rewrite IH by lia. f_equal. lia.
Qed.

(* padding lo2 / hi2 first and lo1 afterwards is padding lo1 + lo2: for every rank, every extents, every index *)
Theorem pad_twice_is_pad_once_lemma lo1 lo2 hi2 n x i :
  Forall (fun v => 0 <= v) lo2 -> Forall (fun v => 0 <= v) hi2 ->
  length lo1 = length n -> length lo2 = length n -> length hi2 = length n -> length i = length n ->
  pad_nd lo1 (zadd (zadd n lo2) hi2) (pad_nd lo2 n x) i = pad_nd (zadd lo1 lo2) n x i.
Proof.
  intros H2 Hh L1 L2 Lh Li. unfold pad_nd.
  rewrite <- (in_box_compose lo1 lo2 hi2 n i H2 Hh L1 L2 Lh Li).
  destruct (in_box lo1 (zadd (zadd n lo2) hi2) i); cbn [andb]; [|reflexivity].
  destruct (in_box lo2 n (zsub i lo1)); [|reflexivity].
  rewrite zsub_zsub by lia. reflexivity.
Qed.

(* the split keeps one row and moves the others: the two matrices add up to the original one, the kept one pads the
   batch or the channels only, the moved one does not pad that axis *)
Definition madd (a b : list (Z * Z)) : list (Z * Z) :=
  map (fun p => (fst (fst p) + fst (snd p), snd (fst p) + snd (snd p))) (combine a b).

Theorem pad_split_sound_lemma m axis kept moved :
  pad_split m = Some (axis, kept, moved) ->
  madd kept moved = m /\ (axis = 0%nat \/ axis = 3%nat) /\
  nth axis moved (0, 0) = (0, 0) /\ (forall a, a <> axis -> nth a kept (0, 0) = (0, 0)) /\
  nth axis kept (0, 0) = nth axis m (0, 0).
Proof.
  unfold pad_split. destruct m as [|b [|h [|w [|c [|? ?]]]]]; try discriminate.
  destruct (negb (negb (row_sum b =? 0) || negb (row_sum c =? 0)) || _); [discriminate|].
  destruct b as [b0 b1], h as [h0 h1], w as [w0 w1], c as [c0 c1].
  destruct (negb (row_sum (b0, b1) =? 0)); intros H; injection H as <- <- <-; cbn;
    (split; [repeat f_equal; lia|]); (split; [auto|]); (split; [reflexivity|]); (split; [|reflexivity]);
    intros a Ha; destruct a as [|[|[|[|a]]]]; try reflexivity; try (exfalso; apply Ha; reflexivity); destruct a; reflexivity.
Qed.

Example pad_split_example :
  pad_split [(0, 0); (1, 1); (2, 1); (0, 4)] = Some (3%nat, [(0, 0); (0, 0); (0, 0); (0, 4)], [(0, 0); (1, 1); (2, 1); (0, 0)]).
Proof. vm_compute. reflexivity. Qed.
Example pad_split_spatial_only : pad_split [(0, 0); (1, 1); (2, 1); (0, 0)] = None.
Proof. vm_compute. reflexivity. Qed.

(* ---------- an average pool as a convolution with a diagonal kernel ---------- *)
Theorem diag_channel_sum_lemma depth co f : (co < depth)%nat -> channel_mix depth diag_weight f co = f co.
Proof.
  intros H. unfold channel_mix.
  replace depth with (co + (1 + (depth - co - 1)))%nat by lia.
  rewrite !seq_app, !map_app, !zsum_app. cbn [seq map zsum fold_right Nat.add].
  rewrite zsum_map_zero, zsum_map_zero.
  - unfold diag_weight. rewrite Nat.eqb_refl. lia.
  - intros j Hj. apply in_seq in Hj. unfold diag_weight. destruct (Nat.eqb_spec j co); [lia|]. lia.
  - intros j Hj. apply in_seq in Hj. unfold diag_weight. destruct (Nat.eqb_spec j co); [lia|]. lia.
Qed.

(* ones everywhere (every output channel sums all input channels) is not the pool as soon as there are two channels *)
Theorem all_ones_kernel_refuted_lemma :
  exists depth co f, (co < depth)%nat /\ channel_mix depth (fun _ _ => 1) f co <> f co.
Proof. exists 2%nat, 0%nat, (fun ci => Z.of_nat ci + 1). split; [lia|]. vm_compute. discriminate. Qed.

(* ---------- a grouped convolution as split / convolutions / concatenation ---------- *)
Theorem conv_groups_lemma icg ocg w x co :
  (0 < ocg)%nat ->
  concat_groups ocg (fun g co' => group_conv icg ocg g w x co') co = grouped_mix icg ocg w x co.
Proof.
  intros H. unfold concat_groups, group_conv, grouped_mix, split_part. f_equal. apply map_ext. intros ci.
  replace ((co / ocg) * ocg + co mod ocg)%nat with co; [reflexivity|].
  rewrite (Nat.div_mod co ocg) at 1 by lia. lia.
Qed.

Example group_slices_example : group_slices 2 8 6 = [(0, 4, 0, 3); (4, 8, 3, 6)].
Proof. vm_compute. reflexivity. Qed.

(* ---------- folding the width into the depth ---------- *)
Lemma zsum_product (A B : nat) (f : nat -> Z) :
  zsum (map f (seq 0 (A * B))) = zsum (map (fun a => zsum (map (fun b => f (a * B + b)%nat) (seq 0 B))) (seq 0 A)).
Proof.
  induction A as [|A IH]; [reflexivity|].
  replace (S A * B)%nat with (A * B + B)%nat by lia. rewrite seq_app, map_app, zsum_app, IH.
  replace (S A) with (A + 1)%nat by lia. rewrite (seq_app A 1), map_app, zsum_app. f_equal.
  cbn [seq map zsum fold_right Nat.add]. rewrite Z.add_0_r.
  rewrite <- (map_map (fun b => (A * B + b)%nat) f). f_equal.
  clear. generalize (A * B)%nat as m. intros m.
  assert (H : forall len start, map (fun b => (m + b)%nat) (seq start len) = seq (m + start) len).
  { induction len as [|len IHl]; intros start; [reflexivity|]. cbn [seq map]. rewrite IHl.
    replace (m + S start)%nat with (S (m + start)) by lia. reflexivity. }
  rewrite H. replace (m + 0)%nat with m by lia. reflexivity.
Qed.

Lemma zsum_ext (f g : nat -> Z) l : (forall i, In i l -> f i = g i) -> zsum (map f l) = zsum (map g l).
Proof. intros H. f_equal. apply map_ext_in. exact H. Qed.

(* the folded operator computes the strided one: every fold factor n > 0, channel count c > 0, kernel, map, stride, offset *)
Theorem folded_conv_lemma kq n c wp x s offq o :
  (0 < n)%nat -> (0 < c)%nat ->
  folded_conv kq n c wp x s offq o = strided_conv kq n c wp x s (offq * Z.of_nat n) o.
Proof.
  intros Hn Hc. unfold folded_conv, strided_conv, dsum.
  rewrite (zsum_product kq n (fun k => zsum (map (fun ch => wp k ch * x (o * (Z.of_nat n * s) - offq * Z.of_nat n + Z.of_nat k) ch) (seq 0 c)))).
  apply zsum_ext. intros q _.
  rewrite (zsum_product n c (fun d => fold_w n c wp q d * fold_x n c x (o * s - offq + Z.of_nat q) d)).
  apply zsum_ext. intros j Hj. apply in_seq in Hj. apply zsum_ext. intros ch Hch. apply in_seq in Hch.
  unfold fold_w, fold_x.
  assert (Hd : ((j * c + ch) / c = j)%nat) by (rewrite Nat.div_add_l by lia; rewrite (Nat.div_small ch c) by lia; lia).
  assert (Hm : ((j * c + ch) mod c = ch)%nat) by (rewrite Nat.add_comm, Nat.mod_add by lia; apply Nat.mod_small; lia).
  rewrite Hd, Hm. f_equal. f_equal. rewrite Nat2Z.inj_add, Nat2Z.inj_mul. ring.
Qed.

(* zeros around the kernel do not contribute: with l zeros in front, the padded kernel at offset off is the kernel at off - l *)
Lemma pad_kernel_taps l kw K c w (x : Z -> nat -> Z) (base : Z) :
  (l + kw <= K)%nat ->
  dsum K c (fun k ch => pad_kernel l kw w k ch * x (base + Z.of_nat k) ch) =
  dsum kw c (fun k ch => w k ch * x (base + Z.of_nat l + Z.of_nat k) ch).
Proof.
  intros HK. unfold dsum.
  replace K with (l + (kw + (K - l - kw)))%nat by lia. rewrite !seq_app, !map_app, !zsum_app.
  rewrite (zsum_map_zero _ (seq 0 l)), (zsum_map_zero _ (seq (0 + l + kw) (K - l - kw))).
  - rewrite Z.add_0_l, Z.add_0_r. cbn [Nat.add].
    assert (H : forall len start, map (fun i => zsum (map (fun j => pad_kernel l kw w i j * x (base + Z.of_nat i) j) (seq 0 c))) (seq (l + start) len)
                = map (fun i => zsum (map (fun j => pad_kernel l kw w (l + i) j * x (base + Z.of_nat (l + i)) j) (seq 0 c))) (seq start len)).
    { induction len as [|len IHl]; intros start; [reflexivity|]. cbn [seq map]. f_equal.
      replace (S (l + start)) with (l + S start)%nat by lia. apply IHl. }
    replace l with (l + 0)%nat at 1 by lia. rewrite H. apply zsum_ext. intros k Hk. apply in_seq in Hk.
    apply zsum_ext. intros ch _. unfold pad_kernel.
    destruct (Nat.leb_spec l (l + k)); [|lia]. destruct (Nat.ltb_spec (l + k) (l + kw)); [|lia]. cbn [andb].
    replace (l + k - l)%nat with k by lia. rewrite Nat2Z.inj_add. f_equal. f_equal. ring.
  - intros k Hk. apply in_seq in Hk. apply zsum_map_zero. intros ch _. unfold pad_kernel.
    destruct (Nat.leb_spec l k); cbn [andb]; [|lia]. destruct (Nat.ltb_spec k (l + kw)); [lia|]. lia.
  - intros k Hk. apply in_seq in Hk. apply zsum_map_zero. intros ch _. unfold pad_kernel.
    destruct (Nat.leb_spec l k); cbn [andb]; [lia|]. lia.
Qed.

Theorem strided_fold_lemma kq n c l kw w x s offq o :
  (0 < n)%nat -> (0 < c)%nat -> (l + kw <= kq * n)%nat ->
  folded_conv kq n c (pad_kernel l kw w) x s offq o =
  dsum kw c (fun k ch => w k ch * x (o * (Z.of_nat n * s) - offq * Z.of_nat n + Z.of_nat l + Z.of_nat k) ch).
Proof.
  intros Hn Hc HK. rewrite (folded_conv_lemma kq n c (pad_kernel l kw w) x s offq o Hn Hc).
  unfold strided_conv. apply (pad_kernel_taps l kw (kq * n) c w x (o * (Z.of_nat n * s) - offq * Z.of_nat n) HK).
Qed.

Theorem fold_conditions_sound_lemma stride n s width kw l r pad_old pad_new :
  fold_conditions stride n s width kw l r pad_old pad_new = true ->
  0 < n /\ stride = n * s /\ width mod n = 0 /\ (kw + l + r) mod n = 0 /\ pad_new * n - l = pad_old.
Proof.
  unfold fold_conditions. intros H.
  repeat (apply andb_true_iff in H; destruct H as [H ?]).
  repeat match goal with Hx : (_ =? _) = true |- _ => apply Z.eqb_eq in Hx | Hx : (_ <? _) = true |- _ => apply Z.ltb_lt in Hx end.
  repeat split; try assumption; lia.
Qed.

Example fold_conditions_example : fold_conditions 4 4 1 16 7 0 1 0 0 = true.    (* VALID, 7 taps padded to 8 *)
Proof. vm_compute. reflexivity. Qed.

(* ---------- PRELU ---------- *)
Theorem prelu_as_max_lemma a d x : 0 < d -> a <= d -> Z.max (a * x) (d * x) = prelu_val a d x.
Proof. intros Hd Ha. unfold prelu_val. destruct (Z.leb_spec 0 x); nia. Qed.

Theorem prelu_as_relu_plus_min_lemma a d x : d * Z.max x 0 + a * Z.min x 0 = prelu_val a d x.
Proof. unfold prelu_val. destruct (Z.leb_spec 0 x); [rewrite Z.max_l, Z.min_r by lia | rewrite Z.max_r, Z.min_l by lia]; lia. Qed.

(* the slope condition cannot be dropped: above 1 the maximum picks the wrong branch *)
Theorem prelu_as_max_needs_slope_below_one_lemma : exists a d x, 0 < d /\ Z.max (a * x) (d * x) <> prelu_val a d x.
Proof. exists 3, 2, (-1). split; [lia|]. vm_compute. discriminate. Qed.

Lemma zmax_list_ge l v : In v l -> v <= zmax_list l.
Proof.
  unfold zmax_list. generalize (hd 0 l) as h. induction l as [|a l IH]; intros h Hin; [destruct Hin|].
  cbn [fold_right]. destruct Hin as [->|Hin]; [lia|]. specialize (IH h Hin). lia.
Qed.

Theorem prelu_kind_max_sound_lemma codes zp sn sd :
  0 < sn -> 0 < sd -> prelu_kind codes zp sn sd = 2 ->
  forall c, In c codes -> (c - zp) * sn < sd.
Proof.
  intros Hn Hd. unfold prelu_kind.
  destruct (zmin_list codes - zp =? zmax_list codes - zp); [destruct (_ =? 0); discriminate|].
  destruct (Z.ltb_spec ((zmax_list codes - zp) * sn) sd) as [H|H]; [|discriminate].
  intros _ c Hc. pose proof (zmax_list_ge codes c Hc). nia.
Qed.

(* ---------- parts of a tensor along one axis ---------- *)
Lemma offsets_from_length start es : length (offsets_from start es) = length es.
Proof. revert start. induction es as [|e t IH]; intros start; cbn [offsets_from length]; [reflexivity|]. now rewrite IH. Qed.

(* every position of the axis lies in exactly the part find_slice names: existence ... *)
Theorem find_slice_total_lemma es : forall start k i0,
  Forall (fun e => 0 < e) es -> start <= k < start + zsum es ->
  exists i, find_slice start es k i0 = Some (i0 + i)%nat /\ (i < length es)%nat /\
            nth i (offsets_from start es) 0 <= k < nth i (offsets_from start es) 0 + nth i es 0.
Proof.
  induction es as [|e t IH]; intros start k i0 Hpos Hk.
  - cbn [zsum fold_right] in Hk. lia.
  - inversion Hpos as [|? ? He Ht]; subst. cbn [find_slice offsets_from zsum fold_right] in *. fold (zsum t) in Hk.
    destruct (Z.leb_spec start k) as [H1|H1]; [|lia]. destruct (Z.ltb_spec k (start + e)) as [H2|H2]; cbn [andb].
    + exists 0%nat. split; [f_equal; lia|]. split; [cbn; lia|]. cbn [nth]. lia.
    + destruct (IH (start + e) k (S i0) Ht ltac:(lia)) as [i [Hf [Hl Hr]]].
      exists (S i). split; [rewrite Hf; f_equal; lia|]. split; [cbn [length]; lia|]. cbn [nth]. exact Hr.
Qed.

Lemma offsets_ge es : forall start j,
  Forall (fun e => 0 <= e) es -> (j < length es)%nat -> start <= nth j (offsets_from start es) 0.
Proof.
  induction es as [|e t IH]; intros start j Hpos Hj; [cbn in Hj; lia|].
  inversion Hpos as [|? ? He Ht]; subst. destruct j as [|j]; cbn [offsets_from nth]; [lia|].
  cbn [length] in Hj. specialize (IH (start + e) j Ht ltac:(lia)). lia.
Qed.

(* ... and the parts do not overlap: a later part starts where the earlier ones have ended *)
Theorem slices_disjoint_lemma es : forall start i j,
  Forall (fun e => 0 <= e) es -> (i < j)%nat -> (j < length es)%nat ->
  nth i (offsets_from start es) 0 + nth i es 0 <= nth j (offsets_from start es) 0.
Proof.
  induction es as [|e t IH]; intros start i j Hpos Hij Hj; [cbn in Hj; lia|].
  inversion Hpos as [|? ? He Ht]; subst. destruct j as [|j]; [lia|]. cbn [length] in Hj.
  destruct i as [|i]; cbn [offsets_from nth].
  - apply (offsets_ge t (start + e) j Ht). lia.
  - apply IH; [exact Ht | lia | lia].
Qed.

Example offsets_example : offsets_from 0 [3; 1; 4] = [0; 3; 4].
Proof. vm_compute. reflexivity. Qed.

(* Vela's closed form of the SAME padding is the reference's (output extent = ceil (input / stride)) *)
Theorem needed_total_padding_is_reference_lemma input stride kernel :
  0 < stride -> 0 <= input -> needed_total_padding input stride kernel = tflite_total_padding input stride kernel.
Proof.
  intros Hs Hi. unfold needed_total_padding, tflite_total_padding.
  pose proof (Z.div_mod input stride ltac:(lia)) as Hdm. pose proof (Z.mod_pos_bound input stride Hs) as Hb.
  set (q := input / stride) in *. set (r := input mod stride) in *. clearbody q r.
  destruct (Z.eqb_spec r 0) as [Hr|Hr].
  - subst r. assert (Hq : (input + stride - 1) / stride = q).
    { symmetry. apply Z.div_unique with (r := stride - 1); [lia | lia]. }
    rewrite Hq. f_equal. nia.
  - assert (Hq : (input + stride - 1) / stride = q + 1).
    { symmetry. apply Z.div_unique with (r := r - 1); [lia | nia]. }
    rewrite Hq. f_equal. nia.
Qed.

(* ---------- transposed convolution ---------- *)
Lemma zsum_single (n : nat) (f : nat -> Z) (i0 : nat) :
  (i0 < n)%nat -> (forall i, (i < n)%nat -> i <> i0 -> f i = 0) -> zsum (map f (seq 0 n)) = f i0.
Proof.
  intros Hi H. replace n with (i0 + (1 + (n - i0 - 1)))%nat by lia.
  rewrite !seq_app, !map_app, !zsum_app. cbn [seq map zsum fold_right Nat.add].
  rewrite zsum_map_zero, zsum_map_zero; [lia | |].
  - intros j Hj. apply in_seq in Hj. apply H; lia.
  - intros j Hj. apply in_seq in Hj. apply H; lia.
Qed.

(* all input samples that land on position j of the zero-inserted signal: that signal's value at j *)
Lemma landing_samples n s x j (v : Z) :
  0 < s ->
  zsum (map (fun i => ind (Z.of_nat i * s =? j) (x i * v)) (seq 0 n)) = upsampled n s x j * v.
Proof.
  intros Hs. unfold upsampled.
  destruct (Z.leb_spec 0 j) as [H0|H0]; cbn [andb].
  2:{ rewrite zsum_map_zero; [lia|]. intros i _. unfold ind. destruct (Z.eqb_spec (Z.of_nat i * s) j); [nia | reflexivity]. }
  destruct (Z.ltb_spec j (Z.of_nat n * s)) as [H1|H1]; cbn [andb].
  2:{ rewrite zsum_map_zero; [lia|]. intros i Hi. apply in_seq in Hi. unfold ind.
      destruct (Z.eqb_spec (Z.of_nat i * s) j); [nia | reflexivity]. }
  destruct (Z.eqb_spec (j mod s) 0) as [Hm|Hm].
  - assert (Hj : j = j / s * s) by (pose proof (Z.div_mod j s ltac:(lia)); lia).
    assert (Hq : 0 <= j / s < Z.of_nat n) by (split; [apply Z.div_pos; lia | apply Z.div_lt_upper_bound; lia]).
    rewrite (zsum_single n _ (Z.to_nat (j / s))).
    + unfold ind. rewrite Z2Nat.id by lia. rewrite <- Hj, Z.eqb_refl. reflexivity.
    + lia.
    + intros i Hi Hne. unfold ind. destruct (Z.eqb_spec (Z.of_nat i * s) j) as [He|]; [|reflexivity].
      exfalso. apply Hne. assert (Z.of_nat i = j / s) by nia. lia.
  - rewrite zsum_map_zero; [lia|]. intros i _. unfold ind.
    destruct (Z.eqb_spec (Z.of_nat i * s) j) as [He|]; [|reflexivity].
    exfalso. apply Hm. rewrite <- He. apply Z.mod_mul. lia.
Qed.

Lemma zsum_rev_index (K : nat) : forall (f : nat -> Z),
  zsum (map f (seq 0 K)) = zsum (map (fun k' => f (K - 1 - k')%nat) (seq 0 K)).
Proof.
  induction K as [|K IH]; intros f; [reflexivity|].
  change (seq 0 (S K)) with (0%nat :: seq 1 K) at 1. rewrite <- seq_shift, map_cons, map_map.
  rewrite (seq_S K 0), map_app, zsum_app. cbn [map zsum fold_right Nat.add].
  fold (zsum (map (fun x => f (S x)) (seq 0 K))).
  rewrite (IH (fun k => f (S k))).
  replace (S K - 1 - K)%nat with 0%nat by lia.
  assert (He : zsum (map (fun k' => f (S (K - 1 - k'))) (seq 0 K)) = zsum (map (fun k' => f (S K - 1 - k')%nat) (seq 0 K))).
  { apply zsum_ext. intros a Ha. apply in_seq in Ha. f_equal. lia. }
  rewrite He. lia.
Qed.

(* the hardware's convolution over the zero-inserted input with the flipped kernel and K - 1 - pt zeros in front is the
   reference's transposed convolution, at every output position *)
Theorem tconv_as_conv_lemma n K s pt x w o :
  0 < s -> tconv_hw n K s (Z.of_nat K - 1 - pt) x w o = tconv_ref n K s pt x w o.
Proof.
  intros Hs. unfold tconv_hw, tconv_ref. symmetry.
  rewrite (zsum_rev_index K (fun k => zsum (map (fun i => ind (Z.of_nat i * s - pt + Z.of_nat k =? o) (x i * w k)) (seq 0 n)))).
  apply zsum_ext. intros k' Hk. apply in_seq in Hk.
  set (k := (K - 1 - k')%nat).
  assert (Hk' : Z.of_nat k = Z.of_nat K - 1 - Z.of_nat k') by (unfold k; lia).
  set (j := o - (Z.of_nat K - 1 - pt) + Z.of_nat k').
  transitivity (zsum (map (fun i => ind (Z.of_nat i * s =? j) (x i * w k)) (seq 0 n))).
  - apply zsum_ext. intros i _. unfold ind, j.
    destruct (Z.eqb_spec (Z.of_nat i * s - pt + Z.of_nat k) o);
      destruct (Z.eqb_spec (Z.of_nat i * s) (o - (Z.of_nat K - 1 - pt) + Z.of_nat k')); try reflexivity; lia.
  - rewrite (landing_samples n s x j (w k) Hs). ring.
Qed.

Theorem tconv_pad_ok_sound_lemma n K s on top bottom :
  tconv_pad_ok n K s on top bottom = true ->
  top = K - 1 - tconv_ref_pad n K s on /\ on - n * s - top + K - 1 <= bottom /\ 0 <= bottom.
Proof.
  unfold tconv_pad_ok. intros H. apply andb_true_iff in H as [H1 H2]. apply Z.eqb_eq in H1. apply Z.leb_le in H2. lia.
Qed.

(* SAME padding as Vela splits it: the reference's total, the smaller half in front (the reference's padding value) *)
Theorem conv_pads_reference_lemma input stride k d :
  0 < stride -> 0 <= input ->
  let t := tflite_total_padding input stride (dilated_extent k d) in
  conv_pads 1 input stride k d = (t / 2, t - t / 2).
Proof.
  intros Hs Hi t. unfold conv_pads. cbn [Z.eqb Pos.eqb].
  rewrite (needed_total_padding_is_reference_lemma input stride (dilated_extent k d) Hs Hi). fold t.
  rewrite Z.add_0_r. f_equal.
  pose proof (Z.div_mod t 2 ltac:(lia)) as H1. pose proof (Z.mod_pos_bound t 2 ltac:(lia)) as H2.
  pose proof (Z.div_mod (t + 1) 2 ltac:(lia)) as H3. pose proof (Z.mod_pos_bound (t + 1) 2 ltac:(lia)) as H4. lia.
Qed.
