(* C19 -- fp_math.py (translated: gen.GenFpMath) equals the gemmlowp / TFLite reference functions
   (model.FpMath) on their whole domains, and never fails (no assert, no NumPy overflow) there. *)
From Coq Require Import ZArith List Bool Lia.
From VV Require Import lib.PyInt lib.Bits gen.GenFpMath model.FpMath.
Import ListNotations.
Open Scope Z_scope.

Module G := GenFpMath.

(* ------------------------------------------------------------------------------------------
   fixed-width membership, usable by lia *)
Definition in16 (x : Z) : Prop := -32768 <= x <= 32767.
Definition in32 (x : Z) : Prop := -2147483648 <= x <= 2147483647.
Definition in64 (x : Z) : Prop := -9223372036854775808 <= x <= 9223372036854775807.

Lemma in_int_true w x : 0 < w -> in_int w x = true <-> - 2 ^ (w - 1) <= x < 2 ^ (w - 1).
Proof.
  intros _. unfold in_int. rewrite andb_true_iff, Z.leb_le, Z.ltb_lt. reflexivity.
Qed.

Lemma in_int8_true x : in_int 8 x = true <-> -128 <= x <= 127.
Proof. rewrite in_int_true by lia. change (2 ^ (8 - 1)) with 128. lia. Qed.
Lemma in_int16_true x : in_int 16 x = true <-> in16 x.
Proof. rewrite in_int_true by lia. change (2 ^ (16 - 1)) with 32768. unfold in16. lia. Qed.
Lemma in_int32_true x : in_int 32 x = true <-> in32 x.
Proof. rewrite in_int_true by lia. change (2 ^ (32 - 1)) with 2147483648. unfold in32. lia. Qed.
Lemma in_int64_true x : in_int 64 x = true <-> in64 x.
Proof. rewrite in_int_true by lia. change (2 ^ (64 - 1)) with 9223372036854775808. unfold in64. lia. Qed.

Lemma in_int16_false x : ~ in16 x -> in_int 16 x = false.
Proof. intros H. destruct (in_int 16 x) eqn:E; [|reflexivity]. apply in_int16_true in E. tauto. Qed.
Lemma in_int32_false x : ~ in32 x -> in_int 32 x = false.
Proof. intros H. destruct (in_int 32 x) eqn:E; [|reflexivity]. apply in_int32_true in E. tauto. Qed.

Lemma in_int16_intro x : in16 x -> in_int 16 x = true.
Proof. apply in_int16_true. Qed.
Lemma in_int32_intro x : in32 x -> in_int 32 x = true.
Proof. apply in_int32_true. Qed.
Lemma in_int64_intro x : in64 x -> in_int 64 x = true.
Proof. apply in_int64_true. Qed.

Lemma chk_int16_intro x : in16 x -> chk_int 16 x = Some x.
Proof. intros H. unfold chk_int. now rewrite in_int16_intro. Qed.
Lemma chk_int32_intro x : in32 x -> chk_int 32 x = Some x.
Proof. intros H. unfold chk_int. now rewrite in_int32_intro. Qed.
Lemma chk_int64_intro x : in64 x -> chk_int 64 x = Some x.
Proof. intros H. unfold chk_int. now rewrite in_int64_intro. Qed.

(* a C cast of a representable value is the identity *)
Lemma cast16_id x : in16 x -> cast16 x = x.
Proof.
  unfold in16, cast16, cast. change (2 ^ (16 - 1)) with 32768. change (2 ^ 16) with 65536.
  intros H. rewrite Z.mod_small by lia. lia.
Qed.
Lemma cast32_id x : in32 x -> cast32 x = x.
Proof.
  unfold in32, cast32, cast. change (2 ^ (32 - 1)) with 2147483648. change (2 ^ 32) with 4294967296.
  intros H. rewrite Z.mod_small by lia. lia.
Qed.
Lemma cast64_id x : in64 x -> cast64 x = x.
Proof.
  unfold in64, cast64, cast. change (2 ^ (64 - 1)) with 9223372036854775808.
  change (2 ^ 64) with 18446744073709551616.
  intros H. rewrite Z.mod_small by lia. lia.
Qed.

Lemma in16_in32 x : in16 x -> in32 x. Proof. unfold in16, in32. lia. Qed.
Lemma in32_in64 x : in32 x -> in64 x. Proof. unfold in32, in64. lia. Qed.

Lemma mul32_in64 a b : in32 a -> in32 b -> -4611686018427387904 <= a * b <= 4611686018427387904.
Proof. unfold in32. intros. nia. Qed.
Lemma mul16_in32 a b : in16 a -> in16 b -> -1073741824 <= a * b <= 1073741824.
Proof. unfold in16. intros. nia. Qed.

(* ------------------------------------------------------------------------------------------
   closed forms *)

(* round-to-nearest doubling high multiply, truncating division as in C *)
Definition srdhm32_c (a b : Z) : Z :=
  if (a =? b) && (a =? -2147483648) then 2147483647
  else Z.quot (a * b + (if a * b >=? 0 then 1073741824 else 1 - 1073741824)) 2147483648.
Definition srdhm16_c (a b : Z) : Z :=
  if (a =? b) && (a =? -32768) then 32767
  else Z.quot (a * b + (if a * b >=? 0 then 16384 else 1 - 16384)) 32768.
Definition sdhm16_c (a b : Z) : Z :=
  if (a =? b) && (a =? -32768) then 32767 else Z.quot (a * b) 32768.

Lemma SRDHM32_closed a b : in32 a -> in32 b -> SRDHM32 a b = srdhm32_c a b.
Proof.
  intros Ha Hb. unfold SRDHM32, srdhm32_c, INT32_MIN, INT32_MAX.
  pose proof (mul32_in64 a b Ha Hb) as Hab.
  rewrite (cast64_id a), (cast64_id b) by (apply in32_in64; assumption).
  rewrite (cast64_id (a * b)) by (unfold in64; lia).
  destruct ((a =? b) && (a =? -2147483648)) eqn:Eo; [reflexivity|].
  destruct (Z.geb_spec (a * b) 0) as [Hs|Hs].
  - rewrite (cast32_id 1073741824) by (unfold in32; lia).
    rewrite cast64_id by (unfold in64; lia).
    apply cast32_id. unfold in32.
    rewrite andb_false_iff, !Z.eqb_neq in Eo. unfold in32 in *.
    assert (a * b <= 4611686018427387904 - 2147483648) by nia.
    pose proof (Z.quot_rem' (a * b + 1073741824) 2147483648).
    pose proof (Z.rem_bound_pos (a * b + 1073741824) 2147483648). lia.
  - change (1 - 1073741824) with (-1073741823).
    rewrite (cast32_id (-1073741823)) by (unfold in32; lia).
    rewrite cast64_id by (unfold in64; lia).
    apply cast32_id. unfold in32.
    pose proof (Z.quot_rem' (a * b + -1073741823) 2147483648).
    pose proof (Z.rem_bound_neg (a * b + -1073741823) 2147483648). lia.
Qed.
