(* C19 -- fp_math.py (translated: gen.GenFpMath) equals the gemmlowp / TFLite reference functions
   (model.FpMath) on their whole domains, and never fails (no assert, no NumPy overflow) there. *)
From Coq Require Import ZArith List Bool Lia.
From VV Require Import lib.PyInt lib.PyFloat lib.Bits gen.GenFpMath model.FpMath.
Import ListNotations.
Open Scope Z_scope.

Module G := GenFpMath.

(* ------------------------------------------------------------------------------------------
   fixed-width membership, usable by lia *)
Definition in16 (x : Z) : Prop := -32768 <= x <= 32767.
Definition in32 (x : Z) : Prop := -2147483648 <= x <= 2147483647.
Definition in64 (x : Z) : Prop := -9223372036854775808 <= x <= 9223372036854775807.

Lemma in_int_true w x : 0 < w -> in_int w x = true <-> - 2 ^ (w - 1) <= x < 2 ^ (w - 1).
Proof.
  intros _. unfold in_int. rewrite andb_true_iff, Z.leb_le, Z.ltb_lt. reflexivity.
Qed.

Lemma in_int8_true x : in_int 8 x = true <-> -128 <= x <= 127.
Proof. rewrite in_int_true by lia. change (2 ^ (8 - 1)) with 128. lia. Qed.
Lemma in_int16_true x : in_int 16 x = true <-> in16 x.
Proof. rewrite in_int_true by lia. change (2 ^ (16 - 1)) with 32768. unfold in16. lia. Qed.
Lemma in_int32_true x : in_int 32 x = true <-> in32 x.
Proof. rewrite in_int_true by lia. change (2 ^ (32 - 1)) with 2147483648. unfold in32. lia. Qed.
Lemma in_int64_true x : in_int 64 x = true <-> in64 x.
Proof. rewrite in_int_true by lia. change (2 ^ (64 - 1)) with 9223372036854775808. unfold in64. lia. Qed.

Lemma in_int16_false x : ~ in16 x -> in_int 16 x = false.
Proof. intros H. destruct (in_int 16 x) eqn:E; [|reflexivity]. apply in_int16_true in E. tauto. Qed.
Lemma in_int32_false x : ~ in32 x -> in_int 32 x = false.
Proof. intros H. destruct (in_int 32 x) eqn:E; [|reflexivity]. apply in_int32_true in E. tauto. Qed.

Lemma in_int16_intro x : in16 x -> in_int 16 x = true.
Proof. apply in_int16_true. Qed.
Lemma in_int32_intro x : in32 x -> in_int 32 x = true.
Proof. apply in_int32_true. Qed.
Lemma in_int64_intro x : in64 x -> in_int 64 x = true.
Proof. apply in_int64_true. Qed.

Lemma chk_int16_intro x : in16 x -> chk_int 16 x = Some x.
Proof. intros H. unfold chk_int. now rewrite in_int16_intro. Qed.
Lemma chk_int32_intro x : in32 x -> chk_int 32 x = Some x.
Proof. intros H. unfold chk_int. now rewrite in_int32_intro. Qed.
Lemma chk_int64_intro x : in64 x -> chk_int 64 x = Some x.
Proof. intros H. unfold chk_int. now rewrite in_int64_intro. Qed.

(* a C cast of a representable value is the identity *)
Lemma cast16_id x : in16 x -> cast16 x = x.
Proof.
  unfold in16, cast16, cast. change (2 ^ (16 - 1)) with 32768. change (2 ^ 16) with 65536.
  intros H. rewrite Z.mod_small by lia. lia.
Qed.
Lemma cast32_id x : in32 x -> cast32 x = x.
Proof.
  unfold in32, cast32, cast. change (2 ^ (32 - 1)) with 2147483648. change (2 ^ 32) with 4294967296.
  intros H. rewrite Z.mod_small by lia. lia.
Qed.
Lemma cast64_id x : in64 x -> cast64 x = x.
Proof.
  unfold in64, cast64, cast. change (2 ^ (64 - 1)) with 9223372036854775808.
  change (2 ^ 64) with 18446744073709551616.
  intros H. rewrite Z.mod_small by lia. lia.
Qed.

Lemma in16_in32 x : in16 x -> in32 x. Proof. unfold in16, in32. lia. Qed.
Lemma in32_in64 x : in32 x -> in64 x. Proof. unfold in32, in64. lia. Qed.

Lemma mul32_in64 a b : in32 a -> in32 b -> -4611686018427387904 <= a * b <= 4611686018427387904.
Proof. unfold in32. intros. nia. Qed.
Lemma mul16_in32 a b : in16 a -> in16 b -> -1073741824 <= a * b <= 1073741824.
Proof. unfold in16. intros. nia. Qed.

(* ------------------------------------------------------------------------------------------
   closed forms *)

(* round-to-nearest doubling high multiply, truncating division as in C *)
Definition srdhm32_c (a b : Z) : Z :=
  if (a =? b) && (a =? -2147483648) then 2147483647
  else Z.quot (a * b + (if a * b >=? 0 then 1073741824 else 1 - 1073741824)) 2147483648.
Definition srdhm16_c (a b : Z) : Z :=
  if (a =? b) && (a =? -32768) then 32767
  else Z.quot (a * b + (if a * b >=? 0 then 16384 else 1 - 16384)) 32768.
Definition sdhm16_c (a b : Z) : Z :=
  if (a =? b) && (a =? -32768) then 32767 else Z.quot (a * b) 32768.

Lemma quot_bounds a d : 0 < d ->
  (0 <= a -> d * (Z.quot a d) <= a < d * (Z.quot a d) + d) /\ (a <= 0 -> a <= d * (Z.quot a d) < a + d).
Proof.
  intros Hd. split; intros Ha.
  - pose proof (Z.quot_rem' a d). pose proof (Z.rem_bound_pos a d Ha Hd). lia.
  - pose proof (Z.quot_rem' (-a) d) as H. pose proof (Z.rem_bound_pos (-a) d ltac:(lia) Hd).
    rewrite Z.quot_opp_l in H by lia. lia.
Qed.

Lemma not_both_min (a b m : Z) : (a =? b) && (a =? m) = false -> a <> m \/ b <> m.
Proof. rewrite andb_false_iff, !Z.eqb_neq. lia. Qed.

(* |2^31 r - a b| <= 2^30 : the result is the nearest integer to a b / 2^31 *)
Lemma srdhm32_c_bounds a b : in32 a -> in32 b -> (a =? b) && (a =? -2147483648) = false ->
  2147483648 * srdhm32_c a b <= a * b + 1073741824 /\ a * b - 1073741824 <= 2147483648 * srdhm32_c a b.
Proof.
  intros Ha Hb Eo. unfold srdhm32_c. rewrite Eo.
  destruct (Z.geb_spec (a * b) 0) as [Hs|Hs].
  - destruct (quot_bounds (a * b + 1073741824) 2147483648 ltac:(lia)) as [H _]. specialize (H ltac:(lia)). lia.
  - destruct (quot_bounds (a * b + (1 - 1073741824)) 2147483648 ltac:(lia)) as [_ H]. specialize (H ltac:(lia)). lia.
Qed.

Lemma srdhm32_c_in32 a b : in32 a -> in32 b -> in32 (srdhm32_c a b).
Proof.
  intros Ha Hb. destruct ((a =? b) && (a =? -2147483648)) eqn:Eo.
  - unfold srdhm32_c. rewrite Eo. unfold in32. lia.
  - pose proof (srdhm32_c_bounds a b Ha Hb Eo) as [H1 H2].
    apply not_both_min in Eo. unfold in32 in *.
    assert (a * b <= 4611686018427387904 - 2147483648) by nia.
    assert (-4611686018427387904 <= a * b) by nia. lia.
Qed.

Lemma SRDHM32_closed a b : in32 a -> in32 b -> SRDHM32 a b = srdhm32_c a b.
Proof.
  intros Ha Hb. pose proof (srdhm32_c_in32 a b Ha Hb) as Hr. revert Hr.
  unfold SRDHM32, srdhm32_c, INT32_MIN, INT32_MAX.
  pose proof (mul32_in64 a b Ha Hb) as Hab.
  rewrite (cast64_id a), (cast64_id b) by (apply in32_in64; assumption).
  rewrite (cast64_id (a * b)) by (unfold in64; lia).
  destruct ((a =? b) && (a =? -2147483648)) eqn:Eo; [reflexivity|].
  destruct (Z.geb_spec (a * b) 0) as [Hs|Hs]; intros Hr.
  - rewrite (cast32_id 1073741824) by (unfold in32; lia).
    rewrite cast64_id by (unfold in64; lia). apply cast32_id. exact Hr.
  - change (1 - 1073741824) with (-1073741823) in *.
    rewrite (cast32_id (-1073741823)) by (unfold in32; lia).
    rewrite cast64_id by (unfold in64; lia). apply cast32_id. exact Hr.
Qed.

(* Python's floor division followed by the "compensate" step is C's truncating division *)
Lemma floor_fix_is_quot n d : 0 < d -> n < 0 ->
  (if n / d * d <? n then n / d + 1 else n / d) = Z.quot n d.
Proof.
  intros Hd Hn. destruct (quot_bounds n d Hd) as [_ H]. specialize (H ltac:(lia)).
  pose proof (Z.div_mod n d ltac:(lia)). pose proof (Z.mod_pos_bound n d Hd).
  destruct (Z.ltb_spec (n / d * d) n); nia.
Qed.

Lemma srdhm32_gen_closed a b : in32 a -> in32 b -> G.saturating_rounding_mul32 a b = Some (srdhm32_c a b).
Proof.
  intros Ha Hb. unfold G.saturating_rounding_mul32, srdhm32_c.
  rewrite (in_int32_intro a Ha), (in_int32_intro b Hb).
  destruct ((a =? b) && (a =? -2147483648)) eqn:Eo; [reflexivity|].
  cbv zeta. pose proof (mul32_in64 a b Ha Hb) as Hab.
  rewrite (chk_int64_intro a), (chk_int64_intro b) by (apply in32_in64; assumption).
  rewrite (chk_int64_intro (a * b)) by (unfold in64; lia).
  change (Z.shiftl 1 31) with 2147483648. change (Z.shiftl 1 30) with 1073741824.
  destruct (Z.geb_spec (a * b) 0) as [Hs|Hs].
  - f_equal. symmetry. apply Z.quot_div_nonneg; lia.
  - rewrite <- (floor_fix_is_quot (a * b + (1 - 1073741824)) 2147483648) by lia.
    destruct (Z.ltb_spec ((a * b + (1 - 1073741824)) / 2147483648 * 2147483648) (a * b + (1 - 1073741824)));
      reflexivity.
Qed.

(* ---- the property theorems for the 32-bit multiply ---- *)
Lemma srdhm32_eq_gemmlowp_lemma a b :
  in_int 32 a = true -> in_int 32 b = true -> G.saturating_rounding_mul32 a b = Some (SRDHM32 a b).
Proof.
  intros Ha Hb. apply in_int32_true in Ha. apply in_int32_true in Hb.
  rewrite SRDHM32_closed by assumption. apply srdhm32_gen_closed; assumption.
Qed.

Lemma srdhm32_result_in_int32 a b :
  in_int 32 a = true -> in_int 32 b = true -> in_int 32 (SRDHM32 a b) = true.
Proof.
  intros Ha Hb. apply in_int32_true in Ha. apply in_int32_true in Hb. apply in_int32_true.
  rewrite SRDHM32_closed by assumption. apply srdhm32_c_in32; assumption.
Qed.

Lemma srdhm32_outside a b : in_int 32 a = false \/ in_int 32 b = false -> G.saturating_rounding_mul32 a b = None.
Proof.
  intros [H|H]; unfold G.saturating_rounding_mul32; rewrite H; [reflexivity|].
  destruct (in_int 32 a); reflexivity.
Qed.

(* ------------------------------------------------------------------------------------------
   16-bit multiplies *)
Lemma srdhm16_c_bounds a b : in16 a -> in16 b -> (a =? b) && (a =? -32768) = false ->
  32768 * srdhm16_c a b <= a * b + 16384 /\ a * b - 16384 <= 32768 * srdhm16_c a b.
Proof.
  intros Ha Hb Eo. unfold srdhm16_c. rewrite Eo.
  destruct (Z.geb_spec (a * b) 0) as [Hs|Hs].
  - destruct (quot_bounds (a * b + 16384) 32768 ltac:(lia)) as [H _]. specialize (H ltac:(lia)). lia.
  - destruct (quot_bounds (a * b + (1 - 16384)) 32768 ltac:(lia)) as [_ H]. specialize (H ltac:(lia)). lia.
Qed.

Lemma srdhm16_c_in16 a b : in16 a -> in16 b -> in16 (srdhm16_c a b).
Proof.
  intros Ha Hb. destruct ((a =? b) && (a =? -32768)) eqn:Eo.
  - unfold srdhm16_c. rewrite Eo. unfold in16. lia.
  - pose proof (srdhm16_c_bounds a b Ha Hb Eo) as [H1 H2].
    apply not_both_min in Eo. unfold in16 in *.
    assert (a * b <= 1073741824 - 32768) by nia.
    assert (-1073741824 <= a * b) by nia. lia.
Qed.

Lemma SRDHM16_closed a b : in16 a -> in16 b -> SRDHM16 a b = srdhm16_c a b.
Proof.
  intros Ha Hb. pose proof (srdhm16_c_in16 a b Ha Hb) as Hr. revert Hr.
  unfold SRDHM16, srdhm16_c, INT16_MIN, INT16_MAX.
  pose proof (mul16_in32 a b Ha Hb) as Hab.
  rewrite (cast32_id a), (cast32_id b) by (apply in16_in32; assumption).
  rewrite (cast32_id (a * b)) by (unfold in32; lia).
  destruct ((a =? b) && (a =? -32768)) eqn:Eo; [reflexivity|].
  destruct (Z.geb_spec (a * b) 0) as [Hs|Hs]; intros Hr.
  - rewrite (cast16_id 16384) by (unfold in16; lia).
    rewrite cast32_id by (unfold in32; lia). apply cast16_id. exact Hr.
  - change (1 - 16384) with (-16383) in *.
    rewrite (cast16_id (-16383)) by (unfold in16; lia).
    rewrite cast32_id by (unfold in32; lia). apply cast16_id. exact Hr.
Qed.

Lemma srdhm16_gen_closed a b : in16 a -> in16 b -> G.saturating_rounding_mul16 a b = Some (srdhm16_c a b).
Proof.
  intros Ha Hb. unfold G.saturating_rounding_mul16, srdhm16_c.
  rewrite (in_int16_intro a Ha), (in_int16_intro b Hb).
  destruct ((a =? b) && (a =? -32768)) eqn:Eo; [reflexivity|].
  cbv zeta. pose proof (mul16_in32 a b Ha Hb) as Hab.
  rewrite (chk_int32_intro a), (chk_int32_intro b) by (apply in16_in32; assumption).
  rewrite (chk_int32_intro (a * b)) by (unfold in32; lia).
  change (Z.shiftl 1 15) with 32768. change (Z.shiftl 1 14) with 16384.
  destruct (Z.geb_spec (a * b) 0) as [Hs|Hs].
  - f_equal. symmetry. apply Z.quot_div_nonneg; lia.
  - rewrite <- (floor_fix_is_quot (a * b + (1 - 16384)) 32768) by lia.
    destruct (Z.ltb_spec ((a * b + (1 - 16384)) / 32768 * 32768) (a * b + (1 - 16384))); reflexivity.
Qed.

Lemma srdhm16_eq_lemma a b :
  in_int 16 a = true -> in_int 16 b = true -> G.saturating_rounding_mul16 a b = Some (SRDHM16 a b).
Proof.
  intros Ha Hb. apply in_int16_true in Ha. apply in_int16_true in Hb.
  rewrite SRDHM16_closed by assumption. apply srdhm16_gen_closed; assumption.
Qed.

Lemma srdhm16_result_in_int16 a b :
  in_int 16 a = true -> in_int 16 b = true -> in_int 16 (SRDHM16 a b) = true.
Proof.
  intros Ha Hb. apply in_int16_true in Ha. apply in_int16_true in Hb. apply in_int16_true.
  rewrite SRDHM16_closed by assumption. apply srdhm16_c_in16; assumption.
Qed.

(* saturating_mul16 = TFLite SaturatingDoublingHighMul (no rounding: truncation toward zero) *)
Lemma sdhm16_c_in16 a b : in16 a -> in16 b -> in16 (sdhm16_c a b).
Proof.
  intros Ha Hb. unfold sdhm16_c. destruct ((a =? b) && (a =? -32768)) eqn:Eo.
  - unfold in16. lia.
  - apply not_both_min in Eo. unfold in16 in *.
    assert (a * b <= 1073741824 - 32768) by nia.
    assert (-1073741824 <= a * b) by nia.
    destruct (quot_bounds (a * b) 32768 ltac:(lia)) as [H1 H2].
    destruct (Z.le_ge_cases 0 (a * b)) as [Hs|Hs]; [specialize (H1 Hs)|specialize (H2 Hs)]; lia.
Qed.

Lemma SDHM16_closed a b : in16 a -> in16 b -> SaturatingDoublingHighMul16 a b = sdhm16_c a b.
Proof.
  intros Ha Hb. pose proof (sdhm16_c_in16 a b Ha Hb) as Hr. revert Hr.
  unfold SaturatingDoublingHighMul16, sdhm16_c, INT16_MIN, INT16_MAX.
  pose proof (mul16_in32 a b Ha Hb) as Hab.
  rewrite (cast32_id a), (cast32_id b) by (apply in16_in32; assumption).
  rewrite (cast32_id (a * b)) by (unfold in32; lia).
  destruct ((a =? b) && (a =? -32768)) eqn:Eo; [reflexivity|].
  intros Hr. apply cast16_id. exact Hr.
Qed.

Lemma sat_mul16_gen_closed a b : in16 a -> in16 b -> G.saturating_mul16 a b = Some (sdhm16_c a b).
Proof.
  intros Ha Hb. unfold G.saturating_mul16, sdhm16_c.
  rewrite (in_int16_intro a Ha), (in_int16_intro b Hb).
  destruct ((a =? b) && (a =? -32768)) eqn:Eo; [reflexivity|].
  cbv zeta. pose proof (mul16_in32 a b Ha Hb) as Hab.
  rewrite (chk_int32_intro a), (chk_int32_intro b) by (apply in16_in32; assumption).
  rewrite (chk_int32_intro (a * b)) by (unfold in32; lia).
  change (Z.shiftl 1 15) with 32768.
  destruct (Z.geb_spec (a * b) 0) as [Hs|Hs].
  - f_equal. symmetry. apply Z.quot_div_nonneg; lia.
  - rewrite <- (floor_fix_is_quot (a * b) 32768) by lia.
    destruct (Z.ltb_spec (a * b / 32768 * 32768) (a * b)); reflexivity.
Qed.

Lemma sat_mul16_eq_lemma a b :
  in_int 16 a = true -> in_int 16 b = true ->
  G.saturating_mul16 a b = Some (SaturatingDoublingHighMul16 a b) /\
  SaturatingDoublingHighMul16 a b =
    (if (a =? b) && (a =? -32768) then 32767 else Z.quot (a * b) (2 ^ 15)) /\
  in_int 16 (SaturatingDoublingHighMul16 a b) = true.
Proof.
  intros Ha Hb. apply in_int16_true in Ha. apply in_int16_true in Hb.
  rewrite SDHM16_closed by assumption. split; [apply sat_mul16_gen_closed; assumption|].
  split; [reflexivity|]. apply in_int16_true. apply sdhm16_c_in16; assumption.
Qed.

(* ------------------------------------------------------------------------------------------
   powers of two *)
Lemma shiftl_1 n : 0 <= n -> Z.shiftl 1 n = 2 ^ n.
Proof. intros. rewrite Z.shiftl_mul_pow2 by lia. lia. Qed.

Lemma pow2_pos n : 0 <= n -> 1 <= 2 ^ n.
Proof. intros. pose proof (Z.pow_pos_nonneg 2 n). lia. Qed.

Lemma pow2_le n m : 0 <= n <= m -> 2 ^ n <= 2 ^ m.
Proof. intros. apply Z.pow_le_mono_r; lia. Qed.

Lemma pow2_split n m : 0 <= n -> 0 <= m -> 2 ^ n * 2 ^ m = 2 ^ (n + m).
Proof. intros. rewrite Z.pow_add_r by lia. reflexivity. Qed.

Lemma pow2_le_31 n : 0 <= n <= 31 -> 1 <= 2 ^ n <= 2147483648.
Proof. intros. pose proof (pow2_pos n). pose proof (pow2_le n 31). change (2 ^ 31) with 2147483648 in *. lia. Qed.

Lemma pow2_half n : 1 <= n -> 2 ^ n = 2 * 2 ^ (n - 1).
Proof. intros. replace n with (1 + (n - 1)) at 1 by lia. rewrite Z.pow_add_r by lia. reflexivity. Qed.

(* ------------------------------------------------------------------------------------------
   RoundingDivideByPOT *)
Definition rdbpot_c (x e : Z) : Z :=
  x / 2 ^ e + (if x mod 2 ^ e >? (2 ^ e - 1) / 2 + (if x <? 0 then 1 else 0) then 1 else 0).

Lemma rdbpot_c_bounds x e : 1 <= e ->
  2 ^ e * rdbpot_c x e <= x + 2 ^ (e - 1) /\ x - 2 ^ (e - 1) <= 2 ^ e * rdbpot_c x e.
Proof.
  intros He. unfold rdbpot_c. rewrite (pow2_half e He).
  pose proof (pow2_pos (e - 1) ltac:(lia)) as Hp. set (p := 2 ^ (e - 1)) in *.
  assert (Hh : (2 * p - 1) / 2 = p - 1).
  { symmetry. apply (Z.div_unique (2 * p - 1) 2 (p - 1) 1); lia. }
  rewrite Hh.
  pose proof (Z.div_mod x (2 * p) ltac:(lia)). pose proof (Z.mod_pos_bound x (2 * p) ltac:(lia)).
  destruct (Z.ltb_spec x 0); destruct (Z.gtb_spec (x mod (2 * p)) (p - 1 + 1));
    try destruct (Z.gtb_spec (x mod (2 * p)) (p - 1 + 0)); nia.
Qed.

Lemma rdbpot_c_e0 x : rdbpot_c x 0 = x.
Proof.
  unfold rdbpot_c. change (2 ^ 0) with 1. rewrite Z.div_1_r, Z.mod_1_r. change ((1 - 1) / 2) with 0.
  destruct (x <? 0); cbn; lia.
Qed.

Lemma div_pow2_in32 x p : in32 x -> 1 <= p -> in32 (x / p).
Proof.
  unfold in32. intros Hx Hp. pose proof (Z.div_mod x p ltac:(lia)). pose proof (Z.mod_pos_bound x p ltac:(lia)).
  split; nia.
Qed.

Lemma rdbpot_c_in32 x e : in32 x -> 0 <= e -> in32 (rdbpot_c x e).
Proof.
  intros Hx He. destruct (Z.eq_dec e 0) as [->|Hne]; [rewrite rdbpot_c_e0; assumption|].
  pose proof (rdbpot_c_bounds x e ltac:(lia)) as [H1 H2].
  pose proof (pow2_pos (e - 1) ltac:(lia)) as Hp. rewrite (pow2_half e ltac:(lia)) in *.
  set (p := 2 ^ (e - 1)) in *. unfold in32 in *. split; nia.
Qed.

Lemma land_mask_if b : Z.land (mask_if b) 1 = if b then 1 else 0.
Proof. destruct b; reflexivity. Qed.

Lemma RDBPOT_closed x e : in32 x -> 0 <= e <= 31 -> RoundingDivideByPOT x e = rdbpot_c x e.
Proof.
  intros Hx He. pose proof (rdbpot_c_in32 x e Hx ltac:(lia)) as Hr. revert Hr.
  unfold RoundingDivideByPOT, rdbpot_c. cbv zeta.
  rewrite shiftl_1 by lia. pose proof (pow2_le_31 e He) as Hp.
  rewrite (cast64_id (2 ^ e)) by (unfold in64; lia).
  rewrite (cast32_id (2 ^ e - 1)) by (unfold in32; lia).
  rewrite land_ones_mod by lia. rewrite !land_mask_if. rewrite !shiftr_div by lia.
  change (2 ^ 1) with 2.
  assert (0 <= (2 ^ e - 1) / 2 < 1073741824).
  { split; [apply Z.div_pos; lia|apply Z.div_lt_upper_bound; lia]. }
  rewrite (cast32_id ((2 ^ e - 1) / 2 + _)) by (unfold in32; destruct (x <? 0); lia).
  intros Hr. rewrite cast32_id; [reflexivity|exact Hr].
Qed.

Lemma rdbpot_gen_closed x e : in32 x -> 0 <= e <= 31 -> G.rounding_divide_by_pot x e = Some (rdbpot_c x e).
Proof.
  intros Hx He. unfold G.rounding_divide_by_pot, rdbpot_c.
  rewrite (in_int32_intro x Hx), (in_int32_intro e) by (unfold in32; lia). cbv zeta.
  rewrite shiftl_1 by lia. rewrite land_ones_mod by lia. rewrite !shiftr_div by lia. change (2 ^ 1) with 2.
  destruct (Z.ltb_spec x 0).
  - destruct (Z.gtb_spec (x mod 2 ^ e) ((2 ^ e - 1) / 2 + 1)); f_equal; lia.
  - rewrite Z.add_0_r. destruct (Z.gtb_spec (x mod 2 ^ e) ((2 ^ e - 1) / 2)); f_equal; lia.
Qed.

Lemma rdbpot_eq_gemmlowp_lemma x e :
  in_int 32 x = true -> 0 <= e <= 31 ->
  G.rounding_divide_by_pot x e = Some (RoundingDivideByPOT x e) /\ in_int 32 (RoundingDivideByPOT x e) = true.
Proof.
  intros Hx He. apply in_int32_true in Hx. rewrite RDBPOT_closed by assumption.
  split; [apply rdbpot_gen_closed; assumption|]. apply in_int32_true. apply rdbpot_c_in32; [assumption|lia].
Qed.

(* what the result is: the nearest integer to x / 2^e, ties away from zero *)
Lemma rdbpot_is_nearest x e :
  in_int 32 x = true -> 1 <= e <= 31 ->
  let r := RoundingDivideByPOT x e in
  2 * Z.abs (2 ^ e * r - x) <= 2 ^ e /\ (2 * Z.abs (2 ^ e * r - x) = 2 ^ e -> Z.abs x < Z.abs (2 ^ e * r)).
Proof.
  intros Hx He. apply in_int32_true in Hx. cbv zeta. rewrite RDBPOT_closed by (assumption || lia).
  unfold rdbpot_c. rewrite (pow2_half e ltac:(lia)).
  pose proof (pow2_pos (e - 1) ltac:(lia)) as Hp. set (p := 2 ^ (e - 1)) in *.
  assert (Hh : (2 * p - 1) / 2 = p - 1).
  { symmetry. apply (Z.div_unique (2 * p - 1) 2 (p - 1) 1); lia. }
  rewrite Hh.
  pose proof (Z.div_mod x (2 * p) ltac:(lia)). pose proof (Z.mod_pos_bound x (2 * p) ltac:(lia)).
  destruct (Z.ltb_spec x 0); destruct (Z.gtb_spec (x mod (2 * p)) (p - 1 + 1));
    try destruct (Z.gtb_spec (x mod (2 * p)) (p - 1 + 0)); split; try nia.
Qed.

(* ------------------------------------------------------------------------------------------
   saturating left shifts *)
Definition clamp32 (v : Z) : Z := if v <? -2147483648 then -2147483648 else if v >? 2147483647 then 2147483647 else v.
Definition clamp16 (v : Z) : Z := if v <? -32768 then -32768 else if v >? 32767 then 32767 else v.

Lemma clamp32_in32 v : in32 (clamp32 v).
Proof. unfold clamp32, in32. destruct (Z.ltb_spec v (-2147483648)); [lia|]. destruct (Z.gtb_spec v 2147483647); lia. Qed.
Lemma clamp16_in16 v : in16 (clamp16 v).
Proof. unfold clamp16, in16. destruct (Z.ltb_spec v (-32768)); [lia|]. destruct (Z.gtb_spec v 32767); lia. Qed.

Lemma shift_left32_gen_closed a off : in32 a -> 0 <= off -> G.shift_left32 a off = Some (clamp32 (a * 2 ^ off)).
Proof.
  intros Ha Ho. unfold G.shift_left32, clamp32.
  destruct (Z.geb_spec off 0); [|lia]. rewrite (in_int32_intro a Ha). cbv zeta. rewrite shiftl_1 by lia.
  destruct (Z.ltb_spec (a * 2 ^ off) (-2147483648)); [reflexivity|].
  destruct (Z.gtb_spec (a * 2 ^ off) 2147483647); [reflexivity|].
  rewrite chk_int32_intro by (unfold in32; lia). reflexivity.
Qed.

Lemma shift_left16_gen_closed a off : in16 a -> 0 <= off -> G.shift_left16 a off = Some (clamp16 (a * 2 ^ off)).
Proof.
  intros Ha Ho. unfold G.shift_left16, clamp16.
  destruct (Z.geb_spec off 0); [|lia]. rewrite (in_int16_intro a Ha). cbv zeta. rewrite shiftl_1 by lia.
  destruct (Z.ltb_spec (a * 2 ^ off) (-32768)); [reflexivity|].
  destruct (Z.gtb_spec (a * 2 ^ off) 32767); [reflexivity|].
  rewrite chk_int16_intro by (unfold in16; lia). reflexivity.
Qed.

Lemma pow2_le_30 n : 0 <= n <= 30 -> 1 <= 2 ^ n <= 1073741824.
Proof. intros. pose proof (pow2_pos n). pose proof (pow2_le n 30). change (2 ^ 30) with 1073741824 in *. lia. Qed.

Lemma ShiftLeft32_closed a off : in32 a -> 0 <= off <= 30 -> ShiftLeft32 a off = clamp32 (a * 2 ^ off).
Proof.
  intros Ha Ho. unfold ShiftLeft32, clamp32, INT32_MIN, INT32_MAX. cbv zeta.
  rewrite shiftl_1 by lia. pose proof (pow2_le_30 off Ho).
  rewrite (cast64_id a) by (apply in32_in64; assumption).
  rewrite (cast32_id (2 ^ off)) by (unfold in32; lia).
  assert (in64 (a * 2 ^ off)) by (unfold in32, in64 in *; nia).
  rewrite (cast64_id (a * 2 ^ off)) by assumption.
  destruct (Z.ltb_spec (a * 2 ^ off) (-2147483648)); [reflexivity|].
  destruct (Z.gtb_spec (a * 2 ^ off) 2147483647); [reflexivity|].
  apply cast32_id. unfold in32. lia.
Qed.

Lemma SaturatingLeftShift16_closed a off : in16 a -> 0 <= off <= 30 -> SaturatingLeftShift16 a off = clamp16 (a * 2 ^ off).
Proof.
  intros Ha Ho. unfold SaturatingLeftShift16, clamp16, INT16_MIN, INT16_MAX. cbv zeta.
  rewrite shiftl_1 by lia. pose proof (pow2_le_30 off Ho).
  rewrite (cast64_id a) by (apply in32_in64, in16_in32; assumption).
  rewrite (cast32_id (2 ^ off)) by (unfold in32; lia).
  assert (in64 (a * 2 ^ off)) by (unfold in16, in64 in *; nia).
  rewrite (cast64_id (a * 2 ^ off)) by assumption.
  destruct (Z.ltb_spec (a * 2 ^ off) (-32768)).
  - rewrite Z.min_l, Z.max_r by lia. reflexivity.
  - destruct (Z.gtb_spec (a * 2 ^ off) 32767).
    + rewrite Z.min_r, Z.max_l by lia. reflexivity.
    + rewrite Z.min_l, Z.max_l by lia. apply cast16_id. unfold in16. lia.
Qed.

Lemma shift_left32_saturates_lemma a off :
  in_int 32 a = true -> 0 <= off ->
  G.shift_left32 a off = Some (Z.max (-2147483648) (Z.min 2147483647 (a * 2 ^ off))) /\
  (off <= 30 -> G.shift_left32 a off = Some (ShiftLeft32 a off)).
Proof.
  intros Ha Ho. apply in_int32_true in Ha. rewrite shift_left32_gen_closed by assumption. split.
  - f_equal. unfold clamp32. destruct (Z.ltb_spec (a * 2 ^ off) (-2147483648)); [lia|].
    destruct (Z.gtb_spec (a * 2 ^ off) 2147483647); lia.
  - intros. rewrite ShiftLeft32_closed by (assumption || lia). reflexivity.
Qed.

Lemma shift_left16_saturates_lemma a off :
  in_int 16 a = true -> 0 <= off ->
  G.shift_left16 a off = Some (Z.max (-32768) (Z.min 32767 (a * 2 ^ off))) /\
  (off <= 30 -> G.shift_left16 a off = Some (SaturatingLeftShift16 a off)).
Proof.
  intros Ha Ho. apply in_int16_true in Ha. rewrite shift_left16_gen_closed by assumption. split.
  - f_equal. unfold clamp16. destruct (Z.ltb_spec (a * 2 ^ off) (-32768)); [lia|].
    destruct (Z.gtb_spec (a * 2 ^ off) 32767); lia.
  - intros. rewrite SaturatingLeftShift16_closed by (assumption || lia). reflexivity.
Qed.

(* ------------------------------------------------------------------------------------------
   SaturatingRoundingMultiplyByPOT (non-negative exponent as Vela's function), Rescale *)
Definition srmbpot_c (x e : Z) : Z :=
  if x >? 2 ^ (31 - e) - 1 then 2147483647 else if x <? - (2 ^ (31 - e) - 1) then -2147483648 else x * 2 ^ e.

Lemma srmbpot_c_in32 x e : in32 x -> 0 <= e <= 31 -> in32 (srmbpot_c x e).
Proof.
  intros Hx He. unfold srmbpot_c.
  destruct (Z.gtb_spec x (2 ^ (31 - e) - 1)); [unfold in32; lia|].
  destruct (Z.ltb_spec x (- (2 ^ (31 - e) - 1))); [unfold in32; lia|].
  pose proof (pow2_split (31 - e) e ltac:(lia) ltac:(lia)) as Hs. replace (31 - e + e) with 31 in Hs by lia.
  change (2 ^ 31) with 2147483648 in Hs. pose proof (pow2_pos e ltac:(lia)). pose proof (pow2_pos (31 - e) ltac:(lia)).
  unfold in32. split; nia.
Qed.

Lemma srmbpot_gen_closed x e : in32 x -> 0 <= e <= 31 ->
  G.saturating_rounding_multiply_by_pot x e = Some (srmbpot_c x e).
Proof.
  intros Hx He. pose proof (srmbpot_c_in32 x e Hx He) as Hr. revert Hr.
  unfold G.saturating_rounding_multiply_by_pot, srmbpot_c.
  rewrite (in_int32_intro x Hx), (in_int32_intro e) by (unfold in32; lia). cbv zeta.
  replace (32 - 1 - e) with (31 - e) by lia. rewrite shiftl_1 by lia.
  destruct (Z.gtb_spec x (2 ^ (31 - e) - 1)); [reflexivity|].
  destruct (Z.ltb_spec x (- (2 ^ (31 - e) - 1))); [reflexivity|].
  intros Hr. rewrite shift_left32_gen_closed by (assumption || lia).
  unfold clamp32. unfold in32 in Hr.
  destruct (Z.ltb_spec (x * 2 ^ e) (-2147483648)); [lia|].
  destruct (Z.gtb_spec (x * 2 ^ e) 2147483647); [lia|]. reflexivity.
Qed.

Lemma SRMBPOT_closed_pos x e : in32 x -> 1 <= e <= 30 -> SaturatingRoundingMultiplyByPOT e x = srmbpot_c x e.
Proof.
  intros Hx He. pose proof (srmbpot_c_in32 x e Hx ltac:(lia)) as Hr. revert Hr.
  unfold SaturatingRoundingMultiplyByPOT, srmbpot_c, INT32_MAX, INT32_MIN.
  destruct (Z.ltb_spec e 0); [lia|]. destruct (Z.eqb_spec e 0); [lia|]. cbv zeta.
  replace (32 - 1 - e) with (31 - e) by lia. rewrite shiftl_1 by lia.
  pose proof (pow2_le_31 (31 - e) ltac:(lia)).
  rewrite (cast32_id (2 ^ (31 - e) - 1)) by (unfold in32; lia).
  rewrite ShiftLeft32_closed by (assumption || lia).
  destruct (Z.gtb_spec x (2 ^ (31 - e) - 1)).
  - destruct (Z.ltb_spec x (- (2 ^ (31 - e) - 1))); [lia|reflexivity].
  - destruct (Z.ltb_spec x (- (2 ^ (31 - e) - 1))); [reflexivity|].
    intros Hr. unfold clamp32. unfold in32 in Hr.
    destruct (Z.ltb_spec (x * 2 ^ e) (-2147483648)); [lia|].
    destruct (Z.gtb_spec (x * 2 ^ e) 2147483647); [lia|]. reflexivity.
Qed.

Lemma srmbpot_c_e0 x : in32 x -> srmbpot_c x 0 = x.
Proof.
  unfold in32, srmbpot_c. intros. change (2 ^ (31 - 0) - 1) with 2147483647. change (2 ^ 0) with 1.
  destruct (Z.gtb_spec x 2147483647); [lia|]. destruct (Z.ltb_spec x (Z.opp 2147483647)); lia.
Qed.

Lemma srmbpot_eq_lemma x e :
  in_int 32 x = true -> 0 <= e <= 30 ->
  G.saturating_rounding_multiply_by_pot x e = Some (SaturatingRoundingMultiplyByPOT e x) /\
  in_int 32 (SaturatingRoundingMultiplyByPOT e x) = true.
Proof.
  intros Hx He. apply in_int32_true in Hx.
  assert (E : SaturatingRoundingMultiplyByPOT e x = srmbpot_c x e).
  { destruct (Z.eq_dec e 0) as [->|Hne].
    - rewrite srmbpot_c_e0 by assumption. reflexivity.
    - apply SRMBPOT_closed_pos; [assumption|lia]. }
  rewrite E. split; [apply srmbpot_gen_closed; (assumption || lia)|].
  apply in_int32_true. apply srmbpot_c_in32; (assumption || lia).
Qed.

Lemma rescale_eq_lemma src dst x :
  in_int 32 src = true -> in_int 32 dst = true -> in_int 32 x = true -> -31 <= src - dst <= 30 ->
  G.rescale src dst x = Some (Rescale src dst x) /\ in_int 32 (Rescale src dst x) = true.
Proof.
  intros Hs Hd Hx He. unfold G.rescale, Rescale. rewrite Hs, Hd, Hx. cbv zeta.
  destruct (Z.ltb_spec (src - dst) 0).
  - destruct (rdbpot_eq_gemmlowp_lemma x (- (src - dst)) Hx ltac:(lia)) as [E R].
    rewrite E. unfold SaturatingRoundingMultiplyByPOT. destruct (Z.ltb_spec (src - dst) 0); [|lia]. split; [reflexivity|exact R].
  - destruct (srmbpot_eq_lemma x (src - dst) Hx ltac:(lia)) as [E R]. rewrite E. split; [reflexivity|exact R].
Qed.

(* ------------------------------------------------------------------------------------------
   DownScaleInt32ToInt16Multiplier *)
Lemma downscale_multiplier_eq_lemma a :
  in_int 32 a = true ->
  G.downscale_multiplier_int32_to_int16 a = Some (DownScaleInt32ToInt16Multiplier a) /\
  in_int 16 (DownScaleInt32ToInt16Multiplier a) = true /\
  DownScaleInt32ToInt16Multiplier a = (if a >=? 2147450879 then 32767 else (a + 32768) / 65536).
Proof.
  intros Ha. unfold G.downscale_multiplier_int32_to_int16, DownScaleInt32ToInt16Multiplier, INT32_MAX, INT16_MAX.
  rewrite Ha. apply in_int32_true in Ha. unfold in32 in Ha. cbv zeta.
  change (Z.shiftl 1 15) with 32768. change (2147483647 - 32768) with 2147450879.
  destruct (Z.geb_spec a 2147450879).
  - split; [reflexivity|]. split; reflexivity.
  - rewrite (cast32_id (a + 32768)) by (unfold in32; lia). rewrite shiftr_div by lia. change (2 ^ 16) with 65536.
    assert (-32768 <= (a + 32768) / 65536 <= 32767).
    { split; [apply Z.div_le_lower_bound; lia|]. assert ((a + 32768) / 65536 < 32768) by (apply Z.div_lt_upper_bound; lia). lia. }
    rewrite cast32_id by (unfold in32; lia). rewrite cast16_id by (unfold in16; lia).
    rewrite chk_int16_intro by (unfold in16; lia). split; [reflexivity|]. split; [|reflexivity].
    apply in_int16_true. unfold in16. lia.
Qed.

(* ------------------------------------------------------------------------------------------
   MultiplyByQuantizedMultiplier *)
Lemma mbqm_eq_reference_lemma x m s :
  in_int 32 x = true -> in_int 32 m = true -> 0 <= s <= 62 ->
  in_int 32 (x * 2 ^ (Z.max 0 (31 - s))) = true ->
  G.multiply_by_quantized_multiplier x m s = Some (MultiplyByQuantizedMultiplier x m (31 - s)) /\
  in_int 32 (MultiplyByQuantizedMultiplier x m (31 - s)) = true.
Proof.
  intros Hx Hmi Hs Hp.
  unfold G.multiply_by_quantized_multiplier, MultiplyByQuantizedMultiplier. cbv zeta.
  destruct (Z.gtb_spec (31 - s) 0) as [Hl|Hl].
  - (* left shift *)
    destruct (Z.ltb_spec (31 - s) 0); [lia|].
    rewrite Z.max_r in Hp by lia. rewrite shiftl_1 by lia.
    pose proof (pow2_le_30 (31 - s - 1) ltac:(lia)) as Hpw.
    assert (Hpw' : 2 <= 2 ^ (31 - s) <= 2147483648).
    { rewrite (pow2_half (31 - s)) by lia. lia. }
    destruct (Z.eq_dec (2 ^ (31 - s)) 2147483648) as [E31|N31].
    + (* s = 0: 1 << 31 does not fit the C int; x must be 0 (or the product leaves int32) *)
      rewrite E31 in *. apply in_int32_true in Hp. apply in_int32_true in Hx. unfold in32 in *.
      assert (x = 0 \/ x = -1) as [->| ->] by lia.
      * rewrite !Z.mul_0_l. rewrite (cast32_id 0) by (unfold in32; lia).
        pose proof (srdhm32_eq_gemmlowp_lemma 0 m eq_refl Hmi) as E. rewrite E.
        pose proof (srdhm32_result_in_int32 0 m eq_refl Hmi) as R.
        destruct (rdbpot_eq_gemmlowp_lemma _ 0 R ltac:(lia)) as [E2 R2]. rewrite E2. split; [reflexivity|exact R2].
      * change (cast32 2147483648) with (-2147483648). change (-1 * -2147483648) with 2147483648.
        change (cast32 2147483648) with (-2147483648). change (-1 * 2147483648) with (-2147483648).
        pose proof (srdhm32_eq_gemmlowp_lemma (-2147483648) m eq_refl Hmi) as E. rewrite E.
        pose proof (srdhm32_result_in_int32 (-2147483648) m eq_refl Hmi) as R.
        destruct (rdbpot_eq_gemmlowp_lemma _ 0 R ltac:(lia)) as [E2 R2]. rewrite E2. split; [reflexivity|exact R2].
    + rewrite (cast32_id (2 ^ (31 - s))) by (unfold in32; lia).
      rewrite (cast32_id (x * 2 ^ (31 - s))) by (apply in_int32_true; exact Hp).
      rewrite (srdhm32_eq_gemmlowp_lemma _ m Hp Hmi).
      pose proof (srdhm32_result_in_int32 _ m Hp Hmi) as R.
      destruct (rdbpot_eq_gemmlowp_lemma _ 0 R ltac:(lia)) as [E2 R2]. rewrite E2. split; [reflexivity|exact R2].
  - (* right shift *)
    rewrite Z.max_l in Hp by lia. change (2 ^ 0) with 1 in Hp. rewrite Z.mul_1_r in Hp.
    change (Z.shiftl 1 0) with 1. change (cast32 1) with 1. rewrite Z.mul_1_r.
    rewrite (cast32_id x) by (apply in_int32_true; exact Hx).
    rewrite (srdhm32_eq_gemmlowp_lemma _ m Hx Hmi).
    pose proof (srdhm32_result_in_int32 _ m Hx Hmi) as R.
    destruct (Z.ltb_spec (31 - s) 0).
    + destruct (rdbpot_eq_gemmlowp_lemma _ (- (31 - s)) R ltac:(lia)) as [E2 R2]. rewrite E2. split; [reflexivity|exact R2].
    + replace (- (31 - s)) with 0 by lia.
      destruct (rdbpot_eq_gemmlowp_lemma _ 0 R ltac:(lia)) as [E2 R2]. rewrite E2. split; [reflexivity|exact R2].
Qed.

(* outside the precondition the Python-int path stops with an assertion / OverflowError *)
Lemma mbqm_outside_lemma x m s :
  in_int 32 (x * 2 ^ (Z.max 0 (31 - s))) = false -> s <= 31 ->
  G.multiply_by_quantized_multiplier x m s = None.
Proof.
  intros Hp Hs. unfold G.multiply_by_quantized_multiplier. cbv zeta.
  assert (E : (if 31 - s >? 0 then 31 - s else 0) = Z.max 0 (31 - s)).
  { destruct (Z.gtb_spec (31 - s) 0); lia. }
  rewrite E. rewrite shiftl_1 by lia. rewrite srdhm32_outside by (left; exact Hp). reflexivity.
Qed.

(* ------------------------------------------------------------------------------------------
   exp on [-1/4, 0)  (Q0.31) *)
Lemma srdhm32_c_bounds' a b : in32 a -> in32 b -> a <> -2147483648 \/ b <> -2147483648 ->
  2147483648 * srdhm32_c a b <= a * b + 1073741824 /\ a * b - 1073741824 <= 2147483648 * srdhm32_c a b.
Proof.
  intros Ha Hb Hn. apply srdhm32_c_bounds; try assumption.
  rewrite andb_false_iff, !Z.eqb_neq. lia.
Qed.

Lemma mul_abs_bound a b A B : - A <= a <= A -> - B <= b <= B -> - (A * B) <= a * b <= A * B.
Proof. intros. nia. Qed.

Lemma rdbpot_c_bounds_1 x : 2 * rdbpot_c x 1 <= x + 1 /\ x - 1 <= 2 * rdbpot_c x 1.
Proof. pose proof (rdbpot_c_bounds x 1 ltac:(lia)) as H. change (2 ^ 1) with 2 in H. change (2 ^ (1 - 1)) with 1 in H. exact H. Qed.
Lemma rdbpot_c_bounds_2 x : 4 * rdbpot_c x 2 <= x + 2 /\ x - 2 <= 4 * rdbpot_c x 2.
Proof. pose proof (rdbpot_c_bounds x 2 ltac:(lia)) as H. change (2 ^ 2) with 4 in H. change (2 ^ (2 - 1)) with 2 in H. exact H. Qed.

Definition exp_interval_c (a : Z) : Z :=
  let x := a + 268435456 in
  let x2 := srdhm32_c x x in
  let x3 := srdhm32_c x2 x in
  let x4 := srdhm32_c x2 x2 in
  let x4_4 := rdbpot_c x4 2 in
  let m1 := srdhm32_c (x4_4 + x3) 715827883 in
  let p := rdbpot_c (m1 + x2) 1 in
  let m2 := srdhm32_c 1895147668 (x + p) in
  1895147668 + m2.

Lemma exp_interval_facts a : -536870912 <= a < 0 ->
  let x := a + 268435456 in
  let x2 := srdhm32_c x x in
  let x3 := srdhm32_c x2 x in
  let x4 := srdhm32_c x2 x2 in
  let x4_4 := rdbpot_c x4 2 in
  let m1 := srdhm32_c (x4_4 + x3) 715827883 in
  let p := rdbpot_c (m1 + x2) 1 in
  let m2 := srdhm32_c 1895147668 (x + p) in
  in32 x /\ in32 x2 /\ in32 x3 /\ in32 x4 /\ in32 x4_4 /\ in32 (x4_4 + x3) /\ in32 m1 /\ in32 (m1 + x2) /\
  in32 p /\ in32 (x + p) /\ in32 m2 /\ 0 < 1895147668 + m2 <= 2147483647.
Proof.
  intros Ha. intros x x2 x3 x4 x4_4 m1 p m2.
  assert (Hx : -268435456 <= x <= 268435455) by (unfold x; lia).
  assert (Ix : in32 x) by (unfold in32; lia).
  (* x2 *)
  pose proof (srdhm32_c_bounds' x x Ix Ix ltac:(lia)) as [U L]. fold x2 in U, L.
  assert (Hxx : 0 <= x * x <= 72057594037927936) by nia.
  assert (Hx2 : 0 <= x2 <= 33554432) by lia. clear U L.
  assert (Ix2 : in32 x2) by (unfold in32; lia).
  (* x3 *)
  pose proof (srdhm32_c_bounds' x2 x Ix2 Ix ltac:(lia)) as [U L]. fold x3 in U, L.
  pose proof (mul_abs_bound x2 x 33554432 268435456 ltac:(lia) ltac:(lia)) as Hp3.
  change (33554432 * 268435456) with 9007199254740992 in Hp3.
  assert (Hx3 : -4194304 <= x3 <= 4194304) by lia. clear U L.
  assert (Ix3 : in32 x3) by (unfold in32; lia).
  (* x4 *)
  pose proof (srdhm32_c_bounds' x2 x2 Ix2 Ix2 ltac:(lia)) as [U L]. fold x4 in U, L.
  assert (Hp4 : 0 <= x2 * x2 <= 1125899906842624) by nia.
  assert (Hx4 : 0 <= x4 <= 524288) by lia. clear U L.
  assert (Ix4 : in32 x4) by (unfold in32; lia).
  (* x4 / 4 *)
  pose proof (rdbpot_c_bounds_2 x4) as [U L]. fold x4_4 in U, L.
  assert (Hx44 : 0 <= x4_4 <= 131072) by lia. clear U L.
  assert (Ix44 : in32 x4_4) by (unfold in32; lia).
  assert (Is1 : in32 (x4_4 + x3)) by (unfold in32; lia).
  (* m1 *)
  pose proof (srdhm32_c_bounds' (x4_4 + x3) 715827883 Is1 ltac:(unfold in32; lia) ltac:(lia)) as [U L].
  fold m1 in U, L.
  assert (Hm1 : -1398102 <= m1 <= 1441793) by lia. clear U L.
  assert (Im1 : in32 m1) by (unfold in32; lia).
  assert (Is2 : in32 (m1 + x2)) by (unfold in32; lia).
  (* p *)
  pose proof (rdbpot_c_bounds_1 (m1 + x2)) as [U L]. fold p in U, L.
  assert (Hp : -699052 <= p <= 17498113) by lia. clear U L.
  assert (Ip : in32 p) by (unfold in32; lia).
  assert (Iy : in32 (x + p)) by (unfold in32; lia).
  (* m2 *)
  pose proof (srdhm32_c_bounds' 1895147668 (x + p) ltac:(unfold in32; lia) Iy ltac:(lia)) as [U L].
  fold m2 in U, L.
  assert (Hm2 : -237510371 <= m2 <= 252335489) by lia.
  assert (Im2 : in32 m2) by (unfold in32; lia).
  repeat split; try assumption; lia.
Qed.

Lemma exp_interval_c_range a : -536870912 <= a < 0 -> 0 < exp_interval_c a <= 2147483647.
Proof. intros Ha. pose proof (exp_interval_facts a Ha) as F. cbv zeta in F. unfold exp_interval_c. tauto. Qed.

Lemma SRMBPOT_neg e x : e < 0 -> SaturatingRoundingMultiplyByPOT e x = RoundingDivideByPOT x (- e).
Proof. intros. unfold SaturatingRoundingMultiplyByPOT. destruct (Z.ltb_spec e 0); [reflexivity|lia]. Qed.

Lemma exp_interval_ref_closed a : -536870912 <= a < 0 ->
  FpMath.exp_on_interval_between_negative_one_quarter_and_0_excl a = exp_interval_c a.
Proof.
  intros Ha. pose proof (exp_interval_facts a Ha) as F. cbv zeta in F.
  destruct F as (Ix & Ix2 & Ix3 & Ix4 & Ix44 & Is1 & Im1 & Is2 & Ip & Iy & Im2 & Hr).
  unfold FpMath.exp_on_interval_between_negative_one_quarter_and_0_excl, exp_interval_c. cbv zeta.
  change (Z.shiftl 1 28) with 268435456. unfold add32.
  set (x := a + 268435456) in *. rewrite (cast32_id x Ix).
  rewrite (SRDHM32_closed x x Ix Ix). set (x2 := srdhm32_c x x) in *.
  rewrite (SRDHM32_closed x2 x Ix2 Ix). set (x3 := srdhm32_c x2 x) in *.
  rewrite (SRDHM32_closed x2 x2 Ix2 Ix2). set (x4 := srdhm32_c x2 x2) in *.
  rewrite !SRMBPOT_neg by lia. change (- -2) with 2. change (- -1) with 1.
  rewrite (RDBPOT_closed x4 2 Ix4 ltac:(lia)). set (x4_4 := rdbpot_c x4 2) in *.
  rewrite (cast32_id (x4_4 + x3) Is1).
  rewrite (SRDHM32_closed (x4_4 + x3) 715827883 Is1 ltac:(unfold in32; lia)).
  set (m1 := srdhm32_c (x4_4 + x3) 715827883) in *.
  rewrite (cast32_id (m1 + x2) Is2).
  rewrite (RDBPOT_closed (m1 + x2) 1 Is2 ltac:(lia)). set (p := rdbpot_c (m1 + x2) 1) in *.
  rewrite (cast32_id (x + p) Iy).
  rewrite (SRDHM32_closed 1895147668 (x + p) ltac:(unfold in32; lia) Iy).
  apply cast32_id. unfold in32. lia.
Qed.

Lemma exp_interval_gen_closed a : -536870912 <= a < 0 ->
  G.exp_on_interval_between_negative_one_quarter_and_0_excl a = Some (exp_interval_c a).
Proof.
  intros Ha. pose proof (exp_interval_facts a Ha) as F. cbv zeta in F.
  destruct F as (Ix & Ix2 & Ix3 & Ix4 & Ix44 & Is1 & Im1 & Is2 & Ip & Iy & Im2 & Hr).
  unfold G.exp_on_interval_between_negative_one_quarter_and_0_excl, exp_interval_c.
  rewrite in_int32_intro by (unfold in32; lia).
  change (Z.shiftl (Z.opp 1) (Z.sub 31 2)) with (-536870912).
  assert (Gd : (-536870912 <=? a) && (a <? 0) = true) by (rewrite andb_true_iff, Z.leb_le, Z.ltb_lt; lia).
  rewrite Gd. cbv zeta. change (Z.shiftl 1 28) with 268435456.
  set (x := a + 268435456) in *.
  rewrite (srdhm32_gen_closed x x Ix Ix). cbv beta iota. set (x2 := srdhm32_c x x) in *.
  rewrite (srdhm32_gen_closed x2 x Ix2 Ix). cbv beta iota. set (x3 := srdhm32_c x2 x) in *.
  rewrite (srdhm32_gen_closed x2 x2 Ix2 Ix2). cbv beta iota. set (x4 := srdhm32_c x2 x2) in *.
  rewrite (rdbpot_gen_closed x4 2 Ix4 ltac:(lia)). cbv beta iota. set (x4_4 := rdbpot_c x4 2) in *.
  rewrite (srdhm32_gen_closed (x4_4 + x3) 715827883 Is1 ltac:(unfold in32; lia)). cbv beta iota.
  set (m1 := srdhm32_c (x4_4 + x3) 715827883) in *.
  rewrite (rdbpot_gen_closed (m1 + x2) 1 Is2 ltac:(lia)). cbv beta iota. set (p := rdbpot_c (m1 + x2) 1) in *.
  rewrite (srdhm32_gen_closed 1895147668 (x + p) ltac:(unfold in32; lia) Iy). cbv beta iota.
  rewrite chk_int32_intro by (unfold in32; lia). reflexivity.
Qed.

Lemma exp_on_interval_eq_lemma a :
  -536870912 <= a < 0 ->
  G.exp_on_interval_between_negative_one_quarter_and_0_excl a =
    Some (FpMath.exp_on_interval_between_negative_one_quarter_and_0_excl a) /\
  0 < FpMath.exp_on_interval_between_negative_one_quarter_and_0_excl a <= 2147483647.
Proof.
  intros Ha. rewrite exp_interval_ref_closed by assumption.
  split; [apply exp_interval_gen_closed; assumption|apply exp_interval_c_range; assumption].
Qed.

(* ------------------------------------------------------------------------------------------
   exp on negative values (Q5.26 -> Q0.31) *)

(* one barrel-shifter step of the translated code and of the reference, constants evaluated *)
Definition gstep (rem k mult r : Z) : option Z :=
  if negb (Z.eqb (Z.land rem k) 0)
  then match G.saturating_rounding_mul32 r mult with Some r' => Some r' | None => None end
  else Some r.
Definition rstep (rem k mult r : Z) : Z := if negb (Z.land rem k =? 0) then SRDHM32 r mult else r.
Definition cstep (rem k mult r : Z) : Z := if negb (Z.land rem k =? 0) then srdhm32_c r mult else r.

Definition gen_exp_nice (a : Z) : option Z :=
  if in_int 32 a then if a <=? 0 then
    match chk_int 32 16777216 with Some oq =>
    match chk_int 32 16777215 with Some mask =>
    match chk_int 32 (Z.land a mask - oq) with Some am =>
    match G.rescale 5 0 am with Some r7 =>
    match G.exp_on_interval_between_negative_one_quarter_and_0_excl r7 with Some r0 =>
    match chk_int 32 (am - a) with Some rem =>
    match gstep rem 16777216 1672461947 r0 with Some r1 =>
    match gstep rem 33554432 1302514674 r1 with Some r2 =>
    match gstep rem 67108864 790015084 r2 with Some r3 =>
    match gstep rem 134217728 290630308 r3 with Some r4 =>
    match gstep rem 268435456 39332535 r4 with Some r5 =>
    match gstep rem 536870912 720401 r5 with Some r6 =>
    match gstep rem 1073741824 242 r6 with Some r7' =>
      if a =? 0 then Some 2147483647 else Some r7'
    | None => None end | None => None end | None => None end | None => None end
    | None => None end | None => None end | None => None end | None => None end
    | None => None end | None => None end | None => None end | None => None end | None => None end
  else None else None.

Lemma gen_exp_unfold a : G.exp_on_negative_values a = gen_exp_nice a.
Proof. reflexivity. Qed.

Definition ref_exp_nice (a : Z) : Z :=
  let am := sub32 (Z.land a 16777215) 16777216 in
  let r0 := FpMath.exp_on_interval_between_negative_one_quarter_and_0_excl (Rescale 5 0 am) in
  let rem := sub32 am a in
  let r1 := rstep rem 16777216 1672461947 r0 in
  let r2 := rstep rem 33554432 1302514674 r1 in
  let r3 := rstep rem 67108864 790015084 r2 in
  let r4 := rstep rem 134217728 290630308 r3 in
  let r5 := rstep rem 268435456 39332535 r4 in
  let r6 := rstep rem 536870912 720401 r5 in
  let r7 := rstep rem 1073741824 242 r6 in
  if a =? 0 then 2147483647 else r7.

Lemma barrel_5 rem e k m r :
  (5 >? e) = true -> cast32 (Z.shiftl 1 (26 + e)) = k -> exp_barrel_shifter 5 rem e m r = rstep rem k m r.
Proof.
  intros H1 H2. unfold exp_barrel_shifter, rstep. rewrite H1. cbv zeta. change (31 - 5) with 26. rewrite H2. reflexivity.
Qed.

Lemma ref_exp_unfold a : FpMath.exp_on_negative_values a = ref_exp_nice a.
Proof.
  unfold FpMath.exp_on_negative_values, exp_on_negative_values_ib, ref_exp_nice.
  rewrite (barrel_5 _ (-2) 16777216), (barrel_5 _ (-1) 33554432), (barrel_5 _ 0 67108864),
    (barrel_5 _ 1 134217728), (barrel_5 _ 2 268435456), (barrel_5 _ 3 536870912), (barrel_5 _ 4 1073741824)
    by (vm_compute; reflexivity).
  change (5 >? 5) with false. change (Z.shiftl 1 (31 - 5 - 2)) with 16777216.
  change (sub32 16777216 1) with 16777215. reflexivity.
Qed.

Definition exp_neg_c (a : Z) : Z :=
  let am := a mod 16777216 - 16777216 in
  let r0 := exp_interval_c (am * 32) in
  let rem := am - a in
  let r1 := cstep rem 16777216 1672461947 r0 in
  let r2 := cstep rem 33554432 1302514674 r1 in
  let r3 := cstep rem 67108864 790015084 r2 in
  let r4 := cstep rem 134217728 290630308 r3 in
  let r5 := cstep rem 268435456 39332535 r4 in
  let r6 := cstep rem 536870912 720401 r5 in
  let r7 := cstep rem 1073741824 242 r6 in
  if a =? 0 then 2147483647 else r7.

Definition q31 (r : Z) : Prop := 0 <= r <= 2147483647.
Lemma q31_in32 r : q31 r -> in32 r. Proof. unfold q31, in32. lia. Qed.

Lemma cstep_q31 rem k mult r : q31 r -> q31 mult -> q31 (cstep rem k mult r).
Proof.
  intros Hr Hm. unfold cstep. destruct (negb (Z.land rem k =? 0)); [|exact Hr].
  pose proof (srdhm32_c_bounds' r mult (q31_in32 _ Hr) (q31_in32 _ Hm) ltac:(unfold q31 in *; lia)) as [U L].
  unfold q31 in *. assert (0 <= r * mult <= 2147483647 * 2147483647) by nia. lia.
Qed.

Lemma gstep_closed rem k mult r : q31 r -> q31 mult -> gstep rem k mult r = Some (cstep rem k mult r).
Proof.
  intros Hr Hm. unfold gstep, cstep. destruct (negb (Z.land rem k =? 0)); [|reflexivity].
  rewrite srdhm32_gen_closed by (apply q31_in32; assumption). reflexivity.
Qed.

Lemma rstep_closed rem k mult r : q31 r -> q31 mult -> rstep rem k mult r = cstep rem k mult r.
Proof.
  intros Hr Hm. unfold rstep, cstep. destruct (negb (Z.land rem k =? 0)); [|reflexivity].
  apply SRDHM32_closed; apply q31_in32; assumption.
Qed.

Lemma exp_neg_facts a : in32 a -> a <= 0 ->
  let am := a mod 16777216 - 16777216 in
  -16777216 <= am <= -1 /\ in32 (am - a) /\ -536870912 <= am * 32 < 0.
Proof.
  intros Ha Hn. cbv zeta. pose proof (Z.mod_pos_bound a 16777216 ltac:(lia)).
  pose proof (Z.div_mod a 16777216 ltac:(lia)). unfold in32 in *. lia.
Qed.

Lemma rescale_5_0 am : -16777216 <= am <= -1 ->
  G.rescale 5 0 am = Some (am * 32) /\ Rescale 5 0 am = am * 32.
Proof.
  intros H. assert (Hi : in_int 32 am = true) by (apply in_int32_true; unfold in32; lia).
  destruct (rescale_eq_lemma 5 0 am eq_refl eq_refl Hi ltac:(lia)) as [E _]. rewrite E.
  assert (R : Rescale 5 0 am = am * 32).
  { unfold Rescale. change (5 - 0) with 5. rewrite SRMBPOT_closed_pos by (unfold in32; lia).
    unfold srmbpot_c. change (2 ^ (31 - 5) - 1) with 67108863. change (2 ^ 5) with 32.
    destruct (Z.gtb_spec am 67108863); [lia|]. destruct (Z.ltb_spec am (Z.opp 67108863)); [lia|reflexivity]. }
  rewrite R. split; reflexivity.
Qed.

Ltac q31c := unfold q31; lia.

Lemma exp_neg_c_q31 a : in32 a -> a <= 0 -> q31 (exp_neg_c a).
Proof.
  intros Ha Hn. pose proof (exp_neg_facts a Ha Hn) as F. cbv zeta in F. destruct F as (Ham & Irem & Hs).
  unfold exp_neg_c. cbv zeta. destruct (a =? 0); [q31c|].
  pose proof (exp_interval_c_range _ Hs) as H0.
  repeat (apply cstep_q31; [|q31c]). q31c.
Qed.

Lemma exp_neg_gen_closed a : in32 a -> a <= 0 -> G.exp_on_negative_values a = Some (exp_neg_c a).
Proof.
  intros Ha Hn. pose proof (exp_neg_facts a Ha Hn) as F. cbv zeta in F. destruct F as (Ham & Irem & Hs).
  rewrite gen_exp_unfold. unfold gen_exp_nice, exp_neg_c.
  rewrite (in_int32_intro a Ha). destruct (Z.leb_spec a 0); [|lia].
  change (chk_int 32 16777216) with (Some 16777216). change (chk_int 32 16777215) with (Some 16777215).
  cbv beta iota zeta.
  change 16777215 with (2 ^ 24 - 1). rewrite land_ones_mod by lia. change (2 ^ 24) with 16777216.
  set (am := a mod 16777216 - 16777216) in *.
  rewrite (chk_int32_intro am) by (unfold in32; lia). cbv beta iota.
  destruct (rescale_5_0 am Ham) as [E _]. rewrite E. cbv beta iota.
  rewrite (exp_interval_gen_closed _ Hs). cbv beta iota.
  rewrite (chk_int32_intro (am - a) Irem). cbv beta iota.
  pose proof (exp_interval_c_range _ Hs) as H0.
  set (r0 := exp_interval_c (am * 32)) in *. assert (Q0 : q31 r0) by q31c.
  rewrite (gstep_closed _ 16777216 1672461947 r0 Q0 ltac:(q31c)). cbv beta iota.
  set (r1 := cstep _ 16777216 _ r0). assert (Q1 : q31 r1) by (apply cstep_q31; [assumption|q31c]).
  rewrite (gstep_closed _ 33554432 1302514674 r1 Q1 ltac:(q31c)). cbv beta iota.
  set (r2 := cstep _ 33554432 _ r1). assert (Q2 : q31 r2) by (apply cstep_q31; [assumption|q31c]).
  rewrite (gstep_closed _ 67108864 790015084 r2 Q2 ltac:(q31c)). cbv beta iota.
  set (r3 := cstep _ 67108864 _ r2). assert (Q3 : q31 r3) by (apply cstep_q31; [assumption|q31c]).
  rewrite (gstep_closed _ 134217728 290630308 r3 Q3 ltac:(q31c)). cbv beta iota.
  set (r4 := cstep _ 134217728 _ r3). assert (Q4 : q31 r4) by (apply cstep_q31; [assumption|q31c]).
  rewrite (gstep_closed _ 268435456 39332535 r4 Q4 ltac:(q31c)). cbv beta iota.
  set (r5 := cstep _ 268435456 _ r4). assert (Q5 : q31 r5) by (apply cstep_q31; [assumption|q31c]).
  rewrite (gstep_closed _ 536870912 720401 r5 Q5 ltac:(q31c)). cbv beta iota.
  set (r6 := cstep _ 536870912 _ r5). assert (Q6 : q31 r6) by (apply cstep_q31; [assumption|q31c]).
  rewrite (gstep_closed _ 1073741824 242 r6 Q6 ltac:(q31c)). cbv beta iota.
  destruct (a =? 0); reflexivity.
Qed.

Lemma exp_neg_ref_closed a : in32 a -> a <= 0 -> FpMath.exp_on_negative_values a = exp_neg_c a.
Proof.
  intros Ha Hn. pose proof (exp_neg_facts a Ha Hn) as F. cbv zeta in F. destruct F as (Ham & Irem & Hs).
  rewrite ref_exp_unfold. unfold ref_exp_nice, exp_neg_c. cbv zeta.
  change 16777215 with (2 ^ 24 - 1). rewrite land_ones_mod by lia. change (2 ^ 24) with 16777216.
  unfold sub32. set (am := a mod 16777216 - 16777216) in *.
  rewrite (cast32_id am) by (unfold in32; lia). rewrite (cast32_id (am - a) Irem).
  destruct (rescale_5_0 am Ham) as [_ E]. rewrite E.
  rewrite (exp_interval_ref_closed _ Hs).
  pose proof (exp_interval_c_range _ Hs) as H0.
  set (r0 := exp_interval_c (am * 32)) in *. assert (Q0 : q31 r0) by q31c.
  rewrite (rstep_closed _ 16777216 1672461947 r0 Q0 ltac:(q31c)).
  set (r1 := cstep _ 16777216 _ r0). assert (Q1 : q31 r1) by (apply cstep_q31; [assumption|q31c]).
  rewrite (rstep_closed _ 33554432 1302514674 r1 Q1 ltac:(q31c)).
  set (r2 := cstep _ 33554432 _ r1). assert (Q2 : q31 r2) by (apply cstep_q31; [assumption|q31c]).
  rewrite (rstep_closed _ 67108864 790015084 r2 Q2 ltac:(q31c)).
  set (r3 := cstep _ 67108864 _ r2). assert (Q3 : q31 r3) by (apply cstep_q31; [assumption|q31c]).
  rewrite (rstep_closed _ 134217728 290630308 r3 Q3 ltac:(q31c)).
  set (r4 := cstep _ 134217728 _ r3). assert (Q4 : q31 r4) by (apply cstep_q31; [assumption|q31c]).
  rewrite (rstep_closed _ 268435456 39332535 r4 Q4 ltac:(q31c)).
  set (r5 := cstep _ 268435456 _ r4). assert (Q5 : q31 r5) by (apply cstep_q31; [assumption|q31c]).
  rewrite (rstep_closed _ 536870912 720401 r5 Q5 ltac:(q31c)).
  set (r6 := cstep _ 536870912 _ r5). assert (Q6 : q31 r6) by (apply cstep_q31; [assumption|q31c]).
  rewrite (rstep_closed _ 1073741824 242 r6 Q6 ltac:(q31c)).
  reflexivity.
Qed.

Lemma exp_on_negative_values_eq_lemma a :
  in_int 32 a = true -> a <= 0 -> G.exp_on_negative_values a = Some (FpMath.exp_on_negative_values a).
Proof.
  intros Ha Hn. apply in_int32_true in Ha. rewrite exp_neg_ref_closed by assumption.
  apply exp_neg_gen_closed; assumption.
Qed.

Lemma exp_on_negative_values_total_lemma a :
  in_int 32 a = true -> a <= 0 ->
  exists r, G.exp_on_negative_values a = Some r /\ in_int 32 r = true /\ 0 <= r.
Proof.
  intros Ha Hn. apply in_int32_true in Ha. exists (exp_neg_c a).
  split; [apply exp_neg_gen_closed; assumption|].
  pose proof (exp_neg_c_q31 a Ha Hn) as Q. split; [apply in_int32_true, q31_in32; exact Q|unfold q31 in Q; lia].
Qed.

(* outside the domain the function stops with an assertion *)
Lemma exp_on_negative_values_positive_fails a : 0 < a -> G.exp_on_negative_values a = None.
Proof.
  intros Hp. rewrite gen_exp_unfold. unfold gen_exp_nice. destruct (in_int 32 a); [|reflexivity].
  destruct (Z.leb_spec a 0); [lia|reflexivity].
Qed.

(* what the doubling high multiply is, mathematically: a*b/2^31 rounded to nearest, ties upward *)
Lemma srdhm32_round_half_up a b :
  in_int 32 a = true -> in_int 32 b = true -> (a =? b) && (a =? -2147483648) = false ->
  SRDHM32 a b = (a * b + 2 ^ 30) / 2 ^ 31.
Proof.
  intros Ha Hb Eo. apply in_int32_true in Ha. apply in_int32_true in Hb.
  rewrite SRDHM32_closed by assumption. unfold srdhm32_c. rewrite Eo.
  change (2 ^ 30) with 1073741824. change (2 ^ 31) with 2147483648.
  destruct (Z.geb_spec (a * b) 0) as [Hs|Hs].
  - apply Z.quot_div_nonneg; lia.
  - destruct (quot_bounds (a * b + (1 - 1073741824)) 2147483648 ltac:(lia)) as [_ H]. specialize (H ltac:(lia)).
    pose proof (Z.div_mod (a * b + 1073741824) 2147483648 ltac:(lia)).
    pose proof (Z.mod_pos_bound (a * b + 1073741824) 2147483648 ltac:(lia)). lia.
Qed.

(* ------------------------------------------------------------------------------------------
   non-trivial instances of the hypotheses (computed by the kernel) *)
Example srdhm32_example :
  G.saturating_rounding_mul32 (-2147483648) 2147483647 = Some (-2147483647) /\
  SRDHM32 (-2147483648) 2147483647 = -2147483647 /\
  G.saturating_rounding_mul32 (-3) 1073741824 = Some (-1) /\   (* -1.5 rounds to -1: ties go up *)
  G.saturating_rounding_mul32 (-2147483648) (-2147483648) = Some 2147483647.
Proof. vm_compute. repeat split. Qed.
Example srdhm16_example :
  G.saturating_rounding_mul16 (-32768) 32767 = Some (-32767) /\ SRDHM16 (-3) 16384 = -1 /\
  G.saturating_rounding_mul16 (-3) 16384 = Some (-1).
Proof. vm_compute. repeat split. Qed.
Example sat_mul16_example :
  G.saturating_mul16 (-3) 16384 = Some (-1) /\ G.saturating_mul16 (-32768) (-32768) = Some 32767 /\
  SaturatingDoublingHighMul16 (-32767) 3 = -2.
Proof. vm_compute. repeat split. Qed.
Example rdbpot_example :
  G.rounding_divide_by_pot (-5) 1 = Some (-3) /\ RoundingDivideByPOT (-5) 1 = -3 /\
  G.rounding_divide_by_pot 5 1 = Some 3 /\ G.rounding_divide_by_pot (-2147483648) 31 = Some (-1) /\
  G.rounding_divide_by_pot 1073741823 31 = Some 0.
Proof. vm_compute. repeat split. Qed.
Example srmbpot_example :
  G.saturating_rounding_multiply_by_pot 67108864 5 = Some 2147483647 /\
  SaturatingRoundingMultiplyByPOT 5 (-67108863) = -2147483616 /\
  G.rescale 5 0 (-16777216) = Some (-536870912) /\ G.rescale 0 5 (-48) = Some (-2).
Proof. vm_compute. repeat split. Qed.
Example mbqm_example :
  G.multiply_by_quantized_multiplier (-255) 1518500250 30 = Some (-361) /\
  MultiplyByQuantizedMultiplier (-255) 1518500250 1 = -361 /\
  G.multiply_by_quantized_multiplier 100000 1073741824 0 = None /\
  G.multiply_by_quantized_multiplier 77 2147483647 40 = Some 0.
Proof. vm_compute. repeat split. Qed.
Example exp_example :
  G.exp_on_negative_values (-12345678) = Some 1786631188 /\ FpMath.exp_on_negative_values (-12345678) = 1786631188 /\
  G.exp_on_negative_values 0 = Some 2147483647 /\ G.exp_on_negative_values (-2147483648) = Some 0.
Proof. vm_compute. repeat split. Qed.
Example shift_left_example :
  G.shift_left16 32640 1 = Some 32767 /\ SaturatingLeftShift16 (-32640) 5 = -32768 /\
  G.shift_left32 3 31 = Some 2147483647 /\ G.shift_left32 (-5) 3 = Some (-40).
Proof. vm_compute. repeat split. Qed.
Example downscale_example :
  G.downscale_multiplier_int32_to_int16 2147483647 = Some 32767 /\
  G.downscale_multiplier_int32_to_int16 1073741824 = Some 16384 /\
  DownScaleInt32ToInt16Multiplier 1073774591 = 16384.
Proof. vm_compute. repeat split. Qed.

(* ------------------------------------------------------------------------------------------
   magnitude bounds (needed to show that adding a zero point cannot leave the C type) *)
Lemma srdhm32_c_abs a m : in32 a -> in32 m -> Z.abs (srdhm32_c a m) <= Z.abs a.
Proof.
  intros Ha Hm. destruct ((a =? m) && (a =? -2147483648)) eqn:Eo.
  - unfold srdhm32_c. rewrite Eo. rewrite andb_true_iff, !Z.eqb_eq in Eo. lia.
  - pose proof (srdhm32_c_bounds a m Ha Hm Eo) as [U L]. unfold in32 in *. nia.
Qed.

Lemma srdhm16_c_abs a m : in16 a -> in16 m -> Z.abs (srdhm16_c a m) <= Z.abs a.
Proof.
  intros Ha Hm. destruct ((a =? m) && (a =? -32768)) eqn:Eo.
  - unfold srdhm16_c. rewrite Eo. rewrite andb_true_iff, !Z.eqb_eq in Eo. lia.
  - pose proof (srdhm16_c_bounds a m Ha Hm Eo) as [U L]. unfold in16 in *. nia.
Qed.

Lemma sdhm16_c_abs a b : in16 a -> in16 b -> Z.abs (sdhm16_c a b) <= Z.abs b.
Proof.
  intros Ha Hb. unfold sdhm16_c. destruct ((a =? b) && (a =? -32768)) eqn:Eo.
  - rewrite andb_true_iff, !Z.eqb_eq in Eo. lia.
  - destruct (quot_bounds (a * b) 32768 ltac:(lia)) as [H1 H2]. unfold in16 in *.
    destruct (Z.le_ge_cases 0 (a * b)) as [Hs|Hs]; [specialize (H1 Hs)|specialize (H2 Hs)]; nia.
Qed.

Lemma rdbpot_c_abs x e : 0 <= e -> Z.abs (rdbpot_c x e) <= Z.abs x.
Proof.
  intros He. destruct (Z.eq_dec e 0) as [->|Hne]; [rewrite rdbpot_c_e0; lia|].
  pose proof (rdbpot_c_bounds x e ltac:(lia)) as [U L].
  pose proof (pow2_pos (e - 1) ltac:(lia)) as Hp. rewrite (pow2_half e ltac:(lia)) in *.
  set (p := 2 ^ (e - 1)) in *. set (r := rdbpot_c x e) in *.
  destruct (Z.le_ge_cases 0 x); destruct (Z.le_ge_cases 0 r); nia.
Qed.

Lemma rdbpot_c_in16 x e : in16 x -> 0 <= e -> in16 (rdbpot_c x e).
Proof.
  intros Hx He. destruct (Z.eq_dec e 0) as [->|Hne]; [rewrite rdbpot_c_e0; assumption|].
  pose proof (rdbpot_c_bounds x e ltac:(lia)) as [U L].
  pose proof (pow2_pos (e - 1) ltac:(lia)) as Hp. rewrite (pow2_half e ltac:(lia)) in *.
  set (p := 2 ^ (e - 1)) in *. unfold in16 in *. split; nia.
Qed.

Lemma pow2_le_15 n : 0 <= n <= 15 -> 1 <= 2 ^ n <= 32768.
Proof. intros. pose proof (pow2_pos n). pose proof (pow2_le n 15). change (2 ^ 15) with 32768 in *. lia. Qed.

Lemma RDBPOT16_closed x e : in16 x -> 0 <= e <= 15 -> RoundingDivideByPOT16 x e = rdbpot_c x e.
Proof.
  intros Hx He. pose proof (rdbpot_c_in16 x e Hx ltac:(lia)) as Hr. revert Hr.
  unfold RoundingDivideByPOT16, rdbpot_c. cbv zeta.
  rewrite shiftl_1 by lia. pose proof (pow2_le_15 e He) as Hp.
  rewrite (cast64_id (2 ^ e)) by (unfold in64; lia).
  rewrite (cast16_id (2 ^ e - 1)) by (unfold in16; lia).
  rewrite land_ones_mod by lia. rewrite !land_mask_if. rewrite !shiftr_div by lia.
  change (2 ^ 1) with 2.
  assert (0 <= (2 ^ e - 1) / 2 < 16384).
  { split; [apply Z.div_pos; lia|apply Z.div_lt_upper_bound; lia]. }
  rewrite (cast16_id ((2 ^ e - 1) / 2 + _)) by (unfold in16; destruct (x <? 0); lia).
  intros Hr. rewrite cast16_id; [reflexivity|exact Hr].
Qed.

(* ------------------------------------------------------------------------------------------
   MultiplyByQuantizedMultiplier in closed form, and its magnitude *)
Definition mbqm_c (x m s : Z) : Z :=
  rdbpot_c (srdhm32_c (x * 2 ^ Z.max 0 (31 - s)) m) (Z.max 0 (s - 31)).

Lemma mbqm_gen_closed x m s :
  in32 m -> 0 <= s <= 62 -> in32 (x * 2 ^ Z.max 0 (31 - s)) ->
  G.multiply_by_quantized_multiplier x m s = Some (mbqm_c x m s).
Proof.
  intros Hm Hs Hp. unfold G.multiply_by_quantized_multiplier, mbqm_c. cbv zeta.
  assert (E1 : (if 31 - s >? 0 then 31 - s else 0) = Z.max 0 (31 - s)) by (destruct (Z.gtb_spec (31 - s) 0); lia).
  assert (E2 : (if 31 - s <? 0 then - (31 - s) else 0) = Z.max 0 (s - 31)) by (destruct (Z.ltb_spec (31 - s) 0); lia).
  rewrite E1, E2. rewrite shiftl_1 by lia.
  rewrite (srdhm32_gen_closed _ m Hp Hm).
  rewrite rdbpot_gen_closed by (try apply srdhm32_c_in32; (assumption || lia)). reflexivity.
Qed.

Lemma mbqm_c_abs x m s :
  in32 m -> 0 <= s -> in32 (x * 2 ^ Z.max 0 (31 - s)) -> Z.abs (mbqm_c x m s) <= Z.abs (x * 2 ^ Z.max 0 (31 - s)).
Proof.
  intros Hm Hs Hp. unfold mbqm_c.
  pose proof (rdbpot_c_abs (srdhm32_c (x * 2 ^ Z.max 0 (31 - s)) m) (Z.max 0 (s - 31)) ltac:(lia)).
  pose proof (srdhm32_c_abs _ m Hp Hm). lia.
Qed.

Lemma MBQM_closed x m s :
  in32 x -> in32 m -> 0 <= s <= 62 -> in32 (x * 2 ^ Z.max 0 (31 - s)) ->
  MultiplyByQuantizedMultiplier x m (31 - s) = mbqm_c x m s.
Proof.
  intros Hx Hm Hs Hp.
  destruct (mbqm_eq_reference_lemma x m s) as [E _]; try (apply in_int32_true; assumption); try lia.
  rewrite mbqm_gen_closed in E by assumption. congruence.
Qed.

(* ------------------------------------------------------------------------------------------
   integer-only tables *)
Definition code8 (v : Z) : Prop := -128 <= v <= 255.   (* an int8 or uint8 code / zero point *)
(* input code and input zero point belong to the same 8-bit type *)
Definition same8 (x zi : Z) : Prop := (-128 <= x <= 127 /\ -128 <= zi <= 127) \/ (0 <= x <= 255 /\ 0 <= zi <= 255).

Lemma small_shift_in32 d s : -255 <= d <= 255 -> 9 <= s -> in32 (d * 2 ^ Z.max 0 (31 - s)) /\
  Z.abs (d * 2 ^ Z.max 0 (31 - s)) <= 1069547520.
Proof.
  intros Hd Hs. assert (1 <= 2 ^ Z.max 0 (31 - s) <= 4194304).
  { pose proof (pow2_pos (Z.max 0 (31 - s)) ltac:(lia)). pose proof (pow2_le (Z.max 0 (31 - s)) 22 ltac:(lia)).
    change (2 ^ 22) with 4194304 in *. lia. }
  unfold in32. split; nia.
Qed.

Lemma lut_lrelu_correct_lemma zi zo ids idsh als alsh qmin qmax x :
  same8 x zi -> code8 zo ->
  in_int 32 ids = true -> in_int 32 als = true -> 9 <= idsh <= 62 -> 9 <= alsh <= 62 ->
  vela_lrelu_entry zi zo ids idsh 1 als alsh qmin qmax x =
    Some (LeakyReluRef zi zo ids (31 - idsh) als (31 - alsh) qmin qmax x).
Proof.
  unfold code8, same8. intros Hx Hzo Hids Hals Hs1 Hs2.
  apply in_int32_true in Hids. apply in_int32_true in Hals.
  unfold vela_lrelu_entry, LeakyReluRef. cbv zeta. rewrite Z.mul_1_l.
  rewrite (cast32_id (x - zi)) by (unfold in32; lia).
  destruct (Z.ltb_spec x zi); destruct (Z.geb_spec (x - zi) 0); try lia.
  - destruct (small_shift_in32 (x - zi) alsh ltac:(lia) ltac:(lia)) as [Hp Hb].
    rewrite mbqm_gen_closed by (assumption || lia). cbn [obind].
    rewrite MBQM_closed by (assumption || lia || (unfold in32; lia)).
    pose proof (mbqm_c_abs (x - zi) als alsh Hals ltac:(lia) Hp).
    rewrite cast32_id by (unfold in32; lia). reflexivity.
  - destruct (small_shift_in32 (x - zi) idsh ltac:(lia) ltac:(lia)) as [Hp Hb].
    rewrite mbqm_gen_closed by (assumption || lia). cbn [obind].
    rewrite MBQM_closed by (assumption || lia || (unfold in32; lia)).
    pose proof (mbqm_c_abs (x - zi) ids idsh Hids ltac:(lia) Hp).
    rewrite cast32_id by (unfold in32; lia). reflexivity.
Qed.

Lemma mid_shift_in32 d s : -65535 <= d <= 65535 -> 16 <= s -> in32 (d * 2 ^ Z.max 0 (31 - s)) /\
  Z.abs (d * 2 ^ Z.max 0 (31 - s)) <= 2147450880.
Proof.
  intros Hd Hs. assert (1 <= 2 ^ Z.max 0 (31 - s) <= 32768).
  { pose proof (pow2_pos (Z.max 0 (31 - s)) ltac:(lia)). pose proof (pow2_le (Z.max 0 (31 - s)) 15 ltac:(lia)).
    change (2 ^ 15) with 32768 in *. lia. }
  unfold in32. split; nia.
Qed.

(* optimise_quantize, int8 -> int8 and int16 -> int16 constants *)
Lemma quantize_fold_correct_lemma zi zo m s qmin qmax v :
  in_int 16 v = true -> in_int 16 zi = true -> -512 <= zo <= 511 -> in_int 32 m = true -> 16 <= s <= 62 ->
  vela_requant_entry zi zo m s qmin qmax v = Some (RequantizeRef zi zo m (31 - s) qmin qmax v).
Proof.
  intros Hv Hzi Hzo Hm Hs. apply in_int16_true in Hv. apply in_int16_true in Hzi. apply in_int32_true in Hm.
  unfold in16 in *. unfold vela_requant_entry, RequantizeRef. cbv zeta.
  rewrite (cast32_id (v - zi)) by (unfold in32; lia).
  destruct (mid_shift_in32 (v - zi) s ltac:(lia) ltac:(lia)) as [Hp Hb].
  rewrite mbqm_gen_closed by (assumption || lia). cbn [obind].
  rewrite MBQM_closed by (assumption || lia || (unfold in32; lia)).
  pose proof (mbqm_c_abs (v - zi) m s Hm ltac:(lia) Hp).
  rewrite cast32_id by (unfold in32; lia). reflexivity.
Qed.

(* PReLU with a constant, channel-uniform alpha: convert_prelu + convert_lrelu_to_lut equal the Prelu kernel *)
Lemma lut_prelu_correct_lemma zi zo azp acode ids idsh als alsh qmin qmax x :
  same8 x zi -> same8 acode azp -> code8 zo ->
  in_int 32 ids = true -> in_int 32 als = true -> 9 <= idsh <= 62 -> 16 <= alsh <= 62 ->
  vela_prelu_entry zi zo azp acode ids idsh als alsh qmin qmax x =
    Some (PReluRef zi zo azp acode ids (31 - idsh) als (31 - alsh) qmin qmax x).
Proof.
  unfold code8, same8. intros Hx Ha Hzo Hids Hals Hs1 Hs2.
  apply in_int32_true in Hids. apply in_int32_true in Hals.
  unfold vela_prelu_entry, vela_prelu_alpha_scalar, vela_lrelu_entry, PReluRef. cbv zeta.
  rewrite (cast32_id (x - zi)) by (unfold in32; lia).
  rewrite (cast32_id (acode - azp)) by (unfold in32; lia).
  destruct (Z.ltb_spec x zi); destruct (Z.geb_spec (x - zi) 0); try lia.
  - assert (Hd : -65535 <= (acode - azp) * (x - zi) <= 65535) by nia.
    replace ((x - zi) * (acode - azp)) with ((acode - azp) * (x - zi)) by lia.
    rewrite (cast32_id ((acode - azp) * (x - zi))) by (unfold in32; lia).
    destruct (mid_shift_in32 ((acode - azp) * (x - zi)) alsh Hd ltac:(lia)) as [Hp Hb].
    rewrite mbqm_gen_closed by (assumption || lia). cbn [obind].
    rewrite MBQM_closed by (assumption || lia || (unfold in32; lia)).
    pose proof (mbqm_c_abs ((acode - azp) * (x - zi)) als alsh Hals ltac:(lia) Hp).
    rewrite cast32_id by (unfold in32; lia). f_equal. unfold clampZ. f_equal. f_equal. lia.
  - destruct (small_shift_in32 (x - zi) idsh ltac:(lia) ltac:(lia)) as [Hp Hb].
    rewrite mbqm_gen_closed by (assumption || lia). cbn [obind].
    rewrite MBQM_closed by (assumption || lia || (unfold in32; lia)).
    pose proof (mbqm_c_abs (x - zi) ids idsh Hids ltac:(lia) Hp).
    rewrite cast32_id by (unfold in32; lia). f_equal. unfold clampZ. f_equal. f_equal. lia.
Qed.

Example lut_prelu_example :
  (* int8, all scales per the TFLite converter: alpha code -96 with zero point -128, alpha scale 2^-7: slope 0.25;
     ifm_scale = ofm_scale, zero points 0: code -100 -> -25 *)
  vela_prelu_entry 0 0 (-128) (-96) 1073741824 30 1073741824 37 (-128) 127 (-100) = Some (-25) /\
  PReluRef 0 0 (-128) (-96) 1073741824 1 1073741824 (-6) (-128) 127 (-100) = -25 /\
  (* without the alpha zero point the slope would be -0.75 and the entry 75 *)
  vela_lrelu_entry 0 0 1073741824 30 (-96) 1073741824 37 (-128) 127 (-100) = Some 75.
Proof. vm_compute. repeat split. Qed.

(* Maximum(x, Mul(x, c)) / Maximum(x, Mul(c, x)): the table built from the alpha_scaling the rewrite derives is the
   MUL-kernel reference (Prelu shape) with the multiplier of (ifm scale, CONSTANT's scale, Mul output scale),
   whichever operand of the Mul the constant is *)
Lemma lut_mulmax_correct_lemma qs fm ct mul_ofm (const_first : bool) zo ids idsh qmin qmax x :
  let in1 := if const_first then ct else fm in
  let in2 := if const_first then fm else ct in
  let als := fst (qs (q_scale fm) (q_scale ct) (q_scale mul_ofm)) in
  let alsh := snd (qs (q_scale fm) (q_scale ct) (q_scale mul_ofm)) in
  same8 x (q_zp fm) -> same8 (q_code ct) (q_zp ct) -> code8 zo ->
  in_int 32 ids = true -> in_int 32 als = true -> 9 <= idsh <= 62 -> 16 <= alsh <= 62 ->
  vela_mulmax_entry qs fm in1 in2 mul_ofm (negb const_first) zo ids idsh qmin qmax x =
    Some (PReluRef (q_zp fm) zo (q_zp ct) (q_code ct) ids (31 - idsh) als (31 - alsh) qmin qmax x).
Proof.
  cbv zeta. intros Hx Ha Hzo Hids Hals Hs1 Hs2.
  unfold vela_mulmax_entry, mulmax_alpha_scaling.
  assert (E : (if negb const_first then (if const_first then fm else ct) else (if const_first then ct else fm)) = ct)
    by (destruct const_first; reflexivity).
  rewrite E. destruct (qs (q_scale fm) (q_scale ct) (q_scale mul_ofm)) as [a sh] eqn:Eq. cbn [fst snd] in *.
  apply (lut_prelu_correct_lemma (q_zp fm) zo (q_zp ct) (q_code ct) ids idsh a sh qmin qmax x); assumption.
Qed.

(* the decision is about the value the constant stands for *)
Lemma mulmax_kind_spec code zp m e :
  e <= 0 ->
  (mulmax_kind code zp (Dy m e) = 1 <-> 0 <= m * (code - zp) <= 2 ^ (- e)) /\
  (mulmax_kind code zp (Dy m e) = 2 <-> m * (code - zp) = - 2 ^ (- e)).
Proof.
  intros He. unfold mulmax_kind, dy_leb, dy_align, dy_mul_int, dy_of_Z. cbn [dm de].
  rewrite (Z.min_r 0 e), (Z.min_l e 0) by lia. replace (e - e) with 0 by lia. replace (0 - e) with (- e) by lia.
  change (2 ^ 0) with 1. rewrite !Z.mul_1_r, Z.mul_0_l.
  pose proof (pow2_pos (- e) ltac:(lia)) as Hp. set (p := 2 ^ (- e)) in *. set (v := m * (code - zp)).
  destruct (Z.leb_spec 0 v); destruct (Z.leb_spec v (1 * p)); destruct (Z.leb_spec (-1 * p) v);
    destruct (Z.leb_spec v (-1 * p)); cbn [andb]; split; split; intros; try discriminate; try lia.
Qed.

Example mulmax_example :
  (* uint8 alpha code 192, zero point 0, scale 2^-7 = 1.5: not rewritten; code 64: 0.5 -> LeakyRelu; int8 -128 * 2^-7 = -1 -> Abs *)
  mulmax_kind 192 0 (Dy 1 (-7)) = 0 /\ mulmax_kind 64 0 (Dy 1 (-7)) = 1 /\ mulmax_kind (-128) 0 (Dy 1 (-7)) = 2 /\
  mulmax_kind (-96) (-128) (Dy 8388608 (-30)) = 1.
Proof. vm_compute. repeat split. Qed.

Example lut_lrelu_example :
  vela_lrelu_entry (-128) (-128) 1073741824 30 1 1717986918 34 (-128) 127 (-100) = Some (-100) /\
  vela_lrelu_entry 3 (-5) 1073741824 31 1 1717986918 34 (-128) 127 (-100) = Some (-15) /\
  LeakyReluRef 3 (-5) 1073741824 0 1717986918 (-3) (-128) 127 (-100) = -15.
Proof. vm_compute. repeat split. Qed.

Example quantize_fold_example :
  vela_requant_entry (-128) (-128) 1073741824 31 (-128) 127 100 = Some (-14) /\
  RequantizeRef 0 0 1518500250 1 (-32768) 32767 (-20000) = -28284.
Proof. vm_compute. repeat split. Qed.

(* ------------------------------------------------------------------------------------------
   hard-swish table *)
Lemma gtb_31_sub a : (31 - a >? 0) = (a <? 31).
Proof. destruct (Z.gtb_spec (31 - a) 0); destruct (Z.ltb_spec a 31); lia. Qed.
Lemma ltb_31_sub a : (31 - a <? 0) = (a >? 31).
Proof. destruct (Z.ltb_spec (31 - a) 0); destruct (Z.gtb_spec a 31); lia. Qed.

Lemma rdbpot_c_half x e : 1 <= e -> 2 * Z.abs (rdbpot_c x e) <= Z.abs x + 1.
Proof.
  intros He. pose proof (rdbpot_c_bounds x e He) as [U L].
  pose proof (pow2_pos (e - 1) ltac:(lia)) as Hp. rewrite (pow2_half e ltac:(lia)) in *.
  set (p := 2 ^ (e - 1)) in *. set (r := rdbpot_c x e) in *.
  destruct (Z.le_ge_cases 0 x); destruct (Z.le_ge_cases 0 r); nia.
Qed.

Definition zo_ok (zo osh : Z) : Prop := -128 <= zo <= 127 \/ (0 <= zo <= 255 /\ 32 <= osh).

Lemma hs_tail R pre zo osh qmin qmax :
  in16 R -> in16 pre -> Z.abs pre <= 32640 -> zo_ok zo osh -> 31 <= osh <= 46 -> qmin <= qmax ->
  obind (G.saturating_mul16 (Z.shiftr (R + 32768) 1) pre)
        (fun lut_result =>
           obind (G.rounding_divide_by_pot lut_result (if 31 - osh <? 0 then - (31 - osh) else 0))
                 (fun r => Some (clampZ qmin qmax (r + zo))))
  = Some (Z.max (Z.min (cast16 (RoundingDivideByPOT16
                                  (SaturatingDoublingHighMul16 (cast16 (Z.shiftr (cast32 (R + 32768)) 1)) pre)
                                  (- (31 - osh)) + zo)) qmax) qmin).
Proof.
  intros IR Ipre Apre Hzo Hosh Hq.
  rewrite (cast32_id (R + 32768)) by (unfold in32, in16 in *; lia).
  rewrite shiftr_div by lia. change (2 ^ 1) with 2.
  assert (Iq : 0 <= (R + 32768) / 2 <= 32767).
  { unfold in16 in IR. split; [apply Z.div_pos; lia|]. assert ((R + 32768) / 2 < 32768) by (apply Z.div_lt_upper_bound; lia). lia. }
  set (q := (R + 32768) / 2) in *. assert (Iq16 : in16 q) by (unfold in16; lia).
  rewrite (cast16_id q Iq16).
  rewrite (sat_mul16_gen_closed q pre Iq16 Ipre). cbn [obind].
  rewrite (SDHM16_closed q pre Iq16 Ipre). set (o1 := sdhm16_c q pre).
  assert (Io1 : in16 o1) by (apply sdhm16_c_in16; assumption).
  assert (Ao1 : Z.abs o1 <= 32640) by (pose proof (sdhm16_c_abs q pre Iq16 Ipre); lia).
  assert (Es : (if 31 - osh <? 0 then - (31 - osh) else 0) = osh - 31) by (destruct (Z.ltb_spec (31 - osh) 0); lia).
  rewrite Es. replace (- (31 - osh)) with (osh - 31) by lia.
  rewrite (rdbpot_gen_closed o1 (osh - 31) (in16_in32 _ Io1) ltac:(lia)). cbn [obind].
  rewrite (RDBPOT16_closed o1 (osh - 31) Io1 ltac:(lia)). set (o2 := rdbpot_c o1 (osh - 31)).
  assert (Ao2 : Z.abs o2 <= 32640) by (pose proof (rdbpot_c_abs o1 (osh - 31) ltac:(lia)); lia).
  assert (I3 : in16 (o2 + zo)).
  { destruct Hzo as [Hz|[Hz Ho]]; [unfold in16; lia|].
    pose proof (rdbpot_c_half o1 (osh - 31) ltac:(lia)). fold o2 in H. unfold in16. lia. }
  rewrite (cast16_id _ I3). f_equal. unfold clampZ. lia.
Qed.

Lemma lut_hardswish_correct_lemma zi zo os osh rs rsh qmin qmax x :
  same8 x zi -> zo_ok zo osh ->
  in_int 32 os = true -> in_int 32 rs = true -> 31 <= osh <= 46 -> 0 <= rsh <= 46 -> qmin <= qmax ->
  vela_hardswish_entry zi zo os osh rs rsh qmin qmax x =
    Some (HardSwishRef zi zo (DownScaleInt32ToInt16Multiplier rs) (31 - rsh)
                       (DownScaleInt32ToInt16Multiplier os) (31 - osh) qmin qmax x).
Proof.
  intros Hx Hzo Hos Hrs Hosh Hrsh Hq.
  destruct (downscale_multiplier_eq_lemma os Hos) as (E1 & I1 & _).
  destruct (downscale_multiplier_eq_lemma rs Hrs) as (E2 & I2 & _).
  unfold vela_hardswish_entry, HardSwishRef. rewrite E1, E2. cbn [obind]. cbv zeta.
  set (os16 := DownScaleInt32ToInt16Multiplier os) in *. set (rs16 := DownScaleInt32ToInt16Multiplier rs) in *.
  apply in_int16_true in I1. apply in_int16_true in I2.
  change (Z.shiftl 1 7) with 128. change (Z.shiftl 1 15) with 32768.
  assert (Hd : -255 <= x - zi <= 255) by (unfold same8 in Hx; lia).
  rewrite (cast16_id (x - zi)) by (unfold in16; lia).
  assert (Ih : in16 ((x - zi) * 128)) by (unfold in16; lia).
  rewrite (cast16_id _ Ih). set (hires := (x - zi) * 128) in *.
  rewrite (srdhm16_gen_closed hires os16 Ih I1). cbn [obind].
  rewrite (SRDHM16_closed hires os16 Ih I1). set (pre := srdhm16_c hires os16) in *.
  assert (Ipre : in16 pre) by (apply srdhm16_c_in16; assumption).
  assert (Apre : Z.abs pre <= 32640) by (pose proof (srdhm16_c_abs hires os16 Ih I1); unfold hires in *; lia).
  rewrite (chk_int16_intro hires Ih). cbn [obind].
  rewrite (gtb_31_sub rsh), (ltb_31_sub rsh).
  destruct (Z.ltb_spec rsh 31) as [Hlt|Hge].
  - (* multiplier exponent > 0: two saturating left shifts *)
    destruct (Z.gtb_spec rsh 31); [lia|].
    replace (31 - rsh - 1) with (30 - rsh) by lia.
    rewrite (shift_left16_gen_closed hires (30 - rsh) Ih ltac:(lia)). cbn [obind].
    rewrite (SaturatingLeftShift16_closed hires (30 - rsh) Ih ltac:(lia)).
    set (r1 := clamp16 (hires * 2 ^ (30 - rsh))). assert (I1' : in16 r1) by apply clamp16_in16.
    rewrite (srdhm16_gen_closed r1 rs16 I1' I2). cbn [obind].
    rewrite (SRDHM16_closed r1 rs16 I1' I2). set (r2 := srdhm16_c r1 rs16).
    assert (I2' : in16 r2) by (apply srdhm16_c_in16; assumption).
    rewrite (shift_left16_gen_closed r2 1 I2' ltac:(lia)). cbn [obind].
    rewrite (SaturatingLeftShift16_closed r2 1 I2' ltac:(lia)).
    apply hs_tail; try assumption. apply clamp16_in16.
  - destruct (Z.gtb_spec rsh 31) as [Hgt|Hle].
    + (* multiplier exponent < 0: rounding right shift *)
      cbn [obind].
      rewrite (srdhm16_gen_closed hires rs16 Ih I2). cbn [obind].
      rewrite (SRDHM16_closed hires rs16 Ih I2). set (r2 := srdhm16_c hires rs16).
      assert (I2' : in16 r2) by (apply srdhm16_c_in16; assumption).
      rewrite (rdbpot_gen_closed r2 (rsh - 31) (in16_in32 _ I2') ltac:(lia)). cbn [obind].
      replace (- (31 - rsh)) with (rsh - 31) by lia.
      rewrite (RDBPOT16_closed r2 (rsh - 31) I2' ltac:(lia)).
      apply hs_tail; try assumption. apply rdbpot_c_in16; [assumption|lia].
    + cbn [obind]. rewrite (srdhm16_gen_closed hires rs16 Ih I2). cbn [obind].
      rewrite (SRDHM16_closed hires rs16 Ih I2).
      apply hs_tail; try assumption. apply srdhm16_c_in16; assumption.
Qed.

Example lut_hardswish_example :
  (* int8, ifm_scale = ofm_scale = 0.04, zero points -128: code 0 is the real value 5.12 -> 5.12/0.04 - 128 = 0 *)
  vela_hardswish_entry (-128) (-128) 1073741824 37 1832519339 29 (-128) 127 0 = Some 0 /\
  HardSwishRef (-128) (-128) 27962 2 16384 (-6) (-128) 127 0 = 0 /\
  vela_hardswish_entry (-128) (-128) 1073741824 37 1832519339 29 (-128) 127 (-100) = Some (-109).
Proof. vm_compute. repeat split. Qed.

(* ------------------------------------------------------------------------------------------
   shift_left16 on an np.int16 operand, code as it exists now: equals the saturating reference *)
Lemma shift_left16_np_int16_eq_lemma a off :
  in_int 16 a = true -> 0 <= off <= 30 ->
  np_shift_left16_int16 a off = Some (SaturatingLeftShift16 a off).
Proof.
  intros Ha Ho. unfold np_shift_left16_int16.
  destruct (shift_left16_saturates_lemma a off Ha ltac:(lia)) as [_ H]. apply H. lia.
Qed.

(* The expression used before /repo d51cb08 (a * (1 << offset) evaluated in int16) did NOT saturate: record of the
   repaired defect.  fp_math.shift_left16(np.int16(32640), 1) returned -256 on that code. *)
Lemma shift_left16_old_np_int16_refuted_lemma :
  exists a off, in_int 16 a = true /\ 0 <= off <= 30 /\
    np_shift_left16_int16_old a off = Some (-256) /\ SaturatingLeftShift16 a off = 32767 /\
    np_shift_left16_int16 a off = Some 32767.
Proof. exists 32640, 1. vm_compute. repeat split; discriminate. Qed.
