(* Proofs about model/BlockCfg.v (property C15). *)
From Coq Require Import ZArith List Bool Lia String.
From VV Require Import lib.PyInt gen.GenArchTables gen.GenBlockCfg model.BlockCfg.
Import ListNotations.
Open Scope Z_scope.

(* ================= tie of the translated functions to the hand twins ================= *)
Definition layout_tuple (l : layout) : Z * Z * Z * Z * Z :=
  (ib_start l, ib_end l, ib_start2 l, ab_start l, lut_start l).

Lemma exact_div_8 x bits : bits mod 8 = 0 -> exact_div (x * bits) 8 = Some (x * bits / 8).
Proof.
  intros H. unfold exact_div. change (8 =? 0) with false. cbv iota.
  replace ((x * bits) mod 8) with 0.
  - reflexivity.
  - symmetry. rewrite Z.mul_mod by lia. rewrite H. rewrite Z.mul_0_r. reflexivity.
Qed.

Lemma gen_try_block_config_eq s ew ofm ifm bits ig ab ag lut :
  GenBlockCfg._try_block_config (s_bank_size_bytes s) (s_total_banks s) (s_reserved_output_banks s) ew
    (b_w ofm) (b_h ofm) (b_d ofm) (b_w ifm) (b_h ifm) (b_d ifm) bits ig ab ag lut
  = option_map layout_tuple (try_layout s ew ofm ifm bits ig ab ag lut).
Proof.
  unfold GenBlockCfg._try_block_config, try_layout, try_asserts.
  destruct (ab >? 0); [|reflexivity]. destruct (ag >? 0); [|reflexivity].
  destruct (bits >=? 8); [|reflexivity].
  destruct (Z.eqb_spec (bits mod 8) 0) as [Hm|]; [|reflexivity].
  destruct (ig >? 0); [|reflexivity].
  cbn [andb]. rewrite (exact_div_8 _ _ Hm). cbv zeta.
  unfold banks_for, ifm_bytes_of, acc_bytes_of, EW_No, EW_Full.
  fold (BlockCfg.round_up (b_d ifm * bits / 8) 8).
  change GenBlockCfg.round_up with BlockCfg.round_up.
  change GenBlockCfg.round_up_divide with BlockCfg.round_up_divide.
  destruct (ew =? 0).
  - match goal with |- (if ?c then _ else _) = option_map _ (if ?d then _ else _) => change d with c; destruct c end;
      reflexivity.
  - match goal with |- (if ?c then _ else _) = option_map _ (if ?d then _ else _) => change d with c; destruct c end.
    + reflexivity.
    + rewrite Z.gtb_ltb, Z.ltb_irrefl. reflexivity.
Qed.

Lemma gen_ifm_blockdepth_eq ud d bits pk :
  GenBlockCfg._ifm_blockdepth ud d bits pk = ifm_blockdepth ud d bits pk.
Proof. reflexivity. Qed.

Lemma gen_required_size_eq value stride border upscale nearest :
  0 < upscale ->
  GenBlockCfg._required_size value stride border upscale nearest = Some (required_size value stride border upscale nearest).
Proof.
  intros H. unfold GenBlockCfg._required_size. rewrite (proj2 (Z.gtb_lt upscale 0) H). reflexivity.
Qed.

Lemma gen_get_ifm_blocksize_eq ofm k ub_w ub_h sk_w sk_h upscale nearest :
  0 < upscale ->
  GenBlockCfg._get_ifm_blocksize (b_h ofm) (b_w ofm) (b_d ofm) (k_sy k) (area_h k) (k_sx k) (area_w k) ub_h ub_w sk_h sk_w
    upscale nearest
  = let b := get_ifm_blocksize ofm k ub_w ub_h sk_w sk_h upscale nearest in Some (1, b_h b, b_w b, b_d b).
Proof.
  intros H. unfold GenBlockCfg._get_ifm_blocksize. rewrite !gen_required_size_eq by assumption.
  cbv zeta. unfold get_ifm_blocksize. cbn [b_h b_w b_d]. rewrite !Z.min_id. reflexivity.
Qed.

(* ================= numeric_util ================= *)
Lemma round_up_ge a b : 0 < b -> a <= round_up a b.
Proof. intros. unfold round_up. Z.div_mod_to_equations; (lia || nia). Qed.
Lemma round_up_lt a b : 0 < b -> round_up a b < a + b.
Proof. intros. unfold round_up. Z.div_mod_to_equations; (lia || nia). Qed.
Lemma round_up_mod a b : 0 < b -> round_up a b mod b = 0.
Proof. intros. unfold round_up. apply Z.mod_mul. lia. Qed.
Lemma round_up_divide_mul a b : 0 < b -> a <= round_up_divide a b * b < a + b.
Proof. intros. unfold round_up_divide. Z.div_mod_to_equations; (lia || nia). Qed.
Lemma round_up_nonneg a b : 0 < b -> 0 <= a -> 0 <= round_up a b.
Proof. intros. pose proof (round_up_ge a b). lia. Qed.
Lemma round_up_divide_nonneg a b : 0 < b -> 0 <= a -> 0 <= round_up_divide a b.
Proof. intros. unfold round_up_divide. apply Z.div_pos; lia. Qed.
Lemma round_up_le_multiple a b m : 0 < b -> a <= m -> m mod b = 0 -> round_up a b <= m.
Proof.
  intros Hb Ha Hm. unfold round_up. apply Z.mod_divide in Hm; [|lia]. destruct Hm as [t Ht]. subst m.
  assert ((a + b - 1) / b < t + 1) by (apply Z.div_lt_upper_bound; lia).
  nia.
Qed.
Lemma round_up_divides a b : (b | round_up a b).
Proof. unfold round_up. apply Z.divide_factor_r. Qed.

(* ================= double buffering at a bank granule ================= *)
(* banks_for s bytes g is the least multiple of g that is >= 2 * ceil(bytes / bank) *)
Lemma banks_for_spec s bytes g :
  0 < s_bank_size_bytes s -> 0 < g ->
  let n := banks_for s bytes g in
  2 * round_up_divide bytes (s_bank_size_bytes s) <= n < 2 * round_up_divide bytes (s_bank_size_bytes s) + g /\
  n mod g = 0 /\ 2 * bytes <= n * s_bank_size_bytes s.
Proof.
  intros Hb Hg n. subst n. unfold banks_for.
  pose proof (round_up_ge (round_up_divide bytes (s_bank_size_bytes s) * 2) g Hg).
  pose proof (round_up_lt (round_up_divide bytes (s_bank_size_bytes s) * 2) g Hg).
  pose proof (round_up_divide_mul bytes (s_bank_size_bytes s) Hb).
  split; [lia|]. split; [apply round_up_mod; assumption|]. nia.
Qed.

Lemma banks_for_nonneg s bytes g : 0 < s_bank_size_bytes s -> 0 < g -> 0 <= bytes -> 0 <= banks_for s bytes g.
Proof.
  intros Hb Hg H0. pose proof (banks_for_spec s bytes g Hb Hg) as [H _]. cbv zeta in H.
  pose proof (round_up_divide_nonneg bytes _ Hb H0). lia.
Qed.

Lemma ifm_bytes_nonneg ifm bits : 0 <= b_w ifm -> 0 <= b_h ifm -> 0 <= b_d ifm -> 0 <= bits -> 0 <= ifm_bytes_of ifm bits.
Proof.
  intros. unfold ifm_bytes_of. apply Z.mul_nonneg_nonneg; [nia|].
  apply round_up_nonneg; [lia|]. apply Z.div_pos; nia.
Qed.
Lemma acc_bytes_nonneg ofm ab : 0 <= b_w ofm -> 0 <= b_h ofm -> 0 <= b_d ofm -> 0 <= ab -> 0 <= acc_bytes_of ofm ab.
Proof.
  intros. unfold acc_bytes_of. apply Z.div_pos; [|lia].
  pose proof (round_up_nonneg (b_d ofm) 8). nia.
Qed.

(* ================= try_layout_wellformed ================= *)
(* What a layout returned by _try_block_config guarantees, stated on the partitions
     OFM reserve [0, ib_start)   IFM [ib_start, ifm_top)   IFM2 [ib_start2, ib_end) (elementwise only)
     accumulators [ab_start, lut_start)   LUT / reserved end [lut_start, total)
   with ifm_top = ib_end for non-elementwise and ib_start2 for elementwise operations. *)
Definition block_nonneg (b : block) : Prop := 0 <= b_w b /\ 0 <= b_h b /\ 0 <= b_d b.

Record layout_wf (s : shram) (ew : Z) (ofm ifm : block) (bits ig ab ag lut : Z) (l : layout) : Prop := {
  wf_chain : s_reserved_output_banks s = ib_start l /\ ib_start l <= ib_start2 l /\ ib_start2 l <= ib_end l /\
             ib_end l <= ab_start l /\ ab_start l <= lut_start l /\ lut_start l = s_total_banks s - lut /\
             lut_start l <= s_total_banks s;
  (* IFM partition: exactly 2*ceil(ifm_bytes/bank) rounded up to the IFM granule *)
  wf_ifm : (if ew =? EW_No then ib_end l else ib_start2 l) - ib_start l = banks_for s (ifm_bytes_of ifm bits) ig;
  (* non-elementwise: IFM2 partition empty, accumulators exactly 2*ceil(acc_bytes/bank) rounded to the granule *)
  wf_acc : ew = EW_No -> ib_start2 l = ib_end l /\ lut_start l - ab_start l = banks_for s (acc_bytes_of ofm ab) ag;
  (* elementwise: no accumulator partition; IFM2 gets everything up to the LUT, at least an IFM's worth when Full *)
  wf_ew : ew <> EW_No -> ib_end l = lut_start l /\ ab_start l = lut_start l /\
          (ew = EW_Full -> banks_for s (ifm_bytes_of ifm bits) ig <= ib_end l - ib_start2 l);
  (* capacities that follow: double buffering in whole granules *)
  wf_ifm_cap : 2 * ifm_bytes_of ifm bits <= banks_for s (ifm_bytes_of ifm bits) ig * s_bank_size_bytes s /\
               banks_for s (ifm_bytes_of ifm bits) ig mod ig = 0;
  wf_acc_cap : 2 * acc_bytes_of ofm ab <= banks_for s (acc_bytes_of ofm ab) ag * s_bank_size_bytes s /\
               banks_for s (acc_bytes_of ofm ab) ag mod ag = 0
}.

Lemma try_asserts_inv bits ig ab ag :
  try_asserts bits ig ab ag = true -> 0 < ab /\ 0 < ag /\ 8 <= bits /\ bits mod 8 = 0 /\ 0 < ig.
Proof.
  unfold try_asserts. rewrite !andb_true_iff. intros [[H1 H2] [H3 [H4 H5]]].
  apply Z.gtb_lt in H1, H2, H5. apply Z.geb_le in H3. apply Z.eqb_eq in H4. lia.
Qed.

Lemma try_layout_wellformed_lemma s ew ofm ifm bits ig ab ag lut l :
  0 < s_bank_size_bytes s -> 0 <= lut -> block_nonneg ofm -> block_nonneg ifm ->
  try_layout s ew ofm ifm bits ig ab ag lut = Some l ->
  layout_wf s ew ofm ifm bits ig ab ag lut l.
Proof.
  intros Hb Hl [Ho1 [Ho2 Ho3]] [Hi1 [Hi2 Hi3]]. unfold try_layout.
  destruct (try_asserts bits ig ab ag) eqn:Ha; [|discriminate].
  apply try_asserts_inv in Ha. destruct Ha as [Hab [Hag [Hbits [Hmod Hig]]]].
  pose proof (ifm_bytes_nonneg ifm bits Hi1 Hi2 Hi3 ltac:(lia)) as Hib.
  pose proof (acc_bytes_nonneg ofm ab Ho1 Ho2 Ho3 ltac:(lia)) as Hacb.
  pose proof (banks_for_spec s (ifm_bytes_of ifm bits) ig Hb Hig) as [Hi_a [Hi_b Hi_c]].
  pose proof (banks_for_spec s (acc_bytes_of ofm ab) ag Hb Hag) as [Ha_a [Ha_b Ha_c]].
  pose proof (banks_for_nonneg s _ ig Hb Hig Hib) as Hin.
  pose proof (banks_for_nonneg s _ ag Hb Hag Hacb) as Han.
  cbv zeta in *.
  destruct (Z.eqb_spec ew EW_No) as [He|He].
  - destruct (Z.gtb_spec (s_reserved_output_banks s + banks_for s (ifm_bytes_of ifm bits) ig)
                (s_total_banks s - lut - banks_for s (acc_bytes_of ofm ab) ag)); [discriminate|].
    intros E. injection E as <-. constructor; cbn [ib_start ib_end ib_start2 ab_start lut_start].
    + lia.
    + subst ew. rewrite Z.eqb_refl. lia.
    + intros _. lia.
    + intros C. contradiction.
    + split; assumption.
    + split; assumption.
  - destruct (Z.gtb_spec (s_reserved_output_banks s + banks_for s (ifm_bytes_of ifm bits) ig +
                          (if ew =? EW_Full then banks_for s (ifm_bytes_of ifm bits) ig else 0)) (s_total_banks s - lut));
      [discriminate|].
    intros E. injection E as <-. constructor; cbn [ib_start ib_end ib_start2 ab_start lut_start].
    + destruct (ew =? EW_Full); lia.
    + rewrite (proj2 (Z.eqb_neq ew EW_No) He). lia.
    + intros C. contradiction.
    + intros _. split; [reflexivity|]. split; [reflexivity|]. intros ->. rewrite Z.eqb_refl in *. lia.
    + split; assumption.
    + split; assumption.
Qed.

(* the executable form of the same predicate (used by the register validator and the check) *)
Lemma layout_wf_okb s ew ofm ifm bits ig ab ag lut l :
  0 < s_bank_size_bytes s ->
  layout_wf s ew ofm ifm bits ig ab ag lut l -> layout_okb s ew ofm ifm bits ig ab ag lut l = true.
Proof.
  intros Hbk [Hc Hi Ha He [Hic1 Hic2] [Hac1 Hac2]]. unfold layout_okb. cbv zeta.
  destruct Hc as [C1 [C2 [C3 [C4 [C5 [C6 C7]]]]]].
  repeat (apply andb_true_iff; split);
    try (apply Z.leb_le; lia); try (apply Z.eqb_eq; lia);
    try (apply Z.leb_le; rewrite Hi; exact Hic1); try (apply Z.eqb_eq; rewrite Hi; exact Hic2).
  destruct (Z.eqb_spec ew EW_No) as [E|E].
  - destruct (Ha E) as [_ A2]. rewrite A2. apply andb_true_iff.
    split; [apply Z.leb_le; exact Hac1 | apply Z.eqb_eq; exact Hac2].
  - destruct (Z.eqb_spec ew EW_Full) as [F|F]; [|reflexivity].
    destruct (He E) as [_ [_ E3]]. specialize (E3 F). apply Z.leb_le. nia.
Qed.

(* and conversely what the executable predicate means: ordered partitions inside the bank count,
   each large enough to double-buffer its block in whole granules *)
Lemma layout_okb_sound s ew ofm ifm bits ig ab ag lut l :
  layout_okb s ew ofm ifm bits ig ab ag lut l = true ->
  let ifm_part := (if ew =? EW_No then ib_end l else ib_start2 l) - ib_start l in
  ib_start l = s_reserved_output_banks s /\ ib_start l <= ib_start2 l <= ib_end l /\ ib_end l <= ab_start l <= lut_start l /\
  lut_start l = s_total_banks s - lut /\ lut_start l <= s_total_banks s /\
  2 * ifm_bytes_of ifm bits <= ifm_part * s_bank_size_bytes s /\ ifm_part mod ig = 0 /\
  (ew = EW_No -> 2 * acc_bytes_of ofm ab <= (lut_start l - ab_start l) * s_bank_size_bytes s /\
                 (lut_start l - ab_start l) mod ag = 0) /\
  (ew = EW_Full -> 2 * ifm_bytes_of ifm bits <= (ib_end l - ib_start2 l) * s_bank_size_bytes s).
Proof.
  unfold layout_okb. cbv zeta. rewrite !andb_true_iff.
  intros [[[[[[[[[H1 H2] H3] H4] H5] H6] H7] H8] H9] H10].
  apply Z.eqb_eq in H1, H6, H9. apply Z.leb_le in H2, H3, H4, H5, H7, H8.
  split; [lia|]. split; [lia|]. split; [lia|]. split; [lia|]. split; [lia|]. split; [assumption|].
  split; [assumption|]. split.
  - intros E. rewrite E, Z.eqb_refl in H10. apply andb_true_iff in H10. destruct H10 as [A B].
    apply Z.leb_le in A. apply Z.eqb_eq in B. split; assumption.
  - intros E. subst ew. change (EW_Full =? EW_No) with false in H10. rewrite Z.eqb_refl in H10.
    apply Z.leb_le in H10. exact H10.
Qed.

(* ================= the six regenerated accelerator rows ================= *)
Definition arch_wfb (a : arch_row) : bool :=
  (0 <? ar_bank_size_bytes a) && (0 <=? ar_reserved_end_banks a) &&
  (0 <? ar_ofm_ublock_w a) && (0 <? ar_ofm_ublock_h a) && (0 <? ar_ofm_ublock_d a) &&
  (ar_ofm_block_max_w a mod ar_ofm_ublock_w a =? 0) && (ar_ofm_block_max_h a mod ar_ofm_ublock_h a =? 0) &&
  (ar_ofm_block_max_d a mod ar_ofm_ublock_d a =? 0) &&
  (0 <? ar_split_depth a) && (ar_split_depth a mod ar_ofm_ublock_d a =? 0) &&
  (0 <? ar_gran_ifm8 a) && (0 <? ar_gran_ifm16 a) && (0 <? ar_gran_ifm32 a) &&
  (0 <? ar_gran_ifm8_ew a) && (0 <? ar_gran_ifm16_ew a) && (0 <? ar_gran_ifm32_ew a) &&
  (0 <? ar_gran_acc16 a) && (0 <? ar_gran_acc32 a) && (0 <? ar_gran_acc40 a) &&
  (0 <? ar_subkernel_max_w a) && (0 <? ar_subkernel_max_h a) && (0 <? ar_ifm_ublock_d a).

Record arch_wf (a : arch_row) : Prop := {
  aw_bank : 0 < ar_bank_size_bytes a; aw_end : 0 <= ar_reserved_end_banks a;
  aw_ub : 0 < ar_ofm_ublock_w a /\ 0 < ar_ofm_ublock_h a /\ 0 < ar_ofm_ublock_d a;
  aw_max : ar_ofm_block_max_w a mod ar_ofm_ublock_w a = 0 /\ ar_ofm_block_max_h a mod ar_ofm_ublock_h a = 0 /\
           ar_ofm_block_max_d a mod ar_ofm_ublock_d a = 0;
  aw_split : 0 < ar_split_depth a /\ ar_split_depth a mod ar_ofm_ublock_d a = 0;
  aw_gran_ifm : 0 < ar_gran_ifm8 a /\ 0 < ar_gran_ifm16 a /\ 0 < ar_gran_ifm32 a /\
                0 < ar_gran_ifm8_ew a /\ 0 < ar_gran_ifm16_ew a /\ 0 < ar_gran_ifm32_ew a;
  aw_gran_acc : 0 < ar_gran_acc16 a /\ 0 < ar_gran_acc32 a /\ 0 < ar_gran_acc40 a;
  aw_sk : 0 < ar_subkernel_max_w a /\ 0 < ar_subkernel_max_h a; aw_ifm_ub : 0 < ar_ifm_ublock_d a }.

Lemma arch_wfb_inv a : arch_wfb a = true -> arch_wf a.
Proof.
  unfold arch_wfb. rewrite !andb_true_iff.
  intros H. repeat match goal with H : _ /\ _ |- _ => destruct H end.
  repeat match goal with
         | H : (_ <? _) = true |- _ => apply Z.ltb_lt in H
         | H : (_ <=? _) = true |- _ => apply Z.leb_le in H
         | H : (_ =? _) = true |- _ => apply Z.eqb_eq in H
         end.
  constructor; repeat split; assumption.
Qed.

Lemma arch_table_wfb : forallb arch_wfb arch_table = true.
Proof. vm_compute. reflexivity. Qed.

Lemma arch_table_wf a : In a arch_table -> arch_wf a.
Proof. intros H. apply arch_wfb_inv. exact (proj1 (forallb_forall _ _) arch_table_wfb a H). Qed.

(* ================= ranges ================= *)
Lemma range_aux_In n i st v : In v (range_aux n i st) -> exists k, 0 <= k < Z.of_nat n /\ v = i + k * st.
Proof.
  revert i. induction n as [|n IH]; intros i; cbn [range_aux In]; [tauto|].
  intros [<-|H].
  - exists 0. lia.
  - destruct (IH _ H) as [k [Hk ->]]. exists (k + 1). lia.
Qed.

Lemma range_list_In v ub ss : 0 < ub -> In v (range_list ub (ss + 1) ub) -> 0 < v <= ss /\ v mod ub = 0.
Proof.
  intros Hub H. unfold range_list in H. apply range_aux_In in H. destruct H as [k [Hk ->]].
  unfold range_len in Hk. rewrite (proj2 (Z.gtb_lt ub 0) Hub) in Hk.
  assert (Hlen : k < (ss + 1 - ub + ub - 1) / ub) by lia.
  replace (ss + 1 - ub + ub - 1) with ss in Hlen by lia.
  assert (Hk1 : (k + 1) * ub <= ss).
  { assert (k + 1 <= ss / ub) by lia. pose proof (Z.mul_div_le ss ub Hub). nia. }
  split; [nia|]. replace (ub + k * ub) with ((k + 1) * ub) by lia. apply Z.mod_mul. lia.
Qed.

Lemma fold_left_inv {A B : Type} (f : A -> B -> A) (P : A -> Prop) (l : list B) :
  forall init, P init -> (forall a b, In b l -> P a -> P (f a b)) -> P (fold_left f l init).
Proof.
  induction l as [|b l IH]; intros init H0 Hf; cbn [fold_left]; [exact H0|].
  apply IH.
  - apply Hf; [left; reflexivity | exact H0].
  - intros a b' Hin. apply Hf. right. exact Hin.
Qed.

(* ================= every block the search can select is valid ================= *)
Definition cfg_ok (x : ctx) (c : cfg) : Prop :=
  let ob := c_ofm_block c in
  block_valid (x_arch x) ob = true /\
  cand_layout x (b_h ob) (b_w ob) (b_d ob) = Some (c_layout c) /\
  c_ifm_block c = cand_ifm_block x (b_h ob) (b_w ob) (b_d ob).
Definition st_ok (x : ctx) (st : sstate) : Prop :=
  match st_cfg st with Some c => cfg_ok x c | None => True end.

Lemma step_ok x depth height width st :
  block_valid (x_arch x) {| b_w := width; b_h := height; b_d := depth |} = true ->
  st_ok x st -> st_ok x (step x depth height width st).
Proof.
  intros Hv Hst. unfold step.
  destruct (st_err st); [exact Hst|].
  destruct (wont_fit_has _ _ _); [exact Hst|].
  destruct (cand_layout x height width depth) as [l|] eqn:El; [|exact Hst].
  destruct (cand_cost x height width depth); [|exact Hst].
  assert (Hnew : cfg_ok x {| c_layout := l; c_ifm_block := cand_ifm_block x height width depth;
                             c_ofm_block := {| b_w := width; b_h := height; b_d := depth |} |}).
  { unfold cfg_ok. cbn [c_ofm_block c_layout c_ifm_block b_w b_h b_d]. auto. }
  destruct (opt_leb _ _); [|exact Hst].
  destruct (opt_eqb _ _).
  - destruct (cand_coverage _ _); [|exact Hst].
    destruct (_ && _); [exact Hnew | exact Hst].
  - exact Hnew.
Qed.

Lemma block_valid_intro a w h d :
  0 < h <= ar_ofm_block_max_h a -> h mod ar_ofm_ublock_h a = 0 ->
  0 < w <= ar_ofm_block_max_w a -> w mod ar_ofm_ublock_w a = 0 ->
  0 < d <= ar_ofm_block_max_d a -> d mod ar_ofm_ublock_d a = 0 ->
  block_valid a {| b_w := w; b_h := h; b_d := d |} = true.
Proof.
  intros. unfold block_valid. cbn [b_w b_h b_d].
  repeat (apply andb_true_iff; split);
    first [apply Z.gtb_lt; lia | apply Z.leb_le; lia | apply Z.eqb_eq; assumption].
Qed.

Lemma block_valid_inv a b :
  block_valid a b = true ->
  (0 < b_h b <= ar_ofm_block_max_h a /\ b_h b mod ar_ofm_ublock_h a = 0) /\
  (0 < b_w b <= ar_ofm_block_max_w a /\ b_w b mod ar_ofm_ublock_w a = 0) /\
  (0 < b_d b <= ar_ofm_block_max_d a /\ b_d b mod ar_ofm_ublock_d a = 0).
Proof.
  unfold block_valid. rewrite !andb_true_iff.
  intros [[[[H1 H2] H3] [[H4 H5] H6]] [[H7 H8] H9]].
  apply Z.gtb_lt in H1, H4, H7. apply Z.leb_le in H2, H5, H8. apply Z.eqb_eq in H3, H6, H9. lia.
Qed.

Lemma search_space_bound a ofm :
  arch_wf a ->
  b_w (search_space a ofm) <= ar_ofm_block_max_w a /\ b_h (search_space a ofm) <= ar_ofm_block_max_h a /\
  b_d (search_space a ofm) <= ar_ofm_block_max_d a.
Proof.
  intros W. destruct (aw_ub a W) as [U1 [U2 U3]]. destruct (aw_max a W) as [M1 [M2 M3]].
  unfold search_space. cbn [b_w b_h b_d].
  repeat split; apply round_up_le_multiple; try assumption; lia.
Qed.

Lemma search_hw_ok x ss depth st :
  arch_wf (x_arch x) -> ss = search_space (x_arch x) (x_ofm x) ->
  0 < depth <= ar_ofm_block_max_d (x_arch x) -> depth mod ar_ofm_ublock_d (x_arch x) = 0 ->
  st_ok x st -> st_ok x (search_hw x ss depth st).
Proof.
  intros W Hss Hd Hdm Hst. unfold search_hw.
  destruct (aw_ub _ W) as [U1 [U2 U3]].
  destruct (search_space_bound (x_arch x) (x_ofm x) W) as [B1 [B2 B3]]. rewrite <- Hss in B1, B2, B3.
  apply fold_left_inv; [exact Hst|].
  intros st1 height Hh Hst1. apply fold_left_inv; [exact Hst1|].
  intros st2 width Hw Hst2.
  apply range_list_In in Hh; [|assumption]. apply range_list_In in Hw; [|assumption].
  apply step_ok; [|exact Hst2]. apply block_valid_intro; lia.
Qed.

Lemma mod_divide_iff a b : 0 < b -> (a mod b = 0 <-> (b | a)).
Proof. intros. apply Z.mod_divide. lia. Qed.

Lemma first_depth_ok a ofm_d ss_d :
  arch_wf a -> ss_d mod ar_ofm_ublock_d a = 0 ->
  0 < first_depth a ofm_d ss_d /\ first_depth a ofm_d ss_d mod ar_ofm_ublock_d a = 0.
Proof.
  intros W Hss. destruct (aw_ub _ W) as [_ [_ U3]]. destruct (aw_split _ W) as [S1 S2].
  unfold first_depth. cbv zeta.
  set (d := Z.max (ar_ofm_ublock_d a) (Z.min ss_d (ar_split_depth a))).
  assert (Hd : 0 < d /\ d mod ar_ofm_ublock_d a = 0).
  { subst d. split; [lia|].
    destruct (Z.max_spec (ar_ofm_ublock_d a) (Z.min ss_d (ar_split_depth a))) as [[_ ->]|[_ ->]].
    - destruct (Z.min_spec ss_d (ar_split_depth a)) as [[_ ->]|[_ ->]]; assumption.
    - apply Z.mod_same. lia. }
  destruct (d <? ofm_d); [|exact Hd].
  split.
  - pose proof (round_up_ge d (ar_split_depth a) S1). lia.
  - apply mod_divide_iff; [assumption|]. apply Z.divide_trans with (ar_split_depth a).
    + apply mod_divide_iff; assumption.
    + apply round_up_divides.
Qed.

Lemma next_depth_ok a ofm_d depth :
  arch_wf a -> 0 < depth -> depth mod ar_ofm_ublock_d a = 0 ->
  depth < next_depth a ofm_d depth /\ next_depth a ofm_d depth mod ar_ofm_ublock_d a = 0.
Proof.
  intros W Hd Hm. destruct (aw_ub _ W) as [_ [_ U3]]. destruct (aw_split _ W) as [S1 S2].
  unfold next_depth. cbv zeta.
  assert (Hd1 : (depth + ar_ofm_ublock_d a) mod ar_ofm_ublock_d a = 0).
  { apply mod_divide_iff; [assumption|]. apply Z.divide_add_r; [apply mod_divide_iff; assumption | apply Z.divide_refl]. }
  destruct (_ <? ofm_d).
  - split.
    + pose proof (round_up_ge (depth + ar_ofm_ublock_d a) (ar_split_depth a) S1). lia.
    + apply mod_divide_iff; [assumption|]. apply Z.divide_trans with (ar_split_depth a).
      * apply mod_divide_iff; assumption.
      * apply round_up_divides.
  - split; [lia | assumption].
Qed.

Lemma set_err_ok x st : st_ok x st -> st_ok x (set_err st).
Proof. exact (fun H => H). Qed.

Lemma depth_loop_ok fuel x ss : forall depth st,
  arch_wf (x_arch x) -> ss = search_space (x_arch x) (x_ofm x) ->
  0 < depth -> depth mod ar_ofm_ublock_d (x_arch x) = 0 ->
  st_ok x st -> st_ok x (depth_loop fuel x ss depth st).
Proof.
  induction fuel as [|f IH]; intros depth st W Hss Hd Hm Hst; cbn [depth_loop].
  - destruct (depth <=? b_d ss); [apply set_err_ok|]; exact Hst.
  - destruct (Z.leb_spec depth (b_d ss)); [|exact Hst].
    destruct (next_depth_ok (x_arch x) (sh_d (x_ofm x)) depth W Hd Hm) as [N1 N2].
    apply IH; try assumption; [lia|].
    apply search_hw_ok; try assumption.
    destruct (search_space_bound (x_arch x) (x_ofm x) W) as [_ [_ B3]]. rewrite <- Hss in B3. lia.
Qed.

(* ================= from the invariant to the property ================= *)
Definition kernel_ok (k : kernel) : Prop :=
  1 <= k_w k /\ 1 <= k_h k /\ 1 <= k_sx k /\ 1 <= k_sy k /\ 1 <= k_dx k /\ 1 <= k_dy k.

(* C15 for one configuration: the recorded OFM block is a positive multiple of the micro-block within the maximum,
   and the layout is well formed for the block the hardware buffers (the OFM block after the 256/512-MAC
   Conv1D adjustment fit_block_for_ofm) and the IFM block recorded with it *)
Record config_valid (a : arch_row) (ew ofm_h : Z) (k : kernel) (bits ig ab ag lutb : Z) (c : cfg) : Prop := {
  cv_pos : 0 < b_w (c_ofm_block c) /\ 0 < b_h (c_ofm_block c) /\ 0 < b_d (c_ofm_block c);
  cv_mult : (ar_ofm_ublock_w a | b_w (c_ofm_block c)) /\ (ar_ofm_ublock_h a | b_h (c_ofm_block c)) /\
            (ar_ofm_ublock_d a | b_d (c_ofm_block c));
  cv_max : b_w (c_ofm_block c) <= ar_ofm_block_max_w a /\ b_h (c_ofm_block c) <= ar_ofm_block_max_h a /\
           b_d (c_ofm_block c) <= ar_ofm_block_max_d a;
  cv_layout : layout_wf (shram_of a) ew (fit_block_for_ofm a ofm_h k (c_ofm_block c)) (c_ifm_block c) bits ig ab ag lutb
                (c_layout c);
  cv_layout_b : layout_okb (shram_of a) ew (fit_block_for_ofm a ofm_h k (c_ofm_block c)) (c_ifm_block c) bits ig ab ag lutb
                  (c_layout c) = true }.

Lemma mk_ctx_inv a bt ofm ifm us bits pk k lut scaled rs x :
  mk_ctx a bt ofm ifm us bits pk k lut scaled rs = Some x ->
  x_arch x = a /\ x_ofm x = ofm /\ x_ifm x = ifm /\ x_ifm_bits x = bits /\ x_kernel x = k /\ x_ew x = ew_usage bt us /\
  ifm_granule_of a (ew_usage bt us) bits = Some (x_ifm_granule x) /\
  x_acc_bits x = acc_bits_of (acc_type bt bits scaled) /\ x_acc_granule x = acc_granule_of a (acc_type bt bits scaled) /\
  x_lut_banks x = Z.max lut (ar_reserved_end_banks a) /\ x_upscale x = upscale_of rs /\ x_nearest x = nearest_of rs /\
  x_ifm_blockdepth x = ifm_blockdepth (ar_ifm_ublock_d a) (sh_d ifm) bits pk /\
  x_equal_depth x = (negb (ew_usage bt us =? EW_No) || (bt =? BT_Pooling) || (bt =? BT_ConvolutionDepthWise)).
Proof.
  unfold mk_ctx. cbv zeta. destruct (ifm_granule_of a (ew_usage bt us) bits) as [ig|]; [|discriminate].
  destruct (_ || _); [discriminate|]. intros E. injection E as <-.
  cbn [x_arch x_ofm x_ifm x_ifm_bits x_kernel x_ew x_ifm_granule x_acc_bits x_acc_granule x_lut_banks x_upscale x_nearest
       x_ifm_blockdepth x_equal_depth].
  repeat split; reflexivity.
Qed.

Lemma ceil_div_nonneg a b : 0 < b -> 0 <= a -> 0 <= ceil_div a b.
Proof. intros. unfold ceil_div. Z.div_mod_to_equations; (lia || nia). Qed.

Lemma required_size_nonneg v s border up nr :
  0 < up -> 1 <= v -> 0 <= s -> 0 <= border -> 0 <= nr -> 0 <= required_size v s border up nr.
Proof. intros. unfold required_size. apply ceil_div_nonneg; [assumption|]. nia. Qed.

Lemma ifm_blockdepth_nonneg ud d bits pk : 0 < ud -> 0 <= d -> 0 <= ifm_blockdepth ud d bits pk.
Proof.
  intros. unfold ifm_blockdepth. destruct (bits =? 16); [|destruct pk]; apply round_up_nonneg; lia.
Qed.

Lemma upscale_of_pos rs : 0 < upscale_of rs.
Proof. unfold upscale_of. destruct (rs =? RS_NONE); lia. Qed.
Lemma nearest_of_nonneg rs : 0 <= nearest_of rs.
Proof. unfold nearest_of. destruct (rs =? RS_NEAREST); lia. Qed.

Lemma area_pos k : kernel_ok k -> 1 <= area_w k /\ 1 <= area_h k.
Proof. intros [? [? [? [? [? ?]]]]]. unfold area_w, area_h. nia. Qed.

Lemma cand_ifm_block_nonneg x h w d :
  arch_wf (x_arch x) -> kernel_ok (x_kernel x) -> 0 < x_upscale x -> 0 <= x_nearest x -> 0 <= x_ifm_blockdepth x ->
  0 < h -> 0 < w -> 0 < d -> block_nonneg (cand_ifm_block x h w d).
Proof.
  intros W K Hu Hn Hbd Hh Hw Hd. destruct (aw_ub _ W) as [U1 [U2 U3]]. destruct (aw_sk _ W) as [S1 S2].
  destruct (area_pos _ K) as [A1 A2]. destruct K as [K1 [K2 [K3 [K4 [K5 K6]]]]].
  assert (Hb : block_nonneg (get_ifm_blocksize {| b_w := w; b_h := h; b_d := d |} (x_kernel x) (ar_ofm_ublock_w (x_arch x))
                 (ar_ofm_ublock_h (x_arch x)) (ar_subkernel_max_w (x_arch x)) (ar_subkernel_max_h (x_arch x))
                 (x_upscale x) (x_nearest x))).
  { unfold block_nonneg, get_ifm_blocksize. cbn [b_w b_h b_d].
    repeat split; try lia; apply round_up_nonneg; try assumption; apply required_size_nonneg; lia. }
  unfold cand_ifm_block. cbv zeta. destruct (x_equal_depth x); [exact Hb|].
  destruct Hb as [B1 [B2 _]]. unfold block_nonneg. cbn [b_w b_h b_d]. auto.
Qed.

Lemma fit_block_nonneg a ofm_h k b :
  0 < b_w b -> 0 < b_h b -> 0 < b_d b -> block_nonneg (fit_block_for_ofm a ofm_h k b).
Proof.
  intros. unfold fit_block_for_ofm, block_nonneg.
  destruct (Z.eqb_spec ofm_h 1); cbn [andb]; [|lia].
  destruct (_ && _); cbn [b_w b_h b_d]; lia.
Qed.

Lemma ifm_granule_of_pos a ew bits ig : arch_wf a -> ifm_granule_of a ew bits = Some ig -> 0 < ig.
Proof.
  intros W. destruct (aw_gran_ifm _ W) as [? [? [? [? [? ?]]]]]. unfold ifm_granule_of.
  destruct (bits =? 8); [|destruct (bits =? 16); [|destruct (bits =? 32); [|discriminate]]];
    destruct (ew =? EW_No); intros E; injection E as <-; assumption.
Qed.
Lemma acc_granule_of_pos a t : arch_wf a -> 0 < acc_granule_of a t.
Proof.
  intros W. destruct (aw_gran_acc _ W) as [? [? ?]]. unfold acc_granule_of.
  destruct (t =? SHRAM_Acc40); [|destruct (t =? SHRAM_Acc16)]; assumption.
Qed.

Lemma cfg_ok_valid a bt ofm ifm us bits pk k lut scaled rs x c :
  arch_wf a -> mk_ctx a bt ofm ifm us bits pk k lut scaled rs = Some x ->
  0 <= lut -> kernel_ok k -> 0 <= sh_d ifm -> cfg_ok x c ->
  config_valid a (ew_usage bt us) (sh_h ofm) k bits (x_ifm_granule x) (acc_bits_of (acc_type bt bits scaled))
    (acc_granule_of a (acc_type bt bits scaled)) (Z.max lut (ar_reserved_end_banks a)) c.
Proof.
  intros W Hx Hlut K Hifm [Hv [Hl Hib]].
  destruct (mk_ctx_inv _ _ _ _ _ _ _ _ _ _ _ _ Hx) as
    [Xa [Xo [Xi [Xb [Xk [Xe [Xg [Xab [Xag [Xl [Xu [Xn [Xbd Xeq]]]]]]]]]]]]].
  rewrite Xa in Hv. apply block_valid_inv in Hv. destruct Hv as [[V1 V2] [[V3 V4] [V5 V6]]].
  destruct (aw_ub _ W) as [U1 [U2 U3]].
  assert (Hwf : layout_wf (shram_of a) (ew_usage bt us) (fit_block_for_ofm a (sh_h ofm) k (c_ofm_block c)) (c_ifm_block c)
                  bits (x_ifm_granule x) (acc_bits_of (acc_type bt bits scaled)) (acc_granule_of a (acc_type bt bits scaled))
                  (Z.max lut (ar_reserved_end_banks a)) (c_layout c)).
  { unfold cand_layout, cand_fit_block in Hl. rewrite Xa, Xo, Xk, Xe, Xb, Xab, Xag, Xl in Hl. rewrite Hib.
    destruct (c_ofm_block c) as [bw bh bd] eqn:Eb. cbn [b_w b_h b_d] in *.
    apply try_layout_wellformed_lemma.
    - cbn. exact (aw_bank _ W).
    - pose proof (aw_end _ W). lia.
    - apply fit_block_nonneg; cbn [b_w b_h b_d]; lia.
    - apply cand_ifm_block_nonneg; try lia.
      + rewrite Xa. exact W.
      + rewrite Xk. exact K.
      + rewrite Xu. apply upscale_of_pos.
      + rewrite Xn. apply nearest_of_nonneg.
      + rewrite Xbd. apply ifm_blockdepth_nonneg; [exact (aw_ifm_ub _ W) | exact Hifm].
    - exact Hl. }
  constructor.
  - lia.
  - repeat split; apply mod_divide_iff; assumption.
  - lia.
  - exact Hwf.
  - apply layout_wf_okb; [cbn; exact (aw_bank _ W) | exact Hwf].
Qed.

Lemma find_config_valid_lemma a bt ofm ifm ifm2 us bits k lut scaled rs cf :
  In a arch_table -> 0 <= lut -> kernel_ok k -> 0 <= sh_d (larger_ifm ifm ifm2) ->
  find_block_config a bt ofm ifm ifm2 us bits k lut scaled rs = Some (Some cf) ->
  exists ig, ifm_granule_of a (ew_usage bt us) bits = Some ig /\
    config_valid a (ew_usage bt us) (sh_h ofm) k bits ig (acc_bits_of (acc_type bt bits scaled))
      (acc_granule_of a (acc_type bt bits scaled)) (Z.max lut (ar_reserved_end_banks a)) (cf_cfg cf).
Proof.
  intros Hin Hlut K Hd. apply arch_table_wf in Hin. unfold find_block_config. cbv zeta.
  destruct (if (bt =? BT_ConvolutionMxN) || (bt =? BT_ConvolutionDepthWise)
            then choose_kernel_method (sh_d (larger_ifm ifm ifm2)) bits k else Some false) as [pk|]; [|discriminate].
  destruct (mk_ctx a bt ofm (larger_ifm ifm ifm2) us bits pk k lut scaled rs) as [x|] eqn:Ex; [|discriminate].
  destruct (negb _); [discriminate|].
  match goal with |- context [depth_loop ?f ?x ?ss ?d ?s] => set (st := depth_loop f x ss d s) end.
  assert (Hst : st_ok x st).
  { destruct (mk_ctx_inv _ _ _ _ _ _ _ _ _ _ _ _ Ex) as [Xa [Xo _]].
    subst st. destruct (first_depth_ok a (sh_d ofm) (b_d (search_space a ofm)) Hin) as [F1 F2].
    { unfold search_space. cbn [b_d]. apply round_up_mod. exact (proj2 (proj2 (aw_ub _ Hin))). }
    apply depth_loop_ok; try (rewrite Xa); try assumption.
    - rewrite Xo. reflexivity.
    - exact I. }
  destruct (st_err st); [discriminate|].
  unfold st_ok in Hst. destruct (st_cfg st) as [c|]; [|discriminate].
  intros E. injection E as <-. cbn [cf_cfg].
  exists (x_ifm_granule x). split.
  - exact (proj1 (proj2 (proj2 (proj2 (proj2 (proj2 (proj2 (mk_ctx_inv _ _ _ _ _ _ _ _ _ _ _ _ Ex)))))))).
  - eapply cfg_ok_valid; eassumption.
Qed.

(* the public query / the generator: try_block_config *)
Lemma try_config_valid_lemma a blk bt ofm ifm ifm2 us bits pk k lut scaled rs cf :
  In a arch_table -> 0 <= lut -> kernel_ok k ->
  0 <= sh_d (larger_ifm (shape_of_block ifm) (option_map shape_of_block ifm2)) ->
  try_block_config a blk bt ofm ifm ifm2 us bits pk k lut scaled rs = Some (Some cf) ->
  c_ofm_block (cf_cfg cf) = blk /\
  exists ig, ifm_granule_of a (ew_usage bt us) bits = Some ig /\
    config_valid a (ew_usage bt us) (b_h ofm) k bits ig (acc_bits_of (acc_type bt bits scaled))
      (acc_granule_of a (acc_type bt bits scaled)) (Z.max lut (ar_reserved_end_banks a)) (cf_cfg cf).
Proof.
  intros Hin Hlut K Hd. apply arch_table_wf in Hin. unfold try_block_config. cbv zeta.
  destruct (block_valid a blk) eqn:Hv; cbn [negb]; [|discriminate].
  match goal with |- context [mk_ctx ?a ?b ?c ?d ?e ?f ?g ?h ?i ?j ?k] =>
    destruct (mk_ctx a b c d e f g h i j k) as [x|] eqn:Ex; [|discriminate] end.
  destruct (negb _); [discriminate|].
  destruct (cand_layout x (b_h blk) (b_w blk) (b_d blk)) as [l|] eqn:El; [|discriminate].
  intros E. injection E as <-. cbn [cf_cfg c_ofm_block]. split; [reflexivity|].
  exists (x_ifm_granule x). split.
  - exact (proj1 (proj2 (proj2 (proj2 (proj2 (proj2 (proj2 (mk_ctx_inv _ _ _ _ _ _ _ _ _ _ _ _ Ex)))))))).
  - change (b_h ofm) with (sh_h (shape_of_block ofm)).
    eapply cfg_ok_valid; try eassumption.
    unfold cfg_ok. cbn [c_ofm_block c_layout c_ifm_block].
    destruct (mk_ctx_inv _ _ _ _ _ _ _ _ _ _ _ _ Ex) as [Xa _]. rewrite Xa. auto.
Qed.

(* ================= offered => accepted ================= *)
(* api.npu_find_block_configs passes scaled = has_scaling (every feature map has a quantization object), the
   command stream generator passes scaled = all_fms_have_quant (... and its scale_f32 is not None):
   generator's flag implies the API's.  scaled only selects the accumulator type (40 bit instead of 32 bit for
   16-bit non-pooling operations), so acceptance needs: a 32-bit accumulator block never needs more banks
   than the 40-bit one. *)
Definition scaling_agnostic (a : arch_row) : Prop :=
  forall E, 0 <= E ->
    banks_for (shram_of a) (E * bits_Acc32 / 8) (ar_gran_acc32 a) <= banks_for (shram_of a) (E * bits_Acc40 / 8) (ar_gran_acc40 a).

Ltac agnostic_row :=
  intros E HE; unfold banks_for, round_up, round_up_divide, shram_of, bits_Acc32, bits_Acc40;
  cbn [s_bank_size_bytes ar_bank_size_bytes ar_gran_acc32 ar_gran_acc40];
  replace (E * 32 / 8) with (E * 4) by (replace (E * 32) with (E * 4 * 8) by lia; rewrite Z.div_mul; lia);
  replace (E * 40 / 8) with (E * 5) by (replace (E * 40) with (E * 5 * 8) by lia; rewrite Z.div_mul; lia);
  Z.div_mod_to_equations; lia.

Lemma scaling_agnostic_rows_lemma :
  Forall2 (fun a ok => if ok : bool then scaling_agnostic a else ~ scaling_agnostic a) arch_table
          [true; true; false; true; true; true].
Proof.
  unfold arch_table. repeat constructor.
  - agnostic_row.
  - agnostic_row.
  - intros H. specialize (H 1032 ltac:(lia)). vm_compute in H. apply H. reflexivity.
  - agnostic_row.
  - agnostic_row.
  - agnostic_row.
Qed.

Lemma acc_bits_of_pos t : 0 < acc_bits_of t.
Proof. unfold acc_bits_of. destruct (t =? SHRAM_Acc40); [|destruct (t =? SHRAM_Acc16)]; reflexivity. Qed.

Lemma try_asserts_acc bits ig ab ag ab' ag' :
  try_asserts bits ig ab ag = true -> 0 < ab' -> 0 < ag' -> try_asserts bits ig ab' ag' = true.
Proof.
  unfold try_asserts. rewrite !andb_true_iff. intros [_ H] H1 H2. split; [|exact H].
  split; apply Z.gtb_lt; assumption.
Qed.

(* the layout depends on `scaled` only through the accumulator type, and only for non-elementwise operations *)
Lemma try_layout_acc_mono s ew ofm ifm bits ig ab ag ab' ag' lut l :
  try_layout s ew ofm ifm bits ig ab ag lut = Some l -> 0 < ab' -> 0 < ag' ->
  banks_for s (acc_bytes_of ofm ab') ag' <= banks_for s (acc_bytes_of ofm ab) ag ->
  exists l', try_layout s ew ofm ifm bits ig ab' ag' lut = Some l'.
Proof.
  unfold try_layout. intros H Hab Hag Hle.
  destruct (try_asserts bits ig ab ag) eqn:Ha; [|discriminate].
  rewrite (try_asserts_acc _ _ _ _ ab' ag' Ha Hab Hag). cbv zeta in *.
  destruct (ew =? EW_No).
  - destruct (Z.gtb_spec (s_reserved_output_banks s + banks_for s (ifm_bytes_of ifm bits) ig)
                (s_total_banks s - lut - banks_for s (acc_bytes_of ofm ab) ag)); [discriminate|].
    destruct (Z.gtb_spec (s_reserved_output_banks s + banks_for s (ifm_bytes_of ifm bits) ig)
                (s_total_banks s - lut - banks_for s (acc_bytes_of ofm ab') ag')); [lia|].
    eexists. reflexivity.
  - destruct (_ >? _); [discriminate|]. eexists. reflexivity.
Qed.

Lemma ew_usage_elementwise us : ew_usage BT_ElementWise us =? EW_No = false.
Proof. destruct us; reflexivity. Qed.

Lemma offered_is_accepted_lemma a blk bt ofm ifm ifm2 ifm2' us bits pk k lut rs (s s' : bool) cf :
  In a arch_table -> scaling_agnostic a ->
  (ifm2' = ifm2 \/ bt = BT_ElementWise) -> (s' = true -> s = true) ->
  try_block_config a blk bt ofm ifm ifm2 us bits pk k lut s rs = Some (Some cf) ->
  exists cf', try_block_config a blk bt ofm ifm ifm2' us bits pk k lut s' rs = Some (Some cf').
Proof.
  intros Hin Hag Hifm Hs. apply arch_table_wf in Hin.
  destruct blk as [bw bh bd]. unfold try_block_config, mk_ctx. cbv zeta.
  destruct (block_valid a _) eqn:Hv; cbn [negb]; [|discriminate].
  destruct (ifm_granule_of a (ew_usage bt us) bits) as [ig|]; [|discriminate].
  destruct (_ || _); [discriminate|].
  unfold cand_layout, cand_fit_block, cand_ifm_block.
  cbn [x_arch x_ofm x_ifm x_ifm_bits x_kernel x_ew x_ifm_granule x_acc_bits x_acc_granule x_lut_banks x_upscale x_nearest
       x_ifm_blockdepth x_equal_depth b_w b_h b_d sh_h shape_of_block].
  (* the IFM block does not depend on which ifm2 is passed *)
  match goal with |- context [if ?c then ?ibx else {| b_w := _; b_h := _; b_d := ifm_blockdepth ?u ?dx _ _ |}] =>
    set (eqd := c); set (ib := ibx); set (d1 := dx) end.
  match goal with |- context [ifm_blockdepth _ (sh_d ?e) _ _] => set (d2 := sh_d e) end.
  assert (Hib : (if eqd then ib else {| b_w := b_w ib; b_h := b_h ib; b_d := ifm_blockdepth (ar_ifm_ublock_d a) d2 bits pk |})
              = (if eqd then ib else {| b_w := b_w ib; b_h := b_h ib; b_d := ifm_blockdepth (ar_ifm_ublock_d a) d1 bits pk |})).
  { destruct Hifm as [->| ->]; [reflexivity|]. subst eqd. rewrite ew_usage_elementwise. reflexivity. }
  rewrite Hib. clear Hib.
  set (IB := if eqd then ib else _).
  set (FB := fit_block_for_ofm a (b_h ofm) k {| b_w := bw; b_h := bh; b_d := bd |}).
  destruct (try_asserts bits ig (acc_bits_of (acc_type bt bits s)) (acc_granule_of a (acc_type bt bits s))) eqn:Ha;
    cbn [negb]; [|discriminate].
  destruct (try_layout (shram_of a) (ew_usage bt us) FB IB bits ig (acc_bits_of (acc_type bt bits s))
              (acc_granule_of a (acc_type bt bits s)) (Z.max lut (ar_reserved_end_banks a))) as [l|] eqn:El; [|discriminate].
  intros _.
  rewrite (try_asserts_acc _ _ _ _ (acc_bits_of (acc_type bt bits s')) (acc_granule_of a (acc_type bt bits s')) Ha
             (acc_bits_of_pos _) (acc_granule_of_pos _ _ Hin)). cbn [negb].
  destruct (try_layout_acc_mono _ _ _ _ _ _ _ _ (acc_bits_of (acc_type bt bits s')) (acc_granule_of a (acc_type bt bits s'))
              _ _ El (acc_bits_of_pos _) (acc_granule_of_pos _ _ Hin)) as [l' El'].
  - (* fewer banks with the generator's accumulator type *)
    unfold acc_type. destruct s, s'; try lia; try (specialize (Hs eq_refl); discriminate).
    rewrite andb_false_r.
    destruct ((bits =? 16) && negb (bt =? BT_Pooling)); cbn [andb]; [|lia].
    change (acc_bits_of SHRAM_Acc40) with bits_Acc40. change (acc_bits_of SHRAM_Acc32) with bits_Acc32.
    change (acc_granule_of a SHRAM_Acc40) with (ar_gran_acc40 a). change (acc_granule_of a SHRAM_Acc32) with (ar_gran_acc32 a).
    unfold acc_bytes_of. apply Hag.
    apply block_valid_inv in Hv. cbn [b_w b_h b_d] in Hv.
    destruct (fit_block_nonneg a (b_h ofm) k {| b_w := bw; b_h := bh; b_d := bd |}) as [F1 [F2 F3]]; cbn [b_w b_h b_d]; try lia.
    fold FB in F1, F2, F3. pose proof (round_up_nonneg (b_d FB) 8 ltac:(lia) F3). nia.
  - rewrite El'. eexists. reflexivity.
Qed.

(* ... and on the one row that is not scaling agnostic the query offers a block that the generator rejects:
   ethos-u55-128, 1x1 convolution, 16-bit IFM, 16x16x16 -> 16x16x16, quantization objects with scale_f32 = None
   (API: scaled = True, generator: scaled = False), block 12x6x16 (h x w x d) *)
Lemma offered_is_accepted_refuted_lemma :
  exists a blk ofm ifm k cf,
    nth_error arch_table 2 = Some a /\ nth_error arch_names 2 = Some "ethos-u55-128"%string /\ kernel_ok k /\
    try_block_config a blk BT_ConvolutionMxN ofm ifm None false 16 false k 0 true RS_NONE = Some (Some cf) /\
    try_block_config a blk BT_ConvolutionMxN ofm ifm None false 16 false k 0 false RS_NONE = Some None.
Proof.
  eexists _, {| b_w := 6; b_h := 12; b_d := 16 |}, {| b_w := 16; b_h := 16; b_d := 16 |},
          {| b_w := 16; b_h := 16; b_d := 16 |}, {| k_w := 1; k_h := 1; k_sx := 1; k_sy := 1; k_dx := 1; k_dy := 1 |}, _.
  split; [reflexivity|]. split; [reflexivity|]. split; [unfold kernel_ok; cbn; lia|].
  split; vm_compute; reflexivity.
Qed.

(* ================= the fuel of the depth loop is never exhausted ================= *)
Lemma depth_loop_more_fuel fuel x ss : forall depth st,
  arch_wf (x_arch x) -> 0 < depth -> depth mod ar_ofm_ublock_d (x_arch x) = 0 ->
  b_d ss - depth < Z.of_nat fuel ->
  depth_loop (S fuel) x ss depth st = depth_loop fuel x ss depth st.
Proof.
  induction fuel as [|f IH]; intros depth st W Hd Hm Hf.
  - cbn [depth_loop]. destruct (Z.leb_spec depth (b_d ss)); [lia|reflexivity].
  - cbn [depth_loop] in *. destruct (Z.leb_spec depth (b_d ss)); [|reflexivity].
    destruct (next_depth_ok (x_arch x) (sh_d (x_ofm x)) depth W Hd Hm) as [N1 N2].
    apply IH; try assumption; lia.
Qed.

Lemma find_fuel_adequate_lemma a x ofm n st :
  arch_wf a -> x_arch x = a ->
  let ss := search_space a ofm in
  depth_loop (Z.to_nat (b_d ss) + 1 + n) x ss (first_depth a (sh_d ofm) (b_d ss)) st =
  depth_loop (Z.to_nat (b_d ss) + 1) x ss (first_depth a (sh_d ofm) (b_d ss)) st.
Proof.
  intros W Hx ss. destruct (first_depth_ok a (sh_d ofm) (b_d ss) W) as [F1 F2].
  { unfold ss, search_space. cbn [b_d]. apply round_up_mod. exact (proj2 (proj2 (aw_ub _ W))). }
  induction n as [|n IH]; [f_equal; lia|].
  replace (Z.to_nat (b_d ss) + 1 + S n)%nat with (S (Z.to_nat (b_d ss) + 1 + n)) by lia.
  rewrite depth_loop_more_fuel; [exact IH | rewrite Hx; exact W | exact F1 | rewrite Hx; exact F2 | lia].
Qed.

(* ================= the register validator ================= *)
Lemma check_blockcfg_sound_lemma a blk bt ofm ifm ifm2 us bits pk k lut rs r_ib_end r_ib_start2 r_ab_start r_fmt has2 :
  check_blockcfg a blk bt ofm ifm ifm2 us bits pk k lut rs r_ib_end r_ib_start2 r_ab_start r_fmt has2 = true ->
  block_valid a blk = true /\
  exists ig t fb ib l,
    ifm_granule_of a (ew_usage bt us) bits = Some ig /\
    (t = SHRAM_Acc40 /\ r_fmt = acc_format_Acc40 \/ t = SHRAM_Acc32 /\ r_fmt = acc_format_Acc32) /\
    fb = fit_block_for_ofm a (b_h ofm) k {| b_w := b_w blk; b_h := b_h blk; b_d := b_d blk |} /\
    ib_end l = r_ib_end /\ ab_start l = r_ab_start /\ (has2 = true -> ib_start2 l = r_ib_start2) /\
    layout_okb (shram_of a) (ew_usage bt us) fb ib bits ig (acc_bits_of t) (acc_granule_of a t)
      (Z.max lut (ar_reserved_end_banks a)) l = true.
Proof.
  unfold check_blockcfg. cbv zeta. rewrite !andb_true_iff. intros [[Hv Hf] H].
  split; [exact Hv|].
  match type of H with context [mk_ctx ?a ?b ?c ?d ?e ?f ?g ?h ?i ?j ?k] =>
    destruct (mk_ctx a b c d e f g h i j k) as [x|] eqn:Ex; [|discriminate] end.
  destruct (mk_ctx_inv _ _ _ _ _ _ _ _ _ _ _ _ Ex) as [Xa [Xo [Xi [Xb [Xk [Xe [Xg [_ [_ [Xl _]]]]]]]]]].
  rewrite Xe, Xl in H.
  eexists (x_ifm_granule x), _, _, _, _.
  split; [exact Xg|]. split; [|split; [|split; [|split; [|split; [|exact H]]]]].
  - apply orb_true_iff in Hf. destruct Hf as [Hf|Hf]; apply Z.eqb_eq in Hf; rewrite Hf.
    + left. split; reflexivity.
    + right. split; reflexivity.
  - unfold cand_fit_block. rewrite Xa, Xo, Xk. reflexivity.
  - reflexivity.
  - reflexivity.
  - intros ->. reflexivity.
Qed.

(* ================= non-vacuity: concrete instances of the hypotheses ================= *)
Definition ex_kernel : kernel := {| k_w := 3; k_h := 3; k_sx := 1; k_sy := 1; k_dx := 1; k_dy := 1 |}.

Example try_layout_example :
  exists l, try_layout {| s_reserved_output_banks := 2; s_bank_size_bytes := 1024; s_total_banks := 24; s_reserved_end_banks := 2 |}
              EW_No {| b_w := 8; b_h := 8; b_d := 16 |} {| b_w := 10; b_h := 10; b_d := 32 |} 8 4 32 8 2 = Some l /\
            ib_end l = 10 /\ ab_start l = 14.
Proof. eexists. split; [vm_compute; reflexivity|]. split; reflexivity. Qed.

Example find_config_example :
  exists a cf, nth_error arch_table 2 = Some a /\
    find_block_config a BT_ConvolutionMxN {| sh_n := 1; sh_h := 12; sh_w := 12; sh_d := 40 |}
      {| sh_n := 1; sh_h := 14; sh_w := 14; sh_d := 24 |} None false 8 ex_kernel 2 true RS_NONE = Some (Some cf) /\
    c_ofm_block (cf_cfg cf) = {| b_w := 8; b_h := 8; b_d := 16 |}.
Proof. eexists _, _. split; [reflexivity|]. split; vm_compute; reflexivity. Qed.

Example offered_is_accepted_example :
  exists a cf, nth_error arch_table 3 = Some a /\ scaling_agnostic a /\
    try_block_config a {| b_w := 8; b_h := 8; b_d := 16 |} BT_ConvolutionMxN {| b_w := 16; b_h := 16; b_d := 16 |}
      {| b_w := 16; b_h := 16; b_d := 16 |} None false 16 false ex_kernel 0 true RS_NONE = Some (Some cf).
Proof.
  eexists _, _. split; [reflexivity|]. split.
  - pose proof scaling_agnostic_rows_lemma as H. unfold arch_table in H.
    inversion H as [|? ? ? ? _ R1]. inversion R1 as [|? ? ? ? _ R2]. inversion R2 as [|? ? ? ? _ R3].
    inversion R3 as [|? ? ? ? R4 _]. exact R4.
  - vm_compute. reflexivity.
Qed.

(* ================= selected => accepted ================= *)
(* The block the scheduler's search selects is accepted, with the same layout, by the validity test that the
   command stream generator runs on it (same operation, traversal as chosen by the search).  Both apply the
   Conv1D accumulator saving to the same shape: the OFM. *)
Lemma find_inv a bt ofm ifm ifm2 us bits k lut scaled rs cf :
  In a arch_table ->
  find_block_config a bt ofm ifm ifm2 us bits k lut scaled rs = Some (Some cf) ->
  exists x,
    mk_ctx a bt ofm (larger_ifm ifm ifm2) us bits (cf_partkernel cf) k lut scaled rs = Some x /\
    try_asserts bits (x_ifm_granule x) (x_acc_bits x) (x_acc_granule x) = true /\
    cfg_ok x (cf_cfg cf) /\ cf_acc_type cf = acc_type bt bits scaled /\ cf_bank_size cf = ar_shram_bank_size a.
Proof.
  intros Hin. apply arch_table_wf in Hin. unfold find_block_config. cbv zeta.
  destruct (if (bt =? BT_ConvolutionMxN) || (bt =? BT_ConvolutionDepthWise)
            then choose_kernel_method (sh_d (larger_ifm ifm ifm2)) bits k else Some false) as [pk|]; [|discriminate].
  destruct (mk_ctx a bt ofm (larger_ifm ifm ifm2) us bits pk k lut scaled rs) as [x|] eqn:Ex; [|discriminate].
  destruct (try_asserts bits (x_ifm_granule x) (x_acc_bits x) (x_acc_granule x)) eqn:Ha; cbn [negb]; [|discriminate].
  match goal with |- context [depth_loop ?f ?x ?ss ?d ?s] => set (st := depth_loop f x ss d s) end.
  assert (Hst : st_ok x st).
  { destruct (mk_ctx_inv _ _ _ _ _ _ _ _ _ _ _ _ Ex) as [Xa [Xo _]].
    subst st. destruct (first_depth_ok a (sh_d ofm) (b_d (search_space a ofm)) Hin) as [F1 F2].
    { unfold search_space. cbn [b_d]. apply round_up_mod. exact (proj2 (proj2 (aw_ub _ Hin))). }
    apply depth_loop_ok; try (rewrite Xa); try assumption.
    - rewrite Xo. reflexivity.
    - exact I. }
  destruct (st_err st); [discriminate|].
  unfold st_ok in Hst. destruct (st_cfg st) as [c|]; [|discriminate].
  intros E. injection E as <-. cbn [cf_cfg cf_partkernel cf_acc_type cf_bank_size].
  exists x. auto.
Qed.

Lemma selected_is_accepted_lemma a bt ofm ifm ifm2 us bits k lut scaled rs cf :
  In a arch_table ->
  find_block_config a bt (shape_of_block ofm) (shape_of_block ifm) (option_map shape_of_block ifm2) us bits k lut scaled rs
    = Some (Some cf) ->
  try_block_config a (c_ofm_block (cf_cfg cf)) bt ofm ifm ifm2 us bits (cf_partkernel cf) k lut scaled rs = Some (Some cf).
Proof.
  intros Hin Hf. destruct (find_inv _ _ _ _ _ _ _ _ _ _ _ _ Hin Hf) as [x [Ex [Ha [[Hv [Hl Hib]] [Hat Hbs]]]]].
  destruct (mk_ctx_inv _ _ _ _ _ _ _ _ _ _ _ _ Ex) as [Xa _].
  unfold try_block_config. cbv zeta. rewrite Xa in Hv. rewrite Hv. cbn [negb]. rewrite Ex, Ha. cbn [negb]. rewrite Hl.
  destruct cf as [[l ib ob] t pk bs]. cbn [cf_cfg cf_acc_type cf_partkernel cf_bank_size c_layout c_ifm_block c_ofm_block] in *.
  subst. reflexivity.
Qed.

Example selected_is_accepted_example :
  exists a cf, nth_error arch_table 3 = Some a /\
    find_block_config a BT_ConvolutionMxN (shape_of_block {| b_w := 64; b_h := 1; b_d := 128 |})
      (shape_of_block {| b_w := 128; b_h := 2; b_d := 16 |}) None false 8
      {| k_w := 1; k_h := 1; k_sx := 2; k_sy := 2; k_dx := 1; k_dy := 1 |} 0 true RS_NONE = Some (Some cf) /\
    c_ofm_block (cf_cfg cf) = {| b_w := 32; b_h := 2; b_d := 128 |}.
Proof. eexists _, _. split; [reflexivity|]. split; vm_compute; reflexivity. Qed.
