(* C10, part 4: instances on which earlier versions of the code did NOT hand the hardware the receptive field (all repaired
   in /repo by now; kept as examples on the current code), and the unsupported width striping.  Every statement is a
   concrete instance on the faithful model (vm_compute); tools/checks/c10.py replays the same inputs on the real
   Python functions and on real compilations. *)
From Coq Require Import ZArith List Bool Lia.
From VV Require Import lib.PyInt gen.GenArchTables model.Stripe proofs.StripeProofs proofs.StripeTapProofs.
Import ListNotations.
Open Scope Z_scope.

Definition z4 : c4 := {| cn := 0; ch := 0; cw := 0; cc := 0 |}.
Definition p4 (a b c d : Z) : pad4 := {| p_top := a; p_left := b; p_bottom := c; p_right := d |}.
Definition m4 (a b c d : Z) : c4 := {| cn := a; ch := b; cw := c; cc := d |}.

(* (1), (2) REPAIRED in /repo 6d9d641 (were: read offsets along the height ignored by the clamp / padding, read offsets
   along the width multiplied by the stride).  The instances on which the old code was refuted, on the code as it is now:
   (1) 3x3 stride-1 SAME convolution reading rows [4,10) of a 16-row tensor: the old transform clipped against [0,16) and
       handed rows [3,11) with top padding 1 (OFM row 0, tap 1 read row 3 where the operator has row 4); now rows [4,10);
   (2) 3x3 stride-2 SAME convolution reading columns [4,10) of a 16-column tensor: the old transform multiplied the offset by
       the stride and handed columns [8,10); now columns [4,10).
   The general statement is stripe_taps_equal_read_offset (proofs/StripeSplitProofs.v). *)
Example read_offset_height_repaired_example :
  exists (i : tf_in) ib pt pb,
    t_split i = Some (m4 0 4 0 0, m4 1 6 16 8) /\
    calc_padding_and_skirt PAD_SAME 3 3 1 1 6 16 (p4 0 0 0 0) = Some (p4 1 1 1 1, t_skirt i) /\
    transform i = Some (ib, pt, pb) /\
    (ch (fst ib), ch (snd ib)) = (4, 10) /\
    let p := create_padding false false (p4 1 1 1 1) true true pt pb (Some (0, 16)) 16 (cw (fst ib)) (cw (snd ib)) in
    check_stripe_taps (ch (fst ib)) (ch (snd ib)) (p_top p) (p_bottom p) 6 1 3 1 3 4 10 1 0 = true /\
    (* what the old result (rows [3,11), pads 1/1) meant *)
    hw_tap 3 11 1 1 6 1 3 0 1 = TSrc 3 /\ ref_tap 4 10 1 1 0 1 = TSrc 4.
Proof.
  exists {| t_s := z4; t_e := m4 1 6 16 8; t_has_ss := true; t_sy := 1; t_sx := 1; t_skirt := p4 1 1 1 1;
            t_ifm := m4 1 16 16 8; t_dot := true; t_concat := z4; t_kdh := 3;
            t_split := Some (m4 0 4 0 0, m4 1 6 16 8); t_up := 1; t_wrap := false |}.
  eexists _, _, _. split; [reflexivity|]. split; [vm_compute; reflexivity|]. split; [vm_compute; reflexivity|].
  vm_compute. repeat split; reflexivity.
Qed.

Example read_offset_width_repaired_example :
  exists (i : tf_in) ib pt pb,
    t_split i = Some (m4 0 0 4 0, m4 1 16 6 8) /\
    calc_padding_and_skirt PAD_SAME 3 3 2 2 16 6 (p4 0 0 0 0) = Some (p4 0 0 1 1, t_skirt i) /\
    transform i = Some (ib, pt, pb) /\
    (cw (fst ib), cw (snd ib)) = (4, 10) /\
    let p := create_padding false false (p4 0 0 1 1) true true pt pb (Some (4, 6)) 16 (cw (fst ib)) (cw (snd ib)) in
    check_stripe_taps (cw (fst ib)) (cw (snd ib)) (p_left p) (p_right p) 3 2 3 1 3 4 10 0 0 = true /\
    (* what the old result (columns [8,10), pads 0/1) meant *)
    hw_tap 8 10 0 1 3 2 3 0 0 = TSrc 8 /\ ref_tap 4 10 0 2 0 0 = TSrc 4.
Proof.
  exists {| t_s := z4; t_e := m4 1 8 3 8; t_has_ss := true; t_sy := 2; t_sx := 2; t_skirt := p4 0 0 1 1;
            t_ifm := m4 1 16 16 8; t_dot := true; t_concat := z4; t_kdh := 3;
            t_split := Some (m4 0 0 4 0, m4 1 16 6 8); t_up := 1; t_wrap := false |}.
  eexists _, _, _. split; [reflexivity|]. split; [vm_compute; reflexivity|]. split; [vm_compute; reflexivity|].
  vm_compute. repeat split; reflexivity.
Qed.

(* (3) REPAIRED (was: a PAD operator fused into an even-sized VALID kernel -- EXPLICIT padding top = bottom = k/2, stride 1 --
   makes the OFM one row TALLER than the IFM; the transform computed pad_bottom from the OFM end clipped to the IFM height and
   the last stripe of a cascaded operator got pad_bottom 0: the hardware read one row beyond the IFM).  With total_stride and
   the padding test taken from the unclipped OFM end: 2x2 kernel, IFM 4 rows, PAD (1,1) -> OFM 5 rows; last stripe = row 4 *)
Example explicit_even_kernel_repaired_example :
  exists pad skirt,
    calc_padding_and_skirt PAD_EXPLICIT 2 2 1 1 4 4 (p4 1 1 1 1) = Some (pad, skirt) /\
    let g := geom_of 4 5 2 1 1 pad skirt in
    g_in g < g_out g /\
    stripe_h g 0 4 5 = (3, 4, 0, 1) /\
    hw_tap 3 4 0 1 1 1 2 0 1 = TPad /\ ref_tap 0 4 1 1 4 1 = TPad /\
    (* what the old pad_bottom 0 meant *)
    hw_tap 3 4 0 0 1 1 2 0 1 = TOob /\
    stripe_taps_ok g 0 4 5 = true /\ stripe_taps_ok g 0 0 5 = true /\ stripe_taps_ok g 0 2 5 = true.
Proof. eexists _, _. split; [vm_compute; reflexivity|]. vm_compute. repeat split; reflexivity. Qed.

(* (4) REPAIRED in /repo 8267dad (was: calc_explicit_padding lost bottom padding that the last window needs).
   2x2 kernel, stride 3, IFM 3 rows, PAD (1,1) -> OFM 2 rows.  The old code computed the residue target from
   needed_total_padding = max(2 - 3, 0) = 0 and returned (1, 0): the operator read IFM row 3 of a 3-row IFM.  The code as it
   is now returns (1, 1) and the whole operator is tap-equal; the general statement is calc_explicit_padding_exact. *)
Definition calc_explicit_padding_old (input_size stride filter_size pad_before pad_after : Z) : Z * Z :=
  (pad_before, explicit_after (Z.to_nat pad_after) pad_after stride
                 (needed_total_padding input_size stride filter_size - pad_before)).

Example explicit_bottom_repaired_example :
  calc_explicit_padding_old 3 3 2 1 1 = (1, 0) /\
  calc_explicit_padding 3 3 2 1 1 = (1, 1) /\
  hw_tap 0 3 1 0 2 3 2 1 1 = TOob /\ ref_tap 0 3 1 3 1 1 = TPad /\     (* what the old (1, 0) meant for the hardware *)
  exists pad skirt,
    calc_padding_and_skirt PAD_EXPLICIT 2 2 3 3 3 3 (p4 1 1 1 1) = Some (pad, skirt) /\
    p_bottom pad = 1 /\ stripe_taps_ok (geom_of 3 2 2 1 3 pad skirt) 0 0 2 = true.
Proof.
  split; [vm_compute; reflexivity|]. split; [vm_compute; reflexivity|].
  split; [vm_compute; reflexivity|]. split; [vm_compute; reflexivity|].
  eexists _, _. split; [vm_compute; reflexivity|]. split; vm_compute; reflexivity.
Qed.

(* (5) width striping is not supported by create_padding: a second stripe that starts inside the left padding keeps
   the full left padding (the scheduler never produces width stripes; the tap theorem is stated for full-width boxes) *)
Lemma width_striping_refuted_lemma :
  exists (i : tf_in) ib pt pb,
    transform i = Some (ib, pt, pb) /\ cw (t_s i) = 1 /\
    let p := create_padding false false (p4 1 1 1 1) true true pt pb None 8 (cw (fst ib)) (cw (snd ib)) in
    hw_tap (cw (fst ib)) (cw (snd ib)) (p_left p) (p_right p) 7 1 3 0 0 = TPad /\
    ref_tap 0 8 1 1 1 0 = TSrc 0.
Proof.
  exists {| t_s := m4 0 0 1 0; t_e := m4 1 8 8 8; t_has_ss := true; t_sy := 1; t_sx := 1; t_skirt := p4 1 1 1 1;
            t_ifm := m4 1 8 8 8; t_dot := true; t_concat := z4; t_kdh := 3; t_split := None; t_up := 1; t_wrap := false |}.
  eexists _, _, _. split; [vm_compute; reflexivity|]. split; [reflexivity|]. vm_compute. split; reflexivity.
Qed.
