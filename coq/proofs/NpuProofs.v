From Coq Require Import ZArith List Bool Lia.
From VV Require Import lib.PyInt gen.GenTables hw.Npu.
Import ListNotations.
Open Scope Z_scope.

(* ---------- a segment list covers a byte range ---------- *)
Definition covers (l : list (Z * Z)) (a b : Z) : Prop :=
  exists lo hi, In (lo, hi) l /\ lo <= a /\ b <= hi.

Lemma covers_app_l l1 l2 a b : covers l1 a b -> covers (l1 ++ l2) a b.
Proof. intros (lo & hi & Hin & H). exists lo, hi. split; [apply in_or_app; now left | exact H]. Qed.
Lemma covers_app_r l1 l2 a b : covers l2 a b -> covers (l1 ++ l2) a b.
Proof. intros (lo & hi & Hin & H). exists lo, hi. split; [apply in_or_app; now right | exact H]. Qed.

Lemma merge_adj_covers l a b : covers l a b -> covers (merge_adj l) a b.
Proof.
  revert a b. induction l as [|[lo hi] t IH]; intros a b (lo0 & hi0 & Hin & Hlo & Hhi).
  - destruct Hin.
  - cbn [merge_adj]. destruct Hin as [Heq|Hin].
    + injection Heq as <- <-.
      destruct (merge_adj t) as [|[lo2 hi2] t2] eqn:Hm.
      * exists lo, hi. split; [now left | lia].
      * destruct (Z.eqb_spec hi lo2) as [->|Hne].
        -- exists (Z.min lo lo2), (Z.max lo2 hi2). split; [now left | lia].
        -- exists lo, hi. split; [now left | lia].
    + assert (Hc : covers (merge_adj t) a b) by (apply IH; exists lo0, hi0; auto).
      destruct (merge_adj t) as [|[lo2 hi2] t2] eqn:Hm.
      * destruct Hc as (? & ? & [] & _).
      * destruct Hc as (l1 & h1 & Hin1 & Hl1 & Hh1).
        destruct (Z.eqb_spec hi lo2) as [->|Hne].
        -- destruct Hin1 as [Heq|Hin1].
           ++ injection Heq as <- <-. exists (Z.min lo lo2), (Z.max lo2 hi2). split; [now left | lia].
           ++ exists l1, h1. split; [now right | lia].
        -- exists l1, h1. split; [right; exact Hin1 | lia].
Qed.

(* ---------- pixel segments cover every element of the pixel ---------- *)
Lemma brick_segs_in v y x nb s0 s :
  s0 <= s < s0 + Z.of_nat nb ->
  In (elem_addr v y x (16 * s), elem_addr v y x (16 * s) + Z.min 16 (fv_d v - 16 * s) * fv_elem v)
     (brick_segs v y x nb s0).
Proof.
  revert s0. induction nb as [|nb IH]; intros s0 H.
  - cbn in H. lia.
  - cbn [brick_segs]. destruct (Z.eq_dec s s0) as [->|Hne].
    + now left.
    + right. apply IH. rewrite Nat2Z.inj_succ in H. lia.
Qed.

Lemma pixel_cover v y x c :
  0 < fv_elem v -> 0 <= c < fv_d v ->
  covers (pixel_segs v y x) (elem_addr v y x c) (elem_addr v y x c + fv_elem v).
Proof.
  intros He Hc. unfold pixel_segs. destruct (fv_b16 v) eqn:Hb.
  - set (s := c / 16).
    assert (Hs : 0 <= s < (fv_d v + 15) / 16).
    { unfold s. split; [apply Z.div_pos; lia|].
      apply Z.div_lt_upper_bound; [lia|].
      pose proof (Z.div_mod (fv_d v + 15) 16 ltac:(lia)).
      pose proof (Z.mod_pos_bound (fv_d v + 15) 16 ltac:(lia)). lia. }
    exists (elem_addr v y x (16 * s)), (elem_addr v y x (16 * s) + Z.min 16 (fv_d v - 16 * s) * fv_elem v).
    split.
    + apply brick_segs_in. rewrite Z2Nat.id by lia. lia.
    + unfold elem_addr. destruct (tile_of v y x) as [[b ly] lx]. rewrite Hb.
      replace (16 * s / 16) with s by (rewrite Z.mul_comm, Z.div_mul; lia).
      replace ((16 * s) mod 16) with 0 by (rewrite Z.mul_comm, Z.mod_mul; lia).
      fold s.
      pose proof (Z.div_mod c 16 ltac:(lia)) as Hdm. fold s in Hdm.
      pose proof (Z.mod_pos_bound c 16 ltac:(lia)) as Hmb.
      assert (Hm : c mod 16 + 1 <= Z.min 16 (fv_d v - 16 * s)) by lia.
      split; [nia|].
      assert ((c mod 16 + 1) * fv_elem v <= Z.min 16 (fv_d v - 16 * s) * fv_elem v)
        by (apply Z.mul_le_mono_nonneg_r; lia).
      lia.
  - exists (elem_addr v y x 0), (elem_addr v y x 0 + fv_d v * fv_elem v). split; [now left|].
    unfold elem_addr. destruct (tile_of v y x) as [[b ly] lx]. rewrite Hb.
    assert ((c + 1) * fv_elem v <= fv_d v * fv_elem v) by (apply Z.mul_le_mono_nonneg_r; lia).
    split; nia.
Qed.

Lemma row_cover v y nx x0 x c :
  0 < fv_elem v -> 0 <= c < fv_d v -> x0 <= x < x0 + Z.of_nat nx ->
  covers (row_segs v y nx x0) (elem_addr v y x c) (elem_addr v y x c + fv_elem v).
Proof.
  intros He Hc. revert x0. induction nx as [|nx IH]; intros x0 Hx.
  - cbn in Hx. lia.
  - cbn [row_segs]. destruct (Z.eq_dec x x0) as [->|Hne].
    + apply covers_app_l. apply pixel_cover; assumption.
    + apply covers_app_r. apply IH. rewrite Nat2Z.inj_succ in Hx. lia.
Qed.

Lemma box_cover v ny y0 y x c :
  0 < fv_elem v -> 0 <= c < fv_d v -> 0 <= x < fv_w v -> y0 <= y < y0 + Z.of_nat ny ->
  covers (box_segs v ny y0) (elem_addr v y x c) (elem_addr v y x c + fv_elem v).
Proof.
  intros He Hc Hx. revert y0. induction ny as [|ny IH]; intros y0 Hy.
  - cbn in Hy. lia.
  - cbn [box_segs]. destruct (Z.eq_dec y y0) as [->|Hne].
    + apply covers_app_l. apply row_cover; try assumption. rewrite Z2Nat.id by lia. lia.
    + apply covers_app_r. apply IH. rewrite Nat2Z.inj_succ in Hy. lia.
Qed.

(* every element of the view's box lies in one of the view's segments *)
Lemma fm_segs_cover v y x c :
  0 < fv_elem v -> 0 <= y < fv_h v -> 0 <= x < fv_w v -> 0 <= c < fv_d v ->
  covers (fm_segs v) (elem_addr v y x c) (elem_addr v y x c + fv_elem v).
Proof.
  intros He Hy Hx Hc. unfold fm_segs. apply merge_adj_covers.
  apply box_cover; try assumption. rewrite Z2Nat.id by lia. lia.
Qed.

(* ---------- soundness of the bounds checker ---------- *)
Definition in_region (sizes : list (Z * Z)) (rg a b : Z) : Prop :=
  exists sz, region_size sizes rg = Some sz /\ 0 <= a /\ b <= sz.

Lemma seg_in_sound sizes rg lo hi a b :
  seg_in sizes (rg, lo, hi) = true -> lo <= a -> b <= hi -> in_region sizes rg a b.
Proof.
  unfold seg_in. destruct (region_size sizes rg) as [sz|] eqn:Hsz; [|discriminate].
  intros H Ha Hb. apply andb_true_iff in H as [H H3]. apply andb_true_iff in H as [H1 H2].
  apply Z.leb_le in H1, H2, H3. exists sz. split; [exact Hsz | lia].
Qed.

Lemma tagged_cover sizes rg l a b :
  forallb (seg_in sizes) (tag_region rg l) = true -> covers l a b -> in_region sizes rg a b.
Proof.
  intros Hall (lo & hi & Hin & Hlo & Hhi). rewrite forallb_forall in Hall.
  apply (seg_in_sound sizes rg lo hi); try assumption.
  apply Hall. unfold tag_region. apply in_map_iff. exists (lo, hi). split; [reflexivity | exact Hin].
Qed.

Lemma prec_elem_ifm_pos p : 0 < prec_elem_ifm p.
Proof. unfold prec_elem_ifm. apply Z.pow_pos_nonneg; [lia|]. apply Z.mod_pos_bound. lia. Qed.
Lemma prec_elem_ofm_pos p : 0 < prec_elem_ofm p.
Proof. unfold prec_elem_ofm. apply Z.pow_pos_nonneg; [lia|]. apply Z.mod_pos_bound. lia. Qed.

(* what it means for one decoded block operation to stay inside the published regions *)
Definition op_accesses_inside (hw : hwcfg) (sizes : list (Z * Z)) (ro : list Z) (code param : Z) (r : regs) : Prop :=
  (code <> cmd0_NPU_OP_DMA_START ->
     (* every IFM element *)
     (forall y x c, let v := ifm_view code r in
        0 <= y < fv_h v -> 0 <= x < fv_w v -> 0 <= c < fv_d v ->
        in_region sizes (fv_region v) (elem_addr v y x c) (elem_addr v y x c + fv_elem v)) /\
     (* every IFM2 element when the operation has a second tensor operand *)
     (uses_ifm2 code param r = true -> forall y x c, let v := ifm2_view r in
        0 <= y < fv_h v -> 0 <= x < fv_w v -> 0 <= c < fv_d v ->
        in_region sizes (fv_region v) (elem_addr v y x c) (elem_addr v y x c + fv_elem v)) /\
     (* every OFM element, and the OFM region is not read-only *)
     (forall y x c, let v := ofm_view r in
        0 <= y < fv_h v -> 0 <= x < fv_w v -> 0 <= c < fv_d v ->
        in_region sizes (fv_region v) (elem_addr v y x c) (elem_addr v y x c + fv_elem v) /\
        ~ In (fv_region v) ro)) /\
  (* every other read / write range (weights, scales, LUT, SHRAM, DMA source and destination) *)
  (forall rg lo hi, In (rg, lo, hi) (fp_reads (op_footprint hw code param r)) -> in_region sizes rg lo hi) /\
  (forall rg lo hi, In (rg, lo, hi) (fp_writes (op_footprint hw code param r)) ->
     in_region sizes rg lo hi /\ ~ In rg ro).

Lemma forallb_app_true {A} (f : A -> bool) l1 l2 :
  forallb f (l1 ++ l2) = true -> forallb f l1 = true /\ forallb f l2 = true.
Proof. rewrite forallb_app. apply andb_true_iff. Qed.

Lemma not_ro_sound ro (s : seg) :
  negb (existsb (Z.eqb (fst (fst s))) ro) = true -> ~ In (fst (fst s)) ro.
Proof.
  intros H Hin. apply negb_true_iff in H.
  assert (existsb (Z.eqb (fst (fst s))) ro = true).
  { apply existsb_exists. exists (fst (fst s)). split; [exact Hin | apply Z.eqb_refl]. }
  congruence.
Qed.

Lemma op_bounds_ok_sound hw sizes ro code param r :
  op_bounds_ok hw sizes ro code param r = true -> op_accesses_inside hw sizes ro code param r.
Proof.
  unfold op_bounds_ok. intros H.
  apply andb_true_iff in H as [H Hro]. apply andb_true_iff in H as [Hr Hw].
  assert (Hreads : forall rg lo hi, In (rg, lo, hi) (fp_reads (op_footprint hw code param r)) -> in_region sizes rg lo hi).
  { intros rg lo hi Hin. rewrite forallb_forall in Hr. specialize (Hr _ Hin).
    apply (seg_in_sound sizes rg lo hi lo hi Hr); lia. }
  assert (Hwrites : forall rg lo hi, In (rg, lo, hi) (fp_writes (op_footprint hw code param r)) ->
                                in_region sizes rg lo hi /\ ~ In rg ro).
  { intros rg lo hi Hin. rewrite forallb_forall in Hw, Hro. split.
    - specialize (Hw _ Hin). apply (seg_in_sound sizes rg lo hi lo hi Hw); lia.
    - specialize (Hro _ Hin). apply not_ro_sound in Hro. exact Hro. }
  split; [|split; assumption].
  intros Hnd. unfold op_footprint in Hr, Hw, Hro.
  destruct (Z.eqb_spec code cmd0_NPU_OP_DMA_START) as [|_]; [contradiction|].
  cbn [fp_reads fp_writes] in Hr, Hw, Hro.
  apply forallb_app_true in Hr as [Hifm Hr].
  apply forallb_app_true in Hr as [Hifm2 _].
  apply forallb_app_true in Hw as [Hofm _].
  apply forallb_app_true in Hro as [Hofm_ro _].
  split; [|split].
  - intros y x c v Hy Hx Hc. apply (tagged_cover sizes _ (fm_segs v)); [exact Hifm|].
    apply fm_segs_cover; try assumption.
    unfold v, ifm_view. destruct (ifm_dims code r). cbn [fv_elem]. apply prec_elem_ifm_pos.
  - intros Hu y x c v Hy Hx Hc. rewrite Hu in Hifm2.
    apply (tagged_cover sizes _ (fm_segs v)); [exact Hifm2|].
    apply fm_segs_cover; try assumption. apply prec_elem_ifm_pos.
  - intros y x c v Hy Hx Hc.
    assert (Hcov : covers (fm_segs v) (elem_addr v y x c) (elem_addr v y x c + fv_elem v)).
    { apply fm_segs_cover; try assumption. apply prec_elem_ofm_pos. }
    split.
    + apply (tagged_cover sizes _ (fm_segs v)); [exact Hofm | exact Hcov].
    + destruct Hcov as (lo & hi & Hin & _).
      rewrite forallb_forall in Hofm_ro.
      assert (Hin2 : In (fv_region v, lo, hi) (tag_region (fv_region (ofm_view r)) (fm_segs (ofm_view r)))).
      { unfold tag_region. apply in_map_iff. exists (lo, hi). split; [reflexivity | exact Hin]. }
      specialize (Hofm_ro _ Hin2). apply not_ro_sound in Hofm_ro. exact Hofm_ro.
Qed.

Theorem check_bounds_sound_lemma hw sizes ro evs :
  check_bounds hw sizes ro evs = true ->
  forall code param r, In (EOp code param r) evs -> op_accesses_inside hw sizes ro code param r.
Proof.
  induction evs as [|e t IH]; intros H code param r Hin; [destruct Hin|].
  destruct Hin as [->|Hin].
  - cbn [check_bounds] in H. apply andb_true_iff in H as [H _]. apply op_bounds_ok_sound. exact H.
  - apply IH; [|exact Hin]. destruct e; cbn [check_bounds] in H; try exact H.
    apply andb_true_iff in H as [_ H]. exact H.
Qed.
