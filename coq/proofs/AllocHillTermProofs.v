(* HillClimb termination: allocate_lr's while loop ends within |neighbours|+1 rounds, and the search
   loop ends within max(max_iterations, 500) + 500 * (size0 - min_required) iterations. *)
From Coq Require Import ZArith List Bool Lia.
From VV Require Import lib.PyInt model.Alloc proofs.AllocProofs proofs.AllocHillProofs proofs.AllocHillSearchProofs.
Import ListNotations.
Open Scope Z_scope.

(* ---------- allocate_lr ---------- *)
Definition blocking (st : list hinfo) (address : Z) (j : Z) : bool :=
  negb (h_addr (hget st j) =? NOT_ALLOCATED) && (address <? h_end (hget st j)).
Definition nblocking (st : list hinfo) (nb : list Z) (address : Z) : nat :=
  length (filter (blocking st address) nb).

Lemma filter_count_le : forall (A : Type) (f f' : A -> bool) l,
  (forall x, In x l -> f' x = true -> f x = true) -> (length (filter f' l) <= length (filter f l))%nat.
Proof.
  induction l as [|x r IH]; intros H; cbn [filter length]; [lia|].
  assert (IH' : (length (filter f' r) <= length (filter f r))%nat) by (apply IH; intros; apply H; [right|]; assumption).
  destruct (f' x) eqn:E'.
  - rewrite (H x (or_introl eq_refl) E'). cbn [length]. lia.
  - destruct (f x); cbn [length]; lia.
Qed.

Lemma filter_count_lt : forall (A : Type) (f f' : A -> bool) l w,
  (forall x, In x l -> f' x = true -> f x = true) -> In w l -> f w = true -> f' w = false ->
  (length (filter f' l) < length (filter f l))%nat.
Proof.
  induction l as [|x r IH]; intros w H Hw Hf Hf'; [destruct Hw|]. cbn [filter length].
  assert (Hr : forall y, In y r -> f' y = true -> f y = true) by (intros; apply H; [right|]; assumption).
  destruct Hw as [->|Hw].
  - rewrite Hf, Hf'. cbn [length]. pose proof (filter_count_le _ f f' r Hr). lia.
  - specialize (IH w Hr Hw Hf Hf').
    destruct (f' x) eqn:E'.
    + rewrite (H x (or_introl eq_refl) E'). cbn [length]. lia.
    + destruct (f x); cbn [length]; lia.
Qed.

Lemma filter_len_le : forall (A : Type) (f : A -> bool) l, (length (filter f l) <= length l)%nat.
Proof. induction l as [|x r IH]; cbn [filter length]; [lia|]. destruct (f x); cbn [length]; lia. Qed.

Lemma hc_scan_moved : forall st size al, 0 < al ->
  forall nb address pred fits a p f,
  hc_scan st size al nb address pred fits = (a, p, f) ->
  f = fits \/ (f = false /\ exists j, In j nb /\ is_alloc st j /\ address < h_end (hget st j) <= a).
Proof.
  intros st size al Hal. induction nb as [|j r IH]; intros address pred fits a p f H.
  - cbn in H. inversion H; auto.
  - cbn [hc_scan] in H.
    destruct ((h_addr (hget st j) =? NOT_ALLOCATED) || (h_end (hget st j) <=? address)) eqn:E1.
    + destruct (IH _ _ _ _ _ _ H) as [G|[G [k [Hk G2]]]]; [left; exact G|].
      right. split; [exact G|]. exists k. split; [right; exact Hk | exact G2].
    + apply orb_false_elim in E1. destruct E1 as [E1 E2]. apply Z.eqb_neq in E1. apply Z.leb_gt in E2.
      destruct ((h_addr (hget st j) <? address + size) && (address <? h_end (hget st j))) eqn:E3.
      * destruct (hc_scan_spec st size al Hal _ _ _ _ _ _ _ H) as (S1 & _).
        pose proof (round_up_ge (h_end (hget st j)) al Hal) as Hge.
        right. split.
        -- destruct (IH _ _ _ _ _ _ H) as [G|[G _]]; exact G.
        -- exists j. split; [left; reflexivity|]. split; [exact E1 | lia].
      * destruct (IH _ _ _ _ _ _ H) as [G|[G [k [Hk G2]]]]; [left; exact G|].
        right. split; [exact G|]. exists k. split; [right; exact Hk | exact G2].
Qed.

Lemma hc_fit_terminates : forall st size al nb, 0 < al ->
  forall fuel address pred, (nblocking st nb address < fuel)%nat ->
  exists a p, hc_fit fuel st size al nb address pred = Some (a, p).
Proof.
  intros st size al nb Hal. induction fuel as [|fuel IH]; intros address pred Hlt; [lia|].
  cbn [hc_fit]. destruct (hc_scan st size al nb address pred true) as [[a1 p1] f1] eqn:E.
  destruct f1; [eauto|].
  destruct (hc_scan_moved st size al Hal _ _ _ _ _ _ _ E) as [G|[_ [j [Hj [Haj [H1 H2]]]]]]; [discriminate|].
  destruct (hc_scan_spec st size al Hal _ _ _ _ _ _ _ E) as (S1 & _).
  apply IH.
  assert ((nblocking st nb a1 < nblocking st nb address)%nat); [|lia].
  unfold nblocking. apply filter_count_lt with (w := j); auto.
  - intros x _ Hx. unfold blocking in *. apply andb_prop in Hx. destruct Hx as [X1 X2].
    apply andb_true_intro. split; [exact X1|]. apply Z.ltb_lt in X2. apply Z.ltb_lt. lia.
  - unfold blocking. apply andb_true_intro. split.
    + apply negb_true_iff. apply Z.eqb_neq. exact Haj.
    + apply Z.ltb_lt. lia.
  - unfold blocking. apply andb_false_iff. right. apply Z.ltb_ge. lia.
Qed.

Lemma allocate_lr_terminates_lemma : forall lrs nbrs st i,
  0 < lr_align (lget lrs i) -> exists st', allocate_lr lrs nbrs st i = Ok st'.
Proof.
  intros lrs nbrs st i Hal. unfold allocate_lr.
  destruct (hc_fit_terminates st (lr_size (lget lrs i)) (lr_align (lget lrs i)) (nget nbrs i) Hal
              (Datatypes.S (length (nget nbrs i))) 0 NO_PREDECESSOR) as [a [p E]].
  - unfold nblocking. pose proof (filter_len_le _ (blocking st 0) (nget nbrs i)). lia.
  - rewrite E. eauto.
Qed.

(* ---------- search ---------- *)
Section SearchTerm.
  Variable S : Type.
  Variable next : S -> Z * S.
  Variable lrs : list lr.
  Variable nbrs : list (list Z).
  Variables minreq maxit limit : Z.

  Definition horizon (last : Z) : Z := Z.max maxit (last + MIN_ITERATIONS_IMPROVE).
  Definition mu (x : sstate S) : Z :=
    horizon (ss_last S x) - ss_i S x + MIN_ITERATIONS_IMPROVE * (ss_best S x - minreq).
  Definition tinv (x : sstate S) : Prop :=
    ss_last S x <= ss_i S x /\ ss_i S x <= horizon (ss_last S x) /\ minreq < ss_best S x.

  Lemma tinv_mu_pos : forall x, tinv x -> MIN_ITERATIONS_IMPROVE <= mu x.
  Proof. intros x (H1 & H2 & H3). unfold mu, MIN_ITERATIONS_IMPROVE in *. lia. Qed.

  Lemma search_step_measure : forall x, tinv x ->
    match search_step S next lrs nbrs minreq maxit limit x with
    | Continue x' => tinv x' /\ mu x' + 1 <= mu x /\ ss_i S x' = ss_i S x + 1
    | Done (Ok (_, _, i, _)) => i = ss_i S x
    | Done (Err _) => True
    end.
  Proof.
    intros x (H1 & H2 & H3). unfold search_step.
    destruct (((ss_best S x >? limit) && (ss_i S x <? maxit)) || (ss_i S x - ss_last S x <? MIN_ITERATIONS_IMPROVE)) eqn:Ec;
      [|reflexivity].
    assert (Hc : ss_i S x < horizon (ss_last S x)).
    { unfold horizon. apply orb_prop in Ec. destruct Ec as [Ec|Ec].
      - apply andb_prop in Ec. destruct Ec as [_ Ec]. apply Z.ltb_lt in Ec. lia.
      - apply Z.ltb_lt in Ec. lia. }
    destruct (attempt_bottleneck_fix _ _ _ _ _ _ _ _) as [[idx1 rng1]|c]; [|exact I].
    destruct (allocate_indices _ _ _ _ _) as [[st1 new_size]|c]; [|exact I].
    destruct (Z.leb_spec new_size (ss_best S x)) as [Hle|Hgt].
    - destruct (Z.leb_spec new_size minreq) as [Hm|Hm]; [reflexivity|].
      unfold tinv, mu, horizon in *; cbn [ss_last ss_i ss_best].
      destruct (Z.ltb_spec new_size (ss_best S x)); unfold MIN_ITERATIONS_IMPROVE in *; repeat split; lia.
    - unfold tinv, mu, horizon in *; cbn [ss_last ss_i ss_best]. unfold MIN_ITERATIONS_IMPROVE in *. repeat split; lia.
  Qed.

  Definition mu0 (x : sstate S) : Z := Z.max maxit MIN_ITERATIONS_IMPROVE + MIN_ITERATIONS_IMPROVE * (ss_best S x - minreq).

  (* the loop of search exits (normally, by return or by an exception) within its fuel *)
  Lemma search_loop_terminates_lemma : forall x,
    ss_last S x = 0 -> ss_i S x = 0 -> minreq < ss_best S x ->
    exists r, iter_pos (search_fuel minreq maxit (ss_best S x)) (search_step S next lrs nbrs minreq maxit limit) x = Done r.
  Proof.
    intros x Hl Hi Hb.
    assert (Hx : tinv x) by (unfold tinv, horizon, MIN_ITERATIONS_IMPROVE; rewrite Hl, Hi; lia).
    pose proof (iter_pos_measure _ sresult tinv mu (search_step S next lrs nbrs minreq maxit limit)) as M.
    assert (Hstep : forall s, tinv s -> match search_step S next lrs nbrs minreq maxit limit s with
                                        | Continue s' => tinv s' /\ mu s' + 1 <= mu s | Done _ => True end).
    { intros s Hs. pose proof (search_step_measure s Hs) as G.
      destruct (search_step S next lrs nbrs minreq maxit limit s); [|exact I]. destruct G as (G1 & G2 & _). auto. }
    specialize (M Hstep).
    specialize (M (search_fuel minreq maxit (ss_best S x)) x Hx).
    destruct (iter_pos _ _ x) as [x'|r]; [|eauto]. exfalso.
    destruct M as [Hx' M]. pose proof (tinv_mu_pos x' Hx') as Hp.
    unfold search_fuel in M. rewrite Z2Pos.id in M by (unfold MIN_ITERATIONS_IMPROVE; lia).
    assert (Emu : mu x = Z.max maxit MIN_ITERATIONS_IMPROVE + MIN_ITERATIONS_IMPROVE * (ss_best S x - minreq))
      by (unfold mu, horizon; rewrite Hl, Hi; lia).
    rewrite Emu in M. unfold MIN_ITERATIONS_IMPROVE in *. lia.
  Qed.

  (* the number of iterations reported at the end is bounded *)
  Definition iters_ok (b : Z) (r : sresult) : Prop :=
    match r with Ok (_, _, i, _) => 0 <= i <= b | Err _ => True end.

  Lemma search_iterations_bound_lemma : forall x,
    ss_last S x = 0 -> ss_i S x = 0 -> minreq < ss_best S x ->
    iters_ok (mu0 x - MIN_ITERATIONS_IMPROVE) (search S next lrs nbrs minreq maxit limit x).
  Proof.
    intros x Hl Hi Hb. unfold search.
    set (b := mu0 x).
    pose (P := fun s : sstate S => tinv s /\ 0 <= ss_i S s /\ ss_i S s + mu s <= b).
    assert (Hx : P x).
    { unfold P, tinv, mu, horizon, b, mu0, MIN_ITERATIONS_IMPROVE. rewrite Hl, Hi. lia. }
    pose proof (iter_pos_inv _ _ P (iters_ok (b - MIN_ITERATIONS_IMPROVE)) (search_step S next lrs nbrs minreq maxit limit)) as V.
    assert (Hstep : forall s, P s -> match search_step S next lrs nbrs minreq maxit limit s with
                                     | Continue s' => P s' | Done r => iters_ok (b - MIN_ITERATIONS_IMPROVE) r end).
    { intros s (Hs & Hi0 & Hsum). pose proof (search_step_measure s Hs) as M. pose proof (tinv_mu_pos s Hs) as Hp.
      destruct (search_step S next lrs nbrs minreq maxit limit s) as [s'|[[[[ad bs] it] dr]|c]].
      - destruct M as (M1 & M2 & M3). unfold P. split; [exact M1|]. lia.
      - subst it. cbn. lia.
      - exact I. }
    specialize (V Hstep (search_fuel minreq maxit (ss_best S x)) x Hx).
    destruct (iter_pos _ _ x); [exact I | exact V].
  Qed.
End SearchTerm.
