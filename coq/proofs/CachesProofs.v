From Coq Require Import ZArith List Bool Lia.
From VV Require Import model.Caches.
Import ListNotations.
Open Scope Z_scope.

Lemma lz_eqb_eq a b : lz_eqb a b = true <-> a = b.
Proof.
  revert b. induction a as [|x a IH]; intros [|y b]; cbn.
  - tauto.
  - split; discriminate.
  - split; discriminate.
  - rewrite andb_true_iff, Z.eqb_eq, IH. split; [intros [-> ->]; reflexivity | intros H; injection H; auto].
Qed.

Section MemoProofs.
  Variable fresh : list Z -> Z.
  Variable key : list Z -> list Z.

  (* invariant: every table entry is the fresh value of some request with that key *)
  Definition table_ok (t : list (list Z * Z)) : Prop :=
    forall k v, find t k = Some v -> exists r, key r = k /\ fresh r = v.

  Lemma find_cons t k0 v0 k :
    find ((k0, v0) :: t) k = if lz_eqb k0 k then Some v0 else find t k.
  Proof. reflexivity. Qed.

  (* if the key determines the request's fresh value, any history of requests is answered as if
     there were no store at all *)
  Theorem cache_transparent_lemma :
    (forall r1 r2, key r1 = key r2 -> fresh r1 = fresh r2) ->
    forall reqs t, table_ok t -> run fresh key t reqs = map fresh reqs.
  Proof.
    intros Hdet reqs. induction reqs as [|r rest IH]; intros t Hok; [reflexivity|].
    cbn [run map]. unfold step. destruct (find t (key r)) as [v|] eqn:Hf.
    - destruct (Hok _ _ Hf) as (r0 & Hk & Hv). rewrite IH by exact Hok.
      f_equal. rewrite <- Hv. apply Hdet. exact Hk.
    - rewrite IH; [reflexivity|].
      intros k v Hfind. rewrite find_cons in Hfind.
      destruct (lz_eqb (key r) k) eqn:He.
      + apply lz_eqb_eq in He. injection Hfind as <-. exists r. split; [exact He | reflexivity].
      + apply Hok. exact Hfind.
  Qed.

  (* conversely, two requests that collide on the key but differ in their fresh value give a
     history whose answer depends on what was asked before *)
  Theorem cache_collision_refutes_lemma :
    forall r1 r2, key r1 = key r2 -> fresh r1 <> fresh r2 ->
    run fresh key [] [r1; r2] <> map fresh [r1; r2].
  Proof.
    intros r1 r2 Hk Hne. cbn. unfold step. cbn [find].
    rewrite Hk. assert (He : lz_eqb (key r2) (key r2) = true) by (apply lz_eqb_eq; reflexivity).
    rewrite He. intros H. injection H as H. apply Hne. exact H.
  Qed.
End MemoProofs.

(* the address map: a history of address assignments trips the assertion exactly when some key is
   given two different addresses; in particular a key re-used across two compilations (an
   equivalence id derived from VALUES survives in the lru_cache of create_equivalence_id) with a
   different address in the second compilation *)
Lemma amap_find_after_set m id mt a m' i t :
  amap_set m id mt a = Some m' ->
  amap_find m' i t = if (id =? i) && (mt =? t) then Some a else amap_find m i t.
Proof.
  unfold amap_set. destruct (amap_find m id mt) as [a'|] eqn:Hf.
  - destruct (Z.eqb_spec a' a) as [->|]; [|discriminate]. intros H. injection H as <-.
    destruct ((id =? i) && (mt =? t)) eqn:He; [|reflexivity].
    apply andb_true_iff in He as [H1 H2]. apply Z.eqb_eq in H1, H2. subst. exact Hf.
  - intros H. injection H as <-. cbn [amap_find]. reflexivity.
Qed.

Theorem address_map_history_lemma :
  forall id mt a1 a2, a1 <> a2 -> amap_run [] [(id, mt, a1); (id, mt, a2)] = None.
Proof.
  intros id mt a1 a2 Hne. cbn. unfold amap_set at 1. cbn [amap_find].
  unfold amap_set. cbn [amap_find]. rewrite !Z.eqb_refl. cbn [andb].
  destruct (Z.eqb_spec a1 a2); [contradiction | reflexivity].
Qed.

Theorem address_map_consistent_lemma sets : forall m m',
  amap_run m sets = Some m' ->
  forall id mt a, In (id, mt, a) sets -> amap_find m' id mt = Some a.
Proof.
  induction sets as [|[[i t] a0] r IH]; intros m m' H id mt a Hin; [destruct Hin|].
  cbn [amap_run] in H. destruct (amap_set m i t a0) as [m1|] eqn:Hs; [|discriminate].
  destruct Hin as [Heq|Hin].
  - injection Heq as -> -> ->.
    (* the entry set now must survive the rest of the run *)
    assert (Hm1 : amap_find m1 id mt = Some a).
    { rewrite (amap_find_after_set m id mt a m1 id mt Hs). rewrite !Z.eqb_refl. reflexivity. }
    clear Hs IH. revert m1 H Hm1. induction r as [|[[i2 t2] a2] r IHr]; intros m1 H Hm1.
    + cbn in H. injection H as <-. exact Hm1.
    + cbn [amap_run] in H. destruct (amap_set m1 i2 t2 a2) as [m2|] eqn:Hs2; [|discriminate].
      apply (IHr m2 H). rewrite (amap_find_after_set m1 i2 t2 a2 m2 id mt Hs2).
      destruct ((i2 =? id) && (t2 =? mt)) eqn:He; [|exact Hm1].
      apply andb_true_iff in He as [H1 H2]. apply Z.eqb_eq in H1, H2. subst.
      unfold amap_set in Hs2. rewrite Hm1 in Hs2.
      destruct (Z.eqb_spec a a2) as [->|]; [reflexivity | discriminate].
  - apply (IH m1 m' H id mt a Hin).
Qed.
