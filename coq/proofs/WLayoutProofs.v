(* C08 -- proofs about coq/model/WLayout.v *)
From Coq Require Import ZArith List Bool Lia Permutation.
From VV Require Import lib.PyInt lib.Bits gen.GenWLayout model.WLayout.
Import ListNotations.
Open Scope Z_scope.

(* ================================================================== encode_bias *)
Lemma land255_range x : 0 <= Z.land x 255 < 256.
Proof.
  change 255 with (2 ^ 8 - 1). rewrite land_ones_mod by lia. change (2 ^ 8) with 256.
  apply Z.mod_pos_bound. lia.
Qed.
Lemma land63_range x : 0 <= Z.land x 63 < 64.
Proof.
  change 63 with (2 ^ 6 - 1). rewrite land_ones_mod by lia. change (2 ^ 6) with 64.
  apply Z.mod_pos_bound. lia.
Qed.

Lemma gen_encode_bias_eq bias scale shift :
  GenWLayout.encode_bias bias scale shift = encode_bias bias scale shift.
Proof.
  unfold GenWLayout.encode_bias, encode_bias, byte_at.
  change (Z.shiftl 1 (Z.sub 40 1)) with 549755813888. change (Z.opp 549755813888) with (-549755813888).
  change (Z.shiftl 1 32) with 4294967296. change (Z.shiftl 1 6) with 64.
  destruct ((-549755813888 <=? bias) && (bias <? 549755813888)); [|reflexivity].
  destruct ((0 <=? scale) && (scale <? 4294967296)); [|reflexivity].
  destruct ((0 <=? shift) && (shift <? 64)); [|reflexivity].
  pose proof (land63_range shift) as Hs.
  assert (Hb : forall k, 0 <= Z.land (Z.shiftr bias k) 255 < 256) by (intro; apply land255_range).
  assert (Hc : forall k, 0 <= Z.land (Z.shiftr scale k) 255 < 256) by (intro; apply land255_range).
  generalize dependent (Z.land shift 63). intros s9 Hs.
  pose proof (Hb (0 * 8)) as H0; pose proof (Hb (1 * 8)) as H1; pose proof (Hb (2 * 8)) as H2;
    pose proof (Hb (3 * 8)) as H3; pose proof (Hb (4 * 8)) as H4.
  pose proof (Hc (0 * 8)) as H5; pose proof (Hc (1 * 8)) as H6; pose proof (Hc (2 * 8)) as H7;
    pose proof (Hc (3 * 8)) as H8. clear Hb Hc.
  generalize dependent (Z.land (Z.shiftr bias (0 * 8)) 255). intros b0 H0.
  generalize dependent (Z.land (Z.shiftr bias (1 * 8)) 255). intros b1 H1.
  generalize dependent (Z.land (Z.shiftr bias (2 * 8)) 255). intros b2 H2.
  generalize dependent (Z.land (Z.shiftr bias (3 * 8)) 255). intros b3 H3.
  generalize dependent (Z.land (Z.shiftr bias (4 * 8)) 255). intros b4 H4.
  generalize dependent (Z.land (Z.shiftr scale (0 * 8)) 255). intros b5 H5.
  generalize dependent (Z.land (Z.shiftr scale (1 * 8)) 255). intros b6 H6.
  generalize dependent (Z.land (Z.shiftr scale (2 * 8)) 255). intros b7 H7.
  generalize dependent (Z.land (Z.shiftr scale (3 * 8)) 255). intros b8 H8.
  assert (G : forall x, 0 <= x < 256 -> (Z.leb 0 x) = true /\ (Z.ltb x 256) = true).
  { intros x Hx. split; [apply Z.leb_le | apply Z.ltb_lt]; lia. }
  assert (G9 : (Z.leb 0 s9) = true /\ (Z.ltb s9 256) = true).
  { split; [apply Z.leb_le | apply Z.ltb_lt]; lia. }
  destruct (G _ H0) as [-> ->]. destruct (G _ H1) as [-> ->]. destruct (G _ H2) as [-> ->].
  destruct (G _ H3) as [-> ->]. destruct (G _ H4) as [-> ->]. destruct (G _ H5) as [-> ->].
  destruct (G _ H6) as [-> ->]. destruct (G _ H7) as [-> ->]. destruct (G _ H8) as [-> ->].
  destruct G9 as [-> ->].
  vm_compute. reflexivity.
Qed.

Lemma byte_at_div x k : 0 <= k -> byte_at x k = (x / 2 ^ (k * 8)) mod 256.
Proof.
  intro Hk. unfold byte_at. change 255 with (2 ^ 8 - 1). rewrite land_ones_mod by lia.
  rewrite shiftr_div by lia. reflexivity.
Qed.

Lemma le_bytes5 x : 0 <= x < 1099511627776 ->
  le_bytes [byte_at x 0; byte_at x 1; byte_at x 2; byte_at x 3; byte_at x 4] = x.
Proof.
  intro Hx. rewrite !byte_at_div by lia. unfold le_bytes, fold_right.
  change (2 ^ (0 * 8)) with 1. change (2 ^ (1 * 8)) with 256. change (2 ^ (2 * 8)) with 65536.
  change (2 ^ (3 * 8)) with 16777216. change (2 ^ (4 * 8)) with 4294967296.
  Z.div_mod_to_equations. lia.
Qed.

Lemma le_bytes5_mod x :
  le_bytes [byte_at x 0; byte_at x 1; byte_at x 2; byte_at x 3; byte_at x 4] = x mod 1099511627776.
Proof.
  rewrite !byte_at_div by lia. unfold le_bytes, fold_right.
  change (2 ^ (0 * 8)) with 1. change (2 ^ (1 * 8)) with 256. change (2 ^ (2 * 8)) with 65536.
  change (2 ^ (3 * 8)) with 16777216. change (2 ^ (4 * 8)) with 4294967296.
  Z.div_mod_to_equations. lia.
Qed.

Lemma le_bytes4 x : 0 <= x < 4294967296 ->
  le_bytes [byte_at x 0; byte_at x 1; byte_at x 2; byte_at x 3] = x.
Proof.
  intro Hx. rewrite !byte_at_div by lia. unfold le_bytes, fold_right.
  change (2 ^ (0 * 8)) with 1. change (2 ^ (1 * 8)) with 256. change (2 ^ (2 * 8)) with 65536.
  change (2 ^ (3 * 8)) with 16777216.
  Z.div_mod_to_equations. lia.
Qed.

Definition bias_ok (b : Z) : Prop := -549755813888 <= b < 549755813888.
Definition scale_ok (s : Z) : Prop := 0 <= s < 4294967296.
Definition shift_ok (s : Z) : Prop := 0 <= s < 64.
Definition is_byte (b : Z) : Prop := 0 <= b < 256.

Lemma encode_bias_some b s sh :
  bias_ok b -> scale_ok s -> shift_ok sh ->
  encode_bias b s sh = Some [byte_at b 0; byte_at b 1; byte_at b 2; byte_at b 3; byte_at b 4;
                             byte_at s 0; byte_at s 1; byte_at s 2; byte_at s 3; Z.land sh 63].
Proof.
  unfold bias_ok, scale_ok, shift_ok, encode_bias. intros.
  replace ((-549755813888 <=? b) && (b <? 549755813888)) with true by (symmetry; apply andb_true_iff; split; [apply Z.leb_le | apply Z.ltb_lt]; lia).
  replace ((0 <=? s) && (s <? 4294967296)) with true by (symmetry; apply andb_true_iff; split; [apply Z.leb_le | apply Z.ltb_lt]; lia).
  replace ((0 <=? sh) && (sh <? 64)) with true by (symmetry; apply andb_true_iff; split; [apply Z.leb_le | apply Z.ltb_lt]; lia).
  reflexivity.
Qed.

Lemma encode_bias_inv b s sh bs :
  encode_bias b s sh = Some bs ->
  bias_ok b /\ scale_ok s /\ shift_ok sh /\
  bs = [byte_at b 0; byte_at b 1; byte_at b 2; byte_at b 3; byte_at b 4;
        byte_at s 0; byte_at s 1; byte_at s 2; byte_at s 3; Z.land sh 63].
Proof.
  unfold encode_bias, bias_ok, scale_ok, shift_ok.
  destruct (Z.leb_spec (-549755813888) b); destruct (Z.ltb_spec b 549755813888); cbn [andb]; try discriminate.
  destruct (Z.leb_spec 0 s); destruct (Z.ltb_spec s 4294967296); cbn [andb]; try discriminate.
  destruct (Z.leb_spec 0 sh); destruct (Z.ltb_spec sh 64); cbn [andb]; try discriminate.
  intro E. inversion E. repeat split; lia.
Qed.

Lemma land63_small sh : shift_ok sh -> Z.land sh 63 = sh.
Proof.
  intro H. change 63 with (2 ^ 6 - 1). rewrite land_ones_mod by lia. apply Z.mod_small. exact H.
Qed.

(* bias in signed 40 bits, scale in unsigned 32 bits, shift in 6 bits <-> 10 bytes; anything else is rejected *)
Lemma encode_bias_roundtrip_lemma b s sh :
  (bias_ok b /\ scale_ok s /\ shift_ok sh ->
     exists bs, encode_bias b s sh = Some bs /\ length bs = 10%nat /\ Forall is_byte bs /\
                nth 9 bs 0 < 64 /\ decode_bias bs = Some (b, s, sh)) /\
  (~ (bias_ok b /\ scale_ok s /\ shift_ok sh) -> encode_bias b s sh = None).
Proof.
  split.
  - intros (Hb & Hs & Hh). eexists. split; [apply encode_bias_some; assumption|].
    split; [reflexivity|]. split.
    + unfold is_byte, byte_at. repeat constructor; try apply land255_range.
      all: rewrite land63_small by assumption; unfold shift_ok in Hh; lia.
    + split. { cbn [nth]. rewrite land63_small by assumption. unfold shift_ok in Hh. lia. }
      unfold decode_bias. rewrite le_bytes5_mod, le_bytes4 by exact Hs.
      rewrite land63_small by (apply land63_range || (rewrite land63_small by assumption; assumption)).
      rewrite land63_small by assumption.
      f_equal. f_equal. f_equal. unfold bias_ok in Hb.
      destruct (Z.ltb_spec (b mod 1099511627776) 549755813888); Z.div_mod_to_equations; lia.
  - intro N. destruct (encode_bias b s sh) eqn:E; [|reflexivity].
    apply encode_bias_inv in E. exfalso. apply N. tauto.
Qed.

(* two different in-range triples never share a record *)
Lemma encode_bias_injective b s sh b' s' sh' bs :
  encode_bias b s sh = Some bs -> encode_bias b' s' sh' = Some bs -> (b, s, sh) = (b', s', sh').
Proof.
  intros E1 E2.
  pose proof (encode_bias_inv _ _ _ _ E1) as (B1 & S1 & H1 & _).
  pose proof (encode_bias_inv _ _ _ _ E2) as (B2 & S2 & H2 & _).
  destruct (proj1 (encode_bias_roundtrip_lemma b s sh) (conj B1 (conj S1 H1))) as (x & Ex & _ & _ & _ & D1).
  destruct (proj1 (encode_bias_roundtrip_lemma b' s' sh') (conj B2 (conj S2 H2))) as (y & Ey & _ & _ & _ & D2).
  congruence.
Qed.

Lemma encode_bias_length b s sh bs : encode_bias b s sh = Some bs -> zlen bs = 10.
Proof. intro E. apply encode_bias_inv in E. destruct E as (_ & _ & _ & ->). reflexivity. Qed.

(* ================================================================== Python slices as arithmetic progressions *)
Require Import Sorted.

Lemma zlen_app {A} (a b : list A) : zlen (a ++ b) = zlen a + zlen b.
Proof. unfold zlen. rewrite app_length. lia. Qed.
Lemma zlen_nonneg {A} (a : list A) : 0 <= zlen a.
Proof. unfold zlen. lia. Qed.
Lemma zlen_cons {A} (x : A) l : zlen (x :: l) = 1 + zlen l.
Proof. unfold zlen. cbn [length]. lia. Qed.
Lemma zlen_nil {A} : zlen (@nil A) = 0.
Proof. reflexivity. Qed.

Lemma range_len_pos lo hi st : 0 < st -> range_len lo hi st = Z.max 0 ((hi - lo + st - 1) / st).
Proof.
  intro H. unfold range_len. destruct (Z.gtb_spec st 0); [reflexivity | lia].
Qed.

Lemma In_zrange c lo hi st : 0 < st ->
  (In c (zrange lo hi st) <-> lo <= c < hi /\ (c - lo) mod st = 0).
Proof.
  intro Hst. unfold zrange. rewrite in_map_iff, range_len_pos by assumption. split.
  - intros (k & <- & Hk). apply in_seq in Hk. destruct Hk as [_ Hk]. cbn [plus] in Hk.
    assert (Hk' : Z.of_nat k < Z.max 0 ((hi - lo + st - 1) / st)) by lia.
    assert (Hq : st * ((hi - lo + st - 1) / st) <= hi - lo + st - 1) by (apply Z.mul_div_le; lia).
    split.
    + split; [nia|]. assert (Z.of_nat k + 1 <= (hi - lo + st - 1) / st) by lia. nia.
    + replace (lo + Z.of_nat k * st - lo) with (Z.of_nat k * st) by lia. apply Z_mod_mult.
  - intros ((Hlo & Hhi) & Hm). apply Z.mod_divide in Hm; [|lia]. destruct Hm as (q & Hq).
    assert (0 <= q) by nia.
    exists (Z.to_nat q). split; [rewrite Z2Nat.id by lia; lia|].
    apply in_seq. split; [lia|]. cbn [plus].
    assert (q + 1 <= (hi - lo + st - 1) / st) by (apply Z.div_le_lower_bound; nia).
    lia.
Qed.

Lemma zrange_sorted lo hi st : 0 < st -> StronglySorted Z.lt (zrange lo hi st).
Proof.
  intro Hst. unfold zrange. generalize (Z.to_nat (range_len lo hi st)) as n. generalize 0%nat as a.
  intros a n. revert a. induction n as [|n IH]; intro a; cbn [seq map]; constructor.
  - apply IH.
  - apply Forall_forall. intros x Hx. apply in_map_iff in Hx. destruct Hx as (k & <- & Hk).
    apply in_seq in Hk. nia.
Qed.

Lemma sorted_ext (l1 l2 : list Z) :
  StronglySorted Z.lt l1 -> StronglySorted Z.lt l2 -> (forall x, In x l1 <-> In x l2) -> l1 = l2.
Proof.
  revert l2. induction l1 as [|a l1 IH]; intros l2 S1 S2 E.
  - destruct l2 as [|b l2]; [reflexivity|]. exfalso. apply (proj2 (E b)). left. reflexivity.
  - destruct l2 as [|b l2]. { exfalso. apply (proj1 (E a)). left. reflexivity. }
    inversion S1 as [|? ? S1' F1]; subst. inversion S2 as [|? ? S2' F2]; subst.
    rewrite Forall_forall in F1, F2.
    assert (a = b).
    { destruct (proj1 (E a) (or_introl eq_refl)) as [<-|Ha]; [reflexivity|].
      destruct (proj2 (E b) (or_introl eq_refl)) as [<-|Hb]; [reflexivity|].
      specialize (F1 _ Hb). specialize (F2 _ Ha). lia. }
    subst b. f_equal. apply IH; try assumption.
    intro x. split; intro Hx.
    + destruct (proj1 (E x) (or_intror Hx)) as [<-|H]; [|exact H]. specialize (F1 _ Hx). lia.
    + destruct (proj2 (E x) (or_intror Hx)) as [<-|H]; [|exact H]. specialize (F2 _ Hx). lia.
Qed.

Lemma filter_sorted (p : Z -> bool) l : StronglySorted Z.lt l -> StronglySorted Z.lt (filter p l).
Proof.
  induction 1 as [|a l S IH F]; cbn [filter]; [constructor|].
  destruct (p a); [|exact IH]. constructor; [exact IH|].
  rewrite Forall_forall in *. intros x Hx. apply filter_In in Hx. apply F. tauto.
Qed.

Lemma sorted_NoDup l : StronglySorted Z.lt l -> NoDup l.
Proof.
  induction 1 as [|a l S IH F]; constructor; [|exact IH].
  intro Hin. rewrite Forall_forall in F. specialize (F _ Hin). lia.
Qed.

Lemma In_zseq c lo n : In c (zseq lo n) <-> lo <= c < lo + n.
Proof.
  unfold zseq. rewrite In_zrange by lia. rewrite Z.mod_1_r. tauto.
Qed.
Lemma zseq_sorted lo n : StronglySorted Z.lt (zseq lo n).
Proof. apply zrange_sorted. lia. Qed.

Lemma In_spec_channels nc core d len c :
  In c (spec_channels nc (core, d, len)) <-> d <= c < d + len /\ (c - d) mod nc = core.
Proof.
  unfold spec_channels. rewrite filter_In, In_zseq, Z.eqb_eq. tauto.
Qed.

(* the Python slice [d+core : d+core+len : ncores] of a list of N elements selects the channels the property assigns
   to (core, [d, d+len)) provided the slice ends at the end of the list or its length is a multiple of the core count *)
Lemma code_channels_spec nc n core d len :
  0 < nc -> 0 <= core < nc -> 0 <= d -> 0 <= len -> d + len <= n ->
  (len mod nc = 0 \/ d + len = n) ->
  code_channels nc n (core, d, len) = spec_channels nc (core, d, len).
Proof.
  intros Hnc Hcore Hd Hlen Hn Hhyp.
  apply sorted_ext.
  - unfold code_channels, slice_idx. apply zrange_sorted. exact Hnc.
  - unfold spec_channels. apply filter_sorted, zseq_sorted.
  - intro c. rewrite In_spec_channels. unfold code_channels, slice_idx. rewrite In_zrange by exact Hnc.
    unfold py_norm.
    destruct (Z.ltb_spec (d + core) 0); [lia|]. destruct (Z.ltb_spec (d + core + len) 0); [lia|].
    split.
    + intros ((Hlo & Hhi) & Hm).
      assert (Hlt : d + core < n) by lia.
      rewrite Z.min_l in Hlo, Hm by lia.
      apply Z.mod_divide in Hm; [|lia]. destruct Hm as (q & Hq).
      assert (0 <= q) by nia.
      assert (Hmod : (c - d) mod nc = core).
      { replace (c - d) with (core + q * nc) by lia. rewrite Z_mod_plus_full. apply Z.mod_small. lia. }
      split; [|exact Hmod]. split; [lia|].
      destruct Hhyp as [Hmul | Hend]; [|lia].
      apply Z.mod_divide in Hmul; [|lia]. destruct Hmul as (m & Hm).
      assert (q < m) by nia. nia.
    + intros ((Hlo & Hhi) & Hm).
      assert (Hdm := Z.div_mod (c - d) nc ltac:(lia)). rewrite Hm in Hdm.
      assert (0 <= (c - d) / nc) by (apply Z.div_pos; lia).
      assert (d + core <= c) by nia.
      rewrite Z.min_l by lia. split; [lia|].
      replace (c - (d + core)) with (((c - d) / nc) * nc) by lia. apply Z_mod_mult.
Qed.

(* the witness of DESIGN.md: two cores, slices [0,3) and [3,8) of 8 channels: core 1 of the first slice takes channel 3 *)
Lemma scales_odd_slice_refuted_lemma :
  code_channels 2 8 (1, 0, 3) = [1; 3] /\ spec_channels 2 (1, 0, 3) = [1] /\
  count_occ Z.eq_dec (flat_map (code_channels 2 8) (sections 2 8 16 [0; 3; 8])) 3 = 2%nat.
Proof. vm_compute. repeat split. Qed.

(* ---- every channel exactly once *)
Lemma count_occ_filter (p : Z -> bool) l c :
  count_occ Z.eq_dec (filter p l) c = if p c then count_occ Z.eq_dec l c else 0%nat.
Proof.
  induction l as [|a l IH]; cbn [filter count_occ]; [destruct (p c); reflexivity|].
  destruct (p a) eqn:Pa; cbn [count_occ]; destruct (Z.eq_dec a c) as [->|N]; rewrite IH; try rewrite Pa; try reflexivity.
Qed.

Lemma count_occ_flat_map {A} (f : A -> list Z) l c :
  count_occ Z.eq_dec (flat_map f l) c = fold_right (fun a n => (count_occ Z.eq_dec (f a) c + n)%nat) 0%nat l.
Proof.
  induction l as [|a l IH]; cbn [flat_map fold_right]; [reflexivity|].
  rewrite count_occ_app, IH. reflexivity.
Qed.

Lemma count_key_partition (key : Z -> Z) (L cs : list Z) c :
  NoDup cs ->
  count_occ Z.eq_dec (flat_map (fun core => filter (fun x => key x =? core) L) cs) c =
  if in_dec Z.eq_dec (key c) cs then count_occ Z.eq_dec L c else 0%nat.
Proof.
  induction 1 as [|a cs Hna Hnd IH]; cbn [flat_map]; [reflexivity|].
  rewrite count_occ_app, IH, count_occ_filter.
  destruct (Z.eqb_spec (key c) a) as [E|E].
  - destruct (in_dec Z.eq_dec (key c) cs) as [I|I]; [subst a; contradiction|].
    destruct (in_dec Z.eq_dec (key c) (a :: cs)) as [J|J]; [lia|]. exfalso. apply J. left. auto.
  - destruct (in_dec Z.eq_dec (key c) cs) as [I|I]; destruct (in_dec Z.eq_dec (key c) (a :: cs)) as [J|J]; try reflexivity.
    + exfalso. apply J. right. exact I.
    + destruct J as [J|J]; [congruence|contradiction].
Qed.

Lemma count_occ_zseq d len c :
  count_occ Z.eq_dec (zseq d len) c = if (d <=? c) && (c <? d + len) then 1%nat else 0%nat.
Proof.
  destruct (Z.leb_spec d c); destruct (Z.ltb_spec c (d + len)); cbn [andb].
  - apply NoDup_count_occ'; [apply sorted_NoDup, zseq_sorted|]. apply In_zseq. lia.
  - apply count_occ_not_In. rewrite In_zseq. lia.
  - apply count_occ_not_In. rewrite In_zseq. lia.
  - apply count_occ_not_In. rewrite In_zseq. lia.
Qed.

Lemma flat_map_flat_map {A B C} (f : B -> list C) (g : A -> list B) l :
  flat_map f (flat_map g l) = flat_map (fun x => flat_map f (g x)) l.
Proof.
  induction l as [|a l IH]; cbn [flat_map]; [reflexivity|]. rewrite flat_map_app, IH. reflexivity.
Qed.
Lemma flat_map_map {A B C} (f : B -> list C) (g : A -> B) l :
  flat_map f (map g l) = flat_map (fun x => f (g x)) l.
Proof. induction l as [|a l IH]; cbn [flat_map map]; [reflexivity|]. rewrite IH. reflexivity. Qed.

Lemma core_block_depth_active nc bd c : 0 < nc -> nc <= bd -> 0 <= c < nc -> core_block_depth nc bd c <> 0.
Proof.
  intros. unfold core_block_depth.
  assert (1 <= (bd + nc - 1 - c) / nc) by (apply Z.div_le_lower_bound; lia). lia.
Qed.

Lemma active_cores_all nc n bd : 0 < nc -> nc <= bd -> active_cores nc n bd = zseq 0 (Z.min nc n).
Proof.
  intros Hnc Hbd. unfold active_cores, cores.
  apply sorted_ext; [apply filter_sorted, zseq_sorted | apply zseq_sorted |].
  intro x. rewrite filter_In, In_zseq. split; [tauto|]. intro H. split; [exact H|].
  apply negb_true_iff. apply Z.eqb_neq. apply core_block_depth_active; lia.
Qed.

Lemma active_cores_NoDup nc n bd : NoDup (active_cores nc n bd).
Proof. apply sorted_NoDup. unfold active_cores, cores. apply filter_sorted, zseq_sorted. Qed.

Lemma In_active_cores nc n bd c : In c (active_cores nc n bd) -> 0 <= c < nc /\ c < n.
Proof. unfold active_cores, cores. rewrite filter_In, In_zseq. lia. Qed.

Definition in_slice (p : Z * Z) (c : Z) : bool := (fst p <=? c) && (c <? fst p + snd p).

Lemma slice_count nc n bd p c :
  0 < nc -> nc <= bd -> snd p <= n ->
  count_occ Z.eq_dec (flat_map (spec_channels nc) (slice_sections nc n bd p)) c =
  if in_slice p c then 1%nat else 0%nat.
Proof.
  intros Hnc Hbd Hlen. destruct p as [d len]. unfold slice_sections. cbn [fst snd] in *.
  rewrite flat_map_map. unfold spec_channels.
  rewrite (count_key_partition (fun x => (x - d) mod nc) (zseq d len) (active_cores nc n bd) c (active_cores_NoDup nc n bd)).
  rewrite count_occ_zseq. unfold in_slice. cbn [fst snd].
  destruct ((d <=? c) && (c <? d + len)) eqn:E; [|destruct (in_dec _ _ _); reflexivity].
  apply andb_true_iff in E. destruct E as [E1 E2]. apply Z.leb_le in E1. apply Z.ltb_lt in E2.
  destruct (in_dec Z.eq_dec ((c - d) mod nc) (active_cores nc n bd)) as [I|I]; [reflexivity|].
  exfalso. apply I. rewrite active_cores_all by assumption. apply In_zseq.
  pose proof (Z.mod_pos_bound (c - d) nc Hnc). pose proof (Z.mod_le (c - d) nc ltac:(lia) Hnc). lia.
Qed.

Lemma slice_pairs_cons a b t : slice_pairs (a :: b :: t) = (a, b - a) :: slice_pairs (b :: t).
Proof. reflexivity. Qed.

Lemma strictly_increasing_cons a b t : strictly_increasing (a :: b :: t) <-> a < b /\ strictly_increasing (b :: t).
Proof. reflexivity. Qed.

Lemma strictly_increasing_last a t : strictly_increasing (a :: t) -> a <= last (a :: t) 0.
Proof.
  revert a. induction t as [|b t IH]; intros a H; [cbn; lia|].
  apply strictly_increasing_cons in H. destruct H as [Hab H]. specialize (IH _ H).
  change (last (a :: b :: t) 0) with (last (b :: t) 0). lia.
Qed.

(* facts about every slice of a strictly increasing list *)
Lemma slice_pairs_bounds offs p :
  strictly_increasing offs -> In p (slice_pairs offs) -> hd 0 offs <= fst p /\ 0 < snd p /\ fst p + snd p <= last offs 0.
Proof.
  induction offs as [|a t IH]; [intros _ []|].
  destruct t as [|b t]; [intros _ []|].
  intros H Hin. apply strictly_increasing_cons in H. destruct H as [Hab H].
  rewrite slice_pairs_cons in Hin. change (last (a :: b :: t) 0) with (last (b :: t) 0).
  pose proof (strictly_increasing_last _ _ H). cbn [hd].
  destruct Hin as [<-|Hin]; cbn [fst snd]; [lia|].
  specialize (IH H Hin). cbn [hd] in IH. lia.
Qed.

Lemma pairs_count offs c :
  strictly_increasing offs -> offs <> [] ->
  fold_right (fun p k => ((if in_slice p c then 1 else 0) + k)%nat) 0%nat (slice_pairs offs) =
  if (hd 0 offs <=? c) && (c <? last offs 0) then 1%nat else 0%nat.
Proof.
  induction offs as [|a t IH]; [congruence|]. intros H _.
  destruct t as [|b t].
  - cbn [slice_pairs fold_right hd last]. destruct (Z.leb_spec a c); destruct (Z.ltb_spec c a); cbn [andb]; try reflexivity; lia.
  - apply strictly_increasing_cons in H. destruct H as [Hab H].
    rewrite slice_pairs_cons. cbn [fold_right]. rewrite (IH H ltac:(congruence)).
    change (last (a :: b :: t) 0) with (last (b :: t) 0). cbn [hd]. unfold in_slice. cbn [fst snd].
    pose proof (strictly_increasing_last _ _ H).
    destruct (Z.leb_spec a c); destruct (Z.ltb_spec c (a + (b - a))); destruct (Z.leb_spec b c);
      destruct (Z.ltb_spec c (last (b :: t) 0)); cbn [andb]; try reflexivity; lia.
Qed.

(* every channel of [hd offs, last offs) is in exactly one section, exactly once *)
Lemma channels_exactly_once nc n bd offs c :
  0 < nc -> nc <= bd -> strictly_increasing offs -> offs <> [] -> 0 <= hd 0 offs -> last offs 0 <= n ->
  count_occ Z.eq_dec (flat_map (spec_channels nc) (sections nc n bd offs)) c =
  if (hd 0 offs <=? c) && (c <? last offs 0) then 1%nat else 0%nat.
Proof.
  intros Hnc Hbd Hs Hne Hhd Hlast. unfold sections. rewrite flat_map_flat_map, count_occ_flat_map.
  rewrite <- (pairs_count offs c Hs Hne).
  assert (B : forall p, In p (slice_pairs offs) -> snd p <= n).
  { intros p Hp. pose proof (slice_pairs_bounds _ _ Hs Hp). lia. }
  induction (slice_pairs offs) as [|p ps IH]; cbn [fold_right]; [reflexivity|].
  rewrite slice_count by (try assumption; apply B; left; reflexivity).
  rewrite IH by (intros q Hq; apply B; right; exact Hq). reflexivity.
Qed.

(* ================================================================== the slice / core loop *)
Lemma round_up_16_mod a : round_up a 16 mod 16 = 0.
Proof. unfold round_up. apply Z_mod_mult. Qed.
Lemma round_up_16_bounds a : a <= round_up a 16 < a + 16.
Proof. unfold round_up. Z.div_mod_to_equations. lia. Qed.
Lemma round_up_16_add k a : k mod 16 = 0 -> round_up (k + a) 16 = k + round_up a 16.
Proof. unfold round_up. intro H. Z.div_mod_to_equations. lia. Qed.
Lemma round_up_16_id a : a mod 16 = 0 -> round_up a 16 = a.
Proof. unfold round_up. intro H. Z.div_mod_to_equations. lia. Qed.

Lemma zlen_repeat {A} (x : A) n : zlen (repeat x n) = Z.of_nat n.
Proof. unfold zlen. rewrite repeat_length. reflexivity. Qed.

Lemma pad16_spec s : exists z, pad16 s = s ++ z /\ zlen (pad16 s) = round_up (zlen s) 16.
Proof.
  unfold pad16. pose proof (zlen_nonneg s).
  destruct (Z.gtb_spec (zlen s mod 16) 0).
  - eexists. split; [reflexivity|]. rewrite zlen_app, zlen_repeat. unfold round_up.
    rewrite Z2Nat.id by (Z.div_mod_to_equations; lia). Z.div_mod_to_equations. lia.
  - exists []. rewrite app_nil_r. split; [reflexivity|]. symmetry. apply round_up_16_id.
    pose proof (Z.mod_pos_bound (zlen s) 16). lia.
Qed.

Lemma sub_app_l s x off n : 0 <= off -> 0 <= n -> off + n <= zlen s -> sub (s ++ x) off n = sub s off n.
Proof.
  intros Ho Hn Hle. unfold sub, zlen in *.
  rewrite skipn_app. rewrite firstn_app.
  replace (Z.to_nat n - length (skipn (Z.to_nat off) s))%nat with 0%nat by (rewrite skipn_length; lia).
  cbn [firstn]. apply app_nil_r.
Qed.

Lemma sub_mid a b c : sub (a ++ b ++ c) (zlen a) (zlen b) = b.
Proof.
  unfold sub, zlen. rewrite !Nat2Z.id. rewrite skipn_app, skipn_all, Nat.sub_diag. cbn [skipn app].
  rewrite firstn_app, firstn_all, Nat.sub_diag. cbn [firstn]. apply app_nil_r.
Qed.

Lemma sub_end a b : sub (a ++ b) (zlen a) (zlen b) = b.
Proof. rewrite <- (app_nil_r b) at 1. apply sub_mid. Qed.

Lemma total_ext_app a b : total_ext (a ++ b) = total_ext a + total_ext b.
Proof. unfold total_ext. induction a as [|x a IH]; cbn [app fold_right]; [lia|]. rewrite IH. lia. Qed.

Lemma total_ext_cons r a : total_ext (r :: a) = ext r + total_ext a.
Proof. reflexivity. Qed.

Fixpoint chain (start idx : Z) (rs : list wrange) : Prop :=
  match rs with
  | [] => True
  | r :: t => r_offset r = start /\ r_index r = idx /\ chain (start + ext r) (idx + 1) t
  end.

Lemma chain_snoc start idx l x :
  chain start idx (l ++ [x]) <-> chain start idx l /\ r_offset x = start + total_ext l /\ r_index x = idx + zlen l.
Proof.
  revert start idx. induction l as [|r l IH]; intros start idx; cbn [app chain].
  - change (zlen (@nil wrange)) with 0. unfold total_ext. cbn [fold_right]. split.
    + intros (A & B & _). repeat split; lia.
    + intros (_ & A & B). repeat split; lia.
  - rewrite IH, total_ext_cons, zlen_cons. split.
    + intros (A & B & C & D & E). repeat split; try assumption; lia.
    + intros ((A & B & C) & D & E). repeat split; try assumption; lia.
Qed.

Lemma od_set_fresh rs x :
  (forall r, In r rs -> ~ (r_core r = r_core x /\ r_depth r = r_depth x)) -> od_set rs x = rs ++ [x].
Proof.
  induction rs as [|r rs IH]; intro H; cbn [od_set app]; [reflexivity|].
  unfold key_eqb.
  destruct (Z.eqb_spec (r_core r) (r_core x)); destruct (Z.eqb_spec (r_depth r) (r_depth x)); cbn [andb].
  - exfalso. apply (H r); [left; reflexivity | split; assumption].
  - f_equal. apply IH. intros. apply H. right. assumption.
  - f_equal. apply IH. intros. apply H. right. assumption.
  - f_equal. apply IH. intros. apply H. right. assumption.
Qed.

Lemma scale_stream_length cb cs ss : scale_stream cb cs = Some ss -> zlen ss = 10 * zlen cb.
Proof.
  revert cs ss. induction cb as [|b cb IH]; intros cs ss; cbn [scale_stream].
  - intro E. inversion E. reflexivity.
  - destruct cs as [|[m sh] cs]; [discriminate|].
    destruct (encode_bias b m sh) eqn:Eb; [|discriminate].
    destruct (scale_stream cb cs) eqn:Es; [|discriminate].
    intro E. inversion E. rewrite zlen_app, zlen_cons, (IH _ _ Es), (encode_bias_length _ _ _ _ Eb). lia.
Qed.

Lemma Forall2_imp {A B} (P Q : A -> B -> Prop) l1 l2 :
  (forall a b, P a b -> Q a b) -> Forall2 P l1 l2 -> Forall2 Q l1 l2.
Proof. intros H F. induction F; constructor; auto. Qed.

Section LayoutProofs.
  Variable enc : Z -> Z -> Z -> Z -> list Z.
  Variables (nc n bd : Z) (do_w : bool) (biases : list Z) (qs : list (Z * Z)).

  Definition sec_scales (sec : Z * Z * Z) : option (list Z) :=
    let '(core, d, len) := sec in
    scale_stream (py_slice biases (d + core) (d + core + len) nc) (py_slice qs (d + core) (d + core + len) nc).

  Definition sec_weights (sec : Z * Z * Z) : list Z :=
    let '(core, d, len) := sec in enc core d len (core_block_depth nc bd core).

  (* what holds of one range r of section sec in a stream *)
  Definition range_ok (stream : list Z) (r : wrange) (sec : Z * Z * Z) : Prop :=
    r_core r = fst (fst sec) /\ r_depth r = snd (fst sec) /\ 0 <= r_offset r /\ r_offset r mod 16 = 0 /\
    r_offset r + ext r <= zlen stream /\ r_weight_bytes r mod 16 = 0 /\ 0 <= r_weight_bytes r /\
    (exists ss, sec_scales sec = Some ss /\ r_scale_bytes r = zlen ss /\ sub stream (r_offset r) (zlen ss) = ss) /\
    (if do_w then
       r_weight_offset r = round_up (r_scale_bytes r) 16 /\
       r_weight_bytes r = zlen (sec_weights sec) /\
       sub stream (r_offset r + r_weight_offset r) (r_weight_bytes r) = sec_weights sec
     else r_weight_offset r = 0 /\ r_weight_bytes r = 0).

  Lemma range_ok_app stream x r sec : range_ok stream r sec -> range_ok (stream ++ x) r sec.
  Proof.
    unfold range_ok. intros (A & B & C & D & E & F & F' & (ss & G1 & G2 & G3) & H).
    pose proof (round_up_16_bounds (r_scale_bytes r)) as RB. pose proof (zlen_nonneg ss) as Zs.
    pose proof (zlen_nonneg x) as Zx. unfold ext in *.
    repeat split; try assumption.
    - rewrite zlen_app. lia.
    - exists ss. repeat split; try assumption. rewrite sub_app_l; try assumption; lia.
    - destruct do_w; [|exact H]. destruct H as (W1 & W2 & W3). repeat split; try assumption.
      rewrite sub_app_l; try assumption; lia.
  Qed.

  Definition good (s : st) (secs : list (Z * Z * Z)) : Prop :=
    Forall2 (range_ok (s_stream s)) (s_ranges s) secs /\ chain 0 0 (s_ranges s) /\
    zlen (s_stream s) = total_ext (s_ranges s) /\ s_index s = zlen (s_ranges s) /\ zlen (s_stream s) mod 16 = 0.

  Lemma core_step_spec d len core s secs s' :
    good s secs ->
    (forall r, In r (s_ranges s) -> ~ (r_core r = core /\ r_depth r = d)) ->
    core_step enc nc bd do_w biases qs d len core s = Some s' ->
    (core_block_depth nc bd core = 0 /\ s' = s) \/
    (core_block_depth nc bd core <> 0 /\ good s' (secs ++ [(core, d, len)]) /\
     exists r x, s_ranges s' = s_ranges s ++ [r] /\ r_core r = core /\ r_depth r = d /\ s_stream s' = s_stream s ++ x).
  Proof.
    intros (G1 & G2 & G3 & G4 & G5) Hfresh. unfold core_step.
    destruct (Z.eqb_spec (core_block_depth nc bd core) 0) as [E0|E0].
    { intro E. inversion E. left. split; [assumption|reflexivity]. }
    destruct (scale_stream (py_slice biases (d + core) (d + core + len) nc) (py_slice qs (d + core) (d + core + len) nc))
      as [ss|] eqn:Ess; [|discriminate].
    destruct (pad16_spec (s_stream s ++ ss)) as (z & Hz & Hzl).
    rewrite zlen_app in Hzl. rewrite round_up_16_add in Hzl by exact G5.
    pose proof (zlen_nonneg ss) as Hss0. pose proof (round_up_16_bounds (zlen ss)) as RB.
    pose proof (round_up_16_mod (zlen ss)) as RM.
    destruct do_w eqn:Edw.
    - (* weights *)
      set (e := enc core d len (core_block_depth nc bd core)).
      destruct (Z.eqb_spec (zlen (pad16 (s_stream s ++ ss) ++ e) mod 16) 0) as [Em|Em]; [|discriminate].
      intro E. inversion E. clear E. subst s'. right. split; [assumption|].
      set (r := mkR core d (zlen (s_stream s)) (zlen ss) (zlen (pad16 (s_stream s ++ ss)) - zlen (s_stream s)) (zlen e) (s_index s)).
      assert (Hfr : od_set (s_ranges s) r = s_ranges s ++ [r]) by (apply od_set_fresh; exact Hfresh).
      rewrite Hfr. rewrite zlen_app, Hzl in Em.
      assert (Hemod : zlen e mod 16 = 0) by (Z.div_mod_to_equations; lia).
      assert (Hext : ext r = round_up (zlen ss) 16 + zlen e) by reflexivity.
      assert (Hzz : zlen z = round_up (zlen ss) 16 - zlen ss).
      { assert (Hq := Hzl). rewrite Hz, !zlen_app in Hq. lia. }
      assert (Hst : pad16 (s_stream s ++ ss) ++ e = s_stream s ++ (ss ++ z ++ e)).
      { rewrite Hz, <- !app_assoc. reflexivity. }
      rewrite Hst.
      pose proof (zlen_nonneg (s_stream s)) as Zs. pose proof (zlen_nonneg e) as Ze.
      split.
      + unfold good. cbn [s_stream s_ranges s_index]. repeat split.
        * apply Forall2_app.
          -- eapply Forall2_imp; [|exact G1]. intros a b Hab. apply range_ok_app. exact Hab.
          -- constructor; [|constructor]. unfold range_ok. rewrite Edw. cbn [fst snd r_core r_depth r_offset r_scale_bytes r_weight_offset r_weight_bytes r].
             rewrite Hext, Hzl, !zlen_app.
             repeat split; try lia.
             ++ exists ss. repeat split; [exact Ess|]. apply sub_mid.
             ++ unfold sec_weights. fold e.
                replace (s_stream s ++ ss ++ z ++ e) with ((s_stream s ++ ss ++ z) ++ e) by (rewrite <- !app_assoc; reflexivity).
                replace (zlen (s_stream s) + (zlen (s_stream s) + round_up (zlen ss) 16 - zlen (s_stream s)))
                  with (zlen (s_stream s ++ ss ++ z)) by (rewrite !zlen_app; lia).
                apply sub_end.
        * apply chain_snoc. repeat split; [exact G2| |]; cbn [r_offset r_index r]; lia.
        * rewrite !zlen_app, total_ext_app, total_ext_cons. unfold total_ext at 2. cbn [fold_right]. rewrite Hext. lia.
        * rewrite zlen_app, zlen_cons. change (zlen (@nil wrange)) with 0. lia.
        * rewrite !zlen_app. Z.div_mod_to_equations. lia.
      + exists r, (ss ++ z ++ e). repeat split.
    - (* scales only *)
      intro E. inversion E. clear E. subst s'. right. split; [assumption|].
      set (r := mkR core d (zlen (s_stream s)) (zlen ss) 0 0 (s_index s)).
      assert (Hfr : od_set (s_ranges s) r = s_ranges s ++ [r]) by (apply od_set_fresh; exact Hfresh).
      rewrite Hfr.
      assert (Hext : ext r = round_up (zlen ss) 16 + 0) by reflexivity.
      assert (Hzz : zlen z = round_up (zlen ss) 16 - zlen ss).
      { assert (Hq := Hzl). rewrite Hz, !zlen_app in Hq. lia. }
      assert (Hst : pad16 (s_stream s ++ ss) = s_stream s ++ (ss ++ z)).
      { rewrite Hz, <- !app_assoc. reflexivity. }
      rewrite Hst.
      pose proof (zlen_nonneg (s_stream s)) as Zs.
      split.
      + unfold good. cbn [s_stream s_ranges s_index]. repeat split.
        * apply Forall2_app.
          -- eapply Forall2_imp; [|exact G1]. intros a b Hab. apply range_ok_app. exact Hab.
          -- constructor; [|constructor]. unfold range_ok. rewrite Edw. cbn [fst snd r_core r_depth r_offset r_scale_bytes r_weight_offset r_weight_bytes r].
             rewrite Hext, !zlen_app.
             repeat split; try lia.
             exists ss. repeat split; [exact Ess|]. apply sub_mid.
        * apply chain_snoc. repeat split; [exact G2| |]; cbn [r_offset r_index r]; lia.
        * rewrite !zlen_app, total_ext_app, total_ext_cons. unfold total_ext at 2. cbn [fold_right]. rewrite Hext. lia.
        * rewrite zlen_app, zlen_cons. change (zlen (@nil wrange)) with 0. lia.
        * rewrite !zlen_app. Z.div_mod_to_equations. lia.
      + exists r, (ss ++ z). repeat split.
  Qed.

  Definition is_active (c : Z) : bool := negb (core_block_depth nc bd c =? 0).

  Lemma cores_loop_spec d len cs : forall s secs s',
    good s secs -> NoDup cs ->
    (forall r, In r (s_ranges s) -> r_depth r = d -> ~ In (r_core r) cs) ->
    cores_loop enc nc bd do_w biases qs d len cs s = Some s' ->
    good s' (secs ++ map (fun c => (c, d, len)) (filter is_active cs)) /\
    exists new x, s_ranges s' = s_ranges s ++ new /\ s_stream s' = s_stream s ++ x /\
                  Forall2 (fun r c => r_core r = c /\ r_depth r = d) new (filter is_active cs).
  Proof.
    induction cs as [|c cs IH]; intros s secs s' G ND Hfr; cbn [cores_loop].
    - intro E. inversion E. subst s'. cbn [filter map]. rewrite app_nil_r. split; [exact G|].
      exists [], []. rewrite !app_nil_r. repeat split. constructor.
    - destruct (core_step enc nc bd do_w biases qs d len c s) as [s1|] eqn:E1; [|discriminate].
      intro E2. inversion ND as [|? ? Hnin ND']; subst.
      assert (Hf1 : forall r, In r (s_ranges s) -> ~ (r_core r = c /\ r_depth r = d)).
      { intros r Hr (A & B). apply (Hfr r Hr B). left. symmetry. exact A. }
      destruct (core_step_spec d len c s secs s1 G Hf1 E1) as [(Z0 & ->) | (NZ & G1 & r & x & Hr & Hc & Hd & Hx)].
      + assert (Ha : is_active c = false) by (unfold is_active; rewrite Z0; reflexivity).
        cbn [filter]. rewrite Ha.
        apply (IH s secs s' G ND'); [|exact E2].
        intros r Hr Hd Hin. apply (Hfr r Hr Hd). right. exact Hin.
      + assert (Ha : is_active c = true).
        { unfold is_active. destruct (Z.eqb_spec (core_block_depth nc bd c) 0); [contradiction|reflexivity]. }
        cbn [filter]. rewrite Ha. cbn [map].
        assert (Hf2 : forall r0, In r0 (s_ranges s1) -> r_depth r0 = d -> ~ In (r_core r0) cs).
        { intros r0 Hr0 Hd0 Hin. rewrite Hr in Hr0. apply in_app_or in Hr0. destruct Hr0 as [Hr0|[<-|[]]].
          - apply (Hfr r0 Hr0 Hd0). right. exact Hin.
          - rewrite Hc in Hin. contradiction. }
        destruct (IH s1 _ s' G1 ND' Hf2 E2) as (G' & new & x' & Hn & Hs & F).
        split.
        * rewrite <- app_assoc in G'. exact G'.
        * exists (r :: new), (x ++ x'). rewrite Hn, Hs, Hr, Hx, <- !app_assoc. repeat split.
          constructor; [split; assumption | exact F].
  Qed.

  Lemma cores_NoDup : NoDup (cores nc n).
  Proof. apply sorted_NoDup, zseq_sorted. Qed.

  Lemma active_cores_eq : filter is_active (cores nc n) = active_cores nc n bd.
  Proof. reflexivity. Qed.

  (* ---- double buffer sizes *)
  Lemma db_update_ge db idx sz j : db_get db j <= db_get (db_update db idx sz) j.
  Proof.
    unfold db_get, db_update. destruct (idx mod 2 =? 0); destruct (j mod 2 =? 0); cbn [fst snd]; lia.
  Qed.
  Lemma db_update_self db idx sz : sz <= db_get (db_update db idx sz) idx.
  Proof.
    unfold db_get, db_update. destruct (idx mod 2 =? 0) eqn:E; rewrite ?E; cbn [fst snd]; lia.
  Qed.

  Definition group_size (rs : list wrange) (d : Z) : Z := total_ext (filter (fun r => r_depth r =? d) rs).

  Lemma group_size_app a b d : group_size (a ++ b) d = group_size a d + group_size b d.
  Proof. unfold group_size. rewrite filter_app, total_ext_app. reflexivity. Qed.

  Lemma group_size_none rs d : (forall r, In r rs -> r_depth r <> d) -> group_size rs d = 0.
  Proof.
    intro H. unfold group_size. induction rs as [|r rs IH]; [reflexivity|]. cbn [filter].
    destruct (Z.eqb_spec (r_depth r) d) as [E|E]; [exfalso; apply (H r); [left; reflexivity | exact E]|].
    apply IH. intros. apply H. right. assumption.
  Qed.

  Lemma group_size_all rs d : (forall r, In r rs -> r_depth r = d) -> group_size rs d = total_ext rs.
  Proof.
    intro H. unfold group_size. induction rs as [|r rs IH]; [reflexivity|]. cbn [filter].
    destruct (Z.eqb_spec (r_depth r) d) as [E|E]; [|exfalso; apply E; apply H; left; reflexivity].
    rewrite !total_ext_cons. f_equal. apply IH. intros. apply H. right. assumption.
  Qed.

  Lemma slices_loop_spec offs : forall idx s db secs s' db',
    good s secs -> strictly_increasing offs ->
    (forall r, In r (s_ranges s) -> r_depth r < hd 0 offs) ->
    slices_loop enc nc n bd do_w biases qs offs idx s db = Some (s', db') ->
    good s' (secs ++ flat_map (slice_sections nc n bd) (slice_pairs offs)) /\
    (forall j, db_get db j <= db_get db' j) /\
    (forall i p, nth_error (slice_pairs offs) i = Some p ->
                 group_size (s_ranges s') (fst p) <= db_get db' (idx + Z.of_nat i)) /\
    (forall p, In p (slice_pairs offs) -> 0 <= fst p < n) /\
    exists new, s_ranges s' = s_ranges s ++ new /\ Forall (fun r => hd 0 offs <= r_depth r) new /\
                (forall d, d < hd 0 offs -> group_size (s_ranges s') d = group_size (s_ranges s) d).
  Proof.
    induction offs as [|a t IH]; intros idx s db secs s' db' G SI Hlt.
    - cbn [slices_loop]. intro E. inversion E. subst. cbn [slice_pairs flat_map]. rewrite app_nil_r.
      split; [exact G|]. split; [intro; lia|]. split; [intros [|i] p Hp; discriminate|]. split; [intros p []|].
      exists []. rewrite app_nil_r. repeat split. constructor.
    - destruct t as [|b t].
      + cbn [slices_loop]. intro E. inversion E. subst. cbn [slice_pairs flat_map]. rewrite app_nil_r.
        split; [exact G|]. split; [intro; lia|]. split; [intros [|i] p Hp; discriminate|]. split; [intros p []|].
        exists []. rewrite app_nil_r. repeat split. constructor.
      + apply strictly_increasing_cons in SI. destruct SI as [Hab SI].
        change (slices_loop enc nc n bd do_w biases qs (a :: b :: t) idx s db) with
          (match slice_step enc nc n bd do_w biases qs idx a b s db with
           | None => None
           | Some (s1, db1) => slices_loop enc nc n bd do_w biases qs (b :: t) (idx + 1) s1 db1
           end).
        destruct (slice_step enc nc n bd do_w biases qs idx a b s db) as [[s1 db1]|] eqn:E1; [|discriminate].
        intro E2. unfold slice_step in E1.
        destruct ((0 <=? a) && (a <? n)) eqn:Ea; [|discriminate].
        destruct (cores_loop enc nc bd do_w biases qs a (b - a) (cores nc n) s) as [s1'|] eqn:Ec; [|discriminate].
        inversion E1. subst s1' db1. clear E1.
        cbn [hd] in Hlt.
        assert (Hfr : forall r, In r (s_ranges s) -> r_depth r = a -> ~ In (r_core r) (cores nc n)).
        { intros r Hr Hd. specialize (Hlt r Hr). lia. }
        destruct (cores_loop_spec a (b - a) (cores nc n) s secs s1 G cores_NoDup Hfr Ec) as (G1 & new1 & x1 & Hn1 & Hs1 & F1).
        rewrite active_cores_eq in G1, F1.
        assert (Hd1 : forall r, In r new1 -> r_depth r = a).
        { clear - F1. induction F1 as [|r c l l' [_ Hd] F IHF]; intros r0 Hin; [destruct Hin|].
          destruct Hin as [<-|H]; [exact Hd | apply IHF; exact H]. }
        assert (Hlt1 : forall r, In r (s_ranges s1) -> r_depth r < hd 0 (b :: t)).
        { intros r Hr. cbn [hd]. rewrite Hn1 in Hr. apply in_app_or in Hr. destruct Hr as [Hr|Hr].
          - specialize (Hlt r Hr). lia.
          - rewrite (Hd1 r Hr). exact Hab. }
        destruct (IH (idx + 1) s1 _ _ s' db' G1 SI Hlt1 E2) as (G' & Hmono & Hdb & Hrange & new2 & Hn2 & F2 & Hold).
        cbn [hd] in F2, Hold.
        rewrite slice_pairs_cons. cbn [flat_map].
        split; [rewrite <- app_assoc in G'; exact G'|].
        split.
        { intro j. specialize (Hmono j).
          pose proof (db_update_ge db idx (zlen (s_stream s1) - zlen (s_stream s)) j). lia. }
        split.
        { intros [|i] p Hp.
          - cbn [nth_error] in Hp. inversion Hp. subst p. cbn [fst]. rewrite Z.add_0_r.
            rewrite (Hold a Hab). rewrite Hn1, group_size_app.
            rewrite (group_size_none (s_ranges s)) by (intros r Hr; specialize (Hlt r Hr); lia).
            rewrite (group_size_all new1 a Hd1).
            destruct G as (_ & _ & G3 & _). destruct G1 as (_ & _ & G3' & _).
            rewrite Hn1, total_ext_app in G3'.
            pose proof (db_update_self db idx (zlen (s_stream s1) - zlen (s_stream s))).
            specialize (Hmono idx). lia.
          - cbn [nth_error] in Hp. specialize (Hdb i p Hp).
            replace (idx + Z.of_nat (S i)) with (idx + 1 + Z.of_nat i) by lia. exact Hdb. }
        split.
        { intros p [<-|Hp]; [|apply Hrange; exact Hp]. cbn [fst].
          apply andb_true_iff in Ea. destruct Ea as [A B]. apply Z.leb_le in A. apply Z.ltb_lt in B. lia. }
        exists (new1 ++ new2). rewrite Hn2, Hn1, <- app_assoc. split; [reflexivity|]. split.
        { apply Forall_app. split.
          - apply Forall_forall. intros r Hr. rewrite (Hd1 r Hr). cbn [hd]. lia.
          - eapply Forall_impl; [|exact F2]. cbn [hd]. intros r Hr. lia. }
        intros d Hd. cbn [hd] in Hd.
        rewrite app_assoc, <- Hn1, <- Hn2. rewrite (Hold d ltac:(lia)). rewrite Hn1, group_size_app.
        rewrite (group_size_none new1) by (intros r Hr; rewrite (Hd1 r Hr); lia). lia.
  Qed.

  Theorem layout_spec offs t :
    encode_layout enc nc n bd do_w biases qs offs = Some t -> strictly_increasing offs ->
    Forall2 (range_ok (t_buffer t)) (t_ranges t) (sections nc n bd offs) /\ chain 0 0 (t_ranges t) /\
    zlen (t_buffer t) = total_ext (t_ranges t) /\
    (forall i p, nth_error (slice_pairs offs) i = Some p ->
                 group_size (t_ranges t) (fst p) <= db_get (t_db t) (Z.of_nat i)) /\
    (forall p, In p (slice_pairs offs) -> 0 <= fst p < n) /\ 1 < zlen offs.
  Proof.
    unfold encode_layout. destruct (Z.leb_spec (zlen offs) 1) as [|Hlen]; [discriminate|].
    destruct (slices_loop enc nc n bd do_w biases qs offs 0 (mkSt [] [] 0) (0, 0)) as [[s db]|] eqn:E; [|discriminate].
    intros Et SI. inversion Et. subst t. clear Et. cbn [t_buffer t_ranges t_db].
    assert (G0 : good (mkSt [] [] 0) []).
    { unfold good. cbn [s_stream s_ranges s_index]. repeat split; try reflexivity. constructor. }
    destruct (slices_loop_spec offs 0 _ _ [] s db G0 SI ltac:(intros r []) E) as ((G1 & G2 & G3 & _) & _ & Hdb & Hr & _).
    cbn [app] in G1. split; [exact G1|]. split; [exact G2|]. split; [exact G3|]. split.
    - intros i p Hp. specialize (Hdb i p Hp). rewrite Z.add_0_l in Hdb. exact Hdb.
    - split; [exact Hr | lia].
  Qed.

  (* ---- consequences of a chain *)
  Lemma chain_lower start idx rs : chain start idx rs -> Forall (fun r => 0 <= ext r) rs ->
    forall j rj, nth_error rs j = Some rj -> start <= r_offset rj.
  Proof.
    revert start idx. induction rs as [|r rs IH]; intros start idx C F j rj Hj; [destruct j; discriminate|].
    destruct C as (A & B & C). inversion F as [|? ? F0 F']; subst.
    destruct j as [|j]; cbn [nth_error] in Hj.
    - inversion Hj. subst. lia.
    - specialize (IH _ _ C F' j rj Hj). lia.
  Qed.

  Lemma chain_ordered start idx rs : chain start idx rs -> Forall (fun r => 0 <= ext r) rs ->
    forall i j ri rj, (i < j)%nat -> nth_error rs i = Some ri -> nth_error rs j = Some rj ->
                      r_offset ri + ext ri <= r_offset rj.
  Proof.
    revert start idx. induction rs as [|r rs IH]; intros start idx C F i j ri rj Hij Hi Hj; [destruct i; discriminate|].
    destruct C as (A & B & C). inversion F as [|? ? F0 F']; subst.
    destruct j as [|j]; [lia|]. cbn [nth_error] in Hj.
    destruct i as [|i]; cbn [nth_error] in Hi.
    - inversion Hi. subst ri. apply (chain_lower _ _ _ C F' j rj Hj).
    - apply (IH _ _ C F' i j ri rj); [lia | assumption | assumption].
  Qed.

  Lemma chain_index start idx rs : chain start idx rs ->
    forall j rj, nth_error rs j = Some rj -> r_index rj = idx + Z.of_nat j /\ r_offset rj = start + total_ext (firstn j rs).
  Proof.
    revert start idx. induction rs as [|r rs IH]; intros start idx C j rj Hj; [destruct j; discriminate|].
    destruct C as (A & B & C). destruct j as [|j]; cbn [nth_error firstn] in *.
    - inversion Hj. subst. unfold total_ext. cbn [fold_right]. lia.
    - destruct (IH _ _ C j rj Hj) as [I O]. rewrite total_ext_cons. lia.
  Qed.

  Definition key_of_range (r : wrange) : Z * Z := (r_core r, r_depth r).
  Definition key_of_sec (sec : Z * Z * Z) : Z * Z := fst sec.

  Lemma range_ok_keys stream rs secs :
    Forall2 (range_ok stream) rs secs -> map key_of_range rs = map key_of_sec secs.
  Proof.
    induction 1 as [|r sec rs secs H F IH]; [reflexivity|]. cbn [map]. rewrite IH. f_equal.
    destruct H as (A & B & _). unfold key_of_range, key_of_sec. destruct sec as [[c d] l]. cbn [fst snd] in *. congruence.
  Qed.

  Definition range_wf (buflen : Z) (r : wrange) : Prop :=
    0 <= r_offset r /\ r_offset r mod 16 = 0 /\ ext r mod 16 = 0 /\ 0 <= r_scale_bytes r /\ 0 <= r_weight_bytes r /\
    r_weight_bytes r mod 16 = 0 /\ r_offset r + ext r <= buflen /\
    (if do_w then r_weight_offset r = round_up (r_scale_bytes r) 16 /\ (r_offset r + r_weight_offset r) mod 16 = 0
     else r_weight_offset r = 0 /\ r_weight_bytes r = 0).

  Lemma range_ok_wf stream r sec : range_ok stream r sec -> range_wf (zlen stream) r.
  Proof.
    intros (A & B & C & D & E & F & F' & (ss & G1 & G2 & G3) & H). unfold range_wf, ext in *.
    pose proof (round_up_16_mod (r_scale_bytes r)). pose proof (zlen_nonneg ss).
    repeat split; try assumption; try lia.
    - Z.div_mod_to_equations. lia.
    - destruct do_w; [|exact H]. destruct H as (W1 & W2 & W3). split; [exact W1|]. rewrite W1. Z.div_mod_to_equations. lia.
  Qed.

  (* every (core, slice) range starts at a multiple of 16; ranges are consecutive, disjoint, in stream order and
     cover the buffer *)
  Theorem ranges_aligned_disjoint_ordered_lemma offs t :
    encode_layout enc nc n bd do_w biases qs offs = Some t -> strictly_increasing offs ->
    map key_of_range (t_ranges t) = map key_of_sec (sections nc n bd offs) /\
    chain 0 0 (t_ranges t) /\
    total_ext (t_ranges t) = zlen (t_buffer t) /\
    Forall (range_wf (zlen (t_buffer t))) (t_ranges t) /\
    (forall i j ri rj, (i < j)%nat -> nth_error (t_ranges t) i = Some ri -> nth_error (t_ranges t) j = Some rj ->
                       r_offset ri + ext ri <= r_offset rj) /\
    (forall j rj, nth_error (t_ranges t) j = Some rj -> r_index rj = Z.of_nat j).
  Proof.
    intros E SI. destruct (layout_spec offs t E SI) as (F & C & L & _).
    assert (W : Forall (range_wf (zlen (t_buffer t))) (t_ranges t)).
    { clear - F. induction F; constructor; [eapply range_ok_wf; eassumption | assumption]. }
    assert (P : Forall (fun r => 0 <= ext r) (t_ranges t)).
    { eapply Forall_impl; [|exact W]. intros r (_ & _ & _ & A & B & _). unfold ext.
      pose proof (round_up_16_bounds (r_scale_bytes r)). lia. }
    split; [eapply range_ok_keys; exact F|]. split; [exact C|]. split; [symmetry; exact L|]. split; [exact W|].
    split.
    - intros. eapply chain_ordered; eassumption.
    - intros j rj Hj. destruct (chain_index _ _ _ C j rj Hj) as [I _]. lia.
  Qed.

  (* the recorded double-buffer size of parity i mod 2 bounds slice i *)
  Theorem double_buffer_bounds_lemma offs t i d len :
    encode_layout enc nc n bd do_w biases qs offs = Some t -> strictly_increasing offs ->
    nth_error (slice_pairs offs) i = Some (d, len) ->
    group_size (t_ranges t) d <= db_get (t_db t) (Z.of_nat i).
  Proof.
    intros E SI Hp. destruct (layout_spec offs t E SI) as (_ & _ & _ & H & _). apply (H i (d, len) Hp).
  Qed.

  Lemma Forall2_imp_In_r {A B} (P Q : A -> B -> Prop) l1 l2 :
    Forall2 P l1 l2 -> (forall a b, In b l2 -> P a b -> Q a b) -> Forall2 Q l1 l2.
  Proof.
    induction 1 as [|a b l1 l2 H F IH]; intro HQ; constructor.
    - apply HQ; [left; reflexivity | exact H].
    - apply IH. intros. apply HQ; [right; assumption | assumption].
  Qed.

  Lemma In_sections sec offs :
    In sec (sections nc n bd offs) <->
    exists p, In p (slice_pairs offs) /\ In (fst (fst sec)) (active_cores nc n bd) /\ snd (fst sec) = fst p /\ snd sec = snd p.
  Proof.
    unfold sections, slice_sections. rewrite in_flat_map. split.
    - intros (p & Hp & Hs). apply in_map_iff in Hs. destruct Hs as (c & <- & Hc). exists p. cbn [fst snd]. tauto.
    - intros (p & Hp & Hc & Hd & Hl). exists p. split; [exact Hp|]. apply in_map_iff.
      exists (fst (fst sec)). split; [|exact Hc]. destruct sec as [[c d] l]. cbn [fst snd] in *. congruence.
  Qed.

  Lemma zlen_flat_map_nth {A} (l : list A) chans :
    (forall c, In c chans -> 0 <= c < zlen l) -> zlen (flat_map (nth_list l) chans) = zlen chans.
  Proof.
    induction chans as [|c chans IH]; intro H; [reflexivity|]. cbn [flat_map]. rewrite zlen_app, zlen_cons, IH.
    - unfold nth_list. specialize (H c (or_introl eq_refl)).
      destruct (nth_error l (Z.to_nat c)) eqn:E; [reflexivity|].
      apply nth_error_None in E. unfold zlen in H. lia.
    - intros. apply H. right. assumption.
  Qed.

  Definition wf_slices (offs : list Z) : Prop :=
    strictly_increasing offs /\ hd 0 offs = 0 /\ last offs 0 = n /\
    (forall p, In p (slice_pairs offs) -> snd p mod nc = 0 \/ fst p + snd p = n).

  (* the scale section of (core, slice [d, d+len)) is exactly the 10-byte records of channels d+core, d+core+ncores, ..
     below d+len, and every channel of the operator is in exactly one section *)
  Theorem scales_one_record_per_channel_lemma offs t :
    encode_layout enc nc n bd do_w biases qs offs = Some t ->
    wf_slices offs -> 0 < nc -> nc <= bd -> zlen biases = n -> zlen qs = n ->
    Forall2 (fun r sec => exists bytes, records biases qs (spec_channels nc sec) = Some bytes /\
                                        r_scale_bytes r = 10 * zlen (spec_channels nc sec) /\
                                        sub (t_buffer t) (r_offset r) (r_scale_bytes r) = bytes)
            (t_ranges t) (sections nc n bd offs) /\
    (forall c, count_occ Z.eq_dec (flat_map (spec_channels nc) (sections nc n bd offs)) c =
               if (0 <=? c) && (c <? n) then 1%nat else 0%nat).
  Proof.
    intros E (SI & Hhd & Hlast & Hmult) Hnc Hbd Hb Hq.
    destruct (layout_spec offs t E SI) as (F & _ & _ & _ & _ & Hlen).
    split.
    - eapply Forall2_imp_In_r; [exact F|].
      intros r sec Hsec (_ & _ & _ & _ & _ & _ & _ & (ss & S1 & S2 & S3) & _).
      apply In_sections in Hsec. destruct Hsec as (p & Hp & Hc & Hd & Hl).
      destruct sec as [[core d] len]. cbn [fst snd] in Hc, Hd, Hl.
      apply In_active_cores in Hc.
      pose proof (slice_pairs_bounds _ _ SI Hp) as (B1 & B2 & B3).
      assert (Hcode : code_channels nc n (core, d, len) = spec_channels nc (core, d, len)).
      { apply code_channels_spec; try lia. subst d len. apply Hmult. exact Hp. }
      unfold sec_scales, py_slice in S1. rewrite Hb, Hq in S1.
      change (slice_idx (d + core) (d + core + len) nc n) with (code_channels nc n (core, d, len)) in S1.
      rewrite Hcode in S1.
      exists ss. split; [exact S1|]. split; [|rewrite S2; exact S3].
      rewrite S2, (scale_stream_length _ _ _ S1). f_equal. apply zlen_flat_map_nth.
      intros c Hin. apply In_spec_channels in Hin. lia.
    - intro c. rewrite channels_exactly_once; try assumption; try lia.
      + rewrite Hhd, Hlast. reflexivity.
      + intro Hnil. subst offs. cbn in Hlen. lia.
  Qed.

  (* ---- the ranges of one slice inside the final list *)
  Lemma pairs_fst_sorted offs : strictly_increasing offs -> StronglySorted Z.lt (map fst (slice_pairs offs)).
  Proof.
    induction offs as [|a t IH]; [constructor|]. destruct t as [|b t]; [constructor|].
    intro SI. assert (SI' := SI). apply strictly_increasing_cons in SI. destruct SI as [Hab SI].
    rewrite slice_pairs_cons. cbn [map fst]. constructor; [apply IH; exact SI|].
    apply Forall_forall. intros x Hx. apply in_map_iff in Hx. destruct Hx as (p & <- & Hp).
    pose proof (slice_pairs_bounds _ _ SI Hp) as (B & _). cbn [hd] in B. lia.
  Qed.

  Lemma pairs_split offs i p :
    strictly_increasing offs -> nth_error (slice_pairs offs) i = Some p ->
    exists P1 P2, slice_pairs offs = P1 ++ p :: P2 /\ length P1 = i /\ forall q, In q (P1 ++ P2) -> fst q <> fst p.
  Proof.
    intros SI Hp. destruct (nth_error_split _ _ Hp) as (P1 & P2 & HP & HL).
    exists P1, P2. split; [exact HP|]. split; [exact HL|].
    pose proof (sorted_NoDup _ (pairs_fst_sorted offs SI)) as ND. rewrite HP, map_app in ND. cbn [map] in ND.
    apply NoDup_remove_2 in ND. intros q Hq E. apply ND. rewrite <- map_app. apply in_map_iff. exists q. split; [exact E | exact Hq].
  Qed.

  Lemma Forall2_In_l {A B} (P : A -> B -> Prop) l1 l2 a :
    Forall2 P l1 l2 -> In a l1 -> exists b, In b l2 /\ P a b.
  Proof.
    induction 1 as [|x y l1 l2 H F IH]; intros []; [subst; exists y; split; [left; reflexivity | exact H]|].
    destruct (IH H0) as (b & Hb & Pb). exists b. split; [right; exact Hb | exact Pb].
  Qed.

  Lemma Forall2_sections_depth stream rs ps :
    Forall2 (range_ok stream) rs (flat_map (slice_sections nc n bd) ps) ->
    forall r, In r rs -> exists q, In q ps /\ r_depth r = fst q.
  Proof.
    intros F r Hr. destruct (Forall2_In_l _ _ _ _ F Hr) as (sec & Hs & Hok).
    apply in_flat_map in Hs. destruct Hs as (q & Hq & Hs). unfold slice_sections in Hs. apply in_map_iff in Hs.
    destruct Hs as (c & <- & _). exists q. split; [exact Hq|]. destruct Hok as (_ & B & _). exact B.
  Qed.

  Lemma slice_ranges offs t i d len :
    encode_layout enc nc n bd do_w biases qs offs = Some t -> strictly_increasing offs ->
    nth_error (slice_pairs offs) i = Some (d, len) ->
    exists R1 Rd R2, t_ranges t = R1 ++ Rd ++ R2 /\
      Forall2 (range_ok (t_buffer t)) Rd (slice_sections nc n bd (d, len)) /\
      (forall r, In r (R1 ++ R2) -> r_depth r <> d) /\
      Forall (range_wf (zlen (t_buffer t))) (t_ranges t) /\ chain 0 0 (t_ranges t) /\
      zlen (t_buffer t) = total_ext (t_ranges t) /\
      group_size (t_ranges t) d = total_ext Rd /\ total_ext Rd <= db_get (t_db t) (Z.of_nat i).
  Proof.
    intros E SI Hp. destruct (layout_spec offs t E SI) as (F & C & L & Hdb & _).
    destruct (pairs_split offs i (d, len) SI Hp) as (P1 & P2 & HP & _ & Hne).
    unfold sections in F. rewrite HP, flat_map_app in F. cbn [flat_map] in F.
    apply Forall2_app_inv_r in F. destruct F as (R1 & R' & F1 & F' & HR).
    apply Forall2_app_inv_r in F'. destruct F' as (Rd & R2 & Fd & F2 & HR').
    subst R'. exists R1, Rd, R2. split; [exact HR|]. split; [exact Fd|].
    assert (Hother : forall r, In r (R1 ++ R2) -> r_depth r <> d).
    { intros r Hr. apply in_app_or in Hr. destruct Hr as [Hr|Hr].
      - destruct (Forall2_sections_depth _ _ _ F1 r Hr) as (q & Hq & ->).
        apply (Hne q). apply in_or_app. left. exact Hq.
      - destruct (Forall2_sections_depth _ _ _ F2 r Hr) as (q & Hq & ->).
        apply (Hne q). apply in_or_app. right. exact Hq. }
    split; [exact Hother|].
    assert (W : Forall (range_wf (zlen (t_buffer t))) (t_ranges t)).
    { destruct (layout_spec offs t E SI) as (F & _). clear - F. induction F; constructor; [eapply range_ok_wf; eassumption | assumption]. }
    split; [exact W|]. split; [exact C|]. split; [exact L|].
    assert (Hd : forall r, In r Rd -> r_depth r = d).
    { intros r Hr. destruct (Forall2_In_l _ _ _ _ Fd Hr) as (sec & Hs & (_ & B & _)).
      unfold slice_sections in Hs. apply in_map_iff in Hs. destruct Hs as (c & <- & _). exact B. }
    assert (Hg : group_size (t_ranges t) d = total_ext Rd).
    { rewrite HR, !group_size_app.
      rewrite (group_size_none R1) by (intros r Hr; apply Hother; apply in_or_app; left; exact Hr).
      rewrite (group_size_none R2) by (intros r Hr; apply Hother; apply in_or_app; right; exact Hr).
      rewrite (group_size_all Rd d Hd). lia. }
    split; [exact Hg|]. rewrite <- Hg. apply (Hdb i (d, len) Hp).
  Qed.
End LayoutProofs.

(* ================================================================== create_weights / create_dma_op *)
Lemma od_get_app_skip R1 X c d :
  (forall r, In r R1 -> ~ (r_core r = c /\ r_depth r = d)) -> od_get (R1 ++ X) c d = od_get X c d.
Proof.
  induction R1 as [|r R1 IH]; intro H; [reflexivity|]. cbn [app od_get]. unfold key_eqb.
  destruct (Z.eqb_spec (r_core r) c); destruct (Z.eqb_spec (r_depth r) d); cbn [andb];
    try (apply IH; intros; apply H; right; assumption).
  exfalso. apply (H r); [left; reflexivity | split; assumption].
Qed.

Lemma od_get_none X c d : (forall r, In r X -> ~ (r_core r = c /\ r_depth r = d)) -> od_get X c d = None.
Proof.
  intro H. rewrite <- (app_nil_r X). rewrite od_get_app_skip by exact H. reflexivity.
Qed.

Lemma od_get_hit r X c d : r_core r = c -> r_depth r = d -> od_get (r :: X) c d = Some r.
Proof. intros <- <-. cbn [od_get]. unfold key_eqb. rewrite !Z.eqb_refl. reflexivity. Qed.

Definition rup_total (r : wrange) : Z := round_up (r_scale_bytes r + r_weight_bytes r) 16.

Fixpoint cw_expect (d : Z) (Rd : list wrange) (buffered : bool) (w_addr : Z) (sc : option (list wrange * Z)) (co : Z)
  : option (list (Z * Z) * list (Z * Z)) :=
  match Rd with
  | [] => Some ([], [])
  | r :: t =>
      let address := if buffered then w_addr + co else w_addr + r_offset r in
      let co' := if buffered then co + rup_total r else co in
      let w := (address + r_weight_offset r, round_up (r_weight_bytes r) 16) in
      let b := match sc with
               | Some (srs, s_addr) =>
                   match od_get srs (r_core r) d with
                   | Some sr => Some (s_addr + r_offset sr, round_up (r_scale_bytes sr) 16)
                   | None => None
                   end
               | None => Some (address, round_up (r_scale_bytes r) 16)
               end in
      match b with
      | None => None
      | Some b' => match cw_expect d t buffered w_addr sc co' with
                   | Some (ws, bs) => Some (w :: ws, b' :: bs)
                   | None => None
                   end
      end
  end.

Fixpoint dma_expect (Rd : list wrange) (in_addr sz : Z) (src : option Z) : Z * option Z :=
  match Rd with
  | [] => (sz, src)
  | r :: t => dma_expect t in_addr (sz + rup_total r) (if r_core r =? 0 then Some (in_addr + r_offset r) else src)
  end.

Lemma Forall2_core_in (sel : Z -> bool) d Rd cs :
  Forall2 (fun r c => r_core r = c /\ r_depth r = d) Rd (filter sel cs) ->
  forall r, In r Rd -> In (r_core r) cs /\ r_depth r = d.
Proof.
  intros F r Hr. destruct (Forall2_In_l _ _ _ _ F Hr) as (c & Hc & (A & B)).
  apply filter_In in Hc. subst c. tauto.
Qed.

Lemma Forall2_cons_r_inv {A B} (P : A -> B -> Prop) l b l' :
  Forall2 P l (b :: l') -> exists a l0, l = a :: l0 /\ P a b /\ Forall2 P l0 l'.
Proof. intro F. inversion F; subst. eauto. Qed.

Section Lookup.
  Variables (d : Z) (sel : Z -> bool).

  Lemma lookup_step pre r Rd post c cs :
    NoDup (c :: cs) -> r_core r = c -> r_depth r = d ->
    (forall r0, In r0 (pre ++ post) -> r_depth r0 = d -> ~ In (r_core r0) (c :: cs)) ->
    od_get (pre ++ (r :: Rd) ++ post) c d = Some r /\
    (forall r0, In r0 ((pre ++ [r]) ++ post) -> r_depth r0 = d -> ~ In (r_core r0) cs).
  Proof.
    intros ND Hc Hd Hfr. inversion ND as [|? ? Hnin ND']; subst. split.
    - rewrite od_get_app_skip; [apply od_get_hit; auto|].
      intros r0 Hr0 (A & B). apply (Hfr r0); [apply in_or_app; left; exact Hr0 | exact B | left; symmetry; exact A].
    - intros r0 Hr0 Hd0 Hin. rewrite <- app_assoc in Hr0. apply in_app_or in Hr0. destruct Hr0 as [Hr0|[<-|Hr0]].
      + apply (Hfr r0); [apply in_or_app; left; exact Hr0 | exact Hd0 | right; exact Hin].
      + contradiction.
      + apply (Hfr r0); [apply in_or_app; right; exact Hr0 | exact Hd0 | right; exact Hin].
  Qed.

  Lemma lookup_miss pre Rd post c cs :
    NoDup (c :: cs) -> sel c = false ->
    Forall2 (fun r c => r_core r = c /\ r_depth r = d) Rd (filter sel cs) ->
    (forall r0, In r0 (pre ++ post) -> r_depth r0 = d -> ~ In (r_core r0) (c :: cs)) ->
    od_get (pre ++ Rd ++ post) c d = None.
  Proof.
    intros ND Hs F Hfr. inversion ND as [|? ? Hnin ND']; subst. apply od_get_none.
    intros r0 Hr0 (A & B). apply in_app_or in Hr0. destruct Hr0 as [Hr0|Hr0]; [|apply in_app_or in Hr0; destruct Hr0 as [Hr0|Hr0]].
    - apply (Hfr r0); [apply in_or_app; left; exact Hr0 | exact B | left; symmetry; exact A].
    - destruct (Forall2_core_in _ _ _ _ F r0 Hr0) as [Hin _]. rewrite A in Hin. contradiction.
    - apply (Hfr r0); [apply in_or_app; right; exact Hr0 | exact B | left; symmetry; exact A].
  Qed.

  Lemma cw_loop_expect buffered w_addr sc cs : forall pre Rd post co,
    Forall2 (fun r c => r_core r = c /\ r_depth r = d) Rd (filter sel cs) -> NoDup cs ->
    (forall r0, In r0 (pre ++ post) -> r_depth r0 = d -> ~ In (r_core r0) cs) ->
    cw_loop (pre ++ Rd ++ post) d cs buffered w_addr sc co = cw_expect d Rd buffered w_addr sc co.
  Proof.
    induction cs as [|c cs IH]; intros pre Rd post co F ND Hfr.
    - cbn [filter] in F. inversion F. subst. reflexivity.
    - cbn [filter] in F. cbn [cw_loop]. destruct (sel c) eqn:Es.
      + apply Forall2_cons_r_inv in F. destruct F as (r & Rd' & -> & [Hc Hd] & F').
        destruct (lookup_step pre r Rd' post c cs ND Hc Hd Hfr) as [Hget Hfr'].
        rewrite Hget. cbn [cw_expect]. inversion ND; subst.
        replace (pre ++ (r :: Rd') ++ post) with ((pre ++ [r]) ++ Rd' ++ post) by (rewrite <- !app_assoc; reflexivity).
        unfold rup_total. rewrite IH by assumption. reflexivity.
      + rewrite (lookup_miss pre Rd post c cs ND Es F Hfr). inversion ND; subst. apply IH; try assumption.
        intros r0 Hr0 Hd0 Hin. apply (Hfr r0 Hr0 Hd0). right. exact Hin.
  Qed.

  Lemma dma_loop_expect in_addr cs : forall pre Rd post sz src,
    Forall2 (fun r c => r_core r = c /\ r_depth r = d) Rd (filter sel cs) -> NoDup cs ->
    (forall r0, In r0 (pre ++ post) -> r_depth r0 = d -> ~ In (r_core r0) cs) ->
    dma_loop (pre ++ Rd ++ post) d cs in_addr sz src = dma_expect Rd in_addr sz src.
  Proof.
    induction cs as [|c cs IH]; intros pre Rd post sz src F ND Hfr.
    - cbn [filter] in F. inversion F. subst. reflexivity.
    - cbn [filter] in F. cbn [dma_loop]. destruct (sel c) eqn:Es.
      + apply Forall2_cons_r_inv in F. destruct F as (r & Rd' & -> & [Hc Hd] & F').
        destruct (lookup_step pre r Rd' post c cs ND Hc Hd Hfr) as [Hget Hfr'].
        rewrite Hget. cbn [dma_expect]. inversion ND; subst.
        replace (pre ++ (r :: Rd') ++ post) with ((pre ++ [r]) ++ Rd' ++ post) by (rewrite <- !app_assoc; reflexivity).
        unfold rup_total. rewrite IH by assumption. reflexivity.
      + rewrite (lookup_miss pre Rd post c cs ND Es F Hfr). inversion ND; subst. apply IH; try assumption.
        intros r0 Hr0 Hd0 Hin. apply (Hfr r0 Hr0 Hd0). right. exact Hin.
  Qed.
End Lookup.

Lemma chain_app start idx a b :
  chain start idx (a ++ b) <-> chain start idx a /\ chain (start + total_ext a) (idx + zlen a) b.
Proof.
  revert start idx. induction a as [|r a IH]; intros start idx; cbn [app chain].
  - change (zlen (@nil wrange)) with 0. unfold total_ext. cbn [fold_right]. rewrite !Z.add_0_r. tauto.
  - rewrite IH, total_ext_cons, zlen_cons.
    replace (start + ext r + total_ext a) with (start + (ext r + total_ext a)) by lia.
    replace (idx + 1 + zlen a) with (idx + (1 + zlen a)) by lia. tauto.
Qed.

Lemma chain_upper start idx rs : chain start idx rs -> Forall (fun r => 0 <= ext r) rs ->
  forall r, In r rs -> start <= r_offset r /\ r_offset r + ext r <= start + total_ext rs.
Proof.
  revert start idx. induction rs as [|x rs IH]; intros start idx C F r Hr; [destruct Hr|].
  destruct C as (A & B & C). inversion F as [|? ? F0 F']; subst. rewrite total_ext_cons.
  assert (0 <= total_ext rs).
  { clear - F'. induction F'; [unfold total_ext; cbn; lia | rewrite total_ext_cons; lia]. }
  destruct Hr as [<-|Hr]; [lia|]. specialize (IH _ _ C F' r Hr). lia.
Qed.

Lemma total_ext_nonneg rs : Forall (fun r => 0 <= ext r) rs -> 0 <= total_ext rs.
Proof. induction 1; [unfold total_ext; cbn; lia | rewrite total_ext_cons; lia]. Qed.

Definition member (l : list Z) (c : Z) : bool := existsb (Z.eqb c) l.

Lemma member_In l c : member l c = true <-> In c l.
Proof.
  unfold member. rewrite existsb_exists. split.
  - intros (x & Hx & E). apply Z.eqb_eq in E. subst. exact Hx.
  - intro H. exists c. split; [exact H | apply Z.eqb_refl].
Qed.

Lemma filter_member_active nc n bd : filter (member (active_cores nc n bd)) (zseq 0 nc) = active_cores nc n bd.
Proof.
  apply sorted_ext.
  - apply filter_sorted, zseq_sorted.
  - unfold active_cores, cores. apply filter_sorted, zseq_sorted.
  - intro x. rewrite filter_In, member_In, In_zseq. split; [tauto|]. intro H. split; [|exact H].
    apply In_active_cores in H. lia.
Qed.

Lemma zseq_head lo m : 0 < m -> exists tl, zseq lo m = lo :: tl.
Proof.
  intro H. unfold zseq, zrange. rewrite range_len_pos by lia.
  replace ((lo + m - lo + 1 - 1) / 1) with m by (rewrite Z.div_1_r; lia).
  destruct (Z.to_nat (Z.max 0 m)) as [|k] eqn:E; [lia|]. cbn [seq map]. eexists. f_equal. lia.
Qed.

Lemma rup_total_ext r : r_weight_bytes r mod 16 = 0 -> rup_total r = ext r.
Proof.
  intro H. unfold rup_total, ext. rewrite Z.add_comm. rewrite round_up_16_add by exact H. lia.
Qed.

Lemma dma_expect_size Rd a sz src :
  Forall (fun r => r_weight_bytes r mod 16 = 0) Rd -> fst (dma_expect Rd a sz src) = sz + total_ext Rd.
Proof.
  revert sz src. induction Rd as [|r Rd IH]; intros sz src F; cbn [dma_expect]; [unfold total_ext; cbn; lia|].
  inversion F; subst. rewrite IH by assumption. rewrite rup_total_ext by assumption. rewrite total_ext_cons. lia.
Qed.

Lemma dma_expect_src_keep Rd a sz src : (forall r, In r Rd -> r_core r <> 0) -> snd (dma_expect Rd a sz src) = src.
Proof.
  revert sz src. induction Rd as [|r Rd IH]; intros sz src H; cbn [dma_expect]; [reflexivity|].
  rewrite IH by (intros; apply H; right; assumption).
  destruct (Z.eqb_spec (r_core r) 0) as [E|E]; [|reflexivity]. exfalso. apply (H r); [left; reflexivity | exact E].
Qed.

Section AddrProofs.
  Variable enc : Z -> Z -> Z -> Z -> list Z.
  Variables (nc n bd : Z) (do_w : bool) (biases : list Z) (qs : list (Z * Z)).

  Lemma aligned_of_sections buf Rd d len :
    Forall2 (range_ok enc nc bd do_w biases qs buf) Rd (slice_sections nc n bd (d, len)) ->
    Forall2 (fun r c => r_core r = c /\ r_depth r = d) Rd (active_cores nc n bd).
  Proof.
    unfold slice_sections. cbn [fst snd]. generalize (active_cores nc n bd) as A.
    intros A. revert Rd. induction A as [|c A IH]; intros Rd F; cbn [map] in F.
    - inversion F. constructor.
    - apply Forall2_cons_r_inv in F. destruct F as (r & Rd' & -> & (H1 & H2 & _) & F'). constructor; [|apply IH; exact F'].
      cbn [fst snd] in H1, H2. tauto.
  Qed.

  (* the weight DMA of slice i reads exactly the bytes of the slice's (core, slice) ranges; its length is bounded by
     the recorded double-buffer size of parity i mod 2 *)
  Theorem dma_length_is_slice_lemma offs t i d len in_addr :
    encode_layout enc nc n bd do_w biases qs offs = Some t -> strictly_increasing offs ->
    nth_error (slice_pairs offs) i = Some (d, len) ->
    0 < nc -> 0 < n -> core_block_depth nc bd 0 <> 0 ->
    exists R1 Rd R2,
      t_ranges t = R1 ++ Rd ++ R2 /\ (forall r, In r Rd -> r_depth r = d) /\ (forall r, In r (R1 ++ R2) -> r_depth r <> d) /\
      create_dma nc (t_ranges t) d in_addr = Some (in_addr + total_ext R1, total_ext Rd) /\
      total_ext R1 mod 16 = 0 /\ 0 <= total_ext R1 /\ total_ext R1 + total_ext Rd <= zlen (t_buffer t) /\
      total_ext Rd = group_size (t_ranges t) d /\ total_ext Rd <= db_get (t_db t) (Z.of_nat i).
  Proof.
    intros E SI Hp Hnc Hn Hact0.
    destruct (slice_ranges enc nc n bd do_w biases qs offs t i d len E SI Hp) as (R1 & Rd & R2 & HR & Fd & Hother & W & C & L & Hg & Hdb).
    exists R1, Rd, R2. pose proof (aligned_of_sections _ _ _ _ Fd) as Al.
    assert (Hd : forall r, In r Rd -> r_depth r = d).
    { intros r Hr. destruct (Forall2_In_l _ _ _ _ Al Hr) as (c & _ & (_ & B)). exact B. }
    assert (Wext : Forall (fun r => 0 <= ext r) (t_ranges t)).
    { eapply Forall_impl; [|exact W]. intros r (_ & _ & _ & A & B & _). unfold ext.
      pose proof (round_up_16_bounds (r_scale_bytes r)). lia. }
    rewrite HR in Wext, C, W. apply Forall_app in Wext. destruct Wext as [We1 We']. apply Forall_app in We'. destruct We' as [Wed We2].
    apply Forall_app in W. destruct W as [W1 W']. apply Forall_app in W'. destruct W' as [Wd W2].
    apply chain_app in C. destruct C as [C1 C']. apply chain_app in C'. destruct C' as [Cd C2]. rewrite Z.add_0_l in Cd.
    split; [exact HR|]. split; [exact Hd|]. split; [exact Hother|].
    assert (Hmod : total_ext R1 mod 16 = 0).
    { clear - W1. induction W1 as [|r l (_ & _ & M & _) F IH]; [reflexivity|]. rewrite total_ext_cons. Z.div_mod_to_equations. lia. }
    split.
    - unfold create_dma. rewrite HR.
      rewrite (dma_loop_expect d (member (active_cores nc n bd)) in_addr (zseq 0 nc) R1 Rd R2 0 None).
      + (* core 0 is the first active core *)
        assert (HA : exists A', active_cores nc n bd = 0 :: A' /\ ~ In 0 A').
        { unfold active_cores, cores. destruct (zseq_head 0 (Z.min nc n) ltac:(lia)) as (tl & Etl).
          pose proof (zseq_sorted 0 (Z.min nc n)) as S. rewrite Etl in *. cbn [filter].
          destruct (Z.eqb_spec (core_block_depth nc bd 0) 0); [contradiction|]. cbn [negb].
          eexists. split; [reflexivity|]. intro Hin. apply filter_In in Hin. destruct Hin as [Hin _].
          inversion S as [|? ? _ F]; subst. rewrite Forall_forall in F. specialize (F 0 Hin). lia. }
        destruct HA as (A' & HA & Hn0). rewrite HA in Al.
        apply Forall2_cons_r_inv in Al. destruct Al as (r0 & Rd' & -> & (Hc0 & Hd0) & Al').
        cbn [dma_expect]. rewrite Hc0. cbn [Z.eqb].
        pose proof (dma_expect_size Rd' in_addr (0 + rup_total r0) (Some (in_addr + r_offset r0))) as Hsz.
        pose proof (dma_expect_src_keep Rd' in_addr (0 + rup_total r0) (Some (in_addr + r_offset r0))) as Hsrc.
        destruct (dma_expect Rd' in_addr (0 + rup_total r0) (Some (in_addr + r_offset r0))) as [sz src].
        cbn [fst snd] in Hsz, Hsrc. inversion Wd as [|? ? Wr0 Wd']; subst.
        rewrite Hsrc, Hsz.
        * destruct Cd as (O0 & _). rewrite O0. rewrite rup_total_ext by (destruct Wr0 as (_ & _ & _ & _ & _ & M & _); exact M).
          rewrite total_ext_cons. f_equal; try (f_equal; lia).
        * eapply Forall_impl; [|exact Wd']. intros r (_ & _ & _ & _ & _ & M & _). exact M.
        * intros r Hr E0. destruct (Forall2_In_l _ _ _ _ Al' Hr) as (c & Hc & (Hcc & _)). rewrite E0 in Hcc. subst c. contradiction.
      + rewrite filter_member_active. exact Al.
      + apply sorted_NoDup, zseq_sorted.
      + intros r0 Hr0 Hd0. exfalso. apply (Hother r0 Hr0 Hd0).
    - split; [exact Hmod|]. split; [apply total_ext_nonneg; exact We1|]. split.
      + rewrite L, HR, !total_ext_app. pose proof (total_ext_nonneg _ We2). lia.
      + split; [symmetry; exact Hg | exact Hdb].
  Qed.

  Lemma cw_unbuf_co d Rd base sc co co' : cw_expect d Rd false base sc co = cw_expect d Rd false base sc co'.
  Proof.
    revert co co'. induction Rd as [|r Rd IH]; intros co co'; cbn [cw_expect]; [reflexivity|].
    rewrite (IH co co'). reflexivity.
  Qed.

  Lemma cw_expect_buffered d sc w_addr Rd : forall start idx co,
    chain start idx Rd -> Forall (fun r => r_weight_bytes r mod 16 = 0) Rd ->
    cw_expect d Rd true w_addr sc co = cw_expect d Rd false (w_addr + co - start) sc 0.
  Proof.
    induction Rd as [|r Rd IH]; intros start idx co C F; cbn [cw_expect]; [reflexivity|].
    destruct C as (O & _ & C). inversion F; subst.
    rewrite (IH _ _ (co + rup_total r) C) by assumption. rewrite rup_total_ext by assumption.
    replace (w_addr + (co + ext r) - (r_offset r + ext r)) with (w_addr + co - r_offset r) by lia.
    replace (w_addr + co - r_offset r + r_offset r) with (w_addr + co) by lia. reflexivity.
  Qed.

  Lemma cw_expect_unbuffered_none d base Rd co :
    cw_expect d Rd false base None co =
    Some (map (fun r => (base + r_offset r + r_weight_offset r, round_up (r_weight_bytes r) 16)) Rd,
          map (fun r => (base + r_offset r, round_up (r_scale_bytes r) 16)) Rd).
  Proof.
    revert co. induction Rd as [|r Rd IH]; intro co; cbn [cw_expect map]; [reflexivity|]. rewrite IH. reflexivity.
  Qed.

  Definition in_window (lo hi base : Z) (p : Z * Z) : Prop :=
    lo <= fst p /\ 0 <= snd p /\ fst p + snd p <= hi /\ (fst p - base) mod 16 = 0.

  (* the weight and scale address ranges handed to the register generator for the slice starting at channel d:
     they are the weight / scale sections of the slice's (core, slice) ranges, 16-byte aligned relative to the tensor,
     inside the tensor (weights straight from the encoded tensor) or inside the double buffer of the slice's parity
     (weights DMA-ed into a buffer of double_buffer_sizes[i mod 2] bytes) *)
  Theorem npu_ranges_inside_tensor_lemma offs t i d len :
    encode_layout enc nc n bd do_w biases qs offs = Some t -> do_w = true -> strictly_increasing offs ->
    nth_error (slice_pairs offs) i = Some (d, len) -> 0 < nc ->
    exists R1 Rd R2,
      t_ranges t = R1 ++ Rd ++ R2 /\ (forall r, In r Rd -> r_depth r = d) /\ (forall r, In r (R1 ++ R2) -> r_depth r <> d) /\
      forall (buffered : bool) (w_addr bsz : Z), group_size (t_ranges t) d <= bsz ->
        let base := if buffered then w_addr - total_ext R1 else w_addr in
        let ws := map (fun r => (base + r_offset r + r_weight_offset r, r_weight_bytes r)) Rd in
        let bs := map (fun r => (base + r_offset r, r_weight_offset r)) Rd in
        create_weights nc (t_ranges t) d buffered w_addr None = Some (ws, bs) /\
        Forall (in_window w_addr (w_addr + (if buffered then bsz else zlen (t_buffer t))) w_addr) (ws ++ bs).
  Proof.
    intros E Edw SI Hp Hnc.
    destruct (slice_ranges enc nc n bd do_w biases qs offs t i d len E SI Hp) as (R1 & Rd & R2 & HR & Fd & Hother & W & C & L & Hg & Hdb).
    exists R1, Rd, R2. pose proof (aligned_of_sections _ _ _ _ Fd) as Al.
    assert (Hd : forall r, In r Rd -> r_depth r = d).
    { intros r Hr. destruct (Forall2_In_l _ _ _ _ Al Hr) as (c & _ & (_ & B)). exact B. }
    split; [exact HR|]. split; [exact Hd|]. split; [exact Hother|].
    assert (Wext : Forall (fun r => 0 <= ext r) (t_ranges t)).
    { eapply Forall_impl; [|exact W]. intros r (_ & _ & _ & A & B & _). unfold ext.
      pose proof (round_up_16_bounds (r_scale_bytes r)). lia. }
    rewrite HR in Wext, C, W. apply Forall_app in Wext. destruct Wext as [We1 We']. apply Forall_app in We'. destruct We' as [Wed We2].
    apply Forall_app in W. destruct W as [W1 W']. apply Forall_app in W'. destruct W' as [Wd W2].
    apply chain_app in C. destruct C as [C1 C']. apply chain_app in C'. destruct C' as [Cd C2]. rewrite Z.add_0_l in Cd.
    assert (Hmod : total_ext R1 mod 16 = 0).
    { clear - W1. induction W1 as [|r l (_ & _ & M & _) F IH]; [reflexivity|]. rewrite total_ext_cons. Z.div_mod_to_equations. lia. }
    pose proof (total_ext_nonneg _ We1) as N1. pose proof (total_ext_nonneg _ We2) as N2.
    assert (Htot : total_ext R1 + total_ext Rd <= zlen (t_buffer t)).
    { rewrite L, HR, !total_ext_app. lia. }
    assert (Wm : Forall (fun r => r_weight_bytes r mod 16 = 0) Rd).
    { eapply Forall_impl; [|exact Wd]. intros r (_ & _ & _ & _ & _ & M & _). exact M. }
    intros buffered w_addr bsz Hbsz base ws bs. rewrite Hg in Hbsz. split.
    - unfold create_weights. rewrite HR.
      rewrite (cw_loop_expect d (member (active_cores nc n bd)) buffered w_addr None (zseq 0 nc) R1 Rd R2 0).
      + assert (Hform : cw_expect d Rd buffered w_addr None 0 = cw_expect d Rd false base None 0).
        { subst base. destruct buffered; [|reflexivity].
          rewrite (cw_expect_buffered d None w_addr Rd _ _ 0 Cd Wm). f_equal. lia. }
        rewrite Hform, cw_expect_unbuffered_none. subst ws bs. f_equal. f_equal.
        * apply map_ext_in. intros r Hr. rewrite Forall_forall in Wm. rewrite round_up_16_id by (apply Wm; exact Hr). reflexivity.
        * apply map_ext_in. intros r Hr. rewrite Forall_forall in Wd. destruct (Wd r Hr) as (_ & _ & _ & _ & _ & _ & _ & X).
          rewrite Edw in X. destruct X as [X _]. rewrite X. reflexivity.
      + rewrite filter_member_active. exact Al.
      + apply sorted_NoDup, zseq_sorted.
      + intros r0 Hr0 Hd0. exfalso. apply (Hother r0 Hr0 Hd0).
    - apply Forall_app. subst ws bs. rewrite !Forall_map, !Forall_forall.
      assert (Hin : forall r, In r Rd ->
                total_ext R1 <= r_offset r /\ r_offset r + ext r <= total_ext R1 + total_ext Rd /\ r_offset r mod 16 = 0 /\
                r_weight_offset r = round_up (r_scale_bytes r) 16 /\ 0 <= r_scale_bytes r /\ 0 <= r_weight_bytes r).
      { intros r Hr. destruct (chain_upper _ _ _ Cd Wed r Hr) as [A B].
        rewrite Forall_forall in Wd. destruct (Wd r Hr) as (_ & M & _ & S0 & W0 & _ & _ & X). rewrite Edw in X. tauto. }
      assert (Hwin : (if buffered then bsz else zlen (t_buffer t)) >=
                     (if buffered then total_ext Rd else total_ext R1 + total_ext Rd)) by (destruct buffered; lia).
      split; intros r Hr; destruct (Hin r Hr) as (A & B & M & X & S0 & W0); unfold in_window, ext in *; cbn [fst snd];
        pose proof (round_up_16_bounds (r_scale_bytes r)); pose proof (round_up_16_mod (r_scale_bytes r));
        subst base; destruct buffered; repeat split; try lia; rewrite ?X; Z.div_mod_to_equations; lia.
  Qed.

  (* the size the scheduler gives a SINGLE weight buffer, min(len(buffer), max(double_buffer_sizes)), bounds every slice
     (a double buffer of parity i mod 2 has double_buffer_sizes[i mod 2], which bounds the slices of that parity) *)
  Theorem single_buffer_bounds_lemma offs t i d len :
    encode_layout enc nc n bd do_w biases qs offs = Some t -> strictly_increasing offs ->
    nth_error (slice_pairs offs) i = Some (d, len) ->
    group_size (t_ranges t) d <= single_buffer_size (zlen (t_buffer t)) (t_db t).
  Proof.
    intros E SI Hp.
    destruct (slice_ranges enc nc n bd do_w biases qs offs t i d len E SI Hp) as (R1 & Rd & R2 & HR & _ & _ & W & _ & L & Hg & Hdb).
    assert (Wext : Forall (fun r => 0 <= ext r) (t_ranges t)).
    { eapply Forall_impl; [|exact W]. intros r (_ & _ & _ & A & B & _). unfold ext.
      pose proof (round_up_16_bounds (r_scale_bytes r)). lia. }
    rewrite HR in Wext. apply Forall_app in Wext. destruct Wext as [We1 We']. apply Forall_app in We'. destruct We' as [_ We2].
    pose proof (total_ext_nonneg _ We1). pose proof (total_ext_nonneg _ We2).
    rewrite Hg, L, HR, !total_ext_app. unfold single_buffer_size, max_range_bytes, db_get in *.
    destruct (Z.of_nat i mod 2 =? 0); lia.
  Qed.
End AddrProofs.

(* ---- a separate scale tensor (the weights tensor came from the cache, the scales were encoded on their own) *)
Lemma od_get_aligned d A : forall pre Sd post,
  Forall2 (fun r c => r_core r = c /\ r_depth r = d) Sd A -> NoDup A ->
  (forall r0, In r0 (pre ++ post) -> r_depth r0 = d -> ~ In (r_core r0) A) ->
  Forall2 (fun sr c => od_get (pre ++ Sd ++ post) c d = Some sr) Sd A.
Proof.
  induction A as [|c A IH]; intros pre Sd post F ND Hfr.
  - inversion F. constructor.
  - apply Forall2_cons_r_inv in F. destruct F as (r & Sd' & -> & [Hc Hd] & F').
    destruct (lookup_step d pre r Sd' post c A ND Hc Hd Hfr) as [Hget Hfr'].
    constructor; [exact Hget|]. inversion ND; subst.
    replace (pre ++ (r :: Sd') ++ post) with ((pre ++ [r]) ++ Sd' ++ post) by (rewrite <- !app_assoc; reflexivity).
    apply IH; assumption.
Qed.

Lemma cw_expect_unbuffered_some d base srs s_addr A : forall Rd Sd co,
  Forall2 (fun r c => r_core r = c /\ r_depth r = d) Rd A ->
  Forall2 (fun sr c => od_get srs c d = Some sr) Sd A ->
  cw_expect d Rd false base (Some (srs, s_addr)) co =
  Some (map (fun r => (base + r_offset r + r_weight_offset r, round_up (r_weight_bytes r) 16)) Rd,
        map (fun sr => (s_addr + r_offset sr, round_up (r_scale_bytes sr) 16)) Sd).
Proof.
  induction A as [|c A IH]; intros Rd Sd co F1 F2.
  - inversion F1. inversion F2. reflexivity.
  - apply Forall2_cons_r_inv in F1. destruct F1 as (r & Rd' & -> & [Hc Hd] & F1').
    apply Forall2_cons_r_inv in F2. destruct F2 as (sr & Sd' & -> & Hg & F2').
    cbn [cw_expect map]. rewrite Hc, Hg. rewrite (IH Rd' Sd' co F1' F2'). reflexivity.
Qed.

Theorem npu_scale_ranges_inside_scale_tensor_lemma
        enc enc' nc n bd biases qs biases' qs' offs t ts i d len :
  encode_layout enc nc n bd true biases qs offs = Some t ->
  encode_layout enc' nc n bd false biases' qs' offs = Some ts ->
  strictly_increasing offs -> nth_error (slice_pairs offs) i = Some (d, len) -> 0 < nc ->
  exists R1 Rd R2 S1 Sd S2,
    t_ranges t = R1 ++ Rd ++ R2 /\ t_ranges ts = S1 ++ Sd ++ S2 /\
    map r_core Sd = map r_core Rd /\ (forall r, In r (Rd ++ Sd) -> r_depth r = d) /\
    (forall r, In r (R1 ++ R2 ++ S1 ++ S2) -> r_depth r <> d) /\
    forall (buffered : bool) (w_addr s_addr : Z),
      let base := if buffered then w_addr - total_ext R1 else w_addr in
      let ws := map (fun r => (base + r_offset r + r_weight_offset r, r_weight_bytes r)) Rd in
      let bs := map (fun sr => (s_addr + r_offset sr, round_up (r_scale_bytes sr) 16)) Sd in
      create_weights nc (t_ranges t) d buffered w_addr (Some (t_ranges ts, s_addr)) = Some (ws, bs) /\
      Forall (in_window s_addr (s_addr + zlen (t_buffer ts)) s_addr) bs.
Proof.
  intros E Es SI Hp Hnc.
  destruct (slice_ranges enc nc n bd true biases qs offs t i d len E SI Hp) as (R1 & Rd & R2 & HR & Fd & Hother & W & C & L & Hg & Hdb).
  destruct (slice_ranges enc' nc n bd false biases' qs' offs ts i d len Es SI Hp) as (S1 & Sd & S2 & HS & Fs & Hothers & Ws & Cs & Ls & _ & _).
  exists R1, Rd, R2, S1, Sd, S2.
  pose proof (aligned_of_sections _ _ _ _ _ _ _ _ _ _ _ Fd) as Al.
  pose proof (aligned_of_sections _ _ _ _ _ _ _ _ _ _ _ Fs) as Als.
  assert (Hmap : forall X, Forall2 (fun (r : wrange) (c : Z) => r_core r = c /\ r_depth r = d) X (active_cores nc n bd) ->
                           map r_core X = active_cores nc n bd).
  { intro X. generalize (active_cores nc n bd). intros A F. induction F as [|r c X' A' [Hc _] F IH]; [reflexivity|].
    cbn [map]. rewrite IH, Hc. reflexivity. }
  split; [exact HR|]. split; [exact HS|]. split; [rewrite (Hmap _ Al), (Hmap _ Als); reflexivity|].
  split.
  { intros r Hr. apply in_app_or in Hr. destruct Hr as [Hr|Hr].
    - destruct (Forall2_In_l _ _ _ _ Al Hr) as (c & _ & (_ & B)). exact B.
    - destruct (Forall2_In_l _ _ _ _ Als Hr) as (c & _ & (_ & B)). exact B. }
  split.
  { intros r Hr. rewrite app_assoc in Hr. apply in_app_or in Hr. destruct Hr as [Hr|Hr]; [apply Hother | apply Hothers]; exact Hr. }
  intros buffered w_addr s_addr base ws bs.
  assert (Wm : Forall (fun r => r_weight_bytes r mod 16 = 0) Rd).
  { rewrite HR in W. apply Forall_app in W. destruct W as [_ W']. apply Forall_app in W'. destruct W' as [Wd _].
    eapply Forall_impl; [|exact Wd]. intros r (_ & _ & _ & _ & _ & M & _). exact M. }
  assert (Cd : chain (total_ext R1) (zlen R1) Rd).
  { rewrite HR in C. apply chain_app in C. destruct C as [_ C']. apply chain_app in C'. destruct C' as [Cd _].
    rewrite !Z.add_0_l in Cd. exact Cd. }
  split.
  - unfold create_weights. rewrite HR.
    rewrite (cw_loop_expect d (member (active_cores nc n bd)) buffered w_addr (Some (t_ranges ts, s_addr)) (zseq 0 nc) R1 Rd R2 0).
    + assert (Hform : cw_expect d Rd buffered w_addr (Some (t_ranges ts, s_addr)) 0 =
                      cw_expect d Rd false base (Some (t_ranges ts, s_addr)) 0).
      { subst base. destruct buffered; [|reflexivity].
        rewrite (cw_expect_buffered d _ w_addr Rd _ _ 0 Cd Wm). f_equal. lia. }
      rewrite Hform.
      rewrite (cw_expect_unbuffered_some d base (t_ranges ts) s_addr (active_cores nc n bd) Rd Sd 0 Al).
      * subst ws bs. f_equal. f_equal. apply map_ext_in. intros r Hr. rewrite Forall_forall in Wm.
        rewrite round_up_16_id by (apply Wm; exact Hr). reflexivity.
      * rewrite HS. apply od_get_aligned; [exact Als | apply active_cores_NoDup |].
        intros r0 Hr0 Hd0. exfalso. apply (Hothers r0 Hr0 Hd0).
    + rewrite filter_member_active. exact Al.
    + apply sorted_NoDup, zseq_sorted.
    + intros r0 Hr0 Hd0. exfalso. apply (Hother r0 Hr0 Hd0).
  - subst bs. rewrite Forall_map, Forall_forall. intros sr Hsr.
    assert (Hin : In sr (t_ranges ts)) by (rewrite HS; apply in_or_app; right; apply in_or_app; left; exact Hsr).
    rewrite Forall_forall in Ws. destruct (Ws sr Hin) as (O0 & M & _ & S0 & _ & _ & B & X). destruct X as [_ X0].
    unfold in_window, ext in *. cbn [fst snd]. rewrite X0 in B.
    pose proof (round_up_16_bounds (r_scale_bytes sr)). repeat split; try lia.
    replace (s_addr + r_offset sr - s_addr) with (r_offset sr) by lia. exact M.
Qed.

(* ================================================================== the encoding exists (no assertion fails) *)
Section Total.
  Variable enc : Z -> Z -> Z -> Z -> list Z.
  Variables (nc n bd : Z) (do_w : bool) (biases : list Z) (qs : list (Z * Z)).
  Hypothesis enc_mult16 : do_w = true -> forall c d l b, zlen (enc c d l b) mod 16 = 0.

  Lemma core_step_total d len core s :
    zlen (s_stream s) mod 16 = 0 ->
    (core_block_depth nc bd core <> 0 -> sec_scales nc biases qs (core, d, len) <> None) ->
    exists s', core_step enc nc bd do_w biases qs d len core s = Some s' /\ zlen (s_stream s') mod 16 = 0.
  Proof.
    intros Hm Hs. unfold core_step. destruct (Z.eqb_spec (core_block_depth nc bd core) 0) as [E0|E0]; [eauto|].
    specialize (Hs E0). unfold sec_scales in Hs.
    destruct (scale_stream (py_slice biases (d + core) (d + core + len) nc) (py_slice qs (d + core) (d + core + len) nc)) as [ss|];
      [|congruence].
    destruct (pad16_spec (s_stream s ++ ss)) as (z & _ & Hzl). pose proof (round_up_16_mod (zlen (s_stream s ++ ss))) as RM.
    destruct do_w eqn:Edw.
    - specialize (enc_mult16 eq_refl core d len (core_block_depth nc bd core)).
      assert (Hmod : zlen (pad16 (s_stream s ++ ss) ++ enc core d len (core_block_depth nc bd core)) mod 16 = 0).
      { rewrite zlen_app, Hzl. Z.div_mod_to_equations. lia. }
      rewrite Hmod. cbn [Z.eqb]. eexists. split; [reflexivity|]. cbn [s_stream]. exact Hmod.
    - eexists. split; [reflexivity|]. cbn [s_stream]. rewrite Hzl. exact RM.
  Qed.

  Lemma cores_loop_total d len cs : forall s,
    zlen (s_stream s) mod 16 = 0 ->
    (forall c, In c cs -> core_block_depth nc bd c <> 0 -> sec_scales nc biases qs (c, d, len) <> None) ->
    exists s', cores_loop enc nc bd do_w biases qs d len cs s = Some s' /\ zlen (s_stream s') mod 16 = 0.
  Proof.
    induction cs as [|c cs IH]; intros s Hm Hs; cbn [cores_loop]; [eauto|].
    destruct (core_step_total d len c s Hm (Hs c (or_introl eq_refl))) as (s1 & -> & Hm1).
    apply IH; [exact Hm1|]. intros c' Hc'. apply Hs. right. exact Hc'.
  Qed.

  Lemma slices_loop_total offs : forall idx s db,
    zlen (s_stream s) mod 16 = 0 ->
    (forall p, In p (slice_pairs offs) -> 0 <= fst p < n) ->
    (forall sec, In sec (sections nc n bd offs) -> sec_scales nc biases qs sec <> None) ->
    exists r, slices_loop enc nc n bd do_w biases qs offs idx s db = Some r.
  Proof.
    induction offs as [|a t IH]; intros idx s db Hm Hp Hs; [cbn; eauto|].
    destruct t as [|b t]; [cbn; eauto|].
    change (slices_loop enc nc n bd do_w biases qs (a :: b :: t) idx s db) with
      (match slice_step enc nc n bd do_w biases qs idx a b s db with
       | None => None
       | Some (s1, db1) => slices_loop enc nc n bd do_w biases qs (b :: t) (idx + 1) s1 db1
       end).
    unfold slice_step. rewrite slice_pairs_cons in Hp.
    pose proof (Hp (a, b - a) (or_introl eq_refl)) as Ha. cbn [fst] in Ha.
    replace ((0 <=? a) && (a <? n)) with true by (symmetry; apply andb_true_iff; split; [apply Z.leb_le | apply Z.ltb_lt]; lia).
    unfold sections in Hs. rewrite slice_pairs_cons in Hs. cbn [flat_map] in Hs.
    destruct (cores_loop_total a (b - a) (cores nc n) s Hm) as (s1 & -> & Hm1).
    { intros c Hc Hact. apply Hs. apply in_or_app. left. unfold slice_sections. cbn [fst snd]. apply in_map_iff.
      exists c. split; [reflexivity|]. unfold active_cores. apply filter_In. split; [exact Hc|].
      apply negb_true_iff. apply Z.eqb_neq. exact Hact. }
    apply IH; [exact Hm1 | |].
    - intros p Hin. apply Hp. right. exact Hin.
    - intros sec Hin. apply Hs. apply in_or_app. right. exact Hin.
  Qed.

  (* closed slices inside the operator's depth and in-range records: the encoding exists *)
  Theorem encode_layout_total offs :
    1 < zlen offs ->
    (forall p, In p (slice_pairs offs) -> 0 <= fst p < n) ->
    (forall sec, In sec (sections nc n bd offs) -> sec_scales nc biases qs sec <> None) ->
    exists t, encode_layout enc nc n bd do_w biases qs offs = Some t.
  Proof.
    intros Hl Hp Hs. unfold encode_layout. destruct (Z.leb_spec (zlen offs) 1); [lia|].
    destruct (slices_loop_total offs 0 (mkSt [] [] 0) (0, 0) eq_refl Hp Hs) as ([s db] & ->). eauto.
  Qed.
End Total.

Lemma Forall2_In_r {A B} (P : A -> B -> Prop) l1 l2 b :
  Forall2 P l1 l2 -> In b l2 -> exists a, In a l1 /\ P a b.
Proof.
  induction 1 as [|x y l1 l2 H F IH]; intros []; [subst; exists x; split; [left; reflexivity | exact H]|].
  destruct (IH H0) as (a & Ha & Pa). exists a. split; [right; exact Ha | exact Pa].
Qed.

(* a successful encoding (with or without weights) shows the premises of encode_layout_total *)
Lemma encode_layout_premises enc nc n bd do_w biases qs offs t :
  encode_layout enc nc n bd do_w biases qs offs = Some t -> strictly_increasing offs ->
  1 < zlen offs /\ (forall p, In p (slice_pairs offs) -> 0 <= fst p < n) /\
  (forall sec, In sec (sections nc n bd offs) -> sec_scales nc biases qs sec <> None).
Proof.
  intros E SI. destruct (layout_spec _ _ _ _ _ _ _ _ _ E SI) as (F & _ & _ & _ & Hp & Hl).
  split; [exact Hl|]. split; [exact Hp|].
  intros sec Hsec.
  destruct (Forall2_In_r _ _ _ _ F Hsec) as (r & _ & (_ & _ & _ & _ & _ & _ & _ & (ss & S1 & _) & _)). congruence.
Qed.

(* ================================================================== CompressedWeightCache *)
Lemma NoDup_app_intro {A} (l1 l2 : list A) :
  NoDup l1 -> NoDup l2 -> (forall x, In x l1 -> ~ In x l2) -> NoDup (l1 ++ l2).
Proof.
  induction 1 as [|a l1 Hn ND IH]; intros ND2 Hd; cbn [app]; [exact ND2|].
  constructor.
  - intro Hin. apply in_app_or in Hin. destruct Hin as [Hin|Hin]; [contradiction|]. apply (Hd a); [left; reflexivity | exact Hin].
  - apply IH; [exact ND2|]. intros x Hx. apply Hd. right. exact Hx.
Qed.

Lemma sections_keys_NoDup nc n bd offs :
  strictly_increasing offs -> NoDup (map key_of_sec (sections nc n bd offs)).
Proof.
  unfold sections. induction offs as [|a t IH]; [constructor|]. destruct t as [|b t]; [constructor|].
  intro SI. apply strictly_increasing_cons in SI. destruct SI as [Hab SI].
  rewrite slice_pairs_cons. cbn [flat_map]. rewrite map_app. apply NoDup_app_intro.
  - unfold slice_sections. rewrite map_map. cbn [fst snd key_of_sec].
    pose proof (active_cores_NoDup nc n bd) as ND. induction ND as [|c A Hn ND IHA]; cbn [map]; constructor; [|exact IHA].
    intro Hin. apply in_map_iff in Hin. destruct Hin as (c' & E & Hc'). inversion E. subst. contradiction.
  - apply IH. exact SI.
  - intros k Hk Hk2. unfold slice_sections in Hk. rewrite map_map in Hk. apply in_map_iff in Hk. destruct Hk as (c & <- & _).
    apply in_map_iff in Hk2. destruct Hk2 as (sec & Ek & Hsec). apply in_flat_map in Hsec. destruct Hsec as (p & Hp & Hs).
    unfold slice_sections in Hs. apply in_map_iff in Hs. destruct Hs as (c' & <- & _).
    cbn [key_of_sec fst snd] in Ek. inversion Ek.
    pose proof (slice_pairs_bounds _ _ SI Hp) as (B & _). cbn [hd] in B. lia.
Qed.

Lemma od_get_NoDup rs r :
  NoDup (map key_of_range rs) -> In r rs -> od_get rs (r_core r) (r_depth r) = Some r.
Proof.
  induction rs as [|x rs IH]; intros ND Hin; [destruct Hin|]. cbn [map] in ND. inversion ND as [|? ? Hn ND']; subst.
  cbn [od_get]. unfold key_eqb.
  destruct (Z.eqb_spec (r_core x) (r_core r)) as [E1|E1]; destruct (Z.eqb_spec (r_depth x) (r_depth r)) as [E2|E2]; cbn [andb].
  - destruct Hin as [->|Hin]; [reflexivity|]. exfalso. apply Hn. apply in_map_iff. exists r. split; [|exact Hin].
    unfold key_of_range. congruence.
  - destruct Hin as [->|Hin]; [congruence|]. apply IH; assumption.
  - destruct Hin as [->|Hin]; [congruence|]. apply IH; assumption.
  - destruct Hin as [->|Hin]; [congruence|]. apply IH; assumption.
Qed.

Lemma Forall2_attach {A B C} (P : A -> C -> Prop) (Q : B -> C -> Prop) l1 l2 l :
  Forall2 P l1 l -> Forall2 Q l2 l -> Forall2 (fun a c => P a c /\ exists b, In b l2 /\ Q b c) l1 l.
Proof.
  intro F. revert l2. induction F as [|a c l1 l Hp F IH]; intros l2 G; inversion G; subst; constructor.
  - split; [exact Hp|]. eexists. split; [left; reflexivity | eassumption].
  - eapply Forall2_imp; [|apply IH; eassumption]. intros a0 c0 (X & b0 & Hb & Y). split; [exact X|].
    exists b0. split; [right; exact Hb | exact Y].
Qed.

Lemma Forall2_map_eq {A B C} (P : A -> B -> Prop) (f : A -> C) (g : B -> C) l1 l2 :
  Forall2 P l1 l2 -> (forall a b, In a l1 -> P a b -> f a = g b) -> map f l1 = map g l2.
Proof.
  induction 1 as [|a b l1 l2 H F IH]; intro E; [reflexivity|]. cbn [map]. f_equal.
  - apply E; [left; reflexivity | exact H].
  - apply IH. intros. apply E; [right; assumption | assumption].
Qed.

Lemma list_eqb_eq a b : list_eqb a b = true -> a = b.
Proof.
  revert b. induction a as [|x a IH]; intros [|y b]; cbn [list_eqb]; try discriminate; [reflexivity|].
  intro H. apply andb_true_iff in H. destruct H as [E1 E2]. apply Z.eqb_eq in E1. subst. f_equal. apply IH. exact E2.
Qed.

Lemma wkey_eqb_eq a b : wkey_eqb a b = true -> a = b.
Proof.
  destruct a as [[[[[[a1 a2] a3] [a4 a5]] a6] a7] a8]. destruct b as [[[[[[b1 b2] b3] [b4 b5]] b6] b7] b8]. unfold wkey_eqb.
  intro H. repeat (apply andb_true_iff in H; destruct H as [H ?]).
  repeat match goal with X : (_ =? _) = true |- _ => apply Z.eqb_eq in X end.
  match goal with X : list_eqb _ _ = true |- _ => apply list_eqb_eq in X end.
  match goal with X : Bool.eqb _ _ = true |- _ => apply eqb_prop in X end. subst. reflexivity.
Qed.

Lemma skey_eqb_eq a b : skey_eqb a b = true -> a = b.
Proof.
  destruct a as [[a1 a2] a3]. destruct b as [[b1 b2] b3]. unfold skey_eqb.
  intro H. repeat (apply andb_true_iff in H; destruct H as [H ?]).
  repeat match goal with X : (_ =? _) = true |- _ => apply Z.eqb_eq in X end. subst. reflexivity.
Qed.

Lemma cache_get_In c k e : cache_get c k = Some e -> In e c /\ e_key e = k.
Proof.
  induction c as [|x c IH]; cbn [cache_get]; [discriminate|].
  destruct (wkey_eqb (e_key x) k) eqn:E.
  - intro H. inversion H. subst. split; [left; reflexivity | apply wkey_eqb_eq; exact E].
  - intro H. destruct (IH H). split; [right; assumption | assumption].
Qed.

Lemma cache_set_In c e x : In x (cache_set c e) -> x = e \/ In x c.
Proof.
  induction c as [|y c IH]; cbn [cache_set]; [intros [<-|[]]; left; reflexivity|].
  destruct (wkey_eqb (e_key y) (e_key e)).
  - intros [<-|H]; [left; reflexivity | right; right; exact H].
  - intros [<-|H]; [right; left; reflexivity|]. destruct (IH H); [left; assumption | right; right; assumption].
Qed.

Section CacheProofs.
  Variable codec : wparams -> Z -> Z -> Z -> Z -> list Z.
  (* the only fact used about the weight codec (C07's subject): the stream length is a multiple of 16 *)
  Hypothesis codec_mult16 : forall w c d l b, zlen (codec w c d l b) mod 16 = 0.
  (* any key function (wkey_of for the code that exists) *)
  Variable keyf : request -> wkey.

  Definition wf_request (q : request) : Prop := strictly_increasing (wp_slices (q_wp q)).

  (* requests with equal cache keys have equal inputs: the weight key determines everything the weight stream depends on,
     and together with the scale key everything the scale records depend on *)
  Definition key_determines_inputs (h : list request) : Prop :=
    forall q1 q2, In q1 h -> In q2 h -> keyf q1 = keyf q2 ->
      q_wp q1 = q_wp q2 /\
      (skey_of q1 = skey_of q2 -> q_biases q1 = q_biases q2 /\ q_qscales q1 = q_qscales q2).

  Definition q_sections (q : request) : list (Z * Z * Z) :=
    let w := q_wp q in sections (wp_ncores w) (wp_ofm_depth w) (wp_block_depth w) (wp_slices w).
  Definition spec_entry (qw qs : request) (sec : Z * Z * Z) : Z * Z * option (list Z) * list Z :=
    (fst (fst sec), snd (fst sec),
     sec_scales (wp_ncores (q_wp qs)) (q_biases qs) (q_qscales qs) sec,
     sec_weights (codec (q_wp qw)) (wp_ncores (q_wp qw)) (wp_block_depth (q_wp qw)) sec).

  Lemma effective_fresh q t :
    encode_req codec q true = Some t -> wf_request q -> effective (t, None) = map (spec_entry q q) (q_sections q).
  Proof.
    intros E WF. unfold encode_req in E. destruct (layout_spec _ _ _ _ _ _ _ _ _ E WF) as (F & _).
    unfold effective, q_sections. eapply Forall2_map_eq; [exact F|].
    intros r sec _ (A & B & _ & _ & _ & _ & _ & (ss & S1 & S2 & S3) & (W1 & W2 & W3)).
    unfold spec_entry. rewrite A, B, S1, S2, S3, W3. reflexivity.
  Qed.

  Lemma effective_scale_only qw q tw ts :
    encode_req codec qw true = Some tw -> encode_req codec q false = Some ts ->
    q_wp qw = q_wp q -> wf_request q ->
    effective (tw, Some ts) = map (spec_entry qw q) (q_sections q).
  Proof.
    intros Ew Es Hwp WF. unfold encode_req in Ew, Es. rewrite Hwp in Ew.
    destruct (layout_spec _ _ _ _ _ _ _ _ _ Ew WF) as (Fw & _).
    destruct (layout_spec _ _ _ _ _ _ _ _ _ Es WF) as (Fs & _).
    assert (NDs : NoDup (map key_of_range (t_ranges ts))).
    { rewrite (range_ok_keys _ _ _ _ _ _ _ _ _ Fs). apply sections_keys_NoDup. exact WF. }
    unfold effective, q_sections.
    pose proof (Forall2_attach _ _ _ _ _ Fw Fs) as J.
    eapply Forall2_map_eq; [exact J|].
    intros r sec _ ((A & B & _ & _ & _ & _ & _ & _ & (W1 & W2 & W3)) & y & Hy & (As & Bs & _ & _ & _ & _ & _ & (ss & S1 & S2 & S3) & _)).
    assert (K1 : r_core y = r_core r) by congruence. assert (K2 : r_depth y = r_depth r) by congruence.
    rewrite <- K1, <- K2. rewrite (od_get_NoDup _ _ NDs Hy).
    unfold spec_entry. rewrite S2, S3, W3, As, Bs, S1, Hwp. reflexivity.
  Qed.

  (* every cache entry was produced by a fresh encoding of an earlier request with that key *)
  Definition cache_inv (c : cache) (seen : list request) : Prop :=
    forall e, In e c -> exists q', In q' seen /\ e_key e = keyf q' /\ encode_req codec q' true = Some (e_tensor e) /\
                                  e_scc e = skey_of q'.

  Lemma encode_req_ext q q' do_w :
    q_wp q = q_wp q' -> q_biases q = q_biases q' -> q_qscales q = q_qscales q' -> encode_req codec q do_w = encode_req codec q' do_w.
  Proof. intros H1 H2 H3. unfold encode_req. rewrite H1, H2, H3. reflexivity. Qed.

  Lemma respond_sound c seen q c' r :
    cache_inv c seen -> key_determines_inputs (q :: seen) -> wf_request q ->
    respond codec keyf c q = Some (c', r) ->
    cache_inv c' (q :: seen) /\
    exists tf, fresh codec q = Some tf /\ effective r = effective tf.
  Proof.
    intros Inv KD WF. unfold respond.
    destruct (cache_get c (keyf q)) as [e|] eqn:Eg.
    - destruct (cache_get_In _ _ _ Eg) as [Hin Hk].
      destruct (Inv e Hin) as (q' & Hq' & Hk' & Henc & Hscc).
      assert (Hkeys : keyf q = keyf q') by congruence.
      destruct (KD q q' (or_introl eq_refl) (or_intror Hq') Hkeys) as [Hwp Hsc].
      destruct (skey_eqb (e_scc e) (skey_of q)) eqn:Es.
      + intro E. inversion E. subst c' r. split.
        * intros e0 H0. destruct (Inv e0 H0) as (q0 & A & B). exists q0. split; [right; exact A | exact B].
        * apply skey_eqb_eq in Es. destruct (Hsc ltac:(congruence)) as [Hb Hq].
          exists (e_tensor e, None). split; [|reflexivity].
          unfold fresh. rewrite (encode_req_ext q q' true Hwp Hb Hq), Henc. reflexivity.
      + destruct (encode_req codec q false) as [ts|] eqn:Ets; [|discriminate].
        intro E. inversion E. subst c' r. split.
        * intros e0 H0. destruct (Inv e0 H0) as (q0 & A & B). exists q0. split; [right; exact A | exact B].
        * assert (Hex : exists t, encode_req codec q true = Some t).
          { unfold encode_req in Ets |- *.
            destruct (encode_layout_premises _ _ _ _ _ _ _ _ _ Ets WF) as (P1 & P2 & P3).
            apply encode_layout_total; try assumption. intros _. apply codec_mult16. }
          destruct Hex as (t & Et). exists (t, None). split; [unfold fresh; rewrite Et; reflexivity|].
          rewrite (effective_scale_only q' q (e_tensor e) ts Henc Ets (eq_sym Hwp) WF).
          rewrite (effective_fresh q t Et WF).
          apply map_ext. intro sec. unfold spec_entry. rewrite Hwp. reflexivity.
    - destruct (encode_req codec q true) as [t|] eqn:Et; [|discriminate].
      intro E. inversion E. subst c' r. split.
      + intros e0 H0. apply cache_set_In in H0. destruct H0 as [->|H0].
        * exists q. cbn [e_key e_tensor e_scc]. repeat split; [left; reflexivity | exact Et].
        * destruct (Inv e0 H0) as (q0 & A & B). exists q0. split; [right; exact A | exact B].
      + exists (t, None). split; [unfold fresh; rewrite Et; reflexivity | reflexivity].
  Qed.

  Lemma run_sound h : forall c seen resps,
    cache_inv c seen -> key_determines_inputs (rev h ++ seen) -> Forall wf_request h ->
    run codec keyf c h = Some resps ->
    Forall2 (fun q r => exists tf, fresh codec q = Some tf /\ effective r = effective tf) h resps.
  Proof.
    induction h as [|q h IH]; intros c seen resps Inv KD WF; cbn [run].
    - intro E. inversion E. constructor.
    - destruct (respond codec keyf c q) as [[c' r]|] eqn:Er; [|discriminate].
      destruct (run codec keyf c' h) as [rs|] eqn:Erun; [|discriminate].
      intro E. inversion E. subst resps. inversion WF as [|? ? WFq WFh]; subst.
      assert (KDq : key_determines_inputs (q :: seen)).
      { intros q1 q2 H1 H2. apply KD; cbn [rev]; rewrite <- app_assoc; apply in_or_app; right; assumption. }
      destruct (respond_sound c seen q c' r Inv KDq WFq Er) as [Inv' Hr].
      constructor; [exact Hr|].
      apply (IH c' (q :: seen) rs Inv'); [|exact WFh | exact Erun].
      cbn [rev] in KD. rewrite <- app_assoc in KD. exact KD.
  Qed.

  (* under key_determines_inputs every response of a history (misses and hits) carries, for every (core, slice) key, the
     same scale bytes and weight bytes as a fresh encoding of that request *)
  Theorem cache_reuse_sound_lemma h resps :
    key_determines_inputs h -> Forall wf_request h -> run codec keyf [] h = Some resps ->
    Forall2 (fun q r => exists tf, fresh codec q = Some tf /\ effective r = effective tf) h resps.
  Proof.
    intros KD WF E. apply (run_sound h [] [] resps); try assumption.
    - intros e [].
    - rewrite app_nil_r. intros q1 q2 H1 H2. apply KD; apply in_rev; assumption.
  Qed.
End CacheProofs.

(* ---- what the key does not contain *)
Definition q0 : request :=
  mkQ (mkWP 1 16 16 [0; 16] 1 1 1 8 0 false 7) 100 200 1 2 [1; 2; 3; 4; 5; 6; 7; 8; 9; 10; 11; 12; 13; 14; 15; 16]
      (repeat (1073741824, 30) 16).
Definition set_wp (q : request) (w : wparams) : request :=
  mkQ w (q_weight_vid q) (q_scale_vid q) (q_ifm_scale q) (q_ofm_scale q) (q_biases q) (q_qscales q).
Definition w0 := q_wp q0.
(* the same request with one input of the weight stream changed *)
Definition q_bits : request := set_wp q0 (mkWP 1 16 16 [0; 16] 1 1 1 16 0 false 7).
Definition q_accel : request := set_wp q0 (mkWP 1 16 16 [0; 16] 1 1 1 8 1 false 7).
Definition q_cores : request := set_wp q0 (mkWP 1 16 16 [0; 16] 1 1 2 8 0 false 7).
Definition q_flip : request := set_wp q0 (mkWP 1 16 16 [0; 16] 1 1 1 8 0 true 7).
Definition q_content : request := set_wp q0 (mkWP 1 16 16 [0; 16] 1 1 1 8 0 false 8).
Definition q_blockdepth : request := set_wp q0 (mkWP 1 24 16 [0; 16] 1 1 1 8 0 false 7).
(* and one input of the scale records that the scale key does not contain *)
Definition q_qscales' : request :=
  mkQ (q_wp q0) 100 200 1 2 (q_biases q0) (repeat (1073741825, 30) 16).

(* inputs that the key still omits (after 845322f): accelerator, core count, weight content behind a value id, unclipped
   block depth; and (scale key) the quantised scales *)
Lemma key_omits_lemma :
  Forall (fun q => wkey_of q = wkey_of q0 /\ skey_of q = skey_of q0 /\ q <> q0)
         [q_accel; q_cores; q_content; q_blockdepth; q_qscales'].
Proof.
  repeat constructor; try reflexivity; intro H; inversion H.
Qed.

(* the IFM bit depth and the transpose-convolution flip are in the key now; the old key function omitted them *)
Lemma key_contains_lemma :
  wkey_of q_bits <> wkey_of q0 /\ wkey_of q_flip <> wkey_of q0 /\
  wkey_of_old q_bits = wkey_of_old q0 /\ wkey_of_old q_flip = wkey_of_old q0.
Proof. repeat split; try reflexivity; intro H; inversion H. Qed.

(* a codec whose output depends on the accelerator (as the real one does through the micro-block depths): a request
   history with equal keys in which the second response is not what a fresh encoding returns.  On the implementation
   this history needs two architectures in one process, which the compiler never has (one per compilation, caches
   cleared at the start of each): replayed at function level only *)
Definition accel_codec (w : wparams) (_ _ _ _ : Z) : list Z := repeat (wp_accel w) 16.

Lemma cache_reuse_refuted_lemma :
  exists (codec : wparams -> Z -> Z -> Z -> Z -> list Z) (h : list request) resps,
    (forall w c d l b, zlen (codec w c d l b) mod 16 = 0) /\ Forall wf_request h /\
    run codec wkey_of [] h = Some resps /\
    ~ Forall2 (fun q r => exists tf, fresh codec q = Some tf /\ effective r = effective tf) h resps.
Proof.
  exists accel_codec, [q0; q_accel].
  destruct (run accel_codec wkey_of [] [q0; q_accel]) as [resps|] eqn:E; [|vm_compute in E; discriminate].
  exists resps. split; [intros; reflexivity|]. split; [repeat constructor; vm_compute; lia|]. split; [reflexivity|].
  intro F. vm_compute in E. inversion E. subst resps. clear E.
  inversion F as [|? ? ? ? _ F1]; subst. inversion F1 as [|? ? ? ? H2 _]; subst.
  destruct H2 as (tf & Ef & H2). vm_compute in Ef. inversion Ef. subst tf. vm_compute in H2. discriminate.
Qed.

(* the refutation that motivated 845322f, about the OLD key function: a codec that depends on the IFM bit depth *)
Definition bits_codec (w : wparams) (_ _ _ _ : Z) : list Z := repeat (wp_ifm_bits w) 16.

Lemma cache_reuse_old_key_refuted_lemma :
  exists (codec : wparams -> Z -> Z -> Z -> Z -> list Z) (h : list request) resps,
    (forall w c d l b, zlen (codec w c d l b) mod 16 = 0) /\ Forall wf_request h /\
    run codec wkey_of_old [] h = Some resps /\
    ~ Forall2 (fun q r => exists tf, fresh codec q = Some tf /\ effective r = effective tf) h resps.
Proof.
  exists bits_codec, [q0; q_bits].
  destruct (run bits_codec wkey_of_old [] [q0; q_bits]) as [resps|] eqn:E; [|vm_compute in E; discriminate].
  exists resps. split; [intros; reflexivity|]. split; [repeat constructor; vm_compute; lia|]. split; [reflexivity|].
  intro F. vm_compute in E. inversion E. subst resps. clear E.
  inversion F as [|? ? ? ? _ F1]; subst. inversion F1 as [|? ? ? ? H2 _]; subst.
  destruct H2 as (tf & Ef & H2). vm_compute in Ef. inversion Ef. subst tf. vm_compute in H2. discriminate.
Qed.

(* ================================================================== satisfiable instances *)
Example encode_bias_example :
  encode_bias (-2) 1073741824 31 = Some [254; 255; 255; 255; 255; 0; 0; 0; 64; 31] /\
  decode_bias [254; 255; 255; 255; 255; 0; 0; 0; 64; 31] = Some (-2, 1073741824, 31) /\
  encode_bias 549755813888 1 1 = None.
Proof. vm_compute. repeat split. Qed.

Definition ex_biases : list Z := [10; -20; 30; -40; 50; -60; 70; -80].
Definition ex_qs : list (Z * Z) := map (fun k => (1073741824 + k, 30 + k)) [0; 1; 2; 3; 4; 5; 6; 7].
Definition ex_enc (c d l b : Z) : list Z := repeat (10 * d + c) (Z.to_nat (16 * (1 + c))).

(* two cores, eight channels, slices [0,4) and [4,8): hypotheses of the layout theorems hold, the encoding exists *)
Example layout_example :
  exists t, encode_layout ex_enc 2 8 16 true ex_biases ex_qs [0; 4; 8] = Some t /\
            wf_slices 2 8 [0; 4; 8] /\ zlen ex_biases = 8 /\ zlen ex_qs = 8 /\
            map key_of_range (t_ranges t) = [(0, 0); (1, 0); (0, 4); (1, 4)] /\
            map r_offset (t_ranges t) = [0; 48; 112; 160] /\ zlen (t_buffer t) = 224 /\ t_db t = (112, 112) /\
            create_dma 2 (t_ranges t) 4 1000 = Some (1112, 112) /\
            create_weights 2 (t_ranges t) 4 true 5000 None = Some ([(5032, 16); (5080, 32)], [(5000, 32); (5048, 32)]).
Proof.
  eexists. split; [vm_compute; reflexivity|]. cbn [t_ranges t_buffer t_db].
  split.
  { unfold wf_slices. split; [cbn; lia|]. split; [reflexivity|]. split; [reflexivity|].
    intros p [<-|[<-|[]]]; cbn [fst snd]; left; reflexivity. }
  vm_compute. repeat split.
Qed.

Definition q_other_scales : request :=
  mkQ (q_wp q0) 100 201 1 2 [9; 9; 9; 9; 9; 9; 9; 9; 9; 9; 9; 9; 9; 9; 9; 9] (repeat (1073741825, 29) 16).

(* a history with a miss, a full hit and a hit that re-encodes the scales only, satisfying key_determines_inputs *)
Example cache_history_example :
  key_determines_inputs wkey_of [q0; q0; q_other_scales; q_bits; q_flip] /\
  Forall wf_request [q0; q0; q_other_scales; q_bits; q_flip] /\
  exists r ts r8 rf, run bits_codec wkey_of [] [q0; q0; q_other_scales; q_bits; q_flip] =
                     Some [(r, None); (r, None); (r, Some ts); (r8, None); (rf, None)] /\
                     fresh bits_codec q_bits = Some (r8, None) /\ fresh bits_codec q_flip = Some (rf, None).
Proof.
  split.
  { intros a b Ha Hb Hk. cbn [In] in Ha, Hb.
    destruct Ha as [<-|[<-|[<-|[<-|[<-|[]]]]]]; destruct Hb as [<-|[<-|[<-|[<-|[<-|[]]]]]];
      try (vm_compute in Hk; discriminate); (split; [reflexivity|]); intro Hs;
      try (split; reflexivity); vm_compute in Hs; discriminate. }
  split; [repeat constructor; vm_compute; lia|].
  do 4 eexists. vm_compute. repeat split.
Qed.

(* double_buffer_sizes[0] bounds the even slices only: a consumer that puts every slice into ONE buffer of that size
   (scheduler.propose_weight_buffering with TensorSubPurpose.Standard before repo commit 375f89a) is not covered; the
   size used since then, single_buffer_size, is (single_buffer_bounds_lemma) *)
Definition uneven_enc (c d l b : Z) : list Z := repeat 0 (if d =? 16 then 64%nat else 16%nat).
Lemma single_buffer_refuted_lemma :
  exists t, encode_layout uneven_enc 1 48 16 true (repeat 0 48) (repeat (1, 0) 48) [0; 16; 32; 48] = Some t /\
            strictly_increasing [0; 16; 32; 48] /\
            db_get (t_db t) 0 < group_size (t_ranges t) 16 /\ group_size (t_ranges t) 16 <= db_get (t_db t) 1 /\
            group_size (t_ranges t) 16 <= single_buffer_size (zlen (t_buffer t)) (t_db t).
Proof. eexists. split; [vm_compute; reflexivity|]. vm_compute. repeat split; discriminate. Qed.
