(* C08 -- proofs about coq/model/WLayout.v *)
From Coq Require Import ZArith List Bool Lia Permutation.
From VV Require Import lib.PyInt lib.Bits gen.GenWLayout model.WLayout.
Import ListNotations.
Open Scope Z_scope.

(* ================================================================== encode_bias *)
Lemma land255_range x : 0 <= Z.land x 255 < 256.
Proof.
  change 255 with (2 ^ 8 - 1). rewrite land_ones_mod by lia. change (2 ^ 8) with 256.
  apply Z.mod_pos_bound. lia.
Qed.
Lemma land63_range x : 0 <= Z.land x 63 < 64.
Proof.
  change 63 with (2 ^ 6 - 1). rewrite land_ones_mod by lia. change (2 ^ 6) with 64.
  apply Z.mod_pos_bound. lia.
Qed.

Lemma gen_encode_bias_eq bias scale shift :
  GenWLayout.encode_bias bias scale shift = encode_bias bias scale shift.
Proof.
  unfold GenWLayout.encode_bias, encode_bias, byte_at.
  change (Z.shiftl 1 (Z.sub 40 1)) with 549755813888. change (Z.opp 549755813888) with (-549755813888).
  change (Z.shiftl 1 32) with 4294967296. change (Z.shiftl 1 6) with 64.
  destruct ((-549755813888 <=? bias) && (bias <? 549755813888)); [|reflexivity].
  destruct ((0 <=? scale) && (scale <? 4294967296)); [|reflexivity].
  destruct ((0 <=? shift) && (shift <? 64)); [|reflexivity].
  pose proof (land63_range shift) as Hs.
  assert (Hb : forall k, 0 <= Z.land (Z.shiftr bias k) 255 < 256) by (intro; apply land255_range).
  assert (Hc : forall k, 0 <= Z.land (Z.shiftr scale k) 255 < 256) by (intro; apply land255_range).
  generalize dependent (Z.land shift 63). intros s9 Hs.
  pose proof (Hb (0 * 8)) as H0; pose proof (Hb (1 * 8)) as H1; pose proof (Hb (2 * 8)) as H2;
    pose proof (Hb (3 * 8)) as H3; pose proof (Hb (4 * 8)) as H4.
  pose proof (Hc (0 * 8)) as H5; pose proof (Hc (1 * 8)) as H6; pose proof (Hc (2 * 8)) as H7;
    pose proof (Hc (3 * 8)) as H8. clear Hb Hc.
  generalize dependent (Z.land (Z.shiftr bias (0 * 8)) 255). intros b0 H0.
  generalize dependent (Z.land (Z.shiftr bias (1 * 8)) 255). intros b1 H1.
  generalize dependent (Z.land (Z.shiftr bias (2 * 8)) 255). intros b2 H2.
  generalize dependent (Z.land (Z.shiftr bias (3 * 8)) 255). intros b3 H3.
  generalize dependent (Z.land (Z.shiftr bias (4 * 8)) 255). intros b4 H4.
  generalize dependent (Z.land (Z.shiftr scale (0 * 8)) 255). intros b5 H5.
  generalize dependent (Z.land (Z.shiftr scale (1 * 8)) 255). intros b6 H6.
  generalize dependent (Z.land (Z.shiftr scale (2 * 8)) 255). intros b7 H7.
  generalize dependent (Z.land (Z.shiftr scale (3 * 8)) 255). intros b8 H8.
  assert (G : forall x, 0 <= x < 256 -> (Z.leb 0 x) = true /\ (Z.ltb x 256) = true).
  { intros x Hx. split; [apply Z.leb_le | apply Z.ltb_lt]; lia. }
  assert (G9 : (Z.leb 0 s9) = true /\ (Z.ltb s9 256) = true).
  { split; [apply Z.leb_le | apply Z.ltb_lt]; lia. }
  destruct (G _ H0) as [-> ->]. destruct (G _ H1) as [-> ->]. destruct (G _ H2) as [-> ->].
  destruct (G _ H3) as [-> ->]. destruct (G _ H4) as [-> ->]. destruct (G _ H5) as [-> ->].
  destruct (G _ H6) as [-> ->]. destruct (G _ H7) as [-> ->]. destruct (G _ H8) as [-> ->].
  destruct G9 as [-> ->].
  vm_compute. reflexivity.
Qed.

Lemma byte_at_div x k : 0 <= k -> byte_at x k = (x / 2 ^ (k * 8)) mod 256.
Proof.
  intro Hk. unfold byte_at. change 255 with (2 ^ 8 - 1). rewrite land_ones_mod by lia.
  rewrite shiftr_div by lia. reflexivity.
Qed.

Lemma le_bytes5 x : 0 <= x < 1099511627776 ->
  le_bytes [byte_at x 0; byte_at x 1; byte_at x 2; byte_at x 3; byte_at x 4] = x.
Proof.
  intro Hx. rewrite !byte_at_div by lia. unfold le_bytes, fold_right.
  change (2 ^ (0 * 8)) with 1. change (2 ^ (1 * 8)) with 256. change (2 ^ (2 * 8)) with 65536.
  change (2 ^ (3 * 8)) with 16777216. change (2 ^ (4 * 8)) with 4294967296.
  Z.div_mod_to_equations. lia.
Qed.

Lemma le_bytes5_mod x :
  le_bytes [byte_at x 0; byte_at x 1; byte_at x 2; byte_at x 3; byte_at x 4] = x mod 1099511627776.
Proof.
  rewrite !byte_at_div by lia. unfold le_bytes, fold_right.
  change (2 ^ (0 * 8)) with 1. change (2 ^ (1 * 8)) with 256. change (2 ^ (2 * 8)) with 65536.
  change (2 ^ (3 * 8)) with 16777216. change (2 ^ (4 * 8)) with 4294967296.
  Z.div_mod_to_equations. lia.
Qed.

Lemma le_bytes4 x : 0 <= x < 4294967296 ->
  le_bytes [byte_at x 0; byte_at x 1; byte_at x 2; byte_at x 3] = x.
Proof.
  intro Hx. rewrite !byte_at_div by lia. unfold le_bytes, fold_right.
  change (2 ^ (0 * 8)) with 1. change (2 ^ (1 * 8)) with 256. change (2 ^ (2 * 8)) with 65536.
  change (2 ^ (3 * 8)) with 16777216.
  Z.div_mod_to_equations. lia.
Qed.

Definition bias_ok (b : Z) : Prop := -549755813888 <= b < 549755813888.
Definition scale_ok (s : Z) : Prop := 0 <= s < 4294967296.
Definition shift_ok (s : Z) : Prop := 0 <= s < 64.
Definition is_byte (b : Z) : Prop := 0 <= b < 256.

Lemma encode_bias_some b s sh :
  bias_ok b -> scale_ok s -> shift_ok sh ->
  encode_bias b s sh = Some [byte_at b 0; byte_at b 1; byte_at b 2; byte_at b 3; byte_at b 4;
                             byte_at s 0; byte_at s 1; byte_at s 2; byte_at s 3; Z.land sh 63].
Proof.
  unfold bias_ok, scale_ok, shift_ok, encode_bias. intros.
  replace ((-549755813888 <=? b) && (b <? 549755813888)) with true by (symmetry; apply andb_true_iff; split; [apply Z.leb_le | apply Z.ltb_lt]; lia).
  replace ((0 <=? s) && (s <? 4294967296)) with true by (symmetry; apply andb_true_iff; split; [apply Z.leb_le | apply Z.ltb_lt]; lia).
  replace ((0 <=? sh) && (sh <? 64)) with true by (symmetry; apply andb_true_iff; split; [apply Z.leb_le | apply Z.ltb_lt]; lia).
  reflexivity.
Qed.

Lemma encode_bias_inv b s sh bs :
  encode_bias b s sh = Some bs ->
  bias_ok b /\ scale_ok s /\ shift_ok sh /\
  bs = [byte_at b 0; byte_at b 1; byte_at b 2; byte_at b 3; byte_at b 4;
        byte_at s 0; byte_at s 1; byte_at s 2; byte_at s 3; Z.land sh 63].
Proof.
  unfold encode_bias, bias_ok, scale_ok, shift_ok.
  destruct (Z.leb_spec (-549755813888) b); destruct (Z.ltb_spec b 549755813888); cbn [andb]; try discriminate.
  destruct (Z.leb_spec 0 s); destruct (Z.ltb_spec s 4294967296); cbn [andb]; try discriminate.
  destruct (Z.leb_spec 0 sh); destruct (Z.ltb_spec sh 64); cbn [andb]; try discriminate.
  intro E. inversion E. repeat split; lia.
Qed.

Lemma land63_small sh : shift_ok sh -> Z.land sh 63 = sh.
Proof.
  intro H. change 63 with (2 ^ 6 - 1). rewrite land_ones_mod by lia. apply Z.mod_small. exact H.
Qed.

(* bias in signed 40 bits, scale in unsigned 32 bits, shift in 6 bits <-> 10 bytes; anything else is rejected *)
Lemma encode_bias_roundtrip_lemma b s sh :
  (bias_ok b /\ scale_ok s /\ shift_ok sh ->
     exists bs, encode_bias b s sh = Some bs /\ length bs = 10%nat /\ Forall is_byte bs /\
                nth 9 bs 0 < 64 /\ decode_bias bs = Some (b, s, sh)) /\
  (~ (bias_ok b /\ scale_ok s /\ shift_ok sh) -> encode_bias b s sh = None).
Proof.
  split.
  - intros (Hb & Hs & Hh). eexists. split; [apply encode_bias_some; assumption|].
    split; [reflexivity|]. split.
    + unfold is_byte, byte_at. repeat constructor; try apply land255_range.
      all: rewrite land63_small by assumption; unfold shift_ok in Hh; lia.
    + split. { cbn [nth]. rewrite land63_small by assumption. unfold shift_ok in Hh. lia. }
      unfold decode_bias. rewrite le_bytes5_mod, le_bytes4 by exact Hs.
      rewrite land63_small by (apply land63_range || (rewrite land63_small by assumption; assumption)).
      rewrite land63_small by assumption.
      f_equal. f_equal. f_equal. unfold bias_ok in Hb.
      destruct (Z.ltb_spec (b mod 1099511627776) 549755813888); Z.div_mod_to_equations; lia.
  - intro N. destruct (encode_bias b s sh) eqn:E; [|reflexivity].
    apply encode_bias_inv in E. exfalso. apply N. tauto.
Qed.

(* two different in-range triples never share a record *)
Lemma encode_bias_injective b s sh b' s' sh' bs :
  encode_bias b s sh = Some bs -> encode_bias b' s' sh' = Some bs -> (b, s, sh) = (b', s', sh').
Proof.
  intros E1 E2.
  pose proof (encode_bias_inv _ _ _ _ E1) as (B1 & S1 & H1 & _).
  pose proof (encode_bias_inv _ _ _ _ E2) as (B2 & S2 & H2 & _).
  destruct (proj1 (encode_bias_roundtrip_lemma b s sh) (conj B1 (conj S1 H1))) as (x & Ex & _ & _ & _ & D1).
  destruct (proj1 (encode_bias_roundtrip_lemma b' s' sh') (conj B2 (conj S2 H2))) as (y & Ey & _ & _ & _ & D2).
  congruence.
Qed.

Lemma encode_bias_length b s sh bs : encode_bias b s sh = Some bs -> zlen bs = 10.
Proof. intro E. apply encode_bias_inv in E. destruct E as (_ & _ & _ & ->). reflexivity. Qed.

(* ================================================================== Python slices as arithmetic progressions *)
Require Import Sorted.

Lemma zlen_app {A} (a b : list A) : zlen (a ++ b) = zlen a + zlen b.
Proof. unfold zlen. rewrite app_length. lia. Qed.
Lemma zlen_nonneg {A} (a : list A) : 0 <= zlen a.
Proof. unfold zlen. lia. Qed.
Lemma zlen_cons {A} (x : A) l : zlen (x :: l) = 1 + zlen l.
Proof. unfold zlen. cbn [length]. lia. Qed.
Lemma zlen_nil {A} : zlen (@nil A) = 0.
Proof. reflexivity. Qed.

Lemma range_len_pos lo hi st : 0 < st -> range_len lo hi st = Z.max 0 ((hi - lo + st - 1) / st).
Proof.
  intro H. unfold range_len. destruct (Z.gtb_spec st 0); [reflexivity | lia].
Qed.

Lemma In_zrange c lo hi st : 0 < st ->
  (In c (zrange lo hi st) <-> lo <= c < hi /\ (c - lo) mod st = 0).
Proof.
  intro Hst. unfold zrange. rewrite in_map_iff, range_len_pos by assumption. split.
  - intros (k & <- & Hk). apply in_seq in Hk. destruct Hk as [_ Hk]. cbn [plus] in Hk.
    assert (Hk' : Z.of_nat k < Z.max 0 ((hi - lo + st - 1) / st)) by lia.
    assert (Hq : st * ((hi - lo + st - 1) / st) <= hi - lo + st - 1) by (apply Z.mul_div_le; lia).
    split.
    + split; [nia|]. assert (Z.of_nat k + 1 <= (hi - lo + st - 1) / st) by lia. nia.
    + replace (lo + Z.of_nat k * st - lo) with (Z.of_nat k * st) by lia. apply Z_mod_mult.
  - intros ((Hlo & Hhi) & Hm). apply Z.mod_divide in Hm; [|lia]. destruct Hm as (q & Hq).
    assert (0 <= q) by nia.
    exists (Z.to_nat q). split; [rewrite Z2Nat.id by lia; lia|].
    apply in_seq. split; [lia|]. cbn [plus].
    assert (q + 1 <= (hi - lo + st - 1) / st) by (apply Z.div_le_lower_bound; nia).
    lia.
Qed.

Lemma zrange_sorted lo hi st : 0 < st -> StronglySorted Z.lt (zrange lo hi st).
Proof.
  intro Hst. unfold zrange. generalize (Z.to_nat (range_len lo hi st)) as n. generalize 0%nat as a.
  intros a n. revert a. induction n as [|n IH]; intro a; cbn [seq map]; constructor.
  - apply IH.
  - apply Forall_forall. intros x Hx. apply in_map_iff in Hx. destruct Hx as (k & <- & Hk).
    apply in_seq in Hk. nia.
Qed.

Lemma sorted_ext (l1 l2 : list Z) :
  StronglySorted Z.lt l1 -> StronglySorted Z.lt l2 -> (forall x, In x l1 <-> In x l2) -> l1 = l2.
Proof.
  revert l2. induction l1 as [|a l1 IH]; intros l2 S1 S2 E.
  - destruct l2 as [|b l2]; [reflexivity|]. exfalso. apply (proj2 (E b)). left. reflexivity.
  - destruct l2 as [|b l2]. { exfalso. apply (proj1 (E a)). left. reflexivity. }
    inversion S1 as [|? ? S1' F1]; subst. inversion S2 as [|? ? S2' F2]; subst.
    rewrite Forall_forall in F1, F2.
    assert (a = b).
    { destruct (proj1 (E a) (or_introl eq_refl)) as [<-|Ha]; [reflexivity|].
      destruct (proj2 (E b) (or_introl eq_refl)) as [<-|Hb]; [reflexivity|].
      specialize (F1 _ Hb). specialize (F2 _ Ha). lia. }
    subst b. f_equal. apply IH; try assumption.
    intro x. split; intro Hx.
    + destruct (proj1 (E x) (or_intror Hx)) as [<-|H]; [|exact H]. specialize (F1 _ Hx). lia.
    + destruct (proj2 (E x) (or_intror Hx)) as [<-|H]; [|exact H]. specialize (F2 _ Hx). lia.
Qed.

Lemma filter_sorted (p : Z -> bool) l : StronglySorted Z.lt l -> StronglySorted Z.lt (filter p l).
Proof.
  induction 1 as [|a l S IH F]; cbn [filter]; [constructor|].
  destruct (p a); [|exact IH]. constructor; [exact IH|].
  rewrite Forall_forall in *. intros x Hx. apply filter_In in Hx. apply F. tauto.
Qed.

Lemma sorted_NoDup l : StronglySorted Z.lt l -> NoDup l.
Proof.
  induction 1 as [|a l S IH F]; constructor; [|exact IH].
  intro Hin. rewrite Forall_forall in F. specialize (F _ Hin). lia.
Qed.

Lemma In_zseq c lo n : In c (zseq lo n) <-> lo <= c < lo + n.
Proof.
  unfold zseq. rewrite In_zrange by lia. rewrite Z.mod_1_r. tauto.
Qed.
Lemma zseq_sorted lo n : StronglySorted Z.lt (zseq lo n).
Proof. apply zrange_sorted. lia. Qed.

Lemma In_spec_channels nc core d len c :
  In c (spec_channels nc (core, d, len)) <-> d <= c < d + len /\ (c - d) mod nc = core.
Proof.
  unfold spec_channels. rewrite filter_In, In_zseq, Z.eqb_eq. tauto.
Qed.

(* the Python slice [d+core : d+core+len : ncores] of a list of N elements selects the channels the property assigns
   to (core, [d, d+len)) provided the slice ends at the end of the list or its length is a multiple of the core count *)
Lemma code_channels_spec nc n core d len :
  0 < nc -> 0 <= core < nc -> 0 <= d -> 0 <= len -> d + len <= n ->
  (len mod nc = 0 \/ d + len = n) ->
  code_channels nc n (core, d, len) = spec_channels nc (core, d, len).
Proof.
  intros Hnc Hcore Hd Hlen Hn Hhyp.
  apply sorted_ext.
  - unfold code_channels, slice_idx. apply zrange_sorted. exact Hnc.
  - unfold spec_channels. apply filter_sorted, zseq_sorted.
  - intro c. rewrite In_spec_channels. unfold code_channels, slice_idx. rewrite In_zrange by exact Hnc.
    unfold py_norm.
    destruct (Z.ltb_spec (d + core) 0); [lia|]. destruct (Z.ltb_spec (d + core + len) 0); [lia|].
    split.
    + intros ((Hlo & Hhi) & Hm).
      assert (Hlt : d + core < n) by lia.
      rewrite Z.min_l in Hlo, Hm by lia.
      apply Z.mod_divide in Hm; [|lia]. destruct Hm as (q & Hq).
      assert (0 <= q) by nia.
      assert (Hmod : (c - d) mod nc = core).
      { replace (c - d) with (core + q * nc) by lia. rewrite Z_mod_plus_full. apply Z.mod_small. lia. }
      split; [|exact Hmod]. split; [lia|].
      destruct Hhyp as [Hmul | Hend]; [|lia].
      apply Z.mod_divide in Hmul; [|lia]. destruct Hmul as (m & Hm).
      assert (q < m) by nia. nia.
    + intros ((Hlo & Hhi) & Hm).
      assert (Hdm := Z.div_mod (c - d) nc ltac:(lia)). rewrite Hm in Hdm.
      assert (0 <= (c - d) / nc) by (apply Z.div_pos; lia).
      assert (d + core <= c) by nia.
      rewrite Z.min_l by lia. split; [lia|].
      replace (c - (d + core)) with (((c - d) / nc) * nc) by lia. apply Z_mod_mult.
Qed.

(* the witness of DESIGN.md: two cores, slices [0,3) and [3,8) of 8 channels: core 1 of the first slice takes channel 3 *)
Lemma scales_odd_slice_refuted_lemma :
  code_channels 2 8 (1, 0, 3) = [1; 3] /\ spec_channels 2 (1, 0, 3) = [1] /\
  count_occ Z.eq_dec (flat_map (code_channels 2 8) (sections 2 8 16 [0; 3; 8])) 3 = 2%nat.
Proof. vm_compute. repeat split. Qed.

(* ---- every channel exactly once *)
Lemma count_occ_filter (p : Z -> bool) l c :
  count_occ Z.eq_dec (filter p l) c = if p c then count_occ Z.eq_dec l c else 0%nat.
Proof.
  induction l as [|a l IH]; cbn [filter count_occ]; [destruct (p c); reflexivity|].
  destruct (p a) eqn:Pa; cbn [count_occ]; destruct (Z.eq_dec a c) as [->|N]; rewrite IH; try rewrite Pa; try reflexivity.
Qed.

Lemma count_occ_flat_map {A} (f : A -> list Z) l c :
  count_occ Z.eq_dec (flat_map f l) c = fold_right (fun a n => (count_occ Z.eq_dec (f a) c + n)%nat) 0%nat l.
Proof.
  induction l as [|a l IH]; cbn [flat_map fold_right]; [reflexivity|].
  rewrite count_occ_app, IH. reflexivity.
Qed.

Lemma count_key_partition (key : Z -> Z) (L cs : list Z) c :
  NoDup cs ->
  count_occ Z.eq_dec (flat_map (fun core => filter (fun x => key x =? core) L) cs) c =
  if in_dec Z.eq_dec (key c) cs then count_occ Z.eq_dec L c else 0%nat.
Proof.
  induction 1 as [|a cs Hna Hnd IH]; cbn [flat_map]; [reflexivity|].
  rewrite count_occ_app, IH, count_occ_filter.
  destruct (Z.eqb_spec (key c) a) as [E|E].
  - destruct (in_dec Z.eq_dec (key c) cs) as [I|I]; [subst a; contradiction|].
    destruct (in_dec Z.eq_dec (key c) (a :: cs)) as [J|J]; [lia|]. exfalso. apply J. left. auto.
  - destruct (in_dec Z.eq_dec (key c) cs) as [I|I]; destruct (in_dec Z.eq_dec (key c) (a :: cs)) as [J|J]; try reflexivity.
    + exfalso. apply J. right. exact I.
    + destruct J as [J|J]; [congruence|contradiction].
Qed.

Lemma count_occ_zseq d len c :
  count_occ Z.eq_dec (zseq d len) c = if (d <=? c) && (c <? d + len) then 1%nat else 0%nat.
Proof.
  destruct (Z.leb_spec d c); destruct (Z.ltb_spec c (d + len)); cbn [andb].
  - apply NoDup_count_occ'; [apply sorted_NoDup, zseq_sorted|]. apply In_zseq. lia.
  - apply count_occ_not_In. rewrite In_zseq. lia.
  - apply count_occ_not_In. rewrite In_zseq. lia.
  - apply count_occ_not_In. rewrite In_zseq. lia.
Qed.
