(* C04, D1: the waits computed by get_wait_dependency (model/Waits.v) separate every conflicting
   DMA / kernel pair in the queue machine of hw/Queues.v -- for every operation sequence, every
   symmetric conflict relation and every pair of outstanding limits. *)
From Coq Require Import ZArith List Bool Lia.
From VV Require Import hw.Queues proofs.QueuesProofs model.Waits.
Import ListNotations.
Open Scope Z_scope.

Section WaitsProofs.
  Variable op : Type.
  Variable is_dma : op -> bool.
  Variable conflict : op -> op -> bool.
  Variable max_dma : Z.
  Variable max_kern : Z.

  Notation step := (step op is_dma conflict max_dma max_kern).
  Notation emit := (emit op is_dma conflict max_dma max_kern).
  Notation scan := (scan op conflict).
  Notation push_bounded := (push_bounded op).
  Notation keep_newest := (keep_newest op).
  Notation qcheck := (qcheck op is_dma max_dma max_kern conflict).
  Notation qsim := (qsim op is_dma max_dma max_kern).

  (* ------------------------------------------------------------ the scan loop *)
  Lemma scan_none cur r w :
    scan cur r w = None -> forall o, In o r -> conflict o cur = false.
  Proof.
    revert w. induction r as [|x t IH]; intros w H o Hin; [destruct Hin|].
    cbn [Waits.scan] in H. destruct (conflict x cur) eqn:Hc; [discriminate|].
    destruct Hin as [<-|Hin]; [exact Hc | eapply IH; eassumption].
  Qed.

  Lemma scan_some cur r w0 w :
    scan cur r w0 = Some w ->
    w0 <= w /\ (Z.to_nat (w - w0) < length r)%nat /\
    (forall o, In o (firstn (Z.to_nat (w - w0)) r) -> conflict o cur = false) /\
    (exists o, nth_error r (Z.to_nat (w - w0)) = Some o /\ conflict o cur = true).
  Proof.
    revert w0. induction r as [|x t IH]; intros w0 H; [discriminate|].
    cbn [Waits.scan] in H. destruct (conflict x cur) eqn:Hc.
    - injection H as <-. replace (w0 - w0) with 0 by lia.
      change (Z.to_nat 0) with 0%nat. cbn [firstn nth_error length].
      split; [lia|]. split; [lia|]. split.
      + intros o [].
      + exists x. split; [reflexivity | exact Hc].
    - apply IH in H as (Hle & Hlt & Hall & (o & Hn & Ho)).
      assert (E : Z.to_nat (w - w0) = S (Z.to_nat (w - (w0 + 1)))) by lia.
      rewrite E. cbn [length firstn nth_error].
      split; [lia|]. split; [lia|]. split.
      + intros y [<-|Hy]; [exact Hc | apply Hall; exact Hy].
      + exists o. split; assumption.
  Qed.

  Lemma keep_newest_lastn w l : keep_newest w l = lastn (Z.to_nat w) l.
  Proof. reflexivity. Qed.

  Lemma in_lastn_rev n (l : list op) o : In o (lastn n l) -> In o (firstn n (rev l)).
  Proof. unfold lastn. rewrite firstn_rev. intros H. apply in_rev. now rewrite rev_involutive. Qed.

  (* what the scan establishes about the list that is kept *)
  Lemma scan_rev_none cur l :
    scan cur (rev l) 0 = None -> forall o, In o l -> conflict o cur = false.
  Proof. intros H o Hin. eapply scan_none; [exact H | now apply in_rev in Hin]. Qed.

  Lemma scan_rev_some cur l w :
    scan cur (rev l) 0 = Some w ->
    0 <= w /\ forall o, In o (keep_newest w l) -> conflict o cur = false.
  Proof.
    intros H. apply scan_some in H as (Hle & _ & Hall & _). split; [lia|].
    intros o Hin. apply Hall. replace (w - 0) with w by lia.
    apply in_lastn_rev. exact Hin.
  Qed.

  (* ------------------------------------------------------------ the bounded append *)
  Lemma push_bounded_cover (a l : list op) x mx :
    suffix a l -> suffix (lastn (Z.to_nat mx) (a ++ [x])) (push_bounded l x mx).
  Proof.
    intros Hs. unfold Waits.push_bounded.
    assert (Hs' : suffix (lastn (Z.to_nat mx) (a ++ [x])) (l ++ [x])).
    { eapply suffix_trans; [apply lastn_suffix | apply suffix_snoc; exact Hs]. }
    destruct (Z.gtb_spec (Z.of_nat (length (l ++ [x]))) mx) as [Hgt|Hle]; [|exact Hs'].
    apply suffix_proper_tl; [exact Hs'|].
    pose proof (lastn_length (Z.to_nat mx) (a ++ [x])).
    assert (length (l ++ [x]) = S (length l)) by (rewrite app_length; cbn; lia). lia.
  Qed.

  Lemma push_bounded_in (l : list op) x mx o : In o (push_bounded l x mx) -> In o l \/ o = x.
  Proof.
    unfold Waits.push_bounded. intros H.
    assert (H' : In o (l ++ [x])).
    { destruct (Z.of_nat (length (l ++ [x])) >? mx); [|exact H].
      destruct (l ++ [x]); [destruct H | now right]. }
    apply in_app_or in H' as [H'|[<-|[]]]; auto.
  Qed.

  Lemma push_bounded_length (l : list op) x mx :
    0 <= mx -> Z.of_nat (length l) <= mx -> Z.of_nat (length (push_bounded l x mx)) <= mx.
  Proof.
    intros H0 H. unfold Waits.push_bounded.
    destruct (Z.gtb_spec (Z.of_nat (length (l ++ [x]))) mx) as [Hgt|Hle]; [|exact Hle].
    rewrite app_length in *. cbn [length] in *.
    destruct (l ++ [x]) eqn:E.
    - apply (f_equal (@length op)) in E. rewrite app_length in E. cbn in E. lia.
    - cbn [tl]. apply (f_equal (@length op)) in E. rewrite app_length in E. cbn [length] in E. lia.
  Qed.

  (* ------------------------------------------------------------ the emitted skeleton is accepted *)
  (* the model's lists cover the simulated possibly-unfinished sets of hw/Queues.v *)
  Definition wcovers (s : wstate op) (q : qstate op) : Prop :=
    suffix (q_kern q) (o_kern s) /\ suffix (q_dma q) (o_dma s).

  Lemma forallb_negb_conflict l cur :
    (forall o, In o l -> conflict o cur = false) -> forallb (fun x => negb (conflict x cur)) l = true.
  Proof. intros H. apply forallb_forall. intros x Hx. now rewrite (H x Hx). Qed.

  Lemma qcheck_issue q o t :
    qcheck q (QIssue o :: t) =
    forallb (fun x => negb (conflict x o)) (if is_dma o then q_kern q else q_dma q) &&
    qcheck (qsim q (QIssue o)) t.
  Proof. reflexivity. Qed.

  Lemma qcheck_waitk q n t :
    qcheck q (QWaitK n :: t) = qcheck (QS (lastn (Z.to_nat n) (q_kern q)) (q_dma q)) t.
  Proof. reflexivity. Qed.

  Lemma qcheck_waitd q n t :
    qcheck q (QWaitD n :: t) = qcheck (QS (q_kern q) (lastn (Z.to_nat n) (q_dma q))) t.
  Proof. reflexivity. Qed.

  Lemma qsim_issue_dma q o :
    is_dma o = true -> qsim q (QIssue o) = QS (q_kern q) (lastn (Z.to_nat max_dma) (q_dma q ++ [o])).
  Proof. intros H. unfold Queues.qsim. now rewrite H. Qed.

  Lemma qsim_issue_kern q o :
    is_dma o = false -> qsim q (QIssue o) = QS (lastn (Z.to_nat max_kern) (q_kern q ++ [o])) (q_dma q).
  Proof. intros H. unfold Queues.qsim. now rewrite H. Qed.

  Lemma wait_cmds_k w : 0 <= w -> wait_cmds op (w, -1) = [QWaitK w].
  Proof. intros H. unfold wait_cmds. cbn [fst snd]. destruct (Z.leb_spec 0 w); [reflexivity | lia]. Qed.

  Lemma wait_cmds_d w : 0 <= w -> wait_cmds op (-1, w) = [QWaitD w].
  Proof. intros H. unfold wait_cmds. cbn [fst snd]. destruct (Z.leb_spec 0 w); [reflexivity | lia]. Qed.

  Lemma wait_cmds_none : wait_cmds op (-1, -1) = [].
  Proof. reflexivity. Qed.

  Lemma emit_accepted ops : forall s q, wcovers s q -> qcheck q (emit s ops) = true.
  Proof.
    induction ops as [|o t IH]; intros s q [Hk Hd]; [reflexivity|].
    cbn [Waits.emit]. unfold Waits.step.
    destruct (is_dma o) eqn:Hdma.
    - destruct (scan o (rev (o_kern s)) 0) as [w|] eqn:Hscan.
      + apply scan_rev_some in Hscan as [Hw Hall].
        rewrite wait_cmds_k by exact Hw. cbn [app].
        rewrite qcheck_waitk, qcheck_issue, Hdma, (qsim_issue_dma _ _ Hdma). cbn [q_kern q_dma].
        apply andb_true_iff. split.
        * apply forallb_negb_conflict. intros x Hx. apply Hall.
          rewrite keep_newest_lastn. eapply suffix_in; [apply lastn_mono; exact Hk | exact Hx].
        * apply IH. split; cbn [q_kern q_dma o_kern o_dma].
          -- rewrite keep_newest_lastn. apply lastn_mono. exact Hk.
          -- apply push_bounded_cover. exact Hd.
      + rewrite wait_cmds_none. cbn [app].
        rewrite qcheck_issue, Hdma, (qsim_issue_dma _ _ Hdma).
        apply andb_true_iff. split.
        * apply forallb_negb_conflict. intros x Hx. eapply scan_rev_none; [exact Hscan|].
          eapply suffix_in; eassumption.
        * apply IH. split; cbn [q_kern q_dma o_kern o_dma]; [exact Hk | apply push_bounded_cover; exact Hd].
    - destruct (scan o (rev (o_dma s)) 0) as [w|] eqn:Hscan.
      + apply scan_rev_some in Hscan as [Hw Hall].
        rewrite wait_cmds_d by exact Hw. cbn [app].
        rewrite qcheck_waitd, qcheck_issue, Hdma, (qsim_issue_kern _ _ Hdma). cbn [q_kern q_dma].
        apply andb_true_iff. split.
        * apply forallb_negb_conflict. intros x Hx. apply Hall.
          rewrite keep_newest_lastn. eapply suffix_in; [apply lastn_mono; exact Hd | exact Hx].
        * apply IH. split; cbn [q_kern q_dma o_kern o_dma].
          -- apply push_bounded_cover. exact Hk.
          -- rewrite keep_newest_lastn. apply lastn_mono. exact Hd.
      + rewrite wait_cmds_none. cbn [app].
        rewrite qcheck_issue, Hdma, (qsim_issue_kern _ _ Hdma).
        apply andb_true_iff. split.
        * apply forallb_negb_conflict. intros x Hx. eapply scan_rev_none; [exact Hscan|].
          eapply suffix_in; eassumption.
        * apply IH. split; cbn [q_kern q_dma o_kern o_dma]; [apply push_bounded_cover; exact Hk | exact Hd].
  Qed.

  (* ------------------------------------------------------------ the model's own invariant *)
  (* every cross pair of the two outstanding lists is conflict-free, and the lists respect the
     outstanding limits *)
  Definition model_inv (s : wstate op) : Prop :=
    (forall k d, In k (o_kern s) -> In d (o_dma s) -> conflict k d = false) /\
    Z.of_nat (length (o_kern s)) <= max_kern /\ Z.of_nat (length (o_dma s)) <= max_dma.

  Hypothesis conflict_sym : forall a b, conflict a b = conflict b a.

  Lemma keep_newest_length w (l : list op) mx :
    Z.of_nat (length l) <= mx -> Z.of_nat (length (keep_newest w l)) <= mx.
  Proof.
    intros H. rewrite keep_newest_lastn.
    pose proof (suffix_length _ _ (lastn_suffix (Z.to_nat w) l)). lia.
  Qed.

  Lemma step_model_inv s o :
    0 <= max_dma -> 0 <= max_kern -> model_inv s -> model_inv (fst (step s o)).
  Proof.
    intros Hmd Hmk (Hx & Hlk & Hld). unfold Waits.step.
    destruct (is_dma o) eqn:Hdma.
    - destruct (scan o (rev (o_kern s)) 0) as [w|] eqn:Hscan; cbn [fst o_kern o_dma].
      + apply scan_rev_some in Hscan as [Hw Hall]. split; [|split].
        * intros k d Hk Hd. apply push_bounded_in in Hd as [Hd| ->].
          -- apply Hx; [|exact Hd]. rewrite keep_newest_lastn in Hk. eapply lastn_in; exact Hk.
          -- apply Hall. exact Hk.
        * apply keep_newest_length. exact Hlk.
        * apply push_bounded_length; assumption.
      + split; [|split].
        * intros k d Hk Hd. apply push_bounded_in in Hd as [Hd| ->].
          -- apply Hx; assumption.
          -- eapply scan_rev_none; eassumption.
        * exact Hlk.
        * apply push_bounded_length; assumption.
    - destruct (scan o (rev (o_dma s)) 0) as [w|] eqn:Hscan; cbn [fst o_kern o_dma].
      + apply scan_rev_some in Hscan as [Hw Hall]. split; [|split].
        * intros k d Hk Hd. apply push_bounded_in in Hk as [Hk| ->].
          -- apply Hx; [exact Hk|]. rewrite keep_newest_lastn in Hd. eapply lastn_in; exact Hd.
          -- rewrite conflict_sym. apply Hall. exact Hd.
        * apply push_bounded_length; assumption.
        * apply keep_newest_length. exact Hld.
      + split; [|split].
        * intros k d Hk Hd. apply push_bounded_in in Hk as [Hk| ->].
          -- apply Hx; assumption.
          -- rewrite conflict_sym. eapply scan_rev_none; eassumption.
        * apply push_bounded_length; assumption.
        * exact Hld.
  Qed.

  Lemma model_invariant_lemma ops :
    0 <= max_dma -> 0 <= max_kern ->
    model_inv (final_state op is_dma conflict max_dma max_kern w_init ops).
  Proof.
    intros Hmd Hmk.
    assert (G : forall s, model_inv s -> model_inv (final_state op is_dma conflict max_dma max_kern s ops)).
    { induction ops as [|o t IH]; intros s Hs; [exact Hs|].
      cbn [final_state]. apply IH. apply step_model_inv; assumption. }
    apply G. split; [intros k d []|]. cbn. lia.
  Qed.

  (* ------------------------------------------------------------ the theorem *)
  Theorem waits_separate_lemma ops :
    forall h rest,
      qsteps op is_dma max_dma max_kern (q_init, emit w_init ops) (h, rest) ->
      forall k d, In k (q_kern h) -> In d (q_dma h) -> conflict k d = false.
  Proof.
    intros h rest Hsteps k d Hk Hd.
    destruct (conflict k d) eqn:Hc; [|reflexivity]. exfalso.
    refine (qcheck_sound op is_dma max_dma max_kern conflict (fun a b => conflict a b = true)
              _ _ (emit w_init ops) _ h rest Hsteps k d Hk Hd Hc).
    - intros a b H. now rewrite conflict_sym.
    - intros a b H. exact H.
    - apply emit_accepted. split; apply suffix_nil.
  Qed.
End WaitsProofs.

(* ------------------------------------------------------------ a non-trivial instance *)
(* operations 0..3: conv(0) dma(1) conv(2) dma(3); the DMAs write what the following convolution
   reads, U65 limits: the model emits DMA_WAIT 0 before conv 2 and nothing else for this order *)
Example waits_example :
  let is_dma := fun o : Z => Z.odd o in
  let conflict := fun a b : Z => ((a =? 1) && (b =? 2)) || ((a =? 2) && (b =? 1)) || ((a =? 3) && (b =? 0)) || ((a =? 0) && (b =? 3)) in
  (forall a b, conflict a b = conflict b a) /\
  run_waits Z is_dma conflict 2 2 w_init [0; 1; 2; 3] = [(-1, -1); (-1, -1); (-1, 0); (1, -1)] /\
  emit Z is_dma conflict 2 2 w_init [0; 1; 2; 3] =
    [QIssue 0; QIssue 1; QWaitD 0; QIssue 2; QWaitK 1; QIssue 3].
Proof.
  cbv zeta. split; [|split; vm_compute; reflexivity].
  intros a b.
  destruct (Z.eqb_spec a 0), (Z.eqb_spec a 1), (Z.eqb_spec a 2), (Z.eqb_spec a 3),
           (Z.eqb_spec b 0), (Z.eqb_spec b 1), (Z.eqb_spec b 2), (Z.eqb_spec b 3); try reflexivity; lia.
Qed.

(* ------------------------------------------------------------ D1 end to end on the models *)
(* the abstract relation instantiated with MemoryAccessSet.conflicts (model/RangeSet.v): operations
   carry access sets that satisfy the class invariant; then no kernel operation and DMA operation
   that are unfinished together have a byte written by one and read or written by the other *)
From VV Require Import model.RangeSet proofs.RangeSetProofs.

Section WaitsBytes.
  Variable op : Type.
  Variable is_dma : op -> bool.
  Variable acc : op -> maset.                     (* memory_accesses[op] *)
  Variable max_dma : Z.
  Variable max_kern : Z.
  Hypothesis acc_wf : forall o, ma_wf (acc o).

  Definition acc_conflict (a b : op) : bool :=
    match ma_conflicts (acc a) (acc b) with Some true => true | _ => false end.

  Lemma acc_conflict_sym a b : acc_conflict a b = acc_conflict b a.
  Proof. unfold acc_conflict. now rewrite (ma_conflicts_sym_lemma _ _ (acc_wf a) (acc_wf b)). Qed.

  Theorem waits_separate_bytes_lemma ops :
    forall h rest,
      qsteps op is_dma max_dma max_kern
             (q_init, emit op is_dma acc_conflict max_dma max_kern w_init ops) (h, rest) ->
      forall k d, In k (q_kern h) -> In d (q_dma h) -> ~ byte_conflict (acc k) (acc d).
  Proof.
    intros h rest Hsteps k d Hk Hd Hbc.
    pose proof (waits_separate_lemma op is_dma acc_conflict max_dma max_kern acc_conflict_sym ops h rest Hsteps k d Hk Hd) as Hc.
    unfold acc_conflict in Hc.
    destruct (ma_conflicts_decides _ _ (acc_wf k) (acc_wf d)) as [[E _]|[E N]].
    - rewrite E in Hc. discriminate.
    - contradiction.
  Qed.
End WaitsBytes.
