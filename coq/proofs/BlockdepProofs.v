(* C04: calc_blockdep (model/Blockdep.v).  If the double loop returns k then for all f, b with
   f + b < k the input volume of job f of the consumer does not `intersects` the b-th last output
   block of the producer -- over ABSTRACT job volumes, then for the concrete geometry. *)
From Coq Require Import ZArith List Bool Lia.
From VV Require Import model.Blockdep.
Import ListNotations.
Open Scope Z_scope.

Section LoopProofs.
  Variable area : Type.
  Variable first_job : Z -> option area.
  Variable prev_job : Z -> option area.
  Variable meets : area -> area -> bool.
  Variable maxdep : Z.

  Notation inner_loop := (inner_loop area prev_job meets maxdep).
  Notation outer_loop := (outer_loop area first_job prev_job meets maxdep).

  (* the inner loop stops at the first previous block that meets the input volume (or that does
     not exist): every block before the returned count is clear *)
  Lemma inner_spec n : forall b ia,
    b <= inner_loop n b b ia /\
    forall b', b <= b' < inner_loop n b b ia -> forall oa, prev_job b' = Some oa -> meets ia oa = false.
  Proof.
    induction n as [|n IH]; intros b ia; cbn [Blockdep.inner_loop].
    - split; [lia | intros b' Hb; lia].
    - destruct (prev_job b) as [oa0|] eqn:Hp; [|split; [lia | intros; lia]].
      destruct (meets ia oa0) eqn:Hm; [split; [lia | intros; lia]|].
      destruct (b >? maxdep); [split; [lia | intros; lia]|].
      destruct (IH (b + 1) ia) as [Hle Hall]. split; [lia|].
      intros b' Hb' oa Hoa. destruct (Z.eq_dec b' b) as [->|Hne].
      + rewrite Hp in Hoa. injection Hoa as <-. exact Hm.
      + apply (Hall b'); [lia | exact Hoa].
  Qed.

  Lemma outer_spec n : forall f bd,
    Z.of_nat n + f = maxdep -> 0 <= f -> bd <= maxdep ->
    outer_loop n f f bd <= bd /\
    forall f' b ia oa,
      f <= f' -> 0 <= b -> f' + b < outer_loop n f f bd ->
      (forall g, f <= g <= f' -> first_job g <> None) ->
      first_job f' = Some ia -> prev_job b = Some oa -> meets ia oa = false.
  Proof.
    induction n as [|n IH]; intros f bd Hn Hf Hbd; cbn [Blockdep.outer_loop].
    - split; [lia|]. intros f' b ia oa Hf' Hb Hlt. cbn in Hn. lia.
    - destruct (first_job f) as [ia0|] eqn:Hfj.
      2:{ split; [lia|]. intros f' b ia oa Hf' Hb Hlt Hpre. exfalso. apply (Hpre f); [lia | exact Hfj]. }
      set (o := Blockdep.inner_loop area prev_job meets maxdep (Z.to_nat maxdep) 0 0 ia0).
      destruct (inner_spec (Z.to_nat maxdep) 0 ia0) as [Ho Hclear]. fold o in Ho, Hclear.
      destruct (Z.gtb_spec (f + 1) maxdep) as [Hexit|Hcont].
      + split; [lia|]. intros f' b ia oa Hf' Hb Hlt Hpre Hia Hoa.
        assert (f' = f) by lia. subst f'. rewrite Hfj in Hia. injection Hia as <-.
        apply (Hclear b); [lia | exact Hoa].
      + rewrite Nat2Z.inj_succ in Hn.
        destruct (IH (f + 1) (Z.min bd (f + o)) ltac:(lia) ltac:(lia) ltac:(lia)) as [Hle Hall].
        split; [lia|]. intros f' b ia oa Hf' Hb Hlt Hpre Hia Hoa.
        destruct (Z.eq_dec f' f) as [->|Hne].
        * rewrite Hfj in Hia. injection Hia as <-. apply (Hclear b); [lia | exact Hoa].
        * apply (Hall f' b ia oa); try assumption; try lia. intros g Hg. apply Hpre. lia.
  Qed.

  (* the abstract statement *)
  Theorem blockdep_loop_sound :
    let k := blockdep_loop area first_job prev_job meets maxdep in
    k <= maxdep /\
    forall f b ia oa,
      0 <= f -> 0 <= b -> f + b < k ->
      (forall g, 0 <= g <= f -> first_job g <> None) ->
      first_job f = Some ia -> prev_job b = Some oa -> meets ia oa = false.
  Proof.
    cbv zeta. unfold blockdep_loop. destruct (Z.le_gt_cases 0 maxdep) as [Hpos|Hneg].
    - destruct (outer_spec (Z.to_nat maxdep) 0 maxdep ltac:(lia) ltac:(lia) ltac:(lia)) as [Hle Hall].
      split; [exact Hle|]. intros f b ia oa Hf Hb Hlt Hpre Hia Hoa. apply (Hall f b ia oa); assumption.
    - replace (Z.to_nat maxdep) with 0%nat by lia. cbn [Blockdep.outer_loop]. split; [lia|]. intros; lia.
  Qed.
End LoopProofs.

(* ------------------------------------------------------------------ the concrete geometry *)
(* job volumes exist for a prefix of the offsets: if job f of the consumer exists so does every
   earlier one *)
Lemma offset_block_prefix aw ah ad bw bh bd i j :
  0 <= i <= j -> get_offset_block_coords aw ah ad bw bh bd j <> None ->
  get_offset_block_coords aw ah ad bw bh bd i <> None.
Proof.
  unfold get_offset_block_coords. intros Hij.
  destruct (Z.ltb_spec j 0); [lia|]. destruct (Z.ltb_spec i 0); [lia|].
  set (total := round_up_divide aw bw * round_up_divide ah bh * round_up_divide ad bd).
  destruct (Z.leb_spec total j); [intros H'; now elim H'|].
  destruct (Z.leb_spec total i); [lia|]. discriminate.
Qed.

Lemma first_job_prefix ar c ibd g f :
  0 < round_up_divide (fm_d (co_ifm c)) ibd -> 0 <= g <= f ->
  get_first_job_input_volume ar c ibd f <> None -> get_first_job_input_volume ar c ibd g <> None.
Proof.
  intros Hidb Hgf. unfold get_first_job_input_volume. destruct (ifm_block_wh ar c) as [ibw ibh].
  set (idb := round_up_divide (fm_d (co_ifm c)) ibd) in *.
  assert (Hdiv : 0 <= g / idb <= f / idb).
  { split; [apply Z.div_pos; lia | apply Z.div_le_mono; lia]. }
  pose proof (offset_block_prefix (co_ow c) (co_oh c) (co_od c) (co_bw c) (co_bh c) (co_bd c) _ _ Hdiv) as Hp.
  destruct (get_offset_block_coords (co_ow c) (co_oh c) (co_od c) (co_bw c) (co_bh c) (co_bd c) (f / idb)) eqn:Ef;
    [|intros H; now elim H].
  intros _. destruct (get_offset_block_coords (co_ow c) (co_oh c) (co_od c) (co_bw c) (co_bh c) (co_bd c) (g / idb)) eqn:Eg.
  - discriminate.
  - exfalso. apply Hp; [discriminate | reflexivity].
Qed.

(* blockdep_sound for the loop of calc_blockdep *)
Lemma blockdep_core_sound ar p c fm ibd :
  0 < round_up_divide (fm_d (co_ifm c)) ibd ->
  let k := blockdep_core ar p c fm ibd in
  k <= ar_maxdep ar /\
  forall f b ia oa,
    0 <= f -> 0 <= b -> f + b < k ->
    get_first_job_input_volume ar c ibd f = Some ia ->
    get_prev_job_output_volume p b = Some oa ->
    intersects fm ia (po_ofm p) oa = false.
Proof.
  intros Hidb. cbv zeta. unfold blockdep_core.
  destruct (blockdep_loop_sound vol (get_first_job_input_volume ar c ibd) (get_prev_job_output_volume p)
              (fun ia oa => intersects fm ia (po_ofm p) oa) (ar_maxdep ar)) as [Hle Hall].
  split; [exact Hle|]. intros f b ia oa Hf Hb Hlt Hia Hoa.
  apply (Hall f b ia oa Hf Hb Hlt); [|exact Hia | exact Hoa].
  intros g Hg. apply (first_job_prefix ar c ibd g f Hidb Hg). rewrite Hia. discriminate.
Qed.

(* what calc_blockdep returns: 0 in the early-exit cases, MAX_BLOCKDEP when the producer's OFM
   overlaps neither operand, otherwise the loop result for the overlapping operand *)
Lemma calc_blockdep_cases ar p c k :
  calc_blockdep ar (Some p) c = Some k ->
  k = 0 \/ k = ar_maxdep ar \/
  exists fm ibd, (fm = co_ifm c \/ fm = co_ifm2 c) /\ get_ifm_ofm_block_depth ar c = Some ibd /\
                 k = blockdep_core ar p c fm ibd.
Proof.
  unfold calc_blockdep.
  destruct (po_lut p && (ar_reserved_unused ar =? 0) && negb (co_lut c)); [intros [= <-]; now left|].
  set (ov1 := range_lists_overlap (get_address_ranges (po_ofm p)) (get_address_ranges (co_ifm c))).
  set (ov2 := if co_has_ifm2 c then range_lists_overlap (get_address_ranges (po_ofm p)) (get_address_ranges (co_ifm2 c)) else false).
  destruct (ov1 && ov2); [intros [= <-]; now left|].
  destruct (negb ov1 && negb ov2); [intros [= <-]; right; now left|].
  destruct (ov2 && (shape_size (co_ifm2 c) <? shape_size (co_ifm c))); [intros [= <-]; now left|].
  destruct (get_ifm_ofm_block_depth ar c) as [ibd|] eqn:Hd; [|discriminate].
  intros [= <-]. right. right. exists (if ov1 then co_ifm c else co_ifm2 c), ibd.
  split; [destruct ov1; auto|]. split; reflexivity.
Qed.

Lemma calc_blockdep_zero_cases ar p c :
  (calc_blockdep ar None c = Some 0) /\
  (po_lut p = true -> ar_reserved_unused ar = 0 -> co_lut c = false -> calc_blockdep ar (Some p) c = Some 0).
Proof.
  split; [reflexivity|]. intros H1 H2 H3. unfold calc_blockdep. rewrite H1, H2, H3. reflexivity.
Qed.

(* a non-trivial instance: test_calc_blockdep2 of the repository (a 1x1 convolution producing the
   lower tile of a strided depthwise convolution's IFM; Ethos-U55-128) evaluates to 2 *)
Definition ex_fm (h w d h0 h1 w0 a0 a2 : Z) : fmap :=
  {| fm_region := 1; fm_h := h; fm_w := w; fm_d := d; fm_h0 := h0; fm_h1 := h1; fm_w0 := w0;
     fm_a0 := a0; fm_a1 := 0; fm_a2 := a2; fm_a3 := 0; fm_b16 := true; fm_elem := 1;
     fm_has_strides := false; fm_sh := 0; fm_sw := 0; fm_sd := 0 |}.

Example blockdep_example :
  let ar := {| ar_ublock_w := 2; ar_ublock_h := 2; ar_ublock_d := 8; ar_reserved_unused := 2; ar_maxdep := 3 |} in
  let p := {| po_ofm := ex_fm 4 48 16 4 4 48 25728 0; po_lut := false; po_bh := 4; po_bw := 6; po_bd := 16 |} in
  let c := {| co_conv := false; co_ifm_bits := 8; co_ifm := ex_fm 3 48 16 2 2 48 30336 25728;
              co_has_ifm2 := false; co_ifm2 := ex_fm 1 1 1 1 1 1 0 0; co_oh := 1; co_ow := 24; co_od := 16;
              co_lut := false; co_bh := 1; co_bw := 8; co_bd := 16;
              co_kw := 3; co_kh := 3; co_sx := 2; co_sy := 2; co_dx := 1; co_dy := 1;
              co_pt := 0; co_pl := 0; co_pb := 0; co_pr := 0 |} in
  calc_blockdep ar (Some p) c = Some 2 /\ 0 < round_up_divide (fm_d (co_ifm c)) 16.
Proof. cbv zeta. split; vm_compute; reflexivity. Qed.
