(* C04: calc_blockdep (model/Blockdep.v).  If the double loop returns k then for all f, b with
   f + b < k the input volume of job f of the consumer does not `intersects` the b-th last output
   block of the producer -- over ABSTRACT job volumes, then for the concrete geometry. *)
From Coq Require Import ZArith List Bool Lia.
From VV Require Import model.Blockdep.
Import ListNotations.
Open Scope Z_scope.

Section LoopProofs.
  Variable area : Type.
  Variable first_job : Z -> option area.
  Variable prev_job : Z -> option area.
  Variable meets : area -> area -> bool.
  Variable maxdep : Z.

  Notation inner_loop := (inner_loop area prev_job meets maxdep).
  Notation outer_loop := (outer_loop area first_job prev_job meets maxdep).

  (* the inner loop stops at the first previous block that meets the input volume (or that does
     not exist): every block before the returned count is clear *)
  Lemma inner_spec n : forall b ia,
    b <= inner_loop n b b ia /\
    forall b', b <= b' < inner_loop n b b ia -> forall oa, prev_job b' = Some oa -> meets ia oa = false.
  Proof.
    induction n as [|n IH]; intros b ia; cbn [Blockdep.inner_loop].
    - split; [lia | intros b' Hb; lia].
    - destruct (prev_job b) as [oa0|] eqn:Hp; [|split; [lia | intros; lia]].
      destruct (meets ia oa0) eqn:Hm; [split; [lia | intros; lia]|].
      destruct (b >? maxdep); [split; [lia | intros; lia]|].
      destruct (IH (b + 1) ia) as [Hle Hall]. split; [lia|].
      intros b' Hb' oa Hoa. destruct (Z.eq_dec b' b) as [->|Hne].
      + rewrite Hp in Hoa. injection Hoa as <-. exact Hm.
      + apply (Hall b'); [lia | exact Hoa].
  Qed.

  Lemma outer_spec n : forall f bd,
    Z.of_nat n + f = maxdep -> 0 <= f -> bd <= maxdep ->
    outer_loop n f f bd <= bd /\
    forall f' b ia oa,
      f <= f' -> 0 <= b -> f' + b < outer_loop n f f bd ->
      (forall g, f <= g <= f' -> first_job g <> None) ->
      first_job f' = Some ia -> prev_job b = Some oa -> meets ia oa = false.
  Proof.
    induction n as [|n IH]; intros f bd Hn Hf Hbd; cbn [Blockdep.outer_loop].
    - split; [lia|]. intros f' b ia oa Hf' Hb Hlt. cbn in Hn. lia.
    - destruct (first_job f) as [ia0|] eqn:Hfj.
      2:{ split; [lia|]. intros f' b ia oa Hf' Hb Hlt Hpre. exfalso. apply (Hpre f); [lia | exact Hfj]. }
      set (o := Blockdep.inner_loop area prev_job meets maxdep (Z.to_nat maxdep) 0 0 ia0).
      destruct (inner_spec (Z.to_nat maxdep) 0 ia0) as [Ho Hclear]. fold o in Ho, Hclear.
      destruct (Z.gtb_spec (f + 1) maxdep) as [Hexit|Hcont].
      + split; [lia|]. intros f' b ia oa Hf' Hb Hlt Hpre Hia Hoa.
        assert (f' = f) by lia. subst f'. rewrite Hfj in Hia. injection Hia as <-.
        apply (Hclear b); [lia | exact Hoa].
      + rewrite Nat2Z.inj_succ in Hn.
        destruct (IH (f + 1) (Z.min bd (f + o)) ltac:(lia) ltac:(lia) ltac:(lia)) as [Hle Hall].
        split; [lia|]. intros f' b ia oa Hf' Hb Hlt Hpre Hia Hoa.
        destruct (Z.eq_dec f' f) as [->|Hne].
        * rewrite Hfj in Hia. injection Hia as <-. apply (Hclear b); [lia | exact Hoa].
        * apply (Hall f' b ia oa); try assumption; try lia. intros g Hg. apply Hpre. lia.
  Qed.

  (* the abstract statement *)
  Theorem blockdep_loop_sound :
    let k := blockdep_loop area first_job prev_job meets maxdep in
    k <= maxdep /\
    forall f b ia oa,
      0 <= f -> 0 <= b -> f + b < k ->
      (forall g, 0 <= g <= f -> first_job g <> None) ->
      first_job f = Some ia -> prev_job b = Some oa -> meets ia oa = false.
  Proof.
    cbv zeta. unfold blockdep_loop. destruct (Z.le_gt_cases 0 maxdep) as [Hpos|Hneg].
    - destruct (outer_spec (Z.to_nat maxdep) 0 maxdep ltac:(lia) ltac:(lia) ltac:(lia)) as [Hle Hall].
      split; [exact Hle|]. intros f b ia oa Hf Hb Hlt Hpre Hia Hoa. apply (Hall f b ia oa); assumption.
    - replace (Z.to_nat maxdep) with 0%nat by lia. cbn [Blockdep.outer_loop]. split; [lia|]. intros; lia.
  Qed.
End LoopProofs.

(* ------------------------------------------------------------------ the concrete geometry *)
(* job volumes exist for a prefix of the offsets: if job f of the consumer exists so does every
   earlier one *)
Lemma offset_block_prefix aw ah ad bw bh bd i j :
  0 <= i <= j -> get_offset_block_coords aw ah ad bw bh bd j <> None ->
  get_offset_block_coords aw ah ad bw bh bd i <> None.
Proof.
  unfold get_offset_block_coords. intros Hij.
  destruct (Z.ltb_spec j 0); [lia|]. destruct (Z.ltb_spec i 0); [lia|].
  set (total := round_up_divide aw bw * round_up_divide ah bh * round_up_divide ad bd).
  destruct (Z.leb_spec total j); [intros H'; now elim H'|].
  destruct (Z.leb_spec total i); [lia|]. discriminate.
Qed.

Lemma first_job_prefix ar c ibd g f :
  0 < round_up_divide (fm_d (co_ifm c)) ibd -> 0 <= g <= f ->
  get_first_job_input_volume ar c ibd f <> None -> get_first_job_input_volume ar c ibd g <> None.
Proof.
  intros Hidb Hgf. unfold get_first_job_input_volume. destruct (ifm_block_wh ar c) as [ibw ibh].
  set (idb := round_up_divide (fm_d (co_ifm c)) ibd) in *.
  assert (Hdiv : 0 <= g / idb <= f / idb).
  { split; [apply Z.div_pos; lia | apply Z.div_le_mono; lia]. }
  pose proof (offset_block_prefix (co_ow c) (co_oh c) (co_od c) (co_bw c) (co_bh c) (co_bd c) _ _ Hdiv) as Hp.
  destruct (get_offset_block_coords (co_ow c) (co_oh c) (co_od c) (co_bw c) (co_bh c) (co_bd c) (f / idb)) eqn:Ef;
    [|intros H; now elim H].
  intros _. destruct (get_offset_block_coords (co_ow c) (co_oh c) (co_od c) (co_bw c) (co_bh c) (co_bd c) (g / idb)) eqn:Eg.
  - discriminate.
  - exfalso. apply Hp; [discriminate | reflexivity].
Qed.

(* blockdep_sound for the loop of calc_blockdep *)
Lemma blockdep_core_sound ar p c fm ibd :
  0 < round_up_divide (fm_d (co_ifm c)) ibd ->
  let k := blockdep_core ar p c fm ibd in
  k <= ar_maxdep ar /\
  forall f b ia oa,
    0 <= f -> 0 <= b -> f + b < k ->
    get_first_job_input_volume ar c ibd f = Some ia ->
    get_prev_job_output_volume p b = Some oa ->
    intersects fm ia (po_ofm p) oa = false.
Proof.
  intros Hidb. cbv zeta. unfold blockdep_core.
  destruct (blockdep_loop_sound vol (get_first_job_input_volume ar c ibd) (get_prev_job_output_volume p)
              (fun ia oa => intersects fm ia (po_ofm p) oa) (ar_maxdep ar)) as [Hle Hall].
  split; [exact Hle|]. intros f b ia oa Hf Hb Hlt Hia Hoa.
  apply (Hall f b ia oa Hf Hb Hlt); [|exact Hia | exact Hoa].
  intros g Hg. apply (first_job_prefix ar c ibd g f Hidb Hg). rewrite Hia. discriminate.
Qed.

(* With the row coordinate taken from the TOP padding (repo commit 08d9aae; before it the right
   padding was subtracted and this statement was false) the input volume of a job contains the
   whole receptive field of its OFM block: every non-negative row / column that some output of the
   block [y, y + block height) x [x, x + block width) reads through the (dilated, at most 32 x 64)
   kernel lies between the volume's start and end. *)
Lemma round_up_ge a b : 0 < b -> a <= round_up a b.
Proof.
  intros Hb. unfold round_up.
  pose proof (Z.div_mod (a + b - 1) b ltac:(lia)). pose proof (Z.mod_pos_bound (a + b - 1) b Hb). nia.
Qed.

Lemma first_job_volume_covers_lemma ar c ibd off ia :
  0 < ar_ublock_h ar -> 0 < ar_ublock_w ar ->
  get_first_job_input_volume ar c ibd off = Some ia ->
  exists oc,
    get_offset_block_coords (co_ow c) (co_oh c) (co_od c) (co_bw c) (co_bh c) (co_bd c)
                            (off / round_up_divide (fm_d (co_ifm c)) ibd) = Some oc /\
    (forall r, 0 <= r ->
       py oc * co_sy c - co_pt c <= r < (py oc + co_bh c - 1) * co_sy c - co_pt c + Z.min 32 ((co_kh c - 1) * co_dy c + 1) ->
       py (fst ia) <= r < py (snd ia)) /\
    (forall q, 0 <= q ->
       px oc * co_sx c - co_pl c <= q < (px oc + co_bw c - 1) * co_sx c - co_pl c + Z.min 64 ((co_kw c - 1) * co_dx c + 1) ->
       px (fst ia) <= q < px (snd ia)).
Proof.
  intros Hh Hw. unfold get_first_job_input_volume, ifm_block_wh.
  destruct (get_offset_block_coords (co_ow c) (co_oh c) (co_od c) (co_bw c) (co_bh c) (co_bd c)
              (off / round_up_divide (fm_d (co_ifm c)) ibd)) as [oc|]; [|discriminate].
  intros [= <-]. exists oc. split; [reflexivity|]. cbn [fst snd px py].
  pose proof (round_up_ge ((co_bh c - 1) * co_sy c + Z.min 32 ((co_kh c - 1) * co_dy c + 1)) (ar_ublock_h ar) Hh).
  pose proof (round_up_ge ((co_bw c - 1) * co_sx c + Z.min 64 ((co_kw c - 1) * co_dx c + 1)) (ar_ublock_w ar) Hw).
  split; intros v Hv Hr; lia.
Qed.

(* what calc_blockdep returns: 0 in the early-exit cases, MAX_BLOCKDEP when the producer's OFM
   overlaps neither operand, otherwise the loop result for the overlapping operand *)
Lemma calc_blockdep_cases ar p c k :
  calc_blockdep ar (Some p) c = Some k ->
  k = 0 \/ k = ar_maxdep ar \/
  exists fm ibd, (fm = co_ifm c \/ fm = co_ifm2 c) /\ get_ifm_ofm_block_depth ar c = Some ibd /\
                 k = blockdep_core ar p c fm ibd.
Proof.
  unfold calc_blockdep.
  destruct (po_lut p && (ar_reserved_unused ar =? 0) && negb (co_lut c)); [intros [= <-]; now left|].
  set (ov1 := range_lists_overlap (get_address_ranges (po_ofm p)) (get_address_ranges (co_ifm c))).
  set (ov2 := if co_has_ifm2 c then range_lists_overlap (get_address_ranges (po_ofm p)) (get_address_ranges (co_ifm2 c)) else false).
  destruct (ov1 && ov2); [intros [= <-]; now left|].
  destruct (negb ov1 && negb ov2); [intros [= <-]; right; now left|].
  destruct (ov2 && (shape_size (co_ifm2 c) <? shape_size (co_ifm c))); [intros [= <-]; now left|].
  destruct (get_ifm_ofm_block_depth ar c) as [ibd|] eqn:Hd; [|discriminate].
  intros [= <-]. right. right. exists (if ov1 then co_ifm c else co_ifm2 c), ibd.
  split; [destruct ov1; auto|]. split; reflexivity.
Qed.

Lemma calc_blockdep_zero_cases ar p c :
  (calc_blockdep ar None c = Some 0) /\
  (po_lut p = true -> ar_reserved_unused ar = 0 -> co_lut c = false -> calc_blockdep ar (Some p) c = Some 0).
Proof.
  split; [reflexivity|]. intros H1 H2 H3. unfold calc_blockdep. rewrite H1, H2, H3. reflexivity.
Qed.

(* a non-trivial instance: test_calc_blockdep2 of the repository (a 1x1 convolution producing the
   lower tile of a strided depthwise convolution's IFM; Ethos-U55-128) evaluates to 2 *)
Definition ex_fm (h w d h0 h1 w0 a0 a2 : Z) : fmap :=
  {| fm_region := 1; fm_h := h; fm_w := w; fm_d := d; fm_h0 := h0; fm_h1 := h1; fm_w0 := w0;
     fm_a0 := a0; fm_a1 := 0; fm_a2 := a2; fm_a3 := 0; fm_b16 := true; fm_elem := 1;
     fm_has_strides := false; fm_sh := 0; fm_sw := 0; fm_sd := 0 |}.

Example blockdep_example :
  let ar := {| ar_ublock_w := 2; ar_ublock_h := 2; ar_ublock_d := 8; ar_reserved_unused := 2; ar_maxdep := 3 |} in
  let p := {| po_ofm := ex_fm 4 48 16 4 4 48 25728 0; po_lut := false; po_bh := 4; po_bw := 6; po_bd := 16 |} in
  let c := {| co_conv := false; co_ifm_bits := 8; co_ifm := ex_fm 3 48 16 2 2 48 30336 25728;
              co_has_ifm2 := false; co_ifm2 := ex_fm 1 1 1 1 1 1 0 0; co_oh := 1; co_ow := 24; co_od := 16;
              co_lut := false; co_bh := 1; co_bw := 8; co_bd := 16;
              co_kw := 3; co_kh := 3; co_sx := 2; co_sy := 2; co_dx := 1; co_dy := 1;
              co_pt := 0; co_pl := 0; co_pb := 0; co_pr := 0 |} in
  calc_blockdep ar (Some p) c = Some 2 /\ 0 < round_up_divide (fm_d (co_ifm c)) 16.
Proof. cbv zeta. split; vm_compute; reflexivity. Qed.

(* ------------------------------------------------------------------ footprint_overapprox *)
(* The per-tile bounding ranges of get_address_ranges (the ranges get_op_memory_accesses hands to the
   conflict test, and calc_blockdep uses to classify overlap) contain every element of the feature
   map, so the conflict relation used is a superset of the byte-level one. *)
Lemma chan_mono sc e c c' :
  0 <= e -> 16 * e <= sc -> c <= c' ->
  (c / 16) * sc + (c mod 16) * e <= (c' / 16) * sc + (c' mod 16) * e.
Proof.
  intros He Hsc Hc.
  pose proof (Z.div_mod c 16 ltac:(lia)) as E1. pose proof (Z.mod_pos_bound c 16 ltac:(lia)) as B1.
  pose proof (Z.div_mod c' 16 ltac:(lia)) as E2. pose proof (Z.mod_pos_bound c' 16 ltac:(lia)) as B2.
  set (q := c / 16) in *. set (r := c mod 16) in *. set (q' := c' / 16) in *. set (r' := c' mod 16) in *.
  assert (Hq : q <= q') by lia.
  destruct (Z.eq_dec q q') as [->|Hne].
  - assert (r <= r') by lia. nia.
  - assert (H1 : 1 <= q' - q) by lia.
    assert (H2 : sc <= (q' - q) * sc) by nia.
    assert (H3 : (r - r') * e <= 15 * e) by nia.
    nia.
Qed.

(* get_address is monotone in every coordinate inside one tile *)
Lemma address_between fm s_h s_w s_d y0 x0 c0 y1 x1 c1 y x c :
  0 <= s_h -> 0 <= s_w -> 0 < fm_elem fm -> (fm_b16 fm = true -> 16 * fm_elem fm <= s_d) ->
  ((fm_w0 fm <=? x0) = (fm_w0 fm <=? x1)) ->
  ((fm_h1 fm <=? y0) = (fm_h1 fm <=? y1) \/ (fm_w0 fm <=? x0) = false) ->
  ((fm_h0 fm <=? y0) = (fm_h0 fm <=? y1) \/ (fm_w0 fm <=? x0) = true) ->
  y0 <= y <= y1 -> x0 <= x <= x1 -> c0 <= c <= c1 ->
  get_address fm (s_h, s_w, s_d) y0 x0 c0 <= get_address fm (s_h, s_w, s_d) y x c /\
  get_address fm (s_h, s_w, s_d) y x c <= get_address fm (s_h, s_w, s_d) y1 x1 c1.
Proof.
  intros Hsh Hsw He Hsd Tx Ty1 Ty0 Hy Hx Hc. unfold get_address.
  set (sc := if fm_b16 fm then s_d else 16 * fm_elem fm).
  set (sx := if fm_b16 fm then 16 * fm_elem fm else s_w).
  assert (Hsc : 16 * fm_elem fm <= sc) by (unfold sc; destruct (fm_b16 fm); [apply Hsd; reflexivity | lia]).
  assert (Hsx : 0 <= sx) by (unfold sx; destruct (fm_b16 fm); lia).
  pose proof (chan_mono sc (fm_elem fm) c0 c ltac:(lia) Hsc ltac:(lia)) as M1.
  pose proof (chan_mono sc (fm_elem fm) c c1 ltac:(lia) Hsc ltac:(lia)) as M2.
  destruct (Z.leb_spec (fm_w0 fm) x0) as [A0|A0]; destruct (Z.leb_spec (fm_w0 fm) x1) as [A1|A1]; try discriminate;
    destruct (Z.leb_spec (fm_w0 fm) x) as [A|A]; try lia.
  - destruct Ty1 as [Ty1|Ty1]; [|discriminate].
    destruct (Z.leb_spec (fm_h1 fm) y0) as [B0|B0]; destruct (Z.leb_spec (fm_h1 fm) y1) as [B1|B1]; try discriminate;
      destruct (Z.leb_spec (fm_h1 fm) y) as [B|B]; try lia; split; nia.
  - destruct Ty0 as [Ty0|Ty0]; [|discriminate].
    destruct (Z.leb_spec (fm_h0 fm) y0) as [B0|B0]; destruct (Z.leb_spec (fm_h0 fm) y1) as [B1|B1]; try discriminate;
      destruct (Z.leb_spec (fm_h0 fm) y) as [B|B]; try lia; split; nia.
Qed.

Definition strides_ok (fm : fmap) : Prop :=
  let '(s_h, s_w, s_d) := get_strides fm in
  0 <= s_h /\ 0 <= s_w /\ 0 < fm_elem fm /\ (fm_b16 fm = true -> 16 * fm_elem fm <= s_d).

(* an element address lies in one of the reported ranges *)
Definition covered_by (fm : fmap) (y x c : Z) (l : list (option arange)) : Prop :=
  exists a len, In (Some (fm_region fm, a, len)) l /\
    a <= get_address fm (get_strides fm) y x c /\
    get_address fm (get_strides fm) y x c + fm_elem fm <= a + len.

(* FULL (code as repaired by repo commit de3dc4c): every element of the feature map, whichever of the
   four tiles it lives in, lies in one of the reported bounding ranges *)
Theorem footprint_overapprox_lemma fm y x c :
  strides_ok fm ->
  0 <= y < fm_h fm -> 0 <= x < fm_w fm -> 0 <= c < fm_d fm ->
  covered_by fm y x c (get_address_ranges fm).
Proof.
  unfold strides_ok, covered_by, get_address_ranges. destruct (get_strides fm) as [[s_h s_w] s_d] eqn:Est.
  intros (Hsh & Hsw & He & Hsd) Hy Hx Hc. unfold get_address_range.
  destruct (Z.leb_spec (fm_w0 fm) x) as [A|A]; [destruct (Z.leb_spec (fm_h1 fm) y) as [B|B] | destruct (Z.leb_spec (fm_h0 fm) y) as [B|B]].
  - (* tile 3 *)
    destruct (Z.gtb_spec (fm_w fm) (fm_w0 fm)) as [G1|G1]; [|lia].
    destruct (Z.gtb_spec (fm_h fm) (fm_h1 fm)) as [G2|G2]; [|lia]. cbn [andb].
    assert (LU : get_address fm (s_h, s_w, s_d) (fm_h1 fm) (fm_w0 fm) (0) <= get_address fm (s_h, s_w, s_d) y x c /\
                 get_address fm (s_h, s_w, s_d) y x c <= get_address fm (s_h, s_w, s_d) (fm_h fm - 1) (fm_w fm - 1) (fm_d fm - 1)).
    { apply address_between; try assumption; try lia. }
    eexists. eexists. split; [right; right; right; left; reflexivity|]. lia.
  - (* tile 1 *)
    destruct (Z.gtb_spec (fm_w fm) (fm_w0 fm)) as [G1|G1]; [|lia].
    assert (LU : get_address fm (s_h, s_w, s_d) (0) (fm_w0 fm) (0) <= get_address fm (s_h, s_w, s_d) y x c /\
                 get_address fm (s_h, s_w, s_d) y x c <= get_address fm (s_h, s_w, s_d) (Z.min (fm_h fm) (fm_h1 fm) - 1) (fm_w fm - 1) (fm_d fm - 1)).
    { apply address_between; try assumption; try lia. }
    eexists. eexists. split; [right; left; reflexivity|]. lia.
  - (* tile 2 *)
    destruct (Z.gtb_spec (fm_h fm) (fm_h0 fm)) as [G2|G2]; [|lia].
    assert (LU : get_address fm (s_h, s_w, s_d) (fm_h0 fm) (0) (0) <= get_address fm (s_h, s_w, s_d) y x c /\
                 get_address fm (s_h, s_w, s_d) y x c <= get_address fm (s_h, s_w, s_d) (fm_h fm - 1) (Z.min (fm_w fm) (fm_w0 fm) - 1) (fm_d fm - 1)).
    { apply address_between; try assumption; try lia. }
    eexists. eexists. split; [right; right; left; reflexivity|]. lia.
  - (* tile 0 *)
    assert (LU : get_address fm (s_h, s_w, s_d) (0) (0) (0) <= get_address fm (s_h, s_w, s_d) y x c /\
                 get_address fm (s_h, s_w, s_d) y x c <= get_address fm (s_h, s_w, s_d) (Z.min (fm_h fm) (fm_h0 fm) - 1) (Z.min (fm_w fm) (fm_w0 fm) - 1) (fm_d fm - 1)).
    { apply address_between; try assumption; try lia. }
    eexists. eexists. split; [left; reflexivity|]. lia.
Qed.

(* The code before repo commit de3dc4c ([get_address_ranges_old]: tile 3 reported only when tile 2 is
   in use) did NOT have this property: an 8x8x16 NHWC int8 feature map whose left column is one tile
   (height_0 = 8) and whose right column is split (height_1 = 4, width_0 = 4) has element (4,4,0) in
   tile 3 at address 0x2000, in no range the old code reported.  The repaired code covers it. *)
Definition refuting_fm : fmap :=
  {| fm_region := 1; fm_h := 8; fm_w := 8; fm_d := 16; fm_h0 := 8; fm_h1 := 4; fm_w0 := 4;
     fm_a0 := 0; fm_a1 := 4096; fm_a2 := 0; fm_a3 := 8192; fm_b16 := false; fm_elem := 1;
     fm_has_strides := false; fm_sh := 0; fm_sw := 0; fm_sd := 0 |}.

Definition covered_byb (fm : fmap) (y x c : Z) (l : list (option arange)) : bool :=
  let ad := get_address fm (get_strides fm) y x c in
  existsb (fun o => match o with
                    | Some (rg, a, len) => (rg =? fm_region fm) && (a <=? ad) && (ad + fm_elem fm <=? a + len)
                    | None => false end) l.

Lemma covered_byb_complete fm y x c l : covered_by fm y x c l -> covered_byb fm y x c l = true.
Proof.
  intros (a & len & Hin & H1 & H2). unfold covered_byb. apply existsb_exists.
  exists (Some (fm_region fm, a, len)). split; [exact Hin|].
  rewrite Z.eqb_refl. cbn [andb]. apply andb_true_iff. split; [apply Z.leb_le | apply Z.leb_le]; assumption.
Qed.

Theorem footprint_overapprox_old_code_refuted_lemma :
  exists fm y x c,
    strides_ok fm /\ 0 <= y < fm_h fm /\ 0 <= x < fm_w fm /\ 0 <= c < fm_d fm /\
    get_address fm (get_strides fm) y x c = 8192 /\
    get_address_ranges_old fm = [Some (1, 0, 960); Some (1, 4096, 448); None; None] /\
    ~ covered_by fm y x c (get_address_ranges_old fm) /\
    get_address_ranges fm = [Some (1, 0, 960); Some (1, 4096, 448); None; Some (1, 8192, 448)].
Proof.
  exists refuting_fm, 4, 4, 0.
  split. { unfold strides_ok. cbn. repeat split; try lia; try discriminate. }
  split. { cbn; lia. } split. { cbn; lia. } split. { cbn; lia. }
  split. { vm_compute; reflexivity. } split. { vm_compute; reflexivity. }
  split; [|vm_compute; reflexivity].
  intros H. apply covered_byb_complete in H. vm_compute in H. discriminate.
Qed.

(* ------------------------------------------------------------------ device T: translated helpers *)
(* the hand model agrees with the definitions regenerated from the source on every run *)
From VV Require gen.GenNumeric gen.GenWaits.

Lemma gen_coords_intersect_eq sa ea sb eb :
  GenWaits.coords_intersect (px sa) (py sa) (pz sa) (px ea) (py ea) (pz ea) (px sb) (py sb) (pz sb) (px eb) (py eb) (pz eb)
  = coords_intersect sa ea sb eb.
Proof.
  unfold GenWaits.coords_intersect, coords_intersect. cbv zeta.
  rewrite !Z.gtb_ltb. rewrite andb_assoc. reflexivity.
Qed.

Lemma gen_round_up_eq a b : GenNumeric.round_up a b = round_up a b.
Proof. reflexivity. Qed.

Lemma gen_round_up_divide_eq a b : GenNumeric.round_up_divide a b = round_up_divide a b.
Proof. reflexivity. Qed.

Lemma gen_overlaps_eq g a1 l1 a2 l2 :
  ranges_overlap (g, a1, l1) (g, a2, l2) = GenNumeric.overlaps a1 (a1 + l1) a2 (a2 + l2).
Proof. unfold ranges_overlap, GenNumeric.overlaps. rewrite Z.eqb_refl. reflexivity. Qed.

(* the hypothesis of footprint_overapprox holds for a four-tile NHCWB16 int16 feature map
   (test_get_address_ranges_4_tiles of the repository), and its ranges are the suite's *)
Example footprint_example :
  let fm := {| fm_region := 6; fm_h := 50; fm_w := 10; fm_d := 20; fm_h0 := 30; fm_h1 := 10; fm_w0 := 3;
               fm_a0 := 16; fm_a1 := 32000; fm_a2 := 8000; fm_a3 := 16000; fm_b16 := true; fm_elem := 2;
               fm_has_strides := false; fm_sh := 0; fm_sw := 0; fm_sd := 0 |} in
  strides_ok fm /\
  get_address_ranges fm = [Some (6, 16, 18952); Some (6, 32000, 6280); Some (6, 8000, 12552); Some (6, 16000, 25480)].
Proof.
  cbv zeta. split; [unfold strides_ok; cbn; repeat split; try lia | vm_compute; reflexivity].
Qed.
