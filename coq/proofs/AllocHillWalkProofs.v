(* HillClimb: the predecessor walk of add_predecessor_turns always ends (no code 3), although the
   predecessor/turn fields of ranges that an aborted pass did not reach are stale.  Ghost rank: every
   pass hands out ranks from a band below all earlier ranks, increasing with the turn; predecessors
   always have a smaller rank. *)
From Coq Require Import ZArith List Bool Lia.
From VV Require Import lib.PyInt model.Alloc proofs.AllocProofs proofs.AllocHillProofs proofs.AllocHillNbrProofs
  proofs.AllocHillSearchProofs proofs.AllocHillTermProofs proofs.AllocHillOutcomeProofs proofs.AllocHillIndexProofs.
Import ListNotations.
Open Scope Z_scope.

Definition predok (st : list hinfo) (R : Z -> Z) : Prop :=
  forall k h, zget st k = Some h -> h_pred h <> NO_PREDECESSOR -> R (h_pred h) < R k.

(* ---------- the walk ends when predecessors have smaller ranks ---------- *)
Lemma zrange_length : forall n z, length (zrange z n) = n.
Proof. induction n as [|k IH]; intros z; cbn; [reflexivity|]. rewrite IH. reflexivity. Qed.

Lemma nodup_range_length : forall n (l : list Z), NoDup l -> all_in n l -> (length l <= n)%nat.
Proof.
  intros n l Hnd Hin.
  assert (H : (length l <= length (zrange 0 n))%nat).
  { apply NoDup_incl_length; [exact Hnd|]. intros x Hx. apply in_zrange. specialize (Hin x Hx). unfold inrange in Hin. lia. }
  rewrite zrange_length in H. exact H.
Qed.

Lemma pred_walk_no3 : forall n st R, st_ok n st -> predok st R ->
  forall fuel id tl visited,
    inrange n id -> all_in n visited -> NoDup visited -> (forall v, In v visited -> R id < R v) ->
    (n <= length visited + 1 + fuel)%nat ->
    forall c, pred_walk fuel st id tl <> Err c.
Proof.
  intros n st R Hst Hpo. induction fuel as [|f IH]; intros id tl visited Hid Hvis Hnd Hlt Hlen c; cbn [pred_walk].
  - destruct (zget_ok _ st id) as [h [Hh _]]; [destruct Hst as [-> _]; exact Hid|]. rewrite Hh.
    destruct (Z.eqb_spec (h_pred h) NO_PREDECESSOR); [discriminate|]. exfalso.
    destruct (st_ok_get n st id h Hst Hh) as (_ & _ & [Hp|Hp]); [contradiction|].
    pose proof (Hpo id h Hh n0) as Hr.
    assert (Hnd2 : NoDup (h_pred h :: id :: visited)).
    { constructor.
      - intros [E|Hin]; [rewrite E in Hr; lia | specialize (Hlt _ Hin); lia].
      - constructor; [intros Hin; specialize (Hlt _ Hin); lia | exact Hnd]. }
    pose proof (nodup_range_length n _ Hnd2) as L. cbn [length] in L.
    assert (all_in n (h_pred h :: id :: visited)) by (intros x [<-|[<-|Hx]]; auto).
    specialize (L H). lia.
  - destruct (zget_ok _ st id) as [h [Hh _]]; [destruct Hst as [-> _]; exact Hid|]. rewrite Hh.
    destruct (Z.eqb_spec (h_pred h) NO_PREDECESSOR); [discriminate|].
    destruct (st_ok_get n st id h Hst Hh) as (_ & _ & [Hp|Hp]); [contradiction|].
    destruct (zget_ok _ st (h_pred h)) as [hp [Hhp _]]; [destruct Hst as [-> _]; exact Hp|]. rewrite Hhp.
    pose proof (Hpo id h Hh n0) as Hr.
    apply (IH (h_pred h) _ (id :: visited)); auto.
    + intros x [<-|Hx]; auto.
    + constructor; [intros Hin; specialize (Hlt _ Hin); lia | exact Hnd].
    + intros v [<-|Hv]; [exact Hr | specialize (Hlt _ Hv); lia].
    + cbn [length]. lia.
Qed.

Lemma add_predecessor_turns_no_err : forall n st R, st_ok n st -> predok st R ->
  forall tl id, inrange n id -> all_in n tl ->
  exists tl', add_predecessor_turns st tl id = Ok tl' /\ all_in n tl' /\ (forall x, In x tl -> In x tl') /\ tl' <> [].
Proof.
  intros n st R Hst Hpo tl id Hid Htl.
  pose proof (add_predecessor_turns_range n st Hst tl id Hid Htl) as A.
  destruct (add_predecessor_turns st tl id) as [tl'|c] eqn:E; [eauto|]. exfalso.
  unfold add_predecessor_turns in E.
  destruct (zget st id) as [h|] eqn:Ez; [|destruct (zget_ok _ st id) as [h [Hh _]];
                                    [destruct Hst as [-> _]; exact Hid | rewrite Ez in Hh; discriminate]].
  apply (pred_walk_no3 n st R Hst Hpo (length st) id (add_new (h_turn h) tl) [] Hid) with (c := c); auto.
  - intros x [].
  - constructor.
  - intros v [].
  - destruct Hst as [-> _]. cbn. lia.
Qed.

Lemma add_pred_list_no_err : forall n st R, st_ok n st -> predok st R ->
  forall ids tl, all_in n ids -> all_in n tl ->
  exists tl', add_pred_list st tl ids = Ok tl' /\ all_in n tl' /\ (forall x, In x tl -> In x tl').
Proof.
  intros n st R Hst Hpo. induction ids as [|j r IH]; intros tl Hids Htl; cbn [add_pred_list]; [eauto|].
  destruct (add_predecessor_turns_no_err n st R Hst Hpo tl j (Hids j (or_introl eq_refl)) Htl) as [tl1 [E [A1 [A2 _]]]].
  rewrite E. destruct (IH tl1 (fun x Hx => Hids x (or_intror Hx)) A1) as [tl' [E' [I1 I2]]].
  exists tl'. split; [exact E'|]. split; [exact I1 | auto].
Qed.
