(* HillClimb: the predecessor walk of add_predecessor_turns always ends (no code 3), although the
   predecessor/turn fields of ranges that an aborted pass did not reach are stale.  Ghost rank: every
   pass hands out ranks from a band below all earlier ranks, increasing with the turn; predecessors
   always have a smaller rank. *)
From Coq Require Import ZArith List Bool Lia.
From VV Require Import lib.PyInt model.Alloc proofs.AllocProofs proofs.AllocHillProofs proofs.AllocHillNbrProofs
  proofs.AllocHillSearchProofs proofs.AllocHillTermProofs proofs.AllocHillOutcomeProofs proofs.AllocHillIndexProofs.
Import ListNotations.
Open Scope Z_scope.

Definition predok (st : list hinfo) (R : Z -> Z) : Prop :=
  forall k h, zget st k = Some h -> h_pred h <> NO_PREDECESSOR -> R (h_pred h) < R k.

(* ---------- the walk ends when predecessors have smaller ranks ---------- *)
Lemma zrange_length : forall n z, length (zrange z n) = n.
Proof. induction n as [|k IH]; intros z; cbn; [reflexivity|]. rewrite IH. reflexivity. Qed.

Lemma nodup_range_length : forall n (l : list Z), NoDup l -> all_in n l -> (length l <= n)%nat.
Proof.
  intros n l Hnd Hin.
  assert (H : (length l <= length (zrange 0 n))%nat).
  { apply NoDup_incl_length; [exact Hnd|]. intros x Hx. apply in_zrange. specialize (Hin x Hx). unfold inrange in Hin. lia. }
  rewrite zrange_length in H. exact H.
Qed.

Lemma pred_walk_no3 : forall n st R, st_ok n st -> predok st R ->
  forall fuel id tl visited,
    inrange n id -> all_in n visited -> NoDup visited -> (forall v, In v visited -> R id < R v) ->
    (n <= length visited + 1 + fuel)%nat ->
    forall c, pred_walk fuel st id tl <> Err c.
Proof.
  intros n st R Hst Hpo. induction fuel as [|f IH]; intros id tl visited Hid Hvis Hnd Hlt Hlen c; cbn [pred_walk].
  - destruct (zget_ok _ st id) as [h [Hh _]]; [destruct Hst as [-> _]; exact Hid|]. rewrite Hh.
    destruct (Z.eqb_spec (h_pred h) NO_PREDECESSOR); [discriminate|]. exfalso.
    destruct (st_ok_get n st id h Hst Hh) as (_ & _ & [Hp|Hp]); [contradiction|].
    pose proof (Hpo id h Hh n0) as Hr.
    assert (Hnd2 : NoDup (h_pred h :: id :: visited)).
    { constructor.
      - intros [E|Hin]; [rewrite E in Hr; lia | specialize (Hlt _ Hin); lia].
      - constructor; [intros Hin; specialize (Hlt _ Hin); lia | exact Hnd]. }
    pose proof (nodup_range_length n _ Hnd2) as L. cbn [length] in L.
    assert (all_in n (h_pred h :: id :: visited)) by (intros x [<-|[<-|Hx]]; auto).
    specialize (L H). lia.
  - destruct (zget_ok _ st id) as [h [Hh _]]; [destruct Hst as [-> _]; exact Hid|]. rewrite Hh.
    destruct (Z.eqb_spec (h_pred h) NO_PREDECESSOR); [discriminate|].
    destruct (st_ok_get n st id h Hst Hh) as (_ & _ & [Hp|Hp]); [contradiction|].
    destruct (zget_ok _ st (h_pred h)) as [hp [Hhp _]]; [destruct Hst as [-> _]; exact Hp|]. rewrite Hhp.
    pose proof (Hpo id h Hh n0) as Hr.
    apply (IH (h_pred h) _ (id :: visited)); auto.
    + intros x [<-|Hx]; auto.
    + constructor; [intros Hin; specialize (Hlt _ Hin); lia | exact Hnd].
    + intros v [<-|Hv]; [exact Hr | specialize (Hlt _ Hv); lia].
    + cbn [length]. lia.
Qed.

Lemma add_predecessor_turns_no_err : forall n st R, st_ok n st -> predok st R ->
  forall tl id, inrange n id -> all_in n tl ->
  exists tl', add_predecessor_turns st tl id = Ok tl' /\ all_in n tl' /\ (forall x, In x tl -> In x tl') /\ tl' <> [].
Proof.
  intros n st R Hst Hpo tl id Hid Htl.
  pose proof (add_predecessor_turns_range n st Hst tl id Hid Htl) as A.
  destruct (add_predecessor_turns st tl id) as [tl'|c] eqn:E; [eauto|]. exfalso.
  unfold add_predecessor_turns in E.
  destruct (zget st id) as [h|] eqn:Ez; [|destruct (zget_ok _ st id) as [h [Hh _]];
                                    [destruct Hst as [-> _]; exact Hid | rewrite Ez in Hh; discriminate]].
  apply (pred_walk_no3 n st R Hst Hpo (length st) id (add_new (h_turn h) tl) [] Hid) with (c := c); auto.
  - intros x [].
  - constructor.
  - intros v [].
  - destruct Hst as [-> _]. cbn. lia.
Qed.

Lemma add_pred_list_no_err : forall n st R, st_ok n st -> predok st R ->
  forall ids tl, all_in n ids -> all_in n tl ->
  exists tl', add_pred_list st tl ids = Ok tl' /\ all_in n tl' /\ (forall x, In x tl -> In x tl').
Proof.
  intros n st R Hst Hpo. induction ids as [|j r IH]; intros tl Hids Htl; cbn [add_pred_list]; [eauto|].
  destruct (add_predecessor_turns_no_err n st R Hst Hpo tl j (Hids j (or_introl eq_refl)) Htl) as [tl1 [E [A1 [A2 _]]]].
  rewrite E. destruct (IH tl1 (fun x Hx => Hids x (or_intror Hx)) A1) as [tl' [E' [I1 I2]]].
  exists tl'. split; [exact E'|]. split; [exact I1 | auto].
Qed.

(* ---------- swapping keeps the indices duplicate free ---------- *)
Lemma zswap_nodup : forall l i j l', zswap l i j = Ok l' -> NoDup l -> NoDup l'.
Proof.
  intros l i j l' H Hnd. unfold zswap in H.
  destruct (zget l i) as [a|] eqn:Ei; [|discriminate]. destruct (zget l j) as [b|] eqn:Ej; [|discriminate].
  inversion H; subst l'; clear H.
  pose proof (zget_some_inr _ _ _ _ Ei) as [Hi0 Hi1]. pose proof (zget_some_inr _ _ _ _ Ej) as [Hj0 Hj1].
  rewrite zget_nth_error in Ei, Ej by lia. unfold zlen in *.
  set (ni := Z.to_nat i) in *. set (nj := Z.to_nat j) in *.
  assert (Hni : (ni < length l)%nat) by (unfold ni; lia). assert (Hnj : (nj < length l)%nat) by (unfold nj; lia).
  pose (sigma := fun k : nat => if (k =? nj)%nat then ni else if (k =? ni)%nat then nj else k).
  assert (Hnth : forall k, nth_error (zset (zset l i b) j a) k = nth_error l (sigma k)).
  { intros k. rewrite nth_error_zset by lia. rewrite length_zset. fold nj. unfold sigma.
    destruct (Nat.eqb_spec k nj) as [->|Hkj].
    - destruct (Nat.ltb_spec nj (length l)); [|lia]. cbn [andb]. symmetry; exact Ei.
    - cbn [andb]. rewrite nth_error_zset by lia. fold ni.
      destruct (Nat.eqb_spec k ni) as [->|Hki]; [|reflexivity].
      destruct (Nat.ltb_spec ni (length l)); [|lia]. cbn [andb]. symmetry; exact Ej. }
  apply NoDup_nth_error. intros k1 k2 Hk1 E. rewrite !length_zset in Hk1. rewrite !Hnth in E.
  rewrite NoDup_nth_error in Hnd.
  assert (Hs1 : (sigma k1 < length l)%nat).
  { unfold sigma. destruct (k1 =? nj)%nat; [lia|]. destruct (k1 =? ni)%nat; lia. }
  specialize (Hnd _ _ Hs1 E). unfold sigma in Hnd.
  destruct (Nat.eqb_spec k1 nj); destruct (Nat.eqb_spec k2 nj); destruct (Nat.eqb_spec k1 ni); destruct (Nat.eqb_spec k2 ni); lia.
Qed.

Lemma zget_zset : forall (A : Type) (l : list A) i x k, inr l i ->
  zget (zset l i x) k = if k =? i then Some x else zget l k.
Proof.
  intros A l i x k [Hi0 Hi1]. unfold zlen in Hi1. unfold zget at 1.
  destruct (Z.ltb_spec k 0) as [Hk|Hk].
  - destruct (Z.eqb_spec k i); [lia|]. unfold zget. destruct (Z.ltb_spec k 0); [reflexivity|lia].
  - rewrite nth_error_zset by lia. destruct (Z.eqb_spec k i) as [->|Hne].
    + rewrite Nat.eqb_refl. destruct (Nat.ltb_spec (Z.to_nat i) (length l)); [reflexivity|lia].
    + destruct (Nat.eqb_spec (Z.to_nat k) (Z.to_nat i)); [lia|]. cbn [andb]. rewrite zget_nth_error by lia. reflexivity.
Qed.

Lemma hc_scan_pred_alloc : forall st size al nb address pred fits a p f,
  hc_scan st size al nb address pred fits = (a, p, f) -> p = pred \/ (In p nb /\ is_alloc st p).
Proof.
  intros st size al. induction nb as [|j r IH]; intros address pred fits a p f H; cbn [hc_scan] in H.
  - inversion H; auto.
  - destruct ((h_addr (hget st j) =? NOT_ALLOCATED) || (h_end (hget st j) <=? address)) eqn:E1.
    + destruct (IH _ _ _ _ _ _ H) as [?|[? ?]]; auto. right; split; [right|]; assumption.
    + destruct (_ && _).
      * apply orb_false_elim in E1. destruct E1 as [E1 _]. apply Z.eqb_neq in E1.
        destruct (IH _ _ _ _ _ _ H) as [->|[? ?]]; [right; split; [left; reflexivity | exact E1] | right; split; [right|]; assumption].
      * destruct (IH _ _ _ _ _ _ H) as [?|[? ?]]; auto. right; split; [right|]; assumption.
Qed.

Lemma hc_fit_pred_alloc : forall st size al nb fuel address pred a p,
  hc_fit fuel st size al nb address pred = Some (a, p) -> p = pred \/ (In p nb /\ is_alloc st p).
Proof.
  intros st size al nb. induction fuel as [|f IH]; intros address pred a p H; [discriminate|]. cbn [hc_fit] in H.
  destruct (hc_scan st size al nb address pred true) as [[a1 p1] f1] eqn:E.
  pose proof (hc_scan_pred_alloc _ _ _ _ _ _ _ _ _ _ E) as Hp.
  destruct f1; [inversion H; subst; exact Hp|].
  destruct (IH _ _ _ _ H) as [->|]; auto.
Qed.

(* ---------- ranks through an allocation pass ---------- *)
Section Rank.
  Variable lrs : list lr.
  Hypothesis Hwf : Forall hc_wf lrs.
  Let n := length lrs.
  Let nbrs := all_neighbours lrs.
  Let base (B : Z) : Z := B - Z.of_nat n - 1.

  Definition rank_inv (st : list hinfo) (R : Z -> Z) (B turn : Z) (stale_ok : Prop) : Prop :=
    (forall k h, zget st k = Some h -> h_addr h = NOT_ALLOCATED -> B <= R k) /\
    (forall k h, zget st k = Some h -> h_addr h <> NOT_ALLOCATED -> base B <= R k < base B + turn) /\
    (forall k h, zget st k = Some h -> h_addr h <> NOT_ALLOCATED -> h_pred h <> NO_PREDECESSOR -> R (h_pred h) < R k) /\
    (stale_ok -> forall k h, zget st k = Some h -> h_addr h = NOT_ALLOCATED -> h_pred h <> NO_PREDECESSOR -> R (h_pred h) < R k).

  Lemma alloc_loop_rank : forall best stale_ok idx turn size st st' sz R B,
    st_ok n st -> all_in n idx -> NoDup idx -> 0 <= turn -> turn + Z.of_nat (length idx) <= Z.of_nat n ->
    (forall j h, In j idx -> zget st j = Some h -> h_addr h = NOT_ALLOCATED) ->
    rank_inv st R B turn stale_ok ->
    alloc_loop lrs nbrs best idx turn size st = Ok (st', sz) ->
    exists R' turn', rank_inv st' R' B turn' stale_ok /\ turn' <= Z.of_nat n.
  Proof.
    intros best stale_ok. induction idx as [|i rest IH]; intros turn size st st' sz R B Hst Hidx Hnd Ht0 Htn Hun Hinv Hrun;
      cbn [alloc_loop] in Hrun.
    { inversion Hrun; subst. exists R, turn. split; [exact Hinv | cbn in Htn; lia]. }
    assert (Hi : inrange n i) by (apply Hidx; left; reflexivity).
    destruct (zget st i) as [h0|] eqn:Eh0; [|discriminate].
    assert (Hi_un : h_addr h0 = NOT_ALLOCATED) by (eapply Hun; [left; reflexivity | exact Eh0]).
    destruct (allocate_lr lrs nbrs st i) as [st1|c] eqn:Ea; [|discriminate].
    unfold allocate_lr in Ea.
    destruct (hc_fit _ st _ _ (nget nbrs i) 0 NO_PREDECESSOR) as [[a p]|] eqn:Efit; [|discriminate].
    inversion Ea; subst st1; clear Ea.
    destruct (hc_fit_spec st _ _ (nget nbrs i) (lget_align_pos lrs Hwf i) _ _ _ _ _ Efit) as (Fa & _).
    assert (Hinr : inr st i) by (destruct Hst as [Hl _]; unfold inr, zlen; rewrite Hl; exact Hi).
    set (st1 := zset st i (mkH a (a + lr_size (lget lrs i)) p (h_turn (hget st i)))) in *.
    assert (Hinr1 : inr st1 i) by (unfold inr, st1; rewrite zlen_zset; exact Hinr).
    assert (Hhh : hget st1 i = mkH a (a + lr_size (lget lrs i)) p (h_turn (hget st i))).
    { unfold st1. rewrite hget_zset; [rewrite Z.eqb_refl; reflexivity | exact Hinr | destruct Hi; lia]. }
    rewrite Hhh in Hrun. cbn [h_addr h_end h_pred] in Hrun.
    set (hn := mkH a (a + lr_size (lget lrs i)) p turn) in *.
    set (st2 := zset st1 i hn) in *.
    assert (Hg2 : forall k, zget st2 k = if k =? i then Some hn else zget st k).
    { intros k. unfold st2. rewrite zget_zset by exact Hinr1. destruct (Z.eqb_spec k i); [reflexivity|].
      unfold st1. rewrite zget_zset by exact Hinr. destruct (Z.eqb_spec k i); [contradiction|reflexivity]. }
    (* the predecessor is an allocated neighbour *)
    assert (Hp : p = NO_PREDECESSOR \/ exists hp, zget st p = Some hp /\ h_addr hp <> NOT_ALLOCATED /\ p <> i).
    { destruct (hc_fit_pred_alloc _ _ _ _ _ _ _ _ _ Efit) as [->|[Hin Hal]]; [left; reflexivity|]. right.
      assert (Hpr : inrange n p).
      { destruct (all_neighbours_range lrs) as [Hnl Hna]. fold n nbrs in Hnl, Hna.
        unfold nget in Hin. destruct (Nat.ltb_spec (Z.to_nat i) (length nbrs)).
        - apply (Hna (nth (Z.to_nat i) nbrs [])); [apply nth_In; exact H | exact Hin].
        - rewrite nth_overflow in Hin by exact H. destruct Hin. }
      destruct (zget_ok _ st p) as [hp [Hhp _]]; [destruct Hst as [-> _]; exact Hpr|].
      exists hp. split; [exact Hhp|]. unfold is_alloc in Hal. rewrite (zget_hget _ _ _ Hhp) in Hal.
      split; [exact Hal|]. intros ->. rewrite Eh0 in Hhp. inversion Hhp; subst. contradiction. }
    assert (Hturn : turn < Z.of_nat n) by (cbn [length] in Htn; lia).
    set (R' := fun k => if k =? i then base B + turn else R k).
    assert (Hinv2 : rank_inv st2 R' B (turn + 1) stale_ok).
    { destruct Hinv as (Ia & Ib & Ic1 & Ic2). unfold rank_inv, R'. split; [|split; [|split]].
      - intros k h Hk Hu. rewrite Hg2 in Hk. destruct (Z.eqb_spec k i); [inversion Hk; subst h; change (h_addr hn) with a in Hu; unfold NOT_ALLOCATED in Hu; lia|].
        eapply Ia; eauto.
      - intros k h Hk Hal. rewrite Hg2 in Hk. destruct (Z.eqb_spec k i) as [Hki|Hki]; cbv beta iota.
        + clear - Ht0. lia.
        + pose proof (Ib k h Hk Hal) as X. clear - X. lia.
      - intros k h Hk Hal Hpn. rewrite Hg2 in Hk. destruct (Z.eqb_spec k i) as [Hki|Hki].
        + inversion Hk; subst h. change (h_pred hn) with p in *. destruct Hp as [Hp|[hp [Hhp [Hpa Hpi]]]]; [contradiction|].
          destruct (Z.eqb_spec p i); [contradiction|]. cbv beta iota. pose proof (Ib p hp Hhp Hpa) as X. clear - X. lia.
        + destruct (Z.eqb_spec (h_pred h) i) as [E|E]; cbv beta iota.
          * (* an allocated range cannot point to the still unallocated i *)
            pose proof (Ic1 k h Hk Hal Hpn) as C. rewrite E in C. pose proof (Ia i h0 Eh0 Hi_un) as Y.
            pose proof (Ib k h Hk Hal) as X. unfold base in *. clear - C Y X Hturn. lia.
          * apply Ic1; auto.
      - intros Hso k h Hk Hu Hpn. rewrite Hg2 in Hk. destruct (Z.eqb_spec k i) as [Hki|Hki].
        + inversion Hk; subst h. change (h_addr hn) with a in Hu. unfold NOT_ALLOCATED in Hu. lia.
        + destruct (Z.eqb_spec (h_pred h) i) as [E|E]; cbv beta iota.
          * pose proof (Ia k h Hk Hu) as Y. unfold base. clear - Y Hturn. lia.
          * apply Ic2; auto. }
    assert (Hst2 : st_ok n st2).
    { destruct Hst as [Hl Hs]. split; [unfold st2, st1; rewrite !length_zset; exact Hl|].
      intros h Hh. unfold st2 in Hh. apply in_zset in Hh.
      assert (Hpr : h_pred hn = NO_PREDECESSOR \/ inrange n (h_pred hn)).
      { cbn. destruct Hp as [Hp|[hp [Hhp _]]]; [left; exact Hp | right].
        pose proof (zget_some_inr _ _ _ _ Hhp) as X. unfold inr, zlen in X. rewrite Hl in X. exact X. }
      destruct Hh as [->|Hh]; [split; [cbn; unfold inrange; lia | exact Hpr]|].
      unfold st1 in Hh. apply in_zset in Hh. destruct Hh as [->|Hh]; [|apply Hs; exact Hh].
      split; [|exact Hpr]. cbn. apply (Hs (hget st i)). rewrite (zget_hget _ _ _ Eh0). eapply zget_in; eauto. }
    destruct (_ >? best).
    - inversion Hrun; subst st' sz. exists R', (turn + 1). split; [exact Hinv2 | lia].
    - inversion Hnd as [|? ? Hnotin Hnd']; subst.
      eapply (IH (turn + 1) _ st2 st' sz R' B); eauto; try lia.
      + intros x Hx; apply Hidx; right; exact Hx.
      + cbn [length] in Htn. lia.
      + intros j h Hj Hz. rewrite Hg2 in Hz. destruct (Z.eqb_spec j i) as [->|]; [contradiction|].
        eapply Hun; [right; exact Hj | exact Hz].
  Qed.
End Rank.

Section RankFinal.
  Variable lrs : list lr.
  Let n := length lrs.

  Lemma rank_final : forall st R B turn (stale_ok : Prop),
    rank_inv lrs st R B turn stale_ok ->
    (stale_ok \/ forall k h, zget st k = Some h -> h_addr h <> NOT_ALLOCATED) ->
    predok st R /\ forall k h, zget st k = Some h -> B - Z.of_nat n - 1 <= R k.
  Proof.
    intros st R B turn stale_ok (Ia & Ib & Ic1 & Ic2) Hor. split.
    - intros k h Hk Hp. destruct (Z.eq_dec (h_addr h) NOT_ALLOCATED) as [Hu|Hal].
      + destruct Hor as [Hso|Hall]; [apply (Ic2 Hso k h Hk Hu Hp) | exfalso; apply (Hall k h Hk Hu)].
      + apply (Ic1 k h Hk Hal Hp).
    - intros k h Hk. destruct (Z.eq_dec (h_addr h) NOT_ALLOCATED) as [Hu|Hal].
      + pose proof (Ia k h Hk Hu). fold n. lia.
      + pose proof (Ib k h Hk Hal) as X. fold n in X. lia.
  Qed.

  Lemma zget_reset : forall st k, zget (reset_addresses st) k =
    match zget st k with Some h => Some (mkH NOT_ALLOCATED (h_end h) (h_pred h) (h_turn h)) | None => None end.
  Proof.
    intros st k. unfold zget, reset_addresses. destruct (k <? 0); [reflexivity|]. rewrite nth_error_map.
    destruct (nth_error st (Z.to_nat k)); reflexivity.
  Qed.

  Lemma rank_reset : forall st R B (stale_ok : Prop),
    (forall k h, zget st k = Some h -> B <= R k) -> (stale_ok -> predok st R) ->
    rank_inv lrs (reset_addresses st) R B 0 stale_ok.
  Proof.
    intros st R B stale_ok Hlow Hpo. unfold rank_inv. split; [|split; [|split]].
    - intros k h Hk _. rewrite zget_reset in Hk. destruct (zget st k) as [h0|] eqn:E; [|discriminate]. eapply Hlow; eauto.
    - intros k h Hk Hal. rewrite zget_reset in Hk. destruct (zget st k); [|discriminate]. inversion Hk; subst h. cbn in Hal. contradiction.
    - intros k h Hk Hal. rewrite zget_reset in Hk. destruct (zget st k); [|discriminate]. inversion Hk; subst h. cbn in Hal. contradiction.
    - intros Hso k h Hk _ Hp. rewrite zget_reset in Hk. destruct (zget st k) as [h0|] eqn:E; [|discriminate].
      inversion Hk; subst h. cbn [h_pred] in *. apply (Hpo Hso k h0 E Hp).
  Qed.
End RankFinal.

Section WalkSearch.
  Variable S : Type.
  Variable next : S -> Z * S.
  Variable lrs : list lr.
  Hypothesis Hwf : Forall hc_wf lrs.
  Hypothesis Hne : (0 < length lrs)%nat.
  Let n := length lrs.
  Let nbrs := all_neighbours lrs.

  Lemma attempt_total : forall st idx stuck s R,
    st_ok n st -> idx_ok n idx -> NoDup idx -> predok st R ->
    exists idx' s', attempt_bottleneck_fix S next lrs nbrs st idx stuck s = Ok (idx', s') /\ idx_ok n idx' /\ NoDup idx'.
  Proof.
    intros st idx stuck s R Hst Hidx Hnd Hpo. unfold attempt_bottleneck_fix.
    assert (Hl : length lrs = n) by reflexivity.
    assert (Hmx : inrange n (bottleneck st)).
    { destruct Hst as [Hsl _]. rewrite <- Hsl. apply bottleneck_range. intros C. rewrite C in Hsl. cbn in Hsl. unfold n in Hsl. lia. }
    destruct (zget_ok _ lrs (bottleneck st)) as [mxr [Hmxr _]]; [exact Hmx|]. rewrite Hmxr.
    destruct (all_neighbours_range lrs) as [Hnl Hna]. fold n nbrs in Hnl, Hna.
    destruct (zget_ok _ nbrs (bottleneck st)) as [mxn [Hmxn Hmxnin]]; [rewrite Hnl; exact Hmx|]. rewrite Hmxn.
    destruct (add_predecessor_turns_no_err n st R Hst Hpo [] (bottleneck st) Hmx (fun x (H : In x []) => match H with end))
      as [tl0 [E0 [A1 [_ A3]]]]. rewrite E0.
    destruct (add_pred_list_no_err n st R Hst Hpo mxn tl0 (Hna mxn Hmxnin) A1) as [tl [E1 [B1 B2]]]. rewrite E1.
    assert (Htlne : tl <> []).
    { destruct tl0 as [|t0 r0]; [contradiction|]. intros C. assert (In t0 tl) by (apply B2; left; reflexivity). rewrite C in H. destruct H. }
    destruct (non_nb_turns_range n lrs idx mxr Hl Hidx tl B1) as [nn [Enn Hnn]]. rewrite Enn.
    destruct (randint_range S next 0 100 s ltac:(lia)) as [r0 [s0 [Er0 _]]]. rewrite Er0.
    assert (P1 : exists ix1 s1, (if (r0 <? 30) && negb (zlen nn =? 0) then pick S next nn 1 s0 else pick S next tl 1 s0)
                                = Ok (ix1, s1) /\ inrange n ix1).
    { destruct ((r0 <? 30) && negb (zlen nn =? 0)) eqn:Ec.
      - apply andb_prop in Ec. destruct Ec as [_ Ec]. apply negb_true_iff in Ec. apply Z.eqb_neq in Ec.
        assert (Hnne : nn <> []) by (intros C; rewrite C in Ec; apply Ec; reflexivity).
        destruct (pick1_ok S next n nn s0 Hnn Hnne) as [x [sx [E [Hx _]]]]. eauto.
      - destruct (pick1_ok S next n tl s0 B1 Htlne) as [x [sx [E [Hx _]]]]. eauto. }
    destruct P1 as [ix1 [s1 [Ep1 P1]]]. rewrite Ep1.
    destruct (pick2_ok S next n tl s1 B1 Htlne) as [ix2a [s2 [E2 [P2 _]]]]. rewrite E2.
    assert (Hix2 : inrange n (if ix1 =? ix2a then last tl 0 else ix2a)).
    { destruct (ix1 =? ix2a); [|exact P2]. apply B1.
      destruct tl as [|t r]; [contradiction|]. clear. revert t. induction r as [|y r IH]; intros t; [left; reflexivity|].
      right. apply IH. }
    destruct Hidx as [Hil Hia].
    destruct (zswap_range idx ix1 _ ltac:(rewrite Hil; exact P1) ltac:(rewrite Hil; exact Hix2)) as [idx1 [Es [Hl1 Hin1]]].
    rewrite Es.
    assert (Hidx1 : idx_ok n idx1) by (split; [lia | intros x Hx; apply Hia, Hin1, Hx]).
    pose proof (zswap_nodup _ _ _ _ Es Hnd) as Hnd1.
    destruct (stuck >? MAX_ITERATIONS_STUCK); [|eauto].
    destruct (add_more_turns_range n nbrs st idx1 (conj Hnl Hna) Hst Hidx1 nn tl Hnn B1) as [tl2 [Em [M1 M2]]]. rewrite Em.
    assert (Htl2ne : tl2 <> []).
    { destruct tl as [|tt0 rr0]; [contradiction|]. intros C. assert (In tt0 tl2) by (apply M2; left; reflexivity). rewrite C in H. destruct H. }
    destruct (pick1_ok S next n tl2 s2 M1 Htl2ne) as [jx1 [s3 [Eq1 [Q1 _]]]]. rewrite Eq1.
    destruct (pick1_ok S next n tl2 s3 M1 Htl2ne) as [jx2 [s4 [Eq2 [Q2 _]]]]. rewrite Eq2.
    destruct Hidx1 as [Hil1 Hia1].
    destruct (zswap_range idx1 jx1 jx2 ltac:(rewrite Hil1; exact Q1) ltac:(rewrite Hil1; exact Q2)) as [idx2 [Es2 [Hl2 Hin2]]].
    rewrite Es2. exists idx2, s4. split; [reflexivity|].
    split; [split; [lia | intros x Hx; apply Hia1, Hin2, Hx] | eapply zswap_nodup; eauto].
  Qed.

  Definition yinv (x : sstate S) : Prop :=
    xinv S lrs x /\ NoDup (ss_idx S x) /\ NoDup (ss_bidx S x) /\
    exists R B, predok (ss_st S x) R /\ forall k h, zget (ss_st S x) k = Some h -> B <= R k.
  Definition no_err (r : sresult) : Prop := match r with Ok _ => True | Err _ => False end.

  Lemma pass_keeps_ranks : forall best idx st st1 sz R B,
    st_ok n st -> idx_ok n idx -> NoDup idx -> predok st R -> (forall k h, zget st k = Some h -> B <= R k) ->
    allocate_indices lrs nbrs best idx st = Ok (st1, sz) ->
    exists R' B', predok st1 R' /\ forall k h, zget st1 k = Some h -> B' <= R' k.
  Proof.
    intros best idx st st1 sz R B Hst [Hil Hia] Hnd Hpo Hlow Hrun. unfold allocate_indices in Hrun.
    destruct (alloc_loop_rank lrs Hwf best True idx 0 0 (reset_addresses st) st1 sz R B) as [R' [t' [Hri _]]]; auto.
    - apply reset_st_ok; exact Hst.
    - lia.
    - fold n. lia.
    - intros j h _ Hz. rewrite zget_reset in Hz. destruct (zget st j); [|discriminate]. inversion Hz; reflexivity.
    - apply rank_reset; auto.
    - destruct (rank_final lrs st1 R' B t' True Hri (or_introl I)) as [P1 P2]. eauto.
  Qed.

  Lemma search_step_walk : forall minreq maxit limit x, yinv x ->
    match search_step S next lrs nbrs minreq maxit limit x with Continue x' => yinv x' | Done r => no_err r end.
  Proof.
    intros minreq maxit limit x ((Hst & Hidx & Hb) & Hnd & Hndb & R & B & Hpo & Hlow). unfold search_step.
    destruct (_ || _); [|exact I].
    destruct (attempt_total (ss_st S x) (ss_idx S x) (ss_i S x - ss_last S x) (ss_rng S x) R Hst Hidx Hnd Hpo)
      as [idx1 [rng1 [Eat [A Hnd1]]]]. rewrite Eat.
    destruct (allocate_indices_total lrs Hwf (ss_best S x) idx1 (ss_st S x) Hst A) as [st1 [sz [E Hst1]]].
    fold nbrs in E. rewrite E.
    destruct (pass_keeps_ranks _ _ _ _ _ R B Hst A Hnd1 Hpo Hlow E) as [R' [B' [Hpo' Hlow']]].
    destruct (sz <=? ss_best S x).
    - destruct (sz <=? minreq); [exact I|]. unfold yinv, xinv; cbn.
      split; [split; [exact Hst1 | split; exact A]|]. split; [exact Hnd1|]. split; [exact Hnd1|]. exists R', B'. auto.
    - unfold yinv, xinv; cbn.
      split; [split; [exact Hst1 | split; exact Hb]|]. split; [exact Hndb|]. split; [exact Hndb|]. exists R', B'. auto.
  Qed.

  Lemma search_walk : forall minreq maxit limit x, yinv x ->
    ss_last S x = 0 -> ss_i S x = 0 -> minreq < ss_best S x ->
    no_err (search S next lrs nbrs minreq maxit limit x).
  Proof.
    intros minreq maxit limit x Hx Hl Hi Hb. unfold search.
    destruct (search_loop_terminates_lemma S next lrs nbrs minreq maxit limit x Hl Hi Hb) as [r Hr]. rewrite Hr.
    pose proof (iter_pos_inv _ _ yinv no_err _ (search_step_walk minreq maxit limit)
                  (search_fuel minreq maxit (ss_best S x)) x Hx) as V.
    rewrite Hr in V. exact V.
  Qed.
End WalkSearch.

Lemma initial_indices_nodup : forall lrs, NoDup (initial_indices lrs).
Proof.
  intros lrs. apply (Permutation.Permutation_NoDup (Permutation.Permutation_sym (initial_indices_perm lrs))).
  generalize 0. induction (length lrs) as [|k IH]; intros z; cbn [zrange]; constructor.
  - intros H. apply in_zrange in H. lia.
  - apply IH.
Qed.

(* for every stream, a hill-climb run ends without any of the modelled exceptions *)
Lemma hillclimb_no_error_lemma : forall (S : Type) (next : S -> Z * S) lrs mi limit s,
  Forall hc_wf lrs -> footprint_bound lrs <= 2 ^ 63 ->
  match hillclimb S next lrs mi limit s with Ok _ => True | Err _ => False end.
Proof.
  intros S next lrs mi limit s Hwf Hfb.
  destruct (Nat.eq_dec (length lrs) 0) as [E0|E0].
  { apply length_zero_iff_nil in E0. subst lrs. rewrite hillclimb_nil. exact I. }
  assert (Hn : (0 < length lrs)%nat) by lia.
  rewrite hillclimb_nonempty by (intros C; rewrite C in E0; apply E0; reflexivity). cbv zeta.
  destruct (allocate_indices_total lrs Hwf (2 ^ 63) (initial_indices lrs) (initial_state lrs)
              (initial_state_ok lrs Hn) (initial_indices_ok lrs)) as [st1 [b0 [E Hst1]]].
  rewrite E.
  set (x0 := mkSS S (s, 0) st1 (initial_indices lrs) (initial_indices lrs) b0 0 0 (map h_addr st1)).
  destruct (Z.gtb_spec b0 (min_required_size lrs)) as [Hgt|Hle]; [|exact I].
  apply (search_walk S next lrs Hwf Hn); auto.
  (* the first pass is complete, so every range has a fresh predecessor and turn *)
  assert (Hl0 : length (initial_state lrs) = length lrs) by (unfold initial_state; apply map_length).
  destruct (allocate_indices_spec lrs (all_neighbours lrs) (nbrs_ok lrs Hwf) Hwf _ _ _ _ _ Hl0 E) as (A1 & _ & _ & A4 & A5).
  rewrite initial_sum_bound in A4.
  assert (Hall : forall k h, zget st1 k = Some h -> h_addr h <> NOT_ALLOCATED).
  { intros k h Hk. pose proof (zget_some_inr _ _ _ _ Hk) as [K0 K1]. unfold zlen in K1. rewrite A1 in K1.
    assert (Ha : is_alloc st1 k) by (apply A5; [lia | apply initial_indices_covers; lia]).
    unfold is_alloc in Ha. rewrite (zget_hget _ _ _ Hk) in Ha. exact Ha. }
  unfold allocate_indices in E.
  destruct (alloc_loop_rank lrs Hwf (2 ^ 63) False (initial_indices lrs) 0 0 (reset_addresses (initial_state lrs)) st1 b0
              (fun _ => 0) 0) as [R' [t' [Hri _]]]; auto.
  - apply reset_st_ok. apply initial_state_ok; exact Hn.
  - apply initial_indices_ok.
  - apply initial_indices_nodup.
  - lia.
  - destruct (initial_indices_ok lrs) as [-> _]. lia.
  - intros j h _ Hz. rewrite zget_reset in Hz. destruct (zget (initial_state lrs) j); [|discriminate]. inversion Hz; reflexivity.
  - apply rank_reset; [intros; lia | intros []].
  - destruct (rank_final lrs st1 R' 0 t' False Hri (or_intror Hall)) as [P1 P2].
    unfold yinv, xinv, x0; cbn.
    split; [split; [exact Hst1 | split; apply initial_indices_ok]|].
    split; [apply initial_indices_nodup|]. split; [apply initial_indices_nodup|]. eauto.
Qed.
