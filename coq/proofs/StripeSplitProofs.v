(* C10, part 6: read offsets (a SPLIT / SLICE fused into the consumer) where the unchanged code IS right:
   stride 1 along the width; stride 1 without padding along the height.  The other cases are refuted in
   StripeRefuteProofs.v. *)
From Coq Require Import ZArith List Bool Lia.
From VV Require Import lib.PyInt gen.GenArchTables model.Stripe proofs.StripeProofs proofs.StripeTapProofs proofs.StripeUpProofs.
Import ListNotations.
Open Scope Z_scope.

(* width: the operator reads columns [off, off + g_in) of a tensor of wfull columns, stride 1 (any kernel, dilation,
   padding consistent with the geometry); full-width box as the generator always builds it *)
Lemma stripe_taps_equal_w_split_lemma g off wfull c kx :
  geom_ok g -> geom_sane g -> g_s g = 1 -> 0 <= off -> off + g_in g <= wfull ->
  0 <= c < g_out g -> 0 <= kx < g_k g ->
  let '(x0, x1) := tf_width (0 + off) (Z.min (g_out g + off) (wfull * 1)) 1 (g_sk_t g) (g_sk_b g) wfull (Some (off, g_in g)) in
  let p := create_padding false false {| p_top := 0; p_left := g_top g; p_bottom := 0; p_right := g_bottom g |}
             true true 0 0 (Some (off, g_in g)) wfull x0 x1 in
  hw_tap x0 x1 (p_left p) (p_right p) (g_out g) 1 (g_kd g) c (kx * g_d g)
  = ref_tap off (off + g_in g) (g_top g) 1 c (kx * g_d g).
Proof.
  intros (Hs & Hd & Hk & HH & Ho1 & HoH & Htop & Hskt & Hskb & Hbot) (Sa & Sb) Es Hoff Hfit Hc Hkx.
  unfold tf_width, create_padding. cbn [andb p_left p_right]. rewrite Hskt, Hskb, Es in *.
  rewrite ntp_stride1 in * by (unfold g_kd; nia).
  unfold g_kd in *. set (k := g_k g) in *. set (d := g_d g) in *. set (W := g_in g) in *. set (Wo := g_out g) in *.
  set (left := g_top g) in *. rewrite !Z.mul_1_r in *.
  assert (M5 : 0 <= kx * d) by (apply Z.mul_nonneg_nonneg; lia).
  assert (M6 : kx * d <= (k - 1) * d) by (apply mul_mono_r; lia).
  assert (M12 : d * (k - 1) = (k - 1) * d) by ring. rewrite M12 in *.
  set (J := kx * d) in *. set (KD := (k - 1) * d) in *.
  rewrite (Z.min_l (Wo + off) wfull) by lia.
  replace (Z.max (0 + off - left) off) with off by lia.
  destruct (Z.ltb_spec off off); [lia|].
  unfold hw_tap, ref_tap. rewrite !Z.mul_1_r.
  destruct (Z.ltb_spec (Z.min (Wo + off + (KD + 1 - 1 - left)) (off + W)) W).
  - (* the box stops short: no trailing padding needed, the original one is 0 *)
    assert (g_bottom g = 0) by lia.
    destruct (Z.ltb_spec (c + J - left) 0), (Z.leb_spec (Wo - 1 + (KD + 1) - left - 0) (c + J - left)); cbn [orb];
      destruct (Z.ltb_spec (off + c + J - left) off), (Z.leb_spec (off + W) (off + c + J - left)); cbn [orb];
      try reflexivity; try lia.
    destruct (Z.ltb_spec (c + J - left) (Z.min (Wo + off + (KD + 1 - 1 - left)) (off + W) - off)); [f_equal; lia|lia].
  - rewrite Hbot.
    destruct (Z.ltb_spec (c + J - left) 0),
      (Z.leb_spec (Wo - 1 + (KD + 1) - left - Z.max 0 (Wo - 1 + (KD + 1) - left - W)) (c + J - left)); cbn [orb];
      destruct (Z.ltb_spec (off + c + J - left) off), (Z.leb_spec (off + W) (off + c + J - left)); cbn [orb];
      try reflexivity; try lia.
    destruct (Z.ltb_spec (c + J - left) (Z.min (Wo + off + (KD + 1 - 1 - left)) (off + W) - off)); [f_equal; lia|lia].
Qed.

(* height: the operator reads rows [off, off + g_in) of a tensor of hfull rows, stride 1, no padding (VALID);
   any stripe [st,en) *)
Lemma stripe_taps_equal_h_split_valid_lemma g off hfull st en r ky :
  geom_ok g -> g_s g = 1 -> g_top g = 0 -> g_bottom g = 0 -> g_out g + g_kd g - 1 <= g_in g ->
  0 <= off -> off + g_in g <= hfull ->
  0 <= st -> st < en -> en <= g_out g -> st <= r < en -> 0 <= ky < g_k g ->
  let '(b0, b1, pt, pb) := tf_height (st + off) (Z.min (en + off) (hfull * 1)) (en + off) 1 (g_sk_t g) (g_sk_b g) hfull 1 (g_kd g) in
  hw_tap b0 b1 pt pb (en - st) 1 (g_kd g) (r - st) (ky * g_d g)
  = ref_tap off (off + g_in g) 0 1 r (ky * g_d g).
Proof.
  intros (Hs & Hd & Hk & HH & Ho1 & HoH & Htop & Hskt & Hskb & Hbot) Es Et Eb Hvalid Hoff Hfit H0 H1 H2 Hr Hky.
  rewrite tf_height_up1. rewrite Hskt, Hskb, Es, Et in *. rewrite ntp_stride1 in * by (unfold g_kd; nia).
  unfold g_kd in *. set (k := g_k g) in *. set (d := g_d g) in *. set (H := g_in g) in *. set (Ho := g_out g) in *.
  rewrite !Z.mul_1_r in *.
  assert (M5 : 0 <= ky * d) by (apply Z.mul_nonneg_nonneg; lia).
  assert (M6 : ky * d <= (k - 1) * d) by (apply mul_mono_r; lia).
  assert (M12 : d * (k - 1) = (k - 1) * d) by ring. rewrite M12 in *.
  set (J := ky * d) in *. set (KD := (k - 1) * d) in *.
  rewrite (Z.min_l (en + off) hfull) by lia. rewrite !Z.mul_1_l.
  destruct (Z.ltb_spec hfull (en + off + (KD + 1 - 1 - 0))); [lia|].
  unfold hw_tap, ref_tap. rewrite !Z.mul_1_r.
  destruct (Z.ltb_spec (r - st + J - Z.max 0 (- (st + off - 0))) 0),
    (Z.leb_spec (en - st - 1 + (KD + 1) - Z.max 0 (- (st + off - 0)) - 0) (r - st + J - Z.max 0 (- (st + off - 0)))); cbn [orb];
    destruct (Z.ltb_spec (off + r + J - 0) off), (Z.leb_spec (off + H) (off + r + J - 0)); cbn [orb]; try reflexivity; try lia.
  destruct (Z.ltb_spec (r - st + J - Z.max 0 (- (st + off - 0)))
              (Z.max (Z.min (en + off + (KD + 1 - 1 - 0)) hfull) 1 - Z.max (st + off - 0) 0)); [f_equal; lia|lia].
Qed.
