(* C10, part 6: read offsets (a SPLIT / SLICE folded into the consumer).  With the transform as repaired in /repo 6d9d641
   (rows clamped and padded relative to the read window, strides not applied to the offset) the receptive-field theorem
   holds for read windows as well: it is the theorem without read offset, translated by the window's origin. *)
From Coq Require Import ZArith List Bool Lia.
From VV Require Import lib.PyInt gen.GenArchTables model.Stripe proofs.StripeProofs proofs.StripeTapProofs.
Import ListNotations.
Open Scope Z_scope.

Definition shift (off : Z) (t : tap) : tap := match t with TSrc y => TSrc (y + off) | _ => t end.

Lemma hw_tap_shift b0 b1 p0 p1 n s kd i j off :
  hw_tap (b0 + off) (b1 + off) p0 p1 n s kd i j = shift off (hw_tap b0 b1 p0 p1 n s kd i j).
Proof.
  unfold hw_tap. replace (b1 + off - (b0 + off)) with (b1 - b0) by lia.
  destruct ((i * s + j - p0 <? 0) || ((n - 1) * s + kd - p0 - p1 <=? i * s + j - p0)); [reflexivity|].
  destruct (i * s + j - p0 <? b1 - b0); cbn [shift]; [f_equal; lia | reflexivity].
Qed.

Lemma ref_tap_shift hi top s r j off :
  ref_tap off (off + hi) top s r j = shift off (ref_tap 0 hi top s r j).
Proof.
  unfold ref_tap.
  destruct (Z.ltb_spec (off + r * s + j - top) off), (Z.ltb_spec (0 + r * s + j - top) 0); try lia; cbn [orb]; [reflexivity|].
  destruct (Z.leb_spec (off + hi) (off + r * s + j - top)), (Z.leb_spec hi (0 + r * s + j - top)); try lia; cbn [shift];
    [reflexivity | f_equal; lia].
Qed.

(* one axis: any stripe [st,en) of an operator that reads the window [off, off + g_in) -- the box of the window-relative
   computation moved by off resolves every tap like the operator does inside its window (padding outside it) *)
Lemma stripe_taps_equal_read_offset_1d_lemma g woff off st en r ky :
  geom_ok g -> woff <= st -> st < en -> en <= woff + g_out g -> st <= r < en -> 0 <= ky < g_k g ->
  let '(b0, b1, pt, pb) := stripe_h g woff st en in
  hw_tap (b0 + off) (b1 + off) pt pb (en - st) (g_s g) (g_kd g) (r - st) (ky * g_d g)
  = ref_tap off (off + g_in g) (g_top g) (g_s g) (r - woff) (ky * g_d g).
Proof.
  intros G H1 H2 H3 Hr Hk. pose proof (stripe_h_taps g woff st en r ky G H1 H2 H3 Hr Hk) as T.
  destruct (stripe_h g woff st en) as [[[b0 b1] pt] pb].
  rewrite hw_tap_shift, ref_tap_shift, T. reflexivity.
Qed.

(* ---------- through transform and create_padding ---------- *)
Definition stripe_box_ok_rd (o : convop) (so ss : c4) (b : box) : Prop :=
  cn (fst b) <= cn (snd b) /\
  ch (o_woff o) <= ch (fst b) /\ ch (fst b) < ch (snd b) /\ ch (snd b) <= ch (o_woff o) + ch (o_oshape o) /\
  cw (fst b) = cw (o_woff o) /\ cw (snd b) = cw (o_woff o) + cw (o_oshape o) /\
  (if is_dot_block (o_bt o) then cc so <= Z.min (cc so + cc ss) (cc (o_ifm o))
   else cc (fst b) - cc (o_woff o) + cc so <= Z.min (cc (snd b) - cc (o_woff o) + cc so) (cc (o_ifm o))).

(* the read window lies inside the tensor *)
Definition window_ok (o : convop) (so ss : c4) : Prop :=
  0 <= ch so /\ ch so + ch ss <= ch (o_ifm o) /\ 0 <= cw so /\ cw so + cw ss <= cw (o_ifm o).

Lemma stripe_taps_equal_read_offset_lemma o so ss b :
  geom_ok (conv_geom_h_rd o ss) -> geom_sane (conv_geom_h_rd o ss) ->
  geom_ok (conv_geom_w_rd o ss) -> geom_sane (conv_geom_w_rd o ss) ->
  (o_bt o =? BT_VectorProduct) = false -> window_ok o so ss -> stripe_box_ok_rd o so ss b ->
  exists ib pt pb,
    transform (conv_tf_rd o so ss b) = Some (ib, pt, pb) /\
    (* the box is the receptive field inside the window, moved to the window's place in the tensor *)
    ch (fst ib) = ch so + Z.max ((ch (fst b) - ch (o_woff o)) * o_sy o - p_top (o_skirt o)) 0 /\
    ch (snd ib) = ch so + Z.max (Z.min ((ch (snd b) - ch (o_woff o)) * o_sy o + p_bottom (o_skirt o)) (ch ss)) 1 /\
    cw (fst ib) = cw so /\
    cw (snd ib) = cw so + Z.min (cw (o_oshape o) * o_sx o + p_right (o_skirt o)) (cw ss) /\
    (* pad_top / pad_bottom are the rows of the kernel footprint above / below the window *)
    pt = Z.max 0 (p_top (o_skirt o) - (ch (fst b) - ch (o_woff o)) * o_sy o) /\
    pb = Z.max 0 ((ch (snd b) - ch (o_woff o) - 1) * o_sy o + (o_dy o * (o_kh o - 1) + 1) - p_top (o_skirt o) - ch ss) /\
    let p := conv_hw_padding_rd o so ss b ib pt pb in
    forall r c ky kx,
      ch (fst b) <= r < ch (snd b) -> cw (fst b) <= c < cw (snd b) -> 0 <= ky < o_kh o -> 0 <= kx < o_kw o ->
      hw_tap (ch (fst ib)) (ch (snd ib)) (p_top p) (p_bottom p) (ch (snd b) - ch (fst b)) (o_sy o)
             (o_dy o * (o_kh o - 1) + 1) (r - ch (fst b)) (ky * o_dy o)
        = ref_tap (ch so) (ch so + ch ss) (p_top (o_pad o)) (o_sy o) (r - ch (o_woff o)) (ky * o_dy o)
      /\
      hw_tap (cw (fst ib)) (cw (snd ib)) (p_left p) (p_right p) (cw (snd b) - cw (fst b)) (o_sx o)
             (o_dx o * (o_kw o - 1) + 1) (c - cw (fst b)) (kx * o_dx o)
        = ref_tap (cw so) (cw so + cw ss) (p_left (o_pad o)) (o_sx o) (c - cw (o_woff o)) (kx * o_dx o).
Proof.
  intros Gh Sh Gw Sw Hvp (Wh0 & Wh1 & Ww0 & Ww1) (Bn & Bh0 & Bh1 & Bh2 & Bw0 & Bw1 & Bd).
  pose proof Gh as Gh'. pose proof Gw as Gw'.
  destruct Gh' as (Hs & Hd & Hk & HH & Ho1 & HoH & Htop & Hskt & Hskb & Hbot).
  destruct Gw' as (Ws & Wd & Wk & WW & Wo1 & WoW & Wtop & Wskt & Wskb & Wbot).
  destruct Sh as [Sh1 Sh2]. destruct Sw as [Sw1 Sw2].
  pose proof (fun r ky => stripe_taps_equal_read_offset_1d_lemma (conv_geom_h_rd o ss) (ch (o_woff o)) (ch so) (ch (fst b)) (ch (snd b)) r ky
                Gh Bh0 Bh1 Bh2) as TH.
  pose proof (fun c kx => stripe_taps_equal_read_offset_1d_lemma (conv_geom_w_rd o ss) (cw (o_woff o)) (cw so) (cw (fst b)) (cw (snd b)) c kx Gw
                ltac:(lia) ltac:(unfold conv_geom_w_rd in *; cbn [g_out] in *; lia) ltac:(unfold conv_geom_w_rd; cbn [g_out]; lia)) as TW.
  unfold conv_geom_h_rd, conv_geom_w_rd, g_kd in *.
  cbn [g_in g_out g_k g_d g_s g_top g_bottom g_sk_t g_sk_b] in *.
  unfold stripe_h, g_kd in TH, TW.
  cbn [g_in g_out g_k g_d g_s g_top g_bottom g_sk_t g_sk_b] in TH, TW.
  rewrite tf_height_up1 in TH, TW.
  destruct (needed_total_padding_ge (ch ss) (o_sy o) (o_dy o * (o_kh o - 1) + 1) ltac:(lia)) as [Hyp Hyp0].
  destruct (needed_total_padding_ge (cw ss) (o_sx o) (o_dx o * (o_kw o - 1) + 1) ltac:(lia)) as [Wyp Wyp0].
  unfold transform, conv_tf_rd.
  cbv beta iota zeta delta [t_s t_e t_has_ss t_sy t_sx t_skirt t_ifm t_dot t_concat t_kdh t_split t_up t_wrap tf_width].
  change (1 =? 0) with false. cbv iota.
  set (st := ch (fst b)) in *. set (en := ch (snd b)) in *. set (woff := ch (o_woff o)) in *.
  set (H := ch ss) in *. set (W := cw ss) in *. set (fh := ch so) in *. set (fw := cw so) in *.
  rewrite !Z.mul_1_r.
  rewrite Bw0, Bw1 in *.
  replace (cw (o_woff o) - cw (o_woff o) + fw - fw) with 0 by lia.
  replace (cw (o_woff o) - cw (o_woff o)) with 0 in * by lia.
  replace (Z.min (cw (o_woff o) + cw (o_oshape o) - cw (o_woff o) + fw) (cw (o_ifm o)) - fw) with (cw (o_oshape o)) by lia.
  replace (cw (o_woff o) + cw (o_oshape o) - cw (o_woff o)) with (cw (o_oshape o)) in * by lia.
  replace (st - woff + fh - fh) with (st - woff) by lia.
  replace (Z.min (en - woff + fh) (ch (o_ifm o)) - fh) with (en - woff) by lia.
  replace (en - woff + fh - fh) with (en - woff) by lia.
  rewrite tf_height_up1.
  rewrite (Z.min_l (cw (o_oshape o)) W) in * by lia.
  rewrite (Z.min_l (en - woff) H) in * by lia.
  rewrite Z.mul_0_l in *.
  assert (MA : 0 <= (st - woff) * o_sy o) by (apply Z.mul_nonneg_nonneg; lia).
  assert (MB : (st - woff + 1) * o_sy o <= (en - woff) * o_sy o) by (apply mul_mono_r; lia).
  assert (MC : (st - woff) * o_sy o <= (ch (o_oshape o) - 1) * o_sy o) by (apply mul_mono_r; lia).
  assert (MD : 1 * o_sx o <= cw (o_oshape o) * o_sx o) by (apply mul_mono_r; lia).
  assert (ME : (en - woff - 1) * o_sy o = (en - woff) * o_sy o - o_sy o) by ring.
  assert (MF : o_sy o * (en - woff - (st - woff) - 1) = (en - woff) * o_sy o - (st - woff) * o_sy o - o_sy o) by ring.
  unfold mk_box, c4_le. cbn [cn ch cw cc].
  assert (C1 : (cn (fst b) - cn (o_woff o) + cn so <=? cn (snd b) - cn (o_woff o) + cn so) = true) by (apply Z.leb_le; lia).
  assert (C2 : (Z.max ((st - woff) * o_sy o - p_top (o_skirt o)) 0 + fh <=?
                Z.max (Z.min ((en - woff) * o_sy o + p_bottom (o_skirt o)) H) 1 + fh) = true)
    by (apply Z.leb_le; rewrite Hskt, Hskb; lia).
  assert (C3 : (Z.max (0 - p_left (o_skirt o)) 0 + fw <=? Z.min (cw (o_oshape o) * o_sx o + p_right (o_skirt o)) W + fw) = true)
    by (apply Z.leb_le; rewrite Wskt, Wskb; lia).
  assert (Hd2 : exists c0 c1, (if is_dot_block (o_bt o) then (cc so, cc so + cc ss)
                               else (cc (fst b) - cc (o_woff o) + cc so, cc (snd b) - cc (o_woff o) + cc so)) = (c0, c1) /\
                              c0 <= Z.min c1 (cc (o_ifm o))).
  { destruct (is_dot_block (o_bt o)); eexists _, _; (split; [reflexivity|exact Bd]). }
  destruct Hd2 as (c0 & c1 & Ed & Hc01). rewrite Ed.
  assert (C4 : (c0 <=? Z.min c1 (cc (o_ifm o))) = true) by (apply Z.leb_le; exact Hc01).
  rewrite C1, C2, C3, C4. cbn [andb].
  eexists _, _, _. split; [reflexivity|].
  cbn [fst snd ch cw cn cc].
  split; [lia|]. split; [lia|]. split; [rewrite Wskt; lia|]. split; [lia|].
  split; [rewrite Hskt; lia|].
  split.
  { destruct (Z.ltb_spec H ((en - woff) * o_sy o + p_bottom (o_skirt o))); rewrite ?MF, ?ME, ?Hskt, ?Hskb in *; lia. }
  cbv zeta. unfold conv_hw_padding_rd, create_padding. rewrite Hvp. cbn [fst snd ch cw cn cc p_top p_bottom p_left p_right].
  fold st en woff.
  intros r c ky kx Hr Hc Hky Hkx. split.
  - specialize (TH r ky Hr Hky). rewrite Hskt, Hskb in *.
    destruct ((st =? woff) && (woff + ch (o_oshape o) <=? en)); exact TH.
  - specialize (TW c kx ltac:(lia) Hkx).
    rewrite Z.eqb_refl in TW. rewrite Z.leb_refl in TW. cbn [andb] in TW.
    rewrite Wskt, Wskb in *.
    replace (Z.max (0 - p_left (o_pad o)) 0) with 0 in * by lia.
    rewrite (Z.max_l _ 1) in TW by lia.
    clear TH. fold fw W.
    replace (fw <? 0 + fw) with false by (symmetry; apply Z.ltb_ge; lia). cbv iota.
    destruct (Z.ltb_spec (Z.min (cw (o_oshape o) * o_sx o + (needed_total_padding W (o_sx o) (o_dx o * (o_kw o - 1) + 1) - p_left (o_pad o))) W + fw) W) as [Hlt|Hge].
    + (* the box stops short of the window's end: no trailing padding is needed, and the original one is 0 *)
      assert (MG : (cw (o_oshape o) - 1) * o_sx o = cw (o_oshape o) * o_sx o - o_sx o) by ring.
      assert (p_right (o_pad o) = 0) by (rewrite Wbot; clear TW; lia).
      replace (p_right (o_pad o)) with 0 in TW by lia. exact TW.
    + exact TW.
Qed.

(* the hypotheses are satisfiable by a non-trivial instance: 3x3 stride-2 SAME convolution reading rows [3,10) (7 rows, odd)
   of a 16x16 tensor, second of two stripes (OFM rows [2,4) of 4) *)
Example stripe_taps_equal_read_offset_example :
  exists o so ss b pad skirt,
    calc_padding_and_skirt PAD_SAME 3 3 2 2 7 16 {| p_top := 0; p_left := 0; p_bottom := 0; p_right := 0 |} = Some (pad, skirt) /\
    o = {| o_ifm := {| cn := 1; ch := 16; cw := 16; cc := 8 |}; o_oshape := {| cn := 1; ch := 4; cw := 8; cc := 8 |};
           o_woff := {| cn := 0; ch := 0; cw := 0; cc := 0 |}; o_kh := 3; o_kw := 3; o_dy := 1; o_dx := 1; o_sy := 2; o_sx := 2;
           o_pad := pad; o_skirt := skirt; o_bt := BT_ConvolutionMxN |} /\
    so = {| cn := 0; ch := 3; cw := 0; cc := 0 |} /\ ss = {| cn := 1; ch := 7; cw := 16; cc := 8 |} /\
    b = ({| cn := 0; ch := 2; cw := 0; cc := 0 |}, {| cn := 1; ch := 4; cw := 8; cc := 8 |}) /\
    geom_ok (conv_geom_h_rd o ss) /\ geom_sane (conv_geom_h_rd o ss) /\ geom_ok (conv_geom_w_rd o ss) /\ geom_sane (conv_geom_w_rd o ss) /\
    window_ok o so ss /\ stripe_box_ok_rd o so ss b /\
    transform (conv_tf_rd o so ss b) = Some (({| cn := 0; ch := 6; cw := 0; cc := 0 |}, {| cn := 1; ch := 10; cw := 16; cc := 8 |}), 0, 1).
Proof.
  eexists _, _, _, _, _, _. split; [vm_compute; reflexivity|]. split; [reflexivity|]. split; [reflexivity|].
  split; [reflexivity|]. split; [reflexivity|].
  assert (Gh := same_geom_ok 7 4 3 1 2 _ _ 3 2 16 {| p_top := 0; p_left := 0; p_bottom := 0; p_right := 0 |}
                  ltac:(lia) ltac:(lia) ltac:(lia) ltac:(lia) ltac:(reflexivity) ltac:(vm_compute; reflexivity)).
  assert (Gw := same_geom_ok_w 16 8 3 1 2 _ _ 3 2 7 {| p_top := 0; p_left := 0; p_bottom := 0; p_right := 0 |}
                  ltac:(lia) ltac:(lia) ltac:(lia) ltac:(lia) ltac:(reflexivity) ltac:(vm_compute; reflexivity)).
  destruct Gh as [Gh1 Gh2]. destruct Gw as [Gw1 Gw2].
  split; [exact Gh1|]. split; [exact Gh2|]. split; [exact Gw1|]. split; [exact Gw2|].
  split; [unfold window_ok; cbn; lia|]. split; [unfold stripe_box_ok_rd; cbn; lia|]. vm_compute. reflexivity.
Qed.
