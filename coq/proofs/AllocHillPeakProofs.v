(* HillClimb: the reported total (tensor_allocation.hillclimb_allocate_live_ranges) is the highest end
   address, and it is never below the sum of the sizes alive at any time step. *)
From Coq Require Import ZArith List Bool Lia.
From VV Require Import lib.PyInt model.Alloc proofs.AllocProofs proofs.AllocHillProofs proofs.AllocHillNbrProofs
  proofs.AllocHillSearchProofs.
Import ListNotations.
Open Scope Z_scope.

(* ---------- pairwise disjoint intervals inside [L, T) have total length <= T - L ---------- *)
Definition zsum (l : list Z) : Z := fold_right Z.add 0 l.
Definition iv_disjoint (p q : Z * Z) : Prop := disjoint (fst p) (snd p) (fst q) (snd q).

Lemma FOP_filter : forall (A : Type) (R : A -> A -> Prop) (f : A -> bool) l,
  ForallOrdPairs R l -> ForallOrdPairs R (filter f l).
Proof.
  induction 1 as [|a l Hall Hfop IH]; cbn [filter]; [constructor|].
  destruct (f a); [|exact IH]. constructor; [|exact IH].
  rewrite Forall_forall in *. intros y Hy. apply filter_In in Hy. apply Hall; tauto.
Qed.

Lemma zsum_filter_split : forall (f : Z * Z -> bool) l,
  zsum (map snd l) = zsum (map snd (filter f l)) + zsum (map snd (filter (fun p => negb (f p)) l)).
Proof.
  induction l as [|x r IH]; cbn [filter map zsum fold_right]; [reflexivity|].
  fold (zsum (map snd r)). rewrite IH. destruct (f x); cbn [negb map zsum fold_right]; unfold zsum; lia.
Qed.

Lemma filter_length_le : forall (A : Type) (f : A -> bool) l, (length (filter f l) <= length l)%nat.
Proof. induction l as [|x r IH]; cbn [filter length]; [lia|]. destruct (f x); cbn [length]; lia. Qed.

Lemma disjoint_sum_bound : forall n (l : list (Z * Z)) L T,
  (length l <= n)%nat -> L <= T ->
  (forall p, In p l -> L <= fst p /\ fst p + snd p <= T) ->
  ForallOrdPairs iv_disjoint l -> zsum (map snd l) <= T - L.
Proof.
  induction n as [|n IH]; intros l L T Hlen HLT Hin Hfop.
  - destruct l; [cbn; lia | cbn in Hlen; lia].
  - destruct l as [|x l']; [cbn; lia|].
    inversion Hfop as [|? ? Hall Hfop']; subst. rewrite Forall_forall in Hall.
    set (f := fun p : Z * Z => fst p + snd p <=? fst x).
    cbn [map zsum fold_right]. fold (zsum (map snd l')). rewrite (zsum_filter_split f l').
    destruct (Hin x (or_introl eq_refl)) as [Hx1 Hx2].
    assert (B : zsum (map snd (filter f l')) <= fst x - L).
    { apply IH; auto.
      - pose proof (filter_length_le _ f l'). cbn in Hlen. lia.
      - intros p Hp. apply filter_In in Hp. destruct Hp as [Hp Hf]. unfold f in Hf. apply Z.leb_le in Hf.
        destruct (Hin p (or_intror Hp)). lia.
      - apply FOP_filter; exact Hfop'. }
    assert (A : zsum (map snd (filter (fun p => negb (f p)) l')) <= T - (fst x + snd x)).
    { apply IH; auto.
      - pose proof (filter_length_le _ (fun p => negb (f p)) l'). cbn in Hlen. lia.
      - intros p Hp. apply filter_In in Hp. destruct Hp as [Hp Hf]. apply negb_true_iff in Hf. unfold f in Hf.
        apply Z.leb_gt in Hf. destruct (Hin p (or_intror Hp)). specialize (Hall p Hp).
        unfold iv_disjoint, disjoint in Hall. lia.
      - apply FOP_filter; exact Hfop'. }
    lia.
Qed.

(* ---------- the wrapper's total ---------- *)
Lemma hc_total_spec : forall lrs addrs acc,
  acc <= hc_total lrs addrs acc /\
  (forall i r a, nth_error lrs i = Some r -> nth_error addrs i = Some a -> a + lr_size r <= hc_total lrs addrs acc) /\
  (hc_total lrs addrs acc = acc \/
   exists i r a, nth_error lrs i = Some r /\ nth_error addrs i = Some a /\ hc_total lrs addrs acc = a + lr_size r).
Proof.
  induction lrs as [|r rest IH]; intros addrs acc.
  - cbn. split; [lia|]. split; [intros i r a H; destruct i; discriminate | left; reflexivity].
  - destruct addrs as [|a ad].
    + cbn. split; [lia|]. split; [intros i r0 a0 _ H; destruct i; discriminate | left; reflexivity].
    + cbn [hc_total]. destruct (IH ad (Z.max acc (a + lr_size r))) as (H1 & H2 & H3).
      split; [lia|]. split.
      * intros [|i] r0 a0 Hr Ha; cbn in Hr, Ha.
        -- inversion Hr; inversion Ha; subst. lia.
        -- apply H2 with i; assumption.
      * destruct H3 as [H3|[i [r0 [a0 [Hr [Ha H3]]]]]].
        -- destruct (Z.max_spec acc (a + lr_size r)) as [[_ E]|[_ E]].
           ++ right. exists 0%nat, r, a. cbn. repeat split; auto. lia.
           ++ left. lia.
        -- right. exists (Datatypes.S i), r0, a0. cbn. auto.
Qed.

(* ---------- size_at_time as a plain sum over the ranges alive at t ---------- *)
Fixpoint live_sum (lrs : list lr) (t : Z) : Z :=
  match lrs with [] => 0 | r :: rest => (if alive_at t r then lr_size r else 0) + live_sum rest t end.

Lemma fold_sum_acc : forall lrs ids acc,
  fold_left (fun s j => s + lr_size (lget lrs j)) ids acc = acc + fold_left (fun s j => s + lr_size (lget lrs j)) ids 0.
Proof.
  intros lrs. induction ids as [|j r IH]; intros acc; cbn [fold_left]; [lia|].
  rewrite IH. rewrite (IH (0 + _)). lia.
Qed.

Lemma size_at_time_live_sum_gen : forall l pre t,
  sum_sizes (pre ++ l) (alive_ids_from l (zlen pre) t) = live_sum l t.
Proof.
  induction l as [|r rest IH]; intros pre t; cbn [alive_ids_from live_sum]; [reflexivity|].
  specialize (IH (pre ++ [r]) t). rewrite <- app_assoc in IH. cbn [app] in IH.
  replace (zlen (pre ++ [r])) with (zlen pre + 1) in IH by (unfold zlen; rewrite app_length; cbn; lia).
  destruct (alive_at t r).
  - unfold sum_sizes in *. cbn [fold_left]. rewrite fold_sum_acc. rewrite IH.
    assert (E : lget (pre ++ r :: rest) (zlen pre) = r).
    { unfold lget, zlen. rewrite Nat2Z.id. rewrite app_nth2 by lia. rewrite Nat.sub_diag. reflexivity. }
    rewrite E. lia.
  - rewrite IH. lia.
Qed.

Lemma size_at_time_live_sum : forall lrs t, size_at_time lrs t = live_sum lrs t.
Proof. intros. unfold size_at_time, alive_ids. exact (size_at_time_live_sum_gen lrs [] t). Qed.

(* ---------- ranges alive at t, with their addresses ---------- *)
Lemma FOP_from_nth : forall (A : Type) (R : A -> A -> Prop) l,
  (forall i j x y, (i < j)%nat -> nth_error l i = Some x -> nth_error l j = Some y -> R x y) ->
  ForallOrdPairs R l.
Proof.
  induction l as [|a l IH]; intros H; constructor.
  - rewrite Forall_forall. intros y Hy. apply In_nth_error in Hy. destruct Hy as [k Hk].
    apply (H 0%nat (Datatypes.S k)); [lia | reflexivity | exact Hk].
  - apply IH. intros i j x y Hij Hi Hj. apply (H (Datatypes.S i) (Datatypes.S j)); [lia | exact Hi | exact Hj].
Qed.

Lemma FOP_map_impl : forall (A B : Type) (R1 : A -> A -> Prop) (R2 : B -> B -> Prop) (f : A -> B) l,
  (forall x y, In x l -> In y l -> R1 x y -> R2 (f x) (f y)) ->
  ForallOrdPairs R1 l -> ForallOrdPairs R2 (map f l).
Proof.
  intros A B R1 R2 f l Himp H. induction H as [|a l Hall Hfop IH]; cbn [map]; constructor.
  - rewrite Forall_forall in *. intros y Hy. apply in_map_iff in Hy. destruct Hy as [x [<- Hx]].
    apply Himp; [left; reflexivity | right; exact Hx | apply Hall; exact Hx].
  - apply IH. intros x y Hx Hy. apply Himp; right; assumption.
Qed.

Lemma nth_error_combine : forall (A B : Type) (l1 : list A) (l2 : list B) i x y,
  nth_error (combine l1 l2) i = Some (x, y) -> nth_error l1 i = Some x /\ nth_error l2 i = Some y.
Proof.
  induction l1 as [|a r IH]; intros l2 i x y H; [destruct i; discriminate|].
  destruct l2 as [|b s]; [destruct i; discriminate|]. destruct i as [|i]; cbn in *.
  - inversion H; auto.
  - apply IH; exact H.
Qed.

Lemma live_sum_combine : forall lrs addrs t, length addrs = length lrs ->
  live_sum lrs t = zsum (map snd (map (fun p : lr * Z => (snd p, lr_size (fst p)))
                                      (filter (fun p : lr * Z => alive_at t (fst p)) (combine lrs addrs)))).
Proof.
  induction lrs as [|r rest IH]; intros addrs t Hlen; [reflexivity|].
  destruct addrs as [|a ad]; [discriminate|]. cbn [combine filter live_sum fst].
  rewrite (IH ad t) by (cbn in Hlen; lia).
  destruct (alive_at t r); cbn [map zsum fold_right snd fst]; unfold zsum; lia.
Qed.

Lemma valid_ge_peak : forall lrs addrs t,
  hc_valid lrs addrs -> size_at_time lrs t <= hc_total lrs addrs 0.
Proof.
  intros lrs addrs t (Hlen & Hdis & Hal).
  rewrite size_at_time_live_sum. rewrite (live_sum_combine lrs addrs t Hlen).
  destruct (hc_total_spec lrs addrs 0) as (T0 & Tub & _).
  set (live := filter (fun p : lr * Z => alive_at t (fst p)) (combine lrs addrs)).
  replace (hc_total lrs addrs 0) with (hc_total lrs addrs 0 - 0) by lia.
  apply disjoint_sum_bound with (n := length (map (fun p : lr * Z => (snd p, lr_size (fst p))) live)); auto.
  - intros p Hp. apply in_map_iff in Hp. destruct Hp as [[r a] [<- Hin]]. cbn [fst snd].
    apply filter_In in Hin. destruct Hin as [Hin _]. apply In_nth_error in Hin. destruct Hin as [i Hi].
    apply nth_error_combine in Hi. destruct Hi as [Hr Ha].
    destruct (Hal i r a Hr Ha) as [_ H0]. split; [exact H0 | apply (Tub i r a Hr Ha)].
  - apply FOP_map_impl with (R1 := fun p q : lr * Z => time_overlap (fst p) (fst q) ->
                                        disjoint (snd p) (lr_size (fst p)) (snd q) (lr_size (fst q))).
    + intros [r1 a1] [r2 a2] H1 H2 H. unfold iv_disjoint. cbn [fst snd] in *. apply H.
      apply filter_In in H1. apply filter_In in H2. destruct H1 as [_ H1]. destruct H2 as [_ H2]. cbn [fst] in *.
      unfold alive_at in *. apply andb_prop in H1. apply andb_prop in H2.
      destruct H1 as [X1 X2]. destruct H2 as [Y1 Y2]. apply Z.leb_le in X1, X2, Y1, Y2.
      apply time_overlap_iff. exists t. lia.
    + apply FOP_filter. apply FOP_from_nth. intros i j [r1 a1] [r2 a2] Hij Hi Hj Hov. cbn [fst snd] in *.
      apply nth_error_combine in Hi. apply nth_error_combine in Hj.
      destruct Hi as [Hr1 Ha1]. destruct Hj as [Hr2 Ha2].
      apply (Hdis i j r1 r2 a1 a2); auto. lia.
Qed.

Lemma zmax_list_ge : forall l d x, In x l -> x <= zmax_list d l.
Proof.
  intros [|y r] d x Hin; [destruct Hin|]. cbn [zmax_list].
  assert (G : forall l m, m <= fold_left Z.max l m /\ forall x, In x l -> x <= fold_left Z.max l m).
  { induction l as [|z l IH]; intros m; cbn [fold_left]; [split; [lia | intros ? []]|].
    destruct (IH (Z.max m z)) as [H1 H2]. split; [lia|]. intros x0 [->|Hx]; [lia | apply H2; exact Hx]. }
  destruct (G r y) as [H1 H2]. destruct Hin as [->|Hin]; [exact H1 | apply H2; exact Hin].
Qed.

Lemma zmax_list_le : forall l d b, d <= b -> (forall x, In x l -> x <= b) -> zmax_list d l <= b.
Proof.
  intros [|y r] d b Hd H; [exact Hd|]. cbn [zmax_list].
  assert (G : forall l m, m <= b -> (forall x, In x l -> x <= b) -> fold_left Z.max l m <= b).
  { induction l as [|z l IH]; intros m Hm Hl; cbn [fold_left]; [exact Hm|].
    apply IH; [|intros; apply Hl; right; assumption]. specialize (Hl z (or_introl eq_refl)). lia. }
  apply G; [apply H; left; reflexivity | intros; apply H; right; assumption].
Qed.

Lemma valid_ge_min_required : forall lrs addrs,
  hc_valid lrs addrs -> min_required_size lrs <= hc_total lrs addrs 0.
Proof.
  intros lrs addrs Hv. unfold min_required_size. apply zmax_list_le.
  - destruct (hc_total_spec lrs addrs 0) as (H & _). exact H.
  - intros x Hx. apply in_map_iff in Hx. destruct Hx as [t [<- _]]. apply valid_ge_peak; exact Hv.
Qed.
