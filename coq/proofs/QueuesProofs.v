(* Soundness of the possibly-unfinished-set simulation of hw/Queues.v against the small-step
   queue machine: if [qcheck] accepts a command sequence then in EVERY reachable hardware state no
   kernel operation and DMA operation that are unfinished together are in hazard. *)
From Coq Require Import ZArith List Bool Lia.
From VV Require Import hw.Queues.
Import ListNotations.
Open Scope Z_scope.

(* ---------------------------------------------------------------- suffixes and lastn *)
Definition suffix {A} (a l : list A) : Prop := exists pre, l = pre ++ a.

Lemma suffix_refl {A} (l : list A) : suffix l l.
Proof. exists []. reflexivity. Qed.

Lemma suffix_nil {A} (l : list A) : suffix [] l.
Proof. exists l. now rewrite app_nil_r. Qed.

Lemma suffix_in {A} (a l : list A) x : suffix a l -> In x a -> In x l.
Proof. intros [pre ->] H. apply in_or_app. now right. Qed.

Lemma suffix_length {A} (a l : list A) : suffix a l -> (length a <= length l)%nat.
Proof. intros [pre ->]. rewrite app_length. lia. Qed.

Lemma suffix_tail {A} (x : A) a l : suffix (x :: a) l -> suffix a l.
Proof. intros [pre ->]. exists (pre ++ [x]). now rewrite <- app_assoc. Qed.

Lemma suffix_snoc {A} (a l : list A) x : suffix a l -> suffix (a ++ [x]) (l ++ [x]).
Proof. intros [pre ->]. exists pre. now rewrite app_assoc. Qed.

Lemma suffix_trans {A} (a b c : list A) : suffix a b -> suffix b c -> suffix a c.
Proof. intros [p1 ->] [p2 ->]. exists (p2 ++ p1). now rewrite app_assoc. Qed.

Lemma lastn_suffix {A} n (l : list A) : suffix (lastn n l) l.
Proof. unfold lastn. exists (firstn (length l - n) l). symmetry. apply firstn_skipn. Qed.

Lemma lastn_length {A} n (l : list A) : (length (lastn n l) <= n)%nat.
Proof. unfold lastn. rewrite skipn_length. lia. Qed.

Lemma lastn_in {A} n (l : list A) x : In x (lastn n l) -> In x l.
Proof. apply suffix_in, lastn_suffix. Qed.

Lemma lastn_all {A} n (l : list A) : (length l <= n)%nat -> lastn n l = l.
Proof. intros H. unfold lastn. replace (length l - n)%nat with 0%nat by lia. reflexivity. Qed.

(* a short suffix of l is a suffix of the last n elements of l *)
Lemma suffix_lastn {A} n (a l : list A) : suffix a l -> (length a <= n)%nat -> suffix a (lastn n l).
Proof.
  intros [pre ->] H. unfold lastn. rewrite app_length.
  rewrite skipn_app.
  replace (length pre + length a - n - length pre)%nat with 0%nat by lia.
  cbn [skipn]. exists (skipn (length pre + length a - n) pre). reflexivity.
Qed.

Lemma lastn_mono {A} n (a l : list A) : suffix a l -> suffix (lastn n a) (lastn n l).
Proof.
  intros H. apply suffix_lastn; [|apply lastn_length].
  eapply suffix_trans; [apply lastn_suffix | exact H].
Qed.

Lemma suffix_proper_tl {A} (a l : list A) : suffix a l -> (length a < length l)%nat -> suffix a (tl l).
Proof.
  intros [pre ->] H. rewrite app_length in H. destruct pre as [|x pre]; [cbn in H; lia|].
  cbn [tl app]. exists pre. reflexivity.
Qed.

(* ---------------------------------------------------------------- soundness *)
Section Sound.
  Variable op : Type.
  Variable is_dma : op -> bool.
  Variable max_dma : Z.
  Variable max_kern : Z.
  Variable conflict : op -> op -> bool.
  (* the hazard relation the conflict test decides (at least) : symmetric, and detected by the
     test whichever of the two operations is the older one *)
  Variable hazard : op -> op -> Prop.
  Hypothesis hazard_sym : forall a b, hazard a b -> hazard b a.
  Hypothesis conflict_complete : forall a b, hazard a b -> conflict a b = true.

  Notation qstep := (qstep op is_dma max_dma max_kern).
  Notation qsteps := (qsteps op is_dma max_dma max_kern).
  Notation qsim := (qsim op is_dma max_dma max_kern).
  Notation qcheck := (qcheck op is_dma max_dma max_kern conflict).

  Definition cross_free (k d : list op) : Prop :=
    forall x y, In x k -> In y d -> ~ hazard x y.

  (* hardware state h is covered by the simulated sets s *)
  Definition covered (h s : qstate op) : Prop :=
    suffix (q_kern h) (q_kern s) /\ suffix (q_dma h) (q_dma s) /\ cross_free (q_kern s) (q_dma s).

  Lemma forallb_noconf l o :
    forallb (fun x => negb (conflict x o)) l = true -> forall x, In x l -> ~ hazard x o.
  Proof.
    intros H x Hin Hz. rewrite forallb_forall in H. specialize (H x Hin).
    apply conflict_complete in Hz. rewrite Hz in H. discriminate.
  Qed.

  Lemma qlen_nat (l : list op) mx : qlen op l < mx -> (length l + 1 <= Z.to_nat mx)%nat.
  Proof. unfold qlen. intros H. lia. Qed.

  Lemma qlen_nat_le (l : list op) n : qlen op l <= n -> (length l <= Z.to_nat n)%nat.
  Proof. unfold qlen. intros H. lia. Qed.

  Lemma step_preserves h p h' p' s :
    qstep (h, p) (h', p') -> covered h s -> qcheck s p = true ->
    exists s', covered h' s' /\ qcheck s' p' = true.
  Proof.
    intros Hstep (Hk & Hd & Hx) Hc. inversion Hstep; subst; cbn [q_kern q_dma] in *.
    - exists s. split; [|exact Hc]. split; [|split]; cbn [q_kern q_dma]; try assumption.
      eapply suffix_tail; eassumption.
    - exists s. split; [|exact Hc]. split; [|split]; cbn [q_kern q_dma]; try assumption.
      eapply suffix_tail; eassumption.
    - (* issue kernel *)
      cbn [Queues.qcheck] in Hc. apply andb_true_iff in Hc as [Hok Hc].
      match goal with H : is_dma o = _ |- _ => rename H into Hdma end.
      match goal with H : qlen _ _ < _ |- _ => rename H into Hlen end.
      unfold qcmd_ok in Hok. rewrite Hdma in Hok.
      exists (qsim s (QIssue o)). split; [|exact Hc].
      unfold Queues.qsim. rewrite Hdma. split; [|split]; cbn [q_kern q_dma].
      + apply suffix_lastn; [apply suffix_snoc; exact Hk|].
        rewrite app_length. cbn [length]. apply qlen_nat. assumption.
      + exact Hd.
      + intros x y Hin Hy. apply lastn_in in Hin. apply in_app_or in Hin as [Hin|[<-|[]]].
        * apply Hx; assumption.
        * intros Hz. apply hazard_sym in Hz. revert Hz. eapply forallb_noconf; eassumption.
    - (* issue dma *)
      cbn [Queues.qcheck] in Hc. apply andb_true_iff in Hc as [Hok Hc].
      match goal with H : is_dma o = _ |- _ => rename H into Hdma end.
      match goal with H : qlen _ _ < _ |- _ => rename H into Hlen end.
      unfold qcmd_ok in Hok. rewrite Hdma in Hok.
      exists (qsim s (QIssue o)). split; [|exact Hc].
      unfold Queues.qsim. rewrite Hdma. split; [|split]; cbn [q_kern q_dma].
      + exact Hk.
      + apply suffix_lastn; [apply suffix_snoc; exact Hd|].
        rewrite app_length. cbn [length]. apply qlen_nat. assumption.
      + intros x y Hx1 Hin. apply lastn_in in Hin. apply in_app_or in Hin as [Hin|[<-|[]]].
        * apply Hx; assumption.
        * eapply forallb_noconf; eassumption.
    - (* kernel wait *)
      cbn [Queues.qcheck] in Hc. apply andb_true_iff in Hc as [_ Hc].
      exists (qsim s (QWaitK n)). split; [|exact Hc].
      cbn [Queues.qsim]. split; [|split]; cbn [q_kern q_dma].
      + apply suffix_lastn; [exact Hk | apply qlen_nat_le; assumption].
      + exact Hd.
      + intros x y Hin Hy. apply lastn_in in Hin. apply Hx; assumption.
    - (* dma wait *)
      cbn [Queues.qcheck] in Hc. apply andb_true_iff in Hc as [_ Hc].
      exists (qsim s (QWaitD n)). split; [|exact Hc].
      cbn [Queues.qsim]. split; [|split]; cbn [q_kern q_dma].
      + exact Hk.
      + apply suffix_lastn; [exact Hd | apply qlen_nat_le; assumption].
      + intros x y Hx1 Hin. apply lastn_in in Hin. apply Hx; assumption.
  Qed.

  Lemma steps_preserve c c' :
    qsteps c c' -> forall s, covered (fst c) s -> qcheck s (snd c) = true ->
    exists s', covered (fst c') s' /\ qcheck s' (snd c') = true.
  Proof.
    induction 1 as [c|[h1 p1] [h2 p2] c3 Hstep _ IH]; intros s Hcov Hc.
    - exists s. split; assumption.
    - destruct (step_preserves _ _ _ _ _ Hstep Hcov Hc) as (s2 & Hcov2 & Hc2).
      apply (IH s2); assumption.
  Qed.

  (* THE generic statement: acceptance of the simulation implies that no reachable state of the
     machine holds a kernel operation and a DMA operation in hazard *)
  Theorem qcheck_sound p :
    qcheck q_init p = true ->
    forall h p', qsteps (q_init, p) (h, p') ->
    forall k d, In k (q_kern h) -> In d (q_dma h) -> ~ hazard k d.
  Proof.
    intros Hc h p' Hsteps k d Hk Hd.
    destruct (steps_preserve _ _ Hsteps q_init) as (s' & (Hsk & Hsd & Hx) & _).
    - split; [apply suffix_refl | split; [apply suffix_refl|]]. intros x y [].
    - exact Hc.
    - cbn [fst] in *. apply Hx; eapply suffix_in; eassumption.
  Qed.
End Sound.
