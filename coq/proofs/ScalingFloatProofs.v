(* Proofs about the elementwise mul/add/sub scale derivations (C09, last clause) over the rounded
   dyadic arithmetic of model/Scaling.v, and the rational form of the accuracy statement. *)
From Coq Require Import ZArith List Bool Lia QArith Qabs Qpower.
From VV Require Import lib.PyInt lib.PyFloat gen.GenScaling model.Scaling proofs.ScalingProofs.
Import ListNotations.
Open Scope Z_scope.

(* Vela pair v = (qv, sv) denotes qv * 2^-sv; reference pair t = (qt, st) denotes qt * 2^(st-31).
   same_value v t ls: the same multiplier, and the reference's left shift is 31 - sv - ls, i.e.
   qv * 2^-sv = (qt * 2^(st-31)) * 2^ls  (ls: a left shift folded into Vela's pair) *)
Definition same_value (v t : Z * Z) (ls : Z) : Prop :=
  fst v = fst t /\ snd t = 31 - snd v - ls.

Lemma q_scale_vs_tfl m e k :
  0 < m ->
  let v := q_scale m (e + k) in
  fst v <> 0 -> snd v + k <= 62 -> same_value v (tfl_quantize_multiplier (Dy m e)) k.
Proof.
  intros Hm v. subst v. rewrite q_scale_pos, tfl_pos by lia.
  assert (V : vshift m (e + k) = vshift m e - k) by (unfold vshift; lia). rewrite V.
  destruct (shift_ok (vshift m e - k)) eqn:E; cbn [fst snd]; [|lia]. intros _ Hk.
  apply shift_ok_spec in E. unfold same_value.
  destruct (Z.ltb_spec (31 - vshift m e) (-31)); [lia|]. cbn [fst snd]. split; [reflexivity|lia].
Qed.

(* ---------- the rounded quotient is positive ---------- *)
Lemma round_ratio_shift p num den e k :
  round_ratio p num den (e + k) = fl_mul_pow2 (round_ratio p num den e) k.
Proof.
  unfold round_ratio, fl_mul_pow2. destruct ((num <=? 0) || (den <=? 0)); cbn [dm de]; f_equal; lia.
Qed.

Lemma round_ratio_pos p num den e :
  1 <= p -> 0 < num -> 0 < den -> 0 < dm (round_ratio p num den e).
Proof.
  intros Hp Hn Hd. unfold round_ratio.
  destruct (Z.leb_spec num 0); [lia|]. destruct (Z.leb_spec den 0); [lia|]. cbn [orb].
  pose proof (log2_bounds num Hn) as [N1 N2]. pose proof (log2_bounds den Hd) as [D1 D2].
  pose proof (Z.log2_nonneg num) as Ln. pose proof (Z.log2_nonneg den) as Ld.
  set (la := Z.log2 num) in *. set (lb := Z.log2 den) in *.
  set (s := p + 2 + lb - la).
  set (nn := num * 2 ^ Z.max s 0). set (dd := den * 2 ^ Z.max (- s) 0).
  assert (Hdd : 0 < dd) by (apply Z.mul_pos_pos; [lia | apply pow2_pos; lia]).
  assert (Hq : dd <= nn).
  { unfold nn, dd. destruct (Z.le_gt_cases 0 s) as [Hs|Hs].
    - rewrite (Z.max_l s 0), (Z.max_r (- s) 0) by lia. rewrite Z.pow_0_r, Z.mul_1_r.
      assert (2 ^ (lb + 1) <= 2 ^ la * 2 ^ s).
      { rewrite <- Z.pow_add_r by lia. apply Z.pow_le_mono_r; lia. }
      rewrite pow2_succ in * by lia.
      assert (2 ^ la * 2 ^ s <= num * 2 ^ s) by (apply Z.mul_le_mono_nonneg_r; [apply Z.pow_nonneg|]; lia).
      lia.
    - rewrite (Z.max_r s 0), (Z.max_l (- s) 0) by lia. rewrite Z.pow_0_r, Z.mul_1_r.
      assert (2 * 2 ^ lb * 2 ^ (- s) <= 2 ^ la).
      { rewrite <- pow2_succ by lia. rewrite <- Z.pow_add_r by lia. apply Z.pow_le_mono_r; lia. }
      assert (den * 2 ^ (- s) <= 2 * 2 ^ lb * 2 ^ (- s)) by (apply Z.mul_le_mono_nonneg_r; [apply Z.pow_nonneg|]; lia).
      lia. }
  set (q := nn / dd).
  assert (Hq1 : 1 <= q) by (apply Z.div_le_lower_bound; lia).
  set (drop := Z.log2 q + 1 - p). cbn [dm].
  set (t := q / 2 ^ drop).
  assert (Ht : 0 <= t).
  { unfold t. destruct (Z.le_gt_cases 0 drop).
    - apply Z.div_pos; [lia | apply pow2_pos; lia].
    - rewrite (Z.pow_neg_r 2 drop) by lia. rewrite Zdiv_0_r. lia. }
  destruct (_ || _) eqn:Up; [lia|].
  (* not rounded up: then drop >= 0 and t >= 1 *)
  apply orb_false_iff in Up. destruct Up as [U1 _]. apply Z.ltb_ge in U1.
  destruct (Z.le_gt_cases 0 drop) as [Hdr|Hdr].
  - pose proof (log2_bounds q ltac:(lia)) as [Q1 _].
    assert (2 ^ drop <= 2 ^ Z.log2 q) by (apply Z.pow_le_mono_r; unfold drop; lia).
    assert (1 <= t); [|lia]. unfold t. apply Z.div_le_lower_bound; [apply pow2_pos; lia | lia].
  - exfalso. rewrite (Z.pow_neg_r 2 drop) in U1 by lia. rewrite Zmod_0_r in U1.
    rewrite (Z.pow_neg_r 2 (drop - 1)) in U1 by lia. lia.
Qed.

Lemma fl_div_pos p a b : 1 <= p -> 0 < dm a -> 0 < dm b -> 0 < dm (fl_div p a b).
Proof. intros. unfold fl_div. apply round_ratio_pos; assumption. Qed.

Lemma fl_mul_pos p a b : 1 <= p -> 0 < dm a -> 0 < dm b -> 0 < dm (fl_mul p a b).
Proof. intros. unfold fl_mul. apply round_ratio_pos; try lia. Qed.

Lemma fl_div_pow2_l p a b k : fl_div p (fl_mul_pow2 a k) b = fl_mul_pow2 (fl_div p a b) k.
Proof.
  unfold fl_div. cbn [fl_mul_pow2 dm de].
  replace (de a + k - de b) with (de a - de b + k) by lia. apply round_ratio_shift.
Qed.

(* ---------- mul ---------- *)
Lemma ew_mul_eq_reference_lemma p in1 in2 out :
  1 <= p -> 0 < dm in1 -> 0 < dm in2 -> 0 < dm out ->
  let v := ew_mul_scale p in1 in2 out in
  fst v <> 0 -> snd v <= 62 -> same_value v (tfl_mul_params p in1 in2 out) 0.
Proof.
  intros Hp H1 H2 Ho v Hv Hs. subst v. unfold ew_mul_scale, tfl_mul_params, q_scale_dy in *.
  set (X := fl_div p (fl_mul p in1 in2) out) in *.
  assert (0 < dm X) by (apply fl_div_pos; [assumption | apply fl_mul_pos; assumption | assumption]).
  destruct X as [mx ex]. cbn [dm de] in *.
  pose proof (q_scale_vs_tfl mx ex 0 H) as K. cbv zeta in K. rewrite Z.add_0_r in K.
  apply K; [assumption | lia].
Qed.

(* ---------- the packed convolution / fully connected scale records ---------- *)
Lemma conv_packed_eq_reference_lemma p ifm w ofm :
  1 <= p -> 0 < dm ifm -> 0 < dm w -> 0 < dm ofm ->
  let v := conv_packed_scale p false ifm w ofm in
  fst v <> 0 -> snd v <= 62 -> same_value v (tfl_conv_params p ifm w ofm) 0.
Proof.
  intros Hp H1 H2 Ho v Hv Hs. subst v. unfold conv_packed_scale, conv_effective_scale, tfl_conv_params in *.
  set (X := fl_div 53 (fl_mul p ifm w) ofm) in *.
  assert (0 < dm X) by (apply fl_div_pos; [lia | apply fl_mul_pos; assumption | assumption]).
  destruct X as [mx ex]. cbn [dm de] in *.
  pose proof (q_scale_vs_tfl mx ex 0 H) as K. cbv zeta in K. rewrite Z.add_0_r in K.
  apply K; [assumption | lia].
Qed.

(* int16 with an int64 bias: the packed pair is the run-time reduction the reference kernel applies
   (MultiplyByQuantizedMultiplier(int64_t, ...)) to the reference multiplier *)
Lemma conv_packed_reduced_eq_reference_lemma p ifm w ofm :
  1 <= p -> 0 < dm ifm -> 0 < dm w -> 0 < dm ofm ->
  let v := conv_packed_scale p false ifm w ofm in
  fst v <> 0 -> snd v <= 62 ->
  conv_packed_scale p true ifm w ofm = tfl_reduce (tfl_conv_params p ifm w ofm).
Proof.
  intros Hp H1 H2 Ho v Hv Hs.
  pose proof (conv_packed_eq_reference_lemma p ifm w ofm Hp H1 H2 Ho Hv Hs) as [E1 E2]. fold v in E1, E2.
  subst v. unfold conv_packed_scale, conv_effective_scale, tfl_conv_params in *.
  set (X := fl_div 53 (fl_mul p ifm w) ofm) in *.
  assert (0 < dm X) by (apply fl_div_pos; [lia | apply fl_mul_pos; assumption | assumption]).
  unfold r_scale. destruct (q_scale (dm X) (de X)) as [q s] eqn:Q. cbn [fst snd] in *.
  assert (GenScaling.quantise_scale (Dy (dm X) (de X)) = (q, s)) as G by (rewrite gen_quantise_scale_eq; exact Q).
  destruct (quantise_scale_nonzero_lemma _ _ _ _ H G Hv) as [_ [_ R]].
  assert (shift_ok s = true) as -> by (apply shift_ok_spec; exact R).
  unfold tfl_reduce, r_mult. destruct X as [mx ex]. cbn [dm de] in *.
  destruct (tfl_quantize_multiplier (Dy mx ex)) as [qt st]. cbn [fst snd] in *. subst qt st.
  f_equal. lia.
Qed.

(* ---------- add / sub ---------- *)
Lemma dy_ltb_asym a b : dy_ltb a b = true -> dy_ltb b a = false.
Proof.
  unfold dy_ltb, dy_align. rewrite (Z.min_comm (de b) (de a)).
  rewrite Z.ltb_lt, Z.ltb_ge. lia.
Qed.

Lemma dy_max_min_max a b : dy_max (dy_min a b) (dy_max a b) = dy_max a b.
Proof.
  unfold dy_max, dy_min.
  destruct (dy_ltb a b) eqn:E1.
  - rewrite (dy_ltb_asym _ _ E1). rewrite E1. reflexivity.
  - destruct (dy_ltb b a) eqn:E2.
    + rewrite E2. reflexivity.
    + destruct (dy_ltb a a); reflexivity.
Qed.

Lemma dy_max_pos a b : 0 < dm a -> 0 < dm b -> 0 < dm (dy_max a b).
Proof. unfold dy_max. destruct (dy_ltb a b); auto. Qed.
Lemma dy_min_pos a b : 0 < dm a -> 0 < dm b -> 0 < dm (dy_min a b).
Proof. unfold dy_min. destruct (dy_ltb b a); auto. Qed.

(* the reference's multiplier for the operand with the smaller scale *)
Definition tfl_min_input (in1 in2 : dyadic) : Z * Z :=
  tfl_quantize_multiplier (fl_div 53 (dy_min in1 in2) (fl_mul_pow2 (dy_max in1 in2) 1)).

Lemma tfl_min_input_is in1 in2 out ls :
  let '(t1, t2, _) := tfl_add_params in1 in2 out ls in
  (dy_ltb in1 in2 = true -> tfl_min_input in1 in2 = t1) /\
  (dy_ltb in2 in1 = true -> tfl_min_input in1 in2 = t2) /\
  (dy_ltb in1 in2 = false -> dy_ltb in2 in1 = false -> tfl_min_input in1 in2 = t1).
Proof.
  unfold tfl_add_params, tfl_min_input, dy_min. repeat split.
  - intros H. rewrite (dy_ltb_asym _ _ H). reflexivity.
  - intros H. rewrite H. reflexivity.
  - intros _ H. rewrite H. reflexivity.
Qed.

Lemma ew_advanced_eq_reference_lemma in1 in2 out bitdepth :
  0 < dm in1 -> 0 < dm in2 -> 0 < dm out ->
  let ls := if bitdepth =? 8 then 20 else 15 in
  let '(vin, vout, op) := ew_advanced 53 in1 in2 out bitdepth in
  let '(_, _, tout) := tfl_add_params in1 in2 out ls in
  op = (if dy_ltb in1 in2 then 1 else 2) /\
  (fst vin <> 0 -> snd vin + ls <= 62 -> same_value vin (tfl_min_input in1 in2) ls) /\
  (fst vout <> 0 -> snd vout <= 62 -> same_value vout tout 0).
Proof.
  intros H1 H2 Ho ls. unfold ew_advanced, ew_simplified, tfl_add_params, tfl_min_input.
  fold ls. rewrite dy_max_min_max.
  set (mx := dy_max in1 in2). set (mn := dy_min in1 in2).
  assert (0 < dm mx) by (apply dy_max_pos; assumption).
  assert (0 < dm mn) by (apply dy_min_pos; assumption).
  set (twice := fl_mul_pow2 mx 1). assert (0 < dm twice) by (unfold twice; cbn; assumption).
  split; [reflexivity|]. split.
  - rewrite fl_div_pow2_l. set (X := fl_div 53 mn twice).
    assert (0 < dm X) by (apply fl_div_pos; [lia | assumption | assumption]).
    unfold q_scale_dy. destruct X as [mx' ex']. cbn [fl_mul_pow2 dm de] in *.
    apply q_scale_vs_tfl. assumption.
  - set (Y := fl_div 53 twice (fl_mul_pow2 out ls)).
    assert (0 < dm Y) by (apply fl_div_pos; [lia | assumption | cbn; assumption]).
    unfold q_scale_dy. destruct Y as [my ey]. cbn [dm de] in *.
    intros Hv Hs. pose proof (q_scale_vs_tfl my ey 0 H4) as K. cbv zeta in K. rewrite Z.add_0_r in K.
    apply K; [assumption | lia].
Qed.

(* ---------- the requantisation scale of a QUANTIZE compiled as a 1x1 pool (fused_quantize) ---------- *)
Lemma fused_quantize_eq_reference_lemma ifm ofm :
  0 < dm ifm -> 0 < dm ofm ->
  let v := fused_quantize_scale 53 ifm ofm in
  fst v <> 0 -> snd v <= 62 -> same_value v (tfl_requantize_params ifm ofm) 0.
Proof.
  intros H1 Ho v Hv Hs. subst v. unfold fused_quantize_scale, tfl_requantize_params, q_scale_dy in *.
  set (X := fl_div 53 ifm ofm) in *.
  assert (0 < dm X) by (apply fl_div_pos; [lia | assumption | assumption]).
  destruct X as [mx ex]. cbn [dm de] in *.
  pose proof (q_scale_vs_tfl mx ex 0 H) as K. cbv zeta in K. rewrite Z.add_0_r in K.
  apply K; [assumption | lia].
Qed.

(* forming the quotient of the two float32 scales in float32 before widening is not the reference:
   float32 scales 0x1.230e26p-5 and 0x1.5e3bc2p-3 *)
Lemma fused_quantize_float32_quotient_refuted_lemma :
  exists ifm ofm, 0 < dm ifm /\ 0 < dm ofm /\
    fused_quantize_scale 53 ifm ofm = (1784628124, 33) /\ tfl_requantize_params ifm ofm = (1784628124, -2) /\
    fused_quantize_scale 24 ifm ofm = (1784628096, 33).
Proof. exists (Dy 9537299 (-28)), (Dy 11476449 (-26)). vm_compute. repeat split; reflexivity. Qed.

(* ---------- which tensor each programmed add/sub scale reaches ---------- *)
(* for both operand orders the 32-bit pair reaches the IFM exactly when the IFM has the smaller scale *)
Lemma ew_operand_choice_lemma ifm ifm2 rev :
  ifm_gets_opa (ew_scale_mode ifm ifm2 rev) rev = dy_ltb ifm ifm2.
Proof. unfold ifm_gets_opa, ew_scale_mode. destruct rev, (dy_ltb ifm ifm2); reflexivity. Qed.

(* x / (2 x) evaluated in binary64 is exactly 1/2 ... *)
Lemma fl_div_half a : 0 < dm a -> fl_div 53 a (fl_mul_pow2 a 1) = Dy (2 ^ 52) (de a - (de a + 1) - 52).
Proof.
  intros H. unfold fl_div, fl_mul_pow2, round_ratio. cbn [dm de].
  destruct (Z.leb_spec (dm a) 0); [lia|]. cbn [orb].
  replace (53 + 2 + Z.log2 (dm a) - Z.log2 (dm a)) with 55 by lia.
  change (Z.max 55 0) with 55. change (Z.max (- 55) 0) with 0. rewrite Z.pow_0_r, Z.mul_1_r.
  rewrite (Z.mul_comm (dm a) (2 ^ 55)). rewrite Z.div_mul by lia. rewrite Z.mod_mul by lia.
  change (Z.log2 (2 ^ 55) + 1 - 53) with 3. vm_compute (2 ^ 55 / 2 ^ 3). vm_compute (2 ^ 55 mod 2 ^ 3).
  cbn [Z.eqb negb]. vm_compute (2 ^ (3 - 1) <? 0). cbn [orb andb]. vm_compute (0 =? 2 ^ (3 - 1)). cbn [andb orb].
  f_equal. lia.
Qed.

(* ... whose reference multiplier is (2^30, 0): the value 1/2 the hardware realises by the shorter shift *)
Lemma tfl_of_half e : tfl_quantize_multiplier (Dy (2 ^ 52) (e - 52)) = if e + 1 <? -31 then (0, 0) else (2 ^ 30, e + 1).
Proof.
  rewrite tfl_pos by (vm_compute; reflexivity).
  assert (qn (2 ^ 52) = 2 ^ 30) as -> by (vm_compute; reflexivity).
  assert (vshift (2 ^ 52) (e - 52) = 31 - (e + 1)) as -> by (unfold vshift; change (Z.log2 (2 ^ 52)) with 52; change (rnd (2 ^ 52)) with 0; lia).
  replace (31 - (31 - (e + 1))) with (e + 1) by lia. reflexivity.
Qed.

Lemma ew_per_tensor_lemma ifm ifm2 out ls rev :
  0 < dm ifm -> 0 < dm ifm2 ->
  let smode := ew_scale_mode ifm ifm2 rev in
  let '(t1, t2, _) := tfl_add_params ifm ifm2 out ls in
  (dy_ltb ifm ifm2 = true -> ifm_gets_opa smode rev = true /\ t2 = (2 ^ 30, 0)) /\
  (dy_ltb ifm ifm2 = false -> ifm_gets_opa smode rev = false /\ t1 = (2 ^ 30, 0)).
Proof.
  intros H1 H2 smode. subst smode. rewrite ew_operand_choice_lemma. unfold tfl_add_params, dy_max.
  destruct (dy_ltb ifm ifm2) eqn:E.
  - split; [|discriminate]. intros _. split; [reflexivity|].
    rewrite fl_div_half by assumption. replace (de ifm2 - (de ifm2 + 1) - 52) with (-1 - 52) by lia.
    rewrite tfl_of_half. reflexivity.
  - split; [discriminate|]. intros _. split; [reflexivity|].
    rewrite fl_div_half by assumption. replace (de ifm - (de ifm + 1) - 52) with (-1 - 52) by lia.
    rewrite tfl_of_half. reflexivity.
Qed.

(* ---------- the accuracy statement over the rationals ---------- *)
Definition dy_Q (d : dyadic) : Q := (inject_Z (dm d) * Qpower 2 (de d))%Q.
Definition pair_Q (q s : Z) : Q := (inject_Z q * Qpower 2 (- s))%Q.

Lemma two_nz : ~ (2 == 0)%Q.
Proof. intro H. discriminate H. Qed.

Lemma quantise_scale_accurate_Q_lemma m e :
  0 < m ->
  let s := vshift m e in
  0 <= s <= 63 ->
  exists q, GenScaling.quantise_scale (Dy m e) = (q, s) /\
            (Qabs (pair_Q q s - dy_Q (Dy m e)) <= Qpower 2 (-31) * dy_Q (Dy m e))%Q.
Proof.
  intros Hm s Hs. destruct (quantise_scale_accurate_lemma m e Hm Hs) as [q [E [_ [_ [B1 B2]]]]].
  exists q. split; [exact E|]. fold s in E.
  pose proof (Z.log2_nonneg m) as HL. pose proof (qn_spec m Hm) as [_ [_ HR]].
  set (L := Z.log2 m) in *. set (r := rnd m) in *.
  unfold pair_Q, dy_Q. cbn [dm de].
  set (c := Qpower 2 (e - 31)).
  assert (Hc : (0 < c)%Q) by (apply Qpower_0_lt; reflexivity).
  assert (P1 : (Qpower 2 (- s) == Qpower 2 (L + 1 + r) * c)%Q).
  { unfold c. rewrite <- Qpower_plus by exact two_nz.
    replace (- s) with (L + 1 + r + (e - 31)) by (unfold s, vshift; fold L; fold r; lia). reflexivity. }
  assert (P2 : (Qpower 2 e == Qpower 2 31 * c)%Q).
  { unfold c. rewrite <- Qpower_plus by exact two_nz. replace (31 + (e - 31)) with e by lia. reflexivity. }
  assert (P3 : (Qpower 2 (-31) * (inject_Z m * Qpower 2 e) == inject_Z m * c)%Q).
  { unfold c. replace (e - 31) with (-31 + e) by lia. rewrite Qpower_plus by exact two_nz. ring. }
  assert (A : (inject_Z q * Qpower 2 (- s) - inject_Z m * Qpower 2 e ==
               inject_Z (q * 2 ^ (L + 1 + r) - m * 2 ^ 31) * c)%Q).
  { rewrite P1, P2. unfold Zminus. rewrite inject_Z_plus, inject_Z_opp, !inject_Z_mult.
    rewrite !Zpower_Qpower by lia. change (inject_Z 2) with 2%Q. ring. }
  rewrite A, P3. apply Qabs_Qle_condition.
  apply Z.abs_le in B1.
  assert (- m <= q * 2 ^ (L + 1 + r) - m * 2 ^ 31 <= m) as [D1 D2] by lia.
  rewrite Zle_Qle in D1, D2. rewrite inject_Z_opp in D1.
  split.
  - setoid_replace (- (inject_Z m * c))%Q with ((- inject_Z m) * c)%Q by ring.
    apply Qmult_le_compat_r; [exact D1 | apply Qlt_le_weak; exact Hc].
  - apply Qmult_le_compat_r; [exact D2 | apply Qlt_le_weak; exact Hc].
Qed.

(* ---------- instances ---------- *)
(* float32 0.1, 0.3, 0.2 widened to double: 13421773 * 2^-27, 10066330 * 2^-25, 13421773 * 2^-26 *)
Example ew_advanced_ex :
  ew_advanced 53 (Dy 13421773 (-27)) (Dy 10066330 (-25)) (Dy 13421773 (-26)) 8
    = ((1431655730, 13), (1610612776, 49), 1) /\
  tfl_add_params (Dy 13421773 (-27)) (Dy 10066330 (-25)) (Dy 13421773 (-26)) 20
    = ((1431655730, -2), (1073741824, 0), (1610612776, -18)) /\
  same_value (1431655730, 13) (1431655730, -2) 20 /\ same_value (1610612776, 49) (1610612776, -18) 0 /\
  (* evaluated in binary32 the pairs differ from the reference *)
  ew_advanced 24 (Dy 13421773 (-27)) (Dy 10066330 (-25)) (Dy 13421773 (-26)) 8
    = ((1431655680, 13), (1610612736, 49), 1).
Proof. vm_compute. repeat split; congruence. Qed.

Example ew_mul_ex :
  ew_mul_scale 53 (Dy 13421773 (-27)) (Dy 10066330 (-25)) (Dy 13421773 (-26)) = (1288490240, 33) /\
  tfl_mul_params 53 (Dy 13421773 (-27)) (Dy 10066330 (-25)) (Dy 13421773 (-26)) = (1288490240, -2).
Proof. vm_compute. split; reflexivity. Qed.

(* int8 conv, scales float32 0.1 / 0.3 / 0.2: the double-product rule and the float-product rule differ *)
Example conv_packed_ex :
  conv_packed_scale 53 false (Dy 13421773 (-27)) (Dy 10066330 (-25)) (Dy 13421773 (-26)) = (1288490240, 33) /\
  tfl_conv_params 53 (Dy 13421773 (-27)) (Dy 10066330 (-25)) (Dy 13421773 (-26)) = (1288490240, -2) /\
  conv_packed_scale 24 false (Dy 13421773 (-27)) (Dy 10066330 (-25)) (Dy 13421773 (-26)) = (1288490221, 33) /\
  conv_packed_scale 53 true (Dy 13421773 (-27)) (Dy 10066330 (-25)) (Dy 13421773 (-26)) = (19661, 17) /\
  tfl_reduce (1288490240, -2) = (19661, 17).
Proof. vm_compute. repeat split; reflexivity. Qed.

(* a broadcast first operand (reversed order) with the larger scale, float32 0.3 against 0.1: operand A is the IFM2
   (scale 0.3), the pair must go to operand B = the IFM (0.1): scale mode 2; with the operands in plain order: mode 1 *)
Example ew_per_tensor_ex :
  ew_scale_mode (Dy 13421773 (-27)) (Dy 10066330 (-25)) true = 2 /\
  ifm_gets_opa 2 true = true /\
  ew_scale_mode (Dy 13421773 (-27)) (Dy 10066330 (-25)) false = 1 /\
  ew_scale_mode (Dy 10066330 (-25)) (Dy 13421773 (-27)) true = 1 /\
  ifm_gets_opa 1 true = false.
Proof. vm_compute. repeat split; reflexivity. Qed.
