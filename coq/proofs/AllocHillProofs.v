(* HillClimb allocator: one allocation pass (allocate_lr / allocate_indices) keeps co-live buffers
   disjoint and aligned; neighbour lists are complete. *)
From Coq Require Import ZArith List Bool Lia Permutation.
From VV Require Import lib.PyInt model.Alloc proofs.AllocProofs.
Import ListNotations.
Open Scope Z_scope.

(* ---------- lists indexed by Z ---------- *)
Lemma length_set_nth : forall (A : Type) (l : list A) n x, length (set_nth l n x) = length l.
Proof. induction l as [|y r IH]; intros [|n] x; cbn; auto. Qed.

Lemma nth_error_set_nth : forall (A : Type) (l : list A) n x k,
  nth_error (set_nth l n x) k =
  if ((k =? n)%nat && (n <? length l)%nat)%bool then Some x else nth_error l k.
Proof.
  induction l as [|y r IH]; intros n x k.
  - destruct n; cbn; rewrite andb_false_r; reflexivity.
  - destruct n as [|n]; destruct k as [|k]; cbn [set_nth nth_error length]; try reflexivity.
    rewrite IH. change (S k =? S n)%nat with (k =? n)%nat. change (S n <? S (length r))%nat with (n <? length r)%nat.
    reflexivity.
Qed.

Lemma nth_set_nth : forall (A : Type) (l : list A) n x d k,
  nth k (set_nth l n x) d = if ((k =? n)%nat && (n <? length l)%nat)%bool then x else nth k l d.
Proof.
  induction l as [|y r IH]; intros n x d k.
  - destruct n; destruct k; cbn; try rewrite andb_false_r; reflexivity.
  - destruct n as [|n]; destruct k as [|k]; cbn [set_nth nth length]; try reflexivity.
    rewrite IH. change (S k =? S n)%nat with (k =? n)%nat. change (S n <? S (length r))%nat with (n <? length r)%nat.
    reflexivity.
Qed.

Definition inr {A : Type} (l : list A) (i : Z) : Prop := 0 <= i < zlen l.

Lemma zget_some_inr : forall (A : Type) (l : list A) i x, zget l i = Some x -> inr l i.
Proof.
  unfold zget, inr, zlen; intros A l i x H. destruct (Z.ltb_spec i 0); [discriminate|].
  assert (nth_error l (Z.to_nat i) <> None) by congruence.
  apply nth_error_Some in H1. lia.
Qed.

Lemma zget_inr : forall (A : Type) (l : list A) i, inr l i -> exists x, zget l i = Some x.
Proof.
  unfold zget, inr, zlen; intros A l i H. destruct (Z.ltb_spec i 0); [lia|].
  destruct (nth_error l (Z.to_nat i)) eqn:E; [eauto|]. apply nth_error_None in E. lia.
Qed.

Lemma zget_nth_error : forall (A : Type) (l : list A) i, 0 <= i -> zget l i = nth_error l (Z.to_nat i).
Proof. unfold zget; intros. destruct (Z.ltb_spec i 0); [lia|reflexivity]. Qed.

Lemma length_zset : forall (A : Type) (l : list A) i x, length (zset l i x) = length l.
Proof. unfold zset; intros. destruct (i <? 0); [reflexivity|apply length_set_nth]. Qed.

Lemma zlen_zset : forall (A : Type) (l : list A) i x, zlen (zset l i x) = zlen l.
Proof. unfold zlen; intros; rewrite length_zset; reflexivity. Qed.

Lemma hget_zset : forall st i x j, inr st i -> 0 <= j ->
  hget (zset st i x) j = if j =? i then x else hget st j.
Proof.
  unfold hget, zset, inr, zlen; intros st i x j Hi Hj.
  destruct (Z.ltb_spec i 0); [lia|]. rewrite nth_set_nth.
  destruct (Z.eqb_spec j i) as [->|Hne].
  - rewrite Nat.eqb_refl. cbn [andb].
    destruct (Nat.ltb_spec (Z.to_nat i) (length st)); [reflexivity|lia].
  - destruct (Nat.eqb_spec (Z.to_nat j) (Z.to_nat i)); [lia|]. reflexivity.
Qed.

Lemma hget_outside : forall st j, 0 <= j -> ~ inr st j -> hget st j = h_default.
Proof. unfold hget, inr, zlen; intros. apply nth_overflow. lia. Qed.

Lemma zget_hget : forall st i h, zget st i = Some h -> hget st i = h.
Proof.
  intros st i h H. pose proof (zget_some_inr _ _ _ _ H) as [H0 _].
  rewrite zget_nth_error in H by lia. unfold hget. apply nth_error_nth; exact H.
Qed.

(* ---------- the inner scan and the while loop of allocate_lr ---------- *)
Definition is_alloc (st : list hinfo) (j : Z) : Prop := h_addr (hget st j) <> NOT_ALLOCATED.

Lemma hc_scan_spec : forall st size al, 0 < al ->
  forall nb address pred fits a p f,
  hc_scan st size al nb address pred fits = (a, p, f) ->
  address <= a /\ ((al | address) -> (al | a)) /\
  (a = address \/ exists j, In j nb /\ is_alloc st j /\ a = round_up (h_end (hget st j)) al) /\
  (f = true -> fits = true /\ a = address /\ p = pred /\
     forall j, In j nb -> ~ is_alloc st j \/ h_end (hget st j) <= address \/ address + size <= h_addr (hget st j)).
Proof.
  intros st size al Hal. induction nb as [|j r IH]; intros address pred fits a p f H.
  - cbn in H. inversion H; subst. repeat split; auto; try lia; try (intros j []).
  - cbn [hc_scan] in H.
    destruct ((h_addr (hget st j) =? NOT_ALLOCATED) || (h_end (hget st j) <=? address)) eqn:E1.
    + specialize (IH _ _ _ _ _ _ H). destruct IH as (I1 & I2 & I3 & I4).
      split; [exact I1|]. split; [exact I2|]. split.
      * destruct I3 as [I3|[k [Hk I3]]]; [left; exact I3 | right; exists k; split; [right; exact Hk | exact I3]].
      * intros Hf. destruct (I4 Hf) as (J1 & J2 & J3 & J4). repeat split; auto.
        intros k [<-|Hk]; [|apply J4; exact Hk].
        apply orb_prop in E1. destruct E1 as [E1|E1].
        -- left. unfold is_alloc. apply Z.eqb_eq in E1. lia.
        -- right; left. apply Z.leb_le in E1. exact E1.
    + apply orb_false_elim in E1. destruct E1 as [E1 E2]. apply Z.eqb_neq in E1. apply Z.leb_gt in E2.
      destruct ((h_addr (hget st j) <? address + size) && (address <? h_end (hget st j))) eqn:E3.
      * specialize (IH _ _ _ _ _ _ H). destruct IH as (I1 & I2 & I3 & I4).
        pose proof (round_up_ge (h_end (hget st j)) al Hal) as Hge.
        split; [lia|]. split; [intros _; apply I2; apply round_up_divide|]. split.
        -- right. destruct I3 as [I3|[k [Hk I3]]].
           ++ exists j. split; [left; reflexivity|]. split; [exact E1 | exact I3].
           ++ exists k. split; [right; exact Hk | exact I3].
        -- intros Hf. destruct (I4 Hf) as (J1 & _). discriminate.
      * specialize (IH _ _ _ _ _ _ H). destruct IH as (I1 & I2 & I3 & I4).
        split; [exact I1|]. split; [exact I2|]. split.
        -- destruct I3 as [I3|[k [Hk I3]]]; [left; exact I3 | right; exists k; split; [right; exact Hk | exact I3]].
        -- intros Hf. destruct (I4 Hf) as (J1 & J2 & J3 & J4). repeat split; auto.
           intros k [<-|Hk]; [|apply J4; exact Hk].
           right. apply andb_false_iff in E3. destruct E3 as [E3|E3].
           ++ right. apply Z.ltb_ge in E3. exact E3.
           ++ left. apply Z.ltb_ge in E3. exact E3.
Qed.

Lemma hc_fit_spec : forall st size al nb, 0 < al ->
  forall fuel address pred a p,
  hc_fit fuel st size al nb address pred = Some (a, p) ->
  address <= a /\ ((al | address) -> (al | a)) /\
  (a = address \/ exists j, In j nb /\ is_alloc st j /\ a = round_up (h_end (hget st j)) al) /\
  forall j, In j nb -> ~ is_alloc st j \/ h_end (hget st j) <= a \/ a + size <= h_addr (hget st j).
Proof.
  intros st size al nb Hal. induction fuel as [|fuel IH]; intros address pred a p H; [discriminate|].
  cbn [hc_fit] in H.
  destruct (hc_scan st size al nb address pred true) as [[a1 p1] f1] eqn:E.
  destruct (hc_scan_spec st size al Hal _ _ _ _ _ _ _ E) as (S1 & S2 & S3 & S4).
  destruct f1.
  - inversion H; subst. destruct (S4 eq_refl) as (_ & -> & -> & S5).
    repeat split; auto; lia.
  - destruct (IH _ _ _ _ H) as (I1 & I2 & I3 & I4).
    split; [lia|]. split; [intros Hd; apply I2, S2, Hd|]. split; [|exact I4].
    destruct I3 as [->|I3]; [exact S3 | right; exact I3].
Qed.

(* ---------- invariants of an allocation pass ---------- *)
Section Pass.
  Variable lrs : list lr.
  Variable nbrs : list (list Z).

  Definition nbrs_complete : Prop :=
    forall i j, inr lrs i -> inr lrs j -> i <> j -> time_overlap (lget lrs i) (lget lrs j) -> In j (nget nbrs i).

  Definition hc_wf (r : lr) : Prop := 0 <= lr_start r /\ 0 <= lr_size r /\ 0 < lr_align r.

  (* allocated co-live ranges are disjoint; an allocated range has a consistent end, an aligned and
     non-negative address; nothing outside the list is allocated *)
  Definition pass_inv (st : list hinfo) : Prop :=
    (forall i j, inr lrs i -> inr lrs j -> i <> j -> is_alloc st i -> is_alloc st j ->
                 time_overlap (lget lrs i) (lget lrs j) ->
                 disjoint (h_addr (hget st i)) (lr_size (lget lrs i)) (h_addr (hget st j)) (lr_size (lget lrs j))) /\
    (forall i, 0 <= i -> is_alloc st i ->
               h_end (hget st i) = h_addr (hget st i) + lr_size (lget lrs i) /\
               (lr_align (lget lrs i) | h_addr (hget st i)) /\ 0 <= h_addr (hget st i)).

  Hypothesis Hcomplete : nbrs_complete.
  Hypothesis Hwf : Forall hc_wf lrs.

  Lemma lget_wf : forall i, inr lrs i -> hc_wf (lget lrs i).
  Proof.
    intros i [H0 H1]. rewrite Forall_forall in Hwf. apply Hwf. unfold lget. apply nth_In. unfold zlen in H1. lia.
  Qed.

  Lemma reset_inv : forall st, pass_inv (reset_addresses st) /\ forall i, 0 <= i -> ~ is_alloc (reset_addresses st) i.
  Proof.
    intros st.
    assert (H : forall i, 0 <= i -> ~ is_alloc (reset_addresses st) i).
    { intros i Hi. unfold is_alloc, hget, reset_addresses.
      assert (G : forall l k, h_addr (nth k (map (fun h => mkH NOT_ALLOCATED (h_end h) (h_pred h) (h_turn h)) l) h_default)
                              = NOT_ALLOCATED).
      { induction l as [|y l IHl]; intros [|k]; cbn [map nth]; try reflexivity. apply IHl. }
      rewrite G. intros C; apply C; reflexivity. }
    split; [|exact H]. split.
    - intros i j [Hi _] _ _ Ha. exfalso. apply (H i Hi Ha).
    - intros i Hi Ha. exfalso. apply (H i Hi Ha).
  Qed.

  (* one turn of the loop of allocate_indices *)
  Lemma alloc_turn : forall st i st1 turn size,
    length st = length lrs -> inr st i -> pass_inv st ->
    (forall k, 0 <= k -> is_alloc st k -> h_end (hget st k) <= size) -> 0 <= size ->
    allocate_lr lrs nbrs st i = Ok st1 ->
    let h := hget st1 i in
    let st2 := zset st1 i (mkH (h_addr h) (h_end h) (h_pred h) turn) in
    let size' := Z.max size (h_end h) in
    length st2 = length lrs /\ pass_inv st2 /\ is_alloc st2 i /\
    (forall k, 0 <= k -> is_alloc st k -> is_alloc st2 k) /\
    (forall k, 0 <= k -> is_alloc st2 k -> h_end (hget st2 k) <= size') /\
    size' <= size + lr_size (lget lrs i) + lr_align (lget lrs i).
  Proof.
    intros st i st1 turn size Hlen Hi [Hdis Hwfst] Hub Hsz0 Hal. cbv zeta.
    unfold allocate_lr in Hal.
    destruct (hc_fit _ st (lr_size (lget lrs i)) (lr_align (lget lrs i)) (nget nbrs i) 0 NO_PREDECESSOR)
      as [[a p]|] eqn:Efit; [|discriminate].
    inversion Hal; subst st1; clear Hal.
    assert (Hil : inr lrs i) by (unfold inr, zlen in *; lia).
    destruct (lget_wf i Hil) as (Hst & Hsz & Halign).
    destruct (hc_fit_spec st _ _ _ Halign _ _ _ _ _ Efit) as (F1 & F2 & F3 & F4).
    assert (Hi0 : 0 <= i) by (destruct Hi; lia).
    set (r := lget lrs i) in *.
    set (st1 := zset st i (mkH a (a + lr_size r) p (h_turn (hget st i)))).
    assert (Hi1 : inr st1 i) by (unfold inr, st1; rewrite zlen_zset; exact Hi).
    assert (Hh : hget st1 i = mkH a (a + lr_size r) p (h_turn (hget st i))).
    { unfold st1. rewrite hget_zset by auto. rewrite Z.eqb_refl. reflexivity. }
    rewrite Hh. cbn [h_addr h_end h_pred].
    set (st2 := zset st1 i (mkH a (a + lr_size r) p turn)).
    assert (Hg : forall k, 0 <= k -> hget st2 k = if k =? i then mkH a (a + lr_size r) p turn else hget st k).
    { intros k Hk. unfold st2. rewrite hget_zset by auto. destruct (Z.eqb_spec k i); [reflexivity|].
      unfold st1. rewrite hget_zset by auto. destruct (Z.eqb_spec k i); [contradiction|reflexivity]. }
    assert (Hai : is_alloc st2 i).
    { unfold is_alloc. rewrite Hg by auto. rewrite Z.eqb_refl. cbn. unfold NOT_ALLOCATED. lia. }
    assert (Hother : forall k, 0 <= k -> k <> i -> (is_alloc st2 k <-> is_alloc st k)).
    { intros k Hk Hne. unfold is_alloc. rewrite Hg by auto. destruct (Z.eqb_spec k i); [contradiction|tauto]. }
    (* the new address is clear of every allocated co-live range *)
    assert (Hnew : forall j, inr lrs j -> j <> i -> is_alloc st j -> time_overlap r (lget lrs j) ->
                     disjoint a (lr_size r) (h_addr (hget st j)) (lr_size (lget lrs j))).
    { intros j Hj Hne Haj Hov.
      assert (Hin : In j (nget nbrs i)) by (apply Hcomplete; auto).
      destruct Hj as [Hj0 _].
      destruct (F4 j Hin) as [G|[G|G]]; [contradiction| |].
      - destruct (Hwfst j Hj0 Haj) as (He & _). unfold disjoint. right. lia.
      - unfold disjoint. left. lia. }
    assert (Ha0 : 0 <= a) by lia.
    assert (Hdiv : (lr_align r | a)) by (apply F2; exists 0; lia).
    split; [unfold st2, st1; rewrite !length_zset; exact Hlen|].
    split; [split|].
    - intros x y Hx Hy Hne Hax Hay Hov.
      assert (Hx0 : 0 <= x) by (destruct Hx; lia). assert (Hy0 : 0 <= y) by (destruct Hy; lia).
      rewrite !Hg by auto.
      destruct (Z.eqb_spec x i) as [->|Hxi]; destruct (Z.eqb_spec y i) as [->|Hyi]; cbn [h_addr].
      + contradiction.
      + apply Hnew; auto. apply Hother; auto.
      + apply disjoint_sym. apply Hnew; auto. apply Hother; auto. apply time_overlap_sym; exact Hov.
      + apply Hdis; auto; apply Hother; auto.
    - intros k Hk Hak. rewrite Hg by auto. destruct (Z.eqb_spec k i) as [->|Hki]; cbn [h_addr h_end].
      + repeat split; auto.
      + apply Hwfst; auto. apply Hother; auto.
    - split; [exact Hai|]. split; [|split].
      + intros k Hk Hak. destruct (Z.eq_dec k i) as [->|Hne]; [exact Hai | apply Hother; auto].
      + intros k Hk Hak. rewrite Hg by auto. destruct (Z.eqb_spec k i) as [->|Hki]; cbn [h_end]; [lia|].
        assert (h_end (hget st k) <= size) by (apply Hub; auto; apply Hother; auto). lia.
      + (* growth bound: a is 0 or the rounded-up end of an allocated neighbour *)
        destruct F3 as [->|[j [Hj [Haj ->]]]]; [lia|].
        assert (Hj0 : 0 <= j \/ j < 0) by lia.
        pose proof (round_up_lt (h_end (hget st j)) (lr_align r) Halign).
        assert (h_end (hget st j) <= size).
        { destruct Hj0 as [Hj0|Hj0]; [apply Hub; auto|].
          (* a negative id reads entry 0 *)
          assert (E : hget st j = hget st 0) by (unfold hget; replace (Z.to_nat j) with 0%nat by lia; reflexivity).
          rewrite E. apply Hub; [lia|]. unfold is_alloc in *. rewrite <- E. exact Haj. }
        lia.
  Qed.

  Fixpoint sum_bound (idx : list Z) : Z :=
    match idx with [] => 0 | i :: r => lr_size (lget lrs i) + lr_align (lget lrs i) + sum_bound r end.

  Lemma alloc_loop_spec : forall best idx turn size st st' size',
    length st = length lrs -> pass_inv st ->
    (forall k, 0 <= k -> is_alloc st k -> h_end (hget st k) <= size) -> 0 <= size ->
    alloc_loop lrs nbrs best idx turn size st = Ok (st', size') ->
    length st' = length lrs /\ pass_inv st' /\
    (forall k, 0 <= k -> is_alloc st k -> is_alloc st' k) /\
    (forall k, 0 <= k -> is_alloc st' k -> h_end (hget st' k) <= size') /\
    size <= size' <= size + sum_bound idx /\
    (size' <= best -> forall i, In i idx -> is_alloc st' i).
  Proof.
    intros best. induction idx as [|i rest IH]; intros turn size st st' size' Hlen Hinv Hub Hs0 Hrun.
    - cbn in Hrun. inversion Hrun; subst st' size'.
      split; [exact Hlen|]. split; [exact Hinv|]. split; [auto|]. split; [exact Hub|]. split; [cbn; lia|].
      intros _ i [].
    - cbn [alloc_loop] in Hrun.
      destruct (zget st i) as [hi|] eqn:Ez; [|discriminate].
      pose proof (zget_some_inr _ _ _ _ Ez) as Hi.
      destruct (allocate_lr lrs nbrs st i) as [st1|c] eqn:Ea; [|discriminate].
      pose proof (alloc_turn st i st1 turn size Hlen Hi Hinv Hub Hs0 Ea) as T. cbv zeta in T.
      set (h := hget st1 i) in *.
      set (st2 := zset st1 i (mkH (h_addr h) (h_end h) (h_pred h) turn)) in *.
      destruct T as (T1 & T2 & T3 & T4 & T5 & T6).
      assert (Hil : inr lrs i) by (unfold inr, zlen in *; lia).
      destruct (lget_wf i Hil) as (_ & Hsz & Halign).
      cbn [sum_bound].
      destruct (Z.gtb_spec (Z.max size (h_end h)) best) as [Hgt|Hle].
      + inversion Hrun; subst st' size'; clear Hrun.
        split; [exact T1|]. split; [exact T2|]. split; [exact T4|]. split; [exact T5|].
        split.
        * assert (0 <= sum_bound rest).
          { clear - Hwf. induction rest as [|x r IHr]; cbn [sum_bound]; [lia|].
            assert (0 <= lr_size (lget lrs x) /\ 0 < lr_align (lget lrs x)).
            { unfold lget. destruct (Nat.ltb_spec (Z.to_nat x) (length lrs)).
              - rewrite Forall_forall in Hwf. destruct (Hwf (nth (Z.to_nat x) lrs lr_default)) as (_ & ? & ?); auto.
                apply nth_In; exact H.
              - rewrite nth_overflow by exact H. cbn. lia. }
            lia. }
          lia.
        * intros Hb. lia.
      + specialize (IH (turn + 1) (Z.max size (h_end h)) st2 st' size').
        destruct IH as (I1 & I2 & I3 & I4 & I5 & I6); auto; try lia.
        split; [exact I1|]. split; [exact I2|]. split; [intros k Hk Hak; apply I3; auto|]. split; [exact I4|].
        split; [lia|].
        intros Hb j [<-|Hj]; [|apply I6; auto].
        apply I3; [destruct Hi; lia | exact T3].
  Qed.

  Lemma allocate_indices_spec : forall best idx st st' size',
    length st = length lrs ->
    allocate_indices lrs nbrs best idx st = Ok (st', size') ->
    length st' = length lrs /\ pass_inv st' /\
    (forall k, 0 <= k -> is_alloc st' k -> h_end (hget st' k) <= size') /\
    0 <= size' <= sum_bound idx /\
    (size' <= best -> forall i, In i idx -> is_alloc st' i).
  Proof.
    intros best idx st st' size' Hlen Hrun. unfold allocate_indices in Hrun.
    destruct (reset_inv st) as [Hinv Hna].
    assert (Hl : length (reset_addresses st) = length lrs)
      by (unfold reset_addresses; rewrite map_length; exact Hlen).
    assert (Hub : forall k, 0 <= k -> is_alloc (reset_addresses st) k -> h_end (hget (reset_addresses st) k) <= 0)
      by (intros k Hk Hak; exfalso; apply (Hna k Hk Hak)).
    destruct (alloc_loop_spec best idx 0 0 (reset_addresses st) st' size' Hl Hinv Hub ltac:(lia) Hrun)
      as (I1 & I2 & I3 & I4 & I5 & I6).
    split; [exact I1|]. split; [exact I2|]. split; [exact I4|]. split; [lia | exact I6].
  Qed.
End Pass.
