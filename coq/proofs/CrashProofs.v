From Coq Require Import ZArith List Bool Lia.
From VV Require Import lib.PyInt gen.GenTables model.Crash.
Open Scope Z_scope.

Lemma in_int_64 x : - 2^63 <= x < 2^63 -> in_int 64 x = true.
Proof.
  intros H. unfold in_int. change (64 - 1) with 63.
  apply andb_true_iff; split; [apply Z.leb_le | apply Z.ltb_lt]; lia.
Qed.

(* the array dtype read from the source is wide enough for every staging limit and every usage
   the scheduler can produce (usage is a sum of tensor sizes, each below 2^40) *)
Lemma snapshot_arith_no_overflow_lemma staging usage :
  0 <= staging <= max_staging_limit -> 0 <= usage <= 2^60 ->
  slack_buffering_memory staging usage = Some (staging - usage).
Proof.
  intros Hs Hu. unfold slack_buffering_memory, np_pyint_minus, chk_int, max_staging_limit in *.
  change usage_dtype_bits with 64.
  change (2^40) with 1099511627776 in Hs. change (2^60) with 1152921504606846976 in Hu.
  rewrite !in_int_64 by (change (2^63) with 9223372036854775808; lia). reflexivity.
Qed.

(* with a 32-bit array the default staging limit 2^32 already fails: the witness of defect P1 *)
Lemma snapshot_arith_int32_refuted_lemma :
  exists staging usage, 0 <= staging <= max_staging_limit /\ 0 <= usage <= 2^60 /\
                        np_pyint_minus 32 staging usage = None.
Proof. exists (2^32), 0. vm_compute. repeat split; discriminate. Qed.
