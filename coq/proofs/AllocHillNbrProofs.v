(* HillClimb: the neighbour lists computed by __init__ contain every co-live range. *)
From Coq Require Import ZArith List Bool Lia.
From VV Require Import lib.PyInt model.Alloc proofs.AllocProofs proofs.AllocHillProofs.
Import ListNotations.
Open Scope Z_scope.

Lemma zmem_true : forall x l, zmem x l = true <-> In x l.
Proof.
  intros x l. unfold zmem. rewrite existsb_exists. split.
  - intros [y [Hy E]]. apply Z.eqb_eq in E. subst; exact Hy.
  - intros H. exists x. split; [exact H | apply Z.eqb_refl].
Qed.

Lemma in_zrange : forall n lo t, In t (zrange lo n) <-> lo <= t < lo + Z.of_nat n.
Proof.
  induction n as [|n IH]; intros lo t; cbn [zrange In].
  - lia.
  - rewrite IH. lia.
Qed.

Lemma in_alive_ids_from : forall lrs i0 t j,
  In j (alive_ids_from lrs i0 t) <->
  exists k, (k < length lrs)%nat /\ j = i0 + Z.of_nat k /\ alive_at t (nth k lrs lr_default) = true.
Proof.
  induction lrs as [|r rest IH]; intros i0 t j; cbn [alive_ids_from].
  - split; [intros [] | intros [k [H _]]; cbn in H; lia].
  - assert (Hrest : In j (alive_ids_from rest (i0 + 1) t) <->
                    exists k, (S k < length (r :: rest))%nat /\ j = i0 + Z.of_nat (S k) /\
                              alive_at t (nth (S k) (r :: rest) lr_default) = true).
    { rewrite IH. split; intros [k [H1 [H2 H3]]]; exists k; cbn [length nth] in *; repeat split; auto; lia. }
    destruct (alive_at t r) eqn:E.
    + cbn [In]. rewrite Hrest. split.
      * intros [<-|[k H]]; [exists 0%nat; cbn; repeat split; auto; lia | exists (S k); exact H].
      * intros [[|k] [H1 [H2 H3]]]; [left; lia | right; exists k; auto].
    + rewrite Hrest. split.
      * intros [k H]; exists (S k); exact H.
      * intros [[|k] [H1 [H2 H3]]]; [cbn in H3; congruence | exists k; auto].
Qed.

Lemma in_alive_ids : forall lrs t j, inr lrs j -> alive_at t (lget lrs j) = true -> In j (alive_ids lrs t).
Proof.
  intros lrs t j [H0 H1] Ha. unfold alive_ids. apply in_alive_ids_from.
  exists (Z.to_nat j). unfold zlen in H1. repeat split; [lia | lia | exact Ha].
Qed.

Section Nb.
  Variable i : Z.
  Definition nb_step (acc : list Z) (j : Z) : list Z :=
    if negb (zmem j acc) && negb (j =? i) then acc ++ [j] else acc.

  Lemma nb_step_mono : forall acc j x, In x acc -> In x (nb_step acc j).
  Proof. intros acc j x H. unfold nb_step. destruct (_ && _); [apply in_or_app; left|]; exact H. Qed.

  Lemma nb_step_adds : forall acc j, j <> i -> In j (nb_step acc j).
  Proof.
    intros acc j Hne. unfold nb_step. destruct (zmem j acc) eqn:E; cbn [negb andb].
    - apply zmem_true; exact E.
    - destruct (Z.eqb_spec j i); [contradiction|]. cbn. apply in_or_app; right; left; reflexivity.
  Qed.

  Lemma nb_inner_mono : forall l acc x, In x acc -> In x (fold_left nb_step l acc).
  Proof. induction l as [|j r IH]; intros acc x H; cbn [fold_left]; [exact H|]. apply IH, nb_step_mono, H. Qed.

  Lemma nb_inner_adds : forall l acc j, In j l -> j <> i -> In j (fold_left nb_step l acc).
  Proof.
    induction l as [|e r IH]; intros acc j Hin Hne; [destruct Hin|]. cbn [fold_left].
    destruct Hin as [->|Hin]; [apply nb_inner_mono, nb_step_adds, Hne | apply IH; auto].
  Qed.

  Variable lrs : list lr.
  Definition nb_outer (acc : list Z) (t : Z) : list Z := fold_left nb_step (alive_ids lrs t) acc.

  Lemma nb_outer_mono : forall ts acc x, In x acc -> In x (fold_left nb_outer ts acc).
  Proof. induction ts as [|t r IH]; intros acc x H; cbn [fold_left]; [exact H|]. apply IH. apply nb_inner_mono, H. Qed.

  Lemma nb_outer_adds : forall ts acc t j, In t ts -> In j (alive_ids lrs t) -> j <> i ->
    In j (fold_left nb_outer ts acc).
  Proof.
    induction ts as [|e r IH]; intros acc t j Ht Hj Hne; [destruct Ht|]. cbn [fold_left].
    destruct Ht as [->|Ht]; [apply nb_outer_mono; apply nb_inner_adds; auto | eapply IH; eauto].
  Qed.
End Nb.

Lemma neighbours_of_eq : forall lrs i r, neighbours_of lrs i r = fold_left (nb_outer i lrs) (lr_times r) [].
Proof. reflexivity. Qed.

Lemma nth_neighbours_from : forall all l i0 k, (k < length l)%nat ->
  nth k (neighbours_from all l i0) [] = neighbours_of all (i0 + Z.of_nat k) (nth k l lr_default).
Proof.
  induction l as [|r rest IH]; intros i0 k Hk; [cbn in Hk; lia|].
  destruct k as [|k]; cbn [neighbours_from nth].
  - f_equal. lia.
  - rewrite IH by (cbn in Hk; lia). f_equal. lia.
Qed.

Lemma all_neighbours_complete : forall lrs,
  (forall r, In r lrs -> 0 <= lr_start r) -> nbrs_complete lrs (all_neighbours lrs).
Proof.
  intros lrs Hst i j Hi Hj Hne Hov.
  unfold nget, all_neighbours. destruct Hi as [Hi0 Hi1]. unfold zlen in Hi1.
  rewrite nth_neighbours_from by lia. replace (0 + Z.of_nat (Z.to_nat i)) with i by lia.
  fold (lget lrs i). rewrite neighbours_of_eq.
  unfold time_overlap in Hov.
  set (t := Z.max (lr_start (lget lrs i)) (lr_start (lget lrs j))).
  apply nb_outer_adds with (t := t).
  - unfold lr_times. apply in_zrange. lia.
  - apply in_alive_ids; [exact Hj|]. unfold alive_at. apply andb_true_intro. split; apply Z.leb_le; lia.
  - auto.
Qed.
