(* C01 -- the scaling step of the executable hardware semantics (hw/NpuExec.v) is the TFLite / gemmlowp
   reference MultiplyByQuantizedMultiplier (model/FpMath.v, the object the C19 development proves fp_math.py
   equal to), for every accumulator, multiplier and shift the hardware fields can hold. *)
From Coq Require Import ZArith List Bool Lia.
From VV Require Import lib.PyInt lib.Bits gen.GenTables model.FpMath proofs.FpMathProofs hw.Npu hw.NpuExec.
Open Scope Z_scope.

Lemma srdhm_closed a b : srdhm a b = srdhm32_c a b.
Proof.
  unfold srdhm, srdhm32_c. destruct ((a =? b) && (a =? -2147483648)); [reflexivity|]. cbv zeta.
  rewrite Z.geb_leb. reflexivity.
Qed.

Lemma rdbpot_closed x e : 0 <= e -> rdbpot x e = rdbpot_c x e.
Proof.
  intros He. unfold rdbpot. destruct (Z.leb_spec e 0).
  - replace e with 0 by lia. symmetry. apply rdbpot_c_e0.
  - cbv zeta. unfold rdbpot_c. rewrite land_ones_mod by lia. rewrite !shiftr_div by lia. change (2 ^ 1) with 2.
    rewrite Z.gtb_ltb. reflexivity.
Qed.

Theorem scale_tfl_is_reference x q s :
  in32 x -> in32 q -> 0 <= s <= 62 -> in32 (x * 2 ^ (Z.max 0 (31 - s))) ->
  scale_tfl x q s = MultiplyByQuantizedMultiplier x q (31 - s).
Proof.
  intros Hx Hq Hs Hp. unfold scale_tfl, MultiplyByQuantizedMultiplier. cbv zeta.
  rewrite srdhm_closed.
  destruct (Z.gtb_spec (31 - s) 0) as [Hl|Hl].
  - destruct (Z.ltb_spec 0 (31 - s)); [|lia]. destruct (Z.ltb_spec (31 - s) 0); [lia|].
    rewrite Z.max_r in Hp by lia. rewrite shiftl_1 by lia.
    rewrite rdbpot_closed by lia.
    assert (Hc : cast32 (x * cast32 (2 ^ (31 - s))) = x * 2 ^ (31 - s)).
    { destruct (Z.eq_dec (31 - s) 31) as [E|N].
      - rewrite E in *. change (2 ^ 31) with 2147483648 in *. unfold in32 in *.
        assert (x = 0 \/ x = -1) as [->| ->] by lia; reflexivity.
      - pose proof (pow2_le_30 (31 - s) ltac:(lia)).
        rewrite (cast32_id (2 ^ (31 - s))) by (unfold in32; lia). apply cast32_id. exact Hp. }
    rewrite Hc. rewrite SRDHM32_closed by assumption.
    rewrite RDBPOT_closed; [reflexivity| apply srdhm32_c_in32; assumption | lia].
  - destruct (Z.ltb_spec 0 (31 - s)); [lia|].
    rewrite Z.max_l in Hp by lia. change (2 ^ 0) with 1 in *. rewrite Z.mul_1_r in *.
    change (Z.shiftl 1 0) with 1. change (cast32 1) with 1. rewrite Z.mul_1_r.
    rewrite (cast32_id x Hx). rewrite SRDHM32_closed by assumption.
    pose proof (srdhm32_c_in32 x q Hx Hq) as R.
    destruct (Z.ltb_spec (31 - s) 0).
    + rewrite rdbpot_closed by lia. rewrite RDBPOT_closed; [reflexivity|exact R|lia].
    + replace (- (31 - s)) with 0 by lia. rewrite rdbpot_closed by lia.
      rewrite RDBPOT_closed; [reflexivity|exact R|lia].
Qed.

(* the TFL scaling mode with a multiplier of 2^31 (which quantise_scale produced before the repair c949748)
   is NOT the reference with the renormalised pair (2^30, shift - 1): the double rounding differs *)
Theorem scale_tfl_unrenormalised_differs :
  scale_tfl 31 (2 ^ 31) 37 = 0 /\ MultiplyByQuantizedMultiplier 31 (2 ^ 30) (31 - 36) = 1.
Proof. split; vm_compute; reflexivity. Qed.

(* ------------------------------------------------------------------ elementwise add / sub *)
Lemma srdhm_abs_le x q X : in32 x -> 0 <= q <= 2147483647 -> - X <= x <= X -> - X <= srdhm32_c x q <= X.
Proof.
  intros Hx Hq HX. assert (Hq32 : in32 q) by (unfold in32; lia).
  destruct (srdhm32_c_bounds' x q Hx Hq32 ltac:(right; lia)) as [H1 H2]. unfold in32 in *. nia.
Qed.

Lemma rdbpot_abs_le x k X : 0 <= k -> - X <= x <= X -> - X <= rdbpot_c x k <= X.
Proof.
  intros Hk HX. destruct (Z.eq_dec k 0) as [->|Hne]; [rewrite rdbpot_c_e0; exact HX|].
  destruct (rdbpot_c_bounds x k ltac:(lia)) as [H1 H2].
  rewrite (pow2_half k ltac:(lia)) in H1, H2. pose proof (pow2_pos (k - 1) ltac:(lia)) as Hp.
  set (p := 2 ^ (k - 1)) in *. nia.
Qed.

Lemma mbqm_right_closed x q sh :
  in32 x -> in32 q -> -31 <= sh <= 0 ->
  MultiplyByQuantizedMultiplier x q sh = rdbpot_c (srdhm32_c x q) (- sh).
Proof.
  intros Hx Hq Hs.
  assert (Hp : in32 (x * 2 ^ Z.max 0 (31 - (31 - sh)))).
  { replace (31 - (31 - sh)) with sh by lia. rewrite Z.max_l by lia. rewrite Z.pow_0_r, Z.mul_1_r. exact Hx. }
  pose proof (scale_tfl_is_reference x q (31 - sh) Hx Hq ltac:(lia) Hp) as E.
  replace (31 - (31 - sh)) with sh in E by lia. rewrite <- E.
  unfold scale_tfl. cbv zeta. replace (31 - (31 - sh)) with sh by lia.
  destruct (Z.ltb_spec 0 sh); [lia|]. rewrite Z.pow_0_r, Z.mul_1_r.
  rewrite srdhm_closed. destruct (Z.ltb_spec sh 0).
  - apply rdbpot_closed. lia.
  - replace sh with 0 by lia. cbn [Z.opp]. rewrite rdbpot_closed by lia. reflexivity.
Qed.

(* the operand that is not scaled: the reference multiplies by 0.5 = (2^30, shift 0) *)
Lemma mbqm_half x : in32 (x * 1048576) -> MultiplyByQuantizedMultiplier (x * 1048576) 1073741824 0 = x * 524288.
Proof.
  intros Hx. rewrite mbqm_right_closed; [|exact Hx|unfold in32; lia|lia].
  cbn [Z.opp]. rewrite rdbpot_c_e0. unfold srdhm32_c.
  destruct ((x * 1048576 =? 1073741824) && (x * 1048576 =? -2147483648)) eqn:E.
  { apply andb_true_iff in E. rewrite !Z.eqb_eq in E. lia. }
  replace (x * 1048576 * 1073741824) with (x * 524288 * 2147483648) by lia.
  destruct (Z.geb_spec (x * 524288 * 2147483648) 0).
  - rewrite Z.quot_div_nonneg by lia. symmetry. apply (Z.div_unique _ _ _ 1073741824); lia.
  - set (y := - (x * 524288)). assert (Hy : 0 < y) by (unfold y; lia).
    replace (x * 524288 * 2147483648 + (1 - 1073741824)) with (- (y * 2147483648 + 1073741823)) by (unfold y; lia).
    rewrite Z.quot_opp_l by lia. rewrite Z.quot_div_nonneg by lia.
    replace (x * 524288) with (- y) by (unfold y; lia). f_equal.
    symmetry. apply (Z.div_unique _ _ _ 1073741823); lia.
Qed.

(* reference AddElementwise / SubElementwise for 8-bit operands (left shift 20): a, b are the operands plus their
   offsets, (q1, sh1) (q2, sh2) (qo, sho) the input and output multipliers of add.cc / sub.cc Prepare; the kernel then
   adds the output offset and clamps, as the hardware semantics does outside ew_value *)
Definition tfl_addsub (sub : bool) (a b q1 sh1 q2 sh2 qo sho : Z) : Z :=
  let sa := MultiplyByQuantizedMultiplier (a * 2 ^ 20) q1 sh1 in
  let sb := MultiplyByQuantizedMultiplier (b * 2 ^ 20) q2 sh2 in
  MultiplyByQuantizedMultiplier (if sub then sa - sb else sa + sb) qo sho.

Lemma wide_is_reference a q s :
  -255 <= a <= 255 -> 0 <= q <= 2147483647 -> 11 <= s <= 42 ->
  scale_tfl (a * 2 ^ 20) q (s + 20) = MultiplyByQuantizedMultiplier (a * 2 ^ 20) q (31 - s - 20) /\
  - (255 * 1048576) <= MultiplyByQuantizedMultiplier (a * 2 ^ 20) q (31 - s - 20) <= 255 * 1048576.
Proof.
  intros Ha Hq Hs. change (2 ^ 20) with 1048576.
  assert (Hx : in32 (a * 1048576)) by (unfold in32; lia).
  assert (Hq32 : in32 q) by (unfold in32; lia).
  split.
  - replace (31 - s - 20) with (31 - (s + 20)) by lia. apply scale_tfl_is_reference; try assumption; try lia.
    rewrite Z.max_l by lia. rewrite Z.pow_0_r, Z.mul_1_r. exact Hx.
  - rewrite mbqm_right_closed by (try assumption; lia).
    apply rdbpot_abs_le; [lia|]. apply srdhm_abs_le; try assumption; lia.
Qed.

Theorem ew_addsub_opa32_is_reference :
  forall mode a b q s opb qo so,
    mode = 1 \/ mode = 2 ->
    -255 <= a <= 255 -> -255 <= b <= 255 -> 0 <= q <= 2147483647 -> 11 <= s <= 42 ->
    in32 qo -> 31 <= so <= 62 ->
    ew_value 1 mode 1 0 true q s opb qo so a b
    = tfl_addsub (mode =? 2) a b q (31 - s - 20) 1073741824 0 qo (31 - so).
Proof.
  intros mode a b q s opb qo so Hm Ha Hb Hq Hs Hqo Hso.
  destruct (wide_is_reference a q s Ha Hq Hs) as [Ew Bw].
  assert (Hbx : in32 (b * 1048576)) by (unfold in32; lia).
  pose proof (mbqm_half b Hbx) as En.
  unfold ew_value, tfl_addsub, ew_input_shift, apply_scale. cbn [Z.eqb Pos.eqb]. cbv zeta.
  change (20 - 1) with 19. change (2 ^ 19) with 524288. change (2 ^ 20) with 1048576 in *.
  rewrite Ew, En. set (sa := MultiplyByQuantizedMultiplier (a * 1048576) q (31 - s - 20)) in *.
  destruct Hm as [-> | ->]; cbn [Z.eqb Pos.eqb].
  - apply scale_tfl_is_reference; try assumption; try lia; [unfold in32; lia|].
    rewrite Z.max_l by lia. rewrite Z.pow_0_r, Z.mul_1_r. unfold in32; lia.
  - apply scale_tfl_is_reference; try assumption; try lia; [unfold in32; lia|].
    rewrite Z.max_l by lia. rewrite Z.pow_0_r, Z.mul_1_r. unfold in32; lia.
Qed.

Theorem ew_addsub_opb32_is_reference :
  forall mode a b q s opb qo so,
    mode = 1 \/ mode = 2 ->
    -255 <= a <= 255 -> -255 <= b <= 255 -> 0 <= q <= 2147483647 -> 11 <= s <= 42 ->
    in32 qo -> 31 <= so <= 62 ->
    ew_value 1 mode 2 0 true q s opb qo so a b
    = tfl_addsub (mode =? 2) a b 1073741824 0 q (31 - s - 20) qo (31 - so).
Proof.
  intros mode a b q s opb qo so Hm Ha Hb Hq Hs Hqo Hso.
  destruct (wide_is_reference b q s Hb Hq Hs) as [Ew Bw].
  assert (Hax : in32 (a * 1048576)) by (unfold in32; lia).
  pose proof (mbqm_half a Hax) as En.
  unfold ew_value, tfl_addsub, ew_input_shift, apply_scale. cbn [Z.eqb Pos.eqb]. cbv zeta.
  change (20 - 1) with 19. change (2 ^ 19) with 524288. change (2 ^ 20) with 1048576 in *.
  rewrite Ew, En. set (sb := MultiplyByQuantizedMultiplier (b * 1048576) q (31 - s - 20)) in *.
  destruct Hm as [-> | ->]; cbn [Z.eqb Pos.eqb].
  - apply scale_tfl_is_reference; try assumption; try lia; [unfold in32; lia|].
    rewrite Z.max_l by lia. rewrite Z.pow_0_r, Z.mul_1_r. unfold in32; lia.
  - apply scale_tfl_is_reference; try assumption; try lia; [unfold in32; lia|].
    rewrite Z.max_l by lia. rewrite Z.pow_0_r, Z.mul_1_r. unfold in32; lia.
Qed.

(* mul: the product of the two operands scaled by the output pair *)
Theorem ew_mul_is_reference :
  forall smode a b opa opash opb qo so,
    -255 <= a <= 255 -> -255 <= b <= 255 -> in32 qo -> 0 <= so <= 62 ->
    in32 (a * b * 2 ^ Z.max 0 (31 - so)) ->
    ew_value 1 0 smode 0 true opa opash opb qo so a b = MultiplyByQuantizedMultiplier (a * b) qo (31 - so).
Proof.
  intros smode a b opa opash opb qo so Ha Hb Hqo Hso Hp.
  unfold ew_value, apply_scale. cbn [Z.eqb]. cbv zeta.
  apply scale_tfl_is_reference; try assumption. unfold in32; nia.
Qed.

(* ------------------------------------------------------------------ the table look-up stays inside the LUT footprint *)
(* the byte the executable semantics reads for a table look-up (hw/NpuExec.v activate) lies inside the read footprint
   that the bounds / def-use / hazard validators attribute to the operation (hw/Npu.v op_footprint, lut_read_bytes):
   slot i, 8-bit OFM, any value inside the output type's range *)
Definition lut_read_addr (base i : Z) (signed : bool) (v : Z) : Z := base + i * 256 + (v - (if signed then -128 else 0)).

Lemma lut_read_inside_footprint (base i : Z) (signed : bool) (v : Z) :
  0 <= i <= 7 ->
  (if signed then -128 <= v <= 127 else 0 <= v <= 255) ->
  base + i * 256 <= lut_read_addr base i signed v < base + i * 256 + lut_read_bytes 1 i.
Proof.
  intros Hi Hv. unfold lut_read_addr, lut_read_bytes. cbn [Z.eqb Pos.eqb].
  rewrite Z.min_r by lia. destruct signed; lia.
Qed.

Lemma activate_reads_lut_read_addr x m r v i :
  lut_index r = Some i ->
  (prec_elem_ofm (r0 r cmd0_NPU_SET_OFM_PRECISION) =? 4) = false ->
  (prec_elem_ofm (r0 r cmd0_NPU_SET_OFM_PRECISION) =? 2) = false ->
  activate x m r v = rd8 (get_bank m SHRAM) (lut_read_addr (x_lut_addr x) i (ofm_signed r) v).
Proof. intros H H8 H16. unfold activate, lut_read_addr. rewrite H, H8, H16. reflexivity. Qed.

(* the 32-bit table (softmax): the four bytes read lie inside the 1024-byte read footprint of a 32-bit OFM *)
Lemma lut32_read_inside_footprint (base i v : Z) :
  0 <= i <= 4 -> -128 <= v <= 127 ->
  base + i * 256 <= base + i * 256 + 4 * (v + 128) /\
  base + i * 256 + 4 * (v + 128) + 4 <= base + i * 256 + lut_read_bytes 4 i.
Proof.
  intros Hi Hv. unfold lut_read_bytes. cbn [Z.eqb Pos.eqb].
  rewrite Z.min_r by lia. lia.
Qed.


(* ------------------------------------------------------------------ the 32-bit helper operations *)
Lemma clz32_spec a : 0 < a < 2 ^ 31 -> 0 <= clz32 a <= 31 /\ 2 ^ (31 - clz32 a) <= a < 2 ^ (32 - clz32 a).
Proof.
  intros [Hp Hl]. unfold clz32.
  destruct (Z.ltb_spec a 0); [lia|]. destruct (Z.eqb_spec a 0); [lia|].
  pose proof (Z.log2_spec a Hp) as [Hlo Hhi].
  assert (Hlog : 0 <= Z.log2 a < 31).
  { split; [apply Z.log2_nonneg|]. apply Z.log2_lt_pow2; lia. }
  replace (31 - (32 - Z.log2 a - 1)) with (Z.log2 a) by lia.
  replace (32 - (32 - Z.log2 a - 1)) with (Z.succ (Z.log2 a)) by lia.
  split; [lia | split; assumption].
Qed.

Lemma clz32_edges : clz32 0 = 32 /\ (forall a, a < 0 -> clz32 a = 0).
Proof.
  split; [reflexivity|]. intros a Ha. unfold clz32. destruct (Z.ltb_spec a 0); [reflexivity | lia].
Qed.

Lemma sat32_in_range v : - 2147483648 <= sat32 4 v <= 2147483647.
Proof. unfold sat32, clampz. cbn [Z.eqb Pos.eqb]. lia. Qed.

Lemma sat32_id ofm_elem v : - 2147483648 <= v <= 2147483647 -> sat32 ofm_elem v = v.
Proof. intros H. unfold sat32, clampz. destruct (ofm_elem =? 4); lia. Qed.

(* SHR in NATURAL mode rounds half up: the result is the nearest integer to a / 2^b *)
Lemma shr_round_natural a b : 0 < b -> let q := shr_round 2 a b in 2 ^ b * q - 2 ^ (b - 1) <= a < 2 ^ b * q + 2 ^ (b - 1).
Proof.
  intros Hb q. unfold q, shr_round. destruct (Z.leb_spec b 0); [lia|]. cbn [Z.eqb Pos.eqb].
  assert (Hpos : 0 < 2 ^ b) by (apply Z.pow_pos_nonneg; lia).
  assert (Hhalf : 2 ^ b = 2 * 2 ^ (b - 1)).
  { replace b with (Z.succ (b - 1)) at 1 by lia. rewrite Z.pow_succ_r by lia. reflexivity. }
  pose proof (Z.div_mod (a + 2 ^ (b - 1)) (2 ^ b) ltac:(lia)) as Hdm.
  pose proof (Z.mod_pos_bound (a + 2 ^ (b - 1)) (2 ^ b) Hpos) as Hm.
  lia.
Qed.

(* the table Vela builds for ARG_MAX (every entry slope -128, base c - 1) turns the lower seven bits of the value - the
   reversed channel index that the preceding convolution added - back into the channel index *)
Lemma lut16_interp_argmax c u :
  0 <= c - 1 <= 127 -> 0 <= u ->
  lut16_interp ((-128 mod 65536) * 65536 + (c - 1)) u = c - 1 - u mod 128.
Proof.
  intros Hc Hu. unfold lut16_interp.
  replace (-128 mod 65536) with 65408 by reflexivity.
  replace ((65408 * 65536 + (c - 1)) mod 65536) with (c - 1)
    by (rewrite Z.add_comm, Z.mod_add by lia; symmetry; apply Z.mod_small; lia).
  replace ((65408 * 65536 + (c - 1)) / 65536) with 65408
    by (rewrite Z.add_comm, Z.div_add by lia; rewrite (Z.div_small (c - 1) 65536) by lia; reflexivity).
  assert (Hb : to_signed 16 (c - 1) = c - 1).
  { unfold to_signed. change (2 ^ (16 - 1)) with 32768. destruct (Z.ltb_spec (c - 1) 32768); [reflexivity | lia]. }
  assert (Hs : to_signed 16 65408 = -128) by reflexivity.
  rewrite Hb, Hs.
  pose proof (Z.mod_pos_bound u 128 ltac:(lia)) as Hm.
  set (f := u mod 128) in *.
  assert (Hd : (-128 * f + 64) / 128 = - f).
  { symmetry. apply (Z.div_unique (-128 * f + 64) 128 (- f) 64); lia. }
  rewrite Hd. unfold clampz. lia.
Qed.
