(* C01 -- the scaling step of the executable hardware semantics (hw/NpuExec.v) is the TFLite / gemmlowp
   reference MultiplyByQuantizedMultiplier (model/FpMath.v, the object the C19 development proves fp_math.py
   equal to), for every accumulator, multiplier and shift the hardware fields can hold. *)
From Coq Require Import ZArith List Bool Lia.
From VV Require Import lib.PyInt lib.Bits model.FpMath proofs.FpMathProofs hw.Npu hw.NpuExec.
Open Scope Z_scope.

Lemma srdhm_closed a b : srdhm a b = srdhm32_c a b.
Proof.
  unfold srdhm, srdhm32_c. destruct ((a =? b) && (a =? -2147483648)); [reflexivity|]. cbv zeta.
  rewrite Z.geb_leb. reflexivity.
Qed.

Lemma rdbpot_closed x e : 0 <= e -> rdbpot x e = rdbpot_c x e.
Proof.
  intros He. unfold rdbpot. destruct (Z.leb_spec e 0).
  - replace e with 0 by lia. symmetry. apply rdbpot_c_e0.
  - cbv zeta. unfold rdbpot_c. rewrite land_ones_mod by lia. rewrite !shiftr_div by lia. change (2 ^ 1) with 2.
    rewrite Z.gtb_ltb. reflexivity.
Qed.

Theorem scale_tfl_is_reference x q s :
  in32 x -> in32 q -> 0 <= s <= 62 -> in32 (x * 2 ^ (Z.max 0 (31 - s))) ->
  scale_tfl x q s = MultiplyByQuantizedMultiplier x q (31 - s).
Proof.
  intros Hx Hq Hs Hp. unfold scale_tfl, MultiplyByQuantizedMultiplier. cbv zeta.
  rewrite srdhm_closed.
  destruct (Z.gtb_spec (31 - s) 0) as [Hl|Hl].
  - destruct (Z.ltb_spec 0 (31 - s)); [|lia]. destruct (Z.ltb_spec (31 - s) 0); [lia|].
    rewrite Z.max_r in Hp by lia. rewrite shiftl_1 by lia.
    rewrite rdbpot_closed by lia.
    assert (Hc : cast32 (x * cast32 (2 ^ (31 - s))) = x * 2 ^ (31 - s)).
    { destruct (Z.eq_dec (31 - s) 31) as [E|N].
      - rewrite E in *. change (2 ^ 31) with 2147483648 in *. unfold in32 in *.
        assert (x = 0 \/ x = -1) as [->| ->] by lia; reflexivity.
      - pose proof (pow2_le_30 (31 - s) ltac:(lia)).
        rewrite (cast32_id (2 ^ (31 - s))) by (unfold in32; lia). apply cast32_id. exact Hp. }
    rewrite Hc. rewrite SRDHM32_closed by assumption.
    rewrite RDBPOT_closed; [reflexivity| apply srdhm32_c_in32; assumption | lia].
  - destruct (Z.ltb_spec 0 (31 - s)); [lia|].
    rewrite Z.max_l in Hp by lia. change (2 ^ 0) with 1 in *. rewrite Z.mul_1_r in *.
    change (Z.shiftl 1 0) with 1. change (cast32 1) with 1. rewrite Z.mul_1_r.
    rewrite (cast32_id x Hx). rewrite SRDHM32_closed by assumption.
    pose proof (srdhm32_c_in32 x q Hx Hq) as R.
    destruct (Z.ltb_spec (31 - s) 0).
    + rewrite rdbpot_closed by lia. rewrite RDBPOT_closed; [reflexivity|exact R|lia].
    + replace (- (31 - s)) with 0 by lia. rewrite rdbpot_closed by lia.
      rewrite RDBPOT_closed; [reflexivity|exact R|lia].
Qed.

(* the TFL scaling mode with a multiplier of 2^31 (which quantise_scale produced before the repair c949748)
   is NOT the reference with the renormalised pair (2^30, shift - 1): the double rounding differs *)
Theorem scale_tfl_unrenormalised_differs :
  scale_tfl 31 (2 ^ 31) 37 = 0 /\ MultiplyByQuantizedMultiplier 31 (2 ^ 30) (31 - 36) = 1.
Proof. split; vm_compute; reflexivity. Qed.
