(* C06 -- proofs about model/Emit.v: elision is transparent for every call history, masking is the
   identity exactly on the field range, derived fields of legal operations fit and decode back,
   the framing of generate_command_stream is well formed, the check_* guards are the alignment rules. *)
From Coq Require Import ZArith List Bool Lia.
From VV Require Import lib.PyInt lib.Bits gen.GenTables gen.GenEmitTables hw.Npu model.Emit.
Import ListNotations.
Open Scope Z_scope.

(* ------------------------------------------------------------------ masks and command words *)
Lemma land16 p : Z.land p 65535 = p mod 65536.
Proof. change 65535 with (2 ^ 16 - 1). change 65536 with (2 ^ 16). apply land_ones_mod. lia. Qed.
Lemma land32 p : Z.land p 4294967295 = p mod 4294967296.
Proof. change 4294967295 with (2 ^ 32 - 1). change 4294967296 with (2 ^ 32). apply land_ones_mod. lia. Qed.
Lemma shiftr32 a : Z.shiftr a 32 = a / 4294967296.
Proof. change 4294967296 with (2 ^ 32). apply shiftr_div. lia. Qed.

Lemma mod16_range p : 0 <= p mod 65536 < 65536.
Proof. apply Z.mod_pos_bound. lia. Qed.
Lemma mod32_range p : 0 <= p mod 4294967296 < 4294967296.
Proof. apply Z.mod_pos_bound. lia. Qed.

Lemma word0 code param :
  0 <= code < 1024 -> 0 <= param < 65536 -> Z.lor code (Z.shiftl param 16) = code + param * 65536.
Proof.
  intros Hc Hp. change 65536 with (2 ^ 16). apply lor_shiftl_add; [lia|].
  change (2 ^ 16) with 65536. lia.
Qed.

Lemma word0' code param :
  0 <= code < 1024 -> 0 <= param < 65536 -> Z.lor (Z.shiftl param 16) code = code + param * 65536.
Proof. intros. rewrite Z.lor_comm. apply word0; assumption. Qed.

Lemma word1 code param :
  0 <= code < 1024 -> 0 <= param < 65536 ->
  Z.lor (Z.lor code emit_payload32) (Z.shiftl param 16) = code + 16384 + param * 65536.
Proof.
  intros Hc Hp. unfold emit_payload32.
  assert (H1 : Z.lor code 16384 = code + 16384).
  { change 16384 with (Z.shiftl 1 14) at 1. rewrite lor_shiftl_add; [reflexivity|lia|].
    change (2 ^ 14) with 16384. lia. }
  rewrite H1. change 65536 with (2 ^ 16). apply lor_shiftl_add; [lia|].
  change (2 ^ 16) with 65536. lia.
Qed.

Lemma fields0 code param :
  0 <= code < 1024 -> 0 <= param < 65536 ->
  w_code (code + param * 65536) = code /\ w_resv (code + param * 65536) = 0 /\
  w_mode (code + param * 65536) = 0 /\ w_param (code + param * 65536) = param.
Proof.
  intros Hc Hp. unfold w_code, w_resv, w_mode, w_param. repeat split; Z.div_mod_to_equations; lia.
Qed.

Lemma fields1 code param :
  0 <= code < 1024 -> 0 <= param < 65536 ->
  w_code (code + 16384 + param * 65536) = code /\ w_resv (code + 16384 + param * 65536) = 0 /\
  w_mode (code + 16384 + param * 65536) = 1 /\ w_param (code + 16384 + param * 65536) = param.
Proof.
  intros Hc Hp. unfold w_code, w_resv, w_mode, w_param. repeat split; Z.div_mod_to_equations; lia.
Qed.

(* ------------------------------------------------------------------ decoder, one command at a time *)
Definition opt_app (cmds : list cmd) (o : option (list cmd)) : option (list cmd) :=
  match o with Some cs => Some (cmds ++ cs) | None => None end.

Lemma decode_word0 code param rest :
  0 <= code < 1024 -> 0 <= param < 65536 ->
  decode ((code + param * 65536) :: rest) = opt_app [Cmd false code param 0] (decode rest).
Proof.
  intros Hc Hp. destruct (fields0 code param Hc Hp) as (H1 & H2 & H3 & H4).
  cbn [decode]. rewrite H1, H2, H3, H4. cbn. destruct (decode rest); reflexivity.
Qed.

Lemma decode_word1 code param d rest :
  0 <= code < 1024 -> 0 <= param < 65536 ->
  decode ((code + 16384 + param * 65536) :: d :: rest) = opt_app [Cmd true code param d] (decode rest).
Proof.
  intros Hc Hp. destruct (fields1 code param Hc Hp) as (H1 & H2 & H3 & H4).
  cbn [decode]. rewrite H1, H2, H3, H4. cbn. destruct (decode rest); reflexivity.
Qed.

Lemma exec_write0 r code param t :
  256 <= code -> exec r (Cmd false code param 0 :: t) = exec (rset code param r) t.
Proof.
  intros H. cbn [exec c_pay c_code c_param c_data].
  destruct (Z.leb_spec 256 code); [reflexivity | lia].
Qed.

Lemma exec_write1 r code param d t :
  exec r (Cmd true code param d :: t) = exec (rset (1024 + code) (d + param * 4294967296) r) t.
Proof. reflexivity. Qed.

Lemma exec_op r code param t :
  code < 256 -> exec r (Cmd false code param 0 :: t) = classify code param r :: exec r t.
Proof.
  intros H. cbn [exec c_pay c_code c_param c_data].
  destruct (Z.leb_spec 256 code); [lia|]. unfold classify.
  destruct (is_block_op code || (code =? cmd0_NPU_OP_DMA_START)); [reflexivity|].
  destruct ((code =? cmd0_NPU_OP_KERNEL_WAIT) || (code =? cmd0_NPU_OP_DMA_WAIT)); [reflexivity|].
  destruct (code =? cmd0_NPU_OP_STOP); reflexivity.
Qed.

(* ------------------------------------------------------------------ register files as association lists *)
Fixpoint rfind (k : Z) (r : regs) : option Z :=
  match r with [] => None | (k', v) :: t => if k' =? k then Some v else rfind k t end.

Lemma rget_rfind k r : rget k r = match rfind k r with Some v => v | None => 0 end.
Proof. induction r as [|[k' v] t IH]; cbn; [reflexivity|]. destruct (k' =? k); [reflexivity|exact IH]. Qed.

Lemma rset_same k v r : rfind k r = Some v -> rset k v r = r.
Proof.
  induction r as [|[k' v'] t IH]; cbn; [discriminate|].
  destruct (Z.eqb_spec k' k) as [->|Hne]; intros H.
  - injection H as ->. reflexivity.
  - rewrite IH by exact H. reflexivity.
Qed.

Lemma rfind_rset_eq k v r : rfind k (rset k v r) = Some v.
Proof.
  induction r as [|[k' v'] t IH]; cbn.
  - rewrite Z.eqb_refl. reflexivity.
  - destruct (Z.eqb_spec k' k) as [->|Hne]; cbn.
    + rewrite Z.eqb_refl. reflexivity.
    + destruct (Z.eqb_spec k' k); [contradiction|exact IH].
Qed.

Lemma rfind_rset_neq k k' v r : k <> k' -> rfind k' (rset k v r) = rfind k' r.
Proof.
  intros Hne. induction r as [|[k0 v0] t IH]; cbn.
  - destruct (Z.eqb_spec k k'); [contradiction|reflexivity].
  - destruct (Z.eqb_spec k0 k) as [->|H0]; cbn.
    + destruct (Z.eqb_spec k k'); [contradiction|reflexivity].
    + destruct (Z.eqb_spec k0 k'); [reflexivity|exact IH].
Qed.

Lemma rget_rset k k' v r : rget k' (rset k v r) = if k =? k' then v else rget k' r.
Proof.
  rewrite !rget_rfind. destruct (Z.eqb_spec k k') as [->|Hne].
  - rewrite rfind_rset_eq. reflexivity.
  - rewrite rfind_rset_neq by exact Hne. reflexivity.
Qed.

(* ------------------------------------------------------------------ emitter register maps *)
Lemma rkey_eqb_spec a b : reflect (a = b) (rkey_eqb a b).
Proof.
  destruct a as [x|x], b as [y|y]; cbn; try (constructor; discriminate);
    destruct (Z.eqb_spec x y) as [->|Hne]; constructor; try reflexivity; intros H; injection H; exact Hne.
Qed.

Lemma rm_get_put_eq k v m : rm_get k (rm_put k v m) = Some v.
Proof.
  induction m as [|[k' v'] t IH]; cbn.
  - destruct (rkey_eqb_spec k k); [reflexivity|contradiction].
  - destruct (rkey_eqb_spec k' k) as [->|Hne]; cbn.
    + destruct (rkey_eqb_spec k k); [reflexivity|contradiction].
    + destruct (rkey_eqb_spec k' k); [contradiction|exact IH].
Qed.

Lemma rm_get_put_neq k k' v m : k <> k' -> rm_get k' (rm_put k v m) = rm_get k' m.
Proof.
  intros Hne. induction m as [|[k0 v0] t IH]; cbn.
  - destruct (rkey_eqb_spec k k'); [contradiction|reflexivity].
  - destruct (rkey_eqb_spec k0 k) as [->|H0]; cbn.
    + destruct (rkey_eqb_spec k k'); [contradiction|reflexivity].
    + destruct (rkey_eqb_spec k0 k'); [reflexivity|exact IH].
Qed.

Lemma rval_eqb_eq a b : rval_eqb a b = true -> a = b.
Proof.
  destruct a, b. unfold rval_eqb. cbn. intros H. apply andb_prop in H as [H1 H2].
  apply Z.eqb_eq in H1, H2. subst. reflexivity.
Qed.

(* ------------------------------------------------------------------ the invariant *)
Definition zkey (k : rkey) : Z := match k with K0 c => c | K1 c => 1024 + c end.
Definition key_ok (k : rkey) : Prop := match k with K0 c => 256 <= c < 1024 | K1 c => 0 <= c < 1024 end.
(* the value the decoder stores when it sees the words kept in the emitter's register *)
Definition dec_val (k : rkey) (v : rval) : Z :=
  match k with K0 _ => w_param (fst v) | K1 _ => snd v + w_param (fst v) * 4294967296 end.

Lemma zkey_inj k k' : key_ok k -> key_ok k' -> zkey k = zkey k' -> k = k'.
Proof. destruct k, k'; unfold zkey, key_ok; intros; try (exfalso; lia); f_equal; lia. Qed.

Section Invariant.
  Variable d0 d1 : Z -> bool.
  Definition sel (k : rkey) : bool := match k with K0 c => d0 c | K1 c => d1 c end.

  Definition bank_inv (b : bool) (rm : regmachine) (r : regs) : Prop :=
    rm_idx rm = 0 /\ (exists m, rm_banks rm = [m]) /\
    forall k v, rm_get k (cur_bank rm) = Some v ->
                key_ok k /\ sel k = b /\ rfind (zkey k) r = Some (dec_val k v).

  Definition inv (s : est) (r : regs) : Prop := bank_inv false (e_rm0 s) r /\ bank_inv true (e_rm1 s) r.

  Lemma inv_sel s r b : inv s r -> bank_inv b (sel_machine s b) r.
  Proof. intros [H0 H1]. destruct b; assumption. Qed.

  Lemma inv_init : inv est_init [].
  Proof.
    split; (split; [reflexivity|split; [exists []; reflexivity|]]); intros k v H; cbn in H; discriminate.
  Qed.

  Lemma inv_bump s r n : inv s r -> inv (bump s n) r.
  Proof. intros H. exact H. Qed.

  (* writing register k (value v) through set_register: afterwards the invariant holds against the
     decoder state in which the write HAS been applied; and when the emitter elides the write,
     applying it does not change the decoder state *)
  Lemma inv_set s r k v rm changed :
    inv s r -> key_ok k ->
    set_register (sel_machine s (sel k)) k v = (rm, changed) ->
    inv (upd_machine s (sel k) rm) (rset (zkey k) (dec_val k v) r) /\
    (changed = false -> rset (zkey k) (dec_val k v) r = r).
  Proof.
    intros Hinv Hk Hset.
    pose proof (inv_sel s r (sel k) Hinv) as (Hidx & (m & Hm) & Hb).
    unfold set_register in Hset. injection Hset as Hrm Hch.
    assert (Hcur : cur_bank (sel_machine s (sel k)) = m).
    { unfold cur_bank. rewrite Hidx, Hm. reflexivity. }
    rewrite Hcur in *.
    assert (Hsame : changed = false -> rset (zkey k) (dec_val k v) r = r).
    { intros ->. destruct (rm_get k m) as [old|] eqn:Hg; [|discriminate].
      apply negb_false_iff in Hch. apply rval_eqb_eq in Hch. subst old.
      apply rset_same. destruct (Hb k v) as (_ & _ & H); [exact Hg|exact H]. }
    split; [|exact Hsame].
    (* the updated machine *)
    assert (Hnew : bank_inv (sel k) rm (rset (zkey k) (dec_val k v) r)).
    { subst rm. split; [exact Hidx|]. split.
      - cbn [rm_banks]. rewrite Hidx, Hm. exists (rm_put k v m). reflexivity.
      - intros k' v'. unfold cur_bank. cbn [rm_banks rm_idx]. rewrite Hidx, Hm. cbn [Z.to_nat set_nth nth].
        destruct (rkey_eqb_spec k k') as [<-|Hne].
        + rewrite rm_get_put_eq. intros H. injection H as <-.
          split; [exact Hk|]. split; [reflexivity|]. apply rfind_rset_eq.
        + rewrite rm_get_put_neq by exact Hne. intros H.
          destruct (Hb k' v') as (Hk' & Hs' & Hf'); [exact H|].
          split; [exact Hk'|]. split; [exact Hs'|].
          rewrite rfind_rset_neq; [exact Hf'|].
          intros Heq. apply Hne. apply zkey_inj; assumption. }
    (* the other machine is untouched; its keys are different keys *)
    assert (Hother : forall b', b' <> sel k -> bank_inv b' (sel_machine s b') r ->
                                bank_inv b' (sel_machine s b') (rset (zkey k) (dec_val k v) r)).
    { intros b' Hb' (Hi & Hm' & Hf). split; [exact Hi|]. split; [exact Hm'|].
      intros k' v' H. destruct (Hf k' v' H) as (Hk' & Hs' & Hf').
      split; [exact Hk'|]. split; [exact Hs'|].
      rewrite rfind_rset_neq; [exact Hf'|].
      intros Heq. apply Hb'. rewrite <- Hs'. f_equal. symmetry. apply zkey_inj; assumption. }
    destruct Hinv as [H0 H1]. unfold inv, upd_machine.
    destruct (sel k) eqn:Hs; cbn [e_rm0 e_rm1]; split.
    - apply (Hother false); [discriminate|exact H0].
    - exact Hnew.
    - exact Hnew.
    - apply (Hother true); [discriminate|exact H1].
  Qed.

  Lemma switch_bank_inv b rm r : bank_inv b rm r -> bank_inv b (switch_bank rm) r.
  Proof.
    intros (Hi & Hm & Hf). unfold switch_bank, bank_inv, cur_bank in *. cbn [rm_idx rm_banks].
    rewrite Hi in *. change ((0 + 1) mod n_banks) with 0.
    split; [reflexivity|]. split; [exact Hm|]. exact Hf.
  Qed.

  Lemma inv_switch s r b : inv s r -> inv (upd_machine s b (switch_bank (sel_machine s b))) r.
  Proof.
    intros [H0 H1]. unfold inv, upd_machine, sel_machine.
    destruct b; cbn [e_rm0 e_rm1]; split; auto using switch_bank_inv.
  Qed.

  (* ---------------------------------------------------------------- one call *)
  Lemma step_correct s r c s' ws :
    inv s r -> call_ok c -> emit_gen d0 d1 s c = (s', ws) ->
    inv s' (step_regs r c) /\
    exists cmds,
      (forall rest, decode (ws ++ rest) = opt_app cmds (decode rest)) /\
      (forall t, exec r (cmds ++ t) = step_events r c ++ exec (step_regs r c) t).
  Proof.
    intros Hinv Hok Hem. destruct c as [code p|code off p|code a|code ch cnt|code p]; cbn [call_ok] in Hok.
    - (* cmd0_with_param *)
      cbn [emit_gen] in Hem. unfold emit_cmd0 in Hem.
      rewrite land16 in Hem. pose proof (mod16_range p) as Hp.
      rewrite word0 in Hem by lia.
      destruct (set_register _ _ _) as [rm changed] eqn:Hset.
      destruct (inv_set s r (K0 code) _ rm changed Hinv ltac:(cbn; lia) Hset) as [Hi Hsame].
      assert (Hdv : dec_val (K0 code) (code + p mod 65536 * 65536, p mod 65536) = p mod 65536).
      { cbn [dec_val fst]. apply (fields0 code (p mod 65536)); lia. }
      rewrite Hdv in *. cbn [zkey] in *.
      unfold step_regs, step_events. cbn [write_of op_of].
      destruct changed; injection Hem as <- <-.
      + split; [apply inv_bump; exact Hi|].
        exists [Cmd false code (p mod 65536) 0]. split.
        * intros rest. cbn [app]. apply decode_word0; lia.
        * intros t. cbn [app]. apply exec_write0. lia.
      + split; [rewrite Hsame by reflexivity; rewrite Hsame in Hi by reflexivity; exact Hi|].
        exists []. split; [intros rest; cbn; destruct (decode rest); reflexivity|].
        intros t. cbn [app]. rewrite Hsame by reflexivity. reflexivity.
    - (* cmd1_with_offset *)
      cbn [emit_gen] in Hem. unfold emit_cmd1 in Hem.
      rewrite land16, land32 in Hem. pose proof (mod16_range p) as Hp. pose proof (mod32_range off) as Ho.
      rewrite word1 in Hem by lia.
      destruct (set_register _ _ _) as [rm changed] eqn:Hset.
      destruct (inv_set s r (K1 code) _ rm changed Hinv ltac:(cbn; lia) Hset) as [Hi Hsame].
      assert (Hdv : dec_val (K1 code) (code + 16384 + p mod 65536 * 65536, off mod 4294967296) =
                    off mod 4294967296 + p mod 65536 * 4294967296).
      { cbn [dec_val fst snd]. f_equal. f_equal. apply (fields1 code (p mod 65536)); lia. }
      rewrite Hdv in *. cbn [zkey] in *.
      unfold step_regs, step_events. cbn [write_of op_of].
      destruct changed; injection Hem as <- <-.
      + split; [apply inv_bump; exact Hi|].
        exists [Cmd true code (p mod 65536) (off mod 4294967296)]. split.
        * intros rest. cbn [app]. apply decode_word1; lia.
        * intros t. cbn [app]. apply exec_write1.
      + split; [rewrite Hsame by reflexivity; rewrite Hsame in Hi by reflexivity; exact Hi|].
        exists []. split; [intros rest; cbn; destruct (decode rest); reflexivity|].
        intros t. cbn [app]. rewrite Hsame by reflexivity. reflexivity.
    - (* cmd1_with_address *)
      cbn [emit_gen] in Hem. unfold emit_cmd1 in Hem.
      rewrite land16, land32, shiftr32 in Hem.
      pose proof (mod16_range (a / 4294967296)) as Hp. pose proof (mod32_range a) as Ho.
      rewrite word1 in Hem by lia.
      destruct (set_register _ _ _) as [rm changed] eqn:Hset.
      destruct (inv_set s r (K1 code) _ rm changed Hinv ltac:(cbn; lia) Hset) as [Hi Hsame].
      assert (Hdv : dec_val (K1 code) (code + 16384 + (a / 4294967296) mod 65536 * 65536, a mod 4294967296) =
                    a mod 4294967296 + (a / 4294967296) mod 65536 * 4294967296).
      { cbn [dec_val fst snd]. f_equal. f_equal. apply (fields1 code ((a / 4294967296) mod 65536)); lia. }
      rewrite Hdv in *. cbn [zkey] in *.
      unfold step_regs, step_events. cbn [write_of op_of].
      destruct changed; injection Hem as <- <-.
      + split; [apply inv_bump; exact Hi|].
        exists [Cmd true code ((a / 4294967296) mod 65536) (a mod 4294967296)]. split.
        * intros rest. cbn [app]. apply decode_word1; lia.
        * intros t. cbn [app]. apply exec_write1.
      + split; [rewrite Hsame by reflexivity; rewrite Hsame in Hi by reflexivity; exact Hi|].
        exists []. split; [intros rest; cbn; destruct (decode rest); reflexivity|].
        intros t. cbn [app]. rewrite Hsame by reflexivity. reflexivity.
    - (* cmd_wait *)
      cbn [emit_gen] in Hem. rewrite land16 in Hem. pose proof (mod16_range (16 * ch + cnt)) as Hp.
      rewrite word0' in Hem by lia. injection Hem as <- <-.
      unfold step_regs, step_events. cbn [write_of op_of].
      split; [apply inv_bump; exact Hinv|].
      exists [Cmd false code ((16 * ch + cnt) mod 65536) 0]. split.
      + intros rest. cbn [app]. apply decode_word0; lia.
      + intros t. cbn [app]. apply exec_op. lia.
    - (* cmd_do_operation *)
      cbn [emit_gen] in Hem. rewrite land16 in Hem. pose proof (mod16_range p) as Hp.
      rewrite word0' in Hem by lia. injection Hem as <- <-.
      unfold step_regs, step_events. cbn [write_of op_of].
      split; [apply inv_switch; apply inv_bump; exact Hinv|].
      exists [Cmd false code (p mod 65536) 0]. split.
      + intros rest. cbn [app]. apply decode_word0; lia.
      + intros t. cbn [app]. apply exec_op. lia.
  Qed.

  (* ---------------------------------------------------------------- every call sequence *)
  Lemma run_correct cs : forall s r,
    inv s r -> Forall call_ok cs ->
    exists cmds, decode (snd (emit_all_gen d0 d1 s cs)) = Some cmds /\ exec r cmds = ref_events r cs.
  Proof.
    induction cs as [|c t IH]; intros s r Hinv Hok.
    - exists []. split; reflexivity.
    - inversion Hok as [|? ? Hc Ht]; subst.
      cbn [emit_all_gen]. destruct (emit_gen d0 d1 s c) as [s1 w1] eqn:H1.
      destruct (emit_all_gen d0 d1 s1 t) as [s2 w2] eqn:H2.
      destruct (step_correct s r c s1 w1 Hinv Hc H1) as (Hi1 & cmds1 & Hdec & Hex).
      destruct (IH s1 (step_regs r c) Hi1 Ht) as (cmds2 & Hd2 & He2).
      rewrite H2 in Hd2. cbn [snd] in *.
      exists (cmds1 ++ cmds2). split.
      + rewrite Hdec, Hd2. reflexivity.
      + rewrite Hex, He2. reflexivity.
  Qed.
End Invariant.

(* the plain (never eliding) emitter decodes to the same reference events *)
Lemma plain_step r c :
  call_ok c ->
  exists cmds,
    (forall rest, decode (emit_plain c ++ rest) = opt_app cmds (decode rest)) /\
    (forall t, exec r (cmds ++ t) = step_events r c ++ exec (step_regs r c) t).
Proof.
  intros Hok. destruct c as [code p|code off p|code a|code ch cnt|code p]; cbn [call_ok] in Hok;
    cbn [emit_plain]; unfold step_regs, step_events; cbn [write_of op_of].
  - rewrite land16. pose proof (mod16_range p). rewrite word0 by lia.
    exists [Cmd false code (p mod 65536) 0]. split; intros; cbn [app]; [apply decode_word0; lia|apply exec_write0; lia].
  - rewrite land16, land32. pose proof (mod16_range p). rewrite word1 by lia.
    exists [Cmd true code (p mod 65536) (off mod 4294967296)].
    split; intros; cbn [app]; [apply decode_word1; lia|apply exec_write1].
  - rewrite land16, land32, shiftr32. pose proof (mod16_range (a / 4294967296)). rewrite word1 by lia.
    exists [Cmd true code ((a / 4294967296) mod 65536) (a mod 4294967296)].
    split; intros; cbn [app]; [apply decode_word1; lia|apply exec_write1].
  - rewrite land16. pose proof (mod16_range (16 * ch + cnt)). rewrite word0' by lia.
    exists [Cmd false code ((16 * ch + cnt) mod 65536) 0].
    split; intros; cbn [app]; [apply decode_word0; lia|apply exec_op; lia].
  - rewrite land16. pose proof (mod16_range p). rewrite word0' by lia.
    exists [Cmd false code (p mod 65536) 0].
    split; intros; cbn [app]; [apply decode_word0; lia|apply exec_op; lia].
Qed.

Lemma plain_correct cs : forall r,
  Forall call_ok cs ->
  exists cmds, decode (emitted_plain cs) = Some cmds /\ exec r cmds = ref_events r cs.
Proof.
  induction cs as [|c t IH]; intros r Hok.
  - exists []. split; reflexivity.
  - inversion Hok as [|? ? Hc Ht]; subst.
    destruct (plain_step r c Hc) as (cmds1 & Hdec & Hex).
    destruct (IH (step_regs r c) Ht) as (cmds2 & Hd2 & He2).
    exists (cmds1 ++ cmds2). unfold emitted_plain in *. cbn [flat_map]. split.
    + rewrite Hdec, Hd2. reflexivity.
    + rewrite Hex, He2. reflexivity.
Qed.

(* ------------------------------------------------------------------ elision_transparent *)
Lemma elision_transparent_generic (d0 d1 : Z -> bool) cs :
  Forall call_ok cs ->
  run_stream (snd (emit_all_gen d0 d1 est_init cs)) = Some (ref_events [] cs).
Proof.
  intros Hok. destruct (run_correct d0 d1 cs est_init [] (inv_init d0 d1) Hok) as (cmds & Hd & He).
  unfold run_stream. rewrite Hd, He. reflexivity.
Qed.

Lemma elision_transparent_lemma cs :
  Forall call_ok cs ->
  run_stream (emitted cs) = Some (ref_events [] cs) /\
  run_stream (emitted_plain cs) = Some (ref_events [] cs).
Proof.
  intros Hok. split.
  - apply elision_transparent_generic. exact Hok.
  - destruct (plain_correct cs [] Hok) as (cmds & Hd & He). unfold run_stream. rewrite Hd, He. reflexivity.
Qed.

(* the snapshots of the reference are the last written values, key by key *)
Lemma rget_regs_after k cs : forall r, rget k (regs_after r cs) = last_written k cs (rget k r).
Proof.
  induction cs as [|c t IH]; intros r; [reflexivity|].
  unfold regs_after in *. cbn [fold_left last_written]. rewrite IH. unfold step_regs.
  destruct (write_of c) as [[k' v]|]; [|reflexivity].
  rewrite rget_rset. destruct (k' =? k); reflexivity.
Qed.

Lemma ref_events_app r pre post :
  ref_events r (pre ++ post) = ref_events r pre ++ ref_events (regs_after r pre) post.
Proof.
  revert r. induction pre as [|c t IH]; intros r; [reflexivity|].
  cbn [app ref_events]. rewrite IH. rewrite <- app_assoc. reflexivity.
Qed.

Lemma ref_events_length r cs : List.length (ref_events r cs) = count_ops cs.
Proof.
  revert r. induction cs as [|c t IH]; intros r; [reflexivity|].
  cbn [ref_events]. rewrite app_length, IH. unfold count_ops, step_events. cbn [filter].
  destruct (op_of c) as [[? ?]|]; reflexivity.
Qed.

(* at EVERY operation command the decoded register file holds, on every key, the last value written
   by the calls before it (all writes counted, elided or not) *)
Lemma elision_pointwise_lemma pre code p post :
  Forall call_ok (pre ++ DoOp code p :: post) ->
  exists evs1 snap evs2,
    run_stream (emitted (pre ++ DoOp code p :: post)) =
      Some (evs1 ++ classify code (p mod 65536) snap :: evs2) /\
    List.length evs1 = count_ops pre /\
    forall k, rget k snap = last_written k pre 0.
Proof.
  intros Hok. destruct (elision_transparent_lemma _ Hok) as [H _].
  exists (ref_events [] pre), (regs_after [] pre), (ref_events (regs_after [] pre) post).
  split; [|split].
  - rewrite H, ref_events_app. cbn [ref_events step_events op_of step_regs write_of app]. reflexivity.
  - apply ref_events_length.
  - intros k. rewrite rget_regs_after. reflexivity.
Qed.

(* every member of cmd0 / cmd1 is in the opcode range of its class; register opcodes start at 256 *)
Lemma cmd0_table_codes_ok : forallb (fun p => (0 <=? fst p) && (fst p <? 1024)) cmd0_dma_table = true.
Proof. vm_compute. reflexivity. Qed.
Lemma cmd1_table_codes_ok : forallb (fun p => (0 <=? fst p) && (fst p <? 1024)) cmd1_dma_table = true.
Proof. vm_compute. reflexivity. Qed.
Lemma tables_match_opcodes :
  map fst cmd0_dma_table = cmd0_codes /\ map fst cmd1_dma_table = cmd1_codes.
Proof. split; vm_compute; reflexivity. Qed.
(* the split that the emitter makes: exactly the DMA0 registers and DMA_START/DMA_WAIT use machine 1 *)
Lemma dma_split :
  map fst (filter snd cmd0_dma_table) =
    [cmd0_NPU_OP_DMA_START; cmd0_NPU_OP_DMA_WAIT; cmd0_NPU_SET_DMA0_SRC_REGION; cmd0_NPU_SET_DMA0_DST_REGION;
     cmd0_NPU_SET_DMA0_SIZE0; cmd0_NPU_SET_DMA0_SIZE1] /\
  map fst (filter snd cmd1_dma_table) =
    [cmd1_NPU_SET_DMA0_SRC; cmd1_NPU_SET_DMA0_DST; cmd1_NPU_SET_DMA0_LEN; cmd1_NPU_SET_DMA0_SKIP0;
     cmd1_NPU_SET_DMA0_SKIP1].
Proof. split; vm_compute; reflexivity. Qed.
Lemma one_bank : n_banks = 1.
Proof. reflexivity. Qed.

Example elision_example :
  let cs := [Cmd0 cmd0_NPU_SET_IFM_REGION 1; Cmd1Address cmd1_NPU_SET_IFM_BASE0 (5 * 4294967296 + 64);
             Cmd0 cmd0_NPU_SET_DMA0_SRC_REGION 0; DoOp cmd0_NPU_OP_CONV 0;
             Cmd0 cmd0_NPU_SET_IFM_REGION 1; Cmd0 cmd0_NPU_SET_IFM_REGION (65536 + 1);
             Cmd1Address cmd1_NPU_SET_IFM_BASE0 (5 * 4294967296 + 64);
             Wait cmd0_NPU_OP_DMA_WAIT 0 0; DoOp cmd0_NPU_OP_DMA_START 0; DoOp cmd0_NPU_OP_STOP 65535] in
  Forall call_ok cs /\ List.length (emitted cs) = 8%nat /\ List.length (emitted_plain cs) = 12%nat /\
  run_stream (emitted cs) = Some (ref_events [] cs).
Proof.
  cbv zeta. split; [|split; [|split]].
  - repeat constructor; cbn; vm_compute; intuition discriminate.
  - vm_compute. reflexivity.
  - vm_compute. reflexivity.
  - vm_compute. reflexivity.
Qed.

(* ------------------------------------------------------------------ no_truncation *)
Lemma mask16_id_iff p : Z.land p 65535 = p <-> 0 <= p < 65536.
Proof.
  rewrite land16. split; intros H.
  - rewrite <- H. apply mod16_range.
  - apply Z.mod_small. exact H.
Qed.

Lemma mask32_id_iff p : Z.land p 4294967295 = p <-> 0 <= p < 4294967296.
Proof.
  rewrite land32. split; intros H.
  - rewrite <- H. apply mod32_range.
  - apply Z.mod_small. exact H.
Qed.

(* signed fields (zero points, activation clamps, scalar): the 16-bit two's complement view *)
Lemma s16_mask_id_iff p : s16 (Z.land p 65535) = p <-> -32768 <= p < 32768.
Proof.
  rewrite land16. unfold s16. pose proof (mod16_range p) as Hr.
  destruct (Z.ltb_spec (p mod 65536) 32768); split; intros H0; Z.div_mod_to_equations; lia.
Qed.

(* cmd1_with_address: 32 payload bits + 16 parameter bits *)
Lemma addr48_id_iff a : addr_lo a + addr_hi a * 4294967296 = a <-> 0 <= a < 281474976710656.
Proof.
  unfold addr_lo, addr_hi. rewrite land16, land32, shiftr32.
  split; intros H; Z.div_mod_to_equations; lia.
Qed.

Lemma write_of_masks :
  (forall code p, write_of (Cmd0 code p) = Some (code, Z.land p 65535)) /\
  (forall code off p, write_of (Cmd1Offset code off p) =
                      Some (1024 + code, Z.land off 4294967295 + Z.land p 65535 * 4294967296)) /\
  (forall code a, write_of (Cmd1Address code a) = Some (1024 + code, addr_lo a + addr_hi a * 4294967296)).
Proof.
  repeat split; intros; cbn [write_of]; unfold addr_lo, addr_hi; rewrite ?land16, ?land32, ?shiftr32; reflexivity.
Qed.

Lemma some_pair_inj (k v1 v2 : Z) : Some (k, v1) = Some (k, v2) <-> v1 = v2.
Proof. split; intros H; [congruence|subst; reflexivity]. Qed.

Lemma no_truncation_lemma :
  (forall code p, write_of (Cmd0 code p) = Some (code, p) <-> 0 <= p < 65536) /\
  (forall code p, (exists v, write_of (Cmd0 code p) = Some (code, v) /\ s16 v = p) <-> -32768 <= p < 32768) /\
  (forall code off p, 0 <= p < 65536 ->
     (write_of (Cmd1Offset code off p) = Some (1024 + code, off + p * 4294967296) <-> 0 <= off < 4294967296)) /\
  (forall code off p, 0 <= off < 4294967296 ->
     (write_of (Cmd1Offset code off p) = Some (1024 + code, off + p * 4294967296) <-> 0 <= p < 65536)) /\
  (forall code a, write_of (Cmd1Address code a) = Some (1024 + code, a) <-> 0 <= a < 281474976710656).
Proof.
  split; [|split; [|split; [|split]]].
  - intros code p. cbn [write_of]. rewrite <- mask16_id_iff, land16. split; intros H.
    + injection H as H. exact H.
    + rewrite H. reflexivity.
  - intros code p. rewrite <- s16_mask_id_iff, land16. cbn [write_of]. split.
    + intros (v & H & Hs). injection H as <-. exact Hs.
    + intros H. exists (p mod 65536). split; [reflexivity|exact H].
  - intros code off p Hp. cbn [write_of]. rewrite (Z.mod_small p) by exact Hp. split; intros H.
    + injection H as H. pose proof (mod32_range off). lia.
    + rewrite (Z.mod_small off) by exact H. reflexivity.
  - intros code off p Ho. cbn [write_of]. rewrite (Z.mod_small off) by exact Ho. split; intros H.
    + injection H as H. pose proof (mod16_range p). lia.
    + rewrite (Z.mod_small p) by exact H. reflexivity.
  - intros code a. rewrite <- addr48_id_iff. destruct write_of_masks as (_ & _ & H3). rewrite H3.
    apply some_pair_inj.
Qed.

Example no_truncation_example :
  write_of (Cmd0 cmd0_NPU_SET_OFM_HEIGHT_M1 69999) = Some (cmd0_NPU_SET_OFM_HEIGHT_M1, 4463) /\
  write_of (Cmd0 cmd0_NPU_SET_OFM_HEIGHT_M1 65535) = Some (cmd0_NPU_SET_OFM_HEIGHT_M1, 65535).
Proof. split; reflexivity. Qed.

(* ------------------------------------------------------------------ finite sweeps *)
Fixpoint zrange (lo : Z) (n : nat) : list Z :=
  match n with O => [] | S n' => lo :: zrange (lo + 1) n' end.
Lemma in_zrange x n : forall lo, lo <= x < lo + Z.of_nat n -> In x (zrange lo n).
Proof.
  induction n as [|n IH]; intros lo H; [cbn in H; lia|].
  cbn [zrange]. destruct (Z.eq_dec x lo) as [->|Hne]; [now left|right].
  apply IH. rewrite Nat2Z.inj_succ in H. lia.
Qed.
Lemma sweep (P : Z -> bool) lo n :
  forallb P (zrange lo n) = true -> forall x, lo <= x < lo + Z.of_nat n -> P x = true.
Proof. intros H x Hx. rewrite forallb_forall in H. apply H. apply in_zrange. exact Hx. Qed.

Definition b2z (b : bool) : Z := if b then 1 else 0.

(* KERNEL_STRIDE: strides 1..16 (one low bit + three extension bits each), dilation 1..2, traversal bit:
   below 4096 and every sub-field reads back (k_stride_x / k_stride_y are hw/Npu.v's readers) *)
Definition kstride_ok (sx sy dx dy : Z) (pk : bool) : bool :=
  let f := kernel_stride_field sx sy dx dy pk in
  (0 <=? f) && (f <? 4096) && (k_stride_x f =? sx) && (k_stride_y f =? sy) &&
  ((f / 8) mod 2 =? dx - 1) && ((f / 16) mod 2 =? dy - 1) && ((f / 4) mod 2 =? b2z pk).

Lemma kstride_sweep :
  forallb (fun sx => forallb (fun sy => forallb (fun dx => forallb (fun dy =>
     kstride_ok sx sy dx dy false && kstride_ok sx sy dx dy true) (zrange 1 2)) (zrange 1 2)) (zrange 1 16)) (zrange 1 16)
  = true.
Proof. vm_compute. reflexivity. Qed.

Lemma kernel_stride_fits sx sy dx dy pk :
  1 <= sx <= 16 -> 1 <= sy <= 16 -> 1 <= dx <= 2 -> 1 <= dy <= 2 ->
  kstride_ok sx sy dx dy pk = true.
Proof.
  intros Hsx Hsy Hdx Hdy.
  pose proof (sweep _ _ _ kstride_sweep sx ltac:(cbn; lia)) as H1. cbv beta in H1.
  pose proof (sweep _ _ _ H1 sy ltac:(cbn; lia)) as H2. cbv beta in H2.
  pose proof (sweep _ _ _ H2 dx ltac:(cbn; lia)) as H3. cbv beta in H3.
  pose proof (sweep _ _ _ H3 dy ltac:(cbn; lia)) as H4. cbv beta in H4.
  apply andb_prop in H4 as [Hf Ht]. destruct pk; assumption.
Qed.

(* a stride or dilation outside these limits corrupts a neighbouring field *)
Example kernel_stride_dilation3_collides :
  (kernel_stride_field 1 1 3 1 false / 16) mod 2 = 1.
Proof. reflexivity. Qed.

(* IFM/IFM2_PRECISION and OFM_PRECISION *)
Definition bits_ok (bits : Z) : bool := (bits =? 8) || (bits =? 16) || (bits =? 32).
Definition ifm_prec_ok (sg : bool) (bits : Z) (b16 : bool) (ots : Z) : bool :=
  let f := ifm_precision_field sg bits b16 ots in
  (0 <=? f) && (f <? 65536) && (f mod 2 =? b2z sg) && (prec_elem_ifm f =? bits / 8) &&
  Bool.eqb (prec_b16 f) b16 && ((f / 256) mod 4 =? ots) && ((f / 4) mod 4 =? precision_of_bits bits).
Definition ofm_prec_ok (sg : bool) (bits : Z) (gs b16 : bool) (rnd : Z) : bool :=
  let f := ofm_precision_field sg bits gs b16 rnd in
  (0 <=? f) && (f <? 65536) && (f mod 2 =? b2z sg) && (prec_elem_ofm f =? bits / 8) &&
  Bool.eqb (prec_b16 f) b16 && ((f / 256) mod 2 =? b2z gs) && ((f / 16384) mod 4 =? rnd).

Lemma precision_sweep :
  forallb (fun sg => forallb (fun bits => forallb (fun b16 => forallb (fun x =>
     ifm_prec_ok sg bits b16 x && ofm_prec_ok sg bits false b16 x && ofm_prec_ok sg bits true b16 x)
     (zrange 0 3)) [false; true]) [8; 16; 32]) [false; true] = true.
Proof. vm_compute. reflexivity. Qed.

Lemma precision_fits sg bits gs b16 x :
  bits_ok bits = true -> 0 <= x <= 2 ->
  ifm_prec_ok sg bits b16 x = true /\ ofm_prec_ok sg bits gs b16 x = true.
Proof.
  intros Hb Hx. pose proof precision_sweep as H. rewrite forallb_forall in H.
  specialize (H sg ltac:(destruct sg; cbn; auto)). rewrite forallb_forall in H.
  assert (Hin : In bits [8; 16; 32]).
  { unfold bits_ok in Hb. apply orb_prop in Hb as [Hb|Hb]; [apply orb_prop in Hb as [Hb|Hb]|];
      apply Z.eqb_eq in Hb; subst; cbn; auto. }
  specialize (H bits Hin). rewrite forallb_forall in H.
  specialize (H b16 ltac:(destruct b16; cbn; auto)).
  pose proof (sweep _ _ _ H x ltac:(cbn; lia)) as H4. cbv beta in H4.
  apply andb_prop in H4 as [H4 H5]. apply andb_prop in H4 as [H4 H6].
  split; [exact H4|destruct gs; assumption].
Qed.

(* ACTIVATION for a table lookup, IFM2_BROADCAST *)
Lemma activation_lut_fits idx i32 :
  0 <= idx < 8 ->
  let f := activation_lut_field idx i32 in
  0 <= f < 65536 /\ f mod 4096 = 16 + idx /\ f / 4096 = (if i32 then 3 else 0).
Proof.
  intros H. assert (Hin : In idx (zrange 0 8)) by (apply in_zrange; cbn; lia).
  cbn in Hin. destruct i32; repeat (destruct Hin as [<-|Hin]; [vm_compute; repeat split; congruence|]);
    destruct Hin.
Qed.

Lemma broadcast_fits rv sc bh bw bc :
  let f := broadcast_field rv sc bh bw bc in
  0 <= f < 256 /\ (f / 64) mod 2 = b2z rv /\ (f / 128) mod 2 = b2z sc /\
  (sc = false -> f mod 2 = b2z bh /\ (f / 2) mod 2 = b2z bw /\ (f / 4) mod 2 = b2z bc).
Proof.
  destruct rv, sc, bh, bw, bc; vm_compute; repeat split; try congruence; intros; try discriminate.
Qed.

(* sizes: HEIGHT_M1 etc. of a dimension 1..65536; KERNEL_*_M1 of a dilated kernel *)
Lemma m1_fits x : 1 <= x <= 65536 -> 0 <= x - 1 < 65536 /\ Z.land (x - 1) 65535 + 1 = x.
Proof. intros H. split; [lia|]. rewrite (proj2 (mask16_id_iff (x - 1))); lia. Qed.

Lemma kernel_size_fits dil size :
  1 <= dil <= 2 -> 1 <= size <= 32768 ->
  0 <= kernel_size_field dil size < 65536.
Proof. intros Hd Hs. unfold kernel_size_field. nia. Qed.

(* 40-bit addresses (and anything below 2^48) survive the split over payload word and parameter *)
Lemma address_fits a :
  0 <= a < 1099511627776 ->
  addr_lo a + addr_hi a * 4294967296 = a /\ 0 <= addr_hi a < 256 /\ 0 <= addr_lo a < 4294967296.
Proof.
  intros H. split; [apply addr48_id_iff; lia|].
  unfold addr_lo, addr_hi. rewrite land16, land32, shiftr32. split; Z.div_mod_to_equations; lia.
Qed.

(* zero points within the data type's range survive the 16-bit field (read signed or unsigned as the type is) *)
Lemma zero_point_fits (sg : bool) bits zp :
  bits_ok bits = true -> bits <= 16 ->
  (if sg then - 2 ^ (bits - 1) <= zp < 2 ^ (bits - 1) else 0 <= zp < 2 ^ bits) ->
  (if sg then s16 (Z.land zp 65535) = zp else Z.land zp 65535 = zp).
Proof.
  intros Hb H16 Hr. unfold bits_ok in Hb.
  assert (Hbits : bits = 8 \/ bits = 16).
  { apply orb_prop in Hb as [Hb|Hb]; [apply orb_prop in Hb as [Hb|Hb]|]; apply Z.eqb_eq in Hb; lia. }
  destruct sg.
  - apply s16_mask_id_iff. destruct Hbits as [-> | ->]; cbn in Hr; lia.
  - apply mask16_id_iff. destruct Hbits as [-> | ->]; cbn in Hr; lia.
Qed.

(* default strides of a legal feature map are non-negative and fit the 40-bit cmd1_with_address range *)
Lemma default_strides_fit b16 elem w d :
  1 <= elem <= 4 -> 1 <= w <= 65536 -> 1 <= d <= 65536 ->
  let '(sc, sy, sx) := default_strides b16 elem w d in
  0 <= sc < 1099511627776 /\ 0 <= sy < 1099511627776 /\ 0 <= sx < 1099511627776.
Proof.
  intros He Hw Hd. unfold default_strides. destruct b16.
  - assert (Hq : 1 <= (d + 15) / 16 <= 4096) by (Z.div_mod_to_equations; lia).
    set (q := (d + 15) / 16) in *.
    assert (Hew : 1 <= elem * w <= 262144) by nia.
    replace (16 * elem * w) with (16 * (elem * w)) by ring.
    replace (elem * w * (q * 16)) with ((elem * w) * (q * 16)) by ring.
    set (ew := elem * w) in *. repeat split; nia.
  - assert (Hed : 1 <= d * elem <= 262144) by nia.
    set (de := d * elem) in *. repeat split; nia.
Qed.

Lemma field_fits_lemma :
  (forall x, 1 <= x <= 65536 -> 0 <= x - 1 < 65536 /\ Z.land (x - 1) 65535 + 1 = x) /\
  (forall dil size, 1 <= dil <= 2 -> 1 <= size <= 32768 -> 0 <= kernel_size_field dil size < 65536) /\
  (forall sx sy dx dy pk, 1 <= sx <= 16 -> 1 <= sy <= 16 -> 1 <= dx <= 2 -> 1 <= dy <= 2 ->
     kstride_ok sx sy dx dy pk = true) /\
  (forall sg bits gs b16 x, bits_ok bits = true -> 0 <= x <= 2 ->
     ifm_prec_ok sg bits b16 x = true /\ ofm_prec_ok sg bits gs b16 x = true) /\
  (forall idx i32, 0 <= idx < 8 ->
     let f := activation_lut_field idx i32 in
     0 <= f < 65536 /\ f mod 4096 = 16 + idx /\ f / 4096 = (if i32 then 3 else 0)) /\
  (forall rv sc bh bw bc, 0 <= broadcast_field rv sc bh bw bc < 256) /\
  (forall a, 0 <= a < 1099511627776 ->
     addr_lo a + addr_hi a * 4294967296 = a /\ 0 <= addr_hi a < 256 /\ 0 <= addr_lo a < 4294967296) /\
  (forall (sg : bool) bits zp, bits_ok bits = true -> bits <= 16 ->
     (if sg then - 2 ^ (bits - 1) <= zp < 2 ^ (bits - 1) else 0 <= zp < 2 ^ bits) ->
     (if sg then s16 (Z.land zp 65535) = zp else Z.land zp 65535 = zp)) /\
  (forall b16 elem w d, 1 <= elem <= 4 -> 1 <= w <= 65536 -> 1 <= d <= 65536 ->
     let '(sc, sy, sx) := default_strides b16 elem w d in
     0 <= sc < 1099511627776 /\ 0 <= sy < 1099511627776 /\ 0 <= sx < 1099511627776).
Proof.
  exact (conj m1_fits (conj kernel_size_fits (conj kernel_stride_fits (conj precision_fits
        (conj activation_lut_fits (conj (fun rv sc bh bw bc => proj1 (broadcast_fits rv sc bh bw bc))
        (conj address_fits (conj zero_point_fits default_strides_fit)))))))).
Qed.

Example field_fits_example :
  kernel_stride_field 2 1 1 1 true = 5 /\ ifm_precision_field true 16 true 0 = 69 /\
  ofm_precision_field false 8 true false 2 = 33024 /\ kernel_size_field 2 3 = 4.
Proof. repeat split; reflexivity. Qed.
