(* C06 -- proofs about model/Emit.v: elision is transparent for every call history, masking is the
   identity exactly on the field range, derived fields of legal operations fit and decode back,
   the framing of generate_command_stream is well formed, the check_* guards are the alignment rules. *)
From Coq Require Import ZArith List Bool Lia.
From VV Require Import lib.PyInt lib.Bits gen.GenTables gen.GenEmitTables hw.Npu model.Emit.
Import ListNotations.
Open Scope Z_scope.

(* ------------------------------------------------------------------ masks and command words *)
Lemma land16 p : Z.land p 65535 = p mod 65536.
Proof. change 65535 with (2 ^ 16 - 1). change 65536 with (2 ^ 16). apply land_ones_mod. lia. Qed.
Lemma land32 p : Z.land p 4294967295 = p mod 4294967296.
Proof. change 4294967295 with (2 ^ 32 - 1). change 4294967296 with (2 ^ 32). apply land_ones_mod. lia. Qed.
Lemma shiftr32 a : Z.shiftr a 32 = a / 4294967296.
Proof. change 4294967296 with (2 ^ 32). apply shiftr_div. lia. Qed.

Lemma mod16_range p : 0 <= p mod 65536 < 65536.
Proof. apply Z.mod_pos_bound. lia. Qed.
Lemma mod32_range p : 0 <= p mod 4294967296 < 4294967296.
Proof. apply Z.mod_pos_bound. lia. Qed.

Lemma word0 code param :
  0 <= code < 1024 -> 0 <= param < 65536 -> Z.lor code (Z.shiftl param 16) = code + param * 65536.
Proof.
  intros Hc Hp. change 65536 with (2 ^ 16). apply lor_shiftl_add; [lia|].
  change (2 ^ 16) with 65536. lia.
Qed.

Lemma word0' code param :
  0 <= code < 1024 -> 0 <= param < 65536 -> Z.lor (Z.shiftl param 16) code = code + param * 65536.
Proof. intros. rewrite Z.lor_comm. apply word0; assumption. Qed.

Lemma word1 code param :
  0 <= code < 1024 -> 0 <= param < 65536 ->
  Z.lor (Z.lor code emit_payload32) (Z.shiftl param 16) = code + 16384 + param * 65536.
Proof.
  intros Hc Hp. unfold emit_payload32.
  assert (H1 : Z.lor code 16384 = code + 16384).
  { change 16384 with (Z.shiftl 1 14) at 1. rewrite lor_shiftl_add; [reflexivity|lia|].
    change (2 ^ 14) with 16384. lia. }
  rewrite H1. change 65536 with (2 ^ 16). apply lor_shiftl_add; [lia|].
  change (2 ^ 16) with 65536. lia.
Qed.

Lemma fields0 code param :
  0 <= code < 1024 -> 0 <= param < 65536 ->
  w_code (code + param * 65536) = code /\ w_resv (code + param * 65536) = 0 /\
  w_mode (code + param * 65536) = 0 /\ w_param (code + param * 65536) = param.
Proof.
  intros Hc Hp. unfold w_code, w_resv, w_mode, w_param. repeat split; Z.div_mod_to_equations; lia.
Qed.

Lemma fields1 code param :
  0 <= code < 1024 -> 0 <= param < 65536 ->
  w_code (code + 16384 + param * 65536) = code /\ w_resv (code + 16384 + param * 65536) = 0 /\
  w_mode (code + 16384 + param * 65536) = 1 /\ w_param (code + 16384 + param * 65536) = param.
Proof.
  intros Hc Hp. unfold w_code, w_resv, w_mode, w_param. repeat split; Z.div_mod_to_equations; lia.
Qed.

(* ------------------------------------------------------------------ decoder, one command at a time *)
Definition opt_app (cmds : list cmd) (o : option (list cmd)) : option (list cmd) :=
  match o with Some cs => Some (cmds ++ cs) | None => None end.

Lemma decode_word0 code param rest :
  0 <= code < 1024 -> 0 <= param < 65536 ->
  decode ((code + param * 65536) :: rest) = opt_app [Cmd false code param 0] (decode rest).
Proof.
  intros Hc Hp. destruct (fields0 code param Hc Hp) as (H1 & H2 & H3 & H4).
  cbn [decode]. rewrite H1, H2, H3, H4. cbn. destruct (decode rest); reflexivity.
Qed.

Lemma decode_word1 code param d rest :
  0 <= code < 1024 -> 0 <= param < 65536 ->
  decode ((code + 16384 + param * 65536) :: d :: rest) = opt_app [Cmd true code param d] (decode rest).
Proof.
  intros Hc Hp. destruct (fields1 code param Hc Hp) as (H1 & H2 & H3 & H4).
  cbn [decode]. rewrite H1, H2, H3, H4. cbn. destruct (decode rest); reflexivity.
Qed.

Lemma exec_write0 r code param t :
  256 <= code -> exec r (Cmd false code param 0 :: t) = exec (rset code param r) t.
Proof.
  intros H. cbn [exec c_pay c_code c_param c_data].
  destruct (Z.leb_spec 256 code); [reflexivity | lia].
Qed.

Lemma exec_write1 r code param d t :
  exec r (Cmd true code param d :: t) = exec (rset (1024 + code) (d + param * 4294967296) r) t.
Proof. reflexivity. Qed.

Lemma exec_op r code param t :
  code < 256 -> exec r (Cmd false code param 0 :: t) = classify code param r :: exec r t.
Proof.
  intros H. cbn [exec c_pay c_code c_param c_data].
  destruct (Z.leb_spec 256 code); [lia|]. unfold classify.
  destruct (is_block_op code || (code =? cmd0_NPU_OP_DMA_START)); [reflexivity|].
  destruct ((code =? cmd0_NPU_OP_KERNEL_WAIT) || (code =? cmd0_NPU_OP_DMA_WAIT)); [reflexivity|].
  destruct (code =? cmd0_NPU_OP_STOP); reflexivity.
Qed.

(* ------------------------------------------------------------------ register files as association lists *)
Fixpoint rfind (k : Z) (r : regs) : option Z :=
  match r with [] => None | (k', v) :: t => if k' =? k then Some v else rfind k t end.

Lemma rget_rfind k r : rget k r = match rfind k r with Some v => v | None => 0 end.
Proof. induction r as [|[k' v] t IH]; cbn; [reflexivity|]. destruct (k' =? k); [reflexivity|exact IH]. Qed.

Lemma rset_same k v r : rfind k r = Some v -> rset k v r = r.
Proof.
  induction r as [|[k' v'] t IH]; cbn; [discriminate|].
  destruct (Z.eqb_spec k' k) as [->|Hne]; intros H.
  - injection H as ->. reflexivity.
  - rewrite IH by exact H. reflexivity.
Qed.

Lemma rfind_rset_eq k v r : rfind k (rset k v r) = Some v.
Proof.
  induction r as [|[k' v'] t IH]; cbn.
  - rewrite Z.eqb_refl. reflexivity.
  - destruct (Z.eqb_spec k' k) as [->|Hne]; cbn.
    + rewrite Z.eqb_refl. reflexivity.
    + destruct (Z.eqb_spec k' k); [contradiction|exact IH].
Qed.

Lemma rfind_rset_neq k k' v r : k <> k' -> rfind k' (rset k v r) = rfind k' r.
Proof.
  intros Hne. induction r as [|[k0 v0] t IH]; cbn.
  - destruct (Z.eqb_spec k k'); [contradiction|reflexivity].
  - destruct (Z.eqb_spec k0 k) as [->|H0]; cbn.
    + destruct (Z.eqb_spec k k'); [contradiction|reflexivity].
    + destruct (Z.eqb_spec k0 k'); [reflexivity|exact IH].
Qed.

Lemma rget_rset k k' v r : rget k' (rset k v r) = if k =? k' then v else rget k' r.
Proof.
  rewrite !rget_rfind. destruct (Z.eqb_spec k k') as [->|Hne].
  - rewrite rfind_rset_eq. reflexivity.
  - rewrite rfind_rset_neq by exact Hne. reflexivity.
Qed.

(* ------------------------------------------------------------------ emitter register maps *)
Lemma rkey_eqb_spec a b : reflect (a = b) (rkey_eqb a b).
Proof.
  destruct a as [x|x], b as [y|y]; cbn; try (constructor; discriminate);
    destruct (Z.eqb_spec x y) as [->|Hne]; constructor; try reflexivity; intros H; injection H; exact Hne.
Qed.

Lemma rm_get_put_eq k v m : rm_get k (rm_put k v m) = Some v.
Proof.
  induction m as [|[k' v'] t IH]; cbn.
  - destruct (rkey_eqb_spec k k); [reflexivity|contradiction].
  - destruct (rkey_eqb_spec k' k) as [->|Hne]; cbn.
    + destruct (rkey_eqb_spec k k); [reflexivity|contradiction].
    + destruct (rkey_eqb_spec k' k); [contradiction|exact IH].
Qed.

Lemma rm_get_put_neq k k' v m : k <> k' -> rm_get k' (rm_put k v m) = rm_get k' m.
Proof.
  intros Hne. induction m as [|[k0 v0] t IH]; cbn.
  - destruct (rkey_eqb_spec k k'); [contradiction|reflexivity].
  - destruct (rkey_eqb_spec k0 k) as [->|H0]; cbn.
    + destruct (rkey_eqb_spec k k'); [contradiction|reflexivity].
    + destruct (rkey_eqb_spec k0 k'); [reflexivity|exact IH].
Qed.

Lemma rval_eqb_eq a b : rval_eqb a b = true -> a = b.
Proof.
  destruct a, b. unfold rval_eqb. cbn. intros H. apply andb_prop in H as [H1 H2].
  apply Z.eqb_eq in H1, H2. subst. reflexivity.
Qed.

(* ------------------------------------------------------------------ the invariant *)
Definition zkey (k : rkey) : Z := match k with K0 c => c | K1 c => 1024 + c end.
Definition key_ok (k : rkey) : Prop := match k with K0 c => 256 <= c < 1024 | K1 c => 0 <= c < 1024 end.
(* the value the decoder stores when it sees the words kept in the emitter's register *)
Definition dec_val (k : rkey) (v : rval) : Z :=
  match k with K0 _ => w_param (fst v) | K1 _ => snd v + w_param (fst v) * 4294967296 end.

Lemma zkey_inj k k' : key_ok k -> key_ok k' -> zkey k = zkey k' -> k = k'.
Proof. destruct k, k'; unfold zkey, key_ok; intros; try (exfalso; lia); f_equal; lia. Qed.

Section Invariant.
  Variable d0 d1 : Z -> bool.
  Definition sel (k : rkey) : bool := match k with K0 c => d0 c | K1 c => d1 c end.

  Definition bank_inv (b : bool) (rm : regmachine) (r : regs) : Prop :=
    rm_idx rm = 0 /\ (exists m, rm_banks rm = [m]) /\
    forall k v, rm_get k (cur_bank rm) = Some v ->
                key_ok k /\ sel k = b /\ rfind (zkey k) r = Some (dec_val k v).

  Definition inv (s : est) (r : regs) : Prop := bank_inv false (e_rm0 s) r /\ bank_inv true (e_rm1 s) r.

  Lemma inv_sel s r b : inv s r -> bank_inv b (sel_machine s b) r.
  Proof. intros [H0 H1]. destruct b; assumption. Qed.

  Lemma inv_init : inv est_init [].
  Proof.
    split; (split; [reflexivity|split; [exists []; reflexivity|]]); intros k v H; cbn in H; discriminate.
  Qed.

  Lemma inv_bump s r n : inv s r -> inv (bump s n) r.
  Proof. intros H. exact H. Qed.

  (* writing register k (value v) through set_register: afterwards the invariant holds against the
     decoder state in which the write HAS been applied; and when the emitter elides the write,
     applying it does not change the decoder state *)
  Lemma inv_set s r k v rm changed :
    inv s r -> key_ok k ->
    set_register (sel_machine s (sel k)) k v = (rm, changed) ->
    inv (upd_machine s (sel k) rm) (rset (zkey k) (dec_val k v) r) /\
    (changed = false -> rset (zkey k) (dec_val k v) r = r).
  Proof.
    intros Hinv Hk Hset.
    pose proof (inv_sel s r (sel k) Hinv) as (Hidx & (m & Hm) & Hb).
    unfold set_register in Hset. injection Hset as Hrm Hch.
    assert (Hcur : cur_bank (sel_machine s (sel k)) = m).
    { unfold cur_bank. rewrite Hidx, Hm. reflexivity. }
    rewrite Hcur in *.
    assert (Hsame : changed = false -> rset (zkey k) (dec_val k v) r = r).
    { intros ->. destruct (rm_get k m) as [old|] eqn:Hg; [|discriminate].
      apply negb_false_iff in Hch. apply rval_eqb_eq in Hch. subst old.
      apply rset_same. destruct (Hb k v) as (_ & _ & H); [exact Hg|exact H]. }
    split; [|exact Hsame].
    (* the updated machine *)
    assert (Hnew : bank_inv (sel k) rm (rset (zkey k) (dec_val k v) r)).
    { subst rm. split; [exact Hidx|]. split.
      - cbn [rm_banks]. rewrite Hidx, Hm. exists (rm_put k v m). reflexivity.
      - intros k' v'. unfold cur_bank. cbn [rm_banks rm_idx]. rewrite Hidx, Hm. cbn [Z.to_nat set_nth nth].
        destruct (rkey_eqb_spec k k') as [<-|Hne].
        + rewrite rm_get_put_eq. intros H. injection H as <-.
          split; [exact Hk|]. split; [reflexivity|]. apply rfind_rset_eq.
        + rewrite rm_get_put_neq by exact Hne. intros H.
          destruct (Hb k' v') as (Hk' & Hs' & Hf'); [exact H|].
          split; [exact Hk'|]. split; [exact Hs'|].
          rewrite rfind_rset_neq; [exact Hf'|].
          intros Heq. apply Hne. apply zkey_inj; assumption. }
    (* the other machine is untouched; its keys are different keys *)
    assert (Hother : forall b', b' <> sel k -> bank_inv b' (sel_machine s b') r ->
                                bank_inv b' (sel_machine s b') (rset (zkey k) (dec_val k v) r)).
    { intros b' Hb' (Hi & Hm' & Hf). split; [exact Hi|]. split; [exact Hm'|].
      intros k' v' H. destruct (Hf k' v' H) as (Hk' & Hs' & Hf').
      split; [exact Hk'|]. split; [exact Hs'|].
      rewrite rfind_rset_neq; [exact Hf'|].
      intros Heq. apply Hb'. rewrite <- Hs'. f_equal. symmetry. apply zkey_inj; assumption. }
    destruct Hinv as [H0 H1]. unfold inv, upd_machine.
    destruct (sel k) eqn:Hs; cbn [e_rm0 e_rm1]; split.
    - apply (Hother false); [discriminate|exact H0].
    - exact Hnew.
    - exact Hnew.
    - apply (Hother true); [discriminate|exact H1].
  Qed.

  Lemma switch_bank_inv b rm r : bank_inv b rm r -> bank_inv b (switch_bank rm) r.
  Proof.
    intros (Hi & Hm & Hf). unfold switch_bank, bank_inv, cur_bank in *. cbn [rm_idx rm_banks].
    rewrite Hi in *. change ((0 + 1) mod n_banks) with 0.
    split; [reflexivity|]. split; [exact Hm|]. exact Hf.
  Qed.

  Lemma inv_switch s r b : inv s r -> inv (upd_machine s b (switch_bank (sel_machine s b))) r.
  Proof.
    intros [H0 H1]. unfold inv, upd_machine, sel_machine.
    destruct b; cbn [e_rm0 e_rm1]; split; auto using switch_bank_inv.
  Qed.

  (* ---------------------------------------------------------------- one call *)
  Lemma step_correct s r c s' ws :
    inv s r -> call_ok c -> emit_gen d0 d1 s c = (s', ws) ->
    inv s' (step_regs r c) /\
    exists cmds,
      (forall rest, decode (ws ++ rest) = opt_app cmds (decode rest)) /\
      (forall t, exec r (cmds ++ t) = step_events r c ++ exec (step_regs r c) t).
  Proof.
    intros Hinv Hok Hem. destruct c as [code p|code off p|code a|code ch cnt|code p]; cbn [call_ok] in Hok.
    - (* cmd0_with_param *)
      cbn [emit_gen] in Hem. unfold emit_cmd0 in Hem.
      rewrite land16 in Hem. pose proof (mod16_range p) as Hp.
      rewrite word0 in Hem by lia.
      destruct (set_register _ _ _) as [rm changed] eqn:Hset.
      destruct (inv_set s r (K0 code) _ rm changed Hinv ltac:(cbn; lia) Hset) as [Hi Hsame].
      assert (Hdv : dec_val (K0 code) (code + p mod 65536 * 65536, p mod 65536) = p mod 65536).
      { cbn [dec_val fst]. apply (fields0 code (p mod 65536)); lia. }
      rewrite Hdv in *. cbn [zkey] in *.
      unfold step_regs, step_events. cbn [write_of op_of].
      destruct changed; injection Hem as <- <-.
      + split; [apply inv_bump; exact Hi|].
        exists [Cmd false code (p mod 65536) 0]. split.
        * intros rest. cbn [app]. apply decode_word0; lia.
        * intros t. cbn [app]. apply exec_write0. lia.
      + split; [rewrite Hsame by reflexivity; rewrite Hsame in Hi by reflexivity; exact Hi|].
        exists []. split; [intros rest; cbn; destruct (decode rest); reflexivity|].
        intros t. cbn [app]. rewrite Hsame by reflexivity. reflexivity.
    - (* cmd1_with_offset *)
      cbn [emit_gen] in Hem. unfold emit_cmd1 in Hem.
      rewrite land16, land32 in Hem. pose proof (mod16_range p) as Hp. pose proof (mod32_range off) as Ho.
      rewrite word1 in Hem by lia.
      destruct (set_register _ _ _) as [rm changed] eqn:Hset.
      destruct (inv_set s r (K1 code) _ rm changed Hinv ltac:(cbn; lia) Hset) as [Hi Hsame].
      assert (Hdv : dec_val (K1 code) (code + 16384 + p mod 65536 * 65536, off mod 4294967296) =
                    off mod 4294967296 + p mod 65536 * 4294967296).
      { cbn [dec_val fst snd]. f_equal. f_equal. apply (fields1 code (p mod 65536)); lia. }
      rewrite Hdv in *. cbn [zkey] in *.
      unfold step_regs, step_events. cbn [write_of op_of].
      destruct changed; injection Hem as <- <-.
      + split; [apply inv_bump; exact Hi|].
        exists [Cmd true code (p mod 65536) (off mod 4294967296)]. split.
        * intros rest. cbn [app]. apply decode_word1; lia.
        * intros t. cbn [app]. apply exec_write1.
      + split; [rewrite Hsame by reflexivity; rewrite Hsame in Hi by reflexivity; exact Hi|].
        exists []. split; [intros rest; cbn; destruct (decode rest); reflexivity|].
        intros t. cbn [app]. rewrite Hsame by reflexivity. reflexivity.
    - (* cmd1_with_address *)
      cbn [emit_gen] in Hem. unfold emit_cmd1 in Hem.
      rewrite land16, land32, shiftr32 in Hem.
      pose proof (mod16_range (a / 4294967296)) as Hp. pose proof (mod32_range a) as Ho.
      rewrite word1 in Hem by lia.
      destruct (set_register _ _ _) as [rm changed] eqn:Hset.
      destruct (inv_set s r (K1 code) _ rm changed Hinv ltac:(cbn; lia) Hset) as [Hi Hsame].
      assert (Hdv : dec_val (K1 code) (code + 16384 + (a / 4294967296) mod 65536 * 65536, a mod 4294967296) =
                    a mod 4294967296 + (a / 4294967296) mod 65536 * 4294967296).
      { cbn [dec_val fst snd]. f_equal. f_equal. apply (fields1 code ((a / 4294967296) mod 65536)); lia. }
      rewrite Hdv in *. cbn [zkey] in *.
      unfold step_regs, step_events. cbn [write_of op_of].
      destruct changed; injection Hem as <- <-.
      + split; [apply inv_bump; exact Hi|].
        exists [Cmd true code ((a / 4294967296) mod 65536) (a mod 4294967296)]. split.
        * intros rest. cbn [app]. apply decode_word1; lia.
        * intros t. cbn [app]. apply exec_write1.
      + split; [rewrite Hsame by reflexivity; rewrite Hsame in Hi by reflexivity; exact Hi|].
        exists []. split; [intros rest; cbn; destruct (decode rest); reflexivity|].
        intros t. cbn [app]. rewrite Hsame by reflexivity. reflexivity.
    - (* cmd_wait *)
      cbn [emit_gen] in Hem. rewrite land16 in Hem. pose proof (mod16_range (16 * ch + cnt)) as Hp.
      rewrite word0' in Hem by lia. injection Hem as <- <-.
      unfold step_regs, step_events. cbn [write_of op_of].
      split; [apply inv_bump; exact Hinv|].
      exists [Cmd false code ((16 * ch + cnt) mod 65536) 0]. split.
      + intros rest. cbn [app]. apply decode_word0; lia.
      + intros t. cbn [app]. apply exec_op. lia.
    - (* cmd_do_operation *)
      cbn [emit_gen] in Hem. rewrite land16 in Hem. pose proof (mod16_range p) as Hp.
      rewrite word0' in Hem by lia. injection Hem as <- <-.
      unfold step_regs, step_events. cbn [write_of op_of].
      split; [apply inv_switch; apply inv_bump; exact Hinv|].
      exists [Cmd false code (p mod 65536) 0]. split.
      + intros rest. cbn [app]. apply decode_word0; lia.
      + intros t. cbn [app]. apply exec_op. lia.
  Qed.

  (* ---------------------------------------------------------------- every call sequence *)
  Lemma run_correct cs : forall s r,
    inv s r -> Forall call_ok cs ->
    exists cmds, decode (snd (emit_all_gen d0 d1 s cs)) = Some cmds /\ exec r cmds = ref_events r cs.
  Proof.
    induction cs as [|c t IH]; intros s r Hinv Hok.
    - exists []. split; reflexivity.
    - inversion Hok as [|? ? Hc Ht]; subst.
      cbn [emit_all_gen]. destruct (emit_gen d0 d1 s c) as [s1 w1] eqn:H1.
      destruct (emit_all_gen d0 d1 s1 t) as [s2 w2] eqn:H2.
      destruct (step_correct s r c s1 w1 Hinv Hc H1) as (Hi1 & cmds1 & Hdec & Hex).
      destruct (IH s1 (step_regs r c) Hi1 Ht) as (cmds2 & Hd2 & He2).
      rewrite H2 in Hd2. cbn [snd] in *.
      exists (cmds1 ++ cmds2). split.
      + rewrite Hdec, Hd2. reflexivity.
      + rewrite Hex, He2. reflexivity.
  Qed.
End Invariant.

(* the plain (never eliding) emitter decodes to the same reference events *)
Lemma plain_step r c :
  call_ok c ->
  exists cmds,
    (forall rest, decode (emit_plain c ++ rest) = opt_app cmds (decode rest)) /\
    (forall t, exec r (cmds ++ t) = step_events r c ++ exec (step_regs r c) t).
Proof.
  intros Hok. destruct c as [code p|code off p|code a|code ch cnt|code p]; cbn [call_ok] in Hok;
    cbn [emit_plain]; unfold step_regs, step_events; cbn [write_of op_of].
  - rewrite land16. pose proof (mod16_range p). rewrite word0 by lia.
    exists [Cmd false code (p mod 65536) 0]. split; intros; cbn [app]; [apply decode_word0; lia|apply exec_write0; lia].
  - rewrite land16, land32. pose proof (mod16_range p). rewrite word1 by lia.
    exists [Cmd true code (p mod 65536) (off mod 4294967296)].
    split; intros; cbn [app]; [apply decode_word1; lia|apply exec_write1].
  - rewrite land16, land32, shiftr32. pose proof (mod16_range (a / 4294967296)). rewrite word1 by lia.
    exists [Cmd true code ((a / 4294967296) mod 65536) (a mod 4294967296)].
    split; intros; cbn [app]; [apply decode_word1; lia|apply exec_write1].
  - rewrite land16. pose proof (mod16_range (16 * ch + cnt)). rewrite word0' by lia.
    exists [Cmd false code ((16 * ch + cnt) mod 65536) 0].
    split; intros; cbn [app]; [apply decode_word0; lia|apply exec_op; lia].
  - rewrite land16. pose proof (mod16_range p). rewrite word0' by lia.
    exists [Cmd false code (p mod 65536) 0].
    split; intros; cbn [app]; [apply decode_word0; lia|apply exec_op; lia].
Qed.

Lemma plain_correct cs : forall r,
  Forall call_ok cs ->
  exists cmds, decode (emitted_plain cs) = Some cmds /\ exec r cmds = ref_events r cs.
Proof.
  induction cs as [|c t IH]; intros r Hok.
  - exists []. split; reflexivity.
  - inversion Hok as [|? ? Hc Ht]; subst.
    destruct (plain_step r c Hc) as (cmds1 & Hdec & Hex).
    destruct (IH (step_regs r c) Ht) as (cmds2 & Hd2 & He2).
    exists (cmds1 ++ cmds2). unfold emitted_plain in *. cbn [flat_map]. split.
    + rewrite Hdec, Hd2. reflexivity.
    + rewrite Hex, He2. reflexivity.
Qed.

(* ------------------------------------------------------------------ elision_transparent *)
Lemma elision_transparent_generic (d0 d1 : Z -> bool) cs :
  Forall call_ok cs ->
  run_stream (snd (emit_all_gen d0 d1 est_init cs)) = Some (ref_events [] cs).
Proof.
  intros Hok. destruct (run_correct d0 d1 cs est_init [] (inv_init d0 d1) Hok) as (cmds & Hd & He).
  unfold run_stream. rewrite Hd, He. reflexivity.
Qed.

Lemma elision_transparent_lemma cs :
  Forall call_ok cs ->
  run_stream (emitted cs) = Some (ref_events [] cs) /\
  run_stream (emitted_plain cs) = Some (ref_events [] cs).
Proof.
  intros Hok. split.
  - apply elision_transparent_generic. exact Hok.
  - destruct (plain_correct cs [] Hok) as (cmds & Hd & He). unfold run_stream. rewrite Hd, He. reflexivity.
Qed.

(* the snapshots of the reference are the last written values, key by key *)
Lemma rget_regs_after k cs : forall r, rget k (regs_after r cs) = last_written k cs (rget k r).
Proof.
  induction cs as [|c t IH]; intros r; [reflexivity|].
  unfold regs_after in *. cbn [fold_left last_written]. rewrite IH. unfold step_regs.
  destruct (write_of c) as [[k' v]|]; [|reflexivity].
  rewrite rget_rset. destruct (k' =? k); reflexivity.
Qed.

Lemma ref_events_app r pre post :
  ref_events r (pre ++ post) = ref_events r pre ++ ref_events (regs_after r pre) post.
Proof.
  revert r. induction pre as [|c t IH]; intros r; [reflexivity|].
  cbn [app ref_events]. rewrite IH. rewrite <- app_assoc. reflexivity.
Qed.

Lemma ref_events_length r cs : List.length (ref_events r cs) = count_ops cs.
Proof.
  revert r. induction cs as [|c t IH]; intros r; [reflexivity|].
  cbn [ref_events]. rewrite app_length, IH. unfold count_ops, step_events. cbn [filter].
  destruct (op_of c) as [[? ?]|]; reflexivity.
Qed.

(* at EVERY operation command the decoded register file holds, on every key, the last value written
   by the calls before it (all writes counted, elided or not) *)
Lemma elision_pointwise_lemma pre code p post :
  Forall call_ok (pre ++ DoOp code p :: post) ->
  exists evs1 snap evs2,
    run_stream (emitted (pre ++ DoOp code p :: post)) =
      Some (evs1 ++ classify code (p mod 65536) snap :: evs2) /\
    List.length evs1 = count_ops pre /\
    forall k, rget k snap = last_written k pre 0.
Proof.
  intros Hok. destruct (elision_transparent_lemma _ Hok) as [H _].
  exists (ref_events [] pre), (regs_after [] pre), (ref_events (regs_after [] pre) post).
  split; [|split].
  - rewrite H, ref_events_app. cbn [ref_events step_events op_of step_regs write_of app]. reflexivity.
  - apply ref_events_length.
  - intros k. rewrite rget_regs_after. reflexivity.
Qed.

(* every member of cmd0 / cmd1 is in the opcode range of its class; register opcodes start at 256 *)
Lemma cmd0_table_codes_ok : forallb (fun p => (0 <=? fst p) && (fst p <? 1024)) cmd0_dma_table = true.
Proof. vm_compute. reflexivity. Qed.
Lemma cmd1_table_codes_ok : forallb (fun p => (0 <=? fst p) && (fst p <? 1024)) cmd1_dma_table = true.
Proof. vm_compute. reflexivity. Qed.
Lemma tables_match_opcodes :
  map fst cmd0_dma_table = cmd0_codes /\ map fst cmd1_dma_table = cmd1_codes.
Proof. split; vm_compute; reflexivity. Qed.
(* the split that the emitter makes: exactly the DMA0 registers and DMA_START/DMA_WAIT use machine 1 *)
Lemma dma_split :
  map fst (filter snd cmd0_dma_table) =
    [cmd0_NPU_OP_DMA_START; cmd0_NPU_OP_DMA_WAIT; cmd0_NPU_SET_DMA0_SRC_REGION; cmd0_NPU_SET_DMA0_DST_REGION;
     cmd0_NPU_SET_DMA0_SIZE0; cmd0_NPU_SET_DMA0_SIZE1] /\
  map fst (filter snd cmd1_dma_table) =
    [cmd1_NPU_SET_DMA0_SRC; cmd1_NPU_SET_DMA0_DST; cmd1_NPU_SET_DMA0_LEN; cmd1_NPU_SET_DMA0_SKIP0;
     cmd1_NPU_SET_DMA0_SKIP1].
Proof. split; vm_compute; reflexivity. Qed.
Lemma one_bank : n_banks = 1.
Proof. reflexivity. Qed.

Example elision_example :
  let cs := [Cmd0 cmd0_NPU_SET_IFM_REGION 1; Cmd1Address cmd1_NPU_SET_IFM_BASE0 (5 * 4294967296 + 64);
             Cmd0 cmd0_NPU_SET_DMA0_SRC_REGION 0; DoOp cmd0_NPU_OP_CONV 0;
             Cmd0 cmd0_NPU_SET_IFM_REGION 1; Cmd0 cmd0_NPU_SET_IFM_REGION (65536 + 1);
             Cmd1Address cmd1_NPU_SET_IFM_BASE0 (5 * 4294967296 + 64);
             Wait cmd0_NPU_OP_DMA_WAIT 0 0; DoOp cmd0_NPU_OP_DMA_START 0; DoOp cmd0_NPU_OP_STOP 65535] in
  Forall call_ok cs /\ List.length (emitted cs) = 8%nat /\ List.length (emitted_plain cs) = 12%nat /\
  run_stream (emitted cs) = Some (ref_events [] cs).
Proof.
  cbv zeta. split; [|split; [|split]].
  - repeat constructor; cbn; vm_compute; intuition discriminate.
  - vm_compute. reflexivity.
  - vm_compute. reflexivity.
  - vm_compute. reflexivity.
Qed.

(* ------------------------------------------------------------------ no_truncation *)
Lemma mask16_id_iff p : Z.land p 65535 = p <-> 0 <= p < 65536.
Proof.
  rewrite land16. split; intros H.
  - rewrite <- H. apply mod16_range.
  - apply Z.mod_small. exact H.
Qed.

Lemma mask32_id_iff p : Z.land p 4294967295 = p <-> 0 <= p < 4294967296.
Proof.
  rewrite land32. split; intros H.
  - rewrite <- H. apply mod32_range.
  - apply Z.mod_small. exact H.
Qed.

(* signed fields (zero points, activation clamps, scalar): the 16-bit two's complement view *)
Lemma s16_mask_id_iff p : s16 (Z.land p 65535) = p <-> -32768 <= p < 32768.
Proof.
  rewrite land16. unfold s16. pose proof (mod16_range p) as Hr.
  destruct (Z.ltb_spec (p mod 65536) 32768); split; intros H0; Z.div_mod_to_equations; lia.
Qed.

(* cmd1_with_address: 32 payload bits + 16 parameter bits *)
Lemma addr48_id_iff a : addr_lo a + addr_hi a * 4294967296 = a <-> 0 <= a < 281474976710656.
Proof.
  unfold addr_lo, addr_hi. rewrite land16, land32, shiftr32.
  split; intros H; Z.div_mod_to_equations; lia.
Qed.

Lemma write_of_masks :
  (forall code p, write_of (Cmd0 code p) = Some (code, Z.land p 65535)) /\
  (forall code off p, write_of (Cmd1Offset code off p) =
                      Some (1024 + code, Z.land off 4294967295 + Z.land p 65535 * 4294967296)) /\
  (forall code a, write_of (Cmd1Address code a) = Some (1024 + code, addr_lo a + addr_hi a * 4294967296)).
Proof.
  repeat split; intros; cbn [write_of]; unfold addr_lo, addr_hi; rewrite ?land16, ?land32, ?shiftr32; reflexivity.
Qed.

Lemma some_pair_inj (k v1 v2 : Z) : Some (k, v1) = Some (k, v2) <-> v1 = v2.
Proof. split; intros H; [congruence|subst; reflexivity]. Qed.

Lemma no_truncation_lemma :
  (forall code p, write_of (Cmd0 code p) = Some (code, p) <-> 0 <= p < 65536) /\
  (forall code p, (exists v, write_of (Cmd0 code p) = Some (code, v) /\ s16 v = p) <-> -32768 <= p < 32768) /\
  (forall code off p, 0 <= p < 65536 ->
     (write_of (Cmd1Offset code off p) = Some (1024 + code, off + p * 4294967296) <-> 0 <= off < 4294967296)) /\
  (forall code off p, 0 <= off < 4294967296 ->
     (write_of (Cmd1Offset code off p) = Some (1024 + code, off + p * 4294967296) <-> 0 <= p < 65536)) /\
  (forall code a, write_of (Cmd1Address code a) = Some (1024 + code, a) <-> 0 <= a < 281474976710656).
Proof.
  split; [|split; [|split; [|split]]].
  - intros code p. cbn [write_of]. rewrite <- mask16_id_iff, land16. split; intros H.
    + injection H as H. exact H.
    + rewrite H. reflexivity.
  - intros code p. rewrite <- s16_mask_id_iff, land16. cbn [write_of]. split.
    + intros (v & H & Hs). injection H as <-. exact Hs.
    + intros H. exists (p mod 65536). split; [reflexivity|exact H].
  - intros code off p Hp. cbn [write_of]. rewrite (Z.mod_small p) by exact Hp. split; intros H.
    + injection H as H. pose proof (mod32_range off). lia.
    + rewrite (Z.mod_small off) by exact H. reflexivity.
  - intros code off p Ho. cbn [write_of]. rewrite (Z.mod_small off) by exact Ho. split; intros H.
    + injection H as H. pose proof (mod16_range p). lia.
    + rewrite (Z.mod_small p) by exact H. reflexivity.
  - intros code a. rewrite <- addr48_id_iff. destruct write_of_masks as (_ & _ & H3). rewrite H3.
    apply some_pair_inj.
Qed.

Example no_truncation_example :
  write_of (Cmd0 cmd0_NPU_SET_OFM_HEIGHT_M1 69999) = Some (cmd0_NPU_SET_OFM_HEIGHT_M1, 4463) /\
  write_of (Cmd0 cmd0_NPU_SET_OFM_HEIGHT_M1 65535) = Some (cmd0_NPU_SET_OFM_HEIGHT_M1, 65535).
Proof. split; reflexivity. Qed.

(* ------------------------------------------------------------------ finite sweeps *)
Fixpoint zrange (lo : Z) (n : nat) : list Z :=
  match n with O => [] | S n' => lo :: zrange (lo + 1) n' end.
Lemma in_zrange x n : forall lo, lo <= x < lo + Z.of_nat n -> In x (zrange lo n).
Proof.
  induction n as [|n IH]; intros lo H; [cbn in H; lia|].
  cbn [zrange]. destruct (Z.eq_dec x lo) as [->|Hne]; [now left|right].
  apply IH. rewrite Nat2Z.inj_succ in H. lia.
Qed.
Lemma sweep (P : Z -> bool) lo n :
  forallb P (zrange lo n) = true -> forall x, lo <= x < lo + Z.of_nat n -> P x = true.
Proof. intros H x Hx. rewrite forallb_forall in H. apply H. apply in_zrange. exact Hx. Qed.

Definition b2z (b : bool) : Z := if b then 1 else 0.

(* KERNEL_STRIDE: strides 1..16 (one low bit + three extension bits each), dilation 1..2, traversal bit:
   below 4096 and every sub-field reads back (k_stride_x / k_stride_y are hw/Npu.v's readers) *)
Definition kstride_ok (sx sy dx dy : Z) (pk : bool) : bool :=
  let f := kernel_stride_field sx sy dx dy pk in
  (0 <=? f) && (f <? 4096) && (k_stride_x f =? sx) && (k_stride_y f =? sy) &&
  ((f / 8) mod 2 =? dx - 1) && ((f / 16) mod 2 =? dy - 1) && ((f / 4) mod 2 =? b2z pk).

Lemma kstride_sweep :
  forallb (fun sx => forallb (fun sy => forallb (fun dx => forallb (fun dy =>
     kstride_ok sx sy dx dy false && kstride_ok sx sy dx dy true) (zrange 1 2)) (zrange 1 2)) (zrange 1 16)) (zrange 1 16)
  = true.
Proof. vm_compute. reflexivity. Qed.

Lemma kernel_stride_fits sx sy dx dy pk :
  1 <= sx <= 16 -> 1 <= sy <= 16 -> 1 <= dx <= 2 -> 1 <= dy <= 2 ->
  kstride_ok sx sy dx dy pk = true.
Proof.
  intros Hsx Hsy Hdx Hdy.
  pose proof (sweep _ _ _ kstride_sweep sx ltac:(cbn; lia)) as H1. cbv beta in H1.
  pose proof (sweep _ _ _ H1 sy ltac:(cbn; lia)) as H2. cbv beta in H2.
  pose proof (sweep _ _ _ H2 dx ltac:(cbn; lia)) as H3. cbv beta in H3.
  pose proof (sweep _ _ _ H3 dy ltac:(cbn; lia)) as H4. cbv beta in H4.
  apply andb_prop in H4 as [Hf Ht]. destruct pk; assumption.
Qed.

(* a stride or dilation outside these limits corrupts a neighbouring field *)
Example kernel_stride_dilation3_collides :
  (kernel_stride_field 1 1 3 1 false / 16) mod 2 = 1.
Proof. reflexivity. Qed.

(* IFM/IFM2_PRECISION and OFM_PRECISION *)
Definition bits_ok (bits : Z) : bool := (bits =? 8) || (bits =? 16) || (bits =? 32).
Definition ifm_prec_ok (sg : bool) (bits : Z) (b16 : bool) (ots : Z) : bool :=
  let f := ifm_precision_field sg bits b16 ots in
  (0 <=? f) && (f <? 65536) && (f mod 2 =? b2z sg) && (prec_elem_ifm f =? bits / 8) &&
  Bool.eqb (prec_b16 f) b16 && ((f / 256) mod 4 =? ots) && ((f / 4) mod 4 =? precision_of_bits bits).
Definition ofm_prec_ok (sg : bool) (bits : Z) (gs b16 : bool) (rnd : Z) : bool :=
  let f := ofm_precision_field sg bits gs b16 rnd in
  (0 <=? f) && (f <? 65536) && (f mod 2 =? b2z sg) && (prec_elem_ofm f =? bits / 8) &&
  Bool.eqb (prec_b16 f) b16 && ((f / 256) mod 2 =? b2z gs) && ((f / 16384) mod 4 =? rnd).

Lemma precision_sweep :
  forallb (fun sg => forallb (fun bits => forallb (fun b16 => forallb (fun x =>
     ifm_prec_ok sg bits b16 x && ofm_prec_ok sg bits false b16 x && ofm_prec_ok sg bits true b16 x)
     (zrange 0 3)) [false; true]) [8; 16; 32]) [false; true] = true.
Proof. vm_compute. reflexivity. Qed.

Lemma precision_fits sg bits gs b16 x :
  bits_ok bits = true -> 0 <= x <= 2 ->
  ifm_prec_ok sg bits b16 x = true /\ ofm_prec_ok sg bits gs b16 x = true.
Proof.
  intros Hb Hx. pose proof precision_sweep as H. rewrite forallb_forall in H.
  specialize (H sg ltac:(destruct sg; cbn; auto)). rewrite forallb_forall in H.
  assert (Hin : In bits [8; 16; 32]).
  { unfold bits_ok in Hb. apply orb_prop in Hb as [Hb|Hb]; [apply orb_prop in Hb as [Hb|Hb]|];
      apply Z.eqb_eq in Hb; subst; cbn; auto. }
  specialize (H bits Hin). rewrite forallb_forall in H.
  specialize (H b16 ltac:(destruct b16; cbn; auto)).
  pose proof (sweep _ _ _ H x ltac:(cbn; lia)) as H4. cbv beta in H4.
  apply andb_prop in H4 as [H4 H5]. apply andb_prop in H4 as [H4 H6].
  split; [exact H4|destruct gs; assumption].
Qed.

(* ACTIVATION for a table lookup, IFM2_BROADCAST *)
Lemma activation_lut_fits idx i32 :
  0 <= idx < 8 ->
  let f := activation_lut_field idx i32 in
  0 <= f < 65536 /\ f mod 4096 = 16 + idx /\ f / 4096 = (if i32 then 3 else 0).
Proof.
  intros H. assert (Hin : In idx (zrange 0 8)) by (apply in_zrange; cbn; lia).
  cbn in Hin. destruct i32; repeat (destruct Hin as [<-|Hin]; [vm_compute; repeat split; congruence|]);
    destruct Hin.
Qed.

Lemma broadcast_fits rv sc bh bw bc :
  let f := broadcast_field rv sc bh bw bc in
  0 <= f < 256 /\ (f / 64) mod 2 = b2z rv /\ (f / 128) mod 2 = b2z sc /\
  (sc = false -> f mod 2 = b2z bh /\ (f / 2) mod 2 = b2z bw /\ (f / 4) mod 2 = b2z bc).
Proof.
  destruct rv, sc, bh, bw, bc; vm_compute; repeat split; try congruence; intros; try discriminate.
Qed.

(* sizes: HEIGHT_M1 etc. of a dimension 1..65536; KERNEL_*_M1 of a dilated kernel *)
Lemma m1_fits x : 1 <= x <= 65536 -> 0 <= x - 1 < 65536 /\ Z.land (x - 1) 65535 + 1 = x.
Proof. intros H. split; [lia|]. rewrite (proj2 (mask16_id_iff (x - 1))); lia. Qed.

Lemma kernel_size_fits dil size :
  1 <= dil <= 2 -> 1 <= size <= 32768 ->
  0 <= kernel_size_field dil size < 65536.
Proof. intros Hd Hs. unfold kernel_size_field. nia. Qed.

(* 40-bit addresses (and anything below 2^48) survive the split over payload word and parameter *)
Lemma address_fits a :
  0 <= a < 1099511627776 ->
  addr_lo a + addr_hi a * 4294967296 = a /\ 0 <= addr_hi a < 256 /\ 0 <= addr_lo a < 4294967296.
Proof.
  intros H. split; [apply addr48_id_iff; lia|].
  unfold addr_lo, addr_hi. rewrite land16, land32, shiftr32. split; Z.div_mod_to_equations; lia.
Qed.

(* zero points within the data type's range survive the 16-bit field (read signed or unsigned as the type is) *)
Lemma zero_point_fits (sg : bool) bits zp :
  bits_ok bits = true -> bits <= 16 ->
  (if sg then - 2 ^ (bits - 1) <= zp < 2 ^ (bits - 1) else 0 <= zp < 2 ^ bits) ->
  (if sg then s16 (Z.land zp 65535) = zp else Z.land zp 65535 = zp).
Proof.
  intros Hb H16 Hr. unfold bits_ok in Hb.
  assert (Hbits : bits = 8 \/ bits = 16).
  { apply orb_prop in Hb as [Hb|Hb]; [apply orb_prop in Hb as [Hb|Hb]|]; apply Z.eqb_eq in Hb; lia. }
  destruct sg.
  - apply s16_mask_id_iff. destruct Hbits as [-> | ->]; cbn in Hr; lia.
  - apply mask16_id_iff. destruct Hbits as [-> | ->]; cbn in Hr; lia.
Qed.

(* default strides of a legal feature map are non-negative and fit the 40-bit cmd1_with_address range *)
Lemma default_strides_fit b16 elem w d :
  1 <= elem <= 4 -> 1 <= w <= 65536 -> 1 <= d <= 65536 ->
  let '(sc, sy, sx) := default_strides b16 elem w d in
  0 <= sc < 1099511627776 /\ 0 <= sy < 1099511627776 /\ 0 <= sx < 1099511627776.
Proof.
  intros He Hw Hd. unfold default_strides. destruct b16.
  - assert (Hq : 1 <= (d + 15) / 16 <= 4096) by (Z.div_mod_to_equations; lia).
    set (q := (d + 15) / 16) in *.
    assert (Hew : 1 <= elem * w <= 262144) by nia.
    replace (16 * elem * w) with (16 * (elem * w)) by ring.
    replace (elem * w * (q * 16)) with ((elem * w) * (q * 16)) by ring.
    set (ew := elem * w) in *. repeat split; nia.
  - assert (Hed : 1 <= d * elem <= 262144) by nia.
    set (de := d * elem) in *. repeat split; nia.
Qed.

Lemma field_fits_lemma :
  (forall x, 1 <= x <= 65536 -> 0 <= x - 1 < 65536 /\ Z.land (x - 1) 65535 + 1 = x) /\
  (forall dil size, 1 <= dil <= 2 -> 1 <= size <= 32768 -> 0 <= kernel_size_field dil size < 65536) /\
  (forall sx sy dx dy pk, 1 <= sx <= 16 -> 1 <= sy <= 16 -> 1 <= dx <= 2 -> 1 <= dy <= 2 ->
     kstride_ok sx sy dx dy pk = true) /\
  (forall sg bits gs b16 x, bits_ok bits = true -> 0 <= x <= 2 ->
     ifm_prec_ok sg bits b16 x = true /\ ofm_prec_ok sg bits gs b16 x = true) /\
  (forall idx i32, 0 <= idx < 8 ->
     let f := activation_lut_field idx i32 in
     0 <= f < 65536 /\ f mod 4096 = 16 + idx /\ f / 4096 = (if i32 then 3 else 0)) /\
  (forall rv sc bh bw bc, 0 <= broadcast_field rv sc bh bw bc < 256) /\
  (forall a, 0 <= a < 1099511627776 ->
     addr_lo a + addr_hi a * 4294967296 = a /\ 0 <= addr_hi a < 256 /\ 0 <= addr_lo a < 4294967296) /\
  (forall (sg : bool) bits zp, bits_ok bits = true -> bits <= 16 ->
     (if sg then - 2 ^ (bits - 1) <= zp < 2 ^ (bits - 1) else 0 <= zp < 2 ^ bits) ->
     (if sg then s16 (Z.land zp 65535) = zp else Z.land zp 65535 = zp)) /\
  (forall b16 elem w d, 1 <= elem <= 4 -> 1 <= w <= 65536 -> 1 <= d <= 65536 ->
     let '(sc, sy, sx) := default_strides b16 elem w d in
     0 <= sc < 1099511627776 /\ 0 <= sy < 1099511627776 /\ 0 <= sx < 1099511627776).
Proof.
  exact (conj m1_fits (conj kernel_size_fits (conj kernel_stride_fits (conj precision_fits
        (conj activation_lut_fits (conj (fun rv sc bh bw bc => proj1 (broadcast_fits rv sc bh bw bc))
        (conj address_fits (conj zero_point_fits default_strides_fit)))))))).
Qed.

Example field_fits_example :
  kernel_stride_field 2 1 1 1 true = 5 /\ ifm_precision_field true 16 true 0 = 69 /\
  ofm_precision_field false 8 true false 2 = 33024 /\ kernel_size_field 2 3 = 4.
Proof. repeat split; reflexivity. Qed.

(* ------------------------------------------------------------------ stream_wellformed *)
Lemma emit_all_gen_app d0 d1 a : forall s b,
  emit_all_gen d0 d1 s (a ++ b) =
  let '(s1, w1) := emit_all_gen d0 d1 s a in
  let '(s2, w2) := emit_all_gen d0 d1 s1 b in (s2, w1 ++ w2).
Proof.
  induction a as [|c t IH]; intros s b.
  - cbn. destruct (emit_all_gen d0 d1 s b). reflexivity.
  - cbn [app emit_all_gen]. destruct (emit_gen d0 d1 s c) as [s1 w1]. rewrite IH.
    destruct (emit_all_gen d0 d1 s1 t) as [s2 w2]. destruct (emit_all_gen d0 d1 s2 b) as [s3 w3].
    rewrite app_assoc. reflexivity.
Qed.

Lemma opt_app_app c1 c2 o : opt_app c1 (opt_app c2 o) = opt_app (c1 ++ c2) o.
Proof. destruct o; cbn; [rewrite app_assoc|]; reflexivity. Qed.

(* the commands one call decodes to, whatever the emitter state: writes give 0 or 1 write commands,
   waits and operations exactly their command *)
Lemma step_shape d0 d1 s c s' ws :
  call_ok c -> emit_gen d0 d1 s c = (s', ws) ->
  exists cmds,
    (forall rest, decode (ws ++ rest) = opt_app cmds (decode rest)) /\
    match op_of c with
    | Some (code, param) => cmds = [Cmd false code param 0]
    | None => forallb cmd_is_write cmds = true
    end.
Proof.
  intros Hok Hem. destruct c as [code p|code off p|code a|code ch cnt|code p]; cbn [call_ok] in Hok;
    cbn [op_of]; cbn [emit_gen] in Hem.
  - unfold emit_cmd0 in Hem. rewrite land16 in Hem. pose proof (mod16_range p).
    rewrite word0 in Hem by lia. destruct (set_register _ _ _) as [rm [|]]; injection Hem as <- <-.
    + exists [Cmd false code (p mod 65536) 0]. split; [intros; cbn [app]; apply decode_word0; lia|].
      cbn. destruct (Z.leb_spec 256 code); [reflexivity|lia].
    + exists []. split; [intros rest; cbn; destruct (decode rest); reflexivity|reflexivity].
  - unfold emit_cmd1 in Hem. rewrite land16, land32 in Hem. pose proof (mod16_range p).
    rewrite word1 in Hem by lia. destruct (set_register _ _ _) as [rm [|]]; injection Hem as <- <-.
    + exists [Cmd true code (p mod 65536) (off mod 4294967296)].
      split; [intros; cbn [app]; apply decode_word1; lia|reflexivity].
    + exists []. split; [intros rest; cbn; destruct (decode rest); reflexivity|reflexivity].
  - unfold emit_cmd1 in Hem. rewrite land16, land32, shiftr32 in Hem. pose proof (mod16_range (a / 4294967296)).
    rewrite word1 in Hem by lia. destruct (set_register _ _ _) as [rm [|]]; injection Hem as <- <-.
    + exists [Cmd true code ((a / 4294967296) mod 65536) (a mod 4294967296)].
      split; [intros; cbn [app]; apply decode_word1; lia|reflexivity].
    + exists []. split; [intros rest; cbn; destruct (decode rest); reflexivity|reflexivity].
  - rewrite land16 in Hem. pose proof (mod16_range (16 * ch + cnt)). rewrite word0' in Hem by lia.
    injection Hem as <- <-. exists [Cmd false code ((16 * ch + cnt) mod 65536) 0].
    split; [intros; cbn [app]; apply decode_word0; lia|reflexivity].
  - rewrite land16 in Hem. pose proof (mod16_range p). rewrite word0' in Hem by lia.
    injection Hem as <- <-. exists [Cmd false code (p mod 65536) 0].
    split; [intros; cbn [app]; apply decode_word0; lia|reflexivity].
Qed.

Lemma writes_shape d0 d1 cs : forall s,
  Forall call_ok cs -> forallb is_write_call cs = true ->
  exists cmds,
    (forall rest, decode (snd (emit_all_gen d0 d1 s cs) ++ rest) = opt_app cmds (decode rest)) /\
    forallb cmd_is_write cmds = true.
Proof.
  induction cs as [|c t IH]; intros s Hok Hw.
  - exists []. split; [intros rest; cbn; destruct (decode rest); reflexivity|reflexivity].
  - inversion Hok as [|? ? Hc Ht]; subst. cbn [forallb] in Hw. apply andb_prop in Hw as [Hwc Hwt].
    cbn [emit_all_gen]. destruct (emit_gen d0 d1 s c) as [s1 w1] eqn:H1.
    destruct (step_shape d0 d1 s c s1 w1 Hc H1) as (c1 & Hd1 & Hs1).
    assert (Hop : op_of c = None) by (destruct c; cbn in Hwc; try discriminate; reflexivity).
    rewrite Hop in Hs1.
    destruct (IH s1 Ht Hwt) as (c2 & Hd2 & Hs2).
    destruct (emit_all_gen d0 d1 s1 t) as [s2 w2]. cbn [snd] in *.
    exists (c1 ++ c2). split.
    + intros rest. rewrite <- app_assoc, Hd1, Hd2. apply opt_app_app.
    + rewrite forallb_app, Hs1, Hs2. reflexivity.
Qed.

Lemma ops_shape d0 d1 cs : forall s,
  Forall call_ok cs -> forallb (fun c => negb (is_write_call c)) cs = true ->
  forall rest, decode (snd (emit_all_gen d0 d1 s cs) ++ rest) =
               opt_app (flat_map (fun c => match op_of c with Some (code, param) => [Cmd false code param 0]
                                                         | None => [] end) cs) (decode rest).
Proof.
  induction cs as [|c t IH]; intros s Hok Hw rest.
  - cbn. destruct (decode rest); reflexivity.
  - inversion Hok as [|? ? Hc Ht]; subst. cbn [forallb] in Hw. apply andb_prop in Hw as [Hwc Hwt].
    cbn [emit_all_gen]. destruct (emit_gen d0 d1 s c) as [s1 w1] eqn:H1.
    destruct (step_shape d0 d1 s c s1 w1 Hc H1) as (c1 & Hd1 & Hs1).
    specialize (IH s1 Ht Hwt rest).
    destruct (emit_all_gen d0 d1 s1 t) as [s2 w2]. cbn [snd] in *.
    rewrite <- app_assoc, Hd1, IH, opt_app_app. cbn [flat_map].
    destruct c; cbn in Hwc; try discriminate; cbn [op_of] in *; subst c1; reflexivity.
Qed.

Lemma frame_shape d0 d1 f s :
  frame_ok f ->
  exists ws,
    (forall rest, decode (snd (emit_all_gen d0 d1 s (frame_calls f)) ++ rest) =
                  opt_app (ws ++ wait_cmds f ++ [op_cmd f]) (decode rest)) /\
    forallb cmd_is_write ws = true.
Proof.
  intros (Hregs & Hwr & Hop).
  set (wr := f_regs f ++ match f_blockdep f with Some b => [Cmd0 cmd0_NPU_SET_BLOCKDEP b] | None => [] end).
  set (ops := frame_waits f ++ [DoOp (f_opcode f) (f_opparam f)]).
  assert (Hfc : frame_calls f = wr ++ ops).
  { unfold frame_calls, wr, ops. rewrite <- !app_assoc. reflexivity. }
  assert (Hwok : Forall call_ok wr).
  { unfold wr. apply Forall_app. split; [exact Hregs|].
    destruct (f_blockdep f); constructor; [cbn; vm_compute; intuition discriminate|constructor]. }
  assert (Hww : forallb is_write_call wr = true).
  { unfold wr. rewrite forallb_app, Hwr. destruct (f_blockdep f); reflexivity. }
  assert (Hcode : 0 <= f_opcode f < 256).
  { unfold op_code_ok, is_block_op in Hop.
    repeat (apply orb_prop in Hop as [Hop|Hop]); apply Z.eqb_eq in Hop; rewrite Hop; vm_compute;
      intuition discriminate. }
  assert (Hook : Forall call_ok ops).
  { unfold ops, frame_waits. repeat (apply Forall_app; split).
    - destruct (0 <=? f_kwait f); constructor; [cbn; vm_compute; intuition discriminate|constructor].
    - destruct (0 <=? f_dwait f); constructor; [cbn; vm_compute; intuition discriminate|constructor].
    - constructor; [exact Hcode|constructor]. }
  assert (Hoo : forallb (fun c => negb (is_write_call c)) ops = true).
  { unfold ops, frame_waits. rewrite !forallb_app.
    destruct (0 <=? f_kwait f), (0 <=? f_dwait f); reflexivity. }
  rewrite Hfc, emit_all_gen_app.
  destruct (emit_all_gen d0 d1 s wr) as [s1 w1] eqn:H1.
  destruct (writes_shape d0 d1 wr s Hwok Hww) as (ws & Hd1 & Hs1). rewrite H1 in Hd1. cbn [snd] in Hd1.
  pose proof (ops_shape d0 d1 ops s1 Hook Hoo) as Hd2.
  destruct (emit_all_gen d0 d1 s1 ops) as [s2 w2]. cbn [snd] in *.
  exists ws. split; [|exact Hs1].
  intros rest. rewrite <- app_assoc, Hd1, Hd2, opt_app_app. f_equal. f_equal.
  unfold ops, frame_waits, wait_cmds, op_cmd. rewrite !flat_map_app.
  destruct (0 <=? f_kwait f), (0 <=? f_dwait f); cbn [flat_map op_of app]; rewrite ?Z.mul_0_r, ?Z.add_0_l;
    reflexivity.
Qed.

Lemma frames_shape d0 d1 fs : forall s,
  Forall frame_ok fs ->
  exists cmds,
    (forall rest, decode (snd (emit_all_gen d0 d1 s (flat_map frame_calls fs)) ++ rest) =
                  opt_app cmds (decode rest)) /\
    framed cmds fs.
Proof.
  induction fs as [|f t IH]; intros s Hok.
  - exists []. split; [intros rest; cbn; destruct (decode rest); reflexivity|constructor].
  - inversion Hok as [|? ? Hf Ht]; subst. cbn [flat_map]. rewrite emit_all_gen_app.
    destruct (frame_shape d0 d1 f s Hf) as (ws & Hd1 & Hs1).
    destruct (emit_all_gen d0 d1 s (frame_calls f)) as [s1 w1]. cbn [snd] in Hd1.
    destruct (IH s1 Ht) as (c2 & Hd2 & Hfr).
    destruct (emit_all_gen d0 d1 s1 (flat_map frame_calls t)) as [s2 w2]. cbn [snd] in *.
    exists (ws ++ wait_cmds f ++ op_cmd f :: c2). split.
    + intros rest. rewrite <- app_assoc, Hd1, Hd2, opt_app_app. f_equal.
      rewrite <- !app_assoc. reflexivity.
    + constructor; assumption.
Qed.

Definition stop_cmd : cmd := Cmd false cmd0_NPU_OP_STOP 65535 0.

Lemma write_not_stop c : cmd_is_write c = true -> cmd_is_stop c = false.
Proof.
  unfold cmd_is_write, cmd_is_stop. destruct (c_pay c); [reflexivity|]. cbn.
  intros H. destruct (Z.leb_spec 256 (c_code c)); [|discriminate].
  destruct (Z.eqb_spec (c_code c) cmd0_NPU_OP_STOP) as [He|]; [|reflexivity].
  rewrite He in *. vm_compute in H0. exfalso. apply H0. reflexivity.
Qed.

Lemma writes_no_stop ws : forallb cmd_is_write ws = true -> filter cmd_is_stop ws = [].
Proof.
  induction ws as [|c t IH]; [reflexivity|]. cbn [forallb filter]. intros H.
  apply andb_prop in H as [Hc Ht]. rewrite (write_not_stop c Hc). apply IH. exact Ht.
Qed.

Lemma framed_no_stop cmds fs : Forall frame_ok fs -> framed cmds fs -> filter cmd_is_stop cmds = [].
Proof.
  intros Hok Hfr. induction Hfr as [|ws f rest fs Hws Hrest IH]; [reflexivity|].
  inversion Hok as [|? ? (Hregs & Hwr & Hop) Ht]; subst.
  rewrite !filter_app, (writes_no_stop ws Hws). cbn [filter app].
  assert (Hw : filter cmd_is_stop (wait_cmds f) = []).
  { unfold wait_cmds. destruct (0 <=? f_kwait f), (0 <=? f_dwait f); reflexivity. }
  rewrite Hw. cbn [app].
  assert (Ho : cmd_is_stop (op_cmd f) = false).
  { unfold cmd_is_stop, op_cmd. cbn [c_pay c_code negb andb].
    unfold op_code_ok, is_block_op in Hop.
    repeat (apply orb_prop in Hop as [Hop|Hop]); apply Z.eqb_eq in Hop; rewrite Hop; reflexivity. }
  rewrite Ho. apply IH. exact Ht.
Qed.

(* the stream of generate_command_stream: optional PARALLEL_MODE write, the frames, one STOP *)
Lemma stream_wellformed_lemma par fs :
  Forall frame_ok fs ->
  exists pre body,
    decode (emitted (stream_calls par fs)) = Some (pre ++ body ++ [stop_cmd]) /\
    forallb cmd_is_write pre = true /\ framed body fs /\
    filter cmd_is_stop (pre ++ body ++ [stop_cmd]) = [stop_cmd] /\
    last (pre ++ body ++ [stop_cmd]) stop_cmd = stop_cmd /\
    exists evs, run_stream (emitted (stream_calls par fs)) = Some (evs ++ [EStop 65535]) /\
                Forall (fun e => match e with EStop _ => False | _ => True end) evs.
Proof.
  intros Hok.
  set (pc := match par with Some n => [Cmd0 cmd0_NPU_SET_PARALLEL_MODE n] | None => [] end).
  assert (Hpok : Forall call_ok pc).
  { unfold pc. destruct par; constructor; [cbn; vm_compute; intuition discriminate|constructor]. }
  assert (Hpw : forallb is_write_call pc = true) by (unfold pc; destruct par; reflexivity).
  unfold emitted, emit_all, stream_calls. fold pc.
  rewrite emit_all_gen_app.
  destruct (writes_shape is_dma0 is_dma1 pc est_init Hpok Hpw) as (pre & Hd0 & Hs0).
  destruct (emit_all_gen is_dma0 is_dma1 est_init pc) as [s0 w0] eqn:E0. cbn [snd] in Hd0.
  rewrite emit_all_gen_app.
  destruct (frames_shape is_dma0 is_dma1 fs s0 Hok) as (body & Hd1 & Hfr).
  destruct (emit_all_gen is_dma0 is_dma1 s0 (flat_map frame_calls fs)) as [s1 w1] eqn:E1. cbn [snd] in Hd1.
  assert (Hstop : Forall call_ok [DoOp cmd0_NPU_OP_STOP 65535]).
  { constructor; [cbn; vm_compute; intuition discriminate|constructor]. }
  pose proof (ops_shape is_dma0 is_dma1 [DoOp cmd0_NPU_OP_STOP 65535] s1 Hstop eq_refl []) as Hd2.
  destruct (emit_all_gen is_dma0 is_dma1 s1 [DoOp cmd0_NPU_OP_STOP 65535]) as [s2 w2] eqn:E2. cbn [snd] in *.
  rewrite app_nil_r in Hd2.
  assert (Hdec : decode (w0 ++ w1 ++ w2) = Some (pre ++ body ++ [stop_cmd])).
  { rewrite Hd0, Hd1, Hd2. reflexivity. }
  exists pre, body. split; [exact Hdec|]. split; [exact Hs0|]. split; [exact Hfr|]. split; [|split].
  - rewrite !filter_app, (writes_no_stop pre Hs0), (framed_no_stop body fs Hok Hfr). reflexivity.
  - rewrite app_assoc. apply last_last.
  - (* event level, through elision_transparent *)
    assert (Hall : Forall call_ok (pc ++ flat_map frame_calls fs ++ [DoOp cmd0_NPU_OP_STOP 65535])).
    { apply Forall_app. split; [exact Hpok|]. apply Forall_app. split; [|exact Hstop].
      apply Forall_flat_map. apply Forall_forall. intros f Hin. rewrite Forall_forall in Hok.
      destruct (Hok f Hin) as (Hregs & Hwr & Hop).
      unfold frame_calls, frame_waits. repeat (apply Forall_app; split); try exact Hregs.
      - destruct (f_blockdep f); constructor; [cbn; vm_compute; intuition discriminate|constructor].
      - destruct (0 <=? f_kwait f); constructor; [cbn; vm_compute; intuition discriminate|constructor].
      - destruct (0 <=? f_dwait f); constructor; [cbn; vm_compute; intuition discriminate|constructor].
      - constructor; [|constructor]. unfold op_code_ok, is_block_op in Hop. cbn [call_ok].
        repeat (apply orb_prop in Hop as [Hop|Hop]); apply Z.eqb_eq in Hop; rewrite Hop; vm_compute;
          intuition discriminate. }
    pose proof (elision_transparent_generic is_dma0 is_dma1 _ Hall) as Hrun.
    rewrite emit_all_gen_app, E0, emit_all_gen_app, E1, E2 in Hrun. cbn [snd] in Hrun.
    rewrite (app_assoc pc (flat_map frame_calls fs) [DoOp cmd0_NPU_OP_STOP 65535]), ref_events_app in Hrun.
    exists (ref_events [] (pc ++ flat_map frame_calls fs)). split.
    + exact Hrun.
    + (* no stop among the events of writes, waits and operations *)
      assert (Hgen : forall cs r, Forall (fun c => match op_of c with
                                                   | Some (code, _) => code <> cmd0_NPU_OP_STOP /\ 0 <= code < 256
                                                   | None => True end) cs ->
                                  Forall (fun e => match e with EStop _ => False | _ => True end) (ref_events r cs)).
      { induction cs as [|c t IH]; intros r Hc; [constructor|].
        inversion Hc as [|? ? H1 H2]; subst. cbn [ref_events]. apply Forall_app. split; [|apply IH; exact H2].
        unfold step_events. destruct (op_of c) as [[code pm]|]; [|constructor].
        constructor; [|constructor]. unfold classify.
        destruct (is_block_op code || (code =? cmd0_NPU_OP_DMA_START)); [exact I|].
        destruct ((code =? cmd0_NPU_OP_KERNEL_WAIT) || (code =? cmd0_NPU_OP_DMA_WAIT)); [exact I|].
        destruct (Z.eqb_spec code cmd0_NPU_OP_STOP); [destruct H1; contradiction|exact I]. }
      apply Hgen. apply Forall_app. split.
      * unfold pc. destruct par; constructor; [exact I|constructor].
      * apply Forall_flat_map. apply Forall_forall. intros f Hin. rewrite Forall_forall in Hok.
        destruct (Hok f Hin) as (Hregs & Hwr & Hop).
        unfold frame_calls, frame_waits. repeat (apply Forall_app; split).
        -- apply Forall_forall. intros c Hc. rewrite forallb_forall in Hwr. specialize (Hwr c Hc).
           destruct c; cbn in Hwr; try discriminate; exact I.
        -- destruct (f_blockdep f); constructor; [exact I|constructor].
        -- destruct (0 <=? f_kwait f); constructor; [cbn; vm_compute; intuition discriminate|constructor].
        -- destruct (0 <=? f_dwait f); constructor; [cbn; vm_compute; intuition discriminate|constructor].
        -- constructor; [|constructor]. cbn [op_of]. unfold op_code_ok, is_block_op in Hop.
           repeat (apply orb_prop in Hop as [Hop|Hop]); apply Z.eqb_eq in Hop; rewrite Hop; vm_compute;
             intuition discriminate.
Qed.

Example stream_wellformed_example :
  let f1 := {| f_regs := [Cmd0 cmd0_NPU_SET_DMA0_SRC_REGION 0; Cmd1Address cmd1_NPU_SET_DMA0_LEN 96];
               f_blockdep := None; f_kwait := -1; f_dwait := -1;
               f_opcode := cmd0_NPU_OP_DMA_START; f_opparam := 0 |} in
  let f2 := {| f_regs := [Cmd0 cmd0_NPU_SET_IFM_REGION 1]; f_blockdep := Some 0; f_kwait := -1; f_dwait := 0;
               f_opcode := cmd0_NPU_OP_CONV; f_opparam := 0 |} in
  Forall frame_ok [f1; f2; f2] /\
  decode (emitted (stream_calls (Some 1) [f1; f2; f2])) =
    Some ([Cmd false cmd0_NPU_SET_PARALLEL_MODE 1 0] ++
          ([Cmd false cmd0_NPU_SET_DMA0_SRC_REGION 0 0; Cmd true cmd1_NPU_SET_DMA0_LEN 0 96] ++ [] ++
           [Cmd false cmd0_NPU_OP_DMA_START 0 0]) ++
          ([Cmd false cmd0_NPU_SET_IFM_REGION 1 0; Cmd false cmd0_NPU_SET_BLOCKDEP 0 0] ++
           [Cmd false cmd0_NPU_OP_DMA_WAIT 0 0] ++ [Cmd false cmd0_NPU_OP_CONV 0 0]) ++
          ([] ++ [Cmd false cmd0_NPU_OP_DMA_WAIT 0 0] ++ [Cmd false cmd0_NPU_OP_CONV 0 0]) ++ [stop_cmd]).
Proof.
  cbv zeta. split.
  - repeat constructor; cbn; vm_compute; intuition discriminate.
  - vm_compute. reflexivity.
Qed.

(* ------------------------------------------------------------------ alignment_checks_complete *)
Lemma mod_eqb_divide a n : 0 < n -> (a mod n =? 0) = true <-> (n | a).
Proof. intros Hn. rewrite Z.eqb_eq. apply Z.mod_divide. lia. Qed.

Lemma alignment_checks_complete_lemma :
  (forall a n, 0 < n -> check_alignment_ok a n = true <-> (n | a)) /\
  (forall a n, 0 < n -> check_size_ok a n = true <-> (n | a)) /\
  (forall (b16 : bool) elem sc sy sx, 0 < elem ->
     check_strides_ok b16 elem sc sy sx = true <->
     (if b16 then (16 | sc) /\ (16 | sy) else (elem | sy) /\ (elem | sx))) /\
  (forall (b16 : bool) elem q16 addrs, 0 < elem -> 0 < q16 ->
     check_addresses_ok b16 elem q16 addrs = true <-> Forall (fun a => ((if b16 then q16 else elem) | a)) addrs) /\
  (forall (u65 : bool) sr sa dr da len,
     check_dma_ok u65 sr sa dr da len = true <->
     (if u65 then (sr = MEM2MEM -> (16 | sa)) /\ (dr = MEM2MEM -> (16 | da) /\ (16 | len))
      else (16 | sa) /\ (16 | da) /\ (16 | len))) /\
  (forall addr len, check_weight_ok addr len = true <-> (16 | addr) /\ (16 | len)) /\
  (forall len, check_bias_ok len = true <-> (16 | len)).
Proof.
  assert (A : forall a n, 0 < n -> check_alignment_ok a n = true <-> (n | a)) by (intros; apply mod_eqb_divide; assumption).
  assert (S : forall a n, 0 < n -> check_size_ok a n = true <-> (n | a)) by (intros; apply mod_eqb_divide; assumption).
  split; [exact A|]. split; [exact S|]. clear A S. split; [|split; [|split; [|split]]].
  - intros b16 elem sc sy sx He. unfold check_strides_ok, check_size_ok.
    destruct b16; rewrite andb_true_iff, !mod_eqb_divide by lia; reflexivity.
  - intros b16 elem q16 addrs He Hq. unfold check_addresses_ok, check_alignment_ok. rewrite forallb_forall, Forall_forall.
    split; intros H a Ha; specialize (H a Ha); apply mod_eqb_divide in H; try exact H; destruct b16; lia.
  - intros u65 sr sa dr da len. unfold check_dma_ok, check_alignment_ok, check_size_ok. destruct u65.
    + rewrite andb_true_iff.
      destruct (Z.eqb_spec sr MEM2MEM) as [Hs|Hs], (Z.eqb_spec dr MEM2MEM) as [Hd|Hd];
        rewrite ?andb_true_iff, ?mod_eqb_divide by lia; intuition.
    + rewrite !andb_true_iff, !mod_eqb_divide by lia. tauto.
  - intros addr len. unfold check_weight_ok, check_alignment_ok, check_size_ok.
    rewrite andb_true_iff, !mod_eqb_divide by lia. reflexivity.
  - intros len. unfold check_bias_ok, check_size_ok. apply mod_eqb_divide. lia.
Qed.

Example alignment_example :
  check_dma_ok true 0 7 MEM2MEM 256 120 = false /\ check_dma_ok true 0 7 2 255 120 = true /\
  check_strides_ok true 2 16 2 16 = false /\ check_strides_ok false 2 16 2 16 = true.
Proof. repeat split; reflexivity. Qed.

(* ------------------------------------------------------------------ the emitter never rejects *)
(* `emit` is total: no call is refused.  So "a value that does not fit its field is rejected" is FALSE for the
   emitter (and no generate_* function checks ranges either, see tools/checks/c06.py malformed stream):
   OFM height 70000 is written as HEIGHT_M1 = 69999 & 0xFFFF = 4463 and the stream decodes to height 4464. *)
Lemma out_of_range_rejected_refuted_lemma :
  exists code p snap,
    call_ok (Cmd0 code p) /\ ~ (0 <= p < 65536) /\
    run_stream (emitted [Cmd0 code p; DoOp cmd0_NPU_OP_POOL 0; DoOp cmd0_NPU_OP_STOP 65535]) = Some [EOp cmd0_NPU_OP_POOL 0 snap; EStop 65535] /\
    rget code snap <> p.
Proof.
  exists cmd0_NPU_SET_OFM_HEIGHT_M1, 69999, [(cmd0_NPU_SET_OFM_HEIGHT_M1, 4463)].
  split; [vm_compute; intuition discriminate|]. split; [lia|]. split; [vm_compute; reflexivity|].
  vm_compute. discriminate.
Qed.

(* ------------------------------------------------------------------ operand order and scale mode *)
(* the rule the generator implements: whatever the operand order, the decoded (operand order, scale mode) pair
   selects for the 32-bit rescale exactly the feature map the reference chose (the one with the smaller scale) *)
Lemma scale_mode_denotes_lemma (reversed ifm_smaller : bool) :
  rescaled_is_ifm reversed (scale_mode reversed (op_to_scale_ref ifm_smaller)) = ifm_smaller.
Proof. destruct reversed, ifm_smaller; reflexivity. Qed.

(* swapping the operands swaps the mode; leaving the mode alone selects the other feature map *)
Lemma scale_mode_swap_lemma (r : bool) m :
  m = scale_OPa \/ m = scale_OPb ->
  scale_mode (negb r) m = swap_operand (scale_mode r m) /\
  rescaled_is_ifm (negb r) (scale_mode r m) = negb (rescaled_is_ifm r (scale_mode r m)).
Proof. intros [-> | ->]; destruct r; split; reflexivity. Qed.

Lemma scale_mode_field_lemma sg bits b16 (r sm : bool) :
  bits_ok bits = true ->
  (ifm_precision_field sg bits b16 (scale_mode r (op_to_scale_ref sm)) / 256) mod 4 = scale_mode r (op_to_scale_ref sm).
Proof.
  intros Hb. assert (Hx : 0 <= scale_mode r (op_to_scale_ref sm) <= 2) by (destruct r, sm; vm_compute; split; discriminate).
  destruct (precision_fits sg bits false b16 _ Hb Hx) as [H _]. unfold ifm_prec_ok in H.
  repeat (apply andb_prop in H as [H ?]). apply Z.eqb_eq. assumption.
Qed.

Example scale_mode_example :
  scale_mode true (op_to_scale_ref true) = 2 /\ scale_mode false (op_to_scale_ref true) = 1 /\
  rescaled_is_ifm true 2 = true /\ rescaled_is_ifm true 1 = false.
Proof. repeat split; reflexivity. Qed.
