(* C07 -- proofs about model/Reorder.v: the brick traversal is a padded permutation of the
   source volume and visits the source positions in the documented nesting order. *)
From Coq Require Import ZArith List Bool Lia FinFun Sorting.Sorted.
From VV Require Import model.Reorder.
Import ListNotations.
Open Scope Z_scope.

(* ------------------------------------------------------------------ ranges *)
Lemma In_zrange n x : In x (zrange n) <-> 0 <= x < n.
Proof.
  unfold zrange. rewrite in_map_iff. split.
  - intros (k & <- & H). apply in_seq in H. lia.
  - intros H. exists (Z.to_nat x). split; [lia|]. apply in_seq. lia.
Qed.

Lemma NoDup_zrange n : NoDup (zrange n).
Proof.
  unfold zrange. apply FinFun.Injective_map_NoDup; [|apply seq_NoDup].
  intros a b H. lia.
Qed.

Lemma In_steps n s x : 0 < s -> (In x (steps n s) <-> 0 <= x < n /\ x mod s = 0).
Proof.
  intros Hs. unfold steps, cdiv. rewrite in_map_iff. split.
  - intros (i & <- & H). apply In_zrange in H. rewrite Z_mod_mult. split; [|reflexivity].
    assert (s * ((n + s - 1) / s) <= n + s - 1) by (apply Z.mul_div_le; lia). nia.
  - intros ((H0 & H1) & Hm). exists (x / s). split.
    + rewrite Z.mul_comm. symmetry. apply Z_div_exact_full_2; lia.
    + apply In_zrange. split; [apply Z.div_pos; lia|].
      apply Z.div_lt_upper_bound; [lia|].
      pose proof (Z.mod_pos_bound (n + s - 1) s Hs).
      pose proof (Z.div_mod (n + s - 1) s). nia.
Qed.

Lemma NoDup_steps n s : 0 < s -> NoDup (steps n s).
Proof.
  intros Hs. unfold steps. apply FinFun.Injective_map_NoDup; [|apply NoDup_zrange].
  intros a b H. nia.
Qed.

Lemma steps_one s x : 0 < s -> In x (steps 1 s) -> x = 0.
Proof. intros Hs H. apply In_steps in H; lia. Qed.

(* two multiples of s that are within s of a common point are equal *)
Lemma mult_unique s x y u v :
  0 < s -> x mod s = 0 -> y mod s = 0 -> 0 <= u < s -> 0 <= v < s -> x + u = y + v -> x = y.
Proof.
  intros Hs Hx Hy Hu Hv E.
  apply Z_div_exact_full_2 in Hx; [|lia]. apply Z_div_exact_full_2 in Hy; [|lia].
  assert (x / s = y / s) by nia. congruence.
Qed.

(* a multiple of u below a multiple b of u leaves room for a whole u *)
Lemma mult_room u b m : 0 < u -> b mod u = 0 -> m mod u = 0 -> m < b -> m + u <= b.
Proof.
  intros Hu Hb Hm Hlt.
  apply Z_div_exact_full_2 in Hb; [|lia]. apply Z_div_exact_full_2 in Hm; [|lia].
  assert (m / u < b / u) by nia. nia.
Qed.

(* ------------------------------------------------------------------ somes *)
Lemma somes_app {A} (l1 l2 : list (option A)) : somes (l1 ++ l2) = somes l1 ++ somes l2.
Proof. induction l1 as [|[a|] t IH]; simpl; [reflexivity| |]; now rewrite IH. Qed.

Lemma in_somes {A} (l : list (option A)) a : In a (somes l) <-> In (Some a) l.
Proof.
  induction l as [|[b|] t IH]; simpl; [tauto| |].
  - rewrite IH. split; intros [H|H]; auto; left; congruence.
  - rewrite IH. split; [auto|]. intros [H|H]; [discriminate|auto].
Qed.

Lemma in_somes_flat_map {A B} (f : B -> list (option A)) l a :
  In a (somes (flat_map f l)) <-> exists x, In x l /\ In a (somes (f x)).
Proof.
  rewrite in_somes, in_flat_map. split; intros (x & H1 & H2); exists x; split; auto; now apply in_somes.
Qed.

Lemma in_somes_map {A B} (f : B -> option A) l a :
  In a (somes (map f l)) <-> exists x, In x l /\ f x = Some a.
Proof.
  rewrite in_somes, in_map_iff. split; intros (x & H1 & H2); exists x; split; auto.
Qed.

Lemma NoDup_app_disj {A} (l1 l2 : list A) :
  NoDup l1 -> NoDup l2 -> (forall a, In a l1 -> In a l2 -> False) -> NoDup (l1 ++ l2).
Proof.
  induction l1 as [|a r IH]; simpl; intros H1 H2 Hd; auto.
  inversion H1; subst. constructor.
  - rewrite in_app_iff. intros [H|H]; [auto|]. eapply Hd; eauto.
  - apply IH; auto. intros b Hb Hb2. eapply Hd; eauto.
Qed.

Lemma NoDup_somes_flat_map {A B} (f : B -> list (option A)) l :
  NoDup l -> (forall x, In x l -> NoDup (somes (f x))) ->
  (forall x y a, In x l -> In y l -> In a (somes (f x)) -> In a (somes (f y)) -> x = y) ->
  NoDup (somes (flat_map f l)).
Proof.
  induction l as [|h t IH]; intros Hnd Hin Hdis; simpl; [constructor|].
  rewrite somes_app. inversion Hnd; subst.
  apply NoDup_app_disj.
  - apply Hin; now left.
  - apply IH; auto; intros; [apply Hin|eapply Hdis]; simpl; eauto.
  - intros a Ha Hb. apply in_somes_flat_map in Hb. destruct Hb as (y & Hy & Hay).
    assert (h = y) by (eapply Hdis; simpl; eauto). subst. auto.
Qed.

Lemma NoDup_somes_map {A B} (f : B -> option A) l :
  NoDup l -> (forall x y a, In x l -> In y l -> f x = Some a -> f y = Some a -> x = y) ->
  NoDup (somes (map f l)).
Proof.
  intros Hnd Hinj.
  assert (E : map f l = flat_map (fun x => [f x]) l).
  { clear. induction l as [|h t IH]; simpl; [reflexivity|now rewrite IH]. }
  rewrite E.
  apply NoDup_somes_flat_map; auto.
  - intros x _. destruct (f x); simpl; repeat constructor; auto.
  - intros x y a Hx Hy Hax Hay. apply (Hinj x y a); auto.
    + destruct (f x); simpl in Hax; [destruct Hax as [->|[]]; auto|destruct Hax].
    + destruct (f y); simpl in Hay; [destruct Hay as [->|[]]; auto|destruct Hay].
Qed.

(* ------------------------------------------------------------------ the innermost body *)
Lemma cell_some c obz ibz sy sx sub_w sub_h iuo ou el iui ozz izz oz wy wx iz :
  cell c obz ibz sy sx sub_w sub_h iuo ou el iui ozz izz = Some (oz, wy, wx, iz) <->
  oz = obz + ou + ozz /\ wy = sy + el / sub_w /\ wx = sx + el mod sub_w /\
  iz = ibz + (iui + iuo) + izz /\ iz < ifm_depth c /\ oz < ofm_depth c /\ el / sub_w < sub_h.
Proof.
  unfold cell.
  destruct (Z.ltb_spec (ibz + (iui + iuo) + izz) (ifm_depth c));
  destruct (Z.ltb_spec (obz + ou + ozz) (ofm_depth c));
  destruct (Z.ltb_spec (el / sub_w) sub_h); simpl;
  (split; [intros E; try discriminate; injection E; intros; subst; repeat split; auto
          | intros (-> & -> & -> & -> & ? & ? & ?); try lia; reflexivity]).
Qed.

Ltac dv Hv :=
  destruct Hv as (Hofd & Hkh & Hkw & Hifd & Houd & Hiud & Hobd & Hdh & Hdw & Hmo & Hmi & Hdwc).

(* turn a membership in one of the loop levels into the loop variables and the cell equations *)
Ltac explode H :=
  lazymatch type of H with
  | In ?a (somes (lv_izz _ _ _ _ _ _ _ _ _ _ _ _)) =>
      unfold lv_izz in H; apply in_somes_map in H;
      let x := fresh "izz" in let Hx := fresh "Hizz" in
      destruct H as (x & Hx & H); apply In_zrange in Hx; apply cell_some in H
  | In _ (somes (lv_ozz _ _ _ _ _ _ _ _ _ _ _)) =>
      unfold lv_ozz in H; apply in_somes_flat_map in H;
      let x := fresh "ozz" in let Hx := fresh "Hozz" in
      destruct H as (x & Hx & H); apply In_zrange in Hx; explode H
  | In _ (somes (lv_iui _ _ _ _ _ _ _ _ _ _ _)) =>
      unfold lv_iui in H; apply in_somes_flat_map in H;
      let x := fresh "iui" in let Hx := fresh "Hiui" in
      destruct H as (x & Hx & H); apply In_steps in Hx; [|lia]; explode H
  | In _ (somes (lv_el _ _ _ _ _ _ _ _ _ _ _)) =>
      unfold lv_el in H; apply in_somes_flat_map in H;
      let x := fresh "el" in let Hx := fresh "Hel" in
      destruct H as (x & Hx & H); apply In_zrange in Hx; explode H
  | In _ (somes (lv_ou _ _ _ _ _ _ _ _ _ _ _)) =>
      unfold lv_ou in H; apply in_somes_flat_map in H;
      let x := fresh "ou" in let Hx := fresh "Hou" in
      destruct H as (x & Hx & H); apply In_steps in Hx; [|lia]; explode H
  | In _ (somes (lv_iuo _ _ _ _ _ _ _ _ _ _ _)) =>
      unfold lv_iuo in H; apply in_somes_flat_map in H;
      let x := fresh "iuo" in let Hx := fresh "Hiuo" in
      destruct H as (x & Hx & H); apply In_steps in Hx; [|lia]; explode H
  | In _ (somes (lv_sx _ _ _ _ _ _ _)) =>
      unfold lv_sx in H; apply in_somes_flat_map in H;
      let x := fresh "sx" in let Hx := fresh "Hsx" in
      destruct H as (x & Hx & H); apply In_steps in Hx; [|lia]; cbv beta zeta in H; explode H
  | In _ (somes (lv_sy _ _ _ _ _)) =>
      unfold lv_sy in H; apply in_somes_flat_map in H;
      let x := fresh "sy" in let Hx := fresh "Hsy" in
      destruct H as (x & Hx & H); apply In_steps in Hx; [|lia]; cbv beta zeta in H; explode H
  | In _ (somes (lv_ibz _ _ _)) =>
      unfold lv_ibz in H; apply in_somes_flat_map in H;
      let x := fresh "ibz" in let Hx := fresh "Hibz" in
      destruct H as (x & Hx & H); apply In_steps in Hx; [|lia]; cbv beta zeta in H; explode H
  end.

Section Levels.
  Variable c : cfg.
  Hypothesis Hv : valid_cfg c.

  Lemma nd_izz obz ibz sy sx sub_w sub_h iuo ou el iui ozz :
    NoDup (somes (lv_izz c obz ibz sy sx sub_w sub_h iuo ou el iui ozz)).
  Proof.
    unfold lv_izz. apply NoDup_somes_map; [apply NoDup_zrange|].
    intros x y [[[oz wy] wx] iz] _ _ E1 E2. apply cell_some in E1, E2. lia.
  Qed.

  Lemma nd_ozz obz ibz sy sx sub_w sub_h iuo ou el iui :
    NoDup (somes (lv_ozz c obz ibz sy sx sub_w sub_h iuo ou el iui)).
  Proof.
    unfold lv_ozz. apply NoDup_somes_flat_map; [apply NoDup_zrange|intros; apply nd_izz|].
    intros x y [[[oz wy] wx] iz] _ _ H1 H2. explode H1. explode H2. lia.
  Qed.

  Lemma izz_bound : (if is_dw c then 1 else ifm_ublock c) <= ifm_ublock c.
  Proof. dv Hv. destruct (is_dw c); lia. Qed.

  Lemma nd_iui obz ibz sy sx sub_w sub_h inner iuo ou el :
    NoDup (somes (lv_iui c obz ibz sy sx sub_w sub_h inner iuo ou el)).
  Proof.
    pose proof izz_bound as Hb. dv Hv.
    unfold lv_iui. apply NoDup_somes_flat_map; [apply NoDup_steps; lia|intros; apply nd_ozz|].
    intros x y [[[oz wy] wx] iz] Hx Hy H1 H2. apply In_steps in Hx, Hy; try lia. explode H1. explode H2.
    apply (mult_unique (ifm_ublock c) x y izz izz0); lia.
  Qed.

  Lemma nd_el obz ibz sy sx sub_w sub_h se inner iuo ou :
    0 < sub_w -> NoDup (somes (lv_el c obz ibz sy sx sub_w sub_h se inner iuo ou)).
  Proof.
    intros Hsw. dv Hv.
    unfold lv_el. apply NoDup_somes_flat_map; [apply NoDup_zrange|intros; apply nd_iui|].
    intros x y [[[oz wy] wx] iz] _ _ H1 H2. explode H1. explode H2.
    rewrite (Z.div_mod x sub_w), (Z.div_mod y sub_w) by lia.
    assert (x / sub_w = y / sub_w) by lia. assert (x mod sub_w = y mod sub_w) by lia. congruence.
  Qed.

  Lemma nd_ou obz cobd ibz sy sx sub_w sub_h se inner iuo :
    0 < sub_w -> NoDup (somes (lv_ou c obz cobd ibz sy sx sub_w sub_h se inner iuo)).
  Proof.
    intros Hsw. dv Hv.
    unfold lv_ou. apply NoDup_somes_flat_map; [apply NoDup_steps; lia|intros; now apply nd_el|].
    intros x y [[[oz wy] wx] iz] Hx Hy H1 H2. apply In_steps in Hx, Hy; try lia. explode H1. explode H2.
    apply (mult_unique (ofm_ublock c) x y ozz ozz0); lia.
  Qed.

  Lemma nd_iuo obz cobd ibz sy sx sub_w sub_h se outer inner :
    0 < sub_w -> outer = 1 \/ inner = 1 ->
    NoDup (somes (lv_iuo c obz cobd ibz sy sx sub_w sub_h se outer inner)).
  Proof.
    intros Hsw Hoi. pose proof izz_bound as Hb. dv Hv.
    unfold lv_iuo. apply NoDup_somes_flat_map; [apply NoDup_steps; lia|intros; now apply nd_ou|].
    intros x y [[[oz wy] wx] iz] Hx Hy H1 H2. apply In_steps in Hx, Hy; try lia. explode H1. explode H2.
    destruct Hoi as [-> | ->]; [lia|].
    assert (iui = 0) by lia. assert (iui0 = 0) by lia.
    apply (mult_unique (ifm_ublock c) x y izz izz0); lia.
  Qed.

  Lemma ibd_pos : 0 < ifm_block_depth c.
  Proof. unfold ifm_block_depth. destruct (is_pk c || (bitdepth c =? 16)); lia. Qed.

  Lemma iud_le_ibd : ifm_ublock c <= ifm_block_depth c.
  Proof.
    pose proof ibd_pos. pose proof Hv as Hv'. dv Hv'. apply Z_div_exact_full_2 in Hmi; [|lia].
    assert (0 < ifm_block_depth c / ifm_ublock c) by nia. nia.
  Qed.

  Lemma nd_sx obz cobd ibz cibd sy sub_h : NoDup (somes (lv_sx c obz cobd ibz cibd sy sub_h)).
  Proof.
    pose proof Hv as Hv'. dv Hv'.
    unfold lv_sx. apply NoDup_somes_flat_map; [apply NoDup_steps; lia| |].
    - intros sx Hsx. apply In_steps in Hsx; [|lia]. apply nd_iuo; [lia|destruct (is_pk c); auto].
    - intros x y [[[oz wy] wx] iz] Hx Hy H1 H2. apply In_steps in Hx, Hy; try lia.
      cbv beta zeta in H1, H2. explode H1. explode H2.
      pose proof (Z.mod_pos_bound el (Z.min (kernel_w c - x) (decomp_w c))).
      pose proof (Z.mod_pos_bound el0 (Z.min (kernel_w c - y) (decomp_w c))).
      apply (mult_unique (decomp_w c) x y (el mod Z.min (kernel_w c - x) (decomp_w c))
                         (el0 mod Z.min (kernel_w c - y) (decomp_w c))); lia.
  Qed.

  Lemma nd_sy obz cobd ibz cibd : NoDup (somes (lv_sy c obz cobd ibz cibd)).
  Proof.
    pose proof Hv as Hv'. dv Hv'.
    unfold lv_sy. apply NoDup_somes_flat_map; [apply NoDup_steps; lia|intros; apply nd_sx|].
    intros x y [[[oz wy] wx] iz] Hx Hy H1 H2. apply In_steps in Hx, Hy; try lia.
    cbv beta zeta in H1, H2. explode H1. explode H2.
    pose proof (Z.div_pos el (Z.min (kernel_w c - sx) (decomp_w c))).
    pose proof (Z.div_pos el0 (Z.min (kernel_w c - sx0) (decomp_w c))).
    apply (mult_unique (decomp_h c) x y (el / Z.min (kernel_w c - sx) (decomp_w c))
                       (el0 / Z.min (kernel_w c - sx0) (decomp_w c))); lia.
  Qed.

  Lemma nd_ibz obz cobd : NoDup (somes (lv_ibz c obz cobd)).
  Proof.
    pose proof Hv as Hv'. dv Hv'. pose proof ibd_pos as Hibd. pose proof iud_le_ibd as Hle.
    unfold lv_ibz. apply NoDup_somes_flat_map; [apply NoDup_steps; lia|intros; apply nd_sy|].
    intros x y [[[oz wy] wx] iz] Hx Hy H1 H2. apply In_steps in Hx, Hy; try lia.
    cbv beta zeta in H1, H2. explode H1. explode H2.
    assert (Hr : forall m b, m mod ifm_ublock c = 0 -> m < b -> b <= ifm_block_depth c ->
                             m + ifm_ublock c <= ifm_block_depth c).
    { intros m b Hm Hlt Hb. apply mult_room; auto; lia. }
    apply (mult_unique (ifm_block_depth c) x y (iui + iuo + izz) (iui0 + iuo0 + izz0)); try lia.
    - pose proof (Hr iuo _ (proj2 Hiuo) (proj2 (proj1 Hiuo))).
      pose proof (Hr iui _ (proj2 Hiui) (proj2 (proj1 Hiui))).
      destruct (is_pk c), (is_dw c); lia.
    - pose proof (Hr iuo0 _ (proj2 Hiuo0) (proj2 (proj1 Hiuo0))).
      pose proof (Hr iui0 _ (proj2 Hiui0) (proj2 (proj1 Hiui0))).
      destruct (is_pk c), (is_dw c); lia.
  Qed.

  Lemma nd_reorder : NoDup (somes (reorder c)).
  Proof.
    pose proof Hv as Hv'. dv Hv'. pose proof ibd_pos as Hibd.
    unfold reorder. apply NoDup_somes_flat_map; [apply NoDup_steps; lia|intros; apply nd_ibz|].
    intros x y [[[oz wy] wx] iz] Hx Hy H1 H2. apply In_steps in Hx, Hy; try lia.
    cbv beta zeta in H1, H2. explode H1. explode H2.
    destruct Hmo as [Hmo|Hmo].
    - assert (ou + ofm_ublock c <= ofm_block c) by (apply mult_room; lia).
      assert (ou0 + ofm_ublock c <= ofm_block c) by (apply mult_room; lia).
      apply (mult_unique (ofm_block c) x y (ou + ozz) (ou0 + ozz0)); lia.
    - (* a single ofm block *)
      destruct Hx as (Hx1 & Hx2), Hy as (Hy1 & Hy2).
      rewrite Z.mod_small in Hx2, Hy2 by lia. lia.
  Qed.
End Levels.

(* ------------------------------------------------------------------ soundness / completeness *)
Lemma blk a s :
  0 <= a -> 0 < s ->
  0 <= s * (a / s) <= a /\ a < s * (a / s) + s /\ (s * (a / s)) mod s = 0 /\
  a mod s = a - s * (a / s) /\ 0 <= a / s.
Proof.
  intros Ha Hs. pose proof (Z.div_mod a s). pose proof (Z.mod_pos_bound a s Hs).
  assert (0 <= a / s) by (apply Z.div_pos; lia).
  repeat split; try nia. rewrite Z.mul_comm. apply Z_mod_mult.
Qed.

Lemma div_mul_add a b s : 0 < s -> 0 <= b < s -> (a * s + b) / s = a /\ (a * s + b) mod s = b.
Proof.
  intros Hs Hb. split.
  - rewrite Z.div_add_l by lia. rewrite Z.div_small; lia.
  - rewrite Z.add_comm, Z_mod_plus_full. apply Z.mod_small; lia.
Qed.

Lemma round_up_ge n k : 0 < k -> n <= round_up n k.
Proof.
  intros Hk. unfold round_up, cdiv.
  pose proof (Z.div_mod (n + k - 1) k). pose proof (Z.mod_pos_bound (n + k - 1) k Hk). nia.
Qed.

Lemma sub_elements_ge c n : n <= sub_elements c n.
Proof.
  unfold sub_elements.
  destruct (is_pk c); [|destruct (is_dw c); [apply round_up_ge|]; lia].
  destruct ((bitdepth c =? 16) && negb (n mod 2 =? 0)); [apply round_up_ge; lia|].
  destruct ((bitdepth c =? 8) && negb (n mod 4 =? 0)); [apply round_up_ge; lia|lia].
Qed.

Section Complete.
  Variable c : cfg.
  Hypothesis Hv : valid_cfg c.

  Lemma reorder_sound i : In (Some i) (reorder c) -> in_volume c i.
  Proof.
    intros H. apply in_somes in H. pose proof Hv as Hv'. dv Hv'. pose proof (ibd_pos c) as Hibd.
    destruct i as [[[oz wy] wx] iz].
    unfold reorder in H. apply in_somes_flat_map in H. destruct H as (obz & Hobz & H).
    apply In_steps in Hobz; [|lia]. cbv beta zeta in H. explode H.
    pose proof (Z.div_pos el (Z.min (kernel_w c - sx) (decomp_w c))).
    pose proof (Z.mod_pos_bound el (Z.min (kernel_w c - sx) (decomp_w c))).
    unfold in_volume. lia.
  Qed.

  Lemma reorder_complete i : in_volume c i -> In (Some i) (reorder c).
  Proof.
    destruct i as [[[oz wy] wx] iz]. intros (Hoz & Hwy & Hwx & Hiz).
    pose proof Hv as Hv'. dv Hv'. pose proof (ibd_pos c) as Hibd. pose proof (iud_le_ibd c Hv) as Hle.
    apply in_somes.
    destruct (blk oz (ofm_block c)) as (B1 & B2 & B3 & B4 & B5); try lia.
    destruct (blk iz (ifm_block_depth c)) as (I1 & I2 & I3 & I4 & I5); try lia.
    destruct (blk wy (decomp_h c)) as (Y1 & Y2 & Y3 & Y4 & Y5); try lia.
    destruct (blk wx (decomp_w c)) as (X1 & X2 & X3 & X4 & X5); try lia.
    pose proof (Z.mod_pos_bound oz (ofm_block c) Hobd) as Ro.
    pose proof (Z.mod_pos_bound iz (ifm_block_depth c) Hibd) as Ri.
    destruct (blk (oz mod ofm_block c) (ofm_ublock c)) as (U1 & U2 & U3 & U4 & U5); try lia.
    destruct (blk (iz mod ifm_block_depth c) (ifm_ublock c)) as (V1 & V2 & V3 & V4 & V5); try lia.
    pose proof (Z.mod_pos_bound (oz mod ofm_block c) (ofm_ublock c) Houd) as Ruo.
    pose proof (Z.mod_pos_bound (iz mod ifm_block_depth c) (ifm_ublock c) Hiud) as Rui.
    assert (Z0 : 0 mod ifm_ublock c = 0) by (apply Z.mod_0_l; lia).
    set (obz := ofm_block c * (oz / ofm_block c)) in *.
    set (ibz := ifm_block_depth c * (iz / ifm_block_depth c)) in *.
    set (sy := decomp_h c * (wy / decomp_h c)) in *.
    set (sx := decomp_w c * (wx / decomp_w c)) in *.
    set (ro := oz mod ofm_block c) in *.
    set (ri := iz mod ifm_block_depth c) in *.
    set (ou := ofm_ublock c * (ro / ofm_ublock c)) in *.
    set (iub := ifm_ublock c * (ri / ifm_ublock c)) in *.
    set (sub_w := Z.min (kernel_w c - sx) (decomp_w c)).
    set (sub_h := Z.min (kernel_h c - sy) (decomp_h c)).
    set (el := (wy mod decomp_h c) * sub_w + wx mod decomp_w c).
    assert (Hsw : 0 < sub_w) by (unfold sub_w; lia).
    assert (Hkx : 0 <= wx mod decomp_w c < sub_w) by (unfold sub_w; lia).
    destruct (div_mul_add (wy mod decomp_h c) (wx mod decomp_w c) sub_w Hsw Hkx) as (E1 & E2).
    fold el in E1, E2.
    assert (Hdw0 : is_dw c = true -> iz = 0) by (intros D; destruct (Hdwc D); lia).
    assert (Hdw1 : is_dw c = true -> ri = 0 /\ iub = 0 /\ ibz = 0).
    { intros D. specialize (Hdw0 D). lia. }
    unfold reorder. apply in_somes_flat_map. exists obz. split; [apply In_steps; [lia|]; lia|].
    unfold lv_ibz. apply in_somes_flat_map. exists ibz. split.
    { apply In_steps; [lia|]. destruct (is_dw c) eqn:D; [specialize (Hdw1 eq_refl)|]; lia. }
    unfold lv_sy. apply in_somes_flat_map. exists sy. split; [apply In_steps; lia|].
    unfold lv_sx. apply in_somes_flat_map. exists sx. split; [apply In_steps; lia|].
    fold sub_w. fold sub_h.
    unfold lv_iuo. apply in_somes_flat_map. exists (if is_pk c then iub else 0). split.
    { apply In_steps; [lia|]. destruct (is_pk c) eqn:P; [|lia].
      destruct (is_dw c) eqn:D; [destruct (Hdwc eq_refl); congruence|]. lia. }
    unfold lv_ou. apply in_somes_flat_map. exists ou. split; [apply In_steps; lia|].
    unfold lv_el. apply in_somes_flat_map. exists el. split.
    { apply In_zrange. pose proof (sub_elements_ge c (sub_w * sub_h)).
      assert (0 <= wy mod decomp_h c < sub_h) by (unfold sub_h; lia).
      unfold el. nia. }
    unfold lv_iui. apply in_somes_flat_map. exists (if is_pk c then 0 else iub). split.
    { apply In_steps; [lia|]. destruct (is_pk c) eqn:P; [lia|].
      destruct (is_dw c) eqn:D; [specialize (Hdw1 eq_refl)|]; lia. }
    unfold lv_ozz. apply in_somes_flat_map. exists (ro mod ofm_ublock c). split; [apply In_zrange; lia|].
    unfold lv_izz. apply in_somes_map. exists (ri mod ifm_ublock c). split.
    { apply In_zrange. destruct (is_dw c) eqn:D; [specialize (Hdw1 eq_refl)|]; lia. }
    apply cell_some. rewrite E1, E2.
    assert ((if is_pk c then 0 else iub) + (if is_pk c then iub else 0) = iub) by (destruct (is_pk c); lia).
    unfold sub_h. repeat split; lia.
  Qed.
End Complete.

(* ------------------------------------------------------------------ the main theorem *)
Definition idx_dec (a b : idx) : {a = b} + {a <> b}.
Proof. repeat decide equality. Defined.
Definition oidx_dec (a b : option idx) : {a = b} + {a <> b}.
Proof. decide equality. apply idx_dec. Defined.
Definition oz_dec (a b : option Z) : {a = b} + {a <> b}.
Proof. decide equality. apply Z.eq_dec. Defined.

Lemma count_somes {A} (dec : forall a b : A, {a = b} + {a <> b})
      (odec : forall a b : option A, {a = b} + {a <> b}) (l : list (option A)) a :
  count_occ odec l (Some a) = count_occ dec (somes l) a.
Proof.
  induction l as [|[b|] t IH]; simpl; auto.
  - destruct (odec (Some b) (Some a)) as [E|E], (dec b a) as [E'|E']; try congruence.
  - destruct (odec None (Some a)); [discriminate|auto].
Qed.

Lemma reorder_is_padded_permutation_lemma c :
  valid_cfg c ->
  (forall i, In (Some i) (reorder c) -> in_volume c i) /\
  (forall i, in_volume c i -> count_occ oidx_dec (reorder c) (Some i) = 1%nat).
Proof.
  intros Hv. split; [apply reorder_sound; auto|].
  intros i Hi. rewrite (count_somes idx_dec).
  pose proof (nd_reorder c Hv) as Hnd.
  rewrite (NoDup_count_occ idx_dec) in Hnd. specialize (Hnd i).
  assert (In i (somes (reorder c))) as Hin by (apply in_somes, reorder_complete; auto).
  apply (count_occ_In idx_dec) in Hin. lia.
Qed.

(* non-trivial instance: a 3x3 kernel, 5 output and 20 input channels, part-kernel-first, 8 bit,
   U55-128 micro-blocks: 900 source weights in a stream of 2304 positions *)
Example reorder_instance :
  let c := {| ofm_depth := 5; kernel_h := 3; kernel_w := 3; ifm_depth := 20; ofm_ublock := 8;
              ifm_ublock := 8; ofm_block := 16; is_dw := false; is_pk := true; bitdepth := 8;
              decomp_h := 8; decomp_w := 8 |} in
  valid_cfg c /\ length (reorder c) = 2304%nat /\ length (somes (reorder c)) = 900%nat /\
  nth 8 (reorder c) None = Some (1, 0, 0, 0) /\ nth 40 (reorder c) None = None.
Proof.
  cbv zeta. split; [|vm_compute; auto].
  unfold valid_cfg; cbn. repeat split; try lia; discriminate.
Qed.

(* ------------------------------------------------------------------ flat source positions *)
Section Flat.
  Variable c : cfg.
  Hypothesis Hv : valid_cfg c.

  Lemma flat_index_range i : in_volume c i -> 0 <= flat_index c i < volume c.
  Proof.
    destruct i as [[[oz wy] wx] iz]. intros (H1 & H2 & H3 & H4). unfold flat_index, volume.
    assert (0 <= oz * kernel_h c + wy <= ofm_depth c * kernel_h c - 1) by nia.
    assert (0 <= (oz * kernel_h c + wy) * kernel_w c + wx <= ofm_depth c * kernel_h c * kernel_w c - 1) by nia.
    nia.
  Qed.

  Lemma flat_index_inj i j : in_volume c i -> in_volume c j -> flat_index c i = flat_index c j -> i = j.
  Proof.
    destruct i as [[[oz wy] wx] iz], j as [[[oz' wy'] wx'] iz'].
    intros (H1 & H2 & H3 & H4) (H1' & H2' & H3' & H4') E. unfold flat_index in E.
    destruct (div_mul_add ((oz * kernel_h c + wy) * kernel_w c + wx) iz (ifm_depth c)) as (A1 & A2); try lia.
    destruct (div_mul_add ((oz' * kernel_h c + wy') * kernel_w c + wx') iz' (ifm_depth c)) as (A1' & A2'); try lia.
    rewrite E in A1, A2. assert (iz = iz') by congruence.
    assert (E2 : (oz * kernel_h c + wy) * kernel_w c + wx = (oz' * kernel_h c + wy') * kernel_w c + wx') by congruence.
    destruct (div_mul_add (oz * kernel_h c + wy) wx (kernel_w c)) as (B1 & B2); try lia.
    destruct (div_mul_add (oz' * kernel_h c + wy') wx' (kernel_w c)) as (B1' & B2'); try lia.
    rewrite E2 in B1, B2. assert (wx = wx') by congruence.
    assert (E3 : oz * kernel_h c + wy = oz' * kernel_h c + wy') by congruence.
    destruct (div_mul_add oz wy (kernel_h c)) as (C1 & C2); try lia.
    destruct (div_mul_add oz' wy' (kernel_h c)) as (C1' & C2'); try lia.
    rewrite E3 in C1, C2. assert (wy = wy') by congruence. assert (oz = oz') by congruence.
    congruence.
  Qed.

  Lemma flat_index_surj p : 0 <= p < volume c -> exists i, in_volume c i /\ flat_index c i = p.
  Proof.
    intros Hp. unfold volume in Hp. pose proof Hv as Hv'. dv Hv'.
    set (a := p / ifm_depth c). set (b := a / kernel_w c).
    exists (b / kernel_h c, b mod kernel_h c, a mod kernel_w c, p mod ifm_depth c).
    pose proof (Z.div_mod p (ifm_depth c)). pose proof (Z.mod_pos_bound p (ifm_depth c) Hifd).
    pose proof (Z.div_mod a (kernel_w c)). pose proof (Z.mod_pos_bound a (kernel_w c) Hkw).
    pose proof (Z.div_mod b (kernel_h c)). pose proof (Z.mod_pos_bound b (kernel_h c) Hkh).
    fold a in H. fold b in H1.
    assert (0 <= a < ofm_depth c * kernel_h c * kernel_w c).
    { split; [apply Z.div_pos; lia|apply Z.div_lt_upper_bound; lia]. }
    assert (0 <= b < ofm_depth c * kernel_h c).
    { split; [apply Z.div_pos; lia|apply Z.div_lt_upper_bound; lia]. }
    assert (0 <= b / kernel_h c < ofm_depth c).
    { split; [apply Z.div_pos; lia|apply Z.div_lt_upper_bound; lia]. }
    split; [unfold in_volume; lia|]. unfold flat_index. nia.
  Qed.
End Flat.

Lemma count_occ_map_inj {A B} (decA : forall a b : A, {a = b} + {a <> b})
      (decB : forall a b : B, {a = b} + {a <> b}) (g : A -> B) l a :
  (forall x, In x l -> g x = g a -> x = a) ->
  count_occ decB (map g l) (g a) = count_occ decA l a.
Proof.
  induction l as [|h t IH]; simpl; intros Hinj; auto.
  destruct (decB (g h) (g a)) as [E|E], (decA h a) as [E'|E'].
  - f_equal. apply IH. auto.
  - exfalso. apply E'. apply Hinj; auto.
  - subst. congruence.
  - apply IH. auto.
Qed.

Lemma reorder_flat_is_padded_permutation_lemma c :
  valid_cfg c ->
  (forall p, In (Some p) (reorder_flat c) -> 0 <= p < volume c) /\
  (forall p, 0 <= p < volume c -> count_occ oz_dec (reorder_flat c) (Some p) = 1%nat).
Proof.
  intros Hv. destruct (reorder_is_padded_permutation_lemma c Hv) as (Hs & Hc). split.
  - intros p Hp. unfold reorder_flat in Hp. apply in_map_iff in Hp.
    destruct Hp as ([i|] & E & Hi); [|discriminate]. simpl in E. injection E as <-.
    apply flat_index_range, Hs, Hi.
  - intros p Hp. destruct (flat_index_surj c Hv p Hp) as (i & Hi & <-).
    unfold reorder_flat.
    change (Some (flat_index c i)) with (option_map (flat_index c) (Some i)).
    rewrite (count_occ_map_inj oidx_dec); [apply Hc, Hi|].
    intros [j|] Hj E; [|discriminate]. simpl in E. injection E as E.
    f_equal. apply (flat_index_inj c); auto.
Qed.

(* ------------------------------------------------------------------ stream order *)
Lemma sorted_app {A} (R : A -> A -> Prop) l1 l2 :
  StronglySorted R l1 -> StronglySorted R l2 -> (forall a b, In a l1 -> In b l2 -> R a b) ->
  StronglySorted R (l1 ++ l2).
Proof.
  induction l1 as [|h t IH]; simpl; intros H1 H2 H; auto.
  inversion H1; subst. constructor.
  - apply IH; auto.
  - apply Forall_app. split; auto. apply Forall_forall. intros b Hb. apply H; auto.
Qed.

Lemma sorted_somes_flat_map {A} (R : A -> A -> Prop) (f : Z -> list (option A)) l :
  StronglySorted Z.lt l -> (forall x, In x l -> StronglySorted R (somes (f x))) ->
  (forall x y a b, In x l -> In y l -> x < y -> In a (somes (f x)) -> In b (somes (f y)) -> R a b) ->
  StronglySorted R (somes (flat_map f l)).
Proof.
  induction l as [|h t IH]; simpl; intros Hs Hd Hc; [constructor|].
  rewrite somes_app. inversion Hs; subst. apply sorted_app.
  - apply Hd. now left.
  - apply IH; [assumption|intros x Hx; apply Hd; now right|intros x y a b Hx Hy; apply Hc; now right].
  - intros a b Ha Hb. apply in_somes_flat_map in Hb. destruct Hb as (y & Hy & Hb).
    apply (Hc h y); simpl; auto. rewrite Forall_forall in H2. auto.
Qed.

Lemma sorted_somes_map {A} (R : A -> A -> Prop) (f : Z -> option A) l :
  StronglySorted Z.lt l ->
  (forall x y a b, In x l -> In y l -> x < y -> f x = Some a -> f y = Some b -> R a b) ->
  StronglySorted R (somes (map f l)).
Proof.
  intros Hs Hc.
  assert (E : map f l = flat_map (fun x => [f x]) l).
  { clear. induction l as [|h t IH]; simpl; [reflexivity|now rewrite IH]. }
  rewrite E. apply sorted_somes_flat_map; auto.
  - intros x _. destruct (f x); simpl; repeat constructor.
  - intros x y a b Hx Hy Hlt Ha Hb. apply (Hc x y); auto.
    + destruct (f x); simpl in Ha; [destruct Ha as [->|[]]; auto|destruct Ha].
    + destruct (f y); simpl in Hb; [destruct Hb as [->|[]]; auto|destruct Hb].
Qed.

Lemma sorted_map_mono (g : Z -> Z) l :
  (forall x y, x < y -> g x < g y) -> StronglySorted Z.lt l -> StronglySorted Z.lt (map g l).
Proof.
  intros Hg. induction 1; simpl; constructor; auto.
  rewrite Forall_forall in *. intros y Hy. apply in_map_iff in Hy. destruct Hy as (x & <- & Hx). auto.
Qed.

Lemma sorted_seq a n : StronglySorted Z.lt (map Z.of_nat (seq a n)).
Proof.
  revert a. induction n; simpl; intros a; constructor; auto.
  apply Forall_forall. intros y Hy. apply in_map_iff in Hy. destruct Hy as (x & <- & Hx).
  apply in_seq in Hx. lia.
Qed.

Lemma sorted_zrange n : StronglySorted Z.lt (zrange n).
Proof. apply sorted_seq. Qed.

Lemma sorted_steps n s : 0 < s -> StronglySorted Z.lt (steps n s).
Proof. intros Hs. unfold steps. apply sorted_map_mono; [intros; nia|apply sorted_zrange]. Qed.

(* a multiple x of s with x <= a < x + s is the block start of a *)
Lemma blk_unique s x a : 0 < s -> x mod s = 0 -> x <= a < x + s -> x = s * (a / s) /\ a mod s = a - x.
Proof.
  intros Hs Hx Ha. apply Z_div_exact_full_2 in Hx; [|lia].
  pose proof (Z.div_mod a s). pose proof (Z.mod_pos_bound a s Hs).
  assert (x / s = a / s) by nia. split; nia.
Qed.

Definition R_key (c : cfg) (a b : idx) : Prop := lex_lt (order_key c a) (order_key c b).

Lemma key_of_cell c obz cobd ibz cibd sy sx outer inner iuo ou el iui ozz izz oz wy wx iz :
  valid_cfg c ->
  0 <= obz /\ obz mod ofm_block c = 0 -> cobd <= ofm_block c ->
  0 <= ibz /\ ibz mod ifm_block_depth c = 0 -> cibd <= ifm_block_depth c ->
  (is_pk c = true /\ outer = cibd /\ inner = 1) \/ (is_pk c = false /\ outer = 1 /\ inner = cibd) ->
  0 <= sy < kernel_h c /\ sy mod decomp_h c = 0 ->
  0 <= sx < kernel_w c /\ sx mod decomp_w c = 0 ->
  0 <= iuo < outer /\ iuo mod ifm_ublock c = 0 ->
  0 <= ou < cobd /\ ou mod ofm_ublock c = 0 ->
  0 <= el ->
  0 <= iui < inner /\ iui mod ifm_ublock c = 0 ->
  0 <= ozz < ofm_ublock c ->
  0 <= izz < (if is_dw c then 1 else ifm_ublock c) ->
  oz = obz + ou + ozz /\ wy = sy + el / Z.min (kernel_w c - sx) (decomp_w c) /\
  wx = sx + el mod Z.min (kernel_w c - sx) (decomp_w c) /\
  iz = ibz + (iui + iuo) + izz /\ iz < ifm_depth c /\ oz < ofm_depth c /\
  el / Z.min (kernel_w c - sx) (decomp_w c) < Z.min (kernel_h c - sy) (decomp_h c) ->
  order_key c (oz, wy, wx, iz) = [obz; ibz; sy; sx; iuo; ou; el; iui; ozz; izz].
Proof.
  intros Hv Hobz Hcobd Hibz Hcibd Hoi Hsy Hsx Hiuo Hou Hel Hiui Hozz Hizz Hc.
  pose proof (izz_bound c Hv) as Hb. pose proof (ibd_pos c) as Hibd. pose proof (iud_le_ibd c Hv) as Hle.
  dv Hv.
  set (sub_w := Z.min (kernel_w c - sx) (decomp_w c)) in *.
  assert (Hsw : 0 < sub_w) by (unfold sub_w; lia).
  pose proof (Z.div_pos el sub_w). pose proof (Z.mod_pos_bound el sub_w Hsw). pose proof (Z.div_mod el sub_w).
  assert (Hou2 : oz < obz + ofm_block c).
  { destruct Hmo as [Hmo|Hmo]; [|lia].
    assert (ou + ofm_ublock c <= ofm_block c) by (apply mult_room; lia). lia. }
  assert (Hiu : (iui + iuo) mod ifm_ublock c = 0 /\ 0 <= iui + iuo /\ iui + iuo + ifm_ublock c <= ifm_block_depth c).
  { destruct Hoi as [(P & -> & ->) | (P & -> & ->)].
    - assert (iui = 0) by lia. subst iui. rewrite Z.add_0_l. split; [tauto|]. split; [lia|].
      apply mult_room; lia.
    - assert (iuo = 0) by lia. subst iuo. rewrite Z.add_0_r. split; [tauto|]. split; [lia|].
      apply mult_room; lia. }
  destruct Hiu as (Hiu1 & Hiu2 & Hiu3).
  destruct (blk_unique (ofm_block c) obz oz) as (K0 & M0); try lia.
  destruct (blk_unique (ifm_block_depth c) ibz iz) as (K1 & M1); try lia.
  destruct (blk_unique (decomp_h c) sy wy) as (K2 & M2); try lia.
  destruct (blk_unique (decomp_w c) sx wx) as (K3 & M3); try lia.
  destruct (blk_unique (ofm_ublock c) ou (oz mod ofm_block c)) as (K5 & M5); try lia.
  destruct (blk_unique (ifm_ublock c) (iui + iuo) (iz mod ifm_block_depth c)) as (K7 & M7); try lia.
  unfold order_key. rewrite <- K3. fold sub_w. rewrite <- K0, <- K1, <- K2, <- K5, <- K7, M2, M3, M5, M7, M0, M1.
  assert (E4 : (if is_pk c then iui + iuo else 0) = iuo).
  { destruct Hoi as [(P & -> & ->) | (P & -> & ->)]; rewrite P; lia. }
  assert (E7 : (if is_pk c then 0 else iui + iuo) = iui).
  { destruct Hoi as [(P & -> & ->) | (P & -> & ->)]; rewrite P; lia. }
  rewrite E4, E7. repeat f_equal; lia.
Qed.

Ltac solve_lex := unfold R_key; simpl; repeat (right; split; [reflexivity|]); left; lia.

Section SortedInner.
  Variable c : cfg.
  Hypothesis Hv : valid_cfg c.
  Variables obz cobd ibz cibd sy sx outer inner : Z.
  Hypothesis Hobz : 0 <= obz /\ obz mod ofm_block c = 0.
  Hypothesis Hcobd : cobd <= ofm_block c.
  Hypothesis Hibz : 0 <= ibz /\ ibz mod ifm_block_depth c = 0.
  Hypothesis Hcibd : cibd <= ifm_block_depth c.
  Hypothesis Hoi : (is_pk c = true /\ outer = cibd /\ inner = 1) \/ (is_pk c = false /\ outer = 1 /\ inner = cibd).
  Hypothesis Hsy : 0 <= sy < kernel_h c /\ sy mod decomp_h c = 0.
  Hypothesis Hsx : 0 <= sx < kernel_w c /\ sx mod decomp_w c = 0.

  Definition key_in := key_of_cell c obz cobd ibz cibd sy sx outer inner.

  Lemma sorted_izz iuo ou el iui ozz :
    0 <= iuo < outer /\ iuo mod ifm_ublock c = 0 -> 0 <= ou < cobd /\ ou mod ofm_ublock c = 0 ->
    0 <= el -> 0 <= iui < inner /\ iui mod ifm_ublock c = 0 -> 0 <= ozz < ofm_ublock c ->
    StronglySorted (R_key c)
      (somes (lv_izz c obz ibz sy sx (Z.min (kernel_w c - sx) (decomp_w c)) (Z.min (kernel_h c - sy) (decomp_h c)) iuo ou el iui ozz)).
  Proof.
    intros Hiuo Hou Hel Hiui Hozz.
    unfold lv_izz. apply sorted_somes_map; [apply sorted_zrange|].
    intros x y [[[oz wy] wx] iz] [[[oz' wy'] wx'] iz'] Hx Hy Hlt E1 E2.
    apply In_zrange in Hx, Hy. apply cell_some in E1, E2. unfold R_key.
    rewrite (key_in iuo ou el iui ozz x _ _ _ _ Hv Hobz Hcobd Hibz Hcibd Hoi Hsy Hsx Hiuo Hou Hel Hiui Hozz Hx E1).
    rewrite (key_in iuo ou el iui ozz y _ _ _ _ Hv Hobz Hcobd Hibz Hcibd Hoi Hsy Hsx Hiuo Hou Hel Hiui Hozz Hy E2).
    solve_lex.
  Qed.

  Lemma sorted_ozz iuo ou el iui :
    0 <= iuo < outer /\ iuo mod ifm_ublock c = 0 -> 0 <= ou < cobd /\ ou mod ofm_ublock c = 0 ->
    0 <= el -> 0 <= iui < inner /\ iui mod ifm_ublock c = 0 ->
    StronglySorted (R_key c)
      (somes (lv_ozz c obz ibz sy sx (Z.min (kernel_w c - sx) (decomp_w c)) (Z.min (kernel_h c - sy) (decomp_h c)) iuo ou el iui)).
  Proof.
    intros Hiuo Hou Hel Hiui.
    unfold lv_ozz. apply sorted_somes_flat_map; [apply sorted_zrange| |].
    { intros x Hx. apply In_zrange in Hx. apply sorted_izz; auto. }
    intros x y [[[oz wy] wx] iz] [[[oz' wy'] wx'] iz'] Hx Hy Hlt H1 H2.
    apply In_zrange in Hx, Hy. explode H1. explode H2. unfold R_key.
    rewrite (key_in iuo ou el iui x izz _ _ _ _ Hv Hobz Hcobd Hibz Hcibd Hoi Hsy Hsx Hiuo Hou Hel Hiui Hx Hizz H1).
    rewrite (key_in iuo ou el iui y izz0 _ _ _ _ Hv Hobz Hcobd Hibz Hcibd Hoi Hsy Hsx Hiuo Hou Hel Hiui Hy Hizz0 H2).
    solve_lex.
  Qed.

  Lemma sorted_iui iuo ou el :
    0 <= iuo < outer /\ iuo mod ifm_ublock c = 0 -> 0 <= ou < cobd /\ ou mod ofm_ublock c = 0 ->
    0 <= el ->
    StronglySorted (R_key c)
      (somes (lv_iui c obz ibz sy sx (Z.min (kernel_w c - sx) (decomp_w c)) (Z.min (kernel_h c - sy) (decomp_h c)) inner iuo ou el)).
  Proof.
    intros Hiuo Hou Hel. pose proof Hv as Hv'. dv Hv'.
    unfold lv_iui. apply sorted_somes_flat_map; [apply sorted_steps; lia| |].
    { intros x Hx. apply In_steps in Hx; [|lia]. apply sorted_ozz; auto. }
    intros x y [[[oz wy] wx] iz] [[[oz' wy'] wx'] iz'] Hx Hy Hlt H1 H2.
    apply In_steps in Hx, Hy; try lia. explode H1. explode H2. unfold R_key.
    rewrite (key_in iuo ou el x ozz izz _ _ _ _ Hv Hobz Hcobd Hibz Hcibd Hoi Hsy Hsx Hiuo Hou Hel Hx Hozz Hizz H1).
    rewrite (key_in iuo ou el y ozz0 izz0 _ _ _ _ Hv Hobz Hcobd Hibz Hcibd Hoi Hsy Hsx Hiuo Hou Hel Hy Hozz0 Hizz0 H2).
    solve_lex.
  Qed.

  Lemma sorted_el se iuo ou :
    0 <= iuo < outer /\ iuo mod ifm_ublock c = 0 -> 0 <= ou < cobd /\ ou mod ofm_ublock c = 0 ->
    StronglySorted (R_key c)
      (somes (lv_el c obz ibz sy sx (Z.min (kernel_w c - sx) (decomp_w c)) (Z.min (kernel_h c - sy) (decomp_h c)) se inner iuo ou)).
  Proof.
    intros Hiuo Hou. pose proof Hv as Hv'. dv Hv'.
    unfold lv_el. apply sorted_somes_flat_map; [apply sorted_zrange| |].
    { intros x Hx. apply In_zrange in Hx. apply sorted_iui; auto; lia. }
    intros x y [[[oz wy] wx] iz] [[[oz' wy'] wx'] iz'] Hx Hy Hlt H1 H2.
    apply In_zrange in Hx, Hy. explode H1. explode H2. unfold R_key.
    rewrite (key_in iuo ou x iui ozz izz _ _ _ _ Hv Hobz Hcobd Hibz Hcibd Hoi Hsy Hsx Hiuo Hou (proj1 Hx) Hiui Hozz Hizz H1).
    rewrite (key_in iuo ou y iui0 ozz0 izz0 _ _ _ _ Hv Hobz Hcobd Hibz Hcibd Hoi Hsy Hsx Hiuo Hou (proj1 Hy) Hiui0 Hozz0 Hizz0 H2).
    solve_lex.
  Qed.

  Lemma sorted_ou se iuo :
    0 <= iuo < outer /\ iuo mod ifm_ublock c = 0 ->
    StronglySorted (R_key c)
      (somes (lv_ou c obz cobd ibz sy sx (Z.min (kernel_w c - sx) (decomp_w c)) (Z.min (kernel_h c - sy) (decomp_h c)) se inner iuo)).
  Proof.
    intros Hiuo. pose proof Hv as Hv'. dv Hv'.
    unfold lv_ou. apply sorted_somes_flat_map; [apply sorted_steps; lia| |].
    { intros x Hx. apply In_steps in Hx; [|lia]. apply sorted_el; auto. }
    intros x y [[[oz wy] wx] iz] [[[oz' wy'] wx'] iz'] Hx Hy Hlt H1 H2.
    apply In_steps in Hx, Hy; try lia. explode H1. explode H2. unfold R_key.
    rewrite (key_in iuo x el iui ozz izz _ _ _ _ Hv Hobz Hcobd Hibz Hcibd Hoi Hsy Hsx Hiuo Hx (proj1 Hel) Hiui Hozz Hizz H1).
    rewrite (key_in iuo y el0 iui0 ozz0 izz0 _ _ _ _ Hv Hobz Hcobd Hibz Hcibd Hoi Hsy Hsx Hiuo Hy (proj1 Hel0) Hiui0 Hozz0 Hizz0 H2).
    solve_lex.
  Qed.

  Lemma sorted_iuo se :
    StronglySorted (R_key c)
      (somes (lv_iuo c obz cobd ibz sy sx (Z.min (kernel_w c - sx) (decomp_w c)) (Z.min (kernel_h c - sy) (decomp_h c)) se outer inner)).
  Proof.
    pose proof Hv as Hv'. dv Hv'.
    unfold lv_iuo. apply sorted_somes_flat_map; [apply sorted_steps; lia| |].
    { intros x Hx. apply In_steps in Hx; [|lia]. apply sorted_ou; auto. }
    intros x y [[[oz wy] wx] iz] [[[oz' wy'] wx'] iz'] Hx Hy Hlt H1 H2.
    apply In_steps in Hx, Hy; try lia. explode H1. explode H2. unfold R_key.
    rewrite (key_in x ou el iui ozz izz _ _ _ _ Hv Hobz Hcobd Hibz Hcibd Hoi Hsy Hsx Hx Hou (proj1 Hel) Hiui Hozz Hizz H1).
    rewrite (key_in y ou0 el0 iui0 ozz0 izz0 _ _ _ _ Hv Hobz Hcobd Hibz Hcibd Hoi Hsy Hsx Hy Hou0 (proj1 Hel0) Hiui0 Hozz0 Hizz0 H2).
    solve_lex.
  Qed.
End SortedInner.

Lemma hoi c cibd :
  (is_pk c = true /\ (if is_pk c then cibd else 1) = cibd /\ (if is_pk c then 1 else cibd) = 1) \/
  (is_pk c = false /\ (if is_pk c then cibd else 1) = 1 /\ (if is_pk c then 1 else cibd) = cibd).
Proof. destruct (is_pk c); [left|right]; auto. Qed.

Section SortedOuter.
  Variable c : cfg.
  Hypothesis Hv : valid_cfg c.
  Variables obz cobd : Z.
  Hypothesis Hobz : 0 <= obz /\ obz mod ofm_block c = 0.
  Hypothesis Hcobd : cobd <= ofm_block c.

  Lemma sorted_sx ibz cibd sy :
    0 <= ibz /\ ibz mod ifm_block_depth c = 0 -> cibd <= ifm_block_depth c ->
    0 <= sy < kernel_h c /\ sy mod decomp_h c = 0 ->
    StronglySorted (R_key c) (somes (lv_sx c obz cobd ibz cibd sy (Z.min (kernel_h c - sy) (decomp_h c)))).
  Proof.
    intros Hibz Hcibd Hsy. pose proof Hv as Hv'. dv Hv'.
    unfold lv_sx. apply sorted_somes_flat_map; [apply sorted_steps; lia| |].
    { intros x Hx. apply In_steps in Hx; [|lia]. cbv beta zeta.
      apply (sorted_iuo c Hv obz cobd ibz cibd sy x _ _ Hobz Hcobd Hibz Hcibd (hoi c cibd) Hsy Hx). }
    intros x y [[[oz wy] wx] iz] [[[oz' wy'] wx'] iz'] Hx Hy Hlt H1 H2.
    apply In_steps in Hx, Hy; try lia. cbv beta zeta in H1, H2. explode H1. explode H2. unfold R_key.
    rewrite (key_of_cell c obz cobd ibz cibd sy x _ _ iuo ou el iui ozz izz _ _ _ _ Hv Hobz Hcobd Hibz Hcibd (hoi c cibd) Hsy Hx Hiuo Hou (proj1 Hel) Hiui Hozz Hizz H1).
    rewrite (key_of_cell c obz cobd ibz cibd sy y _ _ iuo0 ou0 el0 iui0 ozz0 izz0 _ _ _ _ Hv Hobz Hcobd Hibz Hcibd (hoi c cibd) Hsy Hy Hiuo0 Hou0 (proj1 Hel0) Hiui0 Hozz0 Hizz0 H2).
    solve_lex.
  Qed.

  Lemma sorted_sy ibz cibd :
    0 <= ibz /\ ibz mod ifm_block_depth c = 0 -> cibd <= ifm_block_depth c ->
    StronglySorted (R_key c) (somes (lv_sy c obz cobd ibz cibd)).
  Proof.
    intros Hibz Hcibd. pose proof Hv as Hv'. dv Hv'.
    unfold lv_sy. apply sorted_somes_flat_map; [apply sorted_steps; lia| |].
    { intros x Hx. apply In_steps in Hx; [|lia]. apply sorted_sx; auto. }
    intros x y [[[oz wy] wx] iz] [[[oz' wy'] wx'] iz'] Hx Hy Hlt H1 H2.
    apply In_steps in Hx, Hy; try lia. cbv beta zeta in H1, H2. explode H1. explode H2. unfold R_key.
    rewrite (key_of_cell c obz cobd ibz cibd x sx _ _ iuo ou el iui ozz izz _ _ _ _ Hv Hobz Hcobd Hibz Hcibd (hoi c cibd) Hx Hsx Hiuo Hou (proj1 Hel) Hiui Hozz Hizz H1).
    rewrite (key_of_cell c obz cobd ibz cibd y sx0 _ _ iuo0 ou0 el0 iui0 ozz0 izz0 _ _ _ _ Hv Hobz Hcobd Hibz Hcibd (hoi c cibd) Hy Hsx0 Hiuo0 Hou0 (proj1 Hel0) Hiui0 Hozz0 Hizz0 H2).
    solve_lex.
  Qed.

  Lemma cibd_le ibz :
    (if is_dw c then ifm_ublock c
     else if is_pk c then Z.min (ifm_block_depth c) (ifm_depth c - ibz) else ifm_block_depth c)
    <= ifm_block_depth c.
  Proof. pose proof (iud_le_ibd c Hv). destruct (is_dw c), (is_pk c); lia. Qed.

  Lemma sorted_ibz : StronglySorted (R_key c) (somes (lv_ibz c obz cobd)).
  Proof.
    pose proof Hv as Hv'. dv Hv'. pose proof (ibd_pos c) as Hibd.
    unfold lv_ibz. apply sorted_somes_flat_map; [apply sorted_steps; lia| |].
    { intros x Hx. apply In_steps in Hx; [|lia]. cbv beta zeta. apply sorted_sy; [lia|apply cibd_le]. }
    intros x y [[[oz wy] wx] iz] [[[oz' wy'] wx'] iz'] Hx Hy Hlt H1 H2.
    apply In_steps in Hx, Hy; try lia. cbv beta zeta in H1, H2. explode H1. explode H2. unfold R_key.
    assert (Hx' : 0 <= x /\ x mod ifm_block_depth c = 0) by lia.
    assert (Hy' : 0 <= y /\ y mod ifm_block_depth c = 0) by lia.
    rewrite (key_of_cell c obz cobd x _ sy sx _ _ iuo ou el iui ozz izz _ _ _ _ Hv Hobz Hcobd Hx' (cibd_le x) (hoi c _) Hsy Hsx Hiuo Hou (proj1 Hel) Hiui Hozz Hizz H1).
    rewrite (key_of_cell c obz cobd y _ sy0 sx0 _ _ iuo0 ou0 el0 iui0 ozz0 izz0 _ _ _ _ Hv Hobz Hcobd Hy' (cibd_le y) (hoi c _) Hsy0 Hsx0 Hiuo0 Hou0 (proj1 Hel0) Hiui0 Hozz0 Hizz0 H2).
    solve_lex.
  Qed.
End SortedOuter.

Lemma reorder_order_spec_lemma c :
  valid_cfg c -> StronglySorted (fun a b => lex_lt (order_key c a) (order_key c b)) (somes (reorder c)).
Proof.
  intros Hv. change (StronglySorted (R_key c) (somes (reorder c))).
  pose proof Hv as Hv'. dv Hv'. pose proof (ibd_pos c) as Hibd.
  unfold reorder. apply sorted_somes_flat_map; [apply sorted_steps; lia| |].
  { intros x Hx. apply In_steps in Hx; [|lia]. apply sorted_ibz; auto; lia. }
  intros x y [[[oz wy] wx] iz] [[[oz' wy'] wx'] iz'] Hx Hy Hlt H1 H2.
  apply In_steps in Hx, Hy; try lia. cbv beta zeta in H1, H2. explode H1. explode H2. unfold R_key.
  assert (Hx' : 0 <= x /\ x mod ofm_block c = 0) by lia.
  assert (Hy' : 0 <= y /\ y mod ofm_block c = 0) by lia.
  assert (Hibz' : 0 <= ibz /\ ibz mod ifm_block_depth c = 0) by lia.
  assert (Hibz0' : 0 <= ibz0 /\ ibz0 mod ifm_block_depth c = 0) by lia.
  rewrite (key_of_cell c x _ ibz _ sy sx _ _ iuo ou el iui ozz izz _ _ _ _ Hv Hx' (Z.le_min_l _ _) Hibz' (cibd_le c Hv ibz) (hoi c _) Hsy Hsx Hiuo Hou (proj1 Hel) Hiui Hozz Hizz H1).
  rewrite (key_of_cell c y _ ibz0 _ sy0 sx0 _ _ iuo0 ou0 el0 iui0 ozz0 izz0 _ _ _ _ Hv Hy' (Z.le_min_l _ _) Hibz0' (cibd_le c Hv ibz0) (hoi c _) Hsy0 Hsx0 Hiuo0 Hou0 (proj1 Hel0) Hiui0 Hozz0 Hizz0 H2).
  solve_lex.
Qed.

(* the strict order makes the stream order of the source weights unique: irreflexive and transitive *)
Lemma lex_lt_irrefl a : ~ lex_lt a a.
Proof. induction a as [|x t IH]; simpl; [tauto|]. intros [H|[_ H]]; [lia|auto]. Qed.

Lemma lex_lt_trans a b d : lex_lt a b -> lex_lt b d -> lex_lt a d.
Proof.
  revert b d. induction a as [|x t IH]; intros [|y b] [|z d]; simpl; try tauto.
  intros [H1|[-> H1]] [H2|[-> H2]]; [left; lia|left; lia|left; lia|right; split; eauto].
Qed.

(* the hypotheses of valid_cfg are needed: an ofm block smaller than the ofm micro-block repeats
   source weights, and a depthwise volume with ifm depth 2 loses the second ifm plane *)
Example reorder_hypotheses_needed :
  let c1 := {| ofm_depth := 8; kernel_h := 1; kernel_w := 1; ifm_depth := 8; ofm_ublock := 8;
               ifm_ublock := 8; ofm_block := 4; is_dw := false; is_pk := false; bitdepth := 8;
               decomp_h := 8; decomp_w := 8 |} in
  let c2 := {| ofm_depth := 8; kernel_h := 1; kernel_w := 1; ifm_depth := 2; ofm_ublock := 8;
               ifm_ublock := 8; ofm_block := 8; is_dw := true; is_pk := false; bitdepth := 8;
               decomp_h := 8; decomp_w := 8 |} in
  count_occ oidx_dec (reorder c1) (Some (4, 0, 0, 0)) = 2%nat /\
  count_occ oidx_dec (reorder c2) (Some (0, 0, 0, 1)) = 0%nat.
Proof. vm_compute. auto. Qed.
