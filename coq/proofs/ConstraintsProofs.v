(* C16 -- proofs about the translated constraint predicates (gen/GenConstraints.v), the introspected constraint lists
   and the parsed report.  See model/Constraints.v for the documented readings and the driver models. *)
From Coq Require Import ZArith List Bool Lia String Ascii.
From VV Require Import lib.PyInt gen.GenConstraints model.Constraints.
Import ListNotations.
Open Scope Z_scope.

(* ------------------------------------------------------------------------------------------------------------ *)
(* small library                                                                                                 *)
Lemma forallb_ext' : forall (A : Type) (f g : A -> bool) l, (forall x, f x = g x) -> forallb f l = forallb g l.
Proof. intros A f g l H; induction l as [|a l IH]; simpl; [reflexivity | rewrite H, IH; reflexivity]. Qed.

Lemma list_eqb_eq : forall a b, list_eqb a b = true <-> a = b.
Proof.
  induction a as [|x a IH]; destruct b as [|y b]; simpl; split; intro H; try reflexivity; try discriminate.
  - apply andb_true_iff in H; destruct H as [H1 H2]. apply Z.eqb_eq in H1. apply IH in H2. subst; reflexivity.
  - inversion H; subst. rewrite Z.eqb_refl. simpl. apply IH. reflexivity.
Qed.

Lemma list_list_eqb_eq : forall a b, list_list_eqb a b = true <-> a = b.
Proof.
  induction a as [|x a IH]; destruct b as [|y b]; simpl; split; intro H; try reflexivity; try discriminate.
  - apply andb_true_iff in H; destruct H as [H1 H2]. apply list_eqb_eq in H1. apply IH in H2. subst; reflexivity.
  - inversion H; subst. apply andb_true_iff; split; [apply list_eqb_eq | apply IH]; reflexivity.
Qed.

Lemma gtb_negb_leb : forall a b, (a >? b) = negb (a <=? b).
Proof. intros a b. rewrite Z.gtb_ltb. apply Z.ltb_antisym. Qed.

Lemma geb_leb' : forall a b, (a >=? b) = (b <=? a).
Proof. intros; apply Z.geb_leb. Qed.

(* the docstring a documented reading was written from, compared modulo digits and white space so that a consistent
   change of a bound (constant and docstring together) does not disturb it while a reworded sentence does *)
Fixpoint codes (s : string) : list Z :=
  match s with
  | EmptyString => []
  | String c r => Z.of_nat (nat_of_ascii c) :: codes r
  end.
Definition squash (l : list Z) : list Z :=
  filter (fun c => negb (((48 <=? c) && (c <=? 57)) || (c =? 32) || (c =? 10))) l.
Definition says (doc : list Z) (s : string) : Prop := squash doc = squash (codes s).

(* ------------------------------------------------------------------------------------------------------------ *)
(* helpers called by the constraints                                                                             *)
Lemma Kernel_area_height_eq : forall k d, Kernel_area_height k d = dilated k d.
Proof. reflexivity. Qed.
Lemma Kernel_area_width_eq : forall k d, Kernel_area_width k d = dilated k d.
Proof. reflexivity. Qed.
Lemma Kernel_elements_wh_eq : forall w h, Kernel_elements_wh w h = w * h.
Proof. reflexivity. Qed.

Lemma full_shape_batch : forall s, py_nth (full_shape 4 s 1) 0 = batch_of s.
Proof.
  intro s. unfold full_shape, batch_of, py_nth, py_repeat.
  change (0 <? 0) with false. cbv iota. change (0 <? 0) with false. cbv iota. change (Z.to_nat 0) with 0%nat.
  destruct (Z.ltb_spec (py_len s) 4) as [H|H].
  - assert (E : exists n, Z.to_nat (4 - py_len s) = S n).
    { destruct (Z.to_nat (4 - py_len s)) eqn:E; [lia | eauto]. }
    destruct E as [n E]; rewrite E. reflexivity.
  - assert (E : Z.to_nat (4 - py_len s) = 0%nat) by lia. rewrite E. reflexivity.
Qed.

(* calc_resize_factor: the stride that remains after the width-folding optimisation, for strides > 1 *)
Definition w_ok (sw ifm_w : Z) : bool :=
  (sw <=? 3) || divides sw ifm_w || (divides 2 sw && divides (sw / 2) ifm_w) || (divides 3 sw && divides (sw / 3) ifm_w).

Lemma div_self_half : forall s, 1 < s -> s mod 2 = 0 -> s / (s / 2) = 2 /\ s <> s / 2.
Proof.
  intros s H1 H2. assert (E : s = 2 * (s / 2)) by (apply Z.div_exact; lia).
  assert (0 < s / 2) by lia. split; [|lia].
  symmetry. apply (Z.div_unique s (s / 2) 2 0); lia.
Qed.
Lemma div_self_third : forall s, 1 < s -> s mod 3 = 0 -> s / (s / 3) = 3 /\ s <> s / 3.
Proof.
  intros s H1 H2. assert (E : s = 3 * (s / 3)) by (apply Z.div_exact; lia).
  assert (0 < s / 3) by lia. split; [|lia].
  symmetry. apply (Z.div_unique s (s / 3) 3 0); lia.
Qed.

Lemma calc_resize_factor_optimised : forall ifm_w sw, 1 < sw ->
  (snd (calc_resize_factor ifm_w sw) <=? 3) = w_ok sw ifm_w.
Proof.
  intros ifm_w sw Hs. unfold calc_resize_factor, w_ok, divides. cbv zeta. cbn [snd].
  destruct (Z.eqb_spec (ifm_w mod sw) 0) as [E0|E0]; cbn [negb].
  - rewrite Z_div_same_full by lia. rewrite orb_true_r. reflexivity.
  - cbn [filter].
    destruct (Z.eqb_spec (sw mod 2) 0) as [E2|E2]; destruct (Z.eqb_spec (sw mod 3) 0) as [E3|E3]; cbn [filter andb orb];
      try (destruct (Z.eqb_spec (ifm_w mod (sw / 2)) 0) as [F2|F2]); try (destruct (Z.eqb_spec (ifm_w mod (sw / 3)) 0) as [F3|F3]);
      cbn [filter hd andb orb negb];
      repeat rewrite orb_false_r; repeat rewrite orb_true_r;
      try (destruct (div_self_half sw Hs E2) as [D2 N2]); try (destruct (div_self_third sw Hs E3) as [D3 N3]);
      repeat match goal with
             | |- context [negb (sw =? sw / 2)] => destruct (Z.eqb_spec sw (sw / 2)); [contradiction|]; cbn [negb]
             | |- context [negb (sw =? sw / 3)] => destruct (Z.eqb_spec sw (sw / 3)); [contradiction|]; cbn [negb]
             | |- context [sw / 1] => rewrite Z.div_1_r
             | |- context [negb (sw =? sw)] => rewrite Z.eqb_refl; cbn [negb]
             end;
      try rewrite D2; try rewrite D3; try rewrite Z.div_1_r; try reflexivity.
Qed.

(* ------------------------------------------------------------------------------------------------------------ *)
(* constraint_matches_doc_<name>: the translated predicate is the documented reading, for all integer arguments   *)

Theorem constraint_matches_doc_tens_dimension : forall shapes,
  constraint_tens_dimension shapes = doc_tens_dimension shapes.
Proof.
  intro shapes. unfold constraint_tens_dimension, doc_tens_dimension. cbv zeta. cbn [andb].
  apply forallb_ext'. intro s. rewrite negb_involutive. apply forallb_ext'. intro d. reflexivity.
Qed.

Theorem constraint_matches_doc_stride_range : forall w h, constraint_stride_range w h = doc_stride_range w h.
Proof. reflexivity. Qed.

Theorem constraint_matches_doc_dilated_height_range : forall kh dh,
  constraint_dilated_height_range kh dh = doc_dilated_height_range kh dh.
Proof. reflexivity. Qed.

Theorem constraint_matches_doc_dilated_product_range : forall kw kh dw dh,
  constraint_dilated_product_range kw kh dw dh = doc_dilated_product_range kw kh dw dh.
Proof. reflexivity. Qed.

Theorem constraint_matches_doc_weights_limit : forall s, constraint_weights_limit s = doc_weights_limit s.
Proof. reflexivity. Qed.

Theorem constraint_matches_doc_batch_size : forall ifm ifm2 has_ifm has_ifm2,
  constraint_batch_size ifm ifm2 has_ifm has_ifm2 = doc_batch_size ifm ifm2 has_ifm has_ifm2.
Proof.
  intros. unfold constraint_batch_size, doc_batch_size, impb. cbv zeta. rewrite !full_shape_batch.
  change (dn doc_nums_constraint_batch_size 0) with 1.
  destruct has_ifm, has_ifm2; cbn [negb orb andb];
    destruct (batch_of ifm =? 1); destruct (batch_of ifm2 =? 1); reflexivity.
Qed.

Theorem constraint_matches_doc_depth_multiplier : forall dm ifm ofm,
  constraint_depth_multiplier dm ifm ofm = doc_depth_multiplier dm ifm ofm.
Proof.
  intros. unfold constraint_depth_multiplier, doc_depth_multiplier, impb. cbv zeta.
  change (dn doc_nums_constraint_depth_multiplier 0) with 1. change (dn doc_nums_constraint_depth_multiplier 1) with 1.
  destruct (dm >? 1); reflexivity.
Qed.

Theorem constraint_matches_doc_depthwise_conv_stride : forall w h,
  constraint_depthwise_conv_stride w h = doc_depthwise_conv_stride w h.
Proof. reflexivity. Qed.

Theorem constraint_matches_doc_tconv_stride : forall sw sh kh ifm,
  constraint_tconv_stride sw sh kh ifm = doc_tconv_stride sw sh kh (py_nth ifm 1).
Proof.
  intros. unfold constraint_tconv_stride, doc_tconv_stride. cbv zeta.
  change doc_nums_constraint_tconv_stride with [1; 1; 2; 2; 2; 1; 1]. cbn [dn nth].
  destruct (sw =? 1); destruct (sh =? 1); destruct (sw =? 2); destruct (sh =? 2);
    destruct (py_nth ifm 1 =? 1); destruct (kh =? 1); reflexivity.
Qed.

Theorem constraint_matches_doc_tconv_same : forall sw sh padding ifm ofm,
  constraint_tconv_same sw sh padding ifm ofm = doc_tconv_same sw sh padding ifm ofm.
Proof. intros. unfold constraint_tconv_same, doc_tconv_same, impb. destruct (padding =? K_Padding_SAME); reflexivity. Qed.

(* the code accepts exactly the output size TFLite computes for VALID padding ... *)
Theorem constraint_tconv_valid_spec : forall sw sh kw kh padding ifm ofm,
  constraint_tconv_valid sw sh kw kh padding ifm ofm = spec_tconv_valid sw sh kw kh padding ifm ofm.
Proof. intros. unfold constraint_tconv_valid, spec_tconv_valid, impb. destruct (padding =? K_Padding_VALID); reflexivity. Qed.
(* ... which is not what the sentence in the report says when read literally ("minus difference between kernel size and
   stride"): a 3x3 stride-2 VALID transpose convolution 8x8 -> 17x17 is accepted, the sentence gives 15x15 *)
Theorem constraint_matches_doc_tconv_valid_refuted : exists sw sh kw kh padding ifm ofm,
  constraint_tconv_valid sw sh kw kh padding ifm ofm = true /\ doc_tconv_valid_literal sw sh kw kh padding ifm ofm = false.
Proof. exists 2, 2, 3, 3, K_Padding_VALID, [1; 8; 8; 4], [1; 17; 17; 4]. split; reflexivity. Qed.
(* the two agree exactly when kernel and stride are equal *)
Theorem constraint_matches_doc_tconv_valid_partial : forall s padding ifm ofm,
  constraint_tconv_valid s s s s padding ifm ofm = doc_tconv_valid_literal s s s s padding ifm ofm.
Proof.
  intros. rewrite constraint_tconv_valid_spec. unfold spec_tconv_valid, doc_tconv_valid_literal.
  rewrite Z.sub_diag. change (Z.max 0 0) with 0. rewrite !Z.add_0_r, !Z.sub_0_r. reflexivity.
Qed.

Theorem constraint_matches_doc_filter_height_range : forall kh,
  constraint_filter_height_range kh = doc_filter_height_range kh.
Proof. reflexivity. Qed.
Theorem constraint_matches_doc_filter_product_range : forall kw kh,
  constraint_filter_product_range kw kh = doc_filter_product_range kw kh.
Proof. reflexivity. Qed.
Theorem constraint_matches_doc_filter_height_range_valid_pad : forall kh padding,
  constraint_filter_height_range_valid_pad kh padding = doc_filter_height_range_valid_pad kh padding.
Proof.
  intros. unfold constraint_filter_height_range_valid_pad, doc_filter_height_range_valid_pad, impb.
  destruct (padding =? K_Padding_VALID); reflexivity.
Qed.
Theorem constraint_matches_doc_filter_product_range_valid_pad : forall kw kh padding,
  constraint_filter_product_range_valid_pad kw kh padding = doc_filter_product_range_valid_pad kw kh padding.
Proof.
  intros. unfold constraint_filter_product_range_valid_pad, doc_filter_product_range_valid_pad, impb.
  destruct (padding =? K_Padding_VALID); reflexivity.
Qed.

(* constraint_filter_range: the sentence has no condition, the code checks SAME padding only and lets a filter width
   equal to the stride width pass *)
Theorem constraint_filter_range_spec : forall sw sh kw kh padding,
  constraint_filter_range sw sh kw kh padding =
  impb (padding =? K_Padding_SAME)
       ((in_range (dn doc_nums_constraint_filter_range 0) (dn doc_nums_constraint_filter_range 1) kw || (sw =? kw)) &&
        in_range (dn doc_nums_constraint_filter_range 0) (dn doc_nums_constraint_filter_range 1) kh).
Proof. intros. unfold constraint_filter_range, impb. destruct (padding =? K_Padding_SAME); reflexivity. Qed.
Theorem constraint_matches_doc_filter_range_partial : forall sw sh kw kh padding,
  doc_filter_range kw kh = true -> constraint_filter_range sw sh kw kh padding = true.
Proof.
  intros sw sh kw kh padding H. rewrite constraint_filter_range_spec. unfold doc_filter_range in H.
  apply andb_true_iff in H. destruct H as [H1 H2]. rewrite H1, H2. unfold impb. destruct (padding =? K_Padding_SAME); reflexivity.
Qed.
Theorem constraint_matches_doc_filter_range_refuted : exists sw sh kw kh padding,
  constraint_filter_range sw sh kw kh padding = true /\ doc_filter_range kw kh = false.
Proof. exists 1, 1, (K_filter_range_1 + 1), (K_filter_range_1 + 1), K_Padding_VALID. split; vm_compute; reflexivity. Qed.

Theorem constraint_matches_doc_mean_height_width_product : forall shape axis is16 isu8,
  constraint_mean_height_width_product shape axis is16 isu8 = doc_mean_height_width_product shape axis is16 isu8.
Proof. intros. destruct is16, isu8; reflexivity. Qed.

Theorem constraint_matches_doc_mean_depth : forall shape axis,
  constraint_mean_depth shape axis = doc_mean_depth shape axis.
Proof.
  intros. unfold constraint_mean_depth, doc_mean_depth, impb. cbv zeta.
  change (dn doc_nums_constraint_mean_depth 0) with K_mean_reduced_axis_max_size.
  rewrite gtb_negb_leb. destruct (py_in (py_len shape - 1) axis); destruct (py_nth shape (-1) <=? K_mean_reduced_axis_max_size); reflexivity.
Qed.

Theorem constraint_matches_doc_mean_width : forall shape axis,
  constraint_mean_width shape axis = doc_mean_width shape axis.
Proof.
  intros. unfold constraint_mean_width, doc_mean_width, width_index, impb. cbv zeta.
  change (dn doc_nums_constraint_mean_width 0) with K_mean_reduced_axis_max_size.
  destruct (py_len shape <? 4); reflexivity.
Qed.

Theorem constraint_matches_doc_argmax_depth : forall shape, constraint_argmax_depth shape = doc_argmax_depth shape.
Proof. reflexivity. Qed.

(* --- bias: "fit within 40-bits": the values a 40-bit two's complement field holds --- *)
Theorem constraint_matches_doc_bias_40bit : forall has_bias is64 has_values vals,
  constraint_bias_40bit has_bias is64 has_values vals = doc_bias_40bit has_bias is64 has_values vals.
Proof.
  intros. unfold constraint_bias_40bit, doc_bias_40bit, impb. cbv zeta.
  destruct (has_bias && is64 && has_values); [|reflexivity]. cbn [negb orb].
  apply forallb_ext'. intro v. unfold in_int.
  change (Z.shiftl 1 39) with (2 ^ (dn doc_nums_constraint_bias_40bit 0 - 1)). reflexivity.
Qed.
Example ex_bias_40bit : constraint_bias_40bit true true true [2 ^ 39 - 1; - 2 ^ 39] = true /\
                        constraint_bias_40bit true true true [2 ^ 39] = false /\
                        constraint_bias_40bit true true true [- 2 ^ 39 - 1] = false.
Proof. repeat split; vm_compute; reflexivity. Qed.

(* --- strides of CONV_2D / AVERAGE_POOL_2D --- *)
Theorem constraint_stride_width_no_upper_limit_spec : forall sw sh ifm ofm,
  constraint_stride_width_no_upper_limit sw sh ifm ofm =
  ((py_nth ofm 1 =? 1) || in_range 1 3 sh) &&
  ((py_nth ofm 2 =? 1) || ((1 <=? sw) && w_ok sw (py_nth ifm 2))).
Proof.
  intros. unfold constraint_stride_width_no_upper_limit. cbv zeta. f_equal. f_equal.
  destruct (Z.leb_spec 1 sw) as [H|H]; [|reflexivity]. cbn [andb].
  destruct (Z.gtb_spec sw 1) as [G|G].
  - apply calc_resize_factor_optimised. lia.
  - assert (sw = 1) by lia. subst sw. reflexivity.
Qed.

(* every operator the sentence admits is admitted by the code ... *)
Theorem constraint_matches_doc_stride_width_no_upper_limit_partial : forall sw sh ifm ofm,
  1 <= py_nth ofm 1 -> 1 <= py_nth ofm 2 ->
  (doc_stride_width_no_upper_limit sw sh (py_nth ifm 2) (py_nth ofm 1) (py_nth ofm 2) = true ->
   constraint_stride_width_no_upper_limit sw sh ifm ofm = true) /\
  (constraint_stride_width_no_upper_limit sw sh ifm ofm = true ->
   doc_stride_width_no_upper_limit sw sh (py_nth ifm 2) (py_nth ofm 1) (py_nth ofm 2) = true \/
   (3 < sw /\ py_nth ifm 2 mod sw = 0)).
Proof.
  intros sw sh ifm ofm Hh Hw. rewrite constraint_stride_width_no_upper_limit_spec.
  unfold doc_stride_width_no_upper_limit, doc_stride_w_alternative, w_ok, impb, in_range, divides.
  change doc_nums_constraint_stride_width_no_upper_limit with [1; 3; 1; 1; 3; 1; 2; 3; 2; 3]. cbn [dn nth]. cbv zeta.
  set (iw := py_nth ifm 2). set (oh := py_nth ofm 1) in *. set (ow := py_nth ofm 2) in *.
  rewrite !gtb_negb_leb.
  destruct (Z.eqb_spec oh 1); destruct (Z.leb_spec oh 1); try lia;
  destruct (Z.eqb_spec ow 1); destruct (Z.leb_spec ow 1); try lia; cbn [negb orb andb];
  destruct (Z.leb_spec 1 sh); destruct (Z.leb_spec sh 3); cbn [andb orb];
  destruct (Z.leb_spec 1 sw); destruct (Z.leb_spec sw 3); cbn [andb orb];
  destruct (Z.eqb_spec (iw mod sw) 0); cbn [andb orb];
  destruct ((sw mod 2 =? 0) && (iw mod (sw / 2) =? 0)); destruct ((sw mod 3 =? 0) && (iw mod (sw / 3) =? 0)); cbn [andb orb];
  split; intro H; try discriminate; try reflexivity; try (left; reflexivity); try (right; split; lia).
Qed.
(* ... but the code also admits a stride that divides the IFM width and is not a multiple of 2 or 3 *)
Theorem constraint_matches_doc_stride_width_no_upper_limit_refuted : exists sw sh ifm ofm,
  constraint_stride_width_no_upper_limit sw sh ifm ofm = true /\
  doc_stride_width_no_upper_limit sw sh (py_nth ifm 2) (py_nth ofm 1) (py_nth ofm 2) = false.
Proof. exists 5, 1, [1; 16; 10; 4], [1; 16; 2; 4]. split; reflexivity. Qed.

Theorem constraint_matches_doc_stride_range_no_padding : forall sw sh padding ifm ofm,
  py_nth ofm 2 <> 1 ->
  constraint_stride_range_no_padding sw sh padding ifm ofm =
  constraint_stride_width_no_upper_limit sw sh ifm ofm && doc_stride_range_no_padding sw padding.
Proof.
  intros sw sh padding ifm ofm Hw. unfold constraint_stride_range_no_padding, doc_stride_range_no_padding, impb. cbv zeta.
  change (dn doc_nums_constraint_stride_range_no_padding 0) with 1. change (dn doc_nums_constraint_stride_range_no_padding 1) with 3.
  rewrite constraint_stride_width_no_upper_limit_spec. rewrite gtb_negb_leb, negb_involutive.
  destruct (Z.eqb_spec (py_nth ofm 2) 1); [contradiction|]. cbn [orb].
  destruct ((py_nth ofm 1 =? 1) || in_range 1 3 sh); cbn [andb]; [|reflexivity].
  destruct (1 <=? sw); cbn [andb]; [|reflexivity].
  destruct (w_ok sw (py_nth ifm 2)); cbn [andb]; [|reflexivity].
  destruct (padding =? -1); destruct (padding =? K_Padding_VALID); destruct (sw <=? 3); reflexivity.
Qed.

(* --- resize --- *)
Lemma fr_pair : forall nh dh nw dw k, dh <> 0 -> dw <> 0 ->
  ((nh * dw =? nw * dh) && (nh =? k * dh)) = ((nh =? k * dh) && (nw =? k * dw)).
Proof.
  intros. destruct (Z.eqb_spec (nh * dw) (nw * dh)); destruct (Z.eqb_spec nh (k * dh)); destruct (Z.eqb_spec nw (k * dw));
    try reflexivity; exfalso; subst; nia.
Qed.

(* exact behaviour of constraint_resize, including when it raises (None): int() of an inf/nan quotient *)
Theorem constraint_resize_spec : forall (ifm ofm : list Z) (align : bool),
  let ih := py_nth ifm 1 in let iw := py_nth ifm 2 in let oh := py_nth ofm 1 in let ow := py_nth ofm 2 in
  let dh := if align then ih - 1 else ih in let dw := if align then iw - 1 else iw in
  let nh := if align then oh - 1 else oh in let nw := if align then ow - 1 else ow in
  constraint_resize ifm ofm align =
  if negb (py_len ifm =? 4) then Some false
  else if ((ih =? 1) && (iw =? 1)) || list_eqb ifm ofm then Some true
  else if align && ((ih =? 1) || (iw =? 1)) then Some false
  else if dh =? 0 then None
  else Some (negb (dw =? 0) && existsb (fun k => scaled_by k dh dw nh nw) [2; 4; 8]).
Proof.
  intros. unfold constraint_resize. cbv zeta. fold ih iw oh ow.
  destruct (py_len ifm =? 4); cbn [negb]; [|reflexivity].
  destruct (((ih =? 1) && (iw =? 1)) || list_eqb ifm ofm); [reflexivity|].
  assert (G : forall nh dh nw dw,
    (if fr_finite (nh, dh) then Some (fr_eq (nh, dh) (nw, dw) && (fr_is (nh, dh) 2 || fr_is (nh, dh) 4 || fr_is (nh, dh) 8)) else None) =
    (if dh =? 0 then None else Some (negb (dw =? 0) && existsb (fun k => scaled_by k dh dw nh nw) [2; 4; 8]))).
  { clear. intros nh dh nw dw. unfold fr_finite, fr_eq, fr_is, scaled_by. cbn [snd existsb].
    destruct (Z.eqb_spec dh 0) as [E|E]; cbn [negb]; [reflexivity|]. f_equal.
    destruct (Z.eqb_spec dw 0) as [F|F]; cbn [negb orb andb]; [reflexivity|].
    rewrite orb_false_r. rewrite !andb_orb_distrib_r. rewrite !fr_pair by assumption. rewrite orb_assoc. reflexivity. }
  subst dh dw nh nw. destruct align; cbn [andb].
  - destruct ((ih =? 1) || (iw =? 1)); cbv iota beta zeta; [reflexivity|]. rewrite G.
    destruct (ih - 1 =? 0); reflexivity.
  - cbv iota beta zeta. rewrite G. destruct (ih =? 0); reflexivity.
Qed.

(* the answer is the documented one: always with align_corners, and without it whenever the IFM height is not 0 *)
Theorem constraint_matches_doc_resize : forall (ifm ofm : list Z) (align : bool),
  (align = false -> py_nth ifm 1 <> 0) ->
  constraint_resize ifm ofm align = Some (doc_resize ifm ofm align).
Proof.
  intros ifm ofm align H. rewrite constraint_resize_spec. cbv zeta. unfold doc_resize. cbv zeta.
  change doc_nums_constraint_resize with [1; 1; 1; 2; 4; 8; 1; 1; 2; 4; 8]. cbn [dn nth].
  destruct (py_len ifm =? 4); cbn [negb andb]; [|reflexivity].
  destruct (((py_nth ifm 1 =? 1) && (py_nth ifm 2 =? 1)) || list_eqb ifm ofm) eqn:E; [reflexivity|]. cbn [orb].
  destruct align; cbn [andb].
  - destruct (Z.eqb_spec (py_nth ifm 1) 1) as [A|A]; destruct (Z.eqb_spec (py_nth ifm 2) 1) as [B|B]; cbn [orb].
    + rewrite A. reflexivity.
    + rewrite A. reflexivity.
    + rewrite B. change (1 - 1 =? 0) with true. cbn [negb]. rewrite andb_false_r. reflexivity.
    + destruct (Z.eqb_spec (py_nth ifm 1 - 1) 0); [lia|]. destruct (Z.eqb_spec (py_nth ifm 2 - 1) 0); [lia|]. reflexivity.
  - specialize (H eq_refl). destruct (Z.eqb_spec (py_nth ifm 1) 0); [contradiction|]. reflexivity.
Qed.
(* with the dimensions the generic constraints admit (>= 1) the constraint function does not raise *)
Theorem constraint_resize_total : forall ifm ofm align, 1 <= py_nth ifm 1 -> constraint_resize ifm ofm align <> None.
Proof.
  intros ifm ofm align H. rewrite constraint_matches_doc_resize; [discriminate|]. intros _. lia.
Qed.

Theorem constraint_matches_doc_resizebi_half_pixel_centers_dims : forall ifm ofm half,
  py_nth ifm (-3) <> 0 -> py_nth ifm (-2) <> 0 ->
  constraint_resizebi_half_pixel_centers_dims ifm ofm half = Some (doc_resizebi_half_pixel_centers_dims ifm ofm half).
Proof.
  intros ifm ofm half H1 H2. unfold constraint_resizebi_half_pixel_centers_dims, doc_resizebi_half_pixel_centers_dims, impb.
  cbv zeta. change doc_nums_constraint_resizebi_half_pixel_centers_dims with [1; 2]. cbn [dn nth].
  change (-3 + 1) with (-2).
  destruct half; cbn [negb orb]; [|reflexivity].
  rewrite geb_leb'. destruct (3 <=? py_len ifm); cbn [andb]; [|reflexivity].
  destruct ((py_nth ifm (-3) =? 1) && (py_nth ifm (-2) =? 1)); cbn [orb]; [reflexivity|].
  unfold fr_is, scaled_by.
  destruct (Z.eqb_spec (py_nth ifm (-3)) 0); [contradiction|]. destruct (Z.eqb_spec (py_nth ifm (-2)) 0); [contradiction|].
  reflexivity.
Qed.

(* ------------------------------------------------------------------------------------------------------------ *)
(* the sentences the readings were written from                                                                  *)
Theorem documented_sentences :
  says doc_text_constraint_tens_dimension "Tensor dimensions must be in the range [, ]" /\
  says doc_text_constraint_stride_range "Stride values for both width and height must be in the range [, ]" /\
  says doc_text_constraint_dilated_height_range "Dilated kernel height must be in the range [, ]" /\
  says doc_text_constraint_dilated_product_range "Product of dilated kernel width and height must be in the range [, ]" /\
  says doc_text_constraint_weights_limit "The sum of the weights cannot exceed " /\
  says doc_text_constraint_bias_40bit "Optional Bias tensor values must fit within -bits" /\
  says doc_text_constraint_batch_size "IFM Tensor batch size must be " /\
  says doc_text_constraint_depth_multiplier
       "For depth multipliers > , IFM channels must be  and OFM channels must be equal to the depth multiplier" /\
  says doc_text_constraint_stride_width_no_upper_limit
       "Strides must fulfil the following criteria: - Stride h must be between  and  when ofm height is greater than  - Stride w must be between  and  when ofm height is greater than  or stride w must be divisible by  or  and ifm width must be divisible by stride_w/ or stride_w/" /\
  says doc_text_constraint_stride_range_no_padding
       "Stride width must be greater than or equal to . For stride width greater than , valid padding needs to be used." /\
  says doc_text_constraint_depthwise_conv_stride "Stride values for both width and height must be between  and " /\
  says doc_text_constraint_tconv_stride
       "Stride values for width and height must match one of the following criteria: Stride values WxH must be x or x Stride WxH x supported if ifm height and kernel height = " /\
  says doc_text_constraint_tconv_same "SAME padding: OFM dimensions must equal IFM dimensions multiplied by stride" /\
  says doc_text_constraint_tconv_valid
       "VALID padding: OFM dimensions must equal IFM dimensions multiplied by stride, minus difference between kernel size and stride" /\
  says doc_text_constraint_filter_range "Kernel filter values for both width and height must be in the range [, ]" /\
  says doc_text_constraint_filter_height_range "Kernel filter height must be in the range [, ]" /\
  says doc_text_constraint_filter_product_range "Product of kernel filter width and height must be in the range [, ]" /\
  says doc_text_constraint_filter_height_range_valid_pad "VALID padding: Kernel filter height must be in the range [, ]" /\
  says doc_text_constraint_filter_product_range_valid_pad
       "VALID padding: Product of kernel filter width and height must be in the range [, ]" /\
  says doc_text_constraint_resize
       "The width and height of the IFM and OFM must match one of the following criteria: IFM W and H must both be  IFM must match OFM W and H scaling must be equal and OFM W- and H- must be x/x/x IFM W- and H-, if align_corners is True W and H scaling must be equal and OFM W and H must be x/x/x IFM W and H, if align_corners is False" /\
  says doc_text_constraint_resizebi_half_pixel_centers_dims
       "For half_pixel_centers the width and height of the IFM and OFM must match one of the following criteria: IFM W and H are both  OFM W and H is x IFM W and H" /\
  says doc_text_constraint_mean_height_width_product
       "Product of reduced axes must be no greater than: -  for signed -bit inputs. -  for unsigned -bit inputs. -  for signed -bit inputs." /\
  says doc_text_constraint_mean_width "If Width axis is reduced its shape must be no greater than ." /\
  says doc_text_constraint_mean_depth "If Depth axis is reduced its shape must be no greater than ." /\
  says doc_text_constraint_argmax_depth "IFM depth must be no greater than ".
Proof. unfold says. repeat (match goal with |- _ /\ _ => split end); vm_compute; reflexivity. Qed.

(* three of them, for the property file *)
Theorem documented_sentences_3 :
  says doc_text_constraint_stride_range "Stride values for both width and height must be in the range [, ]" /\
  says doc_text_constraint_bias_40bit "Optional Bias tensor values must fit within -bits" /\
  says doc_text_constraint_mean_width "If Width axis is reduced its shape must be no greater than .".
Proof. unfold says. split; [|split]; vm_compute; reflexivity. Qed.

(* ------------------------------------------------------------------------------------------------------------ *)
(* the drivers and the report                                                                                    *)
Lemma run_constraints_fst : forall res l, fst (run_constraints res l) = forallb res l.
Proof.
  intros res l; induction l as [|c r IH]; [reflexivity|]. cbn [run_constraints forallb].
  destruct (res c); [|reflexivity]. destruct (run_constraints res r) as [b called]. cbn [fst andb] in *. exact IH.
Qed.
Lemma run_constraints_all : forall res l, forallb res l = true -> snd (run_constraints res l) = l.
Proof.
  intros res l; induction l as [|c r IH]; intro H; [reflexivity|]. cbn [run_constraints forallb] in *.
  apply andb_true_iff in H. destruct H as [H1 H2]. rewrite H1. specialize (IH H2).
  destruct (run_constraints res r) as [b called]. cbn [snd] in *. rewrite IH. reflexivity.
Qed.
(* the constraints that were called are a prefix of the list, ending at the first one that answered False *)
Lemma run_constraints_prefix : forall res l, exists rest, l = snd (run_constraints res l) ++ rest.
Proof.
  intros res l; induction l as [|c r IH]; [exists []; reflexivity|]. cbn [run_constraints].
  destruct (res c).
  - destruct IH as [rest IH]. destruct (run_constraints res r) as [b called]. cbn [snd] in *. exists rest. rewrite IH at 1. reflexivity.
  - exists r. reflexivity.
Qed.

(* is_operator_supported is the conjunction of its list, and False outside supported_operators *)
Theorem supported_is_conjunction : forall res op,
  fst (is_operator_supported res op) = mem op supported_operators && forallb res (sup_list op).
Proof.
  intros res op. unfold is_operator_supported. destruct (mem op supported_operators); cbn [negb andb]; [|reflexivity].
  apply run_constraints_fst.
Qed.
Theorem semantic_is_conjunction : forall res op,
  mem op [op_id_Placeholder; op_id_SubgraphInput; op_id_Const] = false ->
  fst (is_operator_semantic_valid res op) = forallb res (sem_list op).
Proof. intros res op H. unfold is_operator_semantic_valid. rewrite H. apply run_constraints_fst. Qed.
Theorem unsupported_type_is_rejected : forall res op,
  mem op supported_operators = false -> is_operator_supported res op = (false, []).
Proof. intros res op H. unfold is_operator_supported. rewrite H. reflexivity. Qed.

(* the driver models agree with what the real drivers evaluated, in order, for every member of Op *)
Theorem drivers_match_traced :
  forallb traced_ok traced = true /\
  map (fun r => let '(op, _, _, _, _) := r in op) traced = map Z.of_nat (seq 0 (Z.to_nat n_ops)).
Proof. split; vm_compute; reflexivity. Qed.

(* the report: its rows are exactly the TFLite operators of a supported type, and each row prints exactly the constraints
   the two drivers evaluate for that type -- generic ones first as the report does, each group in evaluation order *)
Theorem report_rows_check : forallb row_ok report_rows = true /\ pairs_eqb rows_head expected_rows = true.
Proof. split; vm_compute; reflexivity. Qed.

Theorem report_lists_enforced : forall code op ngen idx,
  In (code, op, ngen, idx) report_rows ->
  report_text idx = map doc_of (enforced_generic op) ++ map doc_of (enforced_specific op) /\
  mem op supported_operators = true /\
  (* the same constraints as the drivers' lists *)
  (forall res, forallb res (enforced_generic op ++ enforced_specific op) = forallb res (sem_list op) && forallb res (sup_list op)) /\
  (* and the supported-operator part keeps the order in which is_operator_supported evaluates it *)
  sup_list op = filter (fun c => negb (mem c (assoc op sup_exceptions))) sup_generic ++ assoc op sup_specific.
Proof.
  intros code op ngen idx Hin.
  destruct report_rows_check as [H _]. rewrite forallb_forall in H. specialize (H _ Hin). unfold row_ok in H.
  apply andb_true_iff in H. destruct H as [H Hs]. apply andb_true_iff in H. destruct H as [Ht _].
  apply list_list_eqb_eq in Ht. unfold report_expected in Ht. rewrite map_app in Ht.
  split; [exact Ht|]. split; [exact Hs|]. split; [|reflexivity].
  intro res. unfold enforced_generic, enforced_specific, sem_list, sup_list. rewrite !forallb_app.
  destruct (forallb res (filter (fun c => negb (mem c (assoc op sem_exclude))) sem_generic));
    destruct (forallb res (filter (fun c => negb (mem c (assoc op sup_exceptions))) sup_generic));
    destruct (forallb res (assoc op sem_specific)); destruct (forallb res (assoc op sup_specific)); reflexivity.
Qed.

(* an operator type is accepted by both drivers exactly when every constraint the report prints for it holds *)
Theorem npu_candidate_iff_report : forall res code op ngen idx,
  In (code, op, ngen, idx) report_rows ->
  mem op [op_id_Placeholder; op_id_SubgraphInput; op_id_Const] = false ->
  fst (is_operator_semantic_valid res op) && fst (is_operator_supported res op) =
  forallb res (enforced_generic op ++ enforced_specific op).
Proof.
  intros res code op ngen idx Hin Hs. destruct (report_lists_enforced _ _ _ _ Hin) as [_ [Hm [Hc _]]].
  rewrite supported_is_conjunction, semantic_is_conjunction by assumption. rewrite Hm, Hc. reflexivity.
Qed.

(* the value lists the report prints (data types, operator types) are the sets the predicates read *)
Theorem report_values_are_enforced_values : forallb value_list_ok value_lists = true /\ value_lists <> [].
Proof. split; [vm_compute; reflexivity | discriminate]. Qed.
Theorem report_values_are_enforced_values_each : forall c prefix printed enforced,
  In (c, prefix, printed, enforced) value_lists ->
  doc_of c = prefix ++ join_comma printed /\ dedup_adjacent printed = enforced.
Proof.
  intros c prefix printed enforced Hin. destruct report_values_are_enforced_values as [H _].
  rewrite forallb_forall in H. specialize (H _ Hin). unfold value_list_ok in H.
  apply andb_true_iff in H. destruct H as [H1 H2]. split; [apply list_eqb_eq | apply list_list_eqb_eq]; assumption.
Qed.

(* ------------------------------------------------------------------------------------------------------------ *)
(* UNIDIRECTIONAL_SEQUENCE_LSTM                                                                                  *)
Ltac list24 l := do 24 (destruct l as [|? l]; [discriminate|]); destruct l; [|discriminate].

Lemma lstm_weight_dimensions_one : forall ranks, List.length ranks = 24%nat ->
  (lstm_weight_dimensions ranks =? 1) = forallb (fun k => nth (Z.to_nat k) ranks 0 =? 2) [5; 6; 7; 8].
Proof.
  intros ranks H. list24 ranks. unfold lstm_weight_dimensions, py_slice. cbn [forallb].
  repeat match goal with |- context [Z.to_nat ?k] => let v := eval vm_compute in (Z.to_nat k) in change (Z.to_nat k) with v end.
  cbn [skipn firstn existsb forallb nth].
  repeat match goal with |- context [?x =? -1] => destruct (Z.eqb_spec x (-1)); [subst; cbn; try reflexivity|] end;
  repeat match goal with |- context [?x =? 2] => destruct (Z.eqb_spec x 2); [subst|] end; cbn; reflexivity.
Qed.

(* for an operator with 24 inputs the six constraint methods together say exactly what the six sentences say *)
Theorem lstm_supported_is_documented : forall present ranks,
  List.length present = 24%nat -> List.length ranks = 24%nat ->
  lstm_supported present ranks = doc_lstm_supported present ranks.
Proof.
  intros present ranks Hp Hr. unfold lstm_supported, doc_lstm_supported. rewrite (lstm_weight_dimensions_one ranks Hr).
  generalize (forallb (fun k : Z => nth (Z.to_nat k) ranks 0 =? 2) [5; 6; 7; 8]). intro wd. clear Hr ranks.
  destruct present as [|p0 [|p1 [|p2 [|p3 [|p4 [|p5 [|p6 [|p7 [|p8 [|p9 [|p10 [|p11 [|p12 [|p13 [|p14 [|p15 [|p16 [|p17 [|p18 [|p19 [|p20 [|p21 [|p22 [|p23 [|? ?]]]]]]]]]]]]]]]]]]]]]]]]]; try discriminate Hp. clear Hp.
  unfold lstm_no_cifg, lstm_no_peep_hole, lstm_no_projection, lstm_no_normalisation, lstm_weights, none_in, all_none, is_none, py_slice.
  cbn [forallb].
  repeat match goal with |- context [Z.to_nat ?k] => let v := eval vm_compute in (Z.to_nat k) in change (Z.to_nat k) with v end.
  cbn [skipn firstn existsb forallb nth].
  destruct (p1 =? 0), (p2 =? 0), (p3 =? 0), (p4 =? 0), (p5 =? 0), (p6 =? 0), (p7 =? 0), (p8 =? 0); cbn [negb andb orb];
    repeat rewrite andb_true_r; repeat rewrite andb_false_r; cbn [andb]; try reflexivity;
    repeat match goal with |- context [?x =? 0] => destruct (x =? 0) end; destruct wd; reflexivity.
Qed.

(* "Must not use CIFG" adds nothing to "All input and recurrent weights must be available"; the CIFG layout the TFLite
   converter writes (no input-gate weights 1 and 5, no input-gate bias 12) is what constraint_lstm_no_cifg recognises *)
Theorem lstm_no_cifg_subsumed : forall present, List.length present = 24%nat -> lstm_weights present = true -> lstm_no_cifg present = true.
Proof.
  intros present Hp. destruct present as [|p0 [|p1 [|p2 [|p3 [|p4 [|p5 [|p6 [|p7 [|p8 [|p9 [|p10 [|p11 [|p12 [|p13 [|p14 [|p15 [|p16 [|p17 [|p18 [|p19 [|p20 [|p21 [|p22 [|p23 [|? ?]]]]]]]]]]]]]]]]]]]]]]]]]; try discriminate Hp. clear Hp.
  unfold lstm_weights, lstm_no_cifg, none_in, is_none, py_slice.
  repeat match goal with |- context [Z.to_nat ?k] => let v := eval vm_compute in (Z.to_nat k) in change (Z.to_nat k) with v end.
  cbn [skipn firstn existsb forallb nth].
  destruct (p1 =? 0); cbn [negb andb orb]; intro H; [discriminate | rewrite andb_false_r; reflexivity].
Qed.
Example lstm_cifg_layout_rejected :
  lstm_no_cifg [1; 0; 1; 1; 1; 0; 1; 1; 1; 0; 0; 0; 0; 1; 1; 1; 0; 0; 1; 1; 0; 0; 0; 0] = false /\
  lstm_supported [1; 1; 1; 1; 1; 1; 1; 1; 1; 0; 0; 0; 1; 1; 1; 1; 0; 0; 1; 1; 0; 0; 0; 0]
                 [3; 2; 2; 2; 2; 2; 2; 2; 2; -1; -1; -1; 1; 1; 1; 1; -1; -1; 2; 2; -1; -1; -1; -1] = true /\
  lstm_supported [1; 1; 1; 1; 1; 1; 1; 1; 1; 0; 0; 0; 1; 1; 1; 1; 0; 0; 1; 1; 0; 0; 0; 0]
                 [3; 2; 2; 2; 2; 2; 3; 2; 2; -1; -1; -1; 1; 1; 1; 1; -1; -1; 2; 2; -1; -1; -1; -1] = false.
Proof. repeat split. Qed.

(* the sentences the model was written from, and the lists the two drivers evaluate for the operator, by name *)
Definition lstm_op : Z := op_by_name (codes "UnidirectionalSequenceLstm").
Theorem lstm_sentences :
  map (fun n => doc_by_name (codes n) constraint_fns)
      ["sup.constraint_lstm_no_cifg"; "sup.constraint_lstm_no_peep_hole"; "sup.constraint_lstm_no_projection";
       "sup.constraint_lstm_no_normalisation"; "sup.constraint_lstm_weights"; "sup.constraint_lstm_weight_dimensions";
       "sem.constraint_lstm_dimensions"; "sem.constraint_lstm_inputs"; "sem.constraint_lstm_intermediates";
       "sem.constraint_lstm_variables"]%string =
  map codes ["Must not use CIFG"; "Must not use Peephole"; "Must not use Projection"; "Must not use Normalisation";
             "All input and recurrent weights must be available"; "All recurrent weights must be 2D";
             "IFM and OFM must have 3D shape"; "Must have 24 input tensors"; "Must have 5 intermediate tensors";
             "State tensors must be variable"]%string.
Proof. vm_compute. reflexivity. Qed.
Theorem lstm_constraint_lists :
  0 <= lstm_op /\ mem lstm_op supported_operators = true /\
  map name_of (assoc lstm_op sup_specific) =
  map codes ["sup.constraint_lstm_no_cifg"; "sup.constraint_lstm_no_peep_hole"; "sup.constraint_lstm_no_projection";
             "sup.constraint_lstm_no_normalisation"; "sup.constraint_lstm_weights"; "sup.constraint_lstm_weight_dimensions"]%string /\
  map name_of (assoc lstm_op sem_specific) =
  map codes ["sem.constraint_input_signed"; "sem.constraint_matching_in_out_types"; "sem.constraint_lstm_dimensions";
             "sem.constraint_lstm_inputs"; "sem.constraint_lstm_intermediates"; "sem.constraint_lstm_variables"]%string.
Proof. repeat split; vm_compute; try reflexivity. discriminate. Qed.

(* ------------------------------------------------------------------------------------------------------------ *)
(* the hypotheses are satisfiable / the statements are not vacuous                                               *)
Example ex_stride_range : constraint_stride_range K_stride_range_1 K_stride_range_0 = true /\
                          constraint_stride_range (K_stride_range_1 + 1) K_stride_range_0 = false /\
                          constraint_stride_range K_stride_range_0 (K_stride_range_0 - 1) = false.
Proof. repeat split. Qed.
Example ex_dilated : constraint_dilated_height_range K_dilated_height_range_1 1 = true /\
                     constraint_dilated_height_range (K_dilated_height_range_1 + 1) 1 = false /\
                     constraint_dilated_product_range K_dilated_product_range_1 1 1 1 = true /\
                     constraint_dilated_product_range (K_dilated_product_range_1 + 1) 1 1 1 = false.
Proof. repeat split. Qed.
Example ex_tens_dimension : constraint_tens_dimension [[K_tens_dim_range_0; K_tens_dim_range_1]; [K_tens_dim_range_0]] = true /\
                            constraint_tens_dimension [[K_tens_dim_range_0; K_tens_dim_range_1 + 1]] = false /\
                            constraint_tens_dimension [[K_tens_dim_range_0 - 1]] = false.
Proof. repeat split. Qed.
Example ex_batch : constraint_batch_size [2; 8; 8; 4] [] true false = false /\ constraint_batch_size [8; 8; 4] [] true false = true.
Proof. repeat split. Qed.
Example ex_stride_w : constraint_stride_width_no_upper_limit 4 1 [1; 16; 18; 4] [1; 16; 5; 4] = true /\
                      constraint_stride_width_no_upper_limit 5 1 [1; 16; 16; 4] [1; 16; 4; 4] = false.
Proof. repeat split. Qed.
Example ex_resize : constraint_resize [1; 4; 4; 2] [1; 7; 7; 2] true = Some true /\ constraint_resize [1; 4; 4; 2] [1; 12; 12; 2] false = Some false.
Proof. repeat split. Qed.
Example ex_report_row : exists code op ngen idx, In (code, op, ngen, idx) report_rows /\ idx <> [] /\ sup_list op <> [].
Proof.
  destruct report_rows as [|[[[code op] ngen] idx] r] eqn:E; [discriminate|].
  exists code, op, ngen, idx. split; [left; reflexivity|]. vm_compute in E. inversion E; subst. split; discriminate.
Qed.
Example ex_driver : fst (is_operator_supported (fun _ => false) (snd (fst (fst (hd (0, 0, 0, []) report_rows))))) = false /\
                    fst (is_operator_supported (fun _ => true) (snd (fst (fst (hd (0, 0, 0, []) report_rows))))) = true.
Proof. split; vm_compute; reflexivity. Qed.
