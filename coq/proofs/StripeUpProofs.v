(* C10, part 5: 2x nearest-neighbour upscaling of the IFM (partial). *)
From Coq Require Import ZArith List Bool Lia.
From VV Require Import lib.PyInt gen.GenArchTables model.Stripe proofs.StripeProofs proofs.StripeTapProofs.
Import ListNotations.
Open Scope Z_scope.

(* the (box, pads) of OFM rows [st,en) of an operator whose IFM is upscaled 2x (upscaling_factor = 2 in the transform) *)
Definition stripe_h_up (g : geom) (st en : Z) : Z * Z * Z * Z :=
  let '(b0, b1, pt, pb) := tf_height st (Z.min en (g_in g * 2)) en (g_s g) (g_sk_t g) (g_sk_b g) (g_in g) 2 (g_kd g) in
  if (st =? 0) && (g_out g <=? en) then (b0, b1, g_top g, g_bottom g) else (b0, b1, pt, pb).

(* the operators the graph optimiser builds with NEAREST resampling (convert_resize_to_upscale_and_average_pool,
   convert_resizenn_ac_to_depthwise_conv): stride 1, dilation 1, no leading padding, OFM at most twice the IFM *)
Definition nearest_geom_ok (g : geom) : Prop :=
  g_s g = 1 /\ g_d g = 1 /\ 1 <= g_k g /\ 1 <= g_in g /\ 1 <= g_out g /\ g_out g <= 2 * g_in g /\
  g_top g = 0 /\ g_sk_t g = 0 /\ g_sk_b g = needed_total_padding (g_in g) 1 (g_k g) /\
  g_bottom g = Z.max 0 (g_out g - 1 + g_k g - 2 * g_in g).

Lemma ntp_stride1 H k : 1 <= k -> needed_total_padding H 1 k = k - 1.
Proof. intros. unfold needed_total_padding. rewrite Z.mod_1_r. cbn. lia. Qed.

(* partial: even stripe boundaries (propose_minimal_schedule / propose_schedule_striping force even stripe heights for
   nearest-upscaled operators), stride 1, dilation 1, leading padding 0.  Missing: odd leading skirt (the
   skirt_top_remainder path: not tap-equal on the faithful model, never produced by the optimiser), stride > 1,
   TRANSPOSE upscaling (transposed convolution; its reference semantics needs the weight flip), width upscaling
   (the width is never striped) *)
Lemma stripe_taps_equal_nearest_partial_lemma g a e r ky :
  nearest_geom_ok g -> 0 <= a -> a < e -> 2 * e <= g_out g -> 2 * a <= r < 2 * e -> 0 <= ky < g_k g ->
  let '(b0, b1, pt, pb) := stripe_h_up g (2 * a) (2 * e) in
  hw_tap_up RS_NEAREST b0 b1 pt pb (2 * e - 2 * a) 1 (g_k g) (r - 2 * a) ky
  = ref_tap_up RS_NEAREST (g_in g) 0 1 r ky.
Proof.
  intros (Hs & Hd & Hk & HH & Ho1 & Ho2 & Htop & Hskt & Hskb & Hbot) Ha Hae He Hr Hky.
  unfold stripe_h_up, tf_height, g_kd. rewrite Hs, Hd, Htop, Hskt, Hskb, Hbot, ntp_stride1 by lia.
  set (k := g_k g) in *. set (H := g_in g) in *. set (Ho := g_out g) in *.
  rewrite (Z.min_l (2 * e) (H * 2)) by lia.
  change (0 mod 2) with 0. change (negb (2 =? 1)) with true. cbn [andb].
  replace (H * 2 <? 2 * e) with false by (symmetry; apply Z.ltb_ge; lia).
  replace (1 * (k - 1) + 1) with k by lia.
  rewrite !Z.mul_1_r, !Z.add_0_r, !Z.sub_0_r.
  assert (Ea : Z.max (2 * a) 0 / 2 = a) by (rewrite Z.max_l by lia; rewrite Z.mul_comm; apply Z.div_mul; lia).
  rewrite Ea. rewrite (Z.max_l a 0) by lia.
  replace (Z.max 0 (0 - 2 * a)) with 0 by lia.
  unfold hw_tap_up, ref_tap_up. change (RS_NEAREST =? RS_TRANSPOSE) with false. cbn [andb].
  rewrite !Z.mul_1_r, !Z.sub_0_r.
  assert (Et : (r - 2 * a + ky) / 2 = (r + ky) / 2 - a).
  { replace (r - 2 * a + ky) with (r + ky + (- a) * 2) by lia. rewrite Z.div_add by lia. lia. }
  pose proof (Z.div_mod (k - 1) 2 ltac:(lia)) as Dk. pose proof (Z.mod_pos_bound (k - 1) 2 ltac:(lia)) as Mk.
  pose proof (Z.div_mod (r + ky) 2 ltac:(lia)) as Du. pose proof (Z.mod_pos_bound (r + ky) 2 ltac:(lia)) as Mu.
  pose proof (Z.div_mod (2 * e + (k - 1) + (k - 1) mod 2) 2 ltac:(lia)) as De.
  pose proof (Z.mod_pos_bound (2 * e + (k - 1) + (k - 1) mod 2) 2 ltac:(lia)) as Me.
  set (ne2 := (2 * e + (k - 1) + (k - 1) mod 2) / 2) in *.
  set (u2 := (r + ky) / 2) in *.
  assert (Hpb : (if H * 2 <? 2 * e + (k - 1) then Z.max 0 (Z.max (2 * a) 0 + 1 * (2 * e - 2 * a - 1) + k - H * 2) else 0)
                = Z.max 0 (2 * e - 1 + k - 2 * H)).
  { destruct (Z.ltb_spec (H * 2) (2 * e + (k - 1))); lia. }
  rewrite Hpb.
  assert (Hsel : (if (2 * a =? 0) && (Ho <=? 2 * e)
                  then (a, Z.max (Z.min ne2 H) 1, 0, Z.max 0 (Ho - 1 + k - 2 * H))
                  else (a, Z.max (Z.min ne2 H) 1, 0, Z.max 0 (2 * e - 1 + k - 2 * H)))
                 = (a, Z.max (Z.min ne2 H) 1, 0, Z.max 0 (2 * e - 1 + k - 2 * H))).
  { destruct ((2 * a =? 0) && (Ho <=? 2 * e)) eqn:Efl; [|reflexivity].
    apply andb_true_iff in Efl. destruct Efl as [_ E2]. apply Z.leb_le in E2.
    replace Ho with (2 * e) by lia. reflexivity. }
  rewrite Hsel. cbv beta iota zeta.
  rewrite ?Z.sub_0_r, ?Z.mul_1_r. rewrite Et. fold u2.
  destruct (Z.ltb_spec (r - 2 * a + ky) 0); [lia|].
  destruct (Z.ltb_spec (r + ky) 0); [lia|]. cbn [orb].
  destruct (Z.leb_spec (2 * e - 2 * a - 1 + k - Z.max 0 (2 * e - 1 + k - 2 * H)) (r - 2 * a + ky)),
    (Z.leb_spec (2 * H) (r + ky)); try reflexivity; try lia.
  destruct (Z.ltb_spec (u2 - a) (Z.max (Z.min ne2 H) 1 - a)); [f_equal; lia | lia].
Qed.

(* satisfiable: RESIZE_BILINEAR 2x as a 2x2 average pool with EXPLICIT padding [0,0,1,1] on 5 rows -> 10 rows *)
Example nearest_example :
  exists pad skirt,
    calc_padding_and_skirt PAD_EXPLICIT 2 2 1 1 5 5 {| p_top := 0; p_left := 0; p_bottom := 1; p_right := 1 |} = Some (pad, skirt) /\
    nearest_geom_ok (geom_of 5 10 2 1 1 pad skirt) /\
    stripe_h_up (geom_of 5 10 2 1 1 pad skirt) 4 8 = (2, 5, 0, 0) /\
    stripe_h_up (geom_of 5 10 2 1 1 pad skirt) 8 10 = (4, 5, 0, 1).
Proof.
  eexists _, _. split; [vm_compute; reflexivity|]. split.
  - unfold nearest_geom_ok. cbn. repeat split; try lia; vm_compute; reflexivity.
  - split; vm_compute; reflexivity.
Qed.

(* ---------- why the stripes of a nearest-upscaled operator must start on even rows ---------- *)
(* The hardware replicates rows starting at the first row of the IFM box it is handed.  If a stripe of a x2 nearest
   upscaled operator (stride 1, no leading padding in the operator) starts at an ODD output row st, then NO choice of
   (IFM box, pad_top >= 0, pad_bottom) describes it: tap 0 of output rows st and st+1 must come from the two different IFM
   rows (st-1)/2 and (st+1)/2, but the hardware resolves both to the first row of the box (or the first to padding).
   This is the requirement behind the even stripe heights forced by Scheduler.propose_minimal_schedule /
   propose_schedule_striping for cascades that contain a nearest-upscaling operator. *)
Lemma nearest_odd_stripe_start_impossible_lemma H a n b0 b1 p0 p1 kd :
  0 <= a -> 2 * a + 2 < 2 * H -> 0 <= p0 ->
  ~ (hw_tap_up RS_NEAREST b0 b1 p0 p1 n 1 kd 0 0 = ref_tap_up RS_NEAREST H 0 1 (2 * a + 1) 0 /\
     hw_tap_up RS_NEAREST b0 b1 p0 p1 n 1 kd 1 0 = ref_tap_up RS_NEAREST H 0 1 (2 * a + 2) 0).
Proof.
  intros Ha HH Hp [E0 E1]. unfold hw_tap_up, ref_tap_up in E0, E1.
  change (RS_NEAREST =? RS_TRANSPOSE) with false in E0, E1. cbn [andb] in E0, E1.
  rewrite ?Z.mul_1_r, ?Z.mul_0_l, ?Z.add_0_r, ?Z.sub_0_r in E0, E1.
  assert (D1 : (2 * a + 1) / 2 = a) by (replace (2 * a + 1) with (1 + a * 2) by lia; rewrite Z.div_add by lia; reflexivity).
  assert (D2 : (2 * a + 2) / 2 = a + 1) by (replace (2 * a + 2) with ((a + 1) * 2) by lia; apply Z.div_mul; lia).
  rewrite D1 in E0. rewrite D2 in E1.
  destruct (Z.ltb_spec (2 * a + 1) 0); [lia|]. destruct (Z.leb_spec (2 * H) (2 * a + 1)); [lia|].
  destruct (Z.ltb_spec (2 * a + 2) 0); [lia|]. destruct (Z.leb_spec (2 * H) (2 * a + 2)); [lia|].
  cbn [orb] in E0, E1.
  destruct (Z.eq_dec p0 0) as [->|Hne].
  - change ((1 - 0) / 2) with 0 in E1. rewrite ?Z.add_0_r in E0, E1.
    repeat match type of E0 with (if ?c then _ else _) = _ => destruct c; try discriminate end.
    repeat match type of E1 with (if ?c then _ else _) = _ => destruct c; try discriminate end.
    injection E0 as E0. injection E1 as E1. lia.
  - assert (Hneg : (0 * 1 - p0 <? 0) = true) by (apply Z.ltb_lt; lia).
    rewrite ?Z.mul_0_l in *. rewrite Hneg in E0. cbn [orb] in E0. discriminate.
Qed.
