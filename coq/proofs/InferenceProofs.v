From Coq Require Import ZArith List Bool Lia.
From VV Require Import lib.PyInt gen.GenTables hw.Npu hw.Defuse hw.Inference proofs.NpuProofs proofs.DefuseProofs.
Import ListNotations.
Open Scope Z_scope.

(* ---------- what a sequence of writes leaves on one byte ---------- *)
Definition seg_covers (w : tseg) (r a : Z) : Prop :=
  let '(rg, lo, hi, _) := w in rg = r /\ lo <= a < hi.
Definition seg_tag (w : tseg) : tag := let '(_, _, _, t) := w in t.

Lemma sh_write_cases s w r a :
  (seg_covers w r a /\ sh_write s w r a = Some (seg_tag w)) \/ (~ seg_covers w r a /\ sh_write s w r a = s r a).
Proof.
  destruct w as [[[rg lo] hi] t]. cbn.
  destruct (Z.eqb_spec r rg) as [->|Hne]; cbn [andb].
  - destruct (Z.leb_spec lo a); cbn [andb].
    + destruct (Z.ltb_spec a hi).
      * left. split; [split; [reflexivity | lia] | reflexivity].
      * right. split; [intros [_ H1]; lia | reflexivity].
    + right. split; [intros [_ H1]; lia | reflexivity].
  - right. split; [intros [H1 _]; congruence | reflexivity].
Qed.

Lemma fold_sh_write_inv ws : forall s r a,
  fold_left sh_write ws s r a = s r a \/
  exists w, In w ws /\ seg_covers w r a /\ fold_left sh_write ws s r a = Some (seg_tag w).
Proof.
  induction ws as [|w0 ws IH]; intros s r a; [left; reflexivity|].
  cbn [fold_left]. destruct (IH (sh_write s w0) r a) as [He|[w [Hin [Hc Hr]]]].
  - destruct (sh_write_cases s w0 r a) as [[Hc Hw]|[_ Hw]].
    + right. exists w0. split; [now left|]. split; [exact Hc|]. rewrite He. exact Hw.
    + left. rewrite He. exact Hw.
  - right. exists w. split; [now right|]. split; [exact Hc | exact Hr].
Qed.

Lemma fold_sh_write_covered ws : forall s r a w,
  In w ws -> seg_covers w r a ->
  exists w', In w' ws /\ seg_covers w' r a /\ fold_left sh_write ws s r a = Some (seg_tag w').
Proof.
  induction ws as [|w0 ws IH]; intros s r a w Hin Hc; [destruct Hin|].
  cbn [fold_left]. destruct Hin as [->|Hin].
  - destruct (fold_sh_write_inv ws (sh_write s w) r a) as [He|[w' [Hin' [Hc' Hr']]]].
    + exists w. split; [now left|]. split; [exact Hc|]. rewrite He.
      destruct (sh_write_cases s w r a) as [[_ Hw]|[Hn _]]; [exact Hw | contradiction].
    + exists w'. split; [now right|]. split; [exact Hc' | exact Hr'].
  - destruct (IH (sh_write s w0) r a w Hin Hc) as [w' [Hin' [Hc' Hr']]].
    exists w'. split; [now right|]. split; [exact Hc' | exact Hr'].
Qed.

(* ---------- acceptance implies the byte-level run over the operator sequence ---------- *)
Theorem check_inference_sound_lemma hw init l :
  check_inference hw init l = true ->
  exists ops, top_ops hw 0 l = Some ops /\ sh_run (fold_left sh_write init empty_shadow) ops.
Proof.
  unfold check_inference. destruct (top_ops hw 0 l) as [ops|]; [|discriminate].
  intros H. exists ops. split; [reflexivity|].
  apply (sh_run_eq ops (lookup (fold_left hwrite init []))).
  - intros r a. rewrite (fold_hwrite_lookup init [] r a). apply sh_fold_eq. intros r' a'. reflexivity.
  - apply run_sound. exact H.
Qed.

(* ---------- the pair built for an Ethos-U operator ---------- *)
Lemma clobbers_in k ivs w :
  In w (clobbers k ivs) -> exists iv, In iv ivs /\ w = (ARENA, fst iv, snd iv, scratch_tag k).
Proof.
  unfold clobbers. intros H. apply in_map_iff in H as [iv [He Hin]]. exists iv. split; [exact Hin | now symmetry].
Qed.

Lemma arena_ivs_in b1 b2 l iv :
  In iv (arena_ivs b1 b2 l) -> exists s, In s l /\ In iv (arena_iv b1 b2 s).
Proof. unfold arena_ivs. intros H. apply in_flat_map in H. exact H. Qed.

Theorem npu_top_op_spec_lemma hw evs b1 b2 k ins outs rs ws :
  npu_top_op hw evs b1 b2 k ins outs = Some (rs, ws) ->
  rs = ins /\ ws = clobbers k (arena_ivs b1 b2 (stream_writes hw evs)) ++ outs /\
  forall rg lo hi t, In (rg, lo, hi, t) outs ->
    rg = ARENA /\
    ((forall a, lo <= a < hi ->
       exists s iv, In s (stream_writes hw evs) /\ In iv (arena_iv b1 b2 s) /\ fst iv <= a < snd iv) \/
     (exists t', In (rg, lo, hi, t') ins)).
Proof.
  unfold npu_top_op. set (ivs := arena_ivs b1 b2 (stream_writes hw evs)).
  destruct (forallb (fun o => written_by k ivs o || aliases_input ins o) outs) eqn:Hall; [|discriminate].
  intros H. injection H as <- <-. split; [reflexivity|]. split; [reflexivity|].
  intros rg lo hi t Hin. rewrite forallb_forall in Hall. specialize (Hall _ Hin).
  apply orb_true_iff in Hall as [Hall|Hall].
  - unfold written_by in Hall. apply andb_true_iff in Hall as [Hrg Hcov].
    apply Z.eqb_eq in Hrg. split; [exact Hrg|]. left.
    intros a Ha. destruct (covered_sound _ _ _ _ _ Hcov a Ha) as [t' [Hl _]].
    rewrite (fold_hwrite_lookup (clobbers k ivs) [] ARENA a) in Hl.
    destruct (fold_sh_write_inv (clobbers k ivs) (lookup []) ARENA a) as [He|[w [Hw [Hc _]]]].
    + rewrite He in Hl. cbn in Hl. discriminate.
    + destruct (clobbers_in _ _ _ Hw) as [iv [Hiv ->]]. cbn in Hc. destruct Hc as [_ Hc].
      destruct (arena_ivs_in _ _ _ _ Hiv) as [s [Hs Hivs]].
      exists s, iv. split; [exact Hs|]. split; [exact Hivs | exact Hc].
  - unfold aliases_input in Hall. apply andb_true_iff in Hall as [Hrg Hex].
    apply Z.eqb_eq in Hrg. split; [exact Hrg|]. right.
    apply existsb_exists in Hex as [[[[rg' lo'] hi'] t'] [Hi He]].
    apply andb_true_iff in He as [He Hhi]. apply andb_true_iff in He as [Hr Hlo].
    apply Z.eqb_eq in Hr, Hlo, Hhi. subst rg' lo' hi'. exists t'. exact Hi.
Qed.

(* every arena byte the stream writes carries, after the operator, the operator's scratch identity or the
   identity of one of its outputs: no other tensor's identity survives on it *)
Theorem stream_writes_retagged_lemma hw evs b1 b2 k outs (s : shadow) a :
  (exists sg iv, In sg (stream_writes hw evs) /\ In iv (arena_iv b1 b2 sg) /\ fst iv <= a < snd iv) ->
  exists t, fold_left sh_write (clobbers k (arena_ivs b1 b2 (stream_writes hw evs)) ++ outs) s ARENA a = Some t /\
            (t = scratch_tag k \/ exists rg lo hi, In (rg, lo, hi, t) outs /\ rg = ARENA /\ lo <= a < hi).
Proof.
  intros [sg [iv [Hsg [Hiv Ha]]]]. rewrite fold_left_app.
  set (cl := clobbers k (arena_ivs b1 b2 (stream_writes hw evs))).
  assert (Hin : In (ARENA, fst iv, snd iv, scratch_tag k) cl).
  { unfold cl, clobbers. apply in_map_iff. exists iv. split; [reflexivity|].
    unfold arena_ivs. apply in_flat_map. exists sg. split; assumption. }
  destruct (fold_sh_write_covered cl s ARENA a _ Hin) as [w' [Hw' [_ Hr']]]; [cbn; split; [reflexivity | exact Ha]|].
  destruct (clobbers_in _ _ _ Hw') as [iv' [_ ->]]. cbn in Hr'.
  destruct (fold_sh_write_inv outs (fold_left sh_write cl s) ARENA a) as [He|[w [Hw [Hc Hr]]]].
  - exists (scratch_tag k). split; [rewrite He; exact Hr' | now left].
  - destruct w as [[[rg lo] hi] t]. cbn in Hc, Hr. exists t. split; [exact Hr|]. right.
    exists rg, lo, hi. destruct Hc as [Hrg Hc]. split; [exact Hw|]. split; [exact Hrg | exact Hc].
Qed.

(* non-vacuity: a two-operator inference (CPU operator, then a demand of the network output) that the checker accepts,
   and one where the output was overwritten in between that it rejects *)
Definition ex_hw : hwcfg := {| hw_ncores := 1; hw_lut_addr := 0; hw_shram_size := 48 |}.
Example inference_accepts :
  check_inference ex_hw [(ARENA, 0, 16, Tag 1 0)]
    [TCpu [(ARENA, 0, 16, Tag 1 0)] [(ARENA, 16, 32, Tag 2 16)]; TCpu [(ARENA, 16, 32, Tag 2 16)] []] = true.
Proof. vm_compute. reflexivity. Qed.
(* an Ethos-U operator with an empty stream whose output occupies exactly its input (a reshape that is not copied) *)
Example inference_accepts_alias :
  check_inference ex_hw [(ARENA, 0, 16, Tag 1 0)]
    [TNpu 0 (-1) [(ARENA, 0, 16, Tag 1 0)] [(ARENA, 0, 16, Tag 2 0)] []; TCpu [(ARENA, 0, 16, Tag 2 0)] []] = true.
Proof. vm_compute. reflexivity. Qed.
Example inference_rejects_unwritten_output :
  check_inference ex_hw [(ARENA, 0, 16, Tag 1 0)]
    [TNpu 0 (-1) [(ARENA, 0, 16, Tag 1 0)] [(ARENA, 16, 32, Tag 2 16)] []; TCpu [(ARENA, 16, 32, Tag 2 16)] []] = false.
Proof. vm_compute. reflexivity. Qed.
Example inference_rejects_clobbered_input :
  check_inference ex_hw [(ARENA, 0, 16, Tag 1 0)]
    [TCpu [(ARENA, 0, 16, Tag 1 0)] [(ARENA, 8, 24, Tag 2 8)]; TCpu [(ARENA, 0, 16, Tag 1 0)] []] = false.
Proof. vm_compute. reflexivity. Qed.
