(* HillClimb: every list access of the search is inside its list (no IndexError, code 2). *)
From Coq Require Import ZArith List Bool Lia.
From VV Require Import lib.PyInt model.Alloc proofs.AllocProofs proofs.AllocHillProofs proofs.AllocHillNbrProofs
  proofs.AllocHillSearchProofs proofs.AllocHillTermProofs proofs.AllocHillOutcomeProofs.
Import ListNotations.
Open Scope Z_scope.

Definition inrange (n : nat) (x : Z) : Prop := 0 <= x < Z.of_nat n.
Definition all_in (n : nat) (l : list Z) : Prop := forall x, In x l -> inrange n x.

Lemma zget_ok : forall (A : Type) (l : list A) i, inrange (length l) i -> exists x, zget l i = Some x /\ In x l.
Proof.
  intros A l i Hi. destruct (zget_inr A l i) as [x Hx]; [exact Hi|].
  exists x. split; [exact Hx|]. destruct Hi as [H0 _]. rewrite zget_nth_error in Hx by lia. eapply nth_error_In; eauto.
Qed.

Lemma zget_in : forall (A : Type) (l : list A) i x, zget l i = Some x -> In x l.
Proof.
  intros A l i x H. pose proof (zget_some_inr _ _ _ _ H) as [H0 _].
  rewrite zget_nth_error in H by lia. eapply nth_error_In; eauto.
Qed.

Lemma add_new_in : forall t tl x, In x (add_new t tl) <-> x = t \/ In x tl.
Proof.
  intros t tl x. unfold add_new. destruct (zmem t tl) eqn:E.
  - apply zmem_true in E. split; [auto|]. intros [->|H]; auto.
  - rewrite in_app_iff. cbn. split; [intros [H|[H|[]]]; auto | intros [H|H]; auto].
Qed.

Lemma add_new_all_in : forall n t tl, inrange n t -> all_in n tl -> all_in n (add_new t tl).
Proof. intros n t tl Ht Htl x Hx. apply add_new_in in Hx. destruct Hx as [->|Hx]; auto. Qed.

Lemma add_new_mono : forall t tl x, In x tl -> In x (add_new t tl).
Proof. intros. apply add_new_in. auto. Qed.

(* ---------- the mutable state ---------- *)
Definition st_ok (n : nat) (st : list hinfo) : Prop :=
  length st = n /\
  forall h, In h st -> inrange n (h_turn h) /\ (h_pred h = NO_PREDECESSOR \/ inrange n (h_pred h)).

Lemma st_ok_get : forall n st i h, st_ok n st -> zget st i = Some h ->
  inrange n i /\ inrange n (h_turn h) /\ (h_pred h = NO_PREDECESSOR \/ inrange n (h_pred h)).
Proof.
  intros n st i h [Hl Hs] Hg. subst n. pose proof (zget_some_inr _ _ _ _ Hg) as Hi. unfold inr, zlen in Hi.
  destruct (Hs h (zget_in _ _ _ _ Hg)) as [H1 H2]. split; [exact Hi|]. split; assumption.
Qed.

Lemma pred_walk_range : forall n st, st_ok n st ->
  forall fuel id tl, inrange n id -> all_in n tl ->
  match pred_walk fuel st id tl with
  | Ok tl' => all_in n tl' /\ (forall x, In x tl -> In x tl')
  | Err c => c = 3
  end.
Proof.
  intros n st Hst. induction fuel as [|f IH]; intros id tl Hid Htl; cbn [pred_walk].
  - destruct (zget_ok _ st id) as [h [Hh _]]; [destruct Hst as [-> _]; exact Hid|]. rewrite Hh.
    destruct (h_pred h =? NO_PREDECESSOR); auto.
  - destruct (zget_ok _ st id) as [h [Hh _]]; [destruct Hst as [-> _]; exact Hid|]. rewrite Hh.
    destruct (Z.eqb_spec (h_pred h) NO_PREDECESSOR); [auto|].
    destruct (st_ok_get n st id h Hst Hh) as (_ & _ & [Hp|Hp]); [contradiction|].
    destruct (zget_ok _ st (h_pred h)) as [hp [Hhp _]]; [destruct Hst as [-> _]; exact Hp|]. rewrite Hhp.
    destruct (st_ok_get n st _ hp Hst Hhp) as (_ & Ht & _).
    specialize (IH (h_pred h) (add_new (h_turn hp) tl) Hp (add_new_all_in n _ _ Ht Htl)).
    destruct (pred_walk f st (h_pred h) (add_new (h_turn hp) tl)); [|exact IH].
    destruct IH as [I1 I2]. split; [exact I1|]. intros x Hx. apply I2, add_new_mono, Hx.
Qed.

Lemma add_predecessor_turns_range : forall n st, st_ok n st ->
  forall tl id, inrange n id -> all_in n tl ->
  match add_predecessor_turns st tl id with
  | Ok tl' => all_in n tl' /\ (forall x, In x tl -> In x tl') /\ tl' <> []
  | Err c => c = 3
  end.
Proof.
  intros n st Hst tl id Hid Htl. unfold add_predecessor_turns.
  destruct (zget_ok _ st id) as [h [Hh _]]; [destruct Hst as [-> _]; exact Hid|]. rewrite Hh.
  destruct (st_ok_get n st id h Hst Hh) as (_ & Ht & _).
  pose proof (pred_walk_range n st Hst (length st) id (add_new (h_turn h) tl) Hid (add_new_all_in n _ _ Ht Htl)) as W.
  destruct (pred_walk (length st) st id (add_new (h_turn h) tl)) as [tl'|c]; [|exact W].
  destruct W as [W1 W2]. split; [exact W1|]. split.
  - intros x Hx. apply W2, add_new_mono, Hx.
  - intros C. assert (In (h_turn h) tl') by (apply W2; apply add_new_in; auto). rewrite C in H. destruct H.
Qed.

Lemma add_pred_list_range : forall n st, st_ok n st ->
  forall ids tl, all_in n ids -> all_in n tl ->
  match add_pred_list st tl ids with
  | Ok tl' => all_in n tl' /\ (forall x, In x tl -> In x tl')
  | Err c => c = 3
  end.
Proof.
  intros n st Hst. induction ids as [|j r IH]; intros tl Hids Htl; cbn [add_pred_list]; [auto|].
  pose proof (add_predecessor_turns_range n st Hst tl j (Hids j (or_introl eq_refl)) Htl) as A.
  destruct (add_predecessor_turns st tl j) as [tl1|c]; [|exact A]. destruct A as (A1 & A2 & _).
  specialize (IH tl1 (fun x Hx => Hids x (or_intror Hx)) A1).
  destruct (add_pred_list st tl1 r); [|exact IH]. destruct IH as [I1 I2]. split; [exact I1 | auto].
Qed.

Definition idx_ok (n : nat) (idx : list Z) : Prop := length idx = n /\ all_in n idx.

Lemma non_nb_turns_range : forall n lrs idx mx, length lrs = n -> idx_ok n idx ->
  forall tl, all_in n tl -> exists nn, non_nb_turns lrs idx mx tl = Ok nn /\ all_in n nn.
Proof.
  intros n lrs idx mx Hl [Hil Hia]. induction tl as [|t r IH]; intros Htl; cbn [non_nb_turns].
  - exists []. split; [reflexivity | intros x []].
  - destruct (zget_ok _ idx t) as [id [Hid Hin]]; [rewrite Hil; apply Htl; left; reflexivity|]. rewrite Hid.
    destruct (zget_ok _ lrs id) as [x [Hx _]]; [rewrite Hl; apply Hia; exact Hin|]. rewrite Hx.
    destruct IH as [nn [Hn Hnn]]; [intros y Hy; apply Htl; right; exact Hy|]. rewrite Hn.
    eexists. split; [reflexivity|]. destruct (is_neighbour mx x); [exact Hnn|].
    intros y [<-|Hy]; [apply Htl; left; reflexivity | apply Hnn; exact Hy].
Qed.

Lemma zswap_range : forall l i j, inrange (length l) i -> inrange (length l) j ->
  exists l', zswap l i j = Ok l' /\ length l' = length l /\ forall x, In x l' -> In x l.
Proof.
  intros l i j Hi Hj. unfold zswap.
  destruct (zget_ok _ l i Hi) as [a [Ha Hain]]. destruct (zget_ok _ l j Hj) as [b [Hb Hbin]]. rewrite Ha, Hb.
  eexists. split; [reflexivity|]. split; [rewrite !length_zset; reflexivity|].
  intros x Hx. apply In_nth_error in Hx. destruct Hx as [k Hk].
  destruct Hi as [Hi0 _]. destruct Hj as [Hj0 _].
  rewrite nth_error_zset in Hk by lia.
  destruct ((k =? Z.to_nat j)%nat && (Z.to_nat j <? length (zset l i b))%nat)%bool; [inversion Hk; subst; exact Hain|].
  rewrite nth_error_zset in Hk by lia.
  destruct ((k =? Z.to_nat i)%nat && (Z.to_nat i <? length l)%nat)%bool; [inversion Hk; subst; exact Hbin|].
  eapply nth_error_In; eauto.
Qed.

Lemma add_nb_turns_range : forall n st, st_ok n st ->
  forall nb tl, all_in n nb -> all_in n tl ->
  exists tl', add_nb_turns st tl nb = Ok tl' /\ all_in n tl' /\ (forall x, In x tl -> In x tl').
Proof.
  intros n st Hst. induction nb as [|j r IH]; intros tl Hnb Htl; cbn [add_nb_turns]; [eauto|].
  destruct (zget_ok _ st j) as [h [Hh _]]; [destruct Hst as [-> _]; apply Hnb; left; reflexivity|]. rewrite Hh.
  destruct (st_ok_get n st j h Hst Hh) as (_ & Ht & _).
  destruct (IH (add_new (h_turn h) tl)) as [tl' [E [I1 I2]]];
    [intros x Hx; apply Hnb; right; exact Hx | apply add_new_all_in; auto|].
  exists tl'. split; [exact E|]. split; [exact I1|]. intros x Hx. apply I2, add_new_mono, Hx.
Qed.

Definition nbrs_ok_range (n : nat) (nbrs : list (list Z)) : Prop :=
  length nbrs = n /\ forall nb, In nb nbrs -> all_in n nb.

Lemma add_more_turns_range : forall n nbrs st idx, nbrs_ok_range n nbrs -> st_ok n st -> idx_ok n idx ->
  forall nn tl, all_in n nn -> all_in n tl ->
  exists tl', add_more_turns nbrs st idx tl nn = Ok tl' /\ all_in n tl' /\ (forall x, In x tl -> In x tl').
Proof.
  intros n nbrs st idx [Hnl Hna] Hst [Hil Hia]. induction nn as [|t r IH]; intros tl Hnn Htl; cbn [add_more_turns]; [eauto|].
  destruct (zget_ok _ idx t) as [id [Hid Hin]]; [rewrite Hil; apply Hnn; left; reflexivity|]. rewrite Hid.
  destruct (zget_ok _ nbrs id) as [nb [Hnb Hnbin]]; [rewrite Hnl; apply Hia; exact Hin|]. rewrite Hnb.
  destruct (add_nb_turns_range n st Hst nb tl (Hna nb Hnbin) Htl) as [tl1 [E1 [A1 A2]]]. rewrite E1.
  destruct (IH tl1) as [tl' [E [I1 I2]]]; [intros x Hx; apply Hnn; right; exact Hx | exact A1|].
  exists tl'. split; [exact E|]. split; [exact I1 | auto].
Qed.

Lemma bottleneck_range : forall st, st <> [] -> inrange (length st) (bottleneck st).
Proof.
  intros [|h r] Hne; [contradiction|]. cbn [bottleneck length].
  assert (G : forall l i bi be, 0 <= bi < i -> 0 <= argmax_end l i bi be < i + Z.of_nat (length l)).
  { induction l as [|x l IH]; intros i bi be Hb; cbn [argmax_end length]; [lia|].
    destruct (h_end x >? be).
    - specialize (IH (i + 1) i (h_end x)). lia.
    - specialize (IH (i + 1) bi be). lia. }
  specialize (G r 1 0 (h_end h)). unfold inrange. lia.
Qed.

Section Index.
  Variable S : Type.
  Variable next : S -> Z * S.

  Lemma randint_range : forall lo hi s, lo <= hi ->
    exists k s', randint S next lo hi s = Ok (k, s') /\ lo <= k <= hi.
  Proof.
    intros lo hi s H. unfold randint. destruct (Z.ltb_spec hi lo); [lia|].
    destruct (next (fst s)) as [v s1]. eexists. eexists. split; [reflexivity|].
    pose proof (Z.mod_pos_bound (v - lo) (hi - lo + 1) ltac:(lia)). lia.
  Qed.

  Lemma pick_range : forall n l off s, all_in n l -> 1 <= off ->
    match pick S next l off s with
    | Ok (x, _) => inrange n x /\ In x l
    | Err c => c = 1
    end.
  Proof.
    intros n l off s Hl Hoff. unfold pick.
    destruct (Z.ltb_spec (zlen l - off) 0) as [Hlt|Hge].
    - unfold randint. destruct (Z.ltb_spec (zlen l - off) 0); [reflexivity|lia].
    - destruct (randint_range 0 (zlen l - off) s Hge) as [k [s' [E Hk]]]. rewrite E.
      destruct (zget_ok _ l k) as [x [Hx Hin]]; [unfold inrange, zlen in *; lia|]. rewrite Hx. split; [apply Hl|]; exact Hin.
  Qed.

  Lemma pick1_ok : forall n l s, all_in n l -> l <> [] ->
    exists x s', pick S next l 1 s = Ok (x, s') /\ inrange n x /\ In x l.
  Proof.
    intros n l s Hl Hne. unfold pick.
    assert (Hlen : 0 <= zlen l - 1) by (destruct l; [contradiction | unfold zlen; cbn [length]; lia]).
    destruct (randint_range 0 (zlen l - 1) s Hlen) as [k [s' [E Hk]]]. rewrite E.
    destruct (zget_ok _ l k) as [x [Hx Hin]]; [unfold inrange, zlen in *; lia|]. rewrite Hx.
    exists x, s'. split; [reflexivity|]. split; [apply Hl|]; exact Hin.
  Qed.

  Lemma pick2_ok : forall n l s, all_in n l -> l <> [] ->
    exists x s', pick2 S next l s = Ok (x, s') /\ inrange n x /\ In x l.
  Proof.
    intros n l s Hl Hne. unfold pick2.
    assert (Hlen : 1 <= zlen l) by (destruct l; [contradiction | unfold zlen; cbn [length]; lia]).
    destruct (randint_range 0 (Z.max (zlen l - 2) 0) s ltac:(lia)) as [k [s' [E Hk]]]. rewrite E.
    destruct (zget_ok _ l k) as [x [Hx Hin]]; [unfold inrange, zlen in *; lia|]. rewrite Hx.
    exists x, s'. split; [reflexivity|]. split; [apply Hl|]; exact Hin.
  Qed.

  Lemma attempt_range : forall n lrs nbrs st idx stuck s,
    (0 < n)%nat -> length lrs = n -> nbrs_ok_range n nbrs -> st_ok n st -> idx_ok n idx ->
    match attempt_bottleneck_fix S next lrs nbrs st idx stuck s with
    | Ok (idx', _) => idx_ok n idx'
    | Err c => c = 1 \/ c = 3
    end.
  Proof.
    intros n lrs nbrs st idx stuck s Hn Hl Hnb Hst Hidx. unfold attempt_bottleneck_fix.
    assert (Hmx : inrange n (bottleneck st)).
    { destruct Hst as [Hsl _]. rewrite <- Hsl. apply bottleneck_range. intros C. rewrite C in Hsl. cbn in Hsl. lia. }
    destruct (zget_ok _ lrs (bottleneck st)) as [mxr [Hmxr _]]; [rewrite Hl; exact Hmx|]. rewrite Hmxr.
    destruct Hnb as [Hnl Hna].
    destruct (zget_ok _ nbrs (bottleneck st)) as [mxn [Hmxn Hmxnin]]; [rewrite Hnl; exact Hmx|]. rewrite Hmxn.
    pose proof (add_predecessor_turns_range n st Hst [] (bottleneck st) Hmx (fun x (H : In x []) => match H with end)) as A.
    destruct (add_predecessor_turns st [] (bottleneck st)) as [tl0|c]; [|right; exact A]. destruct A as (A1 & _ & A3).
    pose proof (add_pred_list_range n st Hst mxn tl0 (Hna mxn Hmxnin) A1) as B.
    destruct (add_pred_list st tl0 mxn) as [tl|c]; [|right; exact B]. destruct B as (B1 & B2).
    assert (Htlne : tl <> []).
    { destruct tl0 as [|t0 r0]; [contradiction|]. intros C. assert (In t0 tl) by (apply B2; left; reflexivity). rewrite C in H. destruct H. }
    destruct (non_nb_turns_range n lrs idx mxr Hl Hidx tl B1) as [nn [Enn Hnn]]. rewrite Enn.
    destruct (randint_range 0 100 s ltac:(lia)) as [r0 [s0 [E0 _]]]. rewrite E0.
    assert (P1 : match (if (r0 <? 30) && negb (zlen nn =? 0) then pick S next nn 1 s0 else pick S next tl 1 s0) with
                 | Ok (x, _) => inrange n x | Err c => c = 1 end).
    { destruct ((r0 <? 30) && negb (zlen nn =? 0)).
      - pose proof (pick_range n nn 1 s0 Hnn ltac:(lia)) as P. destruct (pick S next nn 1 s0) as [[x sx]|c]; [apply P | exact P].
      - pose proof (pick_range n tl 1 s0 B1 ltac:(lia)) as P. destruct (pick S next tl 1 s0) as [[x sx]|c]; [apply P | exact P]. }
    destruct (if (r0 <? 30) && negb (zlen nn =? 0) then pick S next nn 1 s0 else pick S next tl 1 s0) as [[ix1 s1]|c];
      [|left; exact P1].
    destruct (pick2_ok n tl s1 B1 Htlne) as [ix2a [s2 [E2 [P2 _]]]]. rewrite E2.
    assert (Hix2 : inrange n (if ix1 =? ix2a then last tl 0 else ix2a)).
    { destruct (ix1 =? ix2a); [|exact P2]. apply B1.
      destruct tl as [|t r]; [contradiction|]. clear. revert t. induction r as [|y r IH]; intros t; [left; reflexivity|].
      right. apply IH. }
    destruct Hidx as [Hil Hia].
    destruct (zswap_range idx ix1 _ ltac:(rewrite Hil; exact P1) ltac:(rewrite Hil; exact Hix2)) as [idx1 [Es [Hl1 Hin1]]].
    rewrite Es.
    assert (Hidx1 : idx_ok n idx1) by (split; [lia | intros x Hx; apply Hia, Hin1, Hx]).
    destruct (stuck >? MAX_ITERATIONS_STUCK); [|exact Hidx1].
    destruct (add_more_turns_range n nbrs st idx1 (conj Hnl Hna) Hst Hidx1 nn tl Hnn B1) as [tl2 [Em [M1 M2]]]. rewrite Em.
    pose proof (pick_range n tl2 1 s2 M1 ltac:(lia)) as Q1.
    destruct (pick S next tl2 1 s2) as [[jx1 s3]|c]; [|left; exact Q1]. destruct Q1 as [Q1 _].
    pose proof (pick_range n tl2 1 s3 M1 ltac:(lia)) as Q2.
    destruct (pick S next tl2 1 s3) as [[jx2 s4]|c]; [|left; exact Q2]. destruct Q2 as [Q2 _].
    destruct Hidx1 as [Hil1 Hia1].
    destruct (zswap_range idx1 jx1 jx2 ltac:(rewrite Hil1; exact Q1) ltac:(rewrite Hil1; exact Q2)) as [idx2 [Es2 [Hl2 Hin2]]].
    rewrite Es2. split; [lia | intros x Hx; apply Hia1, Hin2, Hx].
  Qed.
End Index.

(* ---------- the neighbour lists hold ids of the list ---------- *)
Lemma nb_inner_in : forall i l acc x, In x (fold_left (nb_step i) l acc) -> In x acc \/ In x l.
Proof.
  intros i. induction l as [|j r IH]; intros acc x H; cbn [fold_left] in H; [auto|].
  apply IH in H. destruct H as [H|H]; [|right; right; exact H].
  unfold nb_step in H. destruct (_ && _); [|auto]. apply in_app_or in H. destruct H as [H|[<-|[]]]; auto. right; left; reflexivity.
Qed.

Lemma nb_outer_in : forall i lrs ts acc x, In x (fold_left (nb_outer i lrs) ts acc) ->
  In x acc \/ exists t, In x (alive_ids lrs t).
Proof.
  intros i lrs. induction ts as [|t r IH]; intros acc x H; cbn [fold_left] in H; [auto|].
  apply IH in H. destruct H as [H|H]; [|auto]. unfold nb_outer in H. apply nb_inner_in in H. destruct H; eauto.
Qed.

Lemma length_neighbours_from : forall all l i0, length (neighbours_from all l i0) = length l.
Proof. induction l as [|r rest IH]; intros i0; cbn [neighbours_from length]; [reflexivity|]. rewrite IH. reflexivity. Qed.

Lemma in_neighbours_from : forall all l i0 nb, In nb (neighbours_from all l i0) -> exists i r, nb = neighbours_of all i r.
Proof.
  induction l as [|r rest IH]; intros i0 nb H; cbn [neighbours_from] in H; [destruct H|].
  destruct H as [<-|H]; [eauto | eapply IH; eauto].
Qed.

Lemma all_neighbours_range : forall lrs, nbrs_ok_range (length lrs) (all_neighbours lrs).
Proof.
  intros lrs. split; [apply length_neighbours_from|].
  intros nb Hnb x Hx. apply in_neighbours_from in Hnb. destruct Hnb as [i [r ->]].
  rewrite neighbours_of_eq in Hx. apply nb_outer_in in Hx. destruct Hx as [[]|[t Ht]].
  unfold alive_ids in Ht. apply in_alive_ids_from in Ht. destruct Ht as [k [Hk [-> _]]]. unfold inrange. lia.
Qed.

(* ---------- an allocation pass keeps the state well formed and never fails ---------- *)
Lemma in_zset : forall (A : Type) (l : list A) i x y, In y (zset l i x) -> y = x \/ In y l.
Proof.
  intros A l i x y H. unfold zset in H. destruct (i <? 0); [auto|].
  apply In_nth_error in H. destruct H as [k Hk]. rewrite nth_error_set_nth in Hk.
  destruct (_ && _)%bool; [inversion Hk; auto | right; eapply nth_error_In; eauto].
Qed.

Lemma hc_scan_pred : forall st size al nb address pred fits a p f,
  hc_scan st size al nb address pred fits = (a, p, f) -> p = pred \/ In p nb.
Proof.
  intros st size al. induction nb as [|j r IH]; intros address pred fits a p f H; cbn [hc_scan] in H.
  - inversion H; auto.
  - destruct (_ || _).
    + destruct (IH _ _ _ _ _ _ H); auto. right; right; assumption.
    + destruct (_ && _).
      * destruct (IH _ _ _ _ _ _ H) as [->|]; [right; left; reflexivity | right; right; assumption].
      * destruct (IH _ _ _ _ _ _ H); auto. right; right; assumption.
Qed.

Lemma hc_fit_pred : forall st size al nb fuel address pred a p,
  hc_fit fuel st size al nb address pred = Some (a, p) -> p = pred \/ In p nb.
Proof.
  intros st size al nb. induction fuel as [|f IH]; intros address pred a p H; [discriminate|]. cbn [hc_fit] in H.
  destruct (hc_scan st size al nb address pred true) as [[a1 p1] f1] eqn:E.
  pose proof (hc_scan_pred _ _ _ _ _ _ _ _ _ _ E) as Hp.
  destruct f1; [inversion H; subst; exact Hp|].
  destruct (IH _ _ _ _ H) as [->|]; auto.
Qed.

Section PassIndex.
  Variable lrs : list lr.
  Hypothesis Hwf : Forall hc_wf lrs.
  Let n := length lrs.
  Let nbrs := all_neighbours lrs.

  Lemma reset_st_ok : forall st, st_ok n st -> st_ok n (reset_addresses st).
  Proof.
    intros st [Hl Hs]. split; [unfold reset_addresses; rewrite map_length; exact Hl|].
    intros h Hh. unfold reset_addresses in Hh. apply in_map_iff in Hh. destruct Hh as [h0 [<- Hh0]]. cbn. apply Hs; exact Hh0.
  Qed.

  Lemma alloc_loop_total : forall best idx turn size st,
    st_ok n st -> all_in n idx -> 0 <= turn -> turn + Z.of_nat (length idx) <= Z.of_nat n ->
    exists st' sz, alloc_loop lrs nbrs best idx turn size st = Ok (st', sz) /\ st_ok n st'.
  Proof.
    intros best. induction idx as [|i rest IH]; intros turn size st Hst Hidx Ht0 Htn; cbn [alloc_loop]; [eauto|].
    assert (Hi : inrange n i) by (apply Hidx; left; reflexivity).
    destruct (zget_ok _ st i) as [h0 [Hh0 _]]; [destruct Hst as [-> _]; exact Hi|]. rewrite Hh0.
    destruct (allocate_lr_terminates_lemma lrs nbrs st i (lget_align_pos lrs Hwf i)) as [st1 E]. rewrite E.
    (* shape of st1 *)
    unfold allocate_lr in E.
    destruct (hc_fit _ st _ _ (nget nbrs i) 0 NO_PREDECESSOR) as [[a p]|] eqn:Efit; [|discriminate].
    inversion E; subst st1; clear E.
    assert (Hp : p = NO_PREDECESSOR \/ inrange n p).
    { destruct (hc_fit_pred _ _ _ _ _ _ _ _ _ Efit) as [->|Hin]; [left; reflexivity|]. right.
      destruct (all_neighbours_range lrs) as [Hnl Hna]. fold n nbrs in Hnl, Hna.
      unfold nget in Hin. destruct (Nat.ltb_spec (Z.to_nat i) (length nbrs)).
      - apply (Hna (nth (Z.to_nat i) nbrs [])); [apply nth_In; exact H | exact Hin].
      - rewrite nth_overflow in Hin by exact H. destruct Hin. }
    set (st1 := zset st i (mkH a (a + lr_size (lget lrs i)) p (h_turn (hget st i)))).
    set (hh := hget st1 i).
    set (st2 := zset st1 i (mkH (h_addr hh) (h_end hh) (h_pred hh) turn)).
    assert (Hhh : hh = mkH a (a + lr_size (lget lrs i)) p (h_turn (hget st i))).
    { unfold hh, st1. rewrite hget_zset; [rewrite Z.eqb_refl; reflexivity | | destruct Hi; lia].
      destruct Hst as [Hl _]. unfold inr, zlen. rewrite Hl. exact Hi. }
    assert (Hst2 : st_ok n st2).
    { destruct Hst as [Hl Hs]. split; [unfold st2, st1; rewrite !length_zset; exact Hl|].
      intros h Hh. unfold st2 in Hh. apply in_zset in Hh. destruct Hh as [->|Hh].
      - rewrite Hhh. cbn [h_turn h_pred h_addr h_end]. split; [unfold inrange; cbn [length] in Htn; lia | exact Hp].
      - unfold st1 in Hh. apply in_zset in Hh. destruct Hh as [->|Hh]; [|apply Hs; exact Hh].
        cbn. split; [|exact Hp]. apply (Hs (hget st i)). rewrite (zget_hget _ _ _ Hh0). eapply zget_in; eauto. }
    destruct (_ >? best); [eauto|].
    apply IH; auto; try lia.
    - intros x Hx; apply Hidx; right; exact Hx.
    - cbn [length] in Htn. lia.
  Qed.

  Lemma allocate_indices_total : forall best idx st,
    st_ok n st -> idx_ok n idx ->
    exists st' sz, allocate_indices lrs nbrs best idx st = Ok (st', sz) /\ st_ok n st'.
  Proof.
    intros best idx st Hst [Hil Hia]. unfold allocate_indices.
    apply alloc_loop_total; auto using reset_st_ok; lia.
  Qed.
End PassIndex.

Section SearchIndex.
  Variable S : Type.
  Variable next : S -> Z * S.
  Variable lrs : list lr.
  Hypothesis Hwf : Forall hc_wf lrs.
  Hypothesis Hne : (0 < length lrs)%nat.
  Let n := length lrs.
  Let nbrs := all_neighbours lrs.

  Definition xinv (x : sstate S) : Prop :=
    st_ok n (ss_st S x) /\ idx_ok n (ss_idx S x) /\ idx_ok n (ss_bidx S x).
  Definition only_13 (r : sresult) : Prop := match r with Ok _ => True | Err c => c = 1 \/ c = 3 end.

  Lemma search_step_index : forall minreq maxit limit x, xinv x ->
    match search_step S next lrs nbrs minreq maxit limit x with Continue x' => xinv x' | Done r => only_13 r end.
  Proof.
    intros minreq maxit limit x (Hst & Hidx & Hb). unfold search_step.
    destruct (_ || _); [|exact I].
    pose proof (attempt_range S next n lrs nbrs (ss_st S x) (ss_idx S x) (ss_i S x - ss_last S x) (ss_rng S x)
                  Hne eq_refl (all_neighbours_range lrs) Hst Hidx) as A.
    destruct (attempt_bottleneck_fix _ _ _ _ _ _ _ _) as [[idx1 rng1]|c]; [|exact A].
    destruct (allocate_indices_total lrs Hwf (ss_best S x) idx1 (ss_st S x) Hst A) as [st1 [sz [E Hst1]]].
    fold nbrs in E. rewrite E.
    destruct (sz <=? ss_best S x).
    - destruct (sz <=? minreq); [exact I|]. unfold xinv; cbn. auto.
    - unfold xinv; cbn. auto.
  Qed.

  Lemma search_index : forall minreq maxit limit x, xinv x ->
    ss_last S x = 0 -> ss_i S x = 0 -> minreq < ss_best S x ->
    only_13 (search S next lrs nbrs minreq maxit limit x).
  Proof.
    intros minreq maxit limit x Hx Hl Hi Hb. unfold search.
    destruct (search_loop_terminates_lemma S next lrs nbrs minreq maxit limit x Hl Hi Hb) as [r Hr]. rewrite Hr.
    pose proof (iter_pos_inv _ _ xinv only_13 _ (search_step_index minreq maxit limit)
                  (search_fuel minreq maxit (ss_best S x)) x Hx) as V.
    rewrite Hr in V. exact V.
  Qed.
End SearchIndex.

Lemma initial_state_ok : forall lrs, (0 < length lrs)%nat -> st_ok (length lrs) (initial_state lrs).
Proof.
  intros lrs Hn. split; [unfold initial_state; apply map_length|].
  intros h Hh. unfold initial_state in Hh. apply in_map_iff in Hh. destruct Hh as [r [<- _]]. cbn.
  unfold inrange. split; [lia | right; lia].
Qed.

Lemma initial_indices_ok : forall lrs, idx_ok (length lrs) (initial_indices lrs).
Proof.
  intros lrs. split.
  - rewrite (Permutation.Permutation_length (initial_indices_perm lrs)).
    clear. generalize 0. induction (length lrs) as [|k IH]; intros z; cbn; [reflexivity|]. rewrite IH. reflexivity.
  - intros x Hx. apply (Permutation.Permutation_in _ (initial_indices_perm lrs)) in Hx. apply in_zrange in Hx. unfold inrange. lia.
Qed.

(* the only abnormal outcomes of a run are the ValueError of random.randint (1) and an endless
   predecessor walk (3) *)
Lemma hillclimb_no_index_error_lemma : forall (S : Type) (next : S -> Z * S) lrs mi limit s,
  Forall hc_wf lrs -> footprint_bound lrs <= 2 ^ 63 ->
  match hillclimb S next lrs mi limit s with Ok _ => True | Err c => c = 1 \/ c = 3 end.
Proof.
  intros S next lrs mi limit s Hwf Hfb.
  destruct (Nat.eq_dec (length lrs) 0) as [E0|E0].
  { apply length_zero_iff_nil in E0. subst lrs. rewrite hillclimb_nil. exact I. }
  assert (Hn : (0 < length lrs)%nat) by lia.
  rewrite hillclimb_nonempty by (intros C; rewrite C in E0; apply E0; reflexivity). cbv zeta.
  destruct (allocate_indices_total lrs Hwf (2 ^ 63) (initial_indices lrs) (initial_state lrs)
              (initial_state_ok lrs Hn) (initial_indices_ok lrs)) as [st1 [b0 [E Hst1]]].
  rewrite E.
  set (x0 := mkSS S (s, 0) st1 (initial_indices lrs) (initial_indices lrs) b0 0 0 (map h_addr st1)).
  destruct (Z.gtb_spec b0 (min_required_size lrs)) as [Hgt|Hle]; [|exact I].
  apply (search_index S next lrs Hwf Hn); auto.
  unfold xinv, x0; cbn. auto using initial_indices_ok.
Qed.
