(* C10, part 1: tie of the translated helpers, partition of the OFM by the generator's loops. *)
From Coq Require Import ZArith List Bool Lia.
From VV Require Import lib.PyInt gen.GenStripe model.Stripe.
Import ListNotations.
Open Scope Z_scope.

(* ---------- tie of the translated functions to the hand twins (device T) ---------- *)
Lemma gen_round_up_eq a b : GenStripe.round_up a b = Stripe.round_up a b.
Proof. reflexivity. Qed.

Lemma gen_rolling_buffer_shape_eq ph pw pd ch cw rows :
  GenStripe.rolling_buffer_shape ph pw pd ch cw rows = Stripe.rolling_buffer_shape ph pw pd ch cw rows.
Proof. reflexivity. Qed.

Lemma gen_needed_total_padding_eq i s f :
  GenStripe.needed_total_padding i s f = Stripe.needed_total_padding i s f.
Proof. reflexivity. Qed.

Lemma gen_required_size_eq v s b u n :
  GenStripe._required_size v s b u n = if u >? 0 then Some (Stripe.required_size v s b u n) else None.
Proof.
  unfold GenStripe._required_size, Stripe.required_size.
  destruct (u >? 0); reflexivity.
Qed.

(* calc_explicit_padding: the translated while loop (a local fix over S (Z.to_nat pad_after), None = out of fuel) never
   runs out of fuel and computes what the hand twin computes *)
Section ExplicitLoop.
  Variable s tmb : Z.
  Fixpoint explicit_loop_opt (fuel : nat) (opa : Z) : option Z :=
    match fuel with
    | O => None
    | S f' => if (opa >? 0) && negb (opa mod s =? tmb mod s) then explicit_loop_opt f' (opa - 1) else Some opa
    end.
End ExplicitLoop.

Lemma explicit_loop_opt_eq s tmb : forall fuel opa, (Z.to_nat opa <= fuel)%nat ->
  explicit_loop_opt s tmb (S fuel) opa = Some (explicit_after fuel opa s tmb).
Proof.
  induction fuel as [|fuel IH]; intros opa Hf.
  - cbn [explicit_loop_opt explicit_after]. destruct (Z.gtb_spec opa 0); [lia|]. reflexivity.
  - change (explicit_loop_opt s tmb (S (S fuel)) opa) with
      (if (opa >? 0) && negb (opa mod s =? tmb mod s) then explicit_loop_opt s tmb (S fuel) (opa - 1) else Some opa).
    cbn [explicit_after]. rewrite Z.gtb_ltb.
    destruct ((0 <? opa) && negb (opa mod s =? tmb mod s)) eqn:E; [|reflexivity].
    apply IH. apply andb_true_iff in E. destruct E as [E _]. apply Z.ltb_lt in E. lia.
Qed.

Lemma gen_calc_explicit_padding_eq i s f pb pa :
  GenStripe.calc_explicit_padding i s f pb pa = Some (Stripe.calc_explicit_padding i s f pb pa).
Proof.
  change (GenStripe.calc_explicit_padding i s f pb pa) with
    (match explicit_loop_opt s (f - i - pb) (S (Z.to_nat pa)) pa with Some x => Some (pb, x) | None => None end).
  rewrite explicit_loop_opt_eq by lia. reflexivity.
Qed.

(* ---------- small arithmetic ---------- *)
Lemma needed_total_padding_ge i s f : 0 < s -> f - s <= needed_total_padding i s f /\ 0 <= needed_total_padding i s f.
Proof.
  intros Hs. unfold needed_total_padding.
  pose proof (Z.mod_pos_bound i s Hs).
  destruct (i mod s =? 0); lia.
Qed.

Lemma required_size_1 v s b : required_size v s b 1 0 = (v - 1) * s + b.
Proof. unfold required_size. rewrite Z.add_0_r, Z.div_1_r. lia. Qed.

Lemma round_up_spec a b : 0 < b -> a <= round_up a b < a + b /\ (round_up a b) mod b = 0.
Proof.
  intros Hb. unfold round_up.
  pose proof (Z.div_mod (a + b - 1) b ltac:(lia)).
  pose proof (Z.mod_pos_bound (a + b - 1) b Hb).
  split; [ nia | apply Z.mod_mul; lia ].
Qed.

(* ---------- py_range / stripes_1d ---------- *)
(* a list of segments that starts at lo, ends at hi, each non-empty and each starting where the previous ended *)
Fixpoint chain (l : list (Z * Z)) (lo hi : Z) : Prop :=
  match l with
  | [] => lo = hi
  | (a, b) :: t => a = lo /\ a < b /\ chain t b hi
  end.

Definition in_seg (y : Z) (ab : Z * Z) : bool := (fst ab <=? y) && (y <? snd ab).
Definition count1 (y : Z) (l : list (Z * Z)) : nat := List.length (filter (in_seg y) l).

Lemma chain_le l : forall lo hi, chain l lo hi -> lo <= hi.
Proof.
  induction l as [|[a b] t IH]; intros lo hi H; cbn in H.
  - lia.
  - destruct H as (-> & Hab & Ht). apply IH in Ht. lia.
Qed.

Lemma chain_count l : forall lo hi y, chain l lo hi ->
  count1 y l = if (lo <=? y) && (y <? hi) then 1%nat else 0%nat.
Proof.
  induction l as [|[a b] t IH]; intros lo hi y H; cbn in H.
  - subst. unfold count1. cbn. destruct (Z.leb_spec hi y), (Z.ltb_spec y hi); cbn; try reflexivity; lia.
  - destruct H as (-> & Hab & Ht). pose proof (chain_le _ _ _ Ht) as Hle.
    unfold count1 in *. cbn [filter]. unfold in_seg at 1. cbn [fst snd].
    specialize (IH b hi y Ht).
    destruct (Z.leb_spec lo y), (Z.ltb_spec y b); cbn [andb length]; rewrite IH;
      destruct (Z.leb_spec b y), (Z.ltb_spec y hi); cbn; try reflexivity; lia.
Qed.

Lemma chain_nonempty l lo hi : chain l lo hi -> forall ab, In ab l -> fst ab < snd ab /\ lo <= fst ab /\ snd ab <= hi.
Proof.
  revert lo hi. induction l as [|[a b] t IH]; intros lo hi H ab Hin; cbn in *.
  - contradiction.
  - destruct H as (-> & Hab & Ht). pose proof (chain_le _ _ _ Ht).
    destruct Hin as [<-|Hin]; cbn; [lia|].
    destruct (IH _ _ Ht _ Hin) as (? & ? & ?). lia.
Qed.

Lemma stripes_chain_aux step b : 0 < step -> forall n a,
  a <= b -> Z.of_nat n = (b - a + step - 1) / step ->
  chain (map (fun s => (s, Z.min (s + step) b)) (range_from n a step)) a b.
Proof.
  intros Hs. induction n as [|n IH]; intros a Hab Hn.
  - cbn. pose proof (Z.div_mod (b - a + step - 1) step ltac:(lia)).
    pose proof (Z.mod_pos_bound (b - a + step - 1) step Hs). change (Z.of_nat 0) with 0 in Hn. nia.
  - cbn [range_from map chain].
    pose proof (Z.div_mod (b - a + step - 1) step ltac:(lia)) as Hdm.
    pose proof (Z.mod_pos_bound (b - a + step - 1) step Hs) as Hmb.
    rewrite Nat2Z.inj_succ in Hn.
    assert (a < b) by nia.
    split; [reflexivity|]. split; [lia|].
    destruct (Z.le_gt_cases b (a + step)) as [Hge|Hlt].
    + (* last stripe *)
      rewrite Z.min_r by lia.
      assert (n = 0%nat) by (assert ((b - a + step - 1) / step < 2) by (apply Z.div_lt_upper_bound; lia); lia).
      subst n. cbn. reflexivity.
    + rewrite Z.min_l by lia. apply IH; [lia|].
      replace (b - (a + step) + step - 1) with ((b - a + step - 1) + (-1) * step) by lia.
      rewrite Z.div_add by lia. lia.
Qed.

Lemma stripes_1d_chain a b step : 0 < step -> a <= b -> chain (stripes_1d a b step) a b.
Proof.
  intros Hs Hab. unfold stripes_1d, py_range, range_len.
  destruct (Z.gtb_spec step 0); [|lia].
  apply stripes_chain_aux; try assumption.
  rewrite Z2Nat.id; [|apply Z.le_max_l].
  rewrite Z.max_r; [reflexivity|]. apply Z.div_pos; lia.
Qed.

(* ---------- depth slices ---------- *)
Fixpoint incr (l : list Z) : Prop :=
  match l with a :: (b :: _) as t => a < b /\ incr t | _ => True end.

(* strictly increasing, at least two entries, the range [lo,hi) starts in the first slice and ends in the last *)
Definition slices_ok (sl : list Z) (lo hi : Z) : Prop :=
  incr sl /\ lo < hi /\
  match sl with
  | a :: b :: _ => a <= lo < b
  | _ => False
  end /\
  (forall x, In x (removelast sl) -> x < hi) /\ hi <= last sl 0.

Lemma depth_chain_aux lo hi : lo < hi -> forall l a,
  incr (a :: l) -> l <> [] -> lo < hd 0 l ->
  (forall x, In x (removelast (a :: l)) -> x < hi) -> hi <= last (a :: l) 0 ->
  chain (depth_ranges (a :: l) lo hi) (Z.max a lo) hi.
Proof.
  intros Hlh. induction l as [|b l IH]; intros a Hinc Hne Hhd Hrl Hlast; [congruence|].
  destruct l as [|c l'].
  - cbn in *. assert (a < hi) by (apply Hrl; left; reflexivity).
    destruct Hinc as [Hab _]. rewrite Z.min_r by lia. repeat split; lia.
  - assert (Hb : b < hi) by (apply Hrl; cbn; right; left; reflexivity).
    destruct Hinc as [Hab Hinc].
    cbn [depth_ranges chain]. rewrite (Z.min_l b hi) by lia.
    split; [reflexivity|]. cbn [hd] in Hhd. split; [lia|].
    assert (Hc : b < c) by (destruct Hinc; assumption).
    replace b with (Z.max b lo) at 2 by lia.
    apply IH.
    + exact Hinc.
    + congruence.
    + cbn [hd]. lia.
    + intros x Hx. apply Hrl. cbn [removelast] in *. right. exact Hx.
    + exact Hlast.
Qed.

Lemma depth_ranges_chain sl lo hi : slices_ok sl lo hi -> chain (depth_ranges sl lo hi) lo hi.
Proof.
  intros (Hinc & Hlh & Hhead & Hrl & Hlast).
  destruct sl as [|a [|b l]]; try contradiction.
  replace lo with (Z.max a lo) at 2 by lia.
  apply depth_chain_aux; try assumption; [congruence | cbn; lia].
Qed.

(* ---------- the three nested loops ---------- *)
Definition inside3 (y x c : Z) (b : box) : bool :=
  (ch (fst b) <=? y) && (y <? ch (snd b)) && ((cw (fst b) <=? x) && (x <? cw (snd b))) &&
  ((cc (fst b) <=? c) && (c <? cc (snd b))).
Definition count_boxes (y x c : Z) (l : list box) : nat := List.length (filter (inside3 y x c) l).

Definition box3 (n0 n1 : Z) (hr wr dr : Z * Z) : box :=
  ({| cn := n0; ch := fst hr; cw := fst wr; cc := fst dr |}, {| cn := n1; ch := snd hr; cw := snd wr; cc := snd dr |}).

Definition product_boxes (n0 n1 : Z) (hs ws ds : list (Z * Z)) : list box :=
  flat_map (fun hr => flat_map (fun wr => map (fun dr => box3 n0 n1 hr wr dr) ds) ws) hs.

Lemma count_app y x c l1 l2 : count_boxes y x c (l1 ++ l2) = (count_boxes y x c l1 + count_boxes y x c l2)%nat.
Proof. unfold count_boxes. rewrite filter_app, app_length. reflexivity. Qed.

Lemma count_product_d n0 n1 y x c hr wr ds :
  count_boxes y x c (map (fun dr => box3 n0 n1 hr wr dr) ds) =
  if in_seg y hr && in_seg x wr then count1 c ds else 0%nat.
Proof.
  induction ds as [|dr ds IH].
  - cbn. destruct (in_seg y hr && in_seg x wr); reflexivity.
  - unfold count_boxes, count1 in *. cbn [map filter].
    unfold inside3 at 1. cbn [box3 fst snd ch cw cc].
    fold (in_seg y hr). fold (in_seg x wr). fold (in_seg c dr).
    destruct (in_seg y hr && in_seg x wr) eqn:E; cbn [andb].
    + destruct (in_seg c dr); cbn [length]; rewrite IH; reflexivity.
    + exact IH.
Qed.

Lemma count_product_w n0 n1 y x c hr ws ds :
  count_boxes y x c (flat_map (fun wr => map (fun dr => box3 n0 n1 hr wr dr) ds) ws) =
  if in_seg y hr then (count1 x ws * count1 c ds)%nat else 0%nat.
Proof.
  induction ws as [|wr ws IH].
  - cbn. destruct (in_seg y hr); reflexivity.
  - cbn [flat_map]. rewrite count_app, IH, count_product_d.
    unfold count1. cbn [filter].
    destruct (in_seg y hr); cbn [andb]; [|reflexivity].
    destruct (in_seg x wr); cbn [length Nat.mul]; lia.
Qed.

Lemma count_product n0 n1 y x c hs ws ds :
  count_boxes y x c (product_boxes n0 n1 hs ws ds) = (count1 y hs * (count1 x ws * count1 c ds))%nat.
Proof.
  unfold product_boxes. induction hs as [|hr hs IH].
  - reflexivity.
  - cbn [flat_map]. rewrite count_app, IH, count_product_w.
    unfold count1. cbn [filter].
    destruct (in_seg y hr); cbn [length Nat.mul]; lia.
Qed.

Lemma all_some_map_some {A} (l : list A) : all_some (map Some l) = Some l.
Proof. induction l as [|x l IH]; cbn; [reflexivity|]. rewrite IH. reflexivity. Qed.

Lemma mk_box_ok n0 n1 hr wr dr :
  n0 <= n1 -> fst hr < snd hr -> fst wr < snd wr -> fst dr < snd dr ->
  mk_box {| cn := n0; ch := fst hr; cw := fst wr; cc := fst dr |} {| cn := n1; ch := snd hr; cw := snd wr; cc := snd dr |}
  = Some (box3 n0 n1 hr wr dr).
Proof.
  intros. unfold mk_box, c4_le. cbn [cn ch cw cc].
  destruct (Z.leb_spec n0 n1), (Z.leb_spec (fst hr) (snd hr)), (Z.leb_spec (fst wr) (snd wr)),
    (Z.leb_spec (fst dr) (snd dr)); try lia. reflexivity.
Qed.

Lemma gen_boxes_product n0 n1 hs ws ds :
  n0 <= n1 -> (forall r, In r hs -> fst r < snd r) -> (forall r, In r ws -> fst r < snd r) ->
  (forall r, In r ds -> fst r < snd r) ->
  flat_map (fun hr : Z * Z => flat_map (fun wr : Z * Z => map (fun dr : Z * Z =>
     mk_box {| cn := n0; ch := fst hr; cw := fst wr; cc := fst dr |} {| cn := n1; ch := snd hr; cw := snd wr; cc := snd dr |}) ds) ws) hs
  = map Some (product_boxes n0 n1 hs ws ds).
Proof.
  intros Hn Hh Hw Hd. unfold product_boxes.
  induction hs as [|hr hs IHh]; [reflexivity|].
  cbn [flat_map]. rewrite map_app. rewrite IHh by (intros; apply Hh; right; assumption). f_equal.
  assert (Hhr : fst hr < snd hr) by (apply Hh; left; reflexivity).
  clear IHh Hh. induction ws as [|wr ws IHw]; [reflexivity|].
  cbn [flat_map]. rewrite map_app. rewrite IHw by (intros; apply Hw; right; assumption). f_equal.
  assert (Hwr : fst wr < snd wr) by (apply Hw; left; reflexivity).
  clear IHw Hw. induction ds as [|dr ds IHd]; [reflexivity|].
  cbn [map]. rewrite IHd by (intros; apply Hd; right; assumption).
  rewrite mk_box_ok; try assumption; [reflexivity|]. apply Hd. left. reflexivity.
Qed.

Definition in_region (s e : c4) (y x c : Z) : bool :=
  ((ch s <=? y) && (y <? ch e)) && ((cw s <=? x) && (x <? cw e)) && ((cc s <=? c) && (c <? cc e)).

Definition nonempty3 (b : box) : Prop :=
  ch (fst b) < ch (snd b) /\ cw (fst b) < cw (snd b) /\ cc (fst b) < cc (snd b).

Lemma in_product n0 n1 hs ws ds b :
  In b (product_boxes n0 n1 hs ws ds) -> exists hr wr dr, In hr hs /\ In wr ws /\ In dr ds /\ b = box3 n0 n1 hr wr dr.
Proof.
  unfold product_boxes. intros H. apply in_flat_map in H. destruct H as (hr & Hhr & H).
  apply in_flat_map in H. destruct H as (wr & Hwr & H). apply in_map_iff in H. destruct H as (dr & <- & Hdr).
  exists hr, wr, dr. auto.
Qed.

(* The OFM boxes the generator builds are an exact partition of [ofm_start, ofm_end): every point of the region lies
   in exactly one box (so: no gap, no overlap), points outside lie in none, every box is non-empty. *)
Lemma stripes_partition_lemma ofm_start ofm_end step_h step_w slices :
  0 < step_h -> 0 < step_w ->
  cn ofm_start <= cn ofm_end -> ch ofm_start <= ch ofm_end -> cw ofm_start <= cw ofm_end ->
  slices_ok slices (cc ofm_start) (cc ofm_end) ->
  exists boxes, gen_ofm_boxes ofm_start ofm_end step_h step_w slices = Some boxes /\
    (forall b, In b boxes -> nonempty3 b /\ cn (fst b) = cn ofm_start /\ cn (snd b) = cn ofm_end) /\
    (forall y x c, count_boxes y x c boxes = if in_region ofm_start ofm_end y x c then 1%nat else 0%nat).
Proof.
  intros Hsh Hsw Hn Hh Hw Hsl.
  pose proof (stripes_1d_chain _ _ _ Hsh Hh) as Ch.
  pose proof (stripes_1d_chain _ _ _ Hsw Hw) as Cw.
  pose proof (depth_ranges_chain _ _ _ Hsl) as Cd.
  exists (product_boxes (cn ofm_start) (cn ofm_end) (stripes_1d (ch ofm_start) (ch ofm_end) step_h)
            (stripes_1d (cw ofm_start) (cw ofm_end) step_w) (depth_ranges slices (cc ofm_start) (cc ofm_end))).
  split; [|split].
  - unfold gen_ofm_boxes.
    destruct (Z.eqb_spec step_h 0); [lia|]. destruct (Z.eqb_spec step_w 0); [lia|]. cbn [orb].
    rewrite gen_boxes_product; [apply all_some_map_some | assumption | | | ];
      intros r Hr; eapply chain_nonempty in Hr; eauto; tauto.
  - intros b Hb. apply in_product in Hb. destruct Hb as (hr & wr & dr & Hhr & Hwr & Hdr & ->).
    eapply chain_nonempty in Hhr; eauto. eapply chain_nonempty in Hwr; eauto. eapply chain_nonempty in Hdr; eauto.
    unfold nonempty3. cbn. tauto.
  - intros y x c. rewrite count_product.
    rewrite (chain_count _ _ _ y Ch), (chain_count _ _ _ x Cw), (chain_count _ _ _ c Cd).
    unfold in_region.
    destruct ((ch ofm_start <=? y) && (y <? ch ofm_end)), ((cw ofm_start <=? x) && (x <? cw ofm_end)),
      ((cc ofm_start <=? c) && (c <? cc ofm_end)); reflexivity.
Qed.

(* readable consequences of "exactly one": cover and pairwise disjointness by position *)
Lemma count_two_positions {A} (f : A -> bool) (l : list A) i j a b :
  (i < j)%nat -> nth_error l i = Some a -> nth_error l j = Some b -> f a = true -> f b = true ->
  (2 <= List.length (filter f l))%nat.
Proof.
  revert i j. induction l as [|x l IH]; intros i j Hij Hi Hj Ha Hb.
  - destruct i; discriminate.
  - destruct j as [|j]; [lia|]. destruct i as [|i].
    + cbn in Hi. injection Hi as ->. cbn [filter]. rewrite Ha. cbn [length].
      cbn in Hj. apply nth_error_In in Hj.
      assert (In b (filter f l)) by (apply filter_In; auto).
      destruct (filter f l); [contradiction|cbn; lia].
    + cbn in Hi, Hj. specialize (IH i j ltac:(lia) Hi Hj Ha Hb). cbn [filter].
      destruct (f x); cbn [length]; lia.
Qed.

Lemma partition_disjoint boxes s e :
  (forall y x c, count_boxes y x c boxes = if in_region s e y x c then 1%nat else 0%nat) ->
  forall i j bi bj y x c, nth_error boxes i = Some bi -> nth_error boxes j = Some bj ->
    inside3 y x c bi = true -> inside3 y x c bj = true -> i = j.
Proof.
  intros Hc i j bi bj y x c Hi Hj Hbi Hbj.
  destruct (Nat.lt_trichotomy i j) as [Hlt|[Heq|Hgt]]; [|assumption|].
  - pose proof (count_two_positions (inside3 y x c) boxes i j bi bj Hlt Hi Hj Hbi Hbj) as H2.
    specialize (Hc y x c). unfold count_boxes in Hc. destruct (in_region s e y x c); lia.
  - pose proof (count_two_positions (inside3 y x c) boxes j i bj bi Hgt Hj Hi Hbj Hbi) as H2.
    specialize (Hc y x c). unfold count_boxes in Hc. destruct (in_region s e y x c); lia.
Qed.

Lemma partition_cover boxes s e :
  (forall y x c, count_boxes y x c boxes = if in_region s e y x c then 1%nat else 0%nat) ->
  forall y x c, in_region s e y x c = true <-> exists b, In b boxes /\ inside3 y x c b = true.
Proof.
  intros Hc y x c. specialize (Hc y x c). unfold count_boxes in Hc. split.
  - intros Hr. rewrite Hr in Hc. destruct (filter (inside3 y x c) boxes) as [|b l] eqn:E; [discriminate|].
    exists b. apply filter_In. rewrite E. left. reflexivity.
  - intros (b & Hb & Hi). destruct (in_region s e y x c); [reflexivity|].
    assert (In b (filter (inside3 y x c) boxes)) by (apply filter_In; auto).
    destruct (filter (inside3 y x c) boxes); [contradiction|discriminate].
Qed.

(* non-trivial instance: 7 rows in stripes of 3, full width, three depth slices clipped to a concat window *)
Example stripes_partition_example :
  gen_ofm_boxes {| cn := 0; ch := 2; cw := 0; cc := 4 |} {| cn := 1; ch := 9; cw := 5; cc := 30 |} 3 5 [0; 8; 16; 32]
  = Some [ ({| cn := 0; ch := 2; cw := 0; cc := 4 |}, {| cn := 1; ch := 5; cw := 5; cc := 8 |});
           ({| cn := 0; ch := 2; cw := 0; cc := 8 |}, {| cn := 1; ch := 5; cw := 5; cc := 16 |});
           ({| cn := 0; ch := 2; cw := 0; cc := 16 |}, {| cn := 1; ch := 5; cw := 5; cc := 30 |});
           ({| cn := 0; ch := 5; cw := 0; cc := 4 |}, {| cn := 1; ch := 8; cw := 5; cc := 8 |});
           ({| cn := 0; ch := 5; cw := 0; cc := 8 |}, {| cn := 1; ch := 8; cw := 5; cc := 16 |});
           ({| cn := 0; ch := 5; cw := 0; cc := 16 |}, {| cn := 1; ch := 8; cw := 5; cc := 30 |});
           ({| cn := 0; ch := 8; cw := 0; cc := 4 |}, {| cn := 1; ch := 9; cw := 5; cc := 8 |});
           ({| cn := 0; ch := 8; cw := 0; cc := 8 |}, {| cn := 1; ch := 9; cw := 5; cc := 16 |});
           ({| cn := 0; ch := 8; cw := 0; cc := 16 |}, {| cn := 1; ch := 9; cw := 5; cc := 30 |}) ]
  /\ slices_ok [0; 8; 16; 32] 4 30.
Proof.
  split; [vm_compute; reflexivity|].
  unfold slices_ok. cbn. repeat split; try lia.
  all: intros x Hx; repeat (destruct Hx as [<-|Hx]; [lia|]); contradiction.
Qed.

(* the precondition is needed: a write window that starts beyond the first slice makes Box() assert *)
Lemma depth_slices_assertion_example :
  gen_ofm_boxes {| cn := 0; ch := 0; cw := 0; cc := 16 |} {| cn := 1; ch := 2; cw := 2; cc := 32 |} 2 2 [0; 8; 32] = None.
Proof. vm_compute. reflexivity. Qed.
