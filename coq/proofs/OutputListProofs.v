From Coq Require Import ZArith List Bool Lia.
From VV Require Import model.OutputList.
Import ListNotations.
Open Scope Z_scope.

Lemma memZ_In x l : memZ x l = true <-> In x l.
Proof.
  induction l as [|y t IH]; cbn [memZ In]; [split; [discriminate|tauto]|].
  rewrite orb_true_iff, IH, Z.eqb_eq. split; intros [H|H]; auto.
Qed.

Lemma memZ_app x a b : memZ x (a ++ b) = memZ x a || memZ x b.
Proof. induction a as [|y t IH]; cbn [memZ app]; [reflexivity|]. rewrite IH, orb_assoc. reflexivity. Qed.

Lemma dedup_acc_mem x l : forall acc, (memZ x acc = true \/ In x l) -> memZ x (dedup_acc acc l) = true.
Proof.
  induction l as [|y t IH]; intros acc H; cbn [dedup_acc].
  - destruct H as [H|[]]. exact H.
  - destruct (memZ y acc) eqn:Hy.
    + apply IH. destruct H as [H|[H|H]]; [left; exact H | subst; left; exact Hy | right; exact H].
    + apply IH. destruct H as [H|[H|H]].
      * left. rewrite memZ_app, H. reflexivity.
      * subst. left. rewrite memZ_app. cbn [memZ]. rewrite Z.eqb_refl, orb_true_r. reflexivity.
      * right. exact H.
Qed.

Lemma dedup_acc_nodup l : forall acc, NoDup acc -> NoDup (dedup_acc acc l).
Proof.
  induction l as [|y t IH]; intros acc H; cbn [dedup_acc]; [exact H|].
  destruct (memZ y acc) eqn:Hy; apply IH; [exact H|].
  apply NoDup_rev in H. rewrite <- (rev_involutive (acc ++ [y])). apply NoDup_rev.
  rewrite rev_app_distr. cbn [rev app]. constructor; [|exact H].
  rewrite <- in_rev. intro Hin. apply memZ_In in Hin. congruence.
Qed.

Lemma dedup_acc_sub x l : forall acc, In x (dedup_acc acc l) -> In x acc \/ In x l.
Proof.
  induction l as [|y t IH]; intros acc H; cbn [dedup_acc] in H; [left; exact H|].
  destruct (memZ y acc).
  - destruct (IH _ H) as [H1|H1]; [left; exact H1|right; right; exact H1].
  - destruct (IH _ H) as [H1|H1]; [|right; right; exact H1].
    apply in_app_or in H1. destruct H1 as [H1|[H1|[]]]; [left; exact H1|right; left; exact H1].
Qed.

Lemma indexZ_nth x d : memZ x d = true -> exists i, indexZ x d = Some i /\ nth_error d i = Some x.
Proof.
  induction d as [|y t IH]; cbn [memZ indexZ]; [discriminate|]. intros H.
  destruct (x =? y) eqn:E.
  - apply Z.eqb_eq in E. subst. exists O. split; reflexivity.
  - cbn [orb] in H. destruct (IH H) as [i [Hi Hn]]. exists (S i). rewrite Hi. split; [reflexivity|exact Hn].
Qed.

Lemma restore_one {A} (f : Z -> A) x d extra :
  memZ x d = true ->
  match indexZ x d with Some i => nth_error (map f d ++ extra) i | None => None end = Some (f x).
Proof.
  intros H. destruct (indexZ_nth x d H) as [i [Hi Hn]]. rewrite Hi.
  rewrite nth_error_app1.
  - rewrite nth_error_map, Hn. reflexivity.
  - rewrite map_length. apply nth_error_Some. congruence.
Qed.

Lemma restore_after_rewrites_lemma {A} (f : Z -> A) (l : list Z) (extra : list A) :
  restore (map f (dedup l) ++ extra) (positions l) = map (fun x => Some (f x)) l.
Proof.
  unfold restore, positions. rewrite map_map. apply map_ext_in. intros x Hx.
  apply restore_one. unfold dedup. apply dedup_acc_mem. right. exact Hx.
Qed.

Lemma dedup_nodup_lemma l : NoDup (dedup l).
Proof. unfold dedup. apply dedup_acc_nodup. constructor. Qed.

Lemma dedup_same_elements_lemma l x : In x (dedup l) <-> In x l.
Proof.
  unfold dedup. split; intro H.
  - destruct (dedup_acc_sub _ _ _ H) as [[]|H1]. exact H1.
  - apply memZ_In. apply dedup_acc_mem. right. exact H.
Qed.

Lemma positions_in_range_lemma l p : In p (positions l) -> exists i, p = Some i /\ (i < length (dedup l))%nat.
Proof.
  unfold positions. rewrite in_map_iff. intros [x [Hp Hx]].
  assert (Hm : memZ x (dedup l) = true) by (unfold dedup; apply dedup_acc_mem; right; exact Hx).
  destruct (indexZ_nth _ _ Hm) as [i [Hi Hn]]. exists i. split; [congruence|].
  apply nth_error_Some. congruence.
Qed.
