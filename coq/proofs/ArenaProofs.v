From Coq Require Import ZArith List Bool Lia.
From VV Require Import model.Arena.
Import ListNotations.
Open Scope Z_scope.

(* declarative statement *)
Definition live_at (a : atens) (t : Z) : Prop := a_first a <= t <= a_last a.
Definition occupies (a : atens) (x : Z) : Prop := a_off a <= x < a_off a + a_size a.

Lemma pair_ok_sound a b t x :
  pair_ok a b = true -> live_at a t -> live_at b t -> occupies a x -> occupies b x -> False.
Proof.
  unfold pair_ok, colive, disjoint_bytes, live_at, occupies. intros H La Lb Oa Ob.
  apply orb_true_iff in H as [H|H].
  - apply negb_true_iff in H. apply Z.leb_gt in H. lia.
  - apply orb_true_iff in H as [H|H]; apply Z.leb_le in H; lia.
Qed.

Lemma all_pairs_ok_sound l :
  all_pairs_ok l = true ->
  forall i j a b, i <> j -> nth_error l i = Some a -> nth_error l j = Some b ->
  forall t x, live_at a t -> live_at b t -> occupies a x -> occupies b x -> False.
Proof.
  induction l as [|h tl IH]; intros H i j a b Hij Hi Hj t x La Lb Oa Ob.
  - destruct i; discriminate.
  - cbn [all_pairs_ok] in H. apply andb_true_iff in H as [Hh Ht].
    rewrite forallb_forall in Hh.
    destruct i as [|i], j as [|j]; cbn [nth_error] in Hi, Hj.
    + congruence.
    + injection Hi as <-. apply nth_error_In in Hj.
      exact (pair_ok_sound h b t x (Hh b Hj) La Lb Oa Ob).
    + injection Hj as <-. apply nth_error_In in Hi.
      exact (pair_ok_sound h a t x (Hh a Hi) Lb La Ob Oa).
    + apply (IH Ht i j a b ltac:(congruence) Hi Hj t x); assumption.
Qed.

Theorem check_arena_sound_lemma align l has_scratch s_off s_size fp_ends touched reported :
  check_arena align l has_scratch s_off s_size fp_ends touched reported = true ->
  (* 1: tensors live at a common time step never share a byte *)
  (forall i j a b, i <> j -> nth_error l i = Some a -> nth_error l j = Some b ->
     forall t x, live_at a t -> live_at b t -> occupies a x -> occupies b x -> False) /\
  (* 2: every offset honours the requested alignment *)
  (forall a, In a l -> a_off a mod align = 0 /\ 0 <= a_off a) /\
  (* 3: the scratch tensor starts at 0 and spans every arena byte the streams touch and every
        arena tensor the custom operators use *)
  (has_scratch = true ->
     s_off = 0 /\ (forall e, In e fp_ends -> e <= s_size) /\
     (forall a x, In a touched -> occupies a x -> 0 <= a_off a -> 0 <= x < s_size)) /\
  (* 4: the reported size covers the extent of the plan *)
  (forall a x, In a l -> occupies a x -> x < reported).
Proof.
  unfold check_arena. intros H.
  apply andb_true_iff in H as [H Hrep]. apply andb_true_iff in H as [H Hscr].
  apply andb_true_iff in H as [H Hal]. apply andb_true_iff in H as [Hpos Hpairs].
  split; [exact (all_pairs_ok_sound l Hpairs)|]. split; [|split].
  - intros a Hin. unfold aligned_ok in Hal. rewrite forallb_forall in Hal. specialize (Hal a Hin).
    apply andb_true_iff in Hal as [Hal _]. apply andb_true_iff in Hal as [H1 H2].
    apply Z.eqb_eq in H1. apply Z.leb_le in H2. split; assumption.
  - intros Hs. subst has_scratch. unfold scratch_ok in Hscr.
    apply andb_true_iff in Hscr as [Hsc Ht]. apply andb_true_iff in Hsc as [H0 Hf].
    apply Z.eqb_eq in H0. rewrite forallb_forall in Hf, Ht.
    split; [exact H0|]. split.
    + intros e He. apply Z.leb_le. exact (Hf e He).
    + intros a x Ha Ho Hnn. specialize (Ht a Ha). apply Z.leb_le in Ht. unfold occupies in Ho. lia.
  - intros a x Hin Ho. unfold reported_ok in Hrep. rewrite forallb_forall in Hrep.
    specialize (Hrep a Hin). apply Z.leb_le in Hrep. unfold occupies in Ho. lia.
Qed.

Example arena_example :
  check_arena 16 [ {| a_off := 0; a_size := 100; a_first := 0; a_last := 1 |};
                   {| a_off := 112; a_size := 50; a_first := 1; a_last := 2 |};
                   {| a_off := 0; a_size := 64; a_first := 2; a_last := 3 |} ]
              true 0 176 [162; 100] [ {| a_off := 112; a_size := 50; a_first := 1; a_last := 2 |} ] 176 = true.
Proof. vm_compute. reflexivity. Qed.
