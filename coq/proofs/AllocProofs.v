(* Common lemmas for the allocator proofs: round_up, stable insertion sort, positional pairs. *)
From Coq Require Import ZArith List Bool Lia Permutation Sorting.Sorted.
From VV Require Import lib.PyInt gen.GenNumeric model.Alloc.
Import ListNotations.
Open Scope Z_scope.

(* the translated numeric_util.round_up is the model's round_up *)
Lemma gen_round_up_eq : forall a b, GenNumeric.round_up a b = round_up a b.
Proof. reflexivity. Qed.

Lemma round_up_divide : forall a b, (b | round_up a b).
Proof. intros. unfold round_up. exists ((a + b - 1) / b). reflexivity. Qed.

Lemma round_up_ge : forall a b, 0 < b -> a <= round_up a b.
Proof.
  intros a b Hb. unfold round_up.
  pose proof (Z.div_mod (a + b - 1) b ltac:(lia)) as H.
  pose proof (Z.mod_pos_bound (a + b - 1) b Hb) as H2.
  nia.
Qed.

Lemma round_up_lt : forall a b, 0 < b -> round_up a b < a + b.
Proof.
  intros a b Hb. unfold round_up.
  pose proof (Z.div_mod (a + b - 1) b ltac:(lia)) as H.
  pose proof (Z.mod_pos_bound (a + b - 1) b Hb) as H2.
  nia.
Qed.

Lemma round_up_multiple : forall a b, 0 < b -> (b | a) -> round_up a b = a.
Proof.
  intros a b Hb [k ->]. unfold round_up.
  replace (k * b + b - 1) with ((b - 1) + k * b) by lia.
  rewrite Z.div_add by lia. rewrite Z.div_small by lia. lia.
Qed.

Lemma round_up_nonneg : forall a b, 0 < b -> 0 <= a -> 0 <= round_up a b.
Proof. intros. pose proof (round_up_ge a b H). lia. Qed.

(* byte intervals [a1, a1+s1) and [a2, a2+s2) do not meet (strong form: also for empty intervals) *)
Definition disjoint (a1 s1 a2 s2 : Z) : Prop := a1 + s1 <= a2 \/ a2 + s2 <= a1.

Lemma disjoint_sym : forall a1 s1 a2 s2, disjoint a1 s1 a2 s2 -> disjoint a2 s2 a1 s1.
Proof. unfold disjoint; intros; lia. Qed.

Lemma disjoint_no_common_byte : forall a1 s1 a2 s2 x,
  disjoint a1 s1 a2 s2 -> ~ (a1 <= x < a1 + s1 /\ a2 <= x < a2 + s2).
Proof. unfold disjoint; intros; lia. Qed.

Lemma time_overlap_sym : forall a b, time_overlap a b -> time_overlap b a.
Proof. unfold time_overlap; intros; lia. Qed.

Lemma time_overlap_iff : forall a b,
  time_overlap a b <-> exists t, lr_start a <= t <= lr_end a /\ lr_start b <= t <= lr_end b.
Proof.
  unfold time_overlap; intros; split.
  - intros H. exists (Z.max (lr_start a) (lr_start b)). lia.
  - intros [t H]. lia.
Qed.

(* ---------- insertion sort ---------- *)
Lemma insert_by_perm : forall (A : Type) (lt : A -> A -> bool) x l, Permutation (x :: l) (insert_by lt x l).
Proof.
  induction l as [|e r IH]; cbn [insert_by]; [reflexivity|].
  destruct (lt x e); [reflexivity|].
  rewrite perm_swap. constructor. exact IH.
Qed.

Lemma sort_by_perm_acc : forall (A : Type) (lt : A -> A -> bool) l acc,
  Permutation (l ++ acc) (fold_left (fun acc x => insert_by lt x acc) l acc).
Proof.
  induction l as [|x r IH]; intros acc; cbn [fold_left app]; [reflexivity|].
  rewrite <- IH. rewrite <- insert_by_perm. rewrite Permutation_middle. reflexivity.
Qed.

Lemma sort_by_perm : forall (A : Type) (lt : A -> A -> bool) l, Permutation l (sort_by lt l).
Proof. intros. unfold sort_by. rewrite <- sort_by_perm_acc. rewrite app_nil_r. reflexivity. Qed.

Lemma insert_by_in : forall (A : Type) (lt : A -> A -> bool) x l y,
  In y (insert_by lt x l) <-> y = x \/ In y l.
Proof.
  intros. split; intros H.
  - apply (Permutation_in _ (Permutation_sym (insert_by_perm A lt x l))) in H. destruct H; auto.
  - apply (Permutation_in _ (insert_by_perm A lt x l)). destruct H; [left; auto | right; auto].
Qed.

Lemma insert_by_sorted : forall (A : Type) (R : A -> A -> Prop) (lt : A -> A -> bool) x l,
  (forall a b c, R a b -> R b c -> R a c) ->
  (forall e, In e l -> lt x e = true -> R x e) ->
  (forall e, In e l -> lt x e = false -> R e x) ->
  StronglySorted R l -> StronglySorted R (insert_by lt x l).
Proof.
  intros A R lt x l Htr. induction l as [|e r IH]; intros Ht Hf Hs; cbn [insert_by].
  - constructor; constructor.
  - inversion Hs as [|? ? Hs' Hall]; subst.
    destruct (lt x e) eqn:E.
    + constructor; [exact Hs|]. constructor.
      * apply Ht; [left; reflexivity | exact E].
      * rewrite Forall_forall in *. intros y Hy. apply Htr with e.
        -- apply Ht; [left; reflexivity | exact E].
        -- apply Hall; exact Hy.
    + constructor.
      * apply IH; auto.
        -- intros; apply Ht; [right|]; assumption.
        -- intros; apply Hf; [right|]; assumption.
      * rewrite Forall_forall in *. intros y Hy. apply insert_by_in in Hy. destruct Hy as [->|Hy].
        -- apply Hf; [left; reflexivity | exact E].
        -- apply Hall; exact Hy.
Qed.

Lemma sort_by_sorted : forall (A : Type) (R : A -> A -> Prop) (lt : A -> A -> bool) l,
  (forall a b c, R a b -> R b c -> R a c) ->
  (forall a b, lt a b = true -> R a b) ->
  (forall a b, lt a b = false -> R b a) ->
  StronglySorted R (sort_by lt l).
Proof.
  intros A R lt l Htr Ht Hf. unfold sort_by.
  assert (G : forall l acc, StronglySorted R acc ->
              StronglySorted R (fold_left (fun acc x => insert_by lt x acc) l acc)).
  { induction l0 as [|x r IH]; intros acc Hs; cbn [fold_left]; [exact Hs|].
    apply IH. apply insert_by_sorted; auto. }
  apply G. constructor.
Qed.

Lemma StronglySorted_filter : forall (A : Type) (R : A -> A -> Prop) (f : A -> bool) l,
  StronglySorted R l -> StronglySorted R (filter f l).
Proof.
  induction l as [|e r IH]; intros Hs; cbn [filter]; [constructor|].
  inversion Hs as [|? ? Hs' Hall]; subst.
  destruct (f e).
  - constructor; [apply IH; exact Hs'|].
    rewrite Forall_forall in *. intros y Hy. apply filter_In in Hy. apply Hall. tauto.
  - apply IH; exact Hs'.
Qed.

(* ---------- pairs by position ---------- *)
Lemma ForallOrdPairs_nth : forall (A : Type) (R : A -> A -> Prop) l,
  ForallOrdPairs R l ->
  forall i j x y, (i < j)%nat -> nth_error l i = Some x -> nth_error l j = Some y -> R x y.
Proof.
  induction 1 as [|a l Hall Hfop IH]; intros i j x y Hij Hi Hj.
  - destruct i; discriminate.
  - destruct j as [|j]; [lia|]. cbn in Hj.
    destruct i as [|i]; cbn in Hi.
    + inversion Hi; subst. rewrite Forall_forall in Hall. apply Hall. eapply nth_error_In; eauto.
    + eapply IH; [|eauto|eauto]. lia.
Qed.
