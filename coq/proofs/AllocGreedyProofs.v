(* Greedy allocator: non-overlap, alignment, memory_required (model/Alloc.v greedy). *)
From Coq Require Import ZArith List Bool Lia Permutation Sorting.Sorted.
From VV Require Import lib.PyInt model.Alloc proofs.AllocProofs.
Import ListNotations.
Open Scope Z_scope.

Definition g_wf (r : lr) : Prop := 0 < lr_size r /\ 0 < lr_align r.
Definition chain (l : list galloc) : Prop := StronglySorted (fun x y => g_end x <= fst y) l.
Definition by_start (a b : lr) : Prop := lr_start a <= lr_start b.
Definition padded (r : lr) : Z := round_up (lr_size r) (lr_align r).

(* ---------- the processing order ---------- *)
Lemma gkey_lt_true : forall a b, gkey_lt a b = true -> by_start a b.
Proof.
  unfold gkey_lt, by_start; intros a b.
  destruct (Z.eqb_spec (lr_start a) (lr_start b)); cbn [negb]; [lia|].
  intros H; apply Z.ltb_lt in H; lia.
Qed.
Lemma gkey_lt_false : forall a b, gkey_lt a b = false -> by_start b a.
Proof.
  unfold gkey_lt, by_start; intros a b.
  destruct (Z.eqb_spec (lr_start a) (lr_start b)); cbn [negb]; [lia|].
  intros H; apply Z.ltb_ge in H; lia.
Qed.
Lemma greedy_order_sorted : forall lrs, StronglySorted by_start (greedy_order lrs).
Proof.
  intros. apply sort_by_sorted.
  - unfold by_start; intros; lia.
  - apply gkey_lt_true.
  - apply gkey_lt_false.
Qed.
Lemma greedy_order_perm : forall lrs, Permutation lrs (greedy_order lrs).
Proof. intros; apply sort_by_perm. Qed.

(* ---------- one alloc ---------- *)
Lemma fold_max_ge_acc : forall l m, m <= fold_left (fun m y => Z.max m (g_end y)) l m.
Proof.
  induction l as [|x r IH]; intros m; cbn [fold_left]; [lia|].
  specialize (IH (Z.max m (g_end x))). lia.
Qed.
Lemma fold_max_ge_in : forall l m x, In x l -> g_end x <= fold_left (fun m y => Z.max m (g_end y)) l m.
Proof.
  induction l as [|e r IH]; intros m x Hin; [destruct Hin|]. cbn [fold_left].
  destruct Hin as [->|Hin].
  - pose proof (fold_max_ge_acc r (Z.max m (g_end x))). lia.
  - apply IH; exact Hin.
Qed.
Lemma current_top_ge : forall l x, In x l -> g_end x <= current_top l.
Proof.
  intros [|e r] x Hin; [destruct Hin|]. cbn [current_top].
  destruct Hin as [->|Hin]; [apply fold_max_ge_acc | apply fold_max_ge_in; exact Hin].
Qed.

Definition safe (whole : list galloc) (asz b : Z) : Prop :=
  forall x, In x whole -> g_end x <= b \/ b + asz <= fst x.

Lemma gscan_safe : forall al asz whole, 0 < al ->
  (forall x, In x whole -> fst x <= g_end x) ->
  forall rest pre best fit cur,
    whole = pre ++ rest -> chain whole ->
    (forall x, In x pre -> g_end x <= cur) ->
    safe whole asz best -> safe whole asz (gscan al asz rest best fit cur).
Proof.
  intros al asz whole Hal Hsz. induction rest as [|x r IH]; intros pre best fit cur Hw Hc Hpre Hs.
  - exact Hs.
  - cbn [gscan].
    assert (Hx : In x whole) by (rewrite Hw; apply in_or_app; right; left; reflexivity).
    assert (Hpre' : forall y, In y (pre ++ [x]) -> g_end y <= g_end x).
    { intros y Hy. apply in_app_or in Hy. destruct Hy as [Hy|[->|[]]]; [|lia].
      (* y in pre is before x in the chain *)
      assert (g_end y <= fst x).
      { unfold chain in Hc. rewrite Hw in Hc. clear - Hc Hy.
        induction pre as [|p ps IHp]; [destruct Hy|].
        cbn in Hc. inversion Hc as [|? ? Hc' Hall]; subst.
        destruct Hy as [->|Hy].
        - rewrite Forall_forall in Hall. apply Hall. apply in_or_app; right; left; reflexivity.
        - apply IHp; assumption. }
      specialize (Hsz x Hx). lia. }
    assert (Hw' : whole = (pre ++ [x]) ++ r) by (rewrite <- app_assoc; exact Hw).
    destruct ((round_up cur al + asz <=? fst x) && (fst x - round_up cur al <? fit)) eqn:E.
    + apply (IH (pre ++ [x])); auto.
      apply andb_prop in E. destruct E as [E1 _]. apply Z.leb_le in E1.
      intros y Hy. rewrite Hw in Hy. apply in_app_or in Hy. destruct Hy as [Hy|[->|Hy]].
      * left. specialize (Hpre y Hy). pose proof (round_up_ge cur al Hal). lia.
      * right. exact E1.
      * right.
        assert (g_end x <= fst y).
        { unfold chain in Hc. rewrite Hw in Hc. clear - Hc Hy.
          induction pre as [|p ps IHp].
          - cbn in Hc. inversion Hc as [|? ? _ Hall]; subst. rewrite Forall_forall in Hall. apply Hall; exact Hy.
          - cbn in Hc. inversion Hc; subst. apply IHp; assumption. }
        specialize (Hsz x Hx). lia.
    + apply (IH (pre ++ [x])); auto.
Qed.

Lemma gscan_divides : forall al asz rest best fit cur,
  (al | best) -> (al | gscan al asz rest best fit cur).
Proof.
  intros al asz. induction rest as [|x r IH]; intros best fit cur Hd; cbn [gscan]; [exact Hd|].
  destruct ((round_up cur al + asz <=? fst x) && (fst x - round_up cur al <? fit)).
  - apply IH. apply round_up_divide.
  - apply IH. exact Hd.
Qed.

Lemma gscan_nonneg : forall al asz rest best fit cur, 0 < al ->
  0 <= best -> 0 <= cur -> (forall x, In x rest -> 0 <= g_end x) -> 0 <= gscan al asz rest best fit cur.
Proof.
  intros al asz. induction rest as [|x r IH]; intros best fit cur Hal Hb Hc Hr; cbn [gscan]; [exact Hb|].
  assert (0 <= g_end x) by (apply Hr; left; reflexivity).
  assert (forall y, In y r -> 0 <= g_end y) by (intros; apply Hr; right; assumption).
  destruct ((round_up cur al + asz <=? fst x) && (fst x - round_up cur al <? fit)).
  - apply IH; auto. apply round_up_nonneg; assumption.
  - apply IH; auto.
Qed.

Lemma current_top_nonneg : forall l, (forall x, In x l -> 0 <= g_end x) -> 0 <= current_top l.
Proof.
  intros [|e r] H; cbn [current_top]; [lia|].
  pose proof (fold_max_ge_acc r (g_end e)). specialize (H e (or_introl eq_refl)). lia.
Qed.

Lemma galloc_lt_true : forall x y, galloc_lt x y = true -> fst x <= fst y.
Proof.
  unfold galloc_lt; intros x y. destruct (Z.eqb_spec (fst x) (fst y)); cbn [negb]; [lia|].
  intros H; apply Z.ltb_lt in H; lia.
Qed.
Lemma galloc_lt_false : forall x y, galloc_lt x y = false -> fst y <= fst x.
Proof.
  unfold galloc_lt; intros x y. destruct (Z.eqb_spec (fst x) (fst y)); cbn [negb]; [lia|].
  intros H; apply Z.ltb_ge in H; lia.
Qed.

(* inserting a buffer that is clear of every live buffer keeps the address-ordered chain *)
Lemma insert_chain : forall (x : galloc) l,
  0 < lr_size (snd x) ->
  (forall e, In e l -> 0 < lr_size (snd e)) ->
  (forall e, In e l -> g_end e <= fst x \/ g_end x <= fst e) ->
  chain l -> chain (insert_by galloc_lt x l).
Proof.
  intros x l Hx. unfold chain. induction l as [|e r IH]; intros Hpos Hsafe Hc; cbn [insert_by].
  - constructor; constructor.
  - inversion Hc as [|? ? Hc' Hall]; subst. rewrite Forall_forall in Hall.
    assert (He : 0 < lr_size (snd e)) by (apply Hpos; left; reflexivity).
    destruct (Hsafe e (or_introl eq_refl)) as [Hb|Ha].
    + (* e lies below x *)
      destruct (galloc_lt x e) eqn:E.
      * apply galloc_lt_true in E. unfold g_end in *. lia.
      * constructor.
        -- apply IH; auto. intros; apply Hpos; right; assumption. intros; apply Hsafe; right; assumption.
        -- rewrite Forall_forall. intros y Hy. apply insert_by_in in Hy. destruct Hy as [->|Hy]; [exact Hb|].
           apply Hall; exact Hy.
    + (* e lies above x *)
      destruct (galloc_lt x e) eqn:E.
      * constructor; [exact Hc|]. rewrite Forall_forall. intros y [->|Hy]; [exact Ha|].
        specialize (Hall y Hy). unfold g_end in *. lia.
      * apply galloc_lt_false in E. unfold g_end in *. lia.
Qed.

Lemma galloc_step_spec : forall live mem r allocs' mem' a,
  g_wf r -> chain live -> (forall e, In e live -> 0 < lr_size (snd e)) ->
  galloc_step live mem r = (allocs', mem', a) ->
  (forall e, In e live -> disjoint a (lr_size r) (fst e) (lr_size (snd e))) /\
  chain allocs' /\ (forall e, In e allocs' <-> e = (a, r) \/ In e live) /\
  (lr_align r | a) /\ mem' = Z.max mem (a + padded r) /\
  ((forall e, In e live -> 0 <= fst e) -> 0 <= a).
Proof.
  intros live mem r allocs' mem' a [Hsz Hal] Hc Hpos H.
  unfold galloc_step in H. inversion H; subst; clear H.
  set (al := lr_align r) in *. set (asz := round_up (lr_size r) al).
  set (a := gscan al asz live (round_up (current_top live) al) best_fit_init 0).
  assert (Hasz : lr_size r <= asz) by (apply round_up_ge; exact Hal).
  assert (Hsafe : safe live asz a).
  { apply (gscan_safe al asz live Hal) with (pre := []); auto.
    - intros x Hx. specialize (Hpos x Hx). unfold g_end. lia.
    - intros x [].
    - intros x Hx. left. pose proof (current_top_ge live x Hx).
      pose proof (round_up_ge (current_top live) al Hal). lia. }
  assert (Hdis : forall e, In e live -> disjoint a (lr_size r) (fst e) (lr_size (snd e))).
  { intros e He. destruct (Hsafe e He) as [H1|H1]; unfold disjoint, g_end in *; lia. }
  repeat split.
  - exact Hdis.
  - apply insert_chain; auto.
    intros e He. destruct (Hsafe e He) as [H1|H1]; unfold g_end in *; cbn [fst snd]; [left; lia | right; lia].
  - intros He. apply insert_by_in in He. exact He.
  - intros He. apply insert_by_in. exact He.
  - apply gscan_divides. apply round_up_divide.
  - intros Hnn.
    assert (Hge : forall x, In x live -> 0 <= g_end x).
    { intros x Hx. specialize (Hnn x Hx). specialize (Hpos x Hx). unfold g_end. lia. }
    apply gscan_nonneg; auto; try lia.
    apply round_up_nonneg; auto. apply current_top_nonneg; exact Hge.
Qed.

(* ---------- the whole run ---------- *)
Definition pair_ok (p q : lr * Z) : Prop :=
  time_overlap (fst p) (fst q) -> disjoint (snd p) (lr_size (fst p)) (snd q) (lr_size (fst q)).

Lemma greedy_run_spec : forall order allocs mem out m,
  StronglySorted by_start order -> Forall g_wf order ->
  chain allocs -> (forall e, In e allocs -> 0 < lr_size (snd e)) ->
  (forall e, In e allocs -> 0 <= fst e) ->
  (forall e r, In e allocs -> In r order -> lr_start (snd e) <= lr_start r) ->
  greedy_run order allocs mem = (out, m) ->
  map fst out = order /\
  (forall p e, In p out -> In e allocs -> time_overlap (snd e) (fst p) ->
               disjoint (snd p) (lr_size (fst p)) (fst e) (lr_size (snd e))) /\
  ForallOrdPairs pair_ok out /\
  Forall (fun p => (lr_align (fst p) | snd p) /\ 0 <= snd p) out /\
  mem <= m /\ Forall (fun p => snd p + padded (fst p) <= m) out /\
  (m = mem \/ exists p, In p out /\ m = snd p + padded (fst p)).
Proof.
  induction order as [|r rest IH]; intros allocs mem out m Hsort Hwf Hc Hpos Hnn Hst Hrun.
  - cbn in Hrun. inversion Hrun; subst.
    split; [reflexivity|]. split; [intros p e []|]. split; [constructor|]. split; [constructor|].
    split; [lia|]. split; [constructor|]. left; reflexivity.
  - cbn [greedy_run] in Hrun.
    set (live := filter (fun x => negb (lr_end (snd x) <? lr_start r)) allocs) in *.
    destruct (galloc_step live mem r) as [[allocs' mem'] a] eqn:Estep.
    destruct (greedy_run rest allocs' mem') as [out' m'] eqn:Erun.
    inversion Hrun; subst; clear Hrun.
    inversion Hsort as [|? ? Hsort' Hall]; subst. rewrite Forall_forall in Hall.
    inversion Hwf as [|? ? Hr Hwf']; subst.
    assert (Hlive_in : forall e, In e live -> In e allocs) by (intros e He; apply filter_In in He; tauto).
    assert (Hclive : chain live) by (apply StronglySorted_filter; exact Hc).
    destruct (galloc_step_spec live mem r allocs' mem' a Hr Hclive
                (fun e He => Hpos e (Hlive_in e He)) Estep) as (Hdis & Hc' & Hin' & Hdiv & Hmem & Hann).
    assert (Ha0 : 0 <= a) by (apply Hann; intros e He; apply Hnn, Hlive_in, He).
    specialize (IH allocs' mem' out' m Hsort' Hwf' Hc').
    destruct IH as (Hmap & HA & HB & HC & HD1 & HD2 & HD3); auto.
    { intros e He. apply Hin' in He. destruct He as [->|He]; [apply Hr | apply Hpos, Hlive_in, He]. }
    { intros e He. apply Hin' in He. destruct He as [->|He]; [exact Ha0 | apply Hnn, Hlive_in, He]. }
    { intros e r' He Hr'. apply Hin' in He. destruct He as [->|He].
      - cbn [snd]. apply Hall; exact Hr'.
      - apply Hst; [apply Hlive_in, He | right; exact Hr']. }
    assert (Halive : forall e r', In e allocs -> (r' = r \/ In r' rest) -> time_overlap (snd e) r' -> In e live).
    { intros e r' He Hr' Hov. apply filter_In. split; [exact He|].
      apply negb_true_iff. apply Z.ltb_ge.
      assert (lr_start r <= lr_start r') by (destruct Hr' as [->|Hr']; [lia | apply Hall; exact Hr']).
      unfold time_overlap in Hov. lia. }
    split; [|split; [|split; [|split; [|split; [|split]]]]].
    + cbn [map fst]. rewrite Hmap. reflexivity.
    + intros p e [<-|Hp] He Hov; cbn [fst snd] in *.
      * apply Hdis. apply (Halive e r He (or_introl eq_refl) Hov).
      * apply HA; [exact Hp| |exact Hov]. apply Hin'. right.
        apply (Halive e (fst p) He); [|exact Hov]. right.
        rewrite <- Hmap. apply in_map; exact Hp.
    + constructor; [|exact HB]. rewrite Forall_forall. intros p Hp Hov. cbn [fst snd] in *.
      apply disjoint_sym. apply (HA p (a, r) Hp); [apply Hin'; left; reflexivity|exact Hov].
    + constructor; [cbn [fst snd]; split; [exact Hdiv | exact Ha0] | exact HC].
    + lia.
    + constructor; [cbn [fst snd]; lia | exact HD2].
    + destruct HD3 as [HD3|[p [Hp HD3]]].
      * destruct (Z.max_spec mem (a + padded r)) as [[_ E]|[_ E]].
        -- right. exists (r, a). split; [left; reflexivity | cbn [fst snd]; lia].
        -- left. lia.
      * right. exists p. split; [right; exact Hp | exact HD3].
Qed.

Lemma greedy_run_any_order : forall order out m,
  StronglySorted by_start order -> Forall g_wf order ->
  greedy_run order [] 0 = (out, m) ->
  map fst out = order /\ ForallOrdPairs pair_ok out /\
  Forall (fun p => (lr_align (fst p) | snd p) /\ 0 <= snd p) out /\
  Forall (fun p => snd p + padded (fst p) <= m) out /\
  (m = 0 \/ exists p, In p out /\ m = snd p + padded (fst p)).
Proof.
  intros order out m Hs Hwf Hrun.
  destruct (greedy_run_spec order [] 0 out m Hs Hwf) as (H1 & _ & H3 & H4 & _ & H6 & H7); auto.
  - constructor.
  - intros e [].
  - intros e [].
  - intros e r [].
Qed.

(* Theorem statements (re-exported by props/C05.v) *)
Lemma greedy_run_no_overlap_lemma : forall order out m i j r1 a1 r2 a2,
  StronglySorted by_start order -> Forall g_wf order ->
  greedy_run order [] 0 = (out, m) ->
  i <> j -> nth_error out i = Some (r1, a1) -> nth_error out j = Some (r2, a2) ->
  time_overlap r1 r2 -> disjoint a1 (lr_size r1) a2 (lr_size r2).
Proof.
  intros order out m i j r1 a1 r2 a2 Hs Hwf Hrun Hij Hi Hj Hov.
  destruct (greedy_run_any_order order out m Hs Hwf Hrun) as (_ & Hfop & _).
  destruct (Nat.lt_total i j) as [Hlt|[Heq|Hgt]]; [|contradiction|].
  - apply (ForallOrdPairs_nth _ _ _ Hfop i j (r1, a1) (r2, a2) Hlt Hi Hj Hov).
  - apply disjoint_sym.
    apply (ForallOrdPairs_nth _ _ _ Hfop j i (r2, a2) (r1, a1) Hgt Hj Hi). apply time_overlap_sym, Hov.
Qed.

Lemma Forall_perm_wf : forall lrs, Forall g_wf lrs -> Forall g_wf (greedy_order lrs).
Proof.
  intros lrs H. rewrite Forall_forall in *. intros r Hr. apply H.
  apply (Permutation_in _ (Permutation_sym (greedy_order_perm lrs))). exact Hr.
Qed.

Lemma greedy_no_overlap_lemma : forall lrs out m,
  Forall g_wf lrs -> greedy lrs = (out, m) ->
  Permutation (map fst out) lrs /\
  forall i j r1 a1 r2 a2,
    i <> j -> nth_error out i = Some (r1, a1) -> nth_error out j = Some (r2, a2) ->
    time_overlap r1 r2 -> disjoint a1 (lr_size r1) a2 (lr_size r2).
Proof.
  intros lrs out m Hwf Hg. unfold greedy in Hg. split.
  - destruct (greedy_run_any_order _ out m (greedy_order_sorted lrs) (Forall_perm_wf lrs Hwf) Hg) as (Hmap & _).
    rewrite Hmap. apply Permutation_sym, greedy_order_perm.
  - intros. eapply greedy_run_no_overlap_lemma; eauto using greedy_order_sorted, Forall_perm_wf.
Qed.

Lemma greedy_aligned_lemma : forall lrs out m r a,
  Forall g_wf lrs -> greedy lrs = (out, m) -> In (r, a) out -> (lr_align r | a) /\ 0 <= a.
Proof.
  intros lrs out m r a Hwf Hg Hin. unfold greedy in Hg.
  destruct (greedy_run_any_order _ out m (greedy_order_sorted lrs) (Forall_perm_wf lrs Hwf) Hg) as (_ & _ & Hal & _).
  rewrite Forall_forall in Hal. apply (Hal (r, a) Hin).
Qed.

(* memory_required is an upper bound of every (alignment padded, hence also plain) end address and
   is the padded end of some buffer; it exceeds the highest plain end by less than one alignment unit *)
Lemma greedy_total_is_extent_lemma : forall lrs out m,
  Forall g_wf lrs -> greedy lrs = (out, m) ->
  (forall r a, In (r, a) out -> a + lr_size r <= a + padded r <= m) /\
  (lrs <> [] -> exists r a, In (r, a) out /\ m = a + padded r /\ m < a + lr_size r + lr_align r) /\
  (lrs = [] -> m = 0).
Proof.
  intros lrs out m Hwf Hg. unfold greedy in Hg.
  pose proof (Forall_perm_wf lrs Hwf) as Hwf'.
  destruct (greedy_run_any_order _ out m (greedy_order_sorted lrs) Hwf' Hg) as (Hmap & _ & Hal & Hub & Hatt).
  rewrite Forall_forall in Hub, Hwf', Hal.
  assert (Hin_wf : forall r a, In (r, a) out -> g_wf r).
  { intros r a Hin. apply Hwf'. rewrite <- Hmap. change r with (fst (r, a)). apply in_map; exact Hin. }
  split; [|split].
  - intros r a Hin. specialize (Hub (r, a) Hin). cbn [fst snd] in Hub.
    destruct (Hin_wf r a Hin) as [_ Ha]. pose proof (round_up_ge (lr_size r) (lr_align r) Ha). unfold padded in *. lia.
  - intros Hne.
    assert (Hout : exists q, In q out).
    { destruct out as [|q o]; [|exists q; left; reflexivity].
      cbn in Hmap. destruct lrs as [|x l]; [contradiction|].
      pose proof (Permutation_length (greedy_order_perm (x :: l))) as HL. rewrite <- Hmap in HL. discriminate. }
    assert (Hatt' : exists q, In q out /\ m = snd q + padded (fst q)).
    { destruct Hatt as [Hm0|Hatt]; [|exact Hatt].
      destruct Hout as [[r a] Hin]. exfalso.
      pose proof (Hub (r, a) Hin) as Hu. cbn [fst snd] in Hu.
      destruct (Hin_wf r a Hin) as [Hs Ha].
      destruct (Hal (r, a) Hin) as [_ Ha0]. cbn [snd] in Ha0.
      pose proof (round_up_ge (lr_size r) (lr_align r) Ha). unfold padded in Hu. lia. }
    destruct Hatt' as [[r a] [Hin Hm]]. exists r, a. cbn [fst snd] in Hm.
    destruct (Hin_wf r a Hin) as [_ Ha]. pose proof (round_up_lt (lr_size r) (lr_align r) Ha). unfold padded in *.
    repeat split; auto; lia.
  - intros ->. cbn in Hg. inversion Hg; reflexivity.
Qed.

(* when every size is a multiple of its alignment (Tensor.storage_size() at the default alignment),
   memory_required is exactly the highest end address *)
Lemma greedy_total_exact_lemma : forall lrs out m,
  Forall g_wf lrs -> Forall (fun r => (lr_align r | lr_size r)) lrs -> lrs <> [] -> greedy lrs = (out, m) ->
  (forall r a, In (r, a) out -> a + lr_size r <= m) /\ exists r a, In (r, a) out /\ m = a + lr_size r.
Proof.
  intros lrs out m Hwf Hmul Hne Hg.
  destruct (greedy_total_is_extent_lemma lrs out m Hwf Hg) as (Hub & Hatt & _).
  destruct (greedy_no_overlap_lemma lrs out m Hwf Hg) as (Hperm & _).
  split.
  - intros r a Hin. specialize (Hub r a Hin). lia.
  - destruct (Hatt Hne) as (r & a & Hin & Hm & _). exists r, a. split; [exact Hin|].
    assert (Hr : In r lrs).
    { apply (Permutation_in _ Hperm). change r with (fst (r, a)). apply in_map; exact Hin. }
    rewrite Forall_forall in Hmul, Hwf. destruct (Hwf r Hr) as [_ Ha].
    unfold padded in Hm. rewrite (round_up_multiple _ _ Ha (Hmul r Hr)) in Hm. exact Hm.
Qed.
