(* C04, D2: soundness of the hazard validator hw/Hazard.v.
   (1) cross-queue: acceptance implies that in every reachable state of the queue machine
       (hw/Queues.v) replaying the decoded stream, no kernel operation and DMA operation that are
       unfinished together share a byte that one of them writes (RAW / WAR / WAW on the exact
       footprints of Npu.op_footprint);
   (2) consecutive kernel operations: acceptance implies, for every kernel operation B with
       BLOCKDEP k > 0 whose predecessor A may be unfinished, that for all f, b with f + b < k no
       byte read by job f of B is written by the b-th last block of A (element level, through
       tiles / strides / bricks), B's weight and scale reads avoid A's OFM, and B does not
       overwrite the SHRAM bytes A reads its LUT from. *)
From Coq Require Import ZArith List Bool Lia.
From VV Require Import lib.PyInt gen.GenTables hw.Npu hw.Queues hw.Hazard proofs.NpuProofs proofs.QueuesProofs.
Import ListNotations.
Open Scope Z_scope.

(* ================================================================= (1) cross-queue *)
Definition seg_has (l : list seg) (rg a : Z) : Prop := exists lo hi, In (rg, lo, hi) l /\ lo <= a < hi.

(* some byte is written by one footprint and read or written by the other *)
Definition fp_hazard (x y : footprint) : Prop :=
  exists rg a,
    (seg_has (fp_writes x) rg a /\ seg_has (fp_reads y) rg a) \/
    (seg_has (fp_reads x) rg a /\ seg_has (fp_writes y) rg a) \/
    (seg_has (fp_writes x) rg a /\ seg_has (fp_writes y) rg a).

Lemma fp_hazard_sym x y : fp_hazard x y -> fp_hazard y x.
Proof.
  intros (rg & a & [[H1 H2]|[[H1 H2]|[H1 H2]]]); exists rg, a.
  - right. left. split; assumption.
  - left. split; assumption.
  - right. right. split; assumption.
Qed.

Lemma segs_meet_complete l1 l2 rg a : seg_has l1 rg a -> seg_has l2 rg a -> segs_meet l1 l2 = true.
Proof.
  intros (lo1 & hi1 & Hin1 & H1) (lo2 & hi2 & Hin2 & H2). unfold segs_meet.
  apply existsb_exists. exists (rg, lo1, hi1). split; [exact Hin1|].
  apply existsb_exists. exists (rg, lo2, hi2). split; [exact Hin2|].
  unfold seg_meet. rewrite Z.eqb_refl. cbn [andb]. apply Z.ltb_lt. lia.
Qed.

Lemma fp_conflict_complete x y : fp_hazard x y -> fp_conflict x y = true.
Proof.
  intros (rg & a & [[H1 H2]|[[H1 H2]|[H1 H2]]]); unfold fp_conflict;
    rewrite (segs_meet_complete _ _ rg a H1 H2); rewrite ?orb_true_r; reflexivity.
Qed.

Theorem check_cross_sound c evs :
  check_cross c evs = true ->
  forall h rest,
    qsteps hop h_isdma (hz_max_dma c) (hz_max_kern c) (q_init, hz_prog c evs 0) (h, rest) ->
    forall k d, In k (q_kern h) -> In d (q_dma h) -> ~ fp_hazard (h_fp k) (h_fp d).
Proof.
  unfold check_cross. intros Hc h rest Hsteps k d Hk Hd.
  refine (qcheck_sound hop h_isdma (hz_max_dma c) (hz_max_kern c) hop_conflict
            (fun a b => fp_hazard (h_fp a) (h_fp b)) _ _ _ Hc h rest Hsteps k d Hk Hd).
  - intros a b. apply fp_hazard_sym.
  - intros a b H. apply fp_conflict_complete. exact H.
Qed.

(* the operations of the replayed program are exactly the stream's operations with their footprints *)
Lemma hz_prog_issue c evs i o :
  In (QIssue o) (hz_prog c evs i) ->
  exists code param r, In (EOp code param r) evs /\
    h_fp o = op_footprint (hz_hw c) code param r /\ h_isdma o = (code =? cmd0_NPU_OP_DMA_START).
Proof.
  revert i. induction evs as [|e t IH]; intros i H; [destruct H|].
  destruct e as [code param r|code n|p|code p]; cbn [hz_prog] in H.
  - destruct H as [H|H].
    + injection H as <-. exists code, param, r. split; [now left|]. split; reflexivity.
    + destruct (IH _ H) as (c' & p' & r' & Hin & H1 & H2). exists c', p', r'. split; [now right|]. split; assumption.
  - destruct H as [H|H]; [destruct (code =? cmd0_NPU_OP_KERNEL_WAIT); discriminate|].
    destruct (IH _ H) as (c' & p' & r' & Hin & H1 & H2). exists c', p', r'. split; [now right|]. split; assumption.
  - destruct (IH _ H) as (c' & p' & r' & Hin & H1 & H2). exists c', p', r'. split; [now right|]. split; assumption.
  - destruct (IH _ H) as (c' & p' & r' & Hin & H1 & H2). exists c', p', r'. split; [now right|]. split; assumption.
Qed.

(* ================================================================= (2) geometry *)
Definition in_box (b : box) (y x c : Z) : Prop :=
  b_y0 b <= y < b_y1 b /\ b_x0 b <= x < b_x1 b /\ b_c0 b <= c < b_c1 b.

Definition elem_byte (v : fmview) (y x c a : Z) : Prop :=
  elem_addr v y x c <= a < elem_addr v y x c + fv_elem v.

(* byte a of region rg belongs to an element of box b of view v *)
Definition box_byte (v : fmview) (b : box) (rg a : Z) : Prop :=
  rg = fv_region v /\ exists y x c, in_box b y x c /\ elem_byte v y x c a.

Lemma zrange_in n a z : In z (zrange n a) <-> a <= z < a + Z.of_nat n.
Proof.
  revert a. induction n as [|n IH]; intros a; cbn [zrange].
  - cbn. lia.
  - cbn [In]. rewrite IH. rewrite Nat2Z.inj_succ. lia.
Qed.

Lemma zspan_in lo hi z : In z (zspan lo hi) <-> lo <= z < hi.
Proof. unfold zspan. rewrite zrange_in. lia. Qed.

Lemma box_segs_cover v b y x c :
  0 < fv_elem v -> in_box b y x c ->
  covers (box_segs v b) (elem_addr v y x c) (elem_addr v y x c + fv_elem v).
Proof.
  intros He (Hy & Hx & Hc). unfold box_segs.
  destruct (Z.leb_spec (b_c1 b) (b_c0 b)) as [Hle|_]; [lia|].
  destruct (fv_b16 v) eqn:Hb.
  - set (s := c / 16).
    assert (Hs : 16 * s <= c < 16 * s + 16) by (unfold s; Z.div_mod_to_equations; lia).
    set (ca := Z.max (b_c0 b) (16 * s)). set (cb := Z.min (b_c1 b) (16 * s + 16)).
    exists (elem_addr v y x ca), (elem_addr v y x ca + (cb - ca) * fv_elem v). split.
    + apply in_flat_map. exists y. split; [apply zspan_in; exact Hy|].
      apply in_flat_map. exists s. split.
      * apply zspan_in. unfold s. split.
        -- apply Z.div_le_mono; lia.
        -- assert (c / 16 <= (b_c1 b - 1) / 16) by (apply Z.div_le_mono; lia). lia.
      * apply in_map_iff. exists x. split; [reflexivity | apply zspan_in; exact Hx].
    + assert (Hca : 16 * s <= ca <= c) by (unfold ca; lia).
      assert (Hcb : c + 1 <= cb) by (unfold cb; lia).
      assert (Hdiv : ca / 16 = s) by (Z.div_mod_to_equations; lia).
      assert (Hmod : ca mod 16 = ca - 16 * s) by (Z.div_mod_to_equations; lia).
      assert (Hmodc : c mod 16 = c - 16 * s) by (unfold s; Z.div_mod_to_equations; lia).
      unfold elem_addr. destruct (tile_of v y x) as [[bs ly] lx]. rewrite Hb.
      rewrite Hdiv, Hmod, Hmodc. fold s.
      assert ((c - ca + 1) * fv_elem v <= (cb - ca) * fv_elem v) by (apply Z.mul_le_mono_nonneg_r; lia).
      split; nia.
  - exists (elem_addr v y x (b_c0 b)), (elem_addr v y x (b_c0 b) + (b_c1 b - b_c0 b) * fv_elem v). split.
    + apply in_flat_map. exists y. split; [apply zspan_in; exact Hy|].
      apply in_map_iff. exists x. split; [reflexivity | apply zspan_in; exact Hx].
    + unfold elem_addr. destruct (tile_of v y x) as [[bs ly] lx]. rewrite Hb.
      assert ((c - b_c0 b + 1) * fv_elem v <= (b_c1 b - b_c0 b) * fv_elem v) by (apply Z.mul_le_mono_nonneg_r; lia).
      split; nia.
Qed.

Lemma box_msegs_cover v b y x c :
  0 < fv_elem v -> in_box b y x c ->
  covers (box_msegs v b) (elem_addr v y x c) (elem_addr v y x c + fv_elem v).
Proof. intros He Hin. unfold box_msegs. apply merge_adj_covers. apply box_segs_cover; assumption. Qed.

(* ---- the bounding-interval prefilter *)
Lemma seg_bounds_spec l a b :
  seg_bounds l = Some (a, b) -> forall lo hi, In (lo, hi) l -> a <= lo /\ hi <= b.
Proof.
  revert a b. induction l as [|[lo0 hi0] t IH]; intros a b H lo hi Hin; [destruct Hin|].
  cbn [seg_bounds] in H. destruct (seg_bounds t) as [[a' b']|] eqn:Ht.
  - injection H as <- <-. destruct Hin as [Heq|Hin].
    + injection Heq as <- <-. lia.
    + specialize (IH a' b' eq_refl lo hi Hin). lia.
  - injection H as <- <-. destruct Hin as [Heq|Hin].
    + injection Heq as <- <-. lia.
    + destruct t; [destruct Hin|]. cbn [seg_bounds] in Ht. destruct p. destruct (seg_bounds t) as [[? ?]|]; discriminate.
Qed.

Lemma seg_bounds_some l s : In s l -> exists ab, seg_bounds l = Some ab.
Proof.
  destruct l as [|[lo hi] t]; [intros []|]. intros _. cbn [seg_bounds].
  destruct (seg_bounds t) as [[a b]|]; eexists; reflexivity.
Qed.

Lemma lists_meet_complete l1 l2 s t :
  In s l1 -> In t l2 -> iv_meet s t = true -> lists_meet l1 l2 = true.
Proof.
  intros H1 H2 Hm. unfold lists_meet.
  destruct (seg_bounds_some l1 s H1) as [[a1 b1] E1]. destruct (seg_bounds_some l2 t H2) as [[a2 b2] E2].
  rewrite E1, E2. destruct s as [lo1 hi1], t as [lo2 hi2].
  destruct (seg_bounds_spec _ _ _ E1 _ _ H1). destruct (seg_bounds_spec _ _ _ E2 _ _ H2).
  unfold iv_meet in *. cbn [fst snd] in *. apply Z.ltb_lt in Hm.
  apply andb_true_iff. split; [apply Z.ltb_lt; lia|].
  apply existsb_exists. exists (lo1, hi1). split; [exact H1|]. cbn [fst snd].
  apply andb_true_iff. split; [apply Z.ltb_lt; lia|].
  apply existsb_exists. exists (lo2, hi2). split; [exact H2|]. cbn [fst snd]. apply Z.ltb_lt. lia.
Qed.

Lemma covers_common_meet l1 l2 a1 b1 a2 b2 a :
  covers l1 a1 b1 -> covers l2 a2 b2 -> a1 <= a < b1 -> a2 <= a < b2 -> lists_meet l1 l2 = true.
Proof.
  intros (lo1 & hi1 & Hin1 & H1) (lo2 & hi2 & Hin2 & H2) Ha1 Ha2.
  apply (lists_meet_complete l1 l2 (lo1, hi1) (lo2, hi2) Hin1 Hin2).
  unfold iv_meet. cbn [fst snd]. apply Z.ltb_lt. lia.
Qed.

Lemma box_bytes_meet v1 b1 v2 b2 rg a :
  0 < fv_elem v1 -> 0 < fv_elem v2 -> box_byte v1 b1 rg a -> box_byte v2 b2 rg a ->
  (fv_region v1 =? fv_region v2) && lists_meet (box_msegs v1 b1) (box_msegs v2 b2) = true.
Proof.
  intros He1 He2 (Hr1 & y1 & x1 & c1 & Hin1 & Hb1) (Hr2 & y2 & x2 & c2 & Hin2 & Hb2).
  apply andb_true_iff. split; [apply Z.eqb_eq; congruence|].
  eapply covers_common_meet; [apply box_msegs_cover; eassumption | apply box_msegs_cover; eassumption | exact Hb1 | exact Hb2].
Qed.

(* ================================================================= (2) jobs *)
Definition k_code (A : kop) : Z := fst (fst A).
Definition k_param (A : kop) : Z := snd (fst A).
Definition k_regs (A : kop) : regs := snd A.

(* the b-th last ... i-th block of kernel operation A writes byte a of region rg *)
Definition block_writes (A : kop) (i rg a : Z) : Prop :=
  box_byte (ofm_view (k_regs A)) (ofm_block (k_regs A) i) rg a.

(* job f of kernel operation B reads byte a of region rg *)
Definition job_reads (B : kop) (f rg a : Z) : Prop :=
  let cb := k_code B in let rb := k_regs B in
  let sl := ifm_slices cb rb in
  let ob := ofm_block rb (f / sl) in
  box_byte (ifm_view cb rb) (ifm_box cb rb ob (f mod sl)) rg a \/
  (uses_ifm2 cb (k_param B) rb = true /\ box_byte (ifm2_view rb) (ifm2_box rb ob) rg a).

Definition jobs_separated (A B : kop) (k : Z) : Prop :=
  forall f b, 0 <= f -> 0 <= b -> f + b < k -> f < njobs (k_code B) (k_regs B) -> b < nblocks (k_regs A) ->
  forall rg a, job_reads B f rg a -> block_writes A (nblocks (k_regs A) - 1 - b) rg a -> False.

(* byte a of region rg belongs to some element of A's OFM *)
Definition ofm_byte (A : kop) (rg a : Z) : Prop :=
  let v := ofm_view (k_regs A) in
  rg = fv_region v /\ exists y x c, 0 <= y < fv_h v /\ 0 <= x < fv_w v /\ 0 <= c < fv_d v /\ elem_byte v y x c a.

Definition ops_separated (hw : hwcfg) (A B : kop) : Prop :=
  (forall rg a, seg_has (wt_reads hw (k_code B) (k_regs B)) rg a -> ofm_byte A rg a -> False) /\
  (forall rg a, seg_has (lut_reads hw (k_code A) (k_regs A)) rg a -> seg_has (shram_writes hw (k_regs B)) rg a -> False).

Definition blockdep_safe (hw : hwcfg) (A B : kop) : Prop :=
  blockdep_of B <= 0 \/ (jobs_separated A B (blockdep_of B) /\ ops_separated hw A B).

Lemma ifm_view_elem_pos code r : 0 < fv_elem (ifm_view code r).
Proof. unfold ifm_view. destruct (ifm_dims code r). cbn [fv_elem]. apply prec_elem_ifm_pos. Qed.
Lemma ifm2_view_elem_pos r : 0 < fv_elem (ifm2_view r).
Proof. apply prec_elem_ifm_pos. Qed.
Lemma ofm_view_elem_pos r : 0 < fv_elem (ofm_view r).
Proof. apply prec_elem_ofm_pos. Qed.

Lemma job_clash_sound A B f b :
  job_clash A B f b = false ->
  f < njobs (k_code B) (k_regs B) -> b < nblocks (k_regs A) ->
  forall rg a, job_reads B f rg a -> block_writes A (nblocks (k_regs A) - 1 - b) rg a -> False.
Proof.
  destruct A as [[ca pa] ra]. destruct B as [[cb pb] rb].
  unfold job_clash, job_reads, block_writes, k_code, k_param, k_regs. cbn [fst snd].
  intros Hc Hf Hb rg a Hr Hw.
  apply Z.ltb_lt in Hf, Hb. rewrite Hf, Hb in Hc. cbn [andb] in Hc.
  apply orb_false_iff in Hc as [Hc1 Hc2].
  destruct Hr as [Hr|[Hu Hr]].
  - pose proof (box_bytes_meet _ _ _ _ rg a (ifm_view_elem_pos cb rb) (ofm_view_elem_pos ra) Hr Hw) as Hm.
    rewrite Hm in Hc1. discriminate.
  - pose proof (box_bytes_meet _ _ _ _ rg a (ifm2_view_elem_pos rb) (ofm_view_elem_pos ra) Hr Hw) as Hm.
    rewrite Hu in Hc2. cbn [andb] in Hc2. rewrite Hm in Hc2. discriminate.
Qed.

Lemma upto_in n z : In z (upto n) <-> 0 <= z < Z.of_nat n.
Proof.
  induction n as [|n IH]; cbn [upto].
  - cbn. lia.
  - rewrite in_app_iff, IH. cbn [In]. rewrite Nat2Z.inj_succ. lia.
Qed.

Lemma jobs_ok_sound A B k : jobs_ok A B k = true -> jobs_separated A B k.
Proof.
  unfold jobs_ok, jobs_separated. intros H f b Hf Hb Hfb Hnj Hnb rg a Hr Hw.
  rewrite forallb_forall in H.
  assert (Hinf : In f (upto (Z.to_nat k))) by (apply upto_in; lia).
  specialize (H f Hinf). rewrite forallb_forall in H.
  assert (Hinb : In b (upto (Z.to_nat (k - f)))) by (apply upto_in; lia).
  specialize (H b Hinb). apply negb_true_iff in H.
  exact (job_clash_sound A B f b H Hnj Hnb rg a Hr Hw).
Qed.

Lemma ofm_byte_seg A rg a : ofm_byte A rg a -> seg_has (ofm_writes (k_regs A)) rg a.
Proof.
  unfold ofm_byte, ofm_writes. intros (Hrg & y & x & c & Hy & Hx & Hc & Hb).
  destruct (fm_segs_cover (ofm_view (k_regs A)) y x c (ofm_view_elem_pos _) Hy Hx Hc) as (lo & hi & Hin & Hlo & Hhi).
  exists lo, hi. split.
  - unfold tag_region. apply in_map_iff. exists (lo, hi). split; [cbn [fst snd]; now rewrite Hrg | exact Hin].
  - unfold elem_byte in Hb. lia.
Qed.

Lemma op_clash_sound hw A B : op_clash hw A B = false -> ops_separated hw A B.
Proof.
  destruct A as [[ca pa] ra]. destruct B as [[cb pb] rb].
  unfold op_clash, ops_separated, k_code, k_regs. cbn [fst snd]. intros H.
  apply orb_false_iff in H as [H1 H2]. split.
  - intros rg a Hr Hw. apply (ofm_byte_seg (ca, pa, ra)) in Hw. cbn [k_regs snd] in Hw.
    rewrite (segs_meet_complete _ _ rg a Hr Hw) in H1. discriminate.
  - intros rg a Hr Hw. rewrite (segs_meet_complete _ _ rg a Hr Hw) in H2. discriminate.
Qed.

Lemma blockdep_ok_sound hw A B : blockdep_ok hw A B = true -> blockdep_safe hw A B.
Proof.
  unfold blockdep_ok, blockdep_safe. intros H. apply orb_true_iff in H as [H|H].
  - left. apply Z.leb_le. exact H.
  - right. apply andb_true_iff in H as [H1 H2]. apply negb_true_iff in H1.
    split; [apply jobs_ok_sound; exact H2 | apply op_clash_sound; exact H1].
Qed.

(* ---- the walk over the events *)
Definition is_kernel_wait0 (code n : Z) : bool := (code =? cmd0_NPU_OP_KERNEL_WAIT) && (n <=? 0).

(* an event between A and B that lets A stay "possibly unfinished, directly before B":
   a DMA operation, a wait that is not KERNEL_WAIT 0, or any other non-kernel event *)
Definition quiet (e : event) : Prop :=
  match e with
  | EOp code _ _ => code = cmd0_NPU_OP_DMA_START
  | EWait code n => is_kernel_wait0 code n = false
  | _ => True
  end.

Lemma check_blockdeps_pairs hw evs : forall prev,
  check_blockdeps hw prev evs = true ->
  (forall A mid cb pb rb rest,
     prev = Some A -> evs = mid ++ EOp cb pb rb :: rest -> Forall quiet mid -> cb <> cmd0_NPU_OP_DMA_START ->
     blockdep_safe hw A (cb, pb, rb)) /\
  (forall pre ca pa ra mid cb pb rb rest,
     evs = pre ++ EOp ca pa ra :: mid ++ EOp cb pb rb :: rest ->
     ca <> cmd0_NPU_OP_DMA_START -> cb <> cmd0_NPU_OP_DMA_START -> Forall quiet mid ->
     blockdep_safe hw (ca, pa, ra) (cb, pb, rb)).
Proof.
  induction evs as [|e t IH]; intros prev H.
  - split.
    + intros A mid cb pb rb rest _ E. destruct mid; discriminate.
    + intros pre ca pa ra mid cb pb rb rest E. destruct pre; discriminate.
  - destruct e as [code param r|code n|p|code p]; cbn [check_blockdeps] in H.
    + (* operation *)
      destruct (Z.eqb_spec code cmd0_NPU_OP_DMA_START) as [Hd|Hd].
      * destruct (IH prev H) as [IH1 IH2]. split.
        -- intros A mid cb pb rb rest HA E Hq Hcb. destruct mid as [|m mid'].
           ++ cbn [app] in E. injection E as -> -> -> ->. contradiction.
           ++ cbn [app] in E. injection E as <- E. inversion Hq; subst.
              eapply IH1; [reflexivity | reflexivity | assumption | assumption].
        -- intros pre ca pa ra mid cb pb rb rest E Hca Hcb Hq. destruct pre as [|p0 pre'].
           ++ cbn [app] in E. injection E as -> -> -> _. contradiction.
           ++ cbn [app] in E. injection E as _ E. eapply IH2; eassumption.
      * apply andb_true_iff in H as [Hok H]. destruct (IH (Some (code, param, r)) H) as [IH1 IH2]. split.
        -- intros A mid cb pb rb rest HA E Hq Hcb. destruct mid as [|m mid'].
           ++ cbn [app] in E. injection E as <- <- <- <-. subst prev. apply blockdep_ok_sound. exact Hok.
           ++ cbn [app] in E. injection E as <- E. inversion Hq; subst. cbn [quiet] in *. contradiction.
        -- intros pre ca pa ra mid cb pb rb rest E Hca Hcb Hq. destruct pre as [|p0 pre'].
           ++ cbn [app] in E. injection E as <- <- <- E.
              eapply IH1; [reflexivity | exact E | assumption | assumption].
           ++ cbn [app] in E. injection E as _ E. eapply IH2; eassumption.
    + (* wait *)
      fold (is_kernel_wait0 code n) in H. destruct (is_kernel_wait0 code n) eqn:Hw.
      * destruct (IH None H) as [IH1 IH2]. split.
        -- intros A mid cb pb rb rest HA E Hq Hcb. destruct mid as [|m mid']; [discriminate|].
           cbn [app] in E. injection E as <- E. inversion Hq; subst. cbn [quiet] in *. congruence.
        -- intros pre ca pa ra mid cb pb rb rest E Hca Hcb Hq. destruct pre as [|p0 pre']; [discriminate|].
           cbn [app] in E. injection E as _ E. eapply IH2; eassumption.
      * destruct (IH prev H) as [IH1 IH2]. split.
        -- intros A mid cb pb rb rest HA E Hq Hcb. destruct mid as [|m mid']; [discriminate|].
           cbn [app] in E. injection E as <- E. inversion Hq; subst.
           eapply IH1; [reflexivity | reflexivity | assumption | assumption].
        -- intros pre ca pa ra mid cb pb rb rest E Hca Hcb Hq. destruct pre as [|p0 pre']; [discriminate|].
           cbn [app] in E. injection E as _ E. eapply IH2; eassumption.
    + destruct (IH prev H) as [IH1 IH2]. split.
      * intros A mid cb pb rb rest HA E Hq Hcb. destruct mid as [|m mid']; [discriminate|].
        cbn [app] in E. injection E as <- E. inversion Hq; subst.
        eapply IH1; [reflexivity | reflexivity | assumption | assumption].
      * intros pre ca pa ra mid cb pb rb rest E Hca Hcb Hq. destruct pre as [|p0 pre']; [discriminate|].
        cbn [app] in E. injection E as _ E. eapply IH2; eassumption.
    + destruct (IH prev H) as [IH1 IH2]. split.
      * intros A mid cb pb rb rest HA E Hq Hcb. destruct mid as [|m mid']; [discriminate|].
        cbn [app] in E. injection E as <- E. inversion Hq; subst.
        eapply IH1; [reflexivity | reflexivity | assumption | assumption].
      * intros pre ca pa ra mid cb pb rb rest E Hca Hcb Hq. destruct pre as [|p0 pre']; [discriminate|].
        cbn [app] in E. injection E as _ E. eapply IH2; eassumption.
Qed.

(* ================================================================= the theorem *)
Theorem check_hazards_sound_lemma c evs :
  check_hazards c evs = true ->
  (* (1) DMA <-> kernel, in every reachable state of the queue machine *)
  (forall h rest,
     qsteps hop h_isdma (hz_max_dma c) (hz_max_kern c) (q_init, hz_prog c evs 0) (h, rest) ->
     forall k d, In k (q_kern h) -> In d (q_dma h) -> ~ fp_hazard (h_fp k) (h_fp d)) /\
  (* (2) consecutive kernel operations A ; B with no kernel operation and no KERNEL_WAIT 0 in between *)
  (forall pre ca pa ra mid cb pb rb rest,
     evs = pre ++ EOp ca pa ra :: mid ++ EOp cb pb rb :: rest ->
     ca <> cmd0_NPU_OP_DMA_START -> cb <> cmd0_NPU_OP_DMA_START -> Forall quiet mid ->
     blockdep_safe (hz_hw c) (ca, pa, ra) (cb, pb, rb)).
Proof.
  unfold check_hazards. intros H. apply andb_true_iff in H as [H1 H2]. split.
  - apply check_cross_sound. exact H1.
  - apply (check_blockdeps_pairs (hz_hw c) evs None H2).
Qed.

(* ================================================================= a non-trivial instance *)
(* the stream api.npu_generate_register_command_stream emits for [DMA into the IFM of an average
   pool ; that average pool] on Ethos-U55-64 (test_dma_op of the repository): accepted; the same
   stream without its DMA_WAIT word: rejected *)
Definition ex_words : list Z :=
  [304; 16432; 147456; 131377; 16433; 0; 16434; 26880; 16; 131343; 16384; 0; 16385; 0; 16386; 0; 16387; 0;
   2031883; 2031884; 1900810; 1769732; 16390; 1; 16389; 840; 16388; 28; 8388873; 261; 263; 256; 131329; 259;
   196866; 131359; 16400; 23504; 16401; 0; 16402; 0; 16403; 0; 590107; 590108; 590106; 590098; 590097; 1769747;
   16406; 1; 16405; 280; 16404; 28; 8388888; 276; 65825; 459040; 37749026; 293; 294; 16711975; 196886; 196885;
   983319; 524557; 786733; 292; 303; 17; 65541; 4294901760].

Definition ex_cfg : hzcfg :=
  {| hz_hw := {| hw_ncores := 1; hw_lut_addr := 14336; hw_shram_size := 16384 |}; hz_max_dma := 1; hz_max_kern := 2 |}.

Definition ex_verdict (ws : list Z) : option bool :=
  match run_stream ws with Some evs => Some (check_hazards ex_cfg evs) | None => None end.

Example hazards_example :
  ex_verdict ex_words = Some true /\
  ex_verdict (filter (fun w => negb (w mod 65536 =? 17)) ex_words) = Some false.
Proof. split; vm_compute; reflexivity. Qed.
