(* C10, part 3: rolling buffers between cascaded operators. *)
From Coq Require Import ZArith List Bool Lia.
From VV Require Import lib.PyInt gen.GenArchTables model.Stripe proofs.StripeProofs proofs.StripeTapProofs.
Import ListNotations.
Open Scope Z_scope.

(* ---------- the buffer as a map slot -> row ---------- *)
(* every one of the last hb rows below pe is still in its slot *)
Definition mem_inv (hb : Z) (m : rbmem) (pe : Z) : Prop :=
  forall y, 0 <= y -> pe - hb <= y -> y < pe -> m (y mod hb) = y.

Lemma mod_neq a b hb : 0 < a - b < hb -> a mod hb <> b mod hb.
Proof.
  intros H E.
  assert (Hd : (a - b) mod hb = 0) by (rewrite Zminus_mod, E, Z.sub_diag; apply Z.mod_0_l; lia).
  apply Z.mod_divide in Hd; [|lia]. destruct Hd as [q Hq].
  assert (Hq2 : 0 < q * hb < hb) by lia.
  destruct (Z.le_gt_cases q 0) as [Hq0|Hq0].
  - assert (q * hb <= 0) by (apply Z.mul_nonpos_nonneg; lia). lia.
  - assert (1 * hb <= q * hb) by (apply Z.mul_le_mono_nonneg_r; lia). lia.
Qed.

Lemma mem_inv_write_row hb m pe : 0 < hb -> 0 <= pe -> mem_inv hb m pe -> mem_inv hb (rb_write_row hb m pe) (pe + 1).
Proof.
  intros Hhb Hpe Inv y Hy0 Hlo Hhi. unfold rb_write_row.
  destruct (Z.eq_dec y pe) as [->|Hne].
  - rewrite Z.eqb_refl. reflexivity.
  - destruct (Z.eqb_spec (y mod hb) (pe mod hb)) as [E|E].
    + exfalso. apply (mod_neq pe y hb); [lia|]. symmetry. exact E.
    + apply Inv; lia.
Qed.

Lemma mem_inv_write_rows hb : 0 < hb -> forall n m pe, 0 <= pe -> mem_inv hb m pe ->
  mem_inv hb (rb_write_rows hb m pe n) (pe + Z.of_nat n).
Proof.
  intros Hhb. induction n as [|n IH]; intros m pe Hpe Inv.
  - cbn. rewrite Z.add_0_r. exact Inv.
  - cbn [rb_write_rows]. rewrite Nat2Z.inj_succ.
    replace (pe + Z.succ (Z.of_nat n)) with (pe + 1 + Z.of_nat n) by lia.
    apply IH; [lia|]. apply mem_inv_write_row; assumption.
Qed.

Lemma holds_rows_ok hb m pe : forall n b0, 0 <= b0 -> b0 + Z.of_nat n <= pe -> pe - hb <= b0 ->
  mem_inv hb m pe -> rb_holds_rows hb m b0 n = true.
Proof.
  induction n as [|n IH]; intros b0 H0 Hhi Hlo Inv; [reflexivity|].
  cbn [rb_holds_rows]. rewrite Nat2Z.inj_succ in Hhi.
  unfold rb_holds at 1. rewrite (Inv b0) by lia. rewrite Z.eqb_refl. cbn [andb].
  apply IH; try lia. exact Inv.
Qed.

(* ---------- the interleaving, 1-D instance ---------- *)
Notation ccmd1 := (Z * Z * (Z * Z * Z * Z))%type.
Notation ev1 := (@event ccmd1 (Z * Z)).

Definition pend (p : Z * Z) : option Z := Some (snd p).

(* producer stripes still to come: consecutive from pe up to H, each at most hp rows *)
Fixpoint prod_ok (hp : Z) (ps : list (Z * Z)) (pe H : Z) : Prop :=
  match ps with
  | [] => pe = H
  | (a, b) :: t => a = pe /\ a < b /\ b <= a + hp /\ prod_ok hp t b H
  end.

Lemma prod_ok_le hp ps : forall pe H, prod_ok hp ps pe H -> pe <= H.
Proof.
  induction ps as [|[a b] t IH]; intros pe H P; cbn in P; [lia|].
  destruct P as (-> & ? & ? & P). apply IH in P. lia.
Qed.

(* consumer stripes still to come: boxes inside [0,H), at most hx rows each, ends non-decreasing from lb on *)
Fixpoint cons_ok (hx H lb : Z) (cs : list ccmd1) : Prop :=
  match cs with
  | [] => True
  | c :: t => let '(b0, b1) := req_1d c in
              0 <= b0 /\ b1 <= H /\ b1 - b0 <= hx /\ lb <= b1 /\ cons_ok hx H b1 t
  end.

Lemma run_events_app hb : forall (ps : list (Z * Z)) m evs,
  run_events hb m (map EProd ps ++ evs) =
  run_events hb (fold_left (fun m p => rb_write_rows hb m (fst p) (Z.to_nat (snd p - fst p))) ps m) evs.
Proof.
  induction ps as [|p ps IH]; intros m evs; [reflexivity|].
  cbn [map app run_events fold_left]. apply IH.
Qed.

(* pulling producer stripes until the box [b0,b1) is covered *)
Lemma pull_spec hb hp H b0 b1 : 0 < hb -> 0 <= b0 -> b1 <= H ->
  forall ps pe m, prod_ok hp ps pe H -> 0 <= pe -> pe < b1 -> mem_inv hb m pe ->
  let '(y, rest, pe') := pull pend covers_1d ps pe (b0, b1) in
  prod_ok hp rest pe' H /\ b1 <= pe' /\ pe' <= b1 + hp - 1 /\ 0 <= pe' /\
  mem_inv hb (fold_left (fun m p => rb_write_rows hb m (fst p) (Z.to_nat (snd p - fst p))) y m) pe'.
Proof.
  intros Hhb Hb0 Hb1. induction ps as [|[a b] t IH]; intros pe m P Hpe Hlt Inv.
  - cbn in P. lia.
  - cbn in P. destruct P as (-> & Hab & Hbhp & P).
    cbn [pull pend snd]. unfold covers_1d at 1. cbn [fst snd].
    assert (Inv' : mem_inv hb (rb_write_rows hb m pe (Z.to_nat (b - pe))) b).
    { replace b with (pe + Z.of_nat (Z.to_nat (b - pe))) at 2 by lia. apply mem_inv_write_rows; assumption. }
    destruct (Z.leb_spec 0 b0); [|lia]. cbn [andb].
    destruct (Z.leb_spec b1 b).
    + cbn [fold_left fst snd]. repeat split; try assumption; lia.
    + specialize (IH b (rb_write_rows hb m pe (Z.to_nat (b - pe))) P ltac:(lia) ltac:(lia) Inv').
      destruct (pull pend covers_1d t b (b0, b1)) as [[y rest] pe'].
      cbn [fold_left fst snd]. exact IH.
Qed.

Lemma run_interleave_ok hb hp hx H : 0 < hb -> 0 < hp -> hp + hx - 1 <= hb ->
  forall cs ps pe m lb, prod_ok hp ps pe H -> 0 <= pe -> mem_inv hb m pe ->
    (pe = 0 \/ pe <= lb + hp - 1) -> cons_ok hx H lb cs ->
    run_events hb m (interleave req_1d pend covers_1d cs ps pe) = true.
Proof.
  intros Hhb Hhp Hsz. induction cs as [|c cs IH]; intros ps pe m lb P Hpe Inv Hbd C; [reflexivity|].
  cbn [cons_ok] in C. cbn [interleave].
  destruct (req_1d c) as [b0 b1] eqn:Er. destruct C as (C0 & C1 & C2 & C3 & C4).
  unfold covers_1d at 1. cbn [fst snd].
  destruct (Z.leb_spec 0 b0); [|lia]. cbn [andb].
  destruct (Z.leb_spec b1 pe) as [Hcov|Hnot].
  - (* everything needed is already there *)
    cbn [run_events]. rewrite Er.
    assert (Hrows : rb_holds_rows hb m b0 (Z.to_nat (b1 - b0)) = true).
    { destruct (Z.le_gt_cases b1 b0).
      - replace (Z.to_nat (b1 - b0)) with 0%nat by lia. reflexivity.
      - apply (holds_rows_ok hb m pe); try assumption; try (destruct Hbd; lia). }
    rewrite Hrows. cbn [andb]. apply (IH ps pe m b1); try assumption. destruct Hbd; [left; assumption | right; lia].
  - pose proof (pull_spec hb hp H b0 b1 Hhb C0 C1 ps pe m P Hpe Hnot Inv) as PS.
    destruct (pull pend covers_1d ps pe (b0, b1)) as [[y rest] pe'].
    destruct PS as (P' & Hge & Hle & Hpe' & Inv').
    rewrite run_events_app. cbn [run_events]. rewrite Er.
    match goal with |- rb_holds_rows hb ?mm b0 _ && _ = true => assert (Hrows : rb_holds_rows hb mm b0 (Z.to_nat (b1 - b0)) = true) end.
    { destruct (Z.le_gt_cases b1 b0).
      - replace (Z.to_nat (b1 - b0)) with 0%nat by lia. reflexivity.
      - apply (holds_rows_ok hb _ pe'); try assumption; try lia. }
    rewrite Hrows. cbn [andb]. apply (IH rest pe' _ b1); try assumption. right. lia.
Qed.

(* ---------- the concrete cascade ---------- *)
Lemma chain_prod_ok hp b : 0 < hp -> forall n a, a <= b -> Z.of_nat n = (b - a + hp - 1) / hp ->
  prod_ok hp (map (fun s => (s, Z.min (s + hp) b)) (range_from n a hp)) a b.
Proof.
  intros Hs. induction n as [|n IH]; intros a Hab Hn.
  - cbn. pose proof (Z.div_mod (b - a + hp - 1) hp ltac:(lia)).
    pose proof (Z.mod_pos_bound (b - a + hp - 1) hp Hs). change (Z.of_nat 0) with 0 in Hn. nia.
  - cbn [range_from map prod_ok].
    pose proof (Z.div_mod (b - a + hp - 1) hp ltac:(lia)) as Hdm.
    pose proof (Z.mod_pos_bound (b - a + hp - 1) hp Hs) as Hmb.
    rewrite Nat2Z.inj_succ in Hn.
    assert (a < b) by nia.
    split; [reflexivity|]. split; [lia|]. split; [lia|].
    destruct (Z.le_gt_cases b (a + hp)) as [Hge|Hlt].
    + rewrite Z.min_r by lia.
      assert (n = 0%nat) by (assert ((b - a + hp - 1) / hp < 2) by (apply Z.div_lt_upper_bound; lia); lia).
      subst n. cbn. reflexivity.
    + rewrite Z.min_l by lia. apply IH; [lia|].
      replace (b - (a + hp) + hp - 1) with ((b - a + hp - 1) + (-1) * hp) by lia.
      rewrite Z.div_add by lia. lia.
Qed.

Lemma stripes_prod_ok H hp : 0 < hp -> 0 <= H -> prod_ok hp (stripes_1d 0 H hp) 0 H.
Proof.
  intros Hs HH. unfold stripes_1d, py_range, range_len.
  destruct (Z.gtb_spec hp 0); [|lia].
  apply chain_prod_ok; try assumption.
  rewrite Z2Nat.id; [|apply Z.le_max_l].
  rewrite Z.max_r; [reflexivity|]. apply Z.div_pos; lia.
Qed.

(* the IFM box of the consumer stripe [st,en) *)
Definition box_of (g : geom) (st en : Z) : Z * Z :=
  let '(b0, b1, _, _) := stripe_h g 0 st en in (b0, b1).

Lemma box_of_eq g st en : geom_ok g -> 0 <= st -> st < en -> en <= g_out g ->
  box_of g st en = (Z.max (st * g_s g - g_top g) 0,
                    Z.max (Z.min (en * g_s g + (needed_total_padding (g_in g) (g_s g) (g_kd g) - g_top g)) (g_in g)) 1).
Proof.
  intros (Hs & Hd & Hk & HH & Ho1 & HoH & Htop & Hskt & Hskb & Hbot) H0 H1 H2.
  unfold box_of, stripe_h. rewrite tf_height_up1, Hskt, Hskb, !Z.sub_0_r.
  rewrite (Z.min_l en (g_in g)) by lia.
  destruct ((st =? 0) && (0 + g_out g <=? en)); reflexivity.
Qed.

Lemma cons_cmds_ok g hc hx : geom_ok g ->
  (forall st en, 0 <= st -> st < en -> en <= g_out g -> en - st <= hc -> snd (box_of g st en) - fst (box_of g st en) <= hx) ->
  forall l lo, chain l lo (g_out g) -> 0 <= lo -> (forall ab, In ab l -> snd ab - fst ab <= hc) ->
  cons_ok hx (g_in g)
    (Z.max (Z.min (lo * g_s g + (needed_total_padding (g_in g) (g_s g) (g_kd g) - g_top g)) (g_in g)) 1)
    (map (fun se => (fst se, snd se, stripe_h g 0 (fst se) (snd se))) l).
Proof.
  intros G Hbox. pose proof G as (Hs & Hd & Hk & HH & Ho1 & HoH & Htop & Hskt & Hskb & Hbot).
  induction l as [|[a b] t IH]; intros lo C Hlo Hlen; [exact I|].
  cbn in C. destruct C as (-> & Hab & C).
  pose proof (chain_le _ _ _ C) as Hb.
  cbn [map cons_ok fst snd]. unfold req_1d.
  pose proof (box_of_eq g lo b G Hlo Hab Hb) as Eb. unfold box_of in Eb.
  specialize (Hbox lo b Hlo Hab Hb (Hlen (lo, b) (or_introl eq_refl))). unfold box_of in Hbox.
  destruct (stripe_h g 0 lo b) as [[[b0 b1] pt] pb]. injection Eb as -> ->. cbn [fst snd] in Hbox.
  assert (lo * g_s g <= b * g_s g) by (apply mul_mono_r; lia).
  repeat split; try lia.
  apply IH; try assumption; [lia|]. intros ab Hin. apply Hlen. right. exact Hin.
Qed.

Lemma stripes_len a b step : 0 < step -> forall ab, In ab (stripes_1d a b step) -> snd ab - fst ab <= step.
Proof.
  intros Hs ab Hin. unfold stripes_1d in Hin. apply in_map_iff in Hin. destruct Hin as (s & <- & _). cbn. lia.
Qed.

(* rows by which the widest box the code may ask for exceeds stripe_input.height, the height the scheduler sized the
   buffer for: the box spans stripe*stride + ypad rows, the scheduler counts (stripe-1)*stride + k_dilated *)
Definition box_excess (g : geom) : Z :=
  g_s g + needed_total_padding (g_in g) (g_s g) (g_kd g) - g_kd g.

Lemma box_height_bound g hc st en : geom_ok g -> 1 <= hc -> 0 <= st -> st < en -> en <= g_out g -> en - st <= hc ->
  snd (box_of g st en) - fst (box_of g st en) <= stripe_input_h g hc + box_excess g.
Proof.
  intros G Hhc H0 H1 H2 H3. rewrite (box_of_eq g st en G H0 H1 H2). cbn [fst snd].
  destruct G as (Hs & Hd & Hk & HH & Ho1 & HoH & Htop & Hskt & Hskb & Hbot).
  unfold stripe_input_h, box_excess. rewrite required_size_1.
  destruct (needed_total_padding_ge (g_in g) (g_s g) (g_kd g) ltac:(lia)) as [Hyp Hyp0].
  assert (1 <= g_kd g) by (unfold g_kd; nia).
  assert (en * g_s g - st * g_s g <= hc * g_s g) by (rewrite <- Z.mul_sub_distr_r; apply mul_mono_r; lia).
  assert (hc * g_s g = (hc - 1) * g_s g + g_s g) by ring.
  assert (0 <= (hc - 1) * g_s g) by (apply Z.mul_nonneg_nonneg; lia).
  lia.
Qed.

Lemma box_rows_bound g hc st en : geom_ok g -> 1 <= hc -> 0 <= st -> st < en -> en <= g_out g -> en - st <= hc ->
  snd (box_of g st en) - fst (box_of g st en) <= stripe_ifm_rows g hc.
Proof.
  intros G Hhc H0 H1 H2 H3. rewrite (box_of_eq g st en G H0 H1 H2). cbn [fst snd].
  destruct G as (Hs & Hd & Hk & HH & Ho1 & HoH & Htop & Hskt & Hskb & Hbot).
  unfold stripe_ifm_rows, stripe_input_h. rewrite required_size_1, Hskt, Hskb.
  destruct (needed_total_padding_ge (g_in g) (g_s g) (g_kd g) ltac:(lia)) as [Hyp Hyp0].
  assert (1 <= g_kd g) by (unfold g_kd; nia).
  assert (en * g_s g - st * g_s g <= hc * g_s g) by (rewrite <- Z.mul_sub_distr_r; apply mul_mono_r; lia).
  assert (0 <= (hc - 1) * g_s g) by (apply Z.mul_nonneg_nonneg; lia).
  lia.
Qed.

(* Rolling buffers are tall enough (cascade_builder as repaired: the buffer is sized for the IFM box of a consumer stripe,
   stripe_ifm_rows, not only for the rows its kernel reads): for every geometry, consumer stripe height and producer stripe
   height, every row of every consumer stripe's IFM box is still in the buffer when the stripe runs *)
Lemma rolling_buffer_sufficient_lemma g hc hp :
  geom_ok g -> 1 <= hc -> 1 <= hp ->
  run_events (buffer_h g hc hp) rb_empty (cascade_events g hc hp) = true.
Proof.
  intros G Hhc Hhp. pose proof G as (Hs & Hd & Hk & HH & Ho1 & HoH & Htop & Hskt & Hskb & Hbot).
  assert (Hin : 1 <= stripe_input_h g hc).
  { unfold stripe_input_h. rewrite required_size_1. assert (1 <= g_kd g) by (unfold g_kd; nia).
    assert (0 <= (hc - 1) * g_s g) by (apply Z.mul_nonneg_nonneg; lia). lia. }
  assert (Hrows : stripe_input_h g hc <= stripe_ifm_rows g hc) by (unfold stripe_ifm_rows; lia).
  assert (Hb : hp + stripe_ifm_rows g hc - 1 <= buffer_h g hc hp).
  { unfold buffer_h, rolling_buffer_shape. apply Z.le_max_r. }
  unfold cascade_events.
  apply (run_interleave_ok (buffer_h g hc hp) hp (stripe_ifm_rows g hc) (g_in g)
           ltac:(lia) ltac:(lia) ltac:(lia) _ _ 0 rb_empty
           (Z.max (Z.min (0 * g_s g + (needed_total_padding (g_in g) (g_s g) (g_kd g) - g_top g)) (g_in g)) 1)).
  - apply stripes_prod_ok; lia.
  - lia.
  - intros y Hy0 Hlo Hhi. lia.
  - left. reflexivity.
  - unfold cons_cmds_1d. apply (cons_cmds_ok g hc); try assumption; try lia.
    + intros st en H0 H1 H2 H3. apply box_rows_bound; assumption.
    + apply stripes_1d_chain; lia.
    + apply stripes_len. lia.
Qed.

(* ---------- the instance that refuted the old sizing (defect P10, repaired) ---------- *)
(* 3x3 stride-3 SAME convolution on 10 rows, consumer stripes of 1 row, producer stripes of 3 rows.  The old
   rolling_buffer_shape sized the buffer from stripe_input.height = 3 alone: 6 rows; the transform asks for rows [2,7) for
   consumer stripe 1 (5 rows, box excess 2), the producer is driven to row 9 and row 2 -- tapped by output row 1, ky = 0 --
   was overwritten by row 8.  Sized for the box (5 rows) the buffer has 7 rows and every row survives. *)
Definition p10_geom : geom :=
  {| g_in := 10; g_out := 4; g_k := 3; g_d := 1; g_s := 3; g_top := 1; g_bottom := 1; g_sk_t := 1; g_sk_b := 1 |}.

Example p10_repaired_example :
  calc_padding_and_skirt PAD_SAME 3 3 3 3 10 10 {| p_top := 0; p_left := 0; p_bottom := 0; p_right := 0 |}
  = Some ({| p_top := 1; p_left := 1; p_bottom := 1; p_right := 1 |}, {| p_top := 1; p_left := 1; p_bottom := 1; p_right := 1 |})
  /\ geom_ok p10_geom /\ stripe_input_h p10_geom 1 = 3 /\ stripe_ifm_rows p10_geom 1 = 5 /\ box_excess p10_geom = 2 /\
  buffer_h p10_geom 1 3 = 7 /\
  run_events 7 rb_empty (cascade_events p10_geom 1 3) = true /\
  (* the old height round_up (3 + 3) 3 = 6 *)
  run_events 6 rb_empty (cascade_events p10_geom 1 3) = false /\
  tapped_row_lost 6 (fold_left (fun m p => rb_write_rows 6 m (fst p) (Z.to_nat (snd p - fst p))) [(0, 3); (3, 6); (6, 9)] rb_empty)
    p10_geom (1, 2, (2, 7, 0, 0)) 1 0 = true.
Proof.
  split; [vm_compute; reflexivity|]. split.
  - unfold geom_ok, p10_geom, g_kd. cbn. repeat split; try lia; vm_compute; reflexivity.
  - vm_compute. repeat split; reflexivity.
Qed.

(* the hypotheses of rolling_buffer_sufficient_lemma are satisfiable: 5x5 stride-2 SAME convolution on 23 rows,
   consumer stripes of 2 rows, producer stripes of 4 rows; 12 OFM rows, rolling buffer of 14 rows *)
Example rolling_buffer_sufficient_example :
  exists g pad skirt,
    calc_padding_and_skirt PAD_SAME 5 5 2 2 23 23 {| p_top := 0; p_left := 0; p_bottom := 0; p_right := 0 |} = Some (pad, skirt) /\
    g = geom_of 23 12 5 1 2 pad skirt /\ geom_ok g /\
    buffer_h g 2 4 = 14 /\ List.length (cascade_events g 2 4) = 12%nat /\
    run_events (buffer_h g 2 4) rb_empty (cascade_events g 2 4) = true.
Proof.
  eexists _, _, _. split; [vm_compute; reflexivity|]. split; [reflexivity|].
  assert (G := same_geom_ok 23 12 5 1 2 _ _ 5 2 23 {| p_top := 0; p_left := 0; p_bottom := 0; p_right := 0 |}
                 ltac:(lia) ltac:(lia) ltac:(lia) ltac:(lia) ltac:(reflexivity) ltac:(vm_compute; reflexivity)).
  destruct G as [G _]. split; [exact G|].
  split; [vm_compute; reflexivity|]. split; [vm_compute; reflexivity|].
  apply rolling_buffer_sufficient_lemma; [exact G | lia | lia].
Qed.

(* ---------- the two-tile address map of a rolling buffer ---------- *)
Lemma afc_row fmt base storage strides ssz co co' a a' :
  address_for_coordinate fmt base storage strides None ssz co = Some a ->
  address_for_coordinate fmt base storage strides None ssz co' = Some a' ->
  cn co = cn co' -> cw co = cw co' -> cc co = cc co' ->
  a' - a = (ch co' mod ch storage - ch co mod ch storage) * nthz strides 2.
Proof.
  unfold address_for_coordinate. cbn [negb].
  destruct ((cn storage =? 0) || (ch storage =? 0) || (cw storage =? 0) || (cc storage =? 0)); [discriminate|].
  intros H1 H2 En Ew Ec. rewrite <- En, <- Ew, <- Ec in H2.
  destruct (fmt =? FMT_NHCWB16).
  - match type of H1 with (if ?c then _ else _) = _ => destruct c; [|discriminate] end.
    match type of H2 with (if ?c then _ else _) = _ => destruct c; [|discriminate] end.
    injection H1 as <-. injection H2 as <-. ring.
  - match type of H1 with (if ?c then _ else _) = _ => destruct c; [|discriminate] end.
    match type of H2 with (if ?c then _ else _) = _ => destruct c; [|discriminate] end.
    injection H1 as <-. injection H2 as <-. ring.
Qed.

Lemma round_up_next y hb : 0 < hb -> 0 <= y ->
  round_up (y + 1) hb = (y / hb + 1) * hb.
Proof.
  intros Hhb Hy. unfold round_up.
  pose proof (Z.div_mod y hb ltac:(lia)) as Hdm. pose proof (Z.mod_pos_bound y hb Hhb) as Hmb.
  replace (y + 1 + hb - 1) with (y mod hb + (y / hb + 1) * hb) by lia.
  rewrite Z.div_add by lia. rewrite Z.div_small by lia. lia.
Qed.

(* For a box of at most buffer-height rows, the (height_0, address 0, address 2) that addresses_for_rolling_buffer hands
   to the hardware put local row t of the box at row_base + ((y0 + t) mod buffer_height) * stride_y, where row_base is the
   address of slot 0 for the box's batch/column/channel origin: row y of the tensor always lives in slot y mod
   buffer_height, for the producer's OFM boxes and for the consumer's IFM boxes alike *)
Lemma rolling_tile_addresses_lemma fmt base storage strides ssz s e h0 h1 w0 a0 a1 a2 a3 :
  rolling_addresses fmt base storage strides None ssz s e = RbOk h0 h1 w0 [a0; a1; a2; a3] ->
  0 < ch storage -> 0 <= ch s -> ch s < ch e -> ch e - ch s <= ch storage ->
  forall t, 0 <= t < ch e - ch s ->
    tile_row_addr h0 a0 a2 (nthz strides 2) t
    = a0 - (ch s mod ch storage) * nthz strides 2 + ((ch s + t) mod ch storage) * nthz strides 2.
Proof.
  intros HR Hhb Hy0 Hne Hfit t Ht. unfold rolling_addresses in HR. cbv zeta in HR.
  set (hb := ch storage) in *. set (sy := nthz strides 2) in *.
  destruct (address_for_coordinate fmt base storage strides None ssz s) as [a0'|] eqn:E0; [|discriminate].
  pose proof (round_up_next (ch s) hb Hhb Hy0) as Hru.
  pose proof (Z.div_mod (ch s) hb ltac:(lia)) as Hdm. pose proof (Z.mod_pos_bound (ch s) hb Hhb) as Hmb.
  assert (Hq : 0 <= ch s / hb) by (apply Z.div_pos; lia).
  set (q := ch s / hb) in *. set (m := ch s mod hb) in *.
  (* (y0 + t) mod hb in the two laps *)
  assert (Lap1 : ch s + t < (q + 1) * hb -> (ch s + t) mod hb = m + t).
  { intros Hlt. symmetry. apply (Z.mod_unique_pos _ _ q). lia. lia. }
  assert (Lap2 : (q + 1) * hb <= ch s + t -> (ch s + t) mod hb = ch s + t - (q + 1) * hb).
  { intros Hge. symmetry. apply (Z.mod_unique_pos _ _ (q + 1)). lia. lia. }
  destruct (Z.min (round_up (cw s + 1) (cw storage)) (cw e) <? cw e).
  { match type of HR with match ?x with _ => _ end = _ => destruct x; discriminate end. }
  rewrite Hru in HR. fold q in HR.
  destruct (Z.ltb_spec (Z.min ((q + 1) * hb) (ch e)) (ch e)) as [Hcross|Hno].
  - destruct (address_for_coordinate fmt base storage strides None ssz
                {| cn := cn s; ch := Z.min ((q + 1) * hb) (ch e); cw := cw s; cc := cc s |}) as [a2'|] eqn:E2; [|discriminate].
    injection HR as <- _ _ <- _ <- _.
    pose proof (afc_row _ _ _ _ _ _ _ _ _ E0 E2 eq_refl eq_refl eq_refl) as Hrow. cbn [ch] in Hrow. fold hb sy m in Hrow.
    assert (Hlt : (q + 1) * hb < ch e) by lia.
    rewrite Z.min_l in Hrow by lia. rewrite Z.min_l by lia.
    assert (Hm0 : ((q + 1) * hb) mod hb = 0) by (apply Z.mod_mul; lia). rewrite Hm0 in Hrow.
    unfold tile_row_addr.
    destruct (Z.ltb_spec t ((q + 1) * hb - ch s)).
    + rewrite Lap1 by lia. ring.
    + rewrite Lap2 by lia. replace a2' with (a0' + (0 - m) * sy) by lia. ring.
  - injection HR as <- _ _ <- _ _ _.
    assert (Hle : ch e <= (q + 1) * hb) by lia.
    unfold tile_row_addr. rewrite Z.min_r by lia.
    destruct (Z.ltb_spec t (ch e - ch s)); [|lia].
    rewrite Lap1 by lia. ring.
Qed.

Example rolling_tile_addresses_example :
  rolling_addresses FMT_NHCWB16 4096 {| cn := 1; ch := 6; cw := 8; cc := 16 |} (get_strides FMT_NHCWB16 1 {| cn := 1; ch := 6; cw := 8; cc := 16 |})
    None 768 {| cn := 0; ch := 10; cw := 0; cc := 0 |} {| cn := 1; ch := 15; cw := 8; cc := 16 |}
  = RbOk 2 2 8 [4096 + 4 * 128; 0; 4096; 0].
Proof. vm_compute. reflexivity. Qed.
