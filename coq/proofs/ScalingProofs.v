(* Proofs about scaling.quantise_scale / reduced_quantise_scale (C09, first half):
   tie of the translated source to the integer twins, accuracy, range, degradation,
   equality with the TFLite reference derivation. *)
From Coq Require Import ZArith List Bool Lia.
From VV Require Import lib.PyInt lib.PyFloat gen.GenScaling model.Scaling.
Import ListNotations.
Open Scope Z_scope.

(* ---------- small arithmetic facts ---------- *)
Lemma shiftl_1_pow x : Z.shiftl 1 x = 2 ^ x.
Proof.
  destruct (Z.le_gt_cases 0 x) as [H|H].
  - rewrite Z.shiftl_mul_pow2 by lia. lia.
  - rewrite Z.shiftl_div_pow2 by lia. rewrite (Z.pow_neg_r 2 x) by lia.
    apply Z.div_small. split; [lia|]. apply Z.pow_gt_1; lia.
Qed.

Lemma div_unique_bounds a b q : 0 < b -> b * q <= a < b * (q + 1) -> a / b = q.
Proof.
  intros Hb [H1 H2]. symmetry. apply (Z.div_unique a b q (a - b * q)); lia.
Qed.

Lemma pow2_pos x : 0 <= x -> 0 < 2 ^ x.
Proof. intros; apply Z.pow_pos_nonneg; lia. Qed.

Lemma pow2_succ x : 0 <= x -> 2 ^ (x + 1) = 2 * 2 ^ x.
Proof. intros. rewrite Z.pow_add_r by lia. lia. Qed.

Lemma log2_bounds m : 0 < m -> 2 ^ Z.log2 m <= m < 2 * 2 ^ Z.log2 m.
Proof.
  intros H. pose proof (Z.log2_spec m H) as [A B]. pose proof (Z.log2_nonneg m).
  rewrite <- pow2_succ by lia. replace (Z.log2 m + 1) with (Z.succ (Z.log2 m)) by lia. lia.
Qed.

(* ---------- the rounded significand ---------- *)
(* qpos m = (m * 2^31 + 2^L) / 2^(L+1): nearest integer to (m / 2^(L+1)) * 2^31, ties up *)
Definition qpos (m : Z) : Z := (m * 2 ^ 31 + 2 ^ Z.log2 m) / 2 ^ (Z.log2 m + 1).

Lemma q_mult_pos m : 0 < m -> q_mult m = qpos m.
Proof.
  intros H. unfold q_mult, qpos. rewrite (Z.abs_eq m) by lia.
  destruct (Z.eqb_spec m 0); [lia|]. rewrite (Z.sgn_pos m) by lia. lia.
Qed.

Lemma qpos_spec m :
  0 < m ->
  2 ^ 30 <= qpos m <= 2 ^ 31 /\
  Z.abs (qpos m * 2 ^ (Z.log2 m + 1) - m * 2 ^ 31) <= 2 ^ Z.log2 m.
Proof.
  intros H. unfold qpos. pose proof (log2_bounds m H) as [B1 B2].
  pose proof (Z.log2_nonneg m) as HL. rewrite pow2_succ by lia.
  set (B := 2 ^ Z.log2 m) in *. assert (0 < B) by (apply pow2_pos; lia).
  change (2 ^ 31) with 2147483648. change (2 ^ 30) with 1073741824.
  pose proof (Z.div_mod (m * 2147483648 + B) (2 * B) ltac:(lia)) as E.
  pose proof (Z.mod_pos_bound (m * 2147483648 + B) (2 * B) ltac:(lia)) as R.
  set (q := (m * 2147483648 + B) / (2 * B)) in *.
  set (r := (m * 2147483648 + B) mod (2 * B)) in *.
  split; [split|]; nia.
Qed.

(* ---------- tie of the translated source to the twins ---------- *)
Lemma raz_nonneg n L :
  0 <= L -> 0 <= n ->
  GenScaling.round_away_zero (Dy n (- (L + 1))) = dy_of_Z ((n + 2 ^ L) / 2 ^ (L + 1)).
Proof.
  intros HL Hn. unfold GenScaling.round_away_zero, dy_ltb, dy_add, dy_align, dy_of_Z, dy_half, dy_neg_half.
  cbn [dm de]. rewrite (Z.min_l (- (L + 1)) 0) by lia.
  replace (- (L + 1) - - (L + 1)) with 0 by lia. replace (0 - - (L + 1)) with (L + 1) by lia.
  rewrite Z.pow_0_r, Z.mul_1_r, Z.mul_0_l.
  destruct (Z.ltb_spec n 0); [lia|]. cbn [dm de].
  rewrite (Z.min_l (- (L + 1)) (-1)) by lia.
  replace (- (L + 1) - - (L + 1)) with 0 by lia. replace (-1 - - (L + 1)) with L by lia.
  rewrite Z.pow_0_r, Z.mul_1_r, Z.mul_1_l. unfold dy_trunc. cbn [dm de].
  destruct (Z.leb_spec 0 (- (L + 1))); [lia|].
  replace (- - (L + 1)) with (L + 1) by lia.
  rewrite Z.quot_div_nonneg; [reflexivity| |].
  - pose proof (pow2_pos L HL). lia.
  - apply pow2_pos. lia.
Qed.

Lemma raz_neg n L :
  0 <= L -> n < 0 ->
  GenScaling.round_away_zero (Dy n (- (L + 1))) = dy_of_Z (- ((- n + 2 ^ L) / 2 ^ (L + 1))).
Proof.
  intros HL Hn. unfold GenScaling.round_away_zero, dy_ltb, dy_add, dy_align, dy_of_Z, dy_half, dy_neg_half.
  cbn [dm de]. rewrite (Z.min_l (- (L + 1)) 0) by lia.
  replace (- (L + 1) - - (L + 1)) with 0 by lia. replace (0 - - (L + 1)) with (L + 1) by lia.
  rewrite Z.pow_0_r, Z.mul_1_r, Z.mul_0_l.
  destruct (Z.ltb_spec n 0); [|lia]. cbn [dm de].
  rewrite (Z.min_l (- (L + 1)) (-1)) by lia.
  replace (- (L + 1) - - (L + 1)) with 0 by lia. replace (-1 - - (L + 1)) with L by lia.
  rewrite Z.pow_0_r, Z.mul_1_r. unfold dy_trunc. cbn [dm de].
  destruct (Z.leb_spec 0 (- (L + 1))); [lia|].
  replace (- - (L + 1)) with (L + 1) by lia.
  pose proof (pow2_pos L HL). pose proof (pow2_pos (L + 1) ltac:(lia)).
  replace (n + -1 * 2 ^ L) with (- (- n + 2 ^ L)) by lia.
  rewrite Z.quot_opp_l by lia. rewrite Z.quot_div_nonneg by lia. reflexivity.
Qed.

Lemma dy_trunc_of_Z z : dy_trunc (dy_of_Z z) = z.
Proof. unfold dy_trunc, dy_of_Z. cbn. lia. Qed.

Lemma gen_sig_eq m e :
  dy_trunc (GenScaling.round_away_zero (dy_mul_int (dy_frexp_sig (Dy m e)) (2 ^ 31))) = q_mult m.
Proof.
  unfold q_mult, dy_frexp_sig, dy_mul_int. cbn [dm de].
  destruct (Z.eqb_spec m 0) as [->|Hm].
  - vm_compute. reflexivity.
  - cbn [dm de]. destruct (Z.eqb_spec (Z.abs m) 0); [lia|].
    pose proof (Z.log2_nonneg (Z.abs m)) as HL.
    destruct (Z.lt_trichotomy m 0) as [Hneg|[H0|Hpos]]; [|lia|].
    + rewrite raz_neg by nia. rewrite dy_trunc_of_Z.
      rewrite (Z.abs_neq m) by lia. rewrite (Z.sgn_neg m) by lia.
      replace (- (m * 2 ^ 31)) with (- m * 2 ^ 31) by lia. lia.
    + rewrite raz_nonneg by nia. rewrite dy_trunc_of_Z.
      rewrite (Z.abs_eq m) by lia. rewrite (Z.sgn_pos m) by lia. lia.
Qed.

Lemma gen_exp_eq m e : dy_frexp_exp (Dy m e) = q_exp m e.
Proof. reflexivity. Qed.

Lemma gen_quantise_scale_eq m e : GenScaling.quantise_scale (Dy m e) = q_scale m e.
Proof.
  unfold GenScaling.quantise_scale. cbv zeta. rewrite !shiftl_1_pow.
  rewrite gen_sig_eq, gen_exp_eq. unfold q_scale, q_renorm, shift_ok. change (2 ^ 6) with 64.
  destruct (Z.eqb_spec (q_mult m) (2 ^ 31)) as [Eq|Ne].
  - replace ((q_exp m e + 1 - 31) * - (1)) with (31 - (q_exp m e + 1)) by lia.
    destruct (_ && _); reflexivity.
  - replace ((q_exp m e - 31) * - (1)) with (31 - q_exp m e) by lia.
    destruct (_ && _); reflexivity.
Qed.

Lemma gen_reduced_quantise_scale_eq m e : GenScaling.reduced_quantise_scale (Dy m e) = r_scale m e.
Proof.
  unfold GenScaling.reduced_quantise_scale, r_scale. rewrite gen_quantise_scale_eq.
  destruct (q_scale m e) as [q s]. unfold shift_ok, r_mult.
  rewrite !shiftl_1_pow. change (2 ^ 6) with 64. change (Z.shiftl 32767 16) with (32767 * 65536).
  rewrite Z.shiftr_div_pow2 by lia. change (2 ^ 16) with 65536. change (2 ^ 15) with 32768.
  destruct (_ && _); reflexivity.
Qed.

Lemma gen_quantise_pooling_scale_eq n rb : GenScaling.quantise_pooling_scale n rb = pool_scale n rb.
Proof.
  unfold GenScaling.quantise_pooling_scale, pool_scale, pool_k.
  rewrite !shiftl_1_pow. change (2 ^ 6) with 64. reflexivity.
Qed.

(* ---------- quantise_scale: accuracy, range, degradation ---------- *)
(* rnd m = 1 when the significand rounds up to 2^31 and is renormalised; qn m the multiplier returned *)
Definition rnd (m : Z) : Z := if qpos m =? 2 ^ 31 then 1 else 0.
Definition qn (m : Z) : Z := if qpos m =? 2 ^ 31 then 2 ^ 30 else qpos m.
(* the shift of the code for the positive dyadic m * 2^e *)
Definition vshift (m e : Z) : Z := 31 - (e + Z.log2 m + 1) - rnd m.

Lemma qn_spec m :
  0 < m -> 2 ^ 30 <= qn m < 2 ^ 31 /\ qn m * 2 ^ rnd m = qpos m /\ 0 <= rnd m <= 1.
Proof.
  intros H. pose proof (qpos_spec m H) as [A _]. unfold qn, rnd.
  destruct (Z.eqb_spec (qpos m) (2 ^ 31)) as [E|E].
  - rewrite E. change (2 ^ 1) with 2. change (2 ^ 30) with 1073741824. change (2 ^ 31) with 2147483648. lia.
  - change (2 ^ 0) with 1. lia.
Qed.

Lemma q_scale_pos m e :
  0 < m ->
  q_scale m e = if shift_ok (vshift m e) then (qn m, vshift m e) else (0, 16).
Proof.
  intros H. unfold q_scale, q_exp, q_renorm, vshift, qn, rnd. destruct (Z.eqb_spec m 0); [lia|].
  rewrite (Z.abs_eq m) by lia. rewrite q_mult_pos by lia.
  destruct (Z.eqb_spec (qpos m) (2 ^ 31)) as [E|E].
  - rewrite E. change (2 ^ 31 / 2) with (2 ^ 30).
    replace (31 - (e + Z.log2 m + 1 + 1)) with (31 - (e + Z.log2 m + 1) - 1) by lia. reflexivity.
  - replace (31 - (e + Z.log2 m + 1) - 0) with (31 - (e + Z.log2 m + 1)) by lia. reflexivity.
Qed.

Lemma shift_ok_spec s : shift_ok s = true <-> 0 <= s <= 63.
Proof. unfold shift_ok. rewrite andb_true_iff, Z.leb_le, Z.ltb_lt. lia. Qed.

(* In range (the shift the code derives lies in [0, 63]): the pair (q, s) denotes q * 2^-s; multiplied by
   2^(s + rnd + L + 1) that is q * 2^(L+1+rnd) against m * 2^31 for the scale. *)
Lemma quantise_scale_accurate_lemma m e :
  0 < m ->
  let L := Z.log2 m in
  let s := vshift m e in
  0 <= s <= 63 ->
  exists q, GenScaling.quantise_scale (Dy m e) = (q, s) /\
            2 ^ 30 <= q <= 2 ^ 31 /\ q < 2 ^ 31 /\
            Z.abs (q * 2 ^ (L + 1 + rnd m) - m * 2 ^ 31) <= 2 ^ L /\ 2 ^ L <= m.
Proof.
  intros Hm L s Hs. exists (qn m). rewrite gen_quantise_scale_eq, q_scale_pos by lia.
  fold s. destruct (shift_ok s) eqn:E.
  - pose proof (qpos_spec m Hm) as [A B]. pose proof (log2_bounds m Hm). fold L in B.
    pose proof (qn_spec m Hm) as [Q1 [Q2 Q3]]. pose proof (Z.log2_nonneg m).
    repeat split; try lia; [|subst L; lia].
    rewrite Z.pow_add_r by (subst L; lia).
    replace (qn m * (2 ^ (L + 1) * 2 ^ rnd m)) with (qn m * 2 ^ rnd m * 2 ^ (L + 1)) by ring.
    rewrite Q2. exact B.
  - apply shift_ok_spec in Hs. congruence.
Qed.

Lemma quantise_scale_degrades_lemma m e :
  0 < m ->
  ~ (0 <= vshift m e <= 63) -> GenScaling.quantise_scale (Dy m e) = (0, 16).
Proof.
  intros Hm Hs. rewrite gen_quantise_scale_eq, q_scale_pos by lia.
  destruct (shift_ok (vshift m e)) eqn:E; [|reflexivity]. apply shift_ok_spec in E. contradiction.
Qed.

(* whatever the input, the pair fits the 32-bit scale and 6-bit shift fields: nothing wraps *)
Lemma quantise_scale_fits_lemma m e :
  0 < m ->
  0 <= fst (GenScaling.quantise_scale (Dy m e)) < 2 ^ 31 /\
  0 <= snd (GenScaling.quantise_scale (Dy m e)) <= 63.
Proof.
  intros Hm. rewrite gen_quantise_scale_eq, q_scale_pos by lia.
  destruct (shift_ok _) eqn:E; cbn [fst snd].
  - apply shift_ok_spec in E. pose proof (qn_spec m Hm). lia.
  - change (2 ^ 31) with 2147483648. lia.
Qed.

(* the pair is degraded exactly when its multiplier is zero *)
Lemma quantise_scale_nonzero_lemma m e q s :
  0 < m -> GenScaling.quantise_scale (Dy m e) = (q, s) -> q <> 0 ->
  s = vshift m e /\ q = qn m /\ 0 <= s <= 63.
Proof.
  intros Hm. rewrite gen_quantise_scale_eq, q_scale_pos by lia.
  destruct (shift_ok _) eqn:E; intros H Hq; injection H as <- <-.
  - apply shift_ok_spec in E. auto.
  - contradiction.
Qed.

(* ---------- the TFLite reference ---------- *)
Lemma round_half_away_pos n L :
  0 <= L -> 0 < n ->
  dy_round_half_away (Dy n (- (L + 1))) = (n + 2 ^ L) / 2 ^ (L + 1).
Proof.
  intros HL Hn. unfold dy_round_half_away. cbn [dm de].
  destruct (Z.leb_spec 0 (- (L + 1))); [lia|].
  replace (- - (L + 1)) with (L + 1) by lia. rewrite Z.sgn_pos, Z.abs_eq by lia.
  rewrite pow2_succ by lia. pose proof (pow2_pos L HL).
  replace (2 * n + 2 * 2 ^ L) with (2 * (n + 2 ^ L)) by lia.
  rewrite Z.div_mul_cancel_l by lia. lia.
Qed.

Lemma tfl_pos m e :
  0 < m ->
  tfl_quantize_multiplier (Dy m e) =
    if 31 - vshift m e <? -31 then (0, 0) else (qn m, 31 - vshift m e).
Proof.
  intros Hm. unfold tfl_quantize_multiplier, dy_frexp_sig, dy_frexp_exp, dy_mul_int. cbn [dm de].
  destruct (Z.eqb_spec m 0); [lia|]. cbn [dm de]. rewrite (Z.abs_eq m) by lia.
  pose proof (Z.log2_nonneg m).
  rewrite round_half_away_pos by nia. fold (qpos m). unfold vshift, qn, rnd.
  destruct (Z.eqb_spec (qpos m) (2 ^ 31)) as [->|].
  - change (2 ^ 31 / 2) with (2 ^ 30).
    replace (31 - (31 - (e + Z.log2 m + 1) - 1)) with (e + Z.log2 m + 1 + 1) by lia. reflexivity.
  - replace (31 - (31 - (e + Z.log2 m + 1) - 0)) with (e + Z.log2 m + 1) by lia. reflexivity.
Qed.

(* Reference equality, shift in [0, 62]: the SAME pair, the reference's left shift being 31 - s *)
Lemma quantise_scale_eq_tflite_lemma m e :
  0 < m ->
  let s := vshift m e in
  0 <= s <= 62 ->
  exists q,
    GenScaling.quantise_scale (Dy m e) = (q, s) /\ tfl_quantize_multiplier (Dy m e) = (q, 31 - s) /\
    2 ^ 30 <= q < 2 ^ 31.
Proof.
  intros Hm s Hs. rewrite gen_quantise_scale_eq, q_scale_pos, tfl_pos by lia. fold s.
  assert (shift_ok s = true) as -> by (apply shift_ok_spec; lia).
  destruct (Z.ltb_spec (31 - s) (-31)); [lia|].
  exists (qn m). pose proof (qn_spec m Hm). repeat split; lia.
Qed.

(* the form other developments compose with: driven by the result of the code *)
Lemma quantise_scale_is_tflite_lemma m e q s :
  0 < m -> GenScaling.quantise_scale (Dy m e) = (q, s) -> q <> 0 -> 0 <= s <= 62 ->
  tfl_quantize_multiplier (Dy m e) = (q, 31 - s) /\ 2 ^ 30 <= q < 2 ^ 31.
Proof.
  intros Hm H Hq Hs. destruct (quantise_scale_nonzero_lemma m e q s Hm H Hq) as [-> [-> _]].
  destruct (quantise_scale_eq_tflite_lemma m e Hm Hs) as [q' [E1 [E2 B]]].
  rewrite gen_quantise_scale_eq, q_scale_pos in E1 by lia.
  assert (shift_ok (vshift m e) = true) as K by (apply shift_ok_spec; lia). rewrite K in E1.
  injection E1 as <-. split; assumption.
Qed.

(* ... and driven by the input: any scale whose un-renormalised shift 31 - (e+L+1) lies in [1, 62] *)
Lemma quantise_scale_is_tflite_in_range_lemma m e :
  0 < m ->
  let s0 := 31 - (e + Z.log2 m + 1) in
  1 <= s0 <= 62 ->
  exists q s, GenScaling.quantise_scale (Dy m e) = (q, s) /\ s0 - 1 <= s <= s0 /\
              tfl_quantize_multiplier (Dy m e) = (q, 31 - s) /\ 2 ^ 30 <= q < 2 ^ 31.
Proof.
  intros Hm s0 Hs. pose proof (qn_spec m Hm) as [_ [_ R]].
  assert (vshift m e = s0 - rnd m) as V by reflexivity.
  destruct (quantise_scale_eq_tflite_lemma m e Hm ltac:(lia)) as [q [E1 [E2 B]]].
  exists q, (vshift m e). repeat split; try assumption; lia.
Qed.

(* at shift 63 the reference flushes to zero, Vela keeps an accurate pair *)
Lemma quantise_scale_tflite_shift63_lemma m e :
  0 < m ->
  vshift m e = 63 ->
  GenScaling.quantise_scale (Dy m e) = (qn m, 63) /\ 2 ^ 30 <= qn m < 2 ^ 31 /\
  tfl_quantize_multiplier (Dy m e) = (0, 0).
Proof.
  intros Hm Hs. rewrite gen_quantise_scale_eq, q_scale_pos, tfl_pos by lia. rewrite Hs.
  pose proof (qn_spec m Hm) as [A _]. repeat split; lia.
Qed.

(* ---------- reduced_quantise_scale ---------- *)
Lemma r_mult_spec q :
  2 ^ 30 <= q < 2 ^ 31 ->
  2 ^ 14 <= r_mult q <= 32767 /\
  (q < 32767 * 65536 -> Z.abs (r_mult q * 65536 - q) <= 32768) /\
  (32767 * 65536 <= q -> r_mult q = 32767).
Proof.
  change (2 ^ 30) with 1073741824. change (2 ^ 31) with 2147483648. change (2 ^ 14) with 16384.
  intros Hq. unfold r_mult. destruct (Z.ltb_spec q (32767 * 65536)).
  - pose proof (Z.div_mod (q + 32768) 65536 ltac:(lia)).
    pose proof (Z.mod_pos_bound (q + 32768) 65536 ltac:(lia)). repeat split; lia.
  - repeat split; lia.
Qed.

Lemma reduced_quantise_scale_accurate_lemma m e :
  0 < m ->
  let L := Z.log2 m in
  let s := vshift m e in
  0 <= s <= 63 ->
  exists rm, GenScaling.reduced_quantise_scale (Dy m e) = (rm, s - 16) /\
             2 ^ 14 <= rm <= 32767 /\
             (* the pair denotes rm * 2^-(s-16); scaled by 2^(s+rnd+L+1) that is rm * 2^(L+17+rnd) against
                m * 2^31.  True bound: relative error <= 2^-15 + 2^-31 *)
             Z.abs (rm * 2 ^ (L + 17 + rnd m) - m * 2 ^ 31) * 2 ^ 31 <= (2 ^ 16 + 1) * (m * 2 ^ 31) /\
             (* hence the 2^-14 of the property text *)
             Z.abs (rm * 2 ^ (L + 17 + rnd m) - m * 2 ^ 31) * 2 ^ 14 <= m * 2 ^ 31.
Proof.
  intros Hm L s Hs. rewrite gen_reduced_quantise_scale_eq. unfold r_scale.
  rewrite q_scale_pos by lia. fold s.
  assert (shift_ok s = true) as E by (apply shift_ok_spec; lia). rewrite E, E.
  exists (r_mult (qn m)). split; [reflexivity|].
  pose proof (qpos_spec m Hm) as [A B]. fold L in B.
  pose proof (qn_spec m Hm) as [Q1 [Q2 Q3]].
  pose proof (r_mult_spec (qn m) Q1) as [R1 [R2 R3]].
  pose proof (log2_bounds m Hm) as [B1 B2]. fold L in B1, B2.
  pose proof (Z.log2_nonneg m) as HL. fold L in HL.
  split; [exact R1|].
  replace (L + 17 + rnd m) with (rnd m + (L + 1) + 16) by lia. rewrite !Z.pow_add_r by lia.
  rewrite pow2_succ in * by lia.
  set (Bq := 2 ^ L) in *. assert (0 < Bq) by (apply pow2_pos; lia).
  change (2 ^ 31) with 2147483648 in *. change (2 ^ 30) with 1073741824 in *.
  change (2 ^ 16) with 65536. change (2 ^ 14) with 16384 in *.
  set (q := qpos m) in *. set (q' := qn m) in *. set (rm := r_mult q') in *.
  set (R := 2 ^ rnd m) in *.
  assert (HR : R = 1 \/ (R = 2 /\ q' = 1073741824)).
  { unfold R, q', qn, rnd. destruct (Z.eqb_spec (qpos m) (2 ^ 31)); [right; split; reflexivity | left; reflexivity]. }
  assert (Z.abs (rm * (R * (2 * Bq) * 65536) - m * 2147483648) * 2147483648 <= 65537 * (m * 2147483648)) as Main.
  { apply Z.abs_le in B.
    destruct HR as [HR|[HR Hq']].
    - rewrite HR in *. assert (q' = q) by lia.
      destruct (Z.lt_ge_cases q' (32767 * 65536)) as [Hlt|Hge].
      + specialize (R2 Hlt). apply Z.abs_le in R2.
        assert (Z.abs (rm * (1 * (2 * Bq) * 65536) - m * 2147483648) <= 65537 * Bq) by (apply Z.abs_le; nia).
        nia.
      + specialize (R3 Hge). rewrite R3.
        destruct (Z.le_ge_cases 0 (32767 * (1 * (2 * Bq) * 65536) - m * 2147483648)).
        * rewrite Z.abs_eq by lia. nia.
        * rewrite Z.abs_neq by lia. nia.
    - rewrite HR in *. assert (rm = 16384) as -> by (unfold rm; rewrite Hq'; reflexivity).
      assert (q = 2147483648) by lia.
      assert (Z.abs (16384 * (2 * (2 * Bq) * 65536) - m * 2147483648) <= Bq) by (apply Z.abs_le; nia).
      nia. }
  split; lia.
Qed.

(* out of range the multiplier is zero; the code's own second range test sees quantise_scale's
   replacement shift 16 and therefore never fires: the pair is (0, 0), not (0, 16) *)
Lemma reduced_quantise_scale_degrades_lemma m e :
  0 < m ->
  ~ (0 <= vshift m e <= 63) -> GenScaling.reduced_quantise_scale (Dy m e) = (0, 0).
Proof.
  intros Hm Hs. rewrite gen_reduced_quantise_scale_eq. unfold r_scale.
  rewrite q_scale_pos by lia.
  destruct (shift_ok (vshift m e)) eqn:E; [apply shift_ok_spec in E; contradiction|]. reflexivity.
Qed.

(* the reduced shift: in [-16, 47] always; non-negative exactly when the code's shift is at least 16 *)
Lemma reduced_quantise_scale_shift_lemma m e :
  0 < m ->
  -16 <= snd (GenScaling.reduced_quantise_scale (Dy m e)) <= 47 /\
  (0 <= vshift m e <= 63 ->
   (0 <= snd (GenScaling.reduced_quantise_scale (Dy m e)) <-> 16 <= vshift m e)).
Proof.
  intros Hm. rewrite gen_reduced_quantise_scale_eq. unfold r_scale.
  rewrite q_scale_pos by lia.
  destruct (shift_ok (vshift m e)) eqn:E.
  - rewrite E. cbn [snd]. apply shift_ok_spec in E. lia.
  - cbn [snd]. split; [cbn; lia|]. intros H. apply shift_ok_spec in H. congruence.
Qed.

(* ---------- instances (the hypotheses of the lemmas above are satisfiable) ---------- *)
(* 0.1 = 0x1.999999999999ap-4 = 7205759403792794 * 2^-56 *)
Example quantise_scale_ex_tenth :
  0 <= vshift 7205759403792794 (-56) <= 62 /\
  GenScaling.quantise_scale (Dy 7205759403792794 (-56)) = (1717986918, 34) /\
  tfl_quantize_multiplier (Dy 7205759403792794 (-56)) = (1717986918, -3) /\
  GenScaling.reduced_quantise_scale (Dy 7205759403792794 (-56)) = (26214, 18).
Proof. vm_compute. repeat split; congruence. Qed.

(* the largest double below 1: the significand rounds up to 2^31 and is renormalised, as the reference does *)
Example quantise_scale_ex_renorm :
  rnd (2 ^ 53 - 1) = 1 /\ vshift (2 ^ 53 - 1) (-53) = 30 /\
  GenScaling.quantise_scale (Dy (2 ^ 53 - 1) (-53)) = (2 ^ 30, 30) /\
  tfl_quantize_multiplier (Dy (2 ^ 53 - 1) (-53)) = (2 ^ 30, 1).
Proof. vm_compute. repeat split; reflexivity. Qed.

(* 2^40 and 2^-34 are outside the range, 2^-33 is inside (shift 63); the largest double below 2^31
   renormalises to shift -1 and degrades; the largest double below 2^-33 renormalises into the range *)
Example quantise_scale_ex_degrade :
  ~ (0 <= vshift 1 40 <= 63) /\ GenScaling.quantise_scale (Dy 1 40) = (0, 16) /\
  GenScaling.quantise_scale (Dy 1 (-34)) = (0, 16) /\
  GenScaling.reduced_quantise_scale (Dy 1 40) = (0, 0) /\
  vshift 1 (-33) = 63 /\
  GenScaling.quantise_scale (Dy 1 (-33)) = (2 ^ 30, 63) /\ tfl_quantize_multiplier (Dy 1 (-33)) = (0, 0) /\
  vshift (2 ^ 53 - 1) (-22) = -1 /\ GenScaling.quantise_scale (Dy (2 ^ 53 - 1) (-22)) = (0, 16) /\
  vshift (2 ^ 53 - 1) (-86) = 63 /\ GenScaling.quantise_scale (Dy (2 ^ 53 - 1) (-86)) = (2 ^ 30, 63).
Proof. split; [intros [H1 _]; vm_compute in H1; apply H1; reflexivity|]. vm_compute. repeat split; congruence. Qed.

(* 40000.0 = 625 * 2^6 >= 2^15: the reduced shift is negative *)
Example reduced_quantise_scale_ex_negative_shift :
  GenScaling.reduced_quantise_scale (Dy 625 6) = (20000, -1).
Proof. vm_compute. reflexivity. Qed.
