From Coq Require Import ZArith List Bool Lia.
From VV Require Import lib.PyInt gen.GenTables hw.Npu hw.Defuse proofs.NpuProofs.
Import ListNotations.
Open Scope Z_scope.

(* ---------- byte-level semantics the checker is sound for ---------- *)
Definition shadow := Z -> Z -> option tag.        (* region -> address -> identity of the byte *)

Definition sh_write (s : shadow) (w : tseg) : shadow :=
  let '(rg, lo, hi, t) := w in
  fun r a => if (r =? rg) && (lo <=? a) && (a <? hi) then Some t else s r a.

Definition sh_read_ok (s : shadow) (rd : tseg) : Prop :=
  let '(rg, lo, hi, t) := rd in
  forall a, lo <= a < hi -> exists t', s rg a = Some t' /\ tag_eqb t' t = true.

Fixpoint sh_run (s : shadow) (ops : list (list tseg * list tseg)) : Prop :=
  match ops with
  | [] => True
  | (rs, ws) :: t => (forall rd, In rd rs -> sh_read_ok s rd) /\ sh_run (fold_left sh_write ws s) t
  end.

Definition sh_eq (s1 s2 : shadow) : Prop := forall r a, s1 r a = s2 r a.

Lemma sh_write_eq s1 s2 w : sh_eq s1 s2 -> sh_eq (sh_write s1 w) (sh_write s2 w).
Proof. intros H r a. destruct w as [[[rg lo] hi] t]. cbn. rewrite H. reflexivity. Qed.

Lemma sh_fold_eq ws s1 s2 : sh_eq s1 s2 -> sh_eq (fold_left sh_write ws s1) (fold_left sh_write ws s2).
Proof. revert s1 s2. induction ws as [|w ws IH]; intros s1 s2 H; [exact H|]. cbn. apply IH. apply sh_write_eq. exact H. Qed.

Lemma sh_run_eq ops s1 s2 : sh_eq s1 s2 -> sh_run s1 ops -> sh_run s2 ops.
Proof.
  revert s1 s2. induction ops as [|[rs ws] t IH]; intros s1 s2 H; [auto|].
  cbn. intros [Hr Ht]. split.
  - intros rd Hin. specialize (Hr rd Hin). destruct rd as [[[rg lo] hi] tg]. cbn in *.
    intros a Ha. rewrite <- H. apply Hr. exact Ha.
  - apply (IH (fold_left sh_write ws s1)); [apply sh_fold_eq; exact H | exact Ht].
Qed.

(* ---------- covered is sound ---------- *)
Lemma covered_sound h : forall rg lo hi t,
  covered h rg lo hi t = true ->
  forall a, lo <= a < hi -> exists t', lookup h rg a = Some t' /\ tag_eqb t' t = true.
Proof.
  induction h as [|[[[rg0 l0] h0] t0] r IH]; intros rg lo hi t Hc a Ha.
  - cbn in Hc. apply Z.leb_le in Hc. lia.
  - cbn [covered] in Hc. cbn [lookup].
    destruct (Z.leb_spec hi lo) as [Hle|Hgt]; [lia|].
    destruct (negb (rg0 =? rg) || (h0 <=? lo) || (hi <=? l0) || (h0 <=? l0)) eqn:Hno.
    + (* entry does not overlap the demanded range *)
      assert (Hskip : (rg0 =? rg) && (l0 <=? a) && (a <? h0) = false).
      { apply orb_true_iff in Hno as [Hno|Hno]; [apply orb_true_iff in Hno as [Hno|Hno];
          [apply orb_true_iff in Hno as [Hno|Hno]|]|].
        - apply negb_true_iff in Hno. rewrite Hno. reflexivity.
        - apply Z.leb_le in Hno. destruct (rg0 =? rg); [|reflexivity]. cbn.
          destruct (Z.leb_spec l0 a); [|reflexivity]. cbn. apply Z.ltb_ge. lia.
        - apply Z.leb_le in Hno. destruct (rg0 =? rg); [|reflexivity]. cbn.
          destruct (Z.leb_spec l0 a); [lia|reflexivity].
        - apply Z.leb_le in Hno. destruct (rg0 =? rg); [|reflexivity]. cbn.
          destruct (Z.leb_spec l0 a); [|reflexivity]. cbn. apply Z.ltb_ge. lia. }
      rewrite Hskip. apply (IH rg lo hi t Hc a Ha).
    + apply orb_false_iff in Hno as [Hno H4]. apply orb_false_iff in Hno as [Hno H3].
      apply orb_false_iff in Hno as [H1 H2].
      apply negb_false_iff in H1. apply Z.leb_gt in H2, H3, H4.
      apply andb_true_iff in Hc as [Hc Hc3]. apply andb_true_iff in Hc as [Htag Hc2].
      rewrite H1. cbn [andb].
      destruct (Z.leb_spec l0 a) as [Hl|Hl]; cbn [andb].
      * destruct (Z.ltb_spec a h0) as [Hh|Hh].
        -- exists t0. split; [reflexivity | exact Htag].
        -- apply (IH rg (Z.max lo h0) hi t Hc3 a). lia.
      * apply (IH rg lo (Z.min hi l0) t Hc2 a). lia.
Qed.

(* ---------- hwrite implements sh_write ---------- *)
Lemma lookup_filter_skip (p : tseg -> bool) h r a :
  (forall e, In e h -> p e = false ->
     let '(rg0, l0, h0, _) := e in (rg0 =? r) && (l0 <=? a) && (a <? h0) = false) ->
  lookup (filter p h) r a = lookup h r a.
Proof.
  induction h as [|e h IH]; intros H; [reflexivity|].
  cbn [filter]. destruct (p e) eqn:Hp.
  - destruct e as [[[rg0 l0] h0] t0]. cbn [lookup].
    rewrite IH; [reflexivity|]. intros e' Hin. apply H. now right.
  - pose proof (H e (or_introl eq_refl) Hp) as He. destruct e as [[[rg0 l0] h0] t0]. cbn [lookup].
    rewrite He. apply IH. intros e' Hin. apply H. now right.
Qed.

Lemma hwrite_lookup h w r a :
  lookup (hwrite h w) r a = sh_write (lookup h) w r a.
Proof.
  destruct w as [[[rg lo] hi] t]. unfold hwrite, sh_write.
  destruct (Z.leb_spec hi lo) as [Hle|Hgt].
  - destruct ((r =? rg) && (lo <=? a) && (a <? hi)) eqn:Hc; [|reflexivity].
    apply andb_true_iff in Hc as [Hc H3]. apply andb_true_iff in Hc as [_ H2].
    apply Z.leb_le in H2. apply Z.ltb_lt in H3. lia.
  - cbn [lookup]. rewrite (Z.eqb_sym rg r).
    destruct ((r =? rg) && (lo <=? a) && (a <? hi)) eqn:Hc; [reflexivity|].
    apply lookup_filter_skip. intros [[[rg0 l0] h0] t0] _ Hp.
    apply negb_false_iff in Hp. unfold shadowed in Hp.
    apply andb_true_iff in Hp as [Hp H3]. apply andb_true_iff in Hp as [H1 H2].
    apply Z.eqb_eq in H1. apply Z.leb_le in H2, H3. subst rg0.
    destruct (Z.eqb_spec rg r) as [->|]; [|reflexivity]. cbn [andb].
    rewrite Z.eqb_refl in Hc. cbn [andb] in Hc.
    destruct (Z.leb_spec l0 a) as [Hl|]; [|reflexivity]. cbn [andb].
    destruct (Z.ltb_spec a h0) as [Hh|]; [|reflexivity].
    exfalso. apply andb_false_iff in Hc as [Hc|Hc]; [apply Z.leb_gt in Hc | apply Z.ltb_ge in Hc]; lia.
Qed.

Lemma fold_hwrite_lookup ws h :
  sh_eq (lookup (fold_left hwrite ws h)) (fold_left sh_write ws (lookup h)).
Proof.
  revert h. induction ws as [|w ws IH]; intros h; [intros r a; reflexivity|].
  cbn [fold_left]. intros r a. rewrite IH.
  apply sh_fold_eq. intros r' a'. apply hwrite_lookup.
Qed.

(* ---------- the run of the checker refines the byte-level run ---------- *)
Lemma run_sound ops : forall h, run_ops h ops = true -> sh_run (lookup h) ops.
Proof.
  induction ops as [|[rs ws] t IH]; intros h H; [exact I|].
  cbn [run_ops] in H. unfold step in H.
  destruct (forallb (read_ok h) rs) eqn:Hr; [|discriminate].
  cbn [sh_run]. split.
  - intros rd Hin. rewrite forallb_forall in Hr. specialize (Hr rd Hin).
    destruct rd as [[[rg lo] hi] tg]. cbn in *. intros a Ha.
    apply (covered_sound h rg lo hi tg Hr a Ha).
  - apply (sh_run_eq t (lookup (fold_left hwrite ws h))); [apply fold_hwrite_lookup|].
    apply IH. exact H.
Qed.

Definition empty_shadow : shadow := fun _ _ => None.

Theorem check_defuse_sound_lemma hw init evs ids :
  check_defuse hw init evs ids = true ->
  exists ops, stream_tagged hw evs ids = Some ops /\
              sh_run (fold_left sh_write init empty_shadow) ops.
Proof.
  unfold check_defuse. destruct (stream_tagged hw evs ids) as [ops|]; [|discriminate].
  intros H. exists ops. split; [reflexivity|].
  apply (sh_run_eq ops (lookup (fold_left hwrite init []))).
  - intros r a. rewrite (fold_hwrite_lookup init [] r a). apply sh_fold_eq. intros r' a'. reflexivity.
  - apply run_sound. exact H.
Qed.

(* ---------- the tagged segments of a feature map say, for every element, which logical byte
   of which object it must be ---------- *)
Definition tcovers (l : list tseg) (rg a b : Z) (t : tag) : Prop :=
  exists lo hi, In (rg, lo, hi, t) l /\ lo <= a /\ b <= hi.

Lemma tcovers_app_l l1 l2 rg a b t : tcovers l1 rg a b t -> tcovers (l1 ++ l2) rg a b t.
Proof. intros (lo & hi & Hin & H). exists lo, hi. split; [apply in_or_app; now left | exact H]. Qed.
Lemma tcovers_app_r l1 l2 rg a b t : tcovers l2 rg a b t -> tcovers (l1 ++ l2) rg a b t.
Proof. intros (lo & hi & Hin & H). exists lo, hi. split; [apply in_or_app; now right | exact H]. Qed.

Lemma tag_eqb_eq t1 t2 : tag_eqb t1 t2 = true -> t1 = t2.
Proof.
  destruct t1, t2. unfold tag_eqb. cbn. intros H. apply andb_true_iff in H as [H1 H2].
  apply Z.eqb_eq in H1, H2. subst. reflexivity.
Qed.

Lemma tmerge_covers l rg a b t : tcovers l rg a b t -> tcovers (tmerge l) rg a b t.
Proof.
  revert rg a b t. induction l as [|[[[rg0 lo0] hi0] t0] r IH]; intros rg a b t (lo & hi & Hin & Hlo & Hhi).
  - destruct Hin.
  - cbn [tmerge]. destruct Hin as [Heq|Hin].
    + injection Heq as -> -> -> ->.
      destruct (tmerge r) as [|[[[rg2 lo2] hi2] t2] r2].
      * exists lo, hi. split; [now left | lia].
      * destruct ((rg =? rg2) && (hi =? lo2) && tag_eqb t t2 && (lo <=? hi) && (lo2 <=? hi2)) eqn:Hm.
        -- repeat (apply andb_true_iff in Hm as [Hm ?]).
           repeat match goal with H : (_ <=? _) = true |- _ => apply Z.leb_le in H
                             | H : (_ =? _) = true |- _ => apply Z.eqb_eq in H end.
           exists lo, hi2. split; [now left | lia].
        -- exists lo, hi. split; [now left | lia].
    + assert (Hc : tcovers (tmerge r) rg a b t) by (apply IH; exists lo, hi; auto).
      destruct (tmerge r) as [|[[[rg2 lo2] hi2] t2] r2].
      * destruct Hc as (? & ? & [] & _).
      * destruct Hc as (l1 & h1 & Hin1 & Hl1 & Hh1).
        destruct ((rg0 =? rg2) && (hi0 =? lo2) && tag_eqb t0 t2 && (lo0 <=? hi0) && (lo2 <=? hi2)) eqn:Hm.
        -- destruct Hin1 as [Heq|Hin1].
           ++ injection Heq as -> -> -> ->.
              repeat (apply andb_true_iff in Hm as [Hm ?]).
              match goal with H : tag_eqb _ _ = true |- _ => apply tag_eqb_eq in H; subst end.
              repeat match goal with H : (_ <=? _) = true |- _ => apply Z.leb_le in H
                                | H : (_ =? _) = true |- _ => apply Z.eqb_eq in H end.
              subst. exists lo0, h1. split; [now left | lia].
           ++ exists l1, h1. split; [now right | lia].
        -- exists l1, h1. split; [right; exact Hin1 | lia].
Qed.

Definition elem_tag (v : fmview) (i : fmid) (y x c : Z) : tag :=
  Tag (i_id i) (elem_addr v y x c - logical_off v i y x c).

Lemma brick_tsegs_in v i y x nb s0 s :
  s0 <= s < s0 + Z.of_nat nb ->
  In (fv_region v, elem_addr v y x (16 * s),
      elem_addr v y x (16 * s) + Z.min 16 (fv_d v - 16 * s) * fv_elem v,
      Tag (i_id i) (elem_addr v y x (16 * s) - logical_off v i y x (16 * s)))
     (brick_tsegs v i y x nb s0).
Proof.
  revert s0. induction nb as [|nb IH]; intros s0 H.
  - cbn in H. lia.
  - cbn [brick_tsegs]. destruct (Z.eq_dec s s0) as [->|Hne].
    + now left.
    + right. apply IH. rewrite Nat2Z.inj_succ in H. lia.
Qed.

Lemma pixel_tcover v i y x c :
  0 < fv_elem v -> 0 <= c < fv_d v -> fmid_ok v i = true -> 0 <= i_c0 i ->
  tcovers (pixel_tsegs v i y x) (fv_region v) (elem_addr v y x c) (elem_addr v y x c + fv_elem v)
          (elem_tag v i y x c).
Proof.
  intros He Hc Hok Hc0. unfold pixel_tsegs, elem_tag. unfold fmid_ok in Hok.
  destruct (fv_b16 v) eqn:Hb.
  - cbn in Hok. apply Z.eqb_eq in Hok.
    set (s := c / 16).
    assert (Hs : 0 <= s < (fv_d v + 15) / 16).
    { unfold s. split; [apply Z.div_pos; lia|]. apply Z.div_lt_upper_bound; [lia|].
      pose proof (Z.div_mod (fv_d v + 15) 16 ltac:(lia)).
      pose proof (Z.mod_pos_bound (fv_d v + 15) 16 ltac:(lia)). lia. }
    pose proof (Z.div_mod c 16 ltac:(lia)) as Hdm. fold s in Hdm.
    pose proof (Z.mod_pos_bound c 16 ltac:(lia)) as Hmb.
    assert (Hdelta : elem_addr v y x c - logical_off v i y x c =
                     elem_addr v y x (16 * s) - logical_off v i y x (16 * s)).
    { unfold elem_addr, logical_off. destruct (tile_of v y x) as [[b ly] lx]. rewrite Hb.
      pose proof (Z.div_mod (i_c0 i) 16 ltac:(lia)) as Hd0. rewrite Hok in Hd0.
      set (q := i_c0 i / 16) in *.
      replace (i_c0 i + c) with (c mod 16 + (q + s) * 16) by lia.
      replace (i_c0 i + 16 * s) with (0 + (q + s) * 16) by lia.
      rewrite !Z.div_add, !Z.mod_add by lia.
      rewrite (Z.div_small (c mod 16) 16), (Z.mod_small (c mod 16) 16) by lia.
      rewrite (Z.div_small 0 16), (Z.mod_small 0 16) by lia.
      replace (16 * s / 16) with s by (rewrite Z.mul_comm, Z.div_mul; lia).
      replace ((16 * s) mod 16) with 0 by (rewrite Z.mul_comm, Z.mod_mul; lia).
      fold s. lia. }
    rewrite Hdelta.
    exists (elem_addr v y x (16 * s)), (elem_addr v y x (16 * s) + Z.min 16 (fv_d v - 16 * s) * fv_elem v).
    split.
    + apply brick_tsegs_in. rewrite Z2Nat.id by lia. lia.
    + unfold elem_addr. destruct (tile_of v y x) as [[b ly] lx]. rewrite Hb.
      replace (16 * s / 16) with s by (rewrite Z.mul_comm, Z.div_mul; lia).
      replace ((16 * s) mod 16) with 0 by (rewrite Z.mul_comm, Z.mod_mul; lia).
      fold s.
      assert (Hm : c mod 16 + 1 <= Z.min 16 (fv_d v - 16 * s)) by lia.
      split; [nia|].
      assert ((c mod 16 + 1) * fv_elem v <= Z.min 16 (fv_d v - 16 * s) * fv_elem v)
        by (apply Z.mul_le_mono_nonneg_r; lia).
      lia.
  - assert (Hdelta : elem_addr v y x c - logical_off v i y x c =
                     elem_addr v y x 0 - logical_off v i y x 0).
    { unfold elem_addr, logical_off. destruct (tile_of v y x) as [[b ly] lx]. rewrite Hb. lia. }
    rewrite Hdelta.
    exists (elem_addr v y x 0), (elem_addr v y x 0 + fv_d v * fv_elem v). split; [now left|].
    unfold elem_addr. destruct (tile_of v y x) as [[b ly] lx]. rewrite Hb.
    assert ((c + 1) * fv_elem v <= fv_d v * fv_elem v) by (apply Z.mul_le_mono_nonneg_r; lia).
    split; nia.
Qed.

Lemma row_tcover v i y nx x0 x c :
  0 < fv_elem v -> 0 <= c < fv_d v -> fmid_ok v i = true -> 0 <= i_c0 i -> x0 <= x < x0 + Z.of_nat nx ->
  tcovers (row_tsegs v i y nx x0) (fv_region v) (elem_addr v y x c) (elem_addr v y x c + fv_elem v)
          (elem_tag v i y x c).
Proof.
  intros He Hc Hok Hc0. revert x0. induction nx as [|nx IH]; intros x0 Hx.
  - cbn in Hx. lia.
  - cbn [row_tsegs]. destruct (Z.eq_dec x x0) as [->|Hne].
    + apply tcovers_app_l. apply pixel_tcover; assumption.
    + apply tcovers_app_r. apply IH. rewrite Nat2Z.inj_succ in Hx. lia.
Qed.

Lemma box_tcover v i ny y0 y x c :
  0 < fv_elem v -> 0 <= c < fv_d v -> fmid_ok v i = true -> 0 <= i_c0 i -> 0 <= x < fv_w v ->
  y0 <= y < y0 + Z.of_nat ny ->
  tcovers (box_tsegs v i ny y0) (fv_region v) (elem_addr v y x c) (elem_addr v y x c + fv_elem v)
          (elem_tag v i y x c).
Proof.
  intros He Hc Hok Hc0 Hx. revert y0. induction ny as [|ny IH]; intros y0 Hy.
  - cbn in Hy. lia.
  - cbn [box_tsegs]. destruct (Z.eq_dec y y0) as [->|Hne].
    + apply tcovers_app_l. apply row_tcover; try assumption. rewrite Z2Nat.id by lia. lia.
    + apply tcovers_app_r. apply IH. rewrite Nat2Z.inj_succ in Hy. lia.
Qed.

(* every element (y,x,c) of the view's box lies inside a tagged segment whose tag is exactly
   "object i_id, logical offset = that element's offset in the object's own stride system" *)
Theorem fm_tsegs_cover_lemma v i y x c :
  0 < fv_elem v -> fmid_ok v i = true -> 0 <= i_c0 i ->
  0 <= y < fv_h v -> 0 <= x < fv_w v -> 0 <= c < fv_d v ->
  tcovers (fm_tsegs v i) (fv_region v) (elem_addr v y x c) (elem_addr v y x c + fv_elem v)
          (elem_tag v i y x c).
Proof.
  intros He Hok Hc0 Hy Hx Hc. unfold fm_tsegs. apply tmerge_covers.
  apply box_tcover; try assumption. rewrite Z2Nat.id by lia. lia.
Qed.

(* consequence used in the property statement: if a read list containing the feature map's
   tagged segments is accepted against shadow s, every byte of every element carries the
   identity the operation expects *)
Theorem read_elements_defined_lemma (s : shadow) v i rs y x c :
  (forall rd, In rd rs -> sh_read_ok s rd) ->
  (forall rd, In rd (fm_tsegs v i) -> In rd rs) ->
  0 < fv_elem v -> fmid_ok v i = true -> 0 <= i_c0 i ->
  0 <= y < fv_h v -> 0 <= x < fv_w v -> 0 <= c < fv_d v ->
  forall a, elem_addr v y x c <= a < elem_addr v y x c + fv_elem v ->
  s (fv_region v) a = Some (elem_tag v i y x c).
Proof.
  intros Hall Hsub He Hok Hc0 Hy Hx Hc a Ha.
  destruct (fm_tsegs_cover_lemma v i y x c He Hok Hc0 Hy Hx Hc) as (lo & hi & Hin & Hlo & Hhi).
  specialize (Hall _ (Hsub _ Hin)). cbn in Hall.
  destruct (Hall a ltac:(lia)) as (t' & Hs & Heq). apply tag_eqb_eq in Heq. subst t'. exact Hs.
Qed.
