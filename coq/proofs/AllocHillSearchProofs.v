(* HillClimb: the search only ever stores the result of a completed allocation pass over a
   reordering of all range ids; hence the returned addresses are valid for every oracle stream. *)
From Coq Require Import ZArith List Bool Lia Permutation.
From VV Require Import lib.PyInt model.Alloc proofs.AllocProofs proofs.AllocHillProofs proofs.AllocHillNbrProofs.
Import ListNotations.
Open Scope Z_scope.

(* ---------- swapping two entries keeps every id in the list ---------- *)
Lemma nth_error_zset : forall (A : Type) (l : list A) i x k, 0 <= i ->
  nth_error (zset l i x) k =
  if ((k =? Z.to_nat i)%nat && (Z.to_nat i <? length l)%nat)%bool then Some x else nth_error l k.
Proof. intros. unfold zset. destruct (Z.ltb_spec i 0); [lia|]. apply nth_error_set_nth. Qed.

Lemma zswap_keeps : forall l i j l' x, zswap l i j = Ok l' -> In x l -> In x l'.
Proof.
  intros l i j l' x H Hin. unfold zswap in H.
  destruct (zget l i) as [a|] eqn:Ei; [|discriminate].
  destruct (zget l j) as [b|] eqn:Ej; [|discriminate].
  inversion H; subst l'; clear H.
  pose proof (zget_some_inr _ _ _ _ Ei) as [Hi0 Hi1]. pose proof (zget_some_inr _ _ _ _ Ej) as [Hj0 Hj1].
  rewrite zget_nth_error in Ei, Ej by lia. unfold zlen in *.
  apply In_nth_error in Hin. destruct Hin as [k Hk].
  assert (Hlen : length (zset l i b) = length l) by apply length_zset.
  destruct (Nat.eq_dec k (Z.to_nat i)) as [->|Hki].
  - (* x = a, now at position j *)
    apply nth_error_In with (n := Z.to_nat j). rewrite nth_error_zset by lia. rewrite Nat.eqb_refl. cbn [andb].
    rewrite Hlen. destruct (Nat.ltb_spec (Z.to_nat j) (length l)); [congruence|lia].
  - destruct (Nat.eq_dec k (Z.to_nat j)) as [->|Hkj].
    + (* x = b, now at position i *)
      apply nth_error_In with (n := Z.to_nat i). rewrite nth_error_zset by lia.
      destruct (Nat.eqb_spec (Z.to_nat i) (Z.to_nat j)); [congruence|]. cbn [andb].
      rewrite nth_error_zset by lia. rewrite Nat.eqb_refl. cbn [andb].
      destruct (Nat.ltb_spec (Z.to_nat i) (length l)); [congruence|lia].
    + apply nth_error_In with (n := k). rewrite nth_error_zset by lia.
      destruct (Nat.eqb_spec k (Z.to_nat j)); [contradiction|]. cbn [andb].
      rewrite nth_error_zset by lia. destruct (Nat.eqb_spec k (Z.to_nat i)); [contradiction|]. exact Hk.
Qed.

Definition covers (n : nat) (idx : list Z) : Prop := forall i, 0 <= i < Z.of_nat n -> In i idx.

(* ---------- generic bounded iteration ---------- *)
Lemma iter_pos_inv : forall (St R : Type) (P : St -> Prop) (Q : R -> Prop) (f : St -> step_res St R),
  (forall s, P s -> match f s with Continue s' => P s' | Done r => Q r end) ->
  forall p s, P s -> match iter_pos p f s with Continue s' => P s' | Done r => Q r end.
Proof.
  intros St R P Q f Hf. induction p as [q IH|q IH|]; intros s Hs; cbn [iter_pos].
  - pose proof (Hf s Hs) as H0. destruct (f s) as [s0|r]; [|exact H0].
    pose proof (IH s0 H0) as H1. destruct (iter_pos q f s0) as [s1|r]; [|exact H1]. apply IH; exact H1.
  - pose proof (IH s Hs) as H1. destruct (iter_pos q f s) as [s1|r]; [|exact H1]. apply IH; exact H1.
  - apply Hf; exact Hs.
Qed.

(* a measure that drops by at least one with every Continue bounds the number of steps *)
Lemma iter_pos_measure : forall (St R : Type) (P : St -> Prop) (mu : St -> Z) (f : St -> step_res St R),
  (forall s, P s -> match f s with Continue s' => P s' /\ mu s' + 1 <= mu s | Done _ => True end) ->
  forall p s, P s -> match iter_pos p f s with Continue s' => P s' /\ mu s' + Zpos p <= mu s | Done _ => True end.
Proof.
  intros St R P mu f Hf. induction p as [q IH|q IH|]; intros s Hs; cbn [iter_pos].
  - pose proof (Hf s Hs) as H0. destruct (f s) as [s0|r]; [|exact I]. destruct H0 as [H0 M0].
    pose proof (IH s0 H0) as H1. destruct (iter_pos q f s0) as [s1|r]; [|exact I]. destruct H1 as [H1 M1].
    pose proof (IH s1 H1) as H2. destruct (iter_pos q f s1) as [s2|r]; [|exact I]. destruct H2 as [H2 M2].
    split; [exact H2|]. rewrite Pos2Z.inj_xI. lia.
  - pose proof (IH s Hs) as H1. destruct (iter_pos q f s) as [s1|r]; [|exact I]. destruct H1 as [H1 M1].
    pose proof (IH s1 H1) as H2. destruct (iter_pos q f s1) as [s2|r]; [|exact I]. destruct H2 as [H2 M2].
    split; [exact H2|]. rewrite Pos2Z.inj_xO. lia.
  - apply Hf; exact Hs.
Qed.

(* ---------- what a valid answer is ---------- *)
Definition hc_valid (lrs : list lr) (addrs : list Z) : Prop :=
  length addrs = length lrs /\
  (forall i j r1 r2 a1 a2, i <> j ->
     nth_error lrs i = Some r1 -> nth_error lrs j = Some r2 ->
     nth_error addrs i = Some a1 -> nth_error addrs j = Some a2 ->
     time_overlap r1 r2 -> disjoint a1 (lr_size r1) a2 (lr_size r2)) /\
  (forall i r a, nth_error lrs i = Some r -> nth_error addrs i = Some a -> (lr_align r | a) /\ 0 <= a).

Lemma pass_valid : forall lrs st,
  length st = length lrs -> pass_inv lrs st ->
  (forall i, 0 <= i < Z.of_nat (length lrs) -> is_alloc st i) ->
  hc_valid lrs (map h_addr st).
Proof.
  intros lrs st Hlen [Hdis Hw] Hall.
  assert (Hn : forall i r a, nth_error lrs i = Some r -> nth_error (map h_addr st) i = Some a ->
                 inr lrs (Z.of_nat i) /\ r = lget lrs (Z.of_nat i) /\ a = h_addr (hget st (Z.of_nat i))).
  { intros i r a Hr Ha.
    assert (Hi : (i < length lrs)%nat) by (apply nth_error_Some; congruence).
    split; [unfold inr, zlen; lia|]. split.
    - unfold lget. rewrite Nat2Z.id. symmetry. apply nth_error_nth; exact Hr.
    - unfold hget. rewrite Nat2Z.id. rewrite nth_error_map in Ha.
      destruct (nth_error st i) as [h|] eqn:E; [|discriminate]. cbn in Ha. inversion Ha.
      rewrite (nth_error_nth _ _ _ E). reflexivity. }
  split; [rewrite map_length; exact Hlen|]. split.
  - intros i j r1 r2 a1 a2 Hne Hr1 Hr2 Ha1 Ha2 Hov.
    destruct (Hn i r1 a1 Hr1 Ha1) as (Hi & -> & ->). destruct (Hn j r2 a2 Hr2 Ha2) as (Hj & -> & ->).
    destruct Hi as [Hi0 Hi1]. destruct Hj as [Hj0 Hj1]. unfold zlen in *.
    apply Hdis; unfold inr, zlen; try lia; try (apply Hall; lia). exact Hov.
  - intros i r a Hr Ha. destruct (Hn i r a Hr Ha) as ([Hi0 Hi1] & -> & ->). unfold zlen in *.
    destruct (Hw (Z.of_nat i)) as (_ & H1 & H2); [lia | apply Hall; lia | auto].
Qed.

(* ---------- sum bound for the initial pass ---------- *)
Definition footprint_bound (lrs : list lr) : Z :=
  fold_right (fun r s => lr_size r + lr_align r + s) 0 lrs.

Lemma sum_bound_perm : forall lrs a b, Permutation a b -> sum_bound lrs a = sum_bound lrs b.
Proof. intros lrs a b H. induction H; cbn [sum_bound]; lia. Qed.

Lemma sum_bound_range : forall l pre,
  sum_bound (pre ++ l) (zrange (zlen pre) (length l)) = footprint_bound l.
Proof.
  induction l as [|r rest IH]; intros pre; cbn [length zrange sum_bound footprint_bound fold_right]; [reflexivity|].
  assert (E : lget (pre ++ r :: rest) (zlen pre) = r).
  { unfold lget, zlen. rewrite Nat2Z.id. rewrite app_nth2 by lia. rewrite Nat.sub_diag. reflexivity. }
  rewrite E. specialize (IH (pre ++ [r])). rewrite <- app_assoc in IH. cbn [app] in IH.
  replace (zlen (pre ++ [r])) with (zlen pre + 1) in IH by (unfold zlen; rewrite app_length; cbn; lia).
  rewrite IH. reflexivity.
Qed.

Lemma hc_keys_ids : forall all l i0, map (fun k => fst (fst k)) (hc_keys all l i0) = zrange i0 (length l).
Proof. induction l as [|r rest IH]; intros i0; cbn [hc_keys map length zrange fst]; [reflexivity|]. rewrite IH. reflexivity. Qed.

Lemma initial_indices_perm : forall lrs, Permutation (initial_indices lrs) (zrange 0 (length lrs)).
Proof.
  intros lrs. unfold initial_indices. rewrite <- (hc_keys_ids lrs lrs 0).
  apply Permutation_map. apply Permutation_sym. apply sort_by_perm.
Qed.

Lemma initial_indices_covers : forall lrs, covers (length lrs) (initial_indices lrs).
Proof.
  intros lrs i Hi. apply (Permutation_in _ (Permutation_sym (initial_indices_perm lrs))). apply in_zrange. lia.
Qed.

Lemma initial_sum_bound : forall lrs, sum_bound lrs (initial_indices lrs) = footprint_bound lrs.
Proof.
  intros lrs. rewrite (sum_bound_perm _ _ _ (initial_indices_perm lrs)).
  exact (sum_bound_range lrs []).
Qed.

Lemma hillclimb_nil : forall S next mi limit s, hillclimb S next [] mi limit s = Ok ([], 0, 0, 0).
Proof. reflexivity. Qed.

Lemma hillclimb_nonempty : forall S next lrs mi limit s, lrs <> [] ->
  hillclimb S next lrs mi limit s =
  let nbrs := all_neighbours lrs in
  let minreq := min_required_size lrs in
  let maxit := match mi with None => MAX_ITERATIONS | Some m => m end in
  let idx := initial_indices lrs in
  match allocate_indices lrs nbrs (2 ^ 63) idx (initial_state lrs) with
  | Err c => Err c
  | Ok (st1, best) =>
      let x := mkSS S (s, 0) st1 idx idx best 0 0 (map h_addr st1) in
      if best >? minreq then search S next lrs nbrs minreq maxit limit x else ss_result S x
  end.
Proof. intros S next [|r l] mi limit s H; [contradiction | reflexivity]. Qed.

Section Search.
  Variable S : Type.
  Variable next : S -> Z * S.

  Lemma attempt_keeps : forall lrs nbrs st idx stuck s idx' s' x,
    attempt_bottleneck_fix S next lrs nbrs st idx stuck s = Ok (idx', s') -> In x idx -> In x idx'.
  Proof.
    intros lrs nbrs st idx stuck s idx' s' x H Hin. unfold attempt_bottleneck_fix in H.
    repeat match type of H with
           | match ?e with _ => _ end = _ => destruct e eqn:?; try discriminate
           | (if ?e then _ else _) = _ => destruct e eqn:?; try discriminate
           end;
    inversion H; subst;
    repeat match goal with
           | Hs : zswap _ _ _ = Ok _ |- _ => pose proof (zswap_keeps _ _ _ _ x Hs); clear Hs
           end; auto.
  Qed.

  Variable lrs : list lr.
  Hypothesis Hwf : Forall hc_wf lrs.
  Let nbrs := all_neighbours lrs.

  Lemma nbrs_ok : nbrs_complete lrs nbrs.
  Proof.
    apply all_neighbours_complete. intros r Hr. rewrite Forall_forall in Hwf. destruct (Hwf r Hr); auto.
  Qed.

  Definition sinv (x : sstate S) : Prop :=
    hc_valid lrs (ss_addrs S x) /\ length (ss_st S x) = length lrs /\
    covers (length lrs) (ss_idx S x) /\ covers (length lrs) (ss_bidx S x).

  Definition rvalid (r : sresult) : Prop :=
    match r with Ok (addrs, _, _, _) => hc_valid lrs addrs | Err _ => True end.

  Lemma search_step_inv : forall minreq maxit limit x, sinv x ->
    match search_step S next lrs nbrs minreq maxit limit x with Continue x' => sinv x' | Done r => rvalid r end.
  Proof.
    intros minreq maxit limit x (Hv & Hl & Hc & Hb). unfold search_step.
    destruct (_ || _); [|exact Hv].
    destruct (attempt_bottleneck_fix _ _ _ _ _ _ _ _) as [[idx1 rng1]|c] eqn:Ea; [|exact I].
    assert (Hc1 : covers (length lrs) idx1) by (intros i Hi; eapply attempt_keeps; eauto).
    destruct (allocate_indices lrs nbrs (ss_best S x) idx1 (ss_st S x)) as [[st1 new_size]|c] eqn:Eal; [|exact I].
    destruct (allocate_indices_spec lrs nbrs nbrs_ok Hwf _ _ _ _ _ Hl Eal) as (A1 & A2 & A3 & A4 & A5).
    destruct (Z.leb_spec new_size (ss_best S x)) as [Hle|Hgt].
    - assert (Hv1 : hc_valid lrs (map h_addr st1)).
      { apply pass_valid; [exact A1 | exact A2 |]. intros i Hi. apply A5; [exact Hle | apply Hc1; exact Hi]. }
      destruct (new_size <=? minreq); [exact Hv1|].
      unfold sinv; cbn. auto.
    - unfold sinv; cbn. auto.
  Qed.

  Lemma search_valid : forall minreq maxit limit x, sinv x -> rvalid (search S next lrs nbrs minreq maxit limit x).
  Proof.
    intros minreq maxit limit x Hx. unfold search.
    pose proof (iter_pos_inv _ _ sinv rvalid _ (search_step_inv minreq maxit limit)
                  (search_fuel minreq maxit (ss_best S x)) x Hx) as H.
    destruct (iter_pos _ _ x); [exact I | exact H].
  Qed.

  Lemma hillclimb_valid_lemma : forall mi limit s addrs best iters draws,
    footprint_bound lrs <= 2 ^ 63 ->
    hillclimb S next lrs mi limit s = Ok (addrs, best, iters, draws) -> hc_valid lrs addrs.
  Proof.
    intros mi limit s addrs best iters draws Hfb H.
    destruct (Nat.eq_dec (length lrs) 0) as [E0|E0].
    { apply length_zero_iff_nil in E0. rewrite E0 in *. rewrite hillclimb_nil in H.
      inversion H; subst. split; [reflexivity|]. split.
      - intros i j r1 r2 a1 a2 _ Hr. destruct i; discriminate.
      - intros i r a Hr. destruct i; discriminate. }
    rewrite hillclimb_nonempty in H by (intros C; rewrite C in E0; apply E0; reflexivity).
    cbv zeta in H. fold nbrs in H.
    destruct (allocate_indices lrs nbrs (2 ^ 63) (initial_indices lrs) (initial_state lrs)) as [[st1 b0]|c] eqn:Eal;
      [|discriminate].
    assert (Hl0 : length (initial_state lrs) = length lrs) by (unfold initial_state; apply map_length).
    destruct (allocate_indices_spec lrs nbrs nbrs_ok Hwf _ _ _ _ _ Hl0 Eal) as (A1 & A2 & A3 & A4 & A5).
    rewrite initial_sum_bound in A4.
    assert (Hv1 : hc_valid lrs (map h_addr st1)).
    { apply pass_valid; [exact A1 | exact A2 |]. intros i Hi. apply A5; [lia | apply initial_indices_covers; exact Hi]. }
    set (x0 := mkSS S (s, 0) st1 (initial_indices lrs) (initial_indices lrs) b0 0 0 (map h_addr st1)) in *.
    assert (Hx0 : sinv x0).
    { unfold sinv, x0; cbn. split; [exact Hv1|]. split; [exact A1|]. split; apply initial_indices_covers. }
    destruct (b0 >? min_required_size lrs).
    - pose proof (search_valid (min_required_size lrs)
                    (match mi with None => MAX_ITERATIONS | Some m => m end) limit x0 Hx0) as Hs.
      rewrite H in Hs. exact Hs.
    - unfold ss_result in H. inversion H; subst. exact Hv1.
  Qed.
End Search.
