(* HillClimb: which outcomes are possible.  For every stream the run ends, within the iteration bound,
   in a result or in one of the modelled exceptions 1 (ValueError of randint), 2 (IndexError),
   3 (predecessor walk); the fuel errors 4 and 5 are impossible. *)
From Coq Require Import ZArith List Bool Lia.
From VV Require Import lib.PyInt model.Alloc proofs.AllocProofs proofs.AllocHillProofs proofs.AllocHillNbrProofs
  proofs.AllocHillSearchProofs proofs.AllocHillPeakProofs proofs.AllocHillTermProofs.
Import ListNotations.
Open Scope Z_scope.

Definition code123 (c : Z) : Prop := c = 1 \/ c = 2 \/ c = 3.

Lemma pred_walk_codes : forall fuel st id tl c, pred_walk fuel st id tl = Err c -> code123 c.
Proof.
  induction fuel as [|f IH]; intros st id tl c H; cbn [pred_walk] in H.
  - destruct (zget st id); [|inversion H; unfold code123; lia].
    destruct (h_pred h =? NO_PREDECESSOR); [discriminate | inversion H; unfold code123; lia].
  - destruct (zget st id); [|inversion H; unfold code123; lia].
    destruct (h_pred h =? NO_PREDECESSOR); [discriminate|].
    destruct (zget st (h_pred h)); [eapply IH; eauto | inversion H; unfold code123; lia].
Qed.

Lemma add_predecessor_turns_codes : forall st tl id c, add_predecessor_turns st tl id = Err c -> code123 c.
Proof.
  intros st tl id c H. unfold add_predecessor_turns in H.
  destruct (zget st id); [eapply pred_walk_codes; eauto | inversion H; unfold code123; lia].
Qed.

Lemma add_pred_list_codes : forall st ids tl c, add_pred_list st tl ids = Err c -> code123 c.
Proof.
  intros st. induction ids as [|j r IH]; intros tl c H; cbn [add_pred_list] in H; [discriminate|].
  destruct (add_predecessor_turns st tl j) eqn:E; [eapply IH; eauto|].
  inversion H; subst. eapply add_predecessor_turns_codes; eauto.
Qed.

Lemma non_nb_turns_codes : forall lrs idx mx tl c, non_nb_turns lrs idx mx tl = Err c -> code123 c.
Proof.
  intros lrs idx mx. induction tl as [|t r IH]; intros c H; cbn [non_nb_turns] in H; [discriminate|].
  destruct (zget idx t); [|inversion H; unfold code123; lia].
  destruct (zget lrs z); [|inversion H; unfold code123; lia].
  destruct (non_nb_turns lrs idx mx r) eqn:E; [discriminate|]. inversion H; subst. apply IH; reflexivity.
Qed.

Lemma add_nb_turns_codes : forall st nb tl c, add_nb_turns st tl nb = Err c -> code123 c.
Proof.
  intros st. induction nb as [|j r IH]; intros tl c H; cbn [add_nb_turns] in H; [discriminate|].
  destruct (zget st j); [eapply IH; eauto | inversion H; unfold code123; lia].
Qed.

Lemma add_more_turns_codes : forall nbrs st idx nn tl c, add_more_turns nbrs st idx tl nn = Err c -> code123 c.
Proof.
  intros nbrs st idx. induction nn as [|t r IH]; intros tl c H; cbn [add_more_turns] in H; [discriminate|].
  destruct (zget idx t); [|inversion H; unfold code123; lia].
  destruct (zget nbrs z); [|inversion H; unfold code123; lia].
  destruct (add_nb_turns st tl l) eqn:E; [eapply IH; eauto|].
  inversion H; subst. eapply add_nb_turns_codes; eauto.
Qed.

Lemma zswap_codes : forall l i j c, zswap l i j = Err c -> code123 c.
Proof.
  intros l i j c H. unfold zswap in H. destruct (zget l i); destruct (zget l j); inversion H; unfold code123; lia.
Qed.

Section Outcome.
  Variable S : Type.
  Variable next : S -> Z * S.

  Lemma randint_codes : forall lo hi s c, randint S next lo hi s = Err c -> code123 c.
  Proof.
    intros lo hi s c H. unfold randint in H. destruct (hi <? lo); [inversion H; unfold code123; lia|].
    destruct (next (fst s)); discriminate.
  Qed.

  Lemma pick_codes : forall l off s c, pick S next l off s = Err c -> code123 c.
  Proof.
    intros l off s c H. unfold pick in H.
    destruct (randint S next 0 (zlen l - off) s) as [[k s']|c'] eqn:E.
    - destruct (zget l k); [discriminate | inversion H; unfold code123; lia].
    - inversion H; subst. eapply randint_codes; eauto.
  Qed.

  Lemma pick2_codes : forall l s c, pick2 S next l s = Err c -> code123 c.
  Proof.
    intros l s c H. unfold pick2 in H.
    destruct (randint S next 0 (Z.max (zlen l - 2) 0) s) as [[k s']|c'] eqn:E.
    - destruct (zget l k); [discriminate | inversion H; unfold code123; lia].
    - inversion H; subst. eapply randint_codes; eauto.
  Qed.

  Lemma attempt_codes : forall lrs nbrs st idx stuck s c,
    attempt_bottleneck_fix S next lrs nbrs st idx stuck s = Err c -> code123 c.
  Proof.
    intros lrs nbrs st idx stuck s c H. unfold attempt_bottleneck_fix in H.
    repeat match type of H with
           | match ?e with _ => _ end = _ => destruct e eqn:?; try discriminate
           | (if ?e then _ else _) = _ => destruct e eqn:?; try discriminate
           end;
    inversion H; subst;
    first [ eapply add_predecessor_turns_codes; eassumption
          | eapply add_pred_list_codes; eassumption
          | eapply non_nb_turns_codes; eassumption
          | eapply randint_codes; eassumption
          | eapply pick_codes; eassumption
          | eapply pick2_codes; eassumption
          | eapply zswap_codes; eassumption
          | eapply add_more_turns_codes; eassumption
          | match goal with Hq : (if ?b then _ else _) = Err _ |- _ => destruct b; eapply pick_codes; eassumption end
          | unfold code123; lia ].
  Qed.

  Variable lrs : list lr.
  Hypothesis Hwf : Forall hc_wf lrs.
  Variable nbrs : list (list Z).

  Lemma lget_align_pos : forall i, 0 < lr_align (lget lrs i).
  Proof.
    intros i. unfold lget. destruct (Nat.ltb_spec (Z.to_nat i) (length lrs)).
    - rewrite Forall_forall in Hwf. destruct (Hwf (nth (Z.to_nat i) lrs lr_default)) as (_ & _ & ?); auto.
      apply nth_In; exact H.
    - rewrite nth_overflow by exact H. cbn. lia.
  Qed.

  Lemma alloc_loop_codes : forall best idx turn size st c,
    alloc_loop lrs nbrs best idx turn size st = Err c -> code123 c.
  Proof.
    intros best. induction idx as [|i rest IH]; intros turn size st c H; cbn [alloc_loop] in H; [discriminate|].
    destruct (zget st i); [|inversion H; unfold code123; lia].
    destruct (allocate_lr_terminates_lemma lrs nbrs st i (lget_align_pos i)) as [st1 E]. rewrite E in H.
    destruct (_ >? best); [discriminate|]. eapply IH; eauto.
  Qed.

  Definition outcome_ok (r : sresult) : Prop := match r with Ok _ => True | Err c => code123 c end.

  Lemma search_step_codes : forall minreq maxit limit x,
    match search_step S next lrs nbrs minreq maxit limit x with Continue _ => True | Done r => outcome_ok r end.
  Proof.
    intros minreq maxit limit x. unfold search_step.
    destruct (_ || _); [|exact I].
    destruct (attempt_bottleneck_fix _ _ _ _ _ _ _ _) as [[idx1 rng1]|c] eqn:Ea; [|cbn; eapply attempt_codes; eauto].
    destruct (allocate_indices lrs nbrs (ss_best S x) idx1 (ss_st S x)) as [[st1 ns]|c] eqn:Eal;
      [|cbn; unfold allocate_indices in Eal; eapply alloc_loop_codes; eauto].
    destruct (ns <=? ss_best S x); [|exact I]. destruct (ns <=? minreq); exact I.
  Qed.

  Lemma search_outcome : forall minreq maxit limit x,
    ss_last S x = 0 -> ss_i S x = 0 -> minreq < ss_best S x ->
    outcome_ok (search S next lrs nbrs minreq maxit limit x).
  Proof.
    intros minreq maxit limit x Hl Hi Hb. unfold search.
    destruct (search_loop_terminates_lemma S next lrs nbrs minreq maxit limit x Hl Hi Hb) as [r Hr].
    rewrite Hr.
    pose proof (iter_pos_inv _ _ (fun _ : sstate S => True) outcome_ok (search_step S next lrs nbrs minreq maxit limit)
                  (fun s _ => search_step_codes minreq maxit limit s)
                  (search_fuel minreq maxit (ss_best S x)) x I) as V.
    rewrite Hr in V. exact V.
  Qed.
End Outcome.

(* top level: outcome and iteration bound in terms of the input only *)
Definition hc_iteration_bound (lrs : list lr) (mi : option Z) : Z :=
  Z.max 0 (Z.max (match mi with None => MAX_ITERATIONS | Some m => m end) MIN_ITERATIONS_IMPROVE
           + MIN_ITERATIONS_IMPROVE * (footprint_bound lrs - min_required_size lrs - 1)).

Lemma hillclimb_terminates_lemma : forall (S : Type) (next : S -> Z * S) lrs mi limit s,
  Forall hc_wf lrs -> footprint_bound lrs <= 2 ^ 63 ->
  match hillclimb S next lrs mi limit s with
  | Ok (_, _, iters, _) => 0 <= iters <= hc_iteration_bound lrs mi
  | Err c => code123 c
  end.
Proof.
  intros S next lrs mi limit s Hwf Hfb.
  destruct (Nat.eq_dec (length lrs) 0) as [E0|E0].
  { apply length_zero_iff_nil in E0. subst lrs. rewrite hillclimb_nil. unfold hc_iteration_bound. lia. }
  rewrite hillclimb_nonempty by (intros C; rewrite C in E0; apply E0; reflexivity). cbv zeta.
  destruct (allocate_indices lrs (all_neighbours lrs) (2 ^ 63) (initial_indices lrs) (initial_state lrs))
    as [[st1 b0]|c] eqn:Eal; [|unfold allocate_indices in Eal; eapply alloc_loop_codes; eauto].
  assert (Hl0 : length (initial_state lrs) = length lrs) by (unfold initial_state; apply map_length).
  destruct (allocate_indices_spec lrs (all_neighbours lrs) (nbrs_ok lrs Hwf) Hwf _ _ _ _ _ Hl0 Eal) as (_ & _ & _ & A4 & _).
  rewrite initial_sum_bound in A4.
  set (maxit := match mi with None => MAX_ITERATIONS | Some m => m end).
  set (x0 := mkSS S (s, 0) st1 (initial_indices lrs) (initial_indices lrs) b0 0 0 (map h_addr st1)).
  destruct (Z.gtb_spec b0 (min_required_size lrs)) as [Hgt|Hle].
  - pose proof (search_outcome S next lrs Hwf (all_neighbours lrs) (min_required_size lrs) maxit limit x0
                  eq_refl eq_refl Hgt) as O.
    pose proof (search_iterations_bound_lemma S next lrs (all_neighbours lrs) (min_required_size lrs) maxit limit x0
                  eq_refl eq_refl Hgt) as B.
    destruct (search S next lrs (all_neighbours lrs) (min_required_size lrs) maxit limit x0) as [[[[ad bs] it] dr]|c];
      [|exact O].
    cbn in B. unfold mu0 in B. cbn [ss_best x0] in B. unfold hc_iteration_bound. fold maxit.
    unfold MIN_ITERATIONS_IMPROVE in *. lia.
  - cbn. unfold hc_iteration_bound. lia.
Qed.
