(* Refutation witnesses (computed on the model, replayed on the real Python by tools/checks/c05.py)
   and instances showing that the hypotheses of the C05 theorems are satisfiable. *)
From Coq Require Import ZArith List Bool Lia.
From VV Require Import lib.PyInt model.Alloc proofs.AllocProofs proofs.AllocGreedyProofs proofs.AllocLinearProofs
  proofs.AllocHillProofs proofs.AllocHillSearchProofs proofs.AllocAlignProofs proofs.AllocDispatchProofs.
Import ListNotations.
Open Scope Z_scope.

(* ---------- Greedy with a zero-size range: two non-empty co-live buffers overlap ---------- *)
Definition zero_size_witness : list lr :=
  [mkLr 0 2 48 16 0; mkLr 0 3 16 16 1; mkLr 1 3 16 16 2; mkLr 1 3 0 16 3].

Lemma greedy_zero_size_refuted_lemma :
  exists lrs out m r1 a1 r2 a2 i j,
    Forall (fun r => 0 <= lr_size r /\ 0 < lr_align r) lrs /\ greedy lrs = (out, m) /\ i <> j /\
    nth_error out i = Some (r1, a1) /\ nth_error out j = Some (r2, a2) /\
    0 < lr_size r1 /\ 0 < lr_size r2 /\ time_overlap r1 r2 /\ ~ disjoint a1 (lr_size r1) a2 (lr_size r2).
Proof.
  exists zero_size_witness.
  eexists. eexists. eexists. eexists. eexists. eexists. exists 0%nat, 3%nat.
  split; [repeat constructor; cbn; lia|].
  split; [vm_compute; reflexivity|].
  split; [lia|]. split; [reflexivity|]. split; [reflexivity|].
  cbn. unfold time_overlap, disjoint. cbn. repeat split; lia.
Qed.

(* ---------- HillClimb: random.randint(0, len(turn_list) - 2) with a one-element turn_list (old code) ---------- *)
Definition p8_witness : list lr :=
  [mkLr 3 3 100 128 0; mkLr 1 2 100 16 1; mkLr 0 1 1 32 2; mkLr 1 1 16 32 3; mkLr 2 3 1 64 4].
(* the results of random.randint after random.seed(1) on this input (recorded from the real allocator) *)
Definition p8_stream : list Z :=
  [17; 0; 0; 15; 1; 1; 60; 2; 1; 100; 0; 0; 62; 0; 1; 55; 4; 0; 89; 1; 1; 92; 0; 0; 40; 0; 0; 3; 2; 0; 48; 2; 0; 54; 2; 0; 67; 0; 1; 63; 4; 1; 44; 1; 1; 97; 3; 1; 2; 0; 0; 23; 0; 0; 95; 2; 2; 91; 2; 1; 64; 2; 0; 38; 1; 1; 64; 1; 0; 61; 0; 0; 53; 0; 0; 70; 1; 0; 56; 0; 0; 66; 1; 0; 62; 0; 0; 5; 1; 0; 82; 0; 0; 64; 0; 0; 98; 0; 0; 51; 1; 0; 58; 1; 0; 49; 0; 0; 54; 0; 0; 46; 0; 0; 62; 1; 0; 44; 0; 0; 58; 0; 0; 81; 0; 0; 11; 1; 0; 86; 0; 0; 2; 1; 0; 96; 1; 0; 34; 0; 0; 44; 1; 0; 21; 0; 0; 67; 0; 0; 82; 1; 0; 89; 1; 0; 60; 0; 0; 39; 1; 0; 53; 0; 0; 0; 1; 93; 2; 0; 2; 1; 2; 0; 0; 1; 0; 4; 0; 3; 4; 3; 69; 0; 1; 0; 2; 83; 0; 1; 2; 2; 41; 3; 0; 2; 1; 27; 0; 0; 0; 0; 39; 1; 0; 1; 1; 16; 0; 0; 0; 1; 21; 2; 0; 1; 0; 44; 0; 1; 4; 3; 75; 1; 3; 0; 3; 37; 1; 0; 1; 1; 36; 0; 0; 1; 2; 72; 1; 1; 3; 1; 34; 2; 0; 1; 2; 44; 2; 1; 2; 0; 8; 0; 0; 1; 1; 21; 2; 0; 1; 1; 76; 2; 1; 1; 1; 43; 0; 0; 0; 1; 17; 2; 0; 1; 0; 52; 0; 3; 1; 1; 43; 0; 1; 0; 2; 70; 0; 0; 1; 1; 37; 2; 0; 1; 1; 13; 0; 1; 0; 2; 85; 0; 0; 1; 0; 5; 0; 1; 4; 3; 20; 0; 0; 0; 0; 20; 0; 0; 1; 1; 70; 1; 0; 1; 0; 26; 2; 1; 0; 0; 1; 1; 1; 1; 1; 40; 1; 0; 0; 1; 76; 1; 0; 1; 0; 100; 2; 1; 2; 1; 33; 0; 0; 1; 0; 31; 2; 0; 2; 0; 96; 1; 0; 2; 2; 82; 2; 1; 3; 2; 5; 0; 0; 1; 2; 38; 0; 1; 0; 2; 78; 2; 0; 0; 0; 2; 0; 1; 0; 1; 70; 0; 0; 0; 2; 1; 1; 1; 1; 1; 19; 0; 1; 0; 2; 85; 0; 0; 0; 0; 40; 1; 0; 2; 2; 77; 2; 1; 1; 1; 69; 0; 1; 1; 1; 38; 0].

(* The code BEFORE the repair of P8 (random.randint(0, len(turn_list) - 2) without the max): the same
   definitions as model/Alloc.v with that one bound changed.  Kept only to record the defect. *)
Section OldCode.
  Variable S : Type.
  Variable next : S -> Z * S.
  Definition old_attempt_bottleneck_fix (lrs : list lr) (nbrs : list (list Z)) (st : list hinfo) (idx : list Z)
             (stuck : Z) (s : S * Z) : res (list Z * (S * Z)) :=
    let mx := bottleneck st in
    match zget lrs mx, zget nbrs mx with
    | Some mxr, Some mxn =>
      match add_predecessor_turns st [] mx with
      | Err c => Err c
      | Ok tl0 =>
        match add_pred_list st tl0 mxn with
        | Err c => Err c
        | Ok tl =>
          match non_nb_turns lrs idx mxr tl with
          | Err c => Err c
          | Ok nn =>
            match randint S next 0 100 s with
            | Err c => Err c
            | Ok (r0, s0) =>
              match (if (r0 <? 30) && negb (zlen nn =? 0) then pick S next nn 1 s0 else pick S next tl 1 s0) with
              | Err c => Err c
              | Ok (ix1, s1) =>
                match pick S next tl 2 s1 with
                | Err c => Err c
                | Ok (ix2a, s2) =>
                  let ix2 := if ix1 =? ix2a then last tl 0 else ix2a in
                  match zswap idx ix1 ix2 with
                  | Err c => Err c
                  | Ok idx1 =>
                    if stuck >? MAX_ITERATIONS_STUCK then
                      match add_more_turns nbrs st idx1 tl nn with
                      | Err c => Err c
                      | Ok tl2 =>
                        match pick S next tl2 1 s2 with
                        | Err c => Err c
                        | Ok (jx1, s3) =>
                          match pick S next tl2 1 s3 with
                          | Err c => Err c
                          | Ok (jx2, s4) =>
                            match zswap idx1 jx1 jx2 with
                            | Err c => Err c
                            | Ok idx2 => Ok (idx2, s4)
                            end
                          end
                        end
                      end
                    else Ok (idx1, s2)
                  end
                end
              end
            end
          end
        end
      end
    | _, _ => Err 2
    end.

  Definition old_search_step (lrs : list lr) (nbrs : list (list Z)) (minreq maxit limit : Z) (x : sstate S)
    : step_res (sstate S) sresult :=
    if ((ss_best S x >? limit) && (ss_i S x <? maxit)) || (ss_i S x - ss_last S x <? MIN_ITERATIONS_IMPROVE) then
      match old_attempt_bottleneck_fix lrs nbrs (ss_st S x) (ss_idx S x) (ss_i S x - ss_last S x) (ss_rng S x) with
      | Err c => Done (Err c)
      | Ok (idx1, rng1) =>
        match allocate_indices lrs nbrs (ss_best S x) idx1 (ss_st S x) with
        | Err c => Done (Err c)
        | Ok (st1, new_size) =>
          if new_size <=? ss_best S x then
            let last1 := if new_size <? ss_best S x then ss_i S x else ss_last S x in
            let x1 := mkSS S rng1 st1 idx1 idx1 new_size last1 (ss_i S x) (map h_addr st1) in
            if new_size <=? minreq then Done (ss_result S x1)
            else Continue (mkSS S rng1 st1 idx1 idx1 new_size last1 (ss_i S x + 1) (map h_addr st1))
          else
            Continue (mkSS S rng1 st1 (ss_bidx S x) (ss_bidx S x) (ss_best S x) (ss_last S x) (ss_i S x + 1) (ss_addrs S x))
        end
      end
    else Done (ss_result S x).

  Definition old_search (lrs : list lr) (nbrs : list (list Z)) (minreq maxit limit : Z) (x : sstate S) : sresult :=
    match iter_pos (search_fuel minreq maxit (ss_best S x)) (old_search_step lrs nbrs minreq maxit limit) x with
    | Done r => r
    | Continue _ => Err 5
    end.

  Definition old_hillclimb (lrs : list lr) (max_iterations : option Z) (limit : Z) (s : S) : sresult :=
    match lrs with
    | [] => Ok ([], 0, 0, 0)
    | _ =>
      let nbrs := all_neighbours lrs in
      let minreq := min_required_size lrs in
      let maxit := match max_iterations with None => MAX_ITERATIONS | Some m => m end in
      let idx := initial_indices lrs in
      match allocate_indices lrs nbrs (2 ^ 63) idx (initial_state lrs) with
      | Err c => Err c
      | Ok (st1, best) =>
          let x := mkSS S (s, 0) st1 idx idx best 0 0 (map h_addr st1) in
          if best >? minreq then old_search lrs nbrs minreq maxit limit x
          else ss_result S x
      end
    end.
End OldCode.

Lemma hillclimb_randint_old_code_refuted_lemma :
  exists lrs mi limit s,
    Forall hc_wf lrs /\ footprint_bound lrs <= 2 ^ 63 /\
    old_hillclimb (list Z) next_list lrs mi limit s = Err 1.
Proof.
  exists p8_witness, (Some 0), (2 ^ 32), p8_stream.
  split; [repeat constructor; cbn; lia|]. split; [vm_compute; discriminate|].
  vm_compute. reflexivity.
Qed.

(* the repaired code on the same input and stream: a result *)
Example hillclimb_p8_witness_now_ok :
  exists addrs best iters draws,
    hillclimb (list Z) next_list p8_witness (Some 0) (2 ^ 32) p8_stream = Ok (addrs, best, iters, draws) /\ iters = 503.
Proof. eexists. eexists. eexists. eexists. split; vm_compute; reflexivity. Qed.

(* ---------- satisfiable hypotheses ---------- *)
(* four ranges, two alignments larger than the size, a gap below the last buffer *)
Definition ex_lrs : list lr := [mkLr 0 3 48 16 0; mkLr 1 1 17 64 1; mkLr 2 4 100 32 2; mkLr 4 4 16 128 3].

Example greedy_example :
  Forall g_wf ex_lrs /\
  greedy ex_lrs = ([(mkLr 0 3 48 16 0, 0); (mkLr 1 1 17 64 1, 64); (mkLr 2 4 100 32 2, 64); (mkLr 4 4 16 128 3, 256)], 384).
Proof. split; [repeat constructor; cbn; lia | vm_compute; reflexivity]. Qed.

Example hillclimb_example :
  Forall hc_wf ex_lrs /\ footprint_bound ex_lrs <= 2 ^ 63 /\
  hillclimb (list Z) next_list ex_lrs (Some 7) 0 [5; 1; 0; 40; 2; 1] = Ok ([112; 0; 0; 128], 160, 500, 2398) /\
  min_required_size ex_lrs = 148 /\ hc_total ex_lrs [112; 0; 0; 128] 0 = 160.
Proof.
  split; [repeat constructor; cbn; lia|]. split; [vm_compute; discriminate|].
  split; [vm_compute; reflexivity|]. split; vm_compute; reflexivity.
Qed.

(* six tensors, one pair with equal compression config, one pair of equivalent LUTs *)
Definition ex_lin : list lin :=
  [mkLin 48 0 7 0 10; mkLin 17 1 7 0 11; mkLin 100 0 7 1 12; mkLin 17 1 7 0 13; mkLin 100 0 7 1 12; mkLin 16 0 7 0 14].

Example linear_example :
  (forall e, In e ex_lin -> 0 <= l_size e) /\
  (forall e1 e2, In e1 ex_lin -> In e2 ex_lin -> linked e1 e2 -> l_size e1 = l_size e2) /\
  linear 16 ex_lin = Ok ([0; 48; 80; 48; 80; 192], 208).
Proof.
  split; [|split].
  - intros e H. cbn in H. repeat (destruct H as [<-|H]; [cbn; lia|]). destruct H.
  - intros e1 e2 H1 H2 L. cbn in H1, H2.
    repeat (destruct H1 as [<-|H1]; [repeat (destruct H2 as [<-|H2]; [try reflexivity; exfalso; destruct L as [[L1 L2]|L]; cbn in *; lia|]); destruct H2|]).
    destruct H1.
  - vm_compute. reflexivity.
Qed.

(* the dispatcher with LinearAlloc and a requested alignment of 128 on the four ranges above (alignments 16, 64, 32, 128
   all divide 128): every address is a multiple of 128 *)
Example allocate_example :
  Forall (d_wf 128) ex_lrs /\
  allocate (list Z) next_list 1 128 ex_lrs None 0 [] = ByIndex (Ok ([0; 128; 256; 384], 512)).
Proof.
  split; [|vm_compute; reflexivity].
  repeat constructor; cbn; try lia; [exists 8 | exists 2 | exists 4 | exists 1]; lia.
Qed.

(* a tensor requested with 64, then 16 (seen again inside the NPU subgraph), another one with 16 then 32 then 16 *)
Example range_alignments_example :
  range_alignments [(7, 64); (9, 16); (7, 16); (9, 32); (9, 16)] = [(7, 64); (9, 32)] /\
  div_chain (requests_of 7 [(7, 64); (9, 16); (7, 16); (9, 32); (9, 16)]).
Proof.
  split; [vm_compute; reflexivity|]. apply pow2_chain. cbn. intros x [<-|[<-|[]]]; [exists 6 | exists 4]; split; lia.
Qed.
