(* Proofs about model/Config.v (C18). *)
From Coq Require Import ZArith List Bool Lia Arith.
From VV Require Import model.Config.
Import ListNotations.
Open Scope Z_scope.

(* ------------------------------------------------------------------------------------------ *)
(* basics                                                                                      *)
Lemma text_eqb_eq a b : text_eqb a b = true <-> a = b.
Proof.
  destruct a, b; cbn [text_eqb]; split; intro H; try discriminate; try (apply Z.eqb_eq in H; now subst);
    inversion H; apply Z.eqb_refl.
Qed.

Lemma text_eqb_refl a : text_eqb a a = true.
Proof. now apply text_eqb_eq. Qed.

Lemma text_eqb_neq a b : text_eqb a b = false <-> a <> b.
Proof.
  split.
  - intros H E. apply text_eqb_eq in E. congruence.
  - intro H. destruct (text_eqb a b) eqn:E; auto. apply text_eqb_eq in E. contradiction.
Qed.

Lemma to_option_bind {A B} (m : res A) (f : A -> res B) :
  to_option (bind m f) = obind (to_option m) (fun x => to_option (f x)).
Proof. destruct m; reflexivity. Qed.

Lemma last_cons_nonempty {A} (x : A) l d : l <> [] -> last (x :: l) d = last l d.
Proof. destruct l; [congruence | reflexivity]. Qed.

(* ------------------------------------------------------------------------------------------ *)
(* _read_config is completely described by the lineage walk                                    *)
Definition is_some {A} (o : option A) : bool := match o with Some _ => true | None => false end.

Lemma read_config_total : forall fuel c s k cur,
  match walk fuel c s with
  | None => read_config fuel c s k cur = Err ERecursion
  | Some (l, ORoot) =>
      exists fl, read_config fuel c s k cur = Ok (odflt cur (nearest c l k), fl)
                 /\ fl <> [] /\ last fl false = is_some (nearest c l k)
  | Some (_, _) => read_config fuel c s k cur = Err EVela
  end.
Proof.
  induction fuel as [|f IH]; intros c s k cur; cbn [walk read_config]; [reflexivity|].
  destruct (has_section c s) eqn:Hs; cbn [negb]; [|reflexivity].
  destruct (get_opt c s K_inherit) as [p|] eqn:Hi.
  - destruct (text_eqb p s) eqn:Hp; [reflexivity|].
    specialize (IH c p k cur).
    destruct (walk f c p) as [[l o]|].
    + destruct o; try (rewrite IH; reflexivity).
      destruct IH as (fl & -> & Hne & Hl).
      cbn [nearest]. destruct (get_opt c s k) as [v|] eqn:Hk.
      * exists ((false :: fl) ++ [true]). repeat split.
        -- intro E. destruct fl; discriminate.
        -- apply last_last.
      * exists (false :: fl). repeat split; try discriminate.
        rewrite last_cons_nonempty by assumption. exact Hl.
    + rewrite IH. reflexivity.
  - cbn [nearest]. destruct (get_opt c s k) as [v|] eqn:Hk.
    + exists ([false] ++ [true]). repeat split; discriminate.
    + exists [false]. repeat split; discriminate.
Qed.

(* ------------------------------------------------------------------------------------------ *)
(* the walk: monotone in the fuel, deterministic, without repetition, inside the file          *)
Lemma walk_mono : forall f c s r, walk f c s = Some r -> forall f', (f <= f')%nat -> walk f' c s = Some r.
Proof.
  induction f as [|f IH]; intros c s r H f' Hle; [discriminate|].
  destruct f' as [|f']; [lia|]. cbn [walk] in *.
  destruct (negb (has_section c s)); [assumption|].
  destruct (get_opt c s K_inherit) as [p|]; [|assumption].
  destruct (text_eqb p s); [assumption|].
  destruct (walk f c p) as [[l o]|] eqn:E; [|discriminate].
  rewrite (IH c p (l, o) E f') by lia. assumption.
Qed.

Lemma walk_det f1 f2 c s r1 r2 : walk f1 c s = Some r1 -> walk f2 c s = Some r2 -> r1 = r2.
Proof.
  intros H1 H2.
  pose proof (walk_mono _ _ _ _ H1 (Nat.max f1 f2) (Nat.le_max_l _ _)) as A.
  pose proof (walk_mono _ _ _ _ H2 (Nat.max f1 f2) (Nat.le_max_r _ _)) as B.
  congruence.
Qed.

Lemma walk_minimal_fuel : forall f c s l o, walk f c s = Some (l, o) -> walk (S (List.length l)) c s = Some (l, o).
Proof.
  induction f as [|f IH]; intros c s l o H; [discriminate|].
  cbn [walk] in H.
  destruct (negb (has_section c s)) eqn:Hs.
  { inversion H; subst. cbn [List.length walk]. rewrite Hs. reflexivity. }
  destruct (get_opt c s K_inherit) as [p|] eqn:Hi.
  - destruct (text_eqb p s) eqn:Hp.
    { inversion H; subst. cbn [List.length walk]. rewrite Hs, Hi, Hp. reflexivity. }
    destruct (walk f c p) as [[l' o']|] eqn:E; [|discriminate].
    inversion H; subst. apply IH in E.
    change (walk (S (S (List.length l'))) c s = Some (s :: l', o)).
    cbn [walk]. rewrite Hs, Hi, Hp.
    cbn [walk] in E. rewrite E. reflexivity.
  - inversion H; subst. cbn [List.length walk]. rewrite Hs, Hi. reflexivity.
Qed.

Lemma walk_in_section : forall f c s l o x, walk f c s = Some (l, o) -> In x l -> has_section c x = true.
Proof.
  induction f as [|f IH]; intros c s l o x H Hin; [discriminate|].
  cbn [walk] in H.
  destruct (has_section c s) eqn:Hs; cbn [negb] in H.
  2:{ inversion H; subst. destruct Hin. }
  destruct (get_opt c s K_inherit) as [p|] eqn:Hi.
  - destruct (text_eqb p s) eqn:Hp.
    { inversion H; subst. destruct Hin as [<-|[]]. assumption. }
    destruct (walk f c p) as [[l' o']|] eqn:E; [|discriminate].
    inversion H; subst. destruct Hin as [<-|Hin]; [assumption|]. eapply IH; eauto.
  - inversion H; subst. destruct Hin as [<-|[]]. assumption.
Qed.

Lemma walk_suffix : forall f c s l o x, walk f c s = Some (l, o) -> In x l ->
  exists l2 f', walk f' c x = Some (x :: l2, o) /\ (List.length (x :: l2) <= List.length l)%nat.
Proof.
  induction f as [|f IH]; intros c s l o x H Hin; [discriminate|].
  pose proof H as H0. cbn [walk] in H.
  destruct (has_section c s) eqn:Hs; cbn [negb] in H.
  2:{ inversion H; subst. destruct Hin. }
  destruct (get_opt c s K_inherit) as [p|] eqn:Hi.
  - destruct (text_eqb p s) eqn:Hp.
    { inversion H; subst. destruct Hin as [<-|[]]. exists [], (S f). split; [exact H0|reflexivity]. }
    destruct (walk f c p) as [[l' o']|] eqn:E; [|discriminate].
    inversion H; subst. destruct Hin as [<-|Hin].
    + exists l', (S f). split; [exact H0|reflexivity].
    + destruct (IH c p l' o x E Hin) as (l2 & f' & A & B). exists l2, f'. split; [exact A|]. cbn [List.length] in *. lia.
  - inversion H; subst. destruct Hin as [<-|[]]. exists [], (S f). split; [exact H0|reflexivity].
Qed.

Lemma walk_nodup : forall f c s l o, walk f c s = Some (l, o) -> NoDup l.
Proof.
  induction f as [|f IH]; intros c s l o H; [discriminate|].
  pose proof H as H0. cbn [walk] in H.
  destruct (has_section c s) eqn:Hs; cbn [negb] in H.
  2:{ inversion H; subst. constructor. }
  destruct (get_opt c s K_inherit) as [p|] eqn:Hi.
  - destruct (text_eqb p s) eqn:Hp.
    { inversion H; subst. constructor; [intros []|constructor]. }
    destruct (walk f c p) as [[l' o']|] eqn:E; [|discriminate].
    inversion H; subst. constructor; [|eapply IH; eauto].
    intro Hin. destruct (walk_suffix _ _ _ _ _ _ E Hin) as (l2 & f' & A & B).
    pose proof (walk_det _ _ _ _ _ _ A H0) as D. inversion D; subst. cbn [List.length] in B. lia.
  - inversion H; subst. constructor; [intros []|constructor].
Qed.

Lemma has_section_in c x : has_section c x = true -> In x (map fst c).
Proof.
  unfold has_section. intro H. apply existsb_exists in H. destruct H as (sec & Hin & He).
  apply text_eqb_eq in He. subst. now apply in_map.
Qed.

Lemma walk_length f c s l o : walk f c s = Some (l, o) -> (List.length l <= List.length c)%nat.
Proof.
  intro H. apply Nat.le_trans with (List.length (map fst c)); [|rewrite map_length; apply le_n].
  apply NoDup_incl_length.
  - eapply walk_nodup; eauto.
  - intros x Hx. apply has_section_in. eapply walk_in_section; eauto.
Qed.

(* fuel = number of sections + 1 is enough whenever any fuel is *)
Lemma walk_fuel_enough f c s r : walk f c s = Some r -> walk (S (List.length c)) c s = Some r.
Proof.
  destruct r as [l o]. intro H.
  apply walk_mono with (f := S (List.length l)).
  - eapply walk_minimal_fuel; eauto.
  - apply le_n_S. eapply walk_length; eauto.
Qed.

(* ------------------------------------------------------------------------------------------ *)
(* fuel-free reading of "acyclic inheritance"                                                  *)
Inductive wf_lineage (c : ini) : text -> list text -> Prop :=
| wl_root s : has_section c s = true -> get_opt c s K_inherit = None -> wf_lineage c s [s]
| wl_step s p l : has_section c s = true -> get_opt c s K_inherit = Some p -> p <> s ->
                  wf_lineage c p l -> wf_lineage c s (s :: l).

Lemma wf_lineage_walk c s l : wf_lineage c s l <-> exists f, walk f c s = Some (l, ORoot).
Proof.
  split.
  - induction 1 as [s Hs Hi | s p l Hs Hi Hp _ [f IH]].
    + exists 1%nat. cbn [walk]. rewrite Hs, Hi. reflexivity.
    + exists (S f). cbn [walk]. rewrite Hs, Hi. cbn [negb].
      apply text_eqb_neq in Hp. rewrite Hp, IH. reflexivity.
  - intros [f H]. revert s l H. induction f as [|f IH]; intros s l H; [discriminate|].
    cbn [walk] in H.
    destruct (has_section c s) eqn:Hs; cbn [negb] in H; [|discriminate].
    destruct (get_opt c s K_inherit) as [p|] eqn:Hi.
    + destruct (text_eqb p s) eqn:Hp; [discriminate|].
      destruct (walk f c p) as [[l' o']|] eqn:E; [|discriminate].
      inversion H; subst. apply wl_step with p; auto. now apply text_eqb_neq.
    + inversion H; subst. now apply wl_root.
Qed.

Lemma wf_lineage_is_lineage c s l : wf_lineage c s l <-> lineage c s = Some l.
Proof.
  rewrite wf_lineage_walk. unfold lineage. split.
  - intros [f H]. rewrite (walk_fuel_enough _ _ _ _ H). reflexivity.
  - intro H. exists (S (List.length c)). destruct (walk (S (List.length c)) c s) as [[l' o]|]; [|discriminate].
    destruct o; try discriminate. congruence.
Qed.

(* read_config_spec: on acyclic inheritance the value is the one bound in the nearest of
   {section, parent, grandparent, ...} that binds the key, else the value passed in (the default);
   the last flag appended to `found` says whether some section of the lineage binds the key     *)
Theorem read_config_spec_lemma c s l k cur :
  wf_lineage c s l ->
  exists fl, read_config (fuel_of c) c s k cur = Ok (odflt cur (nearest c l k), fl)
             /\ last fl false = is_some (nearest c l k).
Proof.
  intro W. apply wf_lineage_walk in W. destruct W as [f W].
  apply walk_fuel_enough in W. pose proof (read_config_total (fuel_of c) c s k cur) as T.
  unfold fuel_of in *. rewrite W in T. destruct T as (fl & A & _ & B). eauto.
Qed.

(* termination: with the model's fuel an acyclic lineage never runs out *)
Theorem read_config_terminates_lemma c s l k cur :
  wf_lineage c s l -> (List.length l <= List.length c)%nat /\ read_config (fuel_of c) c s k cur <> Err ERecursion.
Proof.
  intro W. split.
  - apply wf_lineage_walk in W. destruct W as [f W]. eapply walk_length; eauto.
  - destruct (read_config_spec_lemma c s l k cur W) as (fl & -> & _). discriminate.
Qed.

(* and conversely: running out of fuel happens only on a cyclic walk, for which no fuel suffices *)
Theorem read_config_recursion_iff_cyclic c s k cur :
  read_config (fuel_of c) c s k cur = Err ERecursion <-> (forall f, walk f c s = None).
Proof.
  pose proof (read_config_total (fuel_of c) c s k cur) as T. split.
  - intros H f. destruct (walk f c s) as [r|] eqn:E; [|reflexivity].
    apply walk_fuel_enough in E. unfold fuel_of in *. rewrite E in T. rewrite H in T.
    destruct r as [l o]. destruct o; [destruct T as (? & ? & _); discriminate | discriminate | discriminate].
  - intro H. unfold fuel_of in *. rewrite H in T. exact T.
Qed.

Theorem read_config_cyclic_never_returns c s k cur :
  (forall f, walk f c s = None) -> forall fuel, read_config fuel c s k cur = Err ERecursion.
Proof.
  intros H fuel. pose proof (read_config_total fuel c s k cur) as T. rewrite H in T. exact T.
Qed.

(* P7: A inherits B, B inherits A; no section names itself, every parent exists *)
Definition cyc_A : text := TName 100.
Definition cyc_B : text := TName 101.
Definition cyc_ini : ini := [(cyc_A, [(K_inherit, cyc_B); (K_core_clock, TInt 5)]); (cyc_B, [(K_inherit, cyc_A)])].

Lemma cyc_walk : forall f, walk f cyc_ini cyc_A = None /\ walk f cyc_ini cyc_B = None.
Proof.
  induction f as [|f [IA IB]]; [split; reflexivity|].
  split.
  - change (walk (S f) cyc_ini cyc_A) with (match walk f cyc_ini cyc_B with Some (l, o) => Some (cyc_A :: l, o) | None => None end).
    now rewrite IB.
  - change (walk (S f) cyc_ini cyc_B) with (match walk f cyc_ini cyc_A with Some (l, o) => Some (cyc_B :: l, o) | None => None end).
    now rewrite IA.
Qed.

Theorem inherit_cycle_refuted_lemma :
  exists c s,
    (forall x p, get_opt c x K_inherit = Some p -> has_section c p = true /\ p <> x) /\
    has_section c s = true /\
    forall fuel k cur, read_config fuel c s k cur = Err ERecursion.
Proof.
  exists cyc_ini, cyc_A. split; [|split; [reflexivity|]].
  - intros x p H. unfold cyc_ini in H. cbn [get_opt] in H.
    destruct (text_eqb cyc_A x) eqn:EA.
    + apply text_eqb_eq in EA. subst x. cbn in H. inversion H; subst. split; [reflexivity|discriminate].
    + destruct (text_eqb cyc_B x) eqn:EB.
      * apply text_eqb_eq in EB. subst x. cbn in H. inversion H; subst. split; [reflexivity|discriminate].
      * discriminate.
  - intros fuel k cur. apply read_config_cyclic_never_returns. intro f. apply cyc_walk.
Qed.

Example read_config_spec_example :
  let c := [(TName 100, [(K_inherit, TName 101); (K_acs, TInt 524288)]);
            (TName 101, [(K_inherit, TName 102); (K_acs, TInt 393216); (K_cache, TName 11)]);
            (TName 102, [(K_const, TName 12); (K_cache, TName 12)])] in
  wf_lineage c (TName 100) [TName 100; TName 101; TName 102] /\
  to_option (read_config (fuel_of c) c (TName 100) K_acs (TInt 7)) = Some (TInt 524288, [false; false; false; true; true]) /\
  to_option (read_config (fuel_of c) c (TName 100) K_cache (TName 11)) = Some (TName 11, [false; false; false; true; true]) /\
  to_option (read_config (fuel_of c) c (TName 100) K_const (TName 11)) = Some (TName 12, [false; false; false; true]) /\
  to_option (read_config (fuel_of c) c (TName 100) K_arena (TName 11)) = Some (TName 11, [false; false; false]).
Proof.
  cbv zeta. split; [|vm_compute; auto].
  apply wl_step with (TName 101); [reflexivity|reflexivity|discriminate|].
  apply wl_step with (TName 102); [reflexivity|reflexivity|discriminate|].
  apply wl_root; reflexivity.
Qed.

(* ------------------------------------------------------------------------------------------ *)
(* the conversions and one read                                                                *)
Lemma as_float_sp t : to_option (as_float t) = sp_float t.
Proof. destruct t; reflexivity. Qed.
Lemma as_int_sp t : to_option (as_int t) = sp_int t.
Proof. destruct t; reflexivity. Qed.
Lemma as_int64_sp t : to_option (as_int64 t) = sp_int64 t.
Proof.
  destruct t; try reflexivity. unfold as_int64, as_int, bind, sp_int64, int64_ok.
  destruct ((- 2 ^ 63 <=? n) && (n <? 2 ^ 63)); reflexivity.
Qed.
Lemma as_memarea_sp t : to_option (as_memarea t) = sp_area t.
Proof. destruct t; try reflexivity. unfold as_memarea, sp_area. destruct ((0 <=? id) && (id <=? 6)); reflexivity. Qed.
Lemma as_memport_sp t : to_option (as_memport t) = sp_port t.
Proof. destruct t; try reflexivity. unfold as_memport, sp_port. destruct (id =? 11); [reflexivity|]. destruct (id =? 12); reflexivity. Qed.

Lemma obind_ext {A B} (x : option A) (f g : A -> option B) : (forall t, f t = g t) -> obind x f = obind x g.
Proof. intro H. destruct x; cbn; auto. Qed.

Lemma rd_spec c s k cur conv :
  to_option (rd (fuel_of c) c s k cur conv) = obind (spec_get c s k cur) (fun t => to_option (conv t)).
Proof.
  unfold rd, spec_get, lineage. pose proof (read_config_total (fuel_of c) c s k cur) as T. unfold fuel_of in *.
  destruct (walk (S (List.length c)) c s) as [[l o]|].
  - destruct o.
    + destruct T as (fl & -> & _). reflexivity.
    + rewrite T. reflexivity.
    + rewrite T. reflexivity.
  - rewrite T. reflexivity.
Qed.

Lemma rd_float c s k cur : to_option (rd (fuel_of c) c s k cur as_float) = obind (spec_get c s k cur) sp_float.
Proof. rewrite rd_spec. apply obind_ext, as_float_sp. Qed.
Lemma rd_int64 c s k cur : to_option (rd (fuel_of c) c s k cur as_int64) = obind (spec_get c s k cur) sp_int64.
Proof. rewrite rd_spec. apply obind_ext, as_int64_sp. Qed.
Lemma rd_area c s k cur : to_option (rd (fuel_of c) c s k cur as_memarea) = obind (spec_get c s k cur) sp_area.
Proof. rewrite rd_spec. apply obind_ext, as_memarea_sp. Qed.
Lemma rd_port c s k cur : to_option (rd (fuel_of c) c s k cur as_memport) = obind (spec_get c s k cur) sp_port.
Proof. rewrite rd_spec. apply obind_ext, as_memport_sp. Qed.

(* ------------------------------------------------------------------------------------------ *)
(* per-memory tables                                                                           *)
Lemma nth_upd_same : forall l i v, (i < List.length l)%nat -> nth i (upd l i v) 0 = v.
Proof. induction l as [|x l IH]; intros [|i] v H; cbn in *; try lia; auto. apply IH. lia. Qed.
Lemma nth_upd_other : forall l i j v, i <> j -> nth j (upd l i v) 0 = nth j l 0.
Proof. induction l as [|x l IH]; intros [|i] [|j] v H; cbn; auto; try congruence. Qed.

Lemma getT_setT_same l m v : 0 <= m < Z.of_nat (List.length l) -> getT (setT l m v) m = v.
Proof. intro H. unfold getT, setT. apply nth_upd_same. lia. Qed.
Lemma getT_setT_other l m m' v : m <> m' -> 0 <= m -> 0 <= m' -> getT (setT l m v) m' = getT l m'.
Proof. intros H A B. unfold getT, setT. apply nth_upd_other. intro E. apply H. lia. Qed.
Lemma getT_const6 x m : 0 <= m < 6 -> getT [x; x; x; x; x; x] m = x.
Proof.
  intro H. assert (m = 0 \/ m = 1 \/ m = 2 \/ m = 3 \/ m = 4 \/ m = 5) as D by lia.
  destruct D as [->|[->|[->|[->|[->| ->]]]]]; reflexivity.
Qed.

Definition sap_gen c s m (d0 d1 d2 d3 : Z) : option (Z * Z * Z * Z) :=
  if 6 <=? m then None
  else
    sc <~ obind (spec_get c s (K_area m 0) (TFrac d0)) sp_float ;;
    bl <~ obind (spec_get c s (K_area m 1) (TInt d1)) sp_int64 ;;
    rl <~ obind (spec_get c s (K_area m 2) (TInt d2)) sp_int64 ;;
    wl <~ obind (spec_get c s (K_area m 3) (TInt d3)) sp_int64 ;;
    Some (sc, bl, rl, wl).

Lemma spec_area_params_gen c s m : spec_area_params c s m = sap_gen c s m 1024 1 0 0.
Proof. reflexivity. Qed.

Lemma read_area_gen c s m a :
  to_option (read_area (fuel_of c) c s m a) =
  obind (sap_gen c s m (getT (scales a) m) (getT (bursts a) m) (getT (rlats a) m) (getT (wlats a) m))
        (fun v => Some (put_area a m v)).
Proof.
  unfold read_area, sap_gen. destruct (6 <=? m); [reflexivity|].
  rewrite to_option_bind, rd_float. destruct (obind (spec_get c s (K_area m 0) _) sp_float) as [sc|]; [|reflexivity]. cbn [obind].
  rewrite to_option_bind, rd_int64. destruct (obind (spec_get c s (K_area m 1) _) sp_int64) as [bl|]; [|reflexivity]. cbn [obind].
  rewrite to_option_bind, rd_int64. destruct (obind (spec_get c s (K_area m 2) _) sp_int64) as [rl|]; [|reflexivity]. cbn [obind].
  rewrite to_option_bind, rd_int64. destruct (obind (spec_get c s (K_area m 3) _) sp_int64) as [wl|]; [|reflexivity]. cbn [obind].
  reflexivity.
Qed.

Lemma get_idem c s k (mk : Z -> text) (conv : text -> option Z) d x :
  (forall y t, conv t = Some y -> conv (mk y) = Some y) ->
  obind (spec_get c s k (mk d)) conv = Some x -> obind (spec_get c s k (mk x)) conv = Some x.
Proof.
  unfold spec_get. intro H. destruct (lineage c s) as [l|]; cbn [obind]; [|discriminate].
  destruct (nearest c l k); cbn [odflt]; [auto|]. intro E. eapply H; eauto.
Qed.

Lemma sp_float_mk y t : sp_float t = Some y -> sp_float (TFrac y) = Some y.
Proof. reflexivity. Qed.
Lemma sp_int64_mk y t : sp_int64 t = Some y -> sp_int64 (TInt y) = Some y.
Proof.
  destruct t; try discriminate. unfold sp_int64.
  destruct ((- 2 ^ 63 <=? n) && (n <? 2 ^ 63)) eqn:E; [|discriminate]. intro H; inversion H; subst. rewrite E. reflexivity.
Qed.

Lemma sap_gen_idem c s m d0 d1 d2 d3 v :
  sap_gen c s m d0 d1 d2 d3 = Some v ->
  let '(x0, x1, x2, x3) := v in sap_gen c s m x0 x1 x2 x3 = Some v.
Proof.
  unfold sap_gen. destruct (6 <=? m); [discriminate|].
  destruct (obind (spec_get c s (K_area m 0) (TFrac d0)) sp_float) as [x0|] eqn:E0; [|discriminate]. cbn [obind].
  destruct (obind (spec_get c s (K_area m 1) (TInt d1)) sp_int64) as [x1|] eqn:E1; [|discriminate]. cbn [obind].
  destruct (obind (spec_get c s (K_area m 2) (TInt d2)) sp_int64) as [x2|] eqn:E2; [|discriminate]. cbn [obind].
  destruct (obind (spec_get c s (K_area m 3) (TInt d3)) sp_int64) as [x3|] eqn:E3; [|discriminate]. cbn [obind].
  intro H; inversion H; subst.
  rewrite (get_idem c s _ TFrac sp_float d0 x0 sp_float_mk E0). cbn [obind].
  rewrite (get_idem c s _ TInt sp_int64 d1 x1 sp_int64_mk E1). cbn [obind].
  rewrite (get_idem c s _ TInt sp_int64 d2 x2 sp_int64_mk E2). cbn [obind].
  rewrite (get_idem c s _ TInt sp_int64 d3 x3 sp_int64_mk E3). cbn [obind].
  reflexivity.
Qed.

Lemma sap_gen_ge6 c s m d0 d1 d2 d3 : (6 <=? m) = true -> sap_gen c s m d0 d1 d2 d3 = None.
Proof. unfold sap_gen. now intros ->. Qed.

Lemma sp_area_range X p : obind X sp_area = Some p -> 0 <= p <= 6.
Proof.
  destruct X as [t|]; [|discriminate]. cbn [obind]. destruct t; try discriminate. unfold sp_area.
  destruct ((0 <=? id) && (id <=? 6)) eqn:E; [|discriminate]. intro H; inversion H; subst. lia.
Qed.

(* ------------------------------------------------------------------------------------------ *)
(* system configuration section                                                                *)
Lemma read_sys_spec u65 c s :
  to_option (read_sys (fuel_of c) c s (init_arch u65)) = spec_sys_from_file c s (init_arch u65).
Proof.
  unfold read_sys, spec_sys_from_file.
  rewrite to_option_bind, rd_float.
  destruct (obind (spec_get c s K_core_clock (TInt 1)) sp_float) as [cc|]; [|reflexivity]. cbn [obind].
  rewrite to_option_bind, rd_area. change (TName (axi0 (init_arch u65))) with (TName 1).
  destruct (obind (spec_get c s K_axi0 (TName 1)) sp_area) as [p0|] eqn:E0; [|reflexivity]. cbn [obind].
  rewrite to_option_bind, rd_area. change (TName (axi1 (init_arch u65))) with (TName 1).
  destruct (obind (spec_get c s K_axi1 (TName 1)) sp_area) as [p1|] eqn:E1; [|reflexivity]. cbn [obind].
  apply sp_area_range in E0. apply sp_area_range in E1.
  set (a1 := set_axi1 (set_axi0 (set_core (init_arch u65) cc) p0) p1).
  rewrite to_option_bind, read_area_gen. rewrite !spec_area_params_gen.
  destruct (6 <=? p0) eqn:G0.
  { rewrite !sap_gen_ge6 by assumption. reflexivity. }
  apply Z.leb_gt in G0.
  change (scales a1) with [1024; 1024; 1024; 1024; 1024; 1024]. change (bursts a1) with [1; 1; 1; 1; 1; 1].
  change (rlats a1) with [0; 0; 0; 0; 0; 0]. change (wlats a1) with [0; 0; 0; 0; 0; 0].
  rewrite !getT_const6 by lia.
  destruct (sap_gen c s p0 1024 1 0 0) as [v0|] eqn:V0; [|reflexivity]. cbn [obind].
  rewrite read_area_gen.
  destruct (6 <=? p1) eqn:G1.
  { rewrite !sap_gen_ge6 by assumption. reflexivity. }
  apply Z.leb_gt in G1.
  destruct v0 as [[[x0 x1] x2] x3].
  unfold put_area at 1 2 3 4. cbn [scales bursts rlats wlats set_tables].
  change (scales a1) with [1024; 1024; 1024; 1024; 1024; 1024]. change (bursts a1) with [1; 1; 1; 1; 1; 1].
  change (rlats a1) with [0; 0; 0; 0; 0; 0]. change (wlats a1) with [0; 0; 0; 0; 0; 0].
  destruct (Z.eq_dec p0 p1) as [<-|Hne].
  - rewrite !getT_setT_same by (cbn [List.length]; lia).
    pose proof (sap_gen_idem _ _ _ _ _ _ _ _ V0) as I. cbv beta iota in I. rewrite I, V0. reflexivity.
  - rewrite !getT_setT_other by lia. rewrite !getT_const6 by lia. reflexivity.
Qed.

Lemma default_sys_spec u65 : default_sys u65 false (init_arch u65) = spec_sys_internal u65 (init_arch u65).
Proof. destruct u65; reflexivity. Qed.

Definition mem_fields_init (u65 : bool) (a : arch) : Prop :=
  const_p a = 1 /\ arena_p a = 1 /\ cache_p a = 1 /\ acs a = max_addr u65 /\ acs_loc a = 0.

Lemma select_spec files sec dflt ff sf internal :
  (forall c, to_option (ff (fuel_of c) c) = sf c) ->
  to_option (select files sec dflt ff internal) = spec_select files sec dflt sf internal.
Proof.
  intro H. unfold select, spec_select. destruct files as [c|].
  - destruct (has_section c sec); [apply H|]. destruct (text_eqb sec dflt); reflexivity.
  - destruct (text_eqb sec dflt); reflexivity.
Qed.

Lemma spec_sys_mem_fields u65 files sys a1 :
  spec_select files sys SEC_SYS_DEFAULT (fun c => spec_sys_from_file c sys (init_arch u65)) (spec_sys_internal u65 (init_arch u65)) = Some a1 ->
  mem_fields_init u65 a1.
Proof.
  assert (I : mem_fields_init u65 (spec_sys_internal u65 (init_arch u65))).
  { destruct u65; repeat split. }
  assert (F : forall c, spec_sys_from_file c sys (init_arch u65) = Some a1 -> mem_fields_init u65 a1).
  { intros c. unfold spec_sys_from_file.
    destruct (obind (spec_get c sys K_core_clock (TInt 1)) sp_float) as [cc|]; [|discriminate]. cbn [obind].
    destruct (obind (spec_get c sys K_axi0 (TName 1)) sp_area) as [p0|]; [|discriminate]. cbn [obind].
    destruct (obind (spec_get c sys K_axi1 (TName 1)) sp_area) as [p1|]; [|discriminate]. cbn [obind].
    destruct (spec_area_params c sys p0) as [[[[? ?] ?] ?]|]; [|discriminate]. cbn [obind].
    destruct (spec_area_params c sys p1) as [[[[? ?] ?] ?]|]; [|discriminate]. cbn [obind].
    intro H; inversion H; subst. repeat split. }
  unfold spec_select. destruct files as [c|].
  - destruct (has_section c sys); [apply F|]. destruct (text_eqb sys SEC_SYS_DEFAULT); [|discriminate].
    intro H; inversion H; subst. exact I.
  - destruct (text_eqb sys SEC_SYS_DEFAULT); [|discriminate]. intro H; inversion H; subst. exact I.
Qed.

(* ------------------------------------------------------------------------------------------ *)
(* memory mode section                                                                         *)
Lemma read_mem_spec u65 c s a :
  mem_fields_init u65 a ->
  to_option (read_mem (fuel_of c) c s a) = spec_mem_from_file u65 c s a.
Proof.
  intros (Hc & Ha & Hk & Hs & Hl). unfold read_mem, spec_mem_from_file.
  rewrite Hc, Ha, Hk, Hs, Hl. change (memport_name 1) with (TName 11).
  rewrite to_option_bind, rd_port. destruct (obind (spec_get c s K_const (TName 11)) sp_port) as [cp|]; [|reflexivity]. cbn [obind].
  rewrite to_option_bind, rd_port. destruct (obind (spec_get c s K_arena (TName 11)) sp_port) as [ap|]; [|reflexivity]. cbn [obind].
  rewrite to_option_bind, rd_port. destruct (obind (spec_get c s K_cache (TName 11)) sp_port) as [kp|]; [|reflexivity]. cbn [obind].
  unfold spec_get, spec_bound, lineage.
  pose proof (read_config_total (fuel_of c) c s K_acs (TInt (max_addr u65))) as T. unfold fuel_of in *.
  destruct (walk (S (List.length c)) c s) as [[l o]|].
  - destruct o.
    + destruct T as (fl & -> & _ & Hf). cbn [obind]. rewrite to_option_bind, as_int_sp.
      destruct (sp_int (odflt (TInt (max_addr u65)) (nearest c l K_acs))); [|reflexivity]. cbn [obind to_option].
      rewrite Hf. destruct (nearest c l K_acs); reflexivity.
    + rewrite T. reflexivity.
    + rewrite T. reflexivity.
  - rewrite T. reflexivity.
Qed.

Lemma default_mem_spec u65 a : mem_fields_init u65 a -> default_mem u65 a = spec_mem_internal u65 a.
Proof. intros (_ & _ & _ & _ & Hl). unfold default_mem, spec_mem_internal. rewrite Hl. destruct u65; reflexivity. Qed.

(* ------------------------------------------------------------------------------------------ *)
(* rewrite, override, validation                                                               *)
Lemma sram_rewrite_spec a : sram_rewrite a = spec_sram_only a.
Proof.
  unfold sram_rewrite, spec_sram_only.
  destruct ((port_area a (const_p a) =? 1) && (const_p a =? arena_p a) && (arena_p a =? cache_p a)); [|reflexivity].
  destruct (const_p a =? 1); reflexivity.
Qed.

Lemma validate_spec u65 a : to_option (validate u65 a) = if spec_legal u65 a then Some a else None.
Proof.
  unfold validate, spec_legal, perm_area, fm_area, fast_area, mem_in. cbn [existsb].
  rewrite !orb_false_r.
  rewrite (Z.eqb_sym 2 (port_area a (const_p a))), (Z.eqb_sym 3 (port_area a (const_p a))), (Z.eqb_sym 4 (port_area a (const_p a))),
    (Z.eqb_sym 1 (port_area a (arena_p a))), (Z.eqb_sym 2 (port_area a (arena_p a))), (Z.eqb_sym 1 (port_area a (cache_p a))).
  rewrite Z.gtb_ltb. rewrite (Z.leb_antisym (max_addr u65)). rewrite (Z.leb_antisym (acs a) 0).
  destruct (port_area a (const_p a) =? 2), (port_area a (const_p a) =? 3), (port_area a (const_p a) =? 4),
    (port_area a (arena_p a) =? 1), (port_area a (arena_p a) =? 2), (port_area a (cache_p a) =? 1),
    (acs a <? 0), (max_addr u65 <? acs a); reflexivity.
Qed.

(* resolve_matches_doc: for ALL files, selections and overrides the record resolved by
   ArchitectureFeatures (base class) is the one the documented rules give, and it is an error
   exactly when the documented rules reject                                                     *)
Theorem resolve_matches_doc_lemma u65 files sys mem cli :
  to_option (get_vela_config u65 false files sys mem cli) = spec_resolve u65 files sys mem cli.
Proof.
  unfold get_vela_config, spec_resolve.
  rewrite to_option_bind.
  rewrite (select_spec files sys SEC_SYS_DEFAULT _ (fun c => spec_sys_from_file c sys (init_arch u65)))
    by (intro c; apply read_sys_spec).
  rewrite default_sys_spec.
  destruct (spec_select files sys SEC_SYS_DEFAULT _ _) as [a1|] eqn:S1; [|reflexivity]. cbn [obind].
  apply spec_sys_mem_fields in S1.
  rewrite to_option_bind.
  rewrite (select_spec files mem SEC_MEM_DEFAULT _ (fun c => spec_mem_from_file u65 c mem a1))
    by (intro c; apply read_mem_spec; assumption).
  rewrite (default_mem_spec u65 a1 S1).
  destruct (spec_select files mem SEC_MEM_DEFAULT _ _) as [a2|]; [|reflexivity]. cbn [obind].
  rewrite validate_spec, sram_rewrite_spec. unfold cli_override. destruct cli; reflexivity.
Qed.

(* ------------------------------------------------------------------------------------------ *)
(* main(): path rule and hand-off                                                              *)
Lemma parse_all_spec fs args :
  to_option (parse_all fs args) =
  if forallb (fun a => ca_ini a && readable fs (spec_location a)) args then Some (map spec_location args) else None.
Proof.
  induction args as [|x r IH]; [reflexivity|].
  cbn [parse_all forallb map]. rewrite to_option_bind.
  unfold parse_config_path at 1. fold (spec_location x).
  destruct (ca_ini x); cbn [negb andb]; [|reflexivity].
  destruct (readable fs (spec_location x)); cbn [to_option obind]; [|reflexivity].
  rewrite to_option_bind, IH.
  destruct (forallb (fun a => ca_ini a && readable fs (spec_location a)) r); reflexivity.
Qed.

Lemma read_files_spec fs args :
  read_files fs (map spec_location args) = concat (rev (map (fun a => odflt [] (fs_lookup fs (spec_location a))) args)).
Proof. unfold read_files. rewrite map_map. reflexivity. Qed.

(* with the documented hand-off (resolved paths), no forced arena default and the base class,
   main() resolves exactly what OPTIONS.md says, for every file system view and every command line *)
Theorem main_matches_doc_lemma fs a :
  to_option (main_model (mkMP None true false) fs a) = spec_main fs a.
Proof.
  unfold main_model, spec_main, spec_files.
  cbn [pm_pass_resolved pm_imx93 pm_arena_default andb].
  rewrite to_option_bind, parse_all_spec.
  assert (C : match a_acs a with Some v => Some v | None => None end = a_acs a) by (destruct (a_acs a); reflexivity).
  rewrite C.
  destruct (a_config a) as [|x r].
  - cbn [forallb map obind]. apply resolve_matches_doc_lemma.
  - destruct (forallb (fun a0 => ca_ini a0 && readable fs (spec_location a0)) (x :: r)); [|reflexivity].
    cbn [obind]. rewrite read_files_spec. apply resolve_matches_doc_lemma.
Qed.

Theorem config_path_dirfile_lemma fs a :
  ca_ini a = true -> ca_dirfile a = true ->
  parse_config_path fs a = if readable fs (Bundled (ca_path a)) then Ok (Bundled (ca_path a)) else Err EVela.
Proof. intros H1 H2. unfold parse_config_path. rewrite H1, H2. reflexivity. Qed.

Lemma readable_agree fs1 fs2 p : bundled_agree fs1 fs2 -> readable fs1 (Bundled p) = readable fs2 (Bundled p).
Proof. intro H. unfold readable. now rewrite (H p). Qed.

Lemma parse_all_dirfile fs args :
  forallb ca_dirfile args = true ->
  parse_all fs args =
  if forallb (fun a => ca_ini a && readable fs (Bundled (ca_path a))) args
  then Ok (map (fun a => Bundled (ca_path a)) args) else Err EVela.
Proof.
  induction args as [|x r IH]; [reflexivity|].
  cbn [forallb]. intro H. apply andb_true_iff in H. destruct H as [Hx Hr].
  cbn [parse_all map]. unfold parse_config_path at 1. rewrite Hx.
  destruct (ca_ini x); cbn [negb andb bind]; [|reflexivity].
  destruct (readable fs (Bundled (ca_path x))); cbn [bind]; [|reflexivity].
  rewrite (IH Hr).
  destruct (forallb (fun a => ca_ini a && readable fs (Bundled (ca_path a))) r); reflexivity.
Qed.

Lemma forallb_agree fs1 fs2 args : bundled_agree fs1 fs2 ->
  forallb (fun a => ca_ini a && readable fs1 (Bundled (ca_path a))) args =
  forallb (fun a => ca_ini a && readable fs2 (Bundled (ca_path a))) args.
Proof. intro H. induction args as [|x r IH]; [reflexivity|]. cbn [forallb]. now rewrite IH, (readable_agree fs1 fs2 _ H). Qed.

Lemma read_files_agree fs1 fs2 (args : list cfgarg) : bundled_agree fs1 fs2 ->
  read_files fs1 (map (fun a => Bundled (ca_path a)) args) = read_files fs2 (map (fun a => Bundled (ca_path a)) args).
Proof.
  intro H. unfold read_files. rewrite !map_map. f_equal. f_equal.
  apply map_ext. intro a. now rewrite (H (ca_path a)).
Qed.

(* config_path_spec: Dir/file.ini arguments make the result independent of the working directory *)
Theorem config_path_cwd_independent_lemma pm fs1 fs2 a :
  pm_pass_resolved pm = true -> bundled_agree fs1 fs2 -> forallb ca_dirfile (a_config a) = true ->
  main_model pm fs1 a = main_model pm fs2 a.
Proof.
  intros Hp Hag Hd. unfold main_model. rewrite Hp.
  rewrite !(parse_all_dirfile _ _ Hd). rewrite (forallb_agree fs1 fs2 _ Hag).
  destruct (forallb (fun a0 => ca_ini a0 && readable fs2 (Bundled (ca_path a0))) (a_config a)); [|reflexivity].
  cbn [bind]. rewrite (read_files_agree fs1 fs2 _ Hag). reflexivity.
Qed.

(* witnesses: a file in the style of the bundled Arm/vela.ini *)
Definition ex_sys : text := TName 200.
Definition ex_mem_parent : text := TName 201.
Definition ex_mem_child : text := TName 202.
Definition ex_ini : ini :=
  [ (ex_sys, [(K_core_clock, TInt 1000000000); (K_axi0, TName 1); (K_axi1, TName 2);
              (K_area 1 0, TFrac 1024); (K_area 1 1, TInt 32); (K_area 1 2, TInt 32); (K_area 1 3, TInt 32);
              (K_area 2 0, TFrac 240); (K_area 2 1, TInt 128); (K_area 2 2, TInt 500); (K_area 2 3, TInt 250)]);
    (ex_mem_parent, [(K_const, TName 12); (K_arena, TName 12); (K_cache, TName 11); (K_acs, TInt 393216)]);
    (ex_mem_child, [(K_inherit, ex_mem_parent); (K_acs, TInt 524288)]) ].
Definition ex_other_ini : ini :=
  [ (ex_sys, [(K_core_clock, TInt 5); (K_axi1, TName 2)]); (ex_mem_child, [(K_const, TName 12)]) ].
Definition ex_cli : cliargs := mkCli [mkArg true true 1] true ex_sys ex_mem_child None.

Example resolve_example :
  exists a, spec_resolve true (Some ex_ini) ex_sys ex_mem_child None = Some a /\
            get_vela_config true false (Some ex_ini) ex_sys ex_mem_child None = Ok a /\
            acs a = 524288 /\ acs_loc a = 1 /\ const_p a = 2 /\ cache_p a = 1 /\ getT (scales a) 2 = 240 /\
            core_clock a = 1000000000 * 1024.
Proof. eexists. repeat split; vm_compute; reflexivity. Qed.

Lemma bundled_agree_ex c c' : bundled_agree [(Bundled 1, c)] [(Bundled 1, c); (AsGiven 1, c')].
Proof. intro p. cbn [fs_lookup loc_eqb]. destruct (1 =? p); reflexivity. Qed.

(* P2: when main() hands the unresolved --config strings to ArchitectureFeatures the documented
   `--config Dir/file.ini` depends on the working directory: from most directories the section is
   "not found" (view 1), from the bundled directory it works (view 2), and where the working directory
   happens to contain another Dir/file.ini that one is used silently (view 3)                       *)
Theorem main_handoff_refuted_lemma :
  exists fs1 fs2 fs3 a,
    bundled_agree fs1 fs2 /\ bundled_agree fs1 fs3 /\ forallb ca_dirfile (a_config a) = true /\
    (exists s, spec_main fs1 a = Some s /\ spec_main fs2 a = Some s /\ spec_main fs3 a = Some s /\
               to_option (main_model (mkMP None false false) fs2 a) = Some s /\
               main_model (mkMP None false false) fs1 a = Err EVela /\
               exists w, main_model (mkMP None false false) fs3 a = Ok w /\ w <> s /\ core_clock w = 5 * 1024).
Proof.
  exists [(Bundled 1, ex_ini)], [(Bundled 1, ex_ini); (AsGiven 1, ex_ini)], [(Bundled 1, ex_ini); (AsGiven 1, ex_other_ini)], ex_cli.
  split; [apply bundled_agree_ex|]. split; [apply bundled_agree_ex|]. split; [reflexivity|].
  eexists. split; [vm_compute; reflexivity|]. split; [vm_compute; reflexivity|]. split; [vm_compute; reflexivity|].
  split; [vm_compute; reflexivity|]. split; [vm_compute; reflexivity|].
  eexists. split; [vm_compute; reflexivity|]. split; [|vm_compute; reflexivity]. intro H. inversion H.
Qed.

(* P3: a non-None default of --arena-cache-size overrides the value of the file although the option was not given *)
Theorem main_arena_default_refuted_lemma :
  exists fs a, a_acs a = None /\
    exists m s, main_model (mkMP (Some 393216) true false) fs a = Ok m /\ spec_main fs a = Some s /\
                acs s = 524288 /\ acs_loc s = 1 /\ acs m = 393216 /\ acs_loc m = 2.
Proof.
  exists [(Bundled 1, ex_ini)], ex_cli. split; [reflexivity|].
  eexists. eexists. repeat split; vm_compute; reflexivity.
Qed.

(* the Imx93 subclass used by main() for "no --config, both selections internal-default" does not give the
   documented internal-default system configuration (Ethos-U65: Dram scale 0.234375 instead of 0.75;
   Ethos-U55: the U65 table instead of Sram + OffChipFlash at 500 MHz)                                   *)
Theorem main_imx93_default_refuted_lemma :
  (exists m s, main_model (mkMP None true true) [] (mkCli [] true SEC_SYS_DEFAULT SEC_MEM_DEFAULT None) = Ok m /\
               spec_main [] (mkCli [] true SEC_SYS_DEFAULT SEC_MEM_DEFAULT None) = Some s /\
               getT (scales m) 2 = 240 /\ getT (scales s) 2 = 768) /\
  (exists m s, main_model (mkMP None true true) [] (mkCli [] false SEC_SYS_DEFAULT SEC_MEM_DEFAULT None) = Ok m /\
               spec_main [] (mkCli [] false SEC_SYS_DEFAULT SEC_MEM_DEFAULT None) = Some s /\
               axi1 m = 2 /\ axi1 s = 4 /\ core_clock m = 1000000000 * 1024 /\ core_clock s = 500000000 * 1024).
Proof. split; eexists; eexists; repeat split; vm_compute; reflexivity. Qed.

(* ------------------------------------------------------------------------------------------ *)
(* rejections (for both the base class and the Imx93 subclass)                                  *)
Theorem rejects_unknown_sys_lemma u65 imx files sys mem cli :
  sys <> SEC_SYS_DEFAULT ->
  match files with Some c => has_section c sys = false | None => True end ->
  get_vela_config u65 imx files sys mem cli = Err EVela.
Proof.
  intros Hn Hs. apply text_eqb_neq in Hn. unfold get_vela_config, select at 1.
  destruct files as [c|]; [rewrite Hs|]; rewrite Hn; reflexivity.
Qed.

Theorem rejects_unknown_mem_lemma u65 imx files sys mem cli :
  mem <> SEC_MEM_DEFAULT ->
  match files with Some c => has_section c mem = false | None => True end ->
  exists e, get_vela_config u65 imx files sys mem cli = Err e.
Proof.
  intros Hn Hs. apply text_eqb_neq in Hn. unfold get_vela_config.
  destruct (select files sys SEC_SYS_DEFAULT _ _) as [a1|e]; [|exists e; reflexivity].
  cbn [bind]. unfold select. exists EVela.
  destruct files as [c|]; [rewrite Hs|]; rewrite Hn; reflexivity.
Qed.

Lemma rd_broken c s k cur conv l o :
  walk (fuel_of c) c s = Some (l, o) -> o <> ORoot -> rd (fuel_of c) c s k cur conv = Err EVela.
Proof.
  intros W Ho. unfold rd. pose proof (read_config_total (fuel_of c) c s k cur) as T. rewrite W in T.
  destruct o; [congruence| |]; rewrite T; reflexivity.
Qed.

(* a selected section whose lineage reaches a missing section or a section naming itself *)
Theorem rejects_broken_sys_lemma u65 imx c sys mem cli l o :
  has_section c sys = true -> walk (fuel_of c) c sys = Some (l, o) -> o <> ORoot ->
  get_vela_config u65 imx (Some c) sys mem cli = Err EVela.
Proof.
  intros Hs W Ho. unfold get_vela_config, select at 1. rewrite Hs. unfold read_sys.
  rewrite (rd_broken _ _ _ _ _ _ _ W Ho). reflexivity.
Qed.

Theorem rejects_broken_mem_lemma u65 imx c sys mem cli l o :
  has_section c mem = true -> walk (fuel_of c) c mem = Some (l, o) -> o <> ORoot ->
  exists e, get_vela_config u65 imx (Some c) sys mem cli = Err e.
Proof.
  intros Hs W Ho. unfold get_vela_config.
  destruct (select (Some c) sys SEC_SYS_DEFAULT _ _) as [a1|e]; [|exists e; reflexivity].
  cbn [bind]. unfold select. rewrite Hs. unfold read_mem.
  rewrite (rd_broken _ _ _ _ _ _ _ W Ho). exists EVela. reflexivity.
Qed.

Lemma walk_self c s : has_section c s = true -> get_opt c s K_inherit = Some s -> walk (fuel_of c) c s = Some ([s], OSelf).
Proof. intros Hs Hi. unfold fuel_of. cbn [walk]. rewrite Hs, Hi, text_eqb_refl. reflexivity. Qed.

Lemma walk_missing_parent c s p :
  has_section c s = true -> get_opt c s K_inherit = Some p -> has_section c p = false ->
  walk (fuel_of c) c s = Some ([s], OMissing).
Proof.
  intros Hs Hi Hp. unfold fuel_of. destruct c as [|x c]; [discriminate|].
  cbn [List.length walk]. rewrite Hs, Hi. cbn [negb].
  destruct (text_eqb p s) eqn:E. { apply text_eqb_eq in E. subst. congruence. }
  rewrite Hp. reflexivity.
Qed.

Theorem rejects_self_inheritance_lemma u65 imx c s other cli :
  has_section c s = true -> get_opt c s K_inherit = Some s ->
  get_vela_config u65 imx (Some c) s other cli = Err EVela /\
  (exists e, get_vela_config u65 imx (Some c) other s cli = Err e) /\
  forall fuel k cur, read_config (S fuel) c s k cur = Err EVela.
Proof.
  intros Hs Hi. pose proof (walk_self c s Hs Hi) as W. split; [|split].
  - eapply rejects_broken_sys_lemma; eauto. discriminate.
  - eapply rejects_broken_mem_lemma; eauto. discriminate.
  - intros fuel k cur. cbn [read_config]. rewrite Hs, Hi, text_eqb_refl. reflexivity.
Qed.

Theorem rejects_missing_parent_lemma u65 imx c s p other cli :
  has_section c s = true -> get_opt c s K_inherit = Some p -> has_section c p = false ->
  get_vela_config u65 imx (Some c) s other cli = Err EVela /\
  (exists e, get_vela_config u65 imx (Some c) other s cli = Err e).
Proof.
  intros Hs Hi Hp. pose proof (walk_missing_parent c s p Hs Hi Hp) as W. split.
  - eapply rejects_broken_sys_lemma; eauto. discriminate.
  - eapply rejects_broken_mem_lemma; eauto. discriminate.
Qed.

(* nothing illegal is ever accepted: constants in Dram/OnChipFlash/OffChipFlash, arena in Sram/Dram,
   cache in Sram, 0 <= arena cache size <= maximum address; and a CLI size is the size used      *)
Theorem accepted_is_legal_lemma u65 imx files sys mem cli a :
  get_vela_config u65 imx files sys mem cli = Ok a ->
  spec_legal u65 a = true /\ (forall v, cli = Some v -> acs a = v /\ acs_loc a = 2).
Proof.
  unfold get_vela_config.
  destruct (select files sys SEC_SYS_DEFAULT _ _) as [a1|e]; [|discriminate]. cbn [bind].
  destruct (select files mem SEC_MEM_DEFAULT _ _) as [a2|e]; [|discriminate]. cbn [bind].
  intro H. pose proof (validate_spec u65 (cli_override cli (sram_rewrite a2))) as V. rewrite H in V. cbn [to_option] in V.
  destruct (spec_legal u65 (cli_override cli (sram_rewrite a2))) eqn:L; [|discriminate].
  inversion V; subst. split; [exact L|]. intros v ->. split; reflexivity.
Qed.

Theorem rejects_illegal_mapping_lemma u65 a :
  spec_legal u65 a = false -> exists e, validate u65 a = Err e.
Proof.
  intro L. pose proof (validate_spec u65 a) as V. rewrite L in V.
  destruct (validate u65 a) as [x|e]; [discriminate|eauto].
Qed.

Theorem rejects_out_of_range_cli_lemma u65 imx files sys mem v :
  v < 0 \/ max_addr u65 < v -> exists e, get_vela_config u65 imx files sys mem (Some v) = Err e.
Proof.
  intro Hv. destruct (get_vela_config u65 imx files sys mem (Some v)) as [a|e] eqn:G; [|eauto].
  apply accepted_is_legal_lemma in G. destruct G as [L C]. destruct (C v eq_refl) as [Ha _].
  unfold spec_legal in L. rewrite Ha in L.
  apply andb_true_iff in L. destruct L as [L L2]. apply andb_true_iff in L. destruct L as [_ L1].
  apply Z.leb_le in L1. apply Z.leb_le in L2. lia.
Qed.

Example rejects_examples :
  (* const_mem_area on the Sram port while the arena is elsewhere; cache on Dram; size 2^32 + 1 on an Ethos-U55 *)
  get_vela_config false false (Some [(ex_sys, [(K_axi1, TName 2)]); (ex_mem_parent, [(K_const, TName 11); (K_arena, TName 12)])])
                  ex_sys ex_mem_parent None = Err EVela /\
  get_vela_config false false (Some [(ex_sys, [(K_axi1, TName 2)]); (ex_mem_parent, [(K_const, TName 12); (K_cache, TName 12)])])
                  ex_sys ex_mem_parent None = Err EVela /\
  get_vela_config false false (Some [(ex_sys, [(K_axi1, TName 2)]); (ex_mem_parent, [(K_const, TName 12); (K_acs, TInt (2 ^ 32 + 1))])])
                  ex_sys ex_mem_parent None = Err EVela /\
  get_vela_config false false (Some [(ex_sys, [(K_axi1, TName 2)]); (ex_mem_parent, [(K_const, TName 12); (K_acs, TInt (2 ^ 32))])])
                  ex_sys ex_mem_parent None <> Err EVela.
Proof. repeat split; vm_compute; congruence. Qed.

(* ------------------------------------------------------------------------------------------ *)
(* concrete paths: which file a --config argument names                                        *)
Theorem resolve_path_absolute_lemma bdir cwd p :
  p_abs p = true -> resolve_path bdir cwd p = if ends_ini (norm p) then Some (norm p) else None.
Proof.
  intro H. unfold resolve_path, is_dirfile. rewrite H. cbn [negb andb].
  destruct (ends_ini (norm p)); reflexivity.
Qed.

Theorem resolve_path_dirfile_lemma bdir cwd d i f l :
  resolve_path bdir cwd (mkPath false [CName d i 0; CName f true l]) = Some (bdir ++ [CName d i 0; CName f true l]).
Proof. reflexivity. Qed.

Theorem resolve_path_two_components_lemma bdir cwd p d i c2 :
  p_abs p = false -> norm p = [CName d i 0; c2] -> ends_ini (norm p) = true ->
  resolve_path bdir cwd p = Some (bdir ++ norm p).
Proof.
  intros Ha Hn He. unfold resolve_path. rewrite He, Ha. cbn [negb]. rewrite Hn. reflexivity.
Qed.

Theorem resolve_path_cwd_free_lemma bdir cwd1 cwd2 p :
  cwd_free p = true -> resolve_path bdir cwd1 p = resolve_path bdir cwd2 p.
Proof.
  unfold cwd_free, resolve_path. destruct (p_abs p); cbn [orb].
  - intros _. reflexivity.
  - intros ->. reflexivity.
Qed.

Lemma parse_all_c_cwd_free w cwd1 cwd2 l :
  forallb cwd_free l = true -> parse_all_c w cwd1 l = parse_all_c w cwd2 l.
Proof.
  induction l as [|x r IH]; [reflexivity|]. cbn [forallb]. intro H. apply andb_true_iff in H. destruct H as [Hx Hr].
  cbn [parse_all_c]. unfold parse_config_path_c. rewrite (resolve_path_cwd_free_lemma (w_bdir w) cwd1 cwd2 x Hx), (IH Hr).
  reflexivity.
Qed.

(* absolute arguments and Dir/file.ini arguments: the resolved architecture does not depend on the working directory *)
Theorem main_concrete_cwd_independent_lemma pm w cwd1 cwd2 a :
  pm_pass_resolved pm = true -> forallb cwd_free (c_config a) = true ->
  main_concrete pm w cwd1 a = main_concrete pm w cwd2 a.
Proof.
  intros Hp Hf. unfold main_concrete. rewrite Hp, (parse_all_c_cwd_free w cwd1 cwd2 _ Hf). reflexivity.
Qed.

Lemma parse_all_c_spec w cwd l :
  match parse_all_c w cwd l with
  | Ok fs => spec_inis w cwd l = Some (map (fun f => match w_lookup (w_files w) f with Some c => c | None => [] end) fs)
  | Err _ => spec_inis w cwd l = None
  end.
Proof.
  induction l as [|x r IH]; [reflexivity|].
  cbn [parse_all_c spec_inis]. unfold parse_config_path_c.
  destruct (resolve_path (w_bdir w) cwd x) as [f|]; cbn [bind obind]; [|reflexivity].
  destruct (w_lookup (w_files w) f) as [c|] eqn:E; cbn [bind obind]; [|reflexivity].
  destruct (parse_all_c w cwd r) as [fs|e]; cbn [bind]; rewrite IH; cbn [obind map]; [|reflexivity].
  rewrite E. reflexivity.
Qed.

Theorem main_concrete_matches_doc_lemma w cwd a :
  to_option (main_concrete (mkMP None true false) w cwd a) = spec_main_c w cwd a.
Proof.
  unfold main_concrete, spec_main_c. cbn [pm_pass_resolved pm_imx93 pm_arena_default andb].
  assert (C : match c_acs a with Some v => Some v | None => None end = c_acs a) by (destruct (c_acs a); reflexivity).
  rewrite C. destruct (c_config a) as [|x r].
  - cbn [parse_all_c bind]. apply resolve_matches_doc_lemma.
  - pose proof (parse_all_c_spec w cwd (x :: r)) as S.
    destruct (parse_all_c w cwd (x :: r)) as [fs|e]; rewrite S; cbn [bind obind to_option]; [|reflexivity].
    unfold read_files_c. apply resolve_matches_doc_lemma.
Qed.

(* the seeded variant (relpath instead of normpath): an absolute argument two levels below the working directory
   is taken for Dir/file.ini and sent to the bundled directory *)
Theorem relpath_variant_refuted_lemma :
  exists bdir cwd p,
    p_abs p = true /\ resolve_path bdir cwd p = Some (norm p) /\
    resolve_path bdir cwd (relpath cwd p) <> resolve_path bdir cwd p /\
    resolve_path bdir cwd (relpath cwd p) = Some (bdir ++ [CName 12 false 0; CName 13 true 0]).
Proof.
  exists [CName 1 false 0; CName 2 false 0], [CName 10 false 0; CName 11 false 0],
         (mkPath true [CName 10 false 0; CName 11 false 0; CName 12 false 0; CName 13 true 0]).
  repeat split; vm_compute; congruence.
Qed.

Example resolve_path_examples :
  let bd := [CName 1 false 0; CName 2 false 0] in
  let cwd := [CName 10 false 0; CName 11 false 0] in
  (* ./Arm/vela.ini -> bundled;  ../x/deep.ini -> relative to cwd;  a/b/c.ini -> relative;  /p/../q/f.ini -> /q/f.ini;  single.ini -> relative;
     .hidden/f.ini -> relative;  Dir/file.cfg -> rejected *)
  resolve_path bd cwd (mkPath false [CDot; CName 12 false 0; CName 13 true 0]) = Some (bd ++ [CName 12 false 0; CName 13 true 0]) /\
  resolve_path bd cwd (mkPath false [CUp; CName 14 false 0; CName 15 true 0]) = Some [CName 10 false 0; CName 14 false 0; CName 15 true 0] /\
  resolve_path bd cwd (mkPath false [CName 3 false 0; CName 4 false 0; CName 5 true 0]) = Some (cwd ++ [CName 3 false 0; CName 4 false 0; CName 5 true 0]) /\
  resolve_path bd cwd (mkPath true [CName 6 false 0; CUp; CName 7 false 0; CName 8 true 0]) = Some [CName 7 false 0; CName 8 true 0] /\
  resolve_path bd cwd (mkPath false [CName 9 true 0]) = Some (cwd ++ [CName 9 true 0]) /\
  resolve_path bd cwd (mkPath false [CName 16 false 1; CName 8 true 0]) = Some (cwd ++ [CName 16 false 1; CName 8 true 0]) /\
  resolve_path bd cwd (mkPath false [CName 12 false 0; CName 17 false 0]) = None.
Proof. cbv zeta. repeat split; reflexivity. Qed.
