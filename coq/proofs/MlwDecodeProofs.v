(* C07 -- proofs about model/MlwDecode.v: the bit writer/reader pair round-trips, the cursor
   reader reads exactly buf[pos>>3] bit pos&7 and never past the buffer, and the decoder model
   terminates within its fuel on every input. *)
From Coq Require Import ZArith List Bool Lia.
From VV Require Import model.MlwDecode.
Import ListNotations.
Open Scope Z_scope.

(* ------------------------------------------------------------------ lists *)
Lemma upd_length l n v : length (upd l n v) = length l.
Proof. revert n. induction l as [|h t IH]; intros [|n]; simpl; auto. Qed.

Lemma nth_upd_same l n v d : (n < length l)%nat -> nth n (upd l n v) d = v.
Proof. revert n. induction l as [|h t IH]; intros [|n]; simpl; intros H; try lia; auto. apply IH. lia. Qed.

Lemma nth_upd_other l n m v d : n <> m -> nth m (upd l n v) d = nth m l d.
Proof.
  revert n m. induction l as [|h t IH]; intros [|n] [|m]; simpl; intros H; auto; try congruence.
Qed.

Lemma skipn_nth {A} (l : list A) k d : (k < length l)%nat -> skipn k l = nth k l d :: skipn (S k) l.
Proof. revert k. induction l as [|h t IH]; intros [|k]; simpl; intros H; try lia; auto. apply IH. lia. Qed.

(* ------------------------------------------------------------------ literal reading *)
Fixpoint get_lit (buf : list Z) (pos : Z) (n : nat) : option Z :=
  match n with
  | O => Some 0
  | S n' =>
      match getbit_lit buf pos with
      | None => None
      | Some b => match get_lit buf (pos + 1) n' with None => None | Some d => Some (b + 2 * d) end
      end
  end.

(* the cursor reader reads exactly the literal bit and stays a cursor into the same buffer *)
Lemma getbit_mk buf pos :
  0 <= pos ->
  getbit (Z.of_nat (length buf)) (mk_reader buf pos) =
  match getbit_lit buf pos with Some b => Some (b, mk_reader buf (pos + 1)) | None => None end.
Proof.
  intros Hp. unfold getbit, getbit_lit, mk_reader. cbn [r_pos r_rest].
  destruct ((pos / 8 <? 0) || (Z.of_nat (length buf) <=? pos / 8)) eqn:C; [reflexivity|].
  apply orb_false_iff in C. destruct C as (C1 & C2).
  apply Z.ltb_ge in C1. apply Z.leb_gt in C2.
  rewrite (skipn_nth buf (Z.to_nat (pos / 8)) 0) by lia.
  f_equal. f_equal. f_equal.
  pose proof (Z.div_mod pos 8). pose proof (Z.mod_pos_bound pos 8).
  destruct (Z.eqb_spec (pos mod 8) 7) as [E|E].
  - replace ((pos + 1) / 8) with (pos / 8 + 1).
    + replace (Z.to_nat (pos / 8 + 1)) with (S (Z.to_nat (pos / 8))) by lia. reflexivity.
    + apply (Z.div_unique (pos + 1) 8 (pos / 8 + 1) 0); lia.
  - replace ((pos + 1) / 8) with (pos / 8).
    + rewrite <- skipn_nth by lia. reflexivity.
    + apply (Z.div_unique (pos + 1) 8 (pos / 8) (pos mod 8 + 1)); lia.
Qed.

Lemma get_bits_mk buf n pos :
  0 <= pos ->
  get_bits (Z.of_nat (length buf)) n (mk_reader buf pos) =
  match get_lit buf pos n with Some d => Some (d, mk_reader buf (pos + Z.of_nat n)) | None => None end.
Proof.
  revert pos. induction n as [|n IH]; intros pos Hp.
  - simpl. rewrite Z.add_0_r. reflexivity.
  - cbn [get_bits get_lit]. rewrite getbit_mk by lia.
    destruct (getbit_lit buf pos) as [b|]; [|reflexivity].
    rewrite IH by lia. destruct (get_lit buf (pos + 1) n); [|reflexivity].
    replace (pos + 1 + Z.of_nat n) with (pos + Z.of_nat (S n)) by lia. reflexivity.
Qed.

(* a successful literal read lies inside the buffer *)
Lemma getbit_lit_inside buf pos b : getbit_lit buf pos = Some b -> 0 <= pos / 8 < Z.of_nat (length buf).
Proof.
  unfold getbit_lit. destruct ((pos / 8 <? 0) || (Z.of_nat (length buf) <=? pos / 8)) eqn:C; [discriminate|].
  apply orb_false_iff in C. destruct C as (C1 & C2). apply Z.ltb_ge in C1. apply Z.leb_gt in C2. lia.
Qed.

(* ------------------------------------------------------------------ writer *)
Lemma putbit_length buf pos b : length (putbit buf pos b) = length buf.
Proof. apply upd_length. Qed.

Lemma put_bits_length buf pos n d : length (put_bits buf pos n d) = length buf.
Proof. revert buf pos d. induction n; simpl; intros; auto. rewrite IHn. apply putbit_length. Qed.

Lemma testbit_255 k : 0 <= k < 8 -> Z.testbit 255 k = true.
Proof. intros H. change 255 with (Z.ones 8). apply Z.ones_spec_low. lia. Qed.

Lemma testbit_bit b k : (b = 0 \/ b = 1) -> Z.testbit b k = ((b =? 1) && (k =? 0)).
Proof.
  intros [-> | ->].
  - rewrite Z.testbit_0_l. reflexivity.
  - destruct (Z.eqb_spec k 0) as [->|E]; [reflexivity|].
    destruct (Z.lt_ge_cases k 0); [apply Z.testbit_neg_r; lia|].
    change 1 with (2 ^ 0). rewrite Z.pow2_bits_eqb by lia. destruct (Z.eqb_spec 0 k); [lia|reflexivity].
Qed.

Lemma getbit_lit_putbit_same buf pos b :
  0 <= pos -> pos / 8 < Z.of_nat (length buf) -> (b = 0 \/ b = 1) ->
  getbit_lit (putbit buf pos b) pos = Some b.
Proof.
  intros Hp Hin Hb. unfold getbit_lit. rewrite putbit_length.
  assert (0 <= pos / 8) by (apply Z.div_pos; lia).
  destruct (Z.ltb_spec (pos / 8) 0); [lia|]. destruct (Z.leb_spec (Z.of_nat (length buf)) (pos / 8)); [lia|].
  cbn [orb]. unfold putbit. rewrite nth_upd_same by lia.
  pose proof (Z.mod_pos_bound pos 8). set (k := pos mod 8) in *.
  rewrite Z.land_spec, Z.lor_spec, !Z.land_spec, Z.lnot_spec, !Z.shiftl_spec, testbit_255 by lia.
  rewrite Z.sub_diag. rewrite (testbit_bit 1) by auto. rewrite (testbit_bit b) by auto.
  cbn. rewrite andb_false_r. cbn. rewrite !andb_true_r.
  destruct Hb as [-> | ->]; reflexivity.
Qed.

Lemma getbit_lit_putbit_other buf pos pos' b :
  0 <= pos -> 0 <= pos' -> pos <> pos' -> (b = 0 \/ b = 1) ->
  getbit_lit (putbit buf pos b) pos' = getbit_lit buf pos'.
Proof.
  intros Hp Hp' Hne Hb. unfold getbit_lit. rewrite putbit_length.
  destruct ((pos' / 8 <? 0) || (Z.of_nat (length buf) <=? pos' / 8)) eqn:C; [reflexivity|].
  apply orb_false_iff in C. destruct C as (C1 & C2). apply Z.ltb_ge in C1. apply Z.leb_gt in C2.
  f_equal. unfold putbit.
  destruct (Z.eq_dec (pos / 8) (pos' / 8)) as [E|E].
  - rewrite E. rewrite nth_upd_same by lia.
    pose proof (Z.mod_pos_bound pos 8). pose proof (Z.mod_pos_bound pos' 8).
    pose proof (Z.div_mod pos 8). pose proof (Z.div_mod pos' 8).
    set (k := pos mod 8) in *. set (k' := pos' mod 8) in *.
    assert (k <> k') by lia.
    rewrite Z.land_spec, Z.lor_spec, !Z.land_spec, Z.lnot_spec, testbit_255 by lia.
    rewrite andb_true_r.
    assert (T1 : Z.testbit (Z.shiftl 1 k) k' = false).
    { rewrite Z.shiftl_spec by lia. rewrite (testbit_bit 1) by auto.
      destruct (Z.eqb_spec (k' - k) 0); [lia|]. apply andb_false_r. }
    assert (T2 : Z.testbit (Z.shiftl b k) k' = false).
    { rewrite Z.shiftl_spec by lia. rewrite (testbit_bit b) by auto.
      destruct (Z.eqb_spec (k' - k) 0); [lia|]. apply andb_false_r. }
    rewrite T1, T2. cbn. rewrite andb_true_r, orb_false_r. reflexivity.
  - rewrite nth_upd_other; [reflexivity|].
    assert (0 <= pos / 8) by (apply Z.div_pos; lia). lia.
Qed.

Lemma land_1_bit d : Z.land d 1 = 0 \/ Z.land d 1 = 1.
Proof.
  assert (E : Z.land d 1 = d mod 2) by exact (Z.land_ones d 1 ltac:(lia)).
  pose proof (Z.mod_pos_bound d 2). lia.
Qed.

(* writing at pos.. does not change any bit below pos, nor any bit at or above pos+n *)
Lemma put_bits_frame buf pos n d pos' :
  0 <= pos -> 0 <= pos' -> (pos' < pos \/ pos + Z.of_nat n <= pos') ->
  getbit_lit (put_bits buf pos n d) pos' = getbit_lit buf pos'.
Proof.
  revert buf pos d. induction n as [|n IH]; intros buf pos d Hp Hp' Hout; [reflexivity|].
  cbn [put_bits]. rewrite IH by lia.
  apply getbit_lit_putbit_other; try lia. apply land_1_bit.
Qed.

Lemma get_lit_put_bits buf pos n d :
  0 <= pos -> pos + Z.of_nat n <= 8 * Z.of_nat (length buf) ->
  get_lit (put_bits buf pos n d) pos n = Some (d mod 2 ^ Z.of_nat n).
Proof.
  revert buf pos d. induction n as [|n IH]; intros buf pos d Hp Hfit.
  - simpl. rewrite Z.mod_1_r. reflexivity.
  - cbn [put_bits get_lit].
    rewrite put_bits_frame by lia.
    rewrite getbit_lit_putbit_same; try lia; [|apply Z.div_lt_upper_bound; lia|apply land_1_bit].
    rewrite IH; [|lia|rewrite putbit_length; lia].
    f_equal. rewrite Z.shiftr_div_pow2 by lia. change (2 ^ 1) with 2.
    assert (E : Z.land d 1 = d mod 2) by exact (Z.land_ones d 1 ltac:(lia)). rewrite E.
    replace (Z.of_nat (S n)) with (1 + Z.of_nat n) by lia.
    rewrite Z.pow_add_r by lia. change (2 ^ 1) with 2.
    rewrite Z.rem_mul_r by lia. reflexivity.
Qed.

Lemma bitbuf_put_get_roundtrip_lemma buf pos len data :
  0 <= pos -> 0 <= len -> pos + len <= 8 * Z.of_nat (length buf) ->
  let buf' := put_bits buf pos (Z.to_nat len) data in
  get (Z.of_nat (length buf')) len (mk_reader buf' pos) = Some (data mod 2 ^ len, mk_reader buf' (pos + len)) /\
  length buf' = length buf /\
  (forall p, 0 <= p -> p < pos \/ pos + len <= p -> getbit_lit buf' p = getbit_lit buf p).
Proof.
  intros Hp Hl Hfit buf'. split; [|split].
  - unfold get. rewrite get_bits_mk by lia. unfold buf'.
    rewrite get_lit_put_bits; [|lia|lia]. rewrite Z2Nat.id by lia. reflexivity.
  - apply put_bits_length.
  - intros p Hp0 Hout. apply put_bits_frame; lia.
Qed.

Example bitbuf_roundtrip_instance :
  let buf' := put_bits [255; 0; 170] 5 (Z.to_nat 11) 1337 in
  buf' = [63; 167; 170] /\ get 3 11 (mk_reader buf' 5) = Some (1337, mk_reader buf' 16).
Proof. vm_compute. auto. Qed.

(* ------------------------------------------------------------------ bounded iteration *)
Section Iter.
  Context {S R : Type}.
  Variable step : S -> S + R.
  Variable mu : S -> Z.
  Variable Inv : S -> Prop.
  Hypothesis Hstep : forall s s', Inv s -> step s = inl s' -> Inv s' /\ 0 <= mu s' < mu s.

  Lemma iter2_progress k s :
    Inv s ->
    (exists r, iter2 step k s = inr r) \/
    (exists s', iter2 step k s = inl s' /\ Inv s' /\ 0 <= mu s' /\ mu s' + 2 ^ Z.of_nat k <= mu s).
  Proof.
    revert s. induction k as [|k IH]; intros s Hi.
    - simpl. destruct (step s) as [s'|r] eqn:E; [right|left; eauto].
      destruct (Hstep s s' Hi E) as (Hi' & Hm). exists s'. repeat split; auto; lia.
    - cbn [iter2]. destruct (IH s Hi) as [(r & E)|(s1 & E & Hi1 & H0 & H1)]; rewrite E; [left; eauto|].
      destruct (IH s1 Hi1) as [(r & E2)|(s2 & E2 & Hi2 & H2 & H3)]; rewrite E2; [left; eauto|].
      right. exists s2. repeat split; auto.
      replace (Z.of_nat (Datatypes.S k)) with (Z.of_nat k + 1) by lia.
      rewrite Z.pow_add_r by lia. lia.
  Qed.

  Lemma iter2_terminates k s : Inv s -> mu s < 2 ^ Z.of_nat k -> exists r, iter2 step k s = inr r.
  Proof.
    intros Hi Hm. destruct (iter2_progress k s Hi) as [H|(s' & _ & _ & H0 & H1)]; [auto|lia].
  Qed.

  (* an invariant of the results *)
  Lemma iter2_result (P : R -> Prop) k s :
    (forall s r, Inv s -> step s = inr r -> P r) ->
    Inv s -> forall r, iter2 step k s = inr r -> P r.
  Proof.
    intros HP. revert s. induction k as [|k IH]; intros s Hi r E.
    - simpl in E. eauto.
    - cbn [iter2] in E. destruct (iter2 step k s) as [s1|r1] eqn:E1.
      + destruct (iter2_progress k s Hi) as [(r' & E')|(s' & E' & Hi' & _)]; rewrite E' in E1; [discriminate|].
        injection E1 as <-. eauto.
      + injection E as <-. eauto.
  Qed.
End Iter.

Lemma fuel_of_enough m : m < 2 ^ Z.of_nat (fuel_of m).
Proof.
  unfold fuel_of. set (a := Z.max 1 m). assert (0 < a) by lia.
  destruct (Z.log2_spec a H) as (_ & Hu).
  replace (Z.of_nat (Datatypes.S (Z.to_nat (Z.log2 a)))) with (Z.succ (Z.log2 a)).
  - lia.
  - pose proof (Z.log2_nonneg a). lia.
Qed.

(* ------------------------------------------------------------------ the reader only moves forward, inside the buffer *)
Lemma getbit_pos size r b r' :
  getbit size r = Some (b, r') -> r_pos r' = r_pos r + 1 /\ r_pos r' <= 8 * size /\ 0 <= r_pos r.
Proof.
  unfold getbit.
  destruct ((r_pos r / 8 <? 0) || (size <=? r_pos r / 8)) eqn:C; [discriminate|].
  apply orb_false_iff in C. destruct C as (C1 & C2). apply Z.ltb_ge in C1. apply Z.leb_gt in C2.
  destruct (r_rest r); [discriminate|]. intros E. injection E as _ <-. cbn [r_pos].
  pose proof (Z.div_mod (r_pos r) 8). pose proof (Z.mod_pos_bound (r_pos r) 8). lia.
Qed.

Lemma get_bits_pos size n r v r' :
  get_bits size n r = Some (v, r') ->
  r_pos r' = r_pos r + Z.of_nat n /\ (r_pos r <= 8 * size -> r_pos r' <= 8 * size).
Proof.
  revert r v r'. induction n as [|n IH]; intros r v r' E.
  - simpl in E. injection E as _ <-. lia.
  - cbn [get_bits] in E. destruct (getbit size r) as [[b r1]|] eqn:E1; [|discriminate].
    destruct (get_bits size n r1) as [[d r2]|] eqn:E2; [|discriminate]. injection E as _ <-.
    apply getbit_pos in E1. apply IH in E2. lia.
Qed.

Lemma get_pos size len r v r' :
  get size len r = Some (v, r') ->
  r_pos r' = r_pos r + Z.max 0 len /\ (r_pos r <= 8 * size -> r_pos r' <= 8 * size).
Proof. unfold get. intros E. apply get_bits_pos in E. lia. Qed.

Lemma read_remains_pos size div qs room r acc sum acc' room' sum' r' :
  read_remains size div qs room r acc sum = Some (acc', room', sum', r') ->
  r_pos r <= r_pos r' /\ (r_pos r <= 8 * size -> r_pos r' <= 8 * size).
Proof.
  revert room r acc sum. induction qs as [|q t IH]; intros room r acc sum E; cbn [read_remains] in E.
  - injection E as _ _ _ <-. lia.
  - destruct (room <=? 0); [injection E as _ _ _ <-; lia|].
    destruct (get size div r) as [[rem r1]|] eqn:E1; [|discriminate].
    apply get_pos in E1. apply IH in E. lia.
Qed.

Lemma read_palette_pos size palbits n r l r' :
  read_palette size palbits n r = Some (l, r') ->
  r_pos r <= r_pos r' /\ (r_pos r <= 8 * size -> r_pos r' <= 8 * size).
Proof.
  revert r l r'. induction n as [|n IH]; intros r l r' E; cbn [read_palette] in E.
  - injection E as _ <-. lia.
  - destruct (get size palbits r) as [[v r1]|] eqn:E1; [|discriminate].
    destruct (read_palette size palbits n r1) as [[l1 r2]|] eqn:E2; [|discriminate].
    injection E as _ <-. apply get_pos in E1. apply IH in E2. lia.
Qed.

(* with an all-zero unary word every position yields a symbol *)
Lemma w_syms_zero trunc n i u1 cnt : length (fst (w_syms trunc n i 0 u1 cnt)) = n.
Proof.
  revert i u1 cnt. induction n as [|n IH]; intros i u1 cnt; [reflexivity|].
  cbn [w_syms]. rewrite Z.testbit_0_l. cbn.
  destruct (w_syms trunc n (i + 1) 0 u1 0) as [l c] eqn:E. cbn.
  f_equal. specialize (IH (i + 1) u1 0). rewrite E in IH. exact IH.
Qed.

Lemma popcount_zero n i : popcount n i 0 = 0.
Proof. revert i. induction n as [|n IH]; intros i; cbn [popcount]; [reflexivity|]. rewrite Z.testbit_0_l, IH. reflexivity. Qed.

(* ------------------------------------------------------------------ the chunk loop *)
Definition chunk_mu (p : slice_par) (s : cst) : Z :=
  8 * sp_size p - r_pos (c_r s) + Z.max 0 (sp_nvalues p - c_wpos s).

Lemma chunk_step_props p s :
  match chunk_step p s with
  | inl s' => r_pos (c_r s) <= r_pos (c_r s') /\
              (r_pos (c_r s) <= 8 * sp_size p -> r_pos (c_r s') <= 8 * sp_size p /\ 0 <= chunk_mu p s' < chunk_mu p s)
  | inr (Some s') => r_pos (c_r s) <= r_pos (c_r s') /\
                     (r_pos (c_r s) <= 8 * sp_size p -> r_pos (c_r s') <= 8 * sp_size p)
  | inr None => True
  end.
Proof.
  unfold chunk_step.
  set (size := sp_size p).
  set (balance := if sp_use_zero_run p then c_wpos s - c_zpos s else 0).
  set (w_enable := ((balance <? 8) || negb (sp_use_zero_run p)) && (c_wpos s <? sp_nvalues p)).
  set (z_enable := (0 <=? balance) && sp_use_zero_run p && (c_zpos s <? sp_znvalues p)).
  set (zlen := if sp_zdiv p <? 3 then 12 else 8).
  set (maxs := if sp_w_unc p && (5 <? sp_wdiv p) then 8 else 12).
  destruct (if w_enable && negb (sp_w_unc p) then get size 12 (c_r s) else Some (0, c_r s)) as [[u0 r1]|] eqn:E1; [|exact I].
  destruct (if z_enable then get size zlen r1 else Some (0, r1)) as [[zu r2]|] eqn:E2; [|exact I].
  destruct (if z_enable then z_syms (Z.to_nat zlen) 0 zu (c_zcarry s) else (c_zq s, c_zcarry s)) as [zq zcarry] eqn:EZ.
  destruct (if w_enable then get size (if w_enable then popcount (Z.to_nat maxs) 0 u0 else 0) r2 else Some (0, r2)) as [[u1 r3]|] eqn:E3; [|exact I].
  destruct (if w_enable then w_syms (sp_wtrunc p) (Z.to_nat maxs) 0 u0 u1 (c_wcarry s) else (c_wq s, c_wcarry s)) as [wq wcarry] eqn:EW.
  destruct (if c_wprev s then read_remains size (sp_wdiv p) (c_wq s) (c_wroom s) r3 (c_wvals s) 0 else Some (c_wvals s, c_wroom s, 0, r3)) as [[[[wvals wroom] ws] r4]|] eqn:E4; [|exact I].
  destruct (if c_zprev s then read_remains size (sp_zdiv p) (c_zq s) (c_zroom s) r4 (c_zvals s) 0 else Some (c_zvals s, c_zroom s, 0, r4)) as [[[[zvals zroom] zs] r5]|] eqn:E5; [|exact I].
  assert (Hwe : w_enable = true -> c_wpos s < sp_nvalues p).
  { unfold w_enable. intros H. apply andb_true_iff in H. destruct H as [_ H]. now apply Z.ltb_lt in H. }
  assert (Hmax : 8 <= maxs) by (unfold maxs; destruct (sp_w_unc p && (5 <? sp_wdiv p)); lia).
  assert (Hzl : 8 <= zlen) by (unfold zlen; destruct (sp_zdiv p <? 3); lia).
  clearbody w_enable z_enable maxs zlen. clear balance.
  assert (P1 : r_pos (c_r s) <= r_pos r1 /\ (r_pos (c_r s) <= 8 * size -> r_pos r1 <= 8 * size) /\
               (w_enable && negb (sp_w_unc p) = true -> r_pos r1 = r_pos (c_r s) + 12)).
  { destruct (w_enable && negb (sp_w_unc p)).
    - apply get_pos in E1. lia.
    - injection E1 as _ <-. repeat split; auto; try lia; try discriminate. }
  assert (P2 : r_pos r1 <= r_pos r2 /\ (r_pos r1 <= 8 * size -> r_pos r2 <= 8 * size) /\
               (z_enable = true -> r_pos r2 = r_pos r1 + zlen)).
  { destruct z_enable.
    - apply get_pos in E2. lia.
    - injection E2 as _ <-. repeat split; auto; try lia; try discriminate. }
  assert (P3 : r_pos r2 <= r_pos r3 /\ (r_pos r2 <= 8 * size -> r_pos r3 <= 8 * size)).
  { destruct w_enable.
    - apply get_pos in E3. lia.
    - injection E3 as _ <-. lia. }
  assert (P4 : r_pos r3 <= r_pos r4 /\ (r_pos r3 <= 8 * size -> r_pos r4 <= 8 * size)).
  { destruct (c_wprev s).
    - apply read_remains_pos in E4. lia.
    - injection E4 as _ _ _ <-. lia. }
  assert (P5 : r_pos r4 <= r_pos r5 /\ (r_pos r4 <= 8 * size -> r_pos r5 <= 8 * size)).
  { destruct (c_zprev s).
    - apply read_remains_pos in E5. lia.
    - injection E5 as _ _ _ <-. lia. }
  assert (PW : w_enable = true -> sp_w_unc p = true -> Z.of_nat (length wq) = maxs).
  { intros Hw Hu. rewrite Hw, Hu in E1. cbn in E1. injection E1 as <- _.
    rewrite Hw in EW. pose proof (w_syms_zero (sp_wtrunc p) (Z.to_nat maxs) 0 u1 (c_wcarry s)) as L.
    rewrite EW in L. cbn in L. rewrite L. apply Z2Nat.id. clear -Hmax. lia. }
  destruct P1 as (P1a & P1b & P1c). destruct P2 as (P2a & P2b & P2c).
  destruct w_enable, z_enable; cbn [orb]; unfold chunk_mu; cbn [c_r c_wpos]; fold size.
  - split; [lia|]. intros Hb. split; [lia|]. specialize (Hwe eq_refl).
    destruct (sp_w_unc p); cbn in P1c; [specialize (PW eq_refl eq_refl)|specialize (P1c eq_refl)]; try specialize (P2c eq_refl); lia.
  - split; [lia|]. intros Hb. split; [lia|]. specialize (Hwe eq_refl).
    destruct (sp_w_unc p); cbn in P1c; [specialize (PW eq_refl eq_refl)|specialize (P1c eq_refl)]; try specialize (P2c eq_refl); lia.
  - specialize (P2c eq_refl). split; [lia|]. intros Hb. split; [lia|]. lia.
  - split; lia.
Qed.


Lemma chunk_loop_props p k c0 :
  r_pos (c_r c0) <= 8 * sp_size p -> chunk_mu p c0 < 2 ^ Z.of_nat k ->
  match iter2 (chunk_step p) k c0 with
  | inl _ => False
  | inr None => True
  | inr (Some c) => r_pos (c_r c0) <= r_pos (c_r c) <= 8 * sp_size p
  end.
Proof.
  intros Hb Hm.
  set (Inv := fun s : cst => r_pos (c_r c0) <= r_pos (c_r s) <= 8 * sp_size p).
  assert (Hstep : forall s s', Inv s -> chunk_step p s = inl s' -> Inv s' /\ 0 <= chunk_mu p s' < chunk_mu p s).
  { intros s s' Hi E. pose proof (chunk_step_props p s) as H. rewrite E in H. unfold Inv in *. lia. }
  assert (Hi0 : Inv c0) by (unfold Inv; lia).
  destruct (iter2_terminates (chunk_step p) (chunk_mu p) Inv Hstep k c0 Hi0 Hm) as (r & E). rewrite E.
  apply (iter2_result (chunk_step p) (chunk_mu p) Inv Hstep
           (fun r => match r with Some c => r_pos (c_r c0) <= r_pos (c_r c) <= 8 * sp_size p | None => True end) k c0); auto.
  intros s [c|] Hi Es; [|exact I]. pose proof (chunk_step_props p s) as H. rewrite Es in H. unfold Inv in Hi. lia.
Qed.

(* ------------------------------------------------------------------ the end-of-stream loop *)
Definition eos_pos (s : reader * Z * bool) : Z := r_pos (fst (fst s)).

Lemma eos_step_props size s :
  match eos_step size s with
  | inl s' => eos_pos s < eos_pos s' /\ (eos_pos s <= 8 * size -> eos_pos s' <= 8 * size)
  | inr (Some s') => eos_pos s <= eos_pos s' /\ (eos_pos s <= 8 * size -> eos_pos s' <= 8 * size)
  | inr None => True
  end.
Proof.
  destruct s as [[r z] f]. unfold eos_step, eos_pos. cbn [fst].
  destruct (z =? 7); [|cbn [fst]; lia].
  destruct (get size (Z.land (8 - Z.land (r_pos r) 7) 7) r) as [[v r1]|] eqn:E1; [|exact I].
  apply get_pos in E1.
  destruct (r_pos r1 / 8 =? size); [cbn [fst]; lia|].
  destruct (get size 3 r1) as [[z' r2]|] eqn:E2; [|exact I].
  apply get_pos in E2. cbn [fst]. lia.
Qed.

Lemma eos_loop_props size k s0 :
  eos_pos s0 <= 8 * size -> 8 * size - eos_pos s0 < 2 ^ Z.of_nat k ->
  match iter2 (eos_step size) k s0 with
  | inl _ => False
  | inr None => True
  | inr (Some s) => eos_pos s0 <= eos_pos s <= 8 * size
  end.
Proof.
  intros Hb Hm.
  set (Inv := fun s => eos_pos s0 <= eos_pos s <= 8 * size).
  set (mu := fun s => 8 * size - eos_pos s).
  assert (Hstep : forall s s', Inv s -> eos_step size s = inl s' -> Inv s' /\ 0 <= mu s' < mu s).
  { intros s s' Hi E. pose proof (eos_step_props size s) as H. rewrite E in H. unfold Inv, mu in *. lia. }
  assert (Hi0 : Inv s0) by (unfold Inv; lia).
  destruct (iter2_terminates (eos_step size) mu Inv Hstep k s0 Hi0 Hm) as (r & E). rewrite E.
  apply (iter2_result (eos_step size) mu Inv Hstep
           (fun r => match r with Some s => eos_pos s0 <= eos_pos s <= 8 * size | None => True end) k s0); auto.
  intros s [s'|] Hi Es; [|exact I]. pose proof (eos_step_props size s) as H. rewrite Es in H. unfold Inv in Hi. lia.
Qed.

Lemma get_bits_S size n r :
  get_bits size (S n) r =
  match getbit size r with
  | None => None
  | Some (b, r1) => match get_bits size n r1 with None => None | Some (d, r2) => Some (b + 2 * d, r2) end
  end.
Proof. reflexivity. Qed.

Lemma get_bits_range size n r v r' : get_bits size n r = Some (v, r') -> 0 <= v < 2 ^ Z.of_nat n.
Proof.
  revert r v r'. induction n as [|n IH]; intros r v r' E.
  - simpl in E. injection E as <- _. simpl. lia.
  - rewrite get_bits_S in E. destruct (getbit size r) as [[b r1]|] eqn:E1; [|discriminate].
    destruct (get_bits size n r1) as [[d r2]|] eqn:E2; [|discriminate]. injection E as <- _.
    apply IH in E2.
    assert (b = 0 \/ b = 1).
    { unfold getbit in E1. destruct ((r_pos r / 8 <? 0) || (size <=? r_pos r / 8)); [discriminate|].
      destruct (r_rest r); [discriminate|]. injection E1 as <- _. destruct (Z.testbit _ _); auto. }
    replace (Z.of_nat (S n)) with (Z.of_nat n + 1) by lia. rewrite Z.pow_add_r by lia.
    change (2 ^ 1) with 2.
    match goal with |- 0 <= b + ?m < _ => change m with (2 * d) end. lia.
Qed.

(* ------------------------------------------------------------------ the slice loop *)
Lemma slice_step_props strict size k s :
  0 <= r_pos (s_r s) <= 8 * size -> 8 * size + 32768 < 2 ^ Z.of_nat k ->
  match slice_step strict size k s with
  | inl s' => r_pos (s_r s) < r_pos (s_r s') <= 8 * size
  | inr (d, _) => d <> DFuel
  end.
Proof.
  intros Hb Hk. unfold slice_step, bind.
  destruct (get size 3 (s_r s)) as [[z0 r0]|] eqn:G0; [|discriminate].
  pose proof (get_pos _ _ _ _ _ G0) as P0. change (Z.max 0 3) with 3 in P0.
  pose proof (eos_loop_props size k (r0, z0, s_first s)) as EL. unfold eos_pos in EL. cbn [fst] in EL.
  destruct (iter2 (eos_step size) k (r0, z0, s_first s)) as [?|[[[r1 z] first]|]]; [exfalso; apply EL; lia| |discriminate].
  cbn [fst] in EL. assert (P1 : r_pos r0 <= r_pos r1 <= 8 * size) by (apply EL; lia). clear EL.
  destruct (r_pos r1 / 8 =? size); [discriminate|].
  destruct (strict && negb ((z <? 4) || (z =? 6))); [discriminate|].
  destruct (get size 15 r1) as [[nv r2]|] eqn:G2; [|discriminate].
  pose proof (get_pos _ _ _ _ _ G2) as P2. unfold get in G2. apply get_bits_range in G2.
  destruct (get size 3 r2) as [[wdiv r3]|] eqn:G3; [|discriminate]. apply get_pos in G3.
  destruct (get size 1 r3) as [[wtrunc r4]|] eqn:G4; [|discriminate]. apply get_pos in G4.
  destruct (get size 1 r4) as [[newpal r5]|] eqn:G5; [|discriminate]. apply get_pos in G5.
  destruct (strict && first && (newpal =? 0)); [discriminate|].
  destruct (strict && (newpal =? 0) && negb (eqb (negb (z =? 6)) (negb (s_zprev s =? 6)))); [discriminate|].
  destruct (read_hdr_pal size s newpal r5) as [[[[[dofs palsize] palbits] pal] r9]|] eqn:HP; [|discriminate].
  assert (P9 : r_pos r5 <= r_pos r9 /\ (r_pos r5 <= 8 * size -> r_pos r9 <= 8 * size)).
  { unfold read_hdr_pal in HP. destruct (newpal =? 0); [injection HP as _ _ _ _ <-; lia|].
    destruct (get size 5 r5) as [[a r6]|] eqn:G6; [|discriminate]. apply get_pos in G6.
    destruct (get size 5 r6) as [[b r7]|] eqn:G7; [|discriminate]. apply get_pos in G7.
    destruct (get size 3 r7) as [[e r8]|] eqn:G8; [|discriminate]. apply get_pos in G8.
    destruct (read_palette size (e + 2) (Z.to_nat (if 0 <? b then b + 1 else b)) r8) as [[l r9']|] eqn:G9; [|discriminate].
    apply read_palette_pos in G9. injection HP as _ _ _ _ <-. lia. }
  destruct (strict && negb (wdiv =? 7) && negb (wdiv <? 6)); [discriminate|].
  match goal with |- context [iter2 (chunk_step ?p) k ?c0] =>
    pose proof (chunk_loop_props p k c0) as CL; destruct (iter2 (chunk_step p) k c0) as [?|[c|]] end.
  - exfalso. apply CL; unfold chunk_mu; cbn [sp_size sp_nvalues c_r c_wpos]; [lia|].
    change (2 ^ Z.of_nat (Z.to_nat 15)) with 32768 in G2. lia.
  - cbn [sp_size c_r] in CL.
    assert (r_pos r9 <= r_pos (c_r c) <= 8 * size).
    { apply CL; unfold chunk_mu; cbn [sp_size sp_nvalues c_r c_wpos]; [lia|].
      change (2 ^ Z.of_nat (Z.to_nat 15)) with 32768 in G2. lia. }
    destruct (emit strict _ _ _ _ _ _ _); [|discriminate]. cbn [s_r]. lia.
  - discriminate.
Qed.


(* ------------------------------------------------------------------ totality *)
Lemma decode_fuel_total k strict buf :
  8 * Z.of_nat (length buf) + 32768 < 2 ^ Z.of_nat k -> fst (decode_fuel k strict buf) <> DFuel.
Proof.
  intros Hk. unfold decode_fuel. set (size := Z.of_nat (length buf)) in *.
  set (s0 := {| s_r := {| r_rest := buf; r_pos := 0 |}; s_first := true; s_zprev := 0; s_palsize := 0;
                s_palbits := 0; s_dofs := 0; s_palette := []; s_out := []; s_trace := [] |}).
  set (Inv := fun s : sst => 0 <= r_pos (s_r s) <= 8 * size).
  set (mu := fun s : sst => 8 * size - r_pos (s_r s)).
  assert (Hstep : forall s s', Inv s -> slice_step strict size k s = inl s' -> Inv s' /\ 0 <= mu s' < mu s).
  { intros s s' Hi E. pose proof (slice_step_props strict size k s Hi Hk) as H. rewrite E in H.
    unfold Inv, mu in *. lia. }
  assert (Hsz : 0 <= size) by (unfold size; lia).
  assert (Hi0 : Inv s0) by (unfold Inv, s0; cbn [s_r r_pos]; lia).
  assert (Hm : mu s0 < 2 ^ Z.of_nat k) by (unfold mu, s0; cbn [s_r r_pos]; lia).
  destruct (iter2_terminates (slice_step strict size k) mu Inv Hstep k s0 Hi0 Hm) as ([d tr] & E).
  rewrite E. cbn [fst].
  apply (iter2_result (slice_step strict size k) mu Inv Hstep (fun r => fst r <> DFuel) k s0) in E; auto.
  intros s [d' tr'] Hi Es. pose proof (slice_step_props strict size k s Hi Hk) as H. rewrite Es in H. exact H.
Qed.

Lemma decode_total_lemma strict buf : decode strict buf <> DFuel.
Proof.
  unfold decode. apply decode_fuel_total. unfold default_fuel.
  pose proof (fuel_of_enough (8 * Z.of_nat (length buf) + 32768 + 2)). lia.
Qed.

(* every bit the decoder model consumes is the literal bit buf[pos>>3] >> (pos&7) of a byte inside
   the buffer (the reader is only ever advanced by getbit, starting from mk_reader buf 0) *)
Lemma reader_never_past_buffer_lemma buf pos b r' :
  0 <= pos -> getbit (Z.of_nat (length buf)) (mk_reader buf pos) = Some (b, r') ->
  getbit_lit buf pos = Some b /\ 0 <= pos / 8 < Z.of_nat (length buf) /\ r' = mk_reader buf (pos + 1).
Proof.
  intros Hp E. rewrite getbit_mk in E by lia.
  destruct (getbit_lit buf pos) as [b'|] eqn:G; [|discriminate]. injection E as <- <-.
  split; [reflexivity|]. split; [eapply getbit_lit_inside; eauto|reflexivity].
Qed.

Lemma initial_reader buf : {| r_rest := buf; r_pos := 0 |} = mk_reader buf 0.
Proof. reflexivity. Qed.

(* two streams produced by the real encoder (mlw_codec.encode): a direct-mode slice and a
   zero-run slice with a palette; the model decodes them, with and without assertions, to the
   weights that were encoded; a truncated stream is an underrun, not a wrong answer *)
Example decode_instance :
  decode true [48; 0; 92; 97; 254; 223; 191; 3; 5; 6; 10; 8; 192; 49; 0; 112; 57; 68; 255; 255; 255; 255; 255;
               255; 255; 255; 255; 255; 255; 255; 255; 255]
  = DOk [1; -2; 3; 0; 0; 0; 5; -255; 255; 0; 0; 7] /\
  decode false [26; 0; 96; 33; 34; 206; 0; 180; 35; 95; 255; 255; 255; 255; 255; 255]
  = DOk [0; 0; 1; 0; 0; 0; 0; 0; 0; 0; -1; 0; 0; 0; 0; 0; 0; 0; 0; 0; 0; 0; 2; 0; 0; 0; 0; 0; 0; 0; 0; 0; 0; 0;
         0; 0; 0; 1; 0; 0] /\
  decode true [26; 0; 96; 33; 34; 206] = DUnderrun.
Proof. vm_compute. auto. Qed.
